import GoguVerif.Gen.Funcs
import GoguVerif.Model.C14
/-!
# The regenerated tie for the map helpers (`map.go`, `filter.go`; property C14)

`Gen/Funcs.lean` is produced by the translator from the Go source.  Each `…_tie` theorem below states
that the regenerated definition equals the hand-written model of `Model/C14.lean`, instantiated at
`K = V = Int` (the zero value of `Int` being `default = 0`), for ALL inputs: a map is an arbitrary
`List (Int × Int)`; no theorem needs the keys of the list to be distinct.

Statement forms.  Pure functions: `Gen.Funcs.F args = Model.C14.F args'`.  RES-mode functions
(`Res α = Except Exc α`): `Gen.Funcs.F args = ofC14 (Model.C14.F args')`, where `ofC14` is the
(injective, `ofC14_injective`) embedding of the model's `Outcome` into `Res`.  `Pick` returns an error
(not a panic) for an empty key list: the model's second component says so.

`MapCollection` has no counterpart in `Model/C14.lean`, so it has no tie here.
-/
namespace GoguVerif.Theorems.GenTieC14
open GoguVerif
open GoguVerif.Gen.Funcs (Res Exc goIdx goSet mapHas mapSet mapGet mapDel goSortAsc goInsertAsc)

/-- embedding of the model's outcome type into the result type of RES-mode translations -/
def ofC14 {α : Type} : Model.C14.Outcome α → Res α
  | .ok a => .ok a
  | .panic => .error .panic

theorem ofC14_injective {α : Type} (a b : Model.C14.Outcome α) (h : ofC14 a = ofC14 b) : a = b := by
  cases a <;> cases b <;> simp_all [ofC14]

/-- the value of a loop with `break`: the state at the `break`, or the state at the end -/
def joinSum {α : Type} : α ⊕ α → α
  | .inl a => a
  | .inr a => a

/-- the value a loop with early `return` yields: the returned value, or the default -/
def fromSum {α σ : Type} (d : α) : α ⊕ σ → α
  | .inl r => r
  | .inr _ => d

/-- second component of a RES-mode pair -/
def resSnd {α β : Type} : Res (α × β) → Res β
  | .error e => .error e
  | .ok p => .ok p.2

/-! ## Bridging lemmas: the prelude of `Gen/Funcs.lean` = the primitives of `Model/C14.lean` -/

theorem mapHas_eq {κ β : Type} [DecidableEq κ] (m : List (κ × β)) (k : κ) :
    mapHas m k = (Model.C14.get? m k).isSome := by
  induction m with
  | nil => rfl
  | cons e r ih =>
    obtain ⟨k', v⟩ := e
    simp only [mapHas, Model.C14.get?]
    by_cases h : k' = k
    · simp [h]
    · simp [h, ih]

theorem mapGet_eq {κ β : Type} [DecidableEq κ] [Inhabited β] (m : List (κ × β)) (k : κ) :
    mapGet m k default = Model.C14.idx m k := by
  induction m with
  | nil => rfl
  | cons e r ih =>
    obtain ⟨k', v⟩ := e
    simp only [mapGet, Model.C14.idx, Model.C14.get?] at ih ⊢
    by_cases h : k' = k
    · simp [h]
    · simp [h, ih]

theorem mapGet_int (m : List (Int × Int)) (k : Int) : mapGet m k (0 : Int) = Model.C14.idx m k :=
  mapGet_eq m k

theorem mapSet_eq {κ β : Type} [DecidableEq κ] (m : List (κ × β)) (k : κ) (v : β) :
    mapSet m k v = Model.C14.put m k v := by
  induction m with
  | nil => rfl
  | cons e r ih =>
    obtain ⟨k', v'⟩ := e
    simp only [mapSet, Model.C14.put, ih]

theorem mapDel_eq {κ β : Type} [DecidableEq κ] (m : List (κ × β)) (k : κ) :
    mapDel m k = Model.C14.del m k := by
  induction m with
  | nil => rfl
  | cons e r ih =>
    obtain ⟨k', v'⟩ := e
    simp only [mapDel, Model.C14.del, ih]

theorem storeAt_eq {α : Type} (s : List α) (i : Nat) (x : α) :
    Model.C14.storeAt s i x = if i < s.length then .ok (s.set i x) else .panic := by
  induction s generalizing i with
  | nil => rfl
  | cons y r ih =>
    cases i with
    | zero => simp [Model.C14.storeAt]
    | succ n =>
      simp only [Model.C14.storeAt, ih n, List.length_cons, Nat.add_lt_add_iff_right, List.set_cons_succ]
      by_cases h : n < r.length <;> simp [h]

theorem goSet_nat {α : Type} (s : List α) (k : Nat) (v : α) :
    goSet s (k : Int) v = if k < s.length then Except.ok (s.set k v) else Except.error Exc.panic := by
  unfold goSet
  by_cases h : k < s.length
  · have : 0 ≤ (k : Int) ∧ (k : Int) < (s.length : Int) := by omega
    simp [h, this]
  · simp [h]

/-- `s[i] = v` for `0 ≤ i` (the index written as a natural number) -/
theorem goSet_storeAt {α : Type} (s : List α) (i : Nat) (x : α) :
    goSet s (i : Int) x = ofC14 (Model.C14.storeAt s i x) := by
  rw [goSet_nat, storeAt_eq]
  by_cases h : i < s.length <;> simp [h, ofC14]

/-- the same with an `Int` index and the hypothesis `0 ≤ i` -/
theorem goSet_storeAt_int {α : Type} (s : List α) (i : Int) (hi : 0 ≤ i) (x : α) :
    goSet s i x = ofC14 (Model.C14.storeAt s i.toNat x) := by
  have := goSet_storeAt s i.toNat x
  rwa [Int.toNat_of_nonneg hi] at this

theorem goInsertAsc_eq (x : Int) (l : List Int) : goInsertAsc x l = Model.C14.insertSorted x l := by
  induction l with
  | nil => rfl
  | cons y r ih => simp only [goInsertAsc, Model.C14.insertSorted, ih]

theorem goSortAsc_eq (l : List Int) : goSortAsc l = Model.C14.sortKeys l := by
  induction l with
  | nil => rfl
  | cons y r ih =>
    simp only [goSortAsc, Model.C14.sortKeys, List.foldr_cons] at ih ⊢
    rw [ih, goInsertAsc_eq]

theorem contains_loop (s0 : List Int) (value : Int) (s : List Int) (k : Int) :
    fromSum false (Gen.Funcs.Contains.loop1 s0 value s k ()) = Model.C14.Contains s value := by
  induction s generalizing k with
  | nil => rfl
  | cons v r ih =>
    simp only [Gen.Funcs.Contains.loop1, Model.C14.Contains]
    by_cases h : v = value
    · simp [h, fromSum]
    · simp only [h, decide_false, Bool.false_eq_true, if_false]
      exact ih (k + 1)

theorem contains_eq (s : List Int) (value : Int) : Gen.Funcs.Contains s value = Model.C14.Contains s value := by
  rw [← contains_loop s value s 0]
  unfold Gen.Funcs.Contains
  cases Gen.Funcs.Contains.loop1 s value s 0 () <;> rfl

/-! ## Keys, Values -/

theorem keys_loop (m0 m : List (Int × Int)) (i : Nat) (keys : List Int) :
    resSnd (Gen.Funcs.Keys.loop1 m0 m ((i : Int), keys)) = ofC14 (Model.C14.keysLoop m keys i) := by
  induction m generalizing i keys with
  | nil => rfl
  | cons e r ih =>
    obtain ⟨k, v⟩ := e
    simp only [Gen.Funcs.Keys.loop1, Model.C14.keysLoop, goSet_storeAt]
    cases Model.C14.storeAt keys i k with
    | panic => rfl
    | ok keys' =>
      simp only [ofC14]
      exact ih (i + 1) keys'

theorem keys_tie (m : List (Int × Int)) : Gen.Funcs.Keys m = ofC14 (Model.C14.Keys m) := by
  have h := keys_loop m m 0 (List.replicate m.length 0)
  unfold Model.C14.Keys
  rw [show (default : Int) = 0 from rfl, ← h]
  unfold Gen.Funcs.Keys
  simp only [Int.natCast_zero]
  cases Gen.Funcs.Keys.loop1 m m (0, List.replicate m.length 0) <;> rfl

theorem values_loop (m0 m : List (Int × Int)) (i : Nat) (values : List Int) :
    resSnd (Gen.Funcs.Values.loop1 m0 m ((i : Int), values)) = ofC14 (Model.C14.valuesLoop m values i) := by
  induction m generalizing i values with
  | nil => rfl
  | cons e r ih =>
    obtain ⟨k, v⟩ := e
    simp only [Gen.Funcs.Values.loop1, Model.C14.valuesLoop, goSet_storeAt]
    cases Model.C14.storeAt values i v with
    | panic => rfl
    | ok values' =>
      simp only [ofC14]
      exact ih (i + 1) values'

theorem values_tie (m : List (Int × Int)) : Gen.Funcs.Values m = ofC14 (Model.C14.Values m) := by
  have h := values_loop m m 0 (List.replicate m.length 0)
  unfold Model.C14.Values
  rw [show (default : Int) = 0 from rfl, ← h]
  unfold Gen.Funcs.Values
  simp only [Int.natCast_zero]
  cases Gen.Funcs.Values.loop1 m m (0, List.replicate m.length 0) <;> rfl

/-! ## MapValues, MapKeys -/

theorem mapValues_loop (m0 : List (Int × Int)) (fn : Int → Int) (m newMap : List (Int × Int)) :
    Gen.Funcs.MapValues.loop1 m0 fn m newMap = Model.C14.mapValuesLoop fn m newMap := by
  induction m generalizing newMap with
  | nil => rfl
  | cons e r ih =>
    obtain ⟨k, v⟩ := e
    simp only [Gen.Funcs.MapValues.loop1, Model.C14.mapValuesLoop, mapSet_eq, ih]

theorem mapValues_tie (m : List (Int × Int)) (fn : Int → Int) :
    Gen.Funcs.MapValues m fn = Model.C14.MapValues m fn := by
  simp only [Gen.Funcs.MapValues, Model.C14.MapValues, mapValues_loop]

theorem mapKeys_loop (m0 : List (Int × Int)) (fn : Int → Int → Int) (m newMap : List (Int × Int)) :
    Gen.Funcs.MapKeys.loop1 m0 fn m newMap = Model.C14.mapKeysLoop fn m newMap := by
  induction m generalizing newMap with
  | nil => rfl
  | cons e r ih =>
    obtain ⟨k, v⟩ := e
    simp only [Gen.Funcs.MapKeys.loop1, Model.C14.mapKeysLoop, mapSet_eq, ih]

theorem mapKeys_tie (m : List (Int × Int)) (fn : Int → Int → Int) :
    Gen.Funcs.MapKeys m fn = Model.C14.MapKeys m fn := by
  simp only [Gen.Funcs.MapKeys, Model.C14.MapKeys, mapKeys_loop]

/-! ## MapEvery, MapSome, MapContains -/

theorem mapEvery_loop (m0 : List (Int × Int)) (fn : Int → Bool) (m : List (Int × Int)) :
    fromSum true (Gen.Funcs.MapEvery.loop1 m0 fn m ()) = Model.C14.MapEvery fn m := by
  induction m with
  | nil => rfl
  | cons e r ih =>
    obtain ⟨k, v⟩ := e
    simp only [Gen.Funcs.MapEvery.loop1, Model.C14.MapEvery]
    cases h : fn v
    · simp [fromSum]
    · simp only [Bool.not_true, Bool.false_eq_true, if_false]
      exact ih

theorem mapEvery_tie (m : List (Int × Int)) (fn : Int → Bool) :
    Gen.Funcs.MapEvery m fn = Model.C14.MapEvery fn m := by
  rw [← mapEvery_loop m fn m]
  unfold Gen.Funcs.MapEvery
  cases Gen.Funcs.MapEvery.loop1 m fn m () <;> rfl

theorem mapSome_loop (m0 : List (Int × Int)) (fn : Int → Bool) (m : List (Int × Int)) :
    fromSum false (Gen.Funcs.MapSome.loop1 m0 fn m ()) = Model.C14.MapSome fn m := by
  induction m with
  | nil => rfl
  | cons e r ih =>
    obtain ⟨k, v⟩ := e
    simp only [Gen.Funcs.MapSome.loop1, Model.C14.MapSome]
    cases h : fn v
    · simp only [Bool.false_eq_true, if_false]
      exact ih
    · simp [fromSum]

theorem mapSome_tie (m : List (Int × Int)) (fn : Int → Bool) :
    Gen.Funcs.MapSome m fn = Model.C14.MapSome fn m := by
  rw [← mapSome_loop m fn m]
  unfold Gen.Funcs.MapSome
  cases Gen.Funcs.MapSome.loop1 m fn m () <;> rfl

theorem mapContains_loop (m0 : List (Int × Int)) (value : Int) (m : List (Int × Int)) :
    fromSum false (Gen.Funcs.MapContains.loop1 m0 value m ()) = Model.C14.MapContains value m := by
  induction m with
  | nil => rfl
  | cons e r ih =>
    obtain ⟨k, v⟩ := e
    simp only [Gen.Funcs.MapContains.loop1, Model.C14.MapContains]
    by_cases h : v = value
    · simp [h, fromSum]
    · simp only [h, decide_false, Bool.false_eq_true, if_false]
      exact ih

theorem mapContains_tie (m : List (Int × Int)) (value : Int) :
    Gen.Funcs.MapContains m value = Model.C14.MapContains value m := by
  rw [← mapContains_loop m value m]
  unfold Gen.Funcs.MapContains
  cases Gen.Funcs.MapContains.loop1 m value m () <;> rfl

/-! ## MapUnique -/

theorem mapUnique_loop (m0 m : List (Int × Int)) (ref : List (Int × Bool)) (result : List (Int × Int)) :
    (Gen.Funcs.MapUnique.loop1 m0 m (ref, result)).2 = Model.C14.mapUniqueLoop m result ref := by
  induction m generalizing ref result with
  | nil => rfl
  | cons e r ih =>
    obtain ⟨k, v⟩ := e
    simp only [Gen.Funcs.MapUnique.loop1, Model.C14.mapUniqueLoop, mapHas_eq, mapSet_eq]
    cases h : Model.C14.get? ref v with
    | none => simp only [Option.isSome_none, Bool.not_false, if_true]; exact ih _ _
    | some b => simp only [Option.isSome_some, Bool.not_true, Bool.false_eq_true, if_false]; exact ih _ _

theorem mapUnique_tie (m : List (Int × Int)) : Gen.Funcs.MapUnique m = Model.C14.MapUnique m := by
  rw [Model.C14.MapUnique, ← mapUnique_loop m m [] []]
  rfl

/-! ## Find, FindKey, FindByKey -/

theorem find_loop1 (m0 : List (Int × Int)) (fn : Int → Bool) (m : List (Int × Int)) (i : Nat) (keys : List Int) :
    resSnd (Gen.Funcs.Find.loop1 m0 fn m ((i : Int), keys)) = ofC14 (Model.C14.keysLoop m keys i) := by
  induction m generalizing i keys with
  | nil => rfl
  | cons e r ih =>
    obtain ⟨k, v⟩ := e
    simp only [Gen.Funcs.Find.loop1, Model.C14.keysLoop, goSet_storeAt]
    cases Model.C14.storeAt keys i k with
    | panic => rfl
    | ok keys' =>
      simp only [ofC14]
      exact ih (i + 1) keys'

theorem find_loop2 (m : List (Int × Int)) (fn : Int → Bool) (ks : List Int) (k_ : Int) :
    joinSum (Gen.Funcs.Find.loop2 m fn ks k_ []) = Model.C14.findLoop m fn ks := by
  induction ks generalizing k_ with
  | nil => rfl
  | cons k r ih =>
    simp only [Gen.Funcs.Find.loop2, Model.C14.findLoop, mapGet_int, mapSet_eq]
    cases h : fn (Model.C14.idx m k)
    · simp only [Bool.false_eq_true, if_false]
      exact ih (k_ + 1)
    · simp [joinSum]

theorem find_tie (m : List (Int × Int)) (fn : Int → Bool) :
    Gen.Funcs.Find m fn = ofC14 (Model.C14.Find m fn) := by
  have h := find_loop1 m fn m 0 (List.replicate m.length 0)
  unfold Model.C14.Find
  rw [show (default : Int) = 0 from rfl]
  unfold Gen.Funcs.Find
  simp only [Int.natCast_zero] at h ⊢
  cases hm : Model.C14.keysLoop m (List.replicate m.length 0) 0 with
  | panic =>
    rw [hm] at h
    cases hg : Gen.Funcs.Find.loop1 m fn m (0, List.replicate m.length 0) with
    | error e =>
      rw [hg] at h
      simp only [resSnd, ofC14, Except.error.injEq] at h
      subst h
      rfl
    | ok p => rw [hg] at h; simp [resSnd, ofC14] at h
  | ok keys =>
    rw [hm] at h
    cases hg : Gen.Funcs.Find.loop1 m fn m (0, List.replicate m.length 0) with
    | error e => rw [hg] at h; simp [resSnd, ofC14] at h
    | ok p =>
      obtain ⟨i', keys'⟩ := p
      rw [hg] at h
      simp only [resSnd, ofC14, Except.ok.injEq] at h
      subst h
      simp only [ofC14, goSortAsc_eq]
      rw [← find_loop2 m fn (Model.C14.sortKeys keys') 0]
      cases Gen.Funcs.Find.loop2 m fn (Model.C14.sortKeys keys') 0 [] <;> rfl

theorem findKey_loop (m0 : List (Int × Int)) (fn : Int → Bool) (m : List (Int × Int)) :
    joinSum (Gen.Funcs.FindKey.loop1 m0 fn m 0) = Model.C14.FindKey fn m := by
  induction m with
  | nil => rfl
  | cons e r ih =>
    obtain ⟨k, v⟩ := e
    simp only [Gen.Funcs.FindKey.loop1, Model.C14.FindKey]
    cases h : fn v
    · simp only [Bool.false_eq_true, if_false]
      exact ih
    · simp [joinSum]

theorem findKey_tie (m : List (Int × Int)) (fn : Int → Bool) :
    Gen.Funcs.FindKey m fn = Model.C14.FindKey fn m := by
  rw [← findKey_loop m fn m]
  simp only [Gen.Funcs.FindKey]
  cases Gen.Funcs.FindKey.loop1 m fn m 0 <;> rfl

theorem findByKey_loop (m0 : List (Int × Int)) (fn : Int → Bool) (m : List (Int × Int)) :
    joinSum (Gen.Funcs.FindByKey.loop1 m0 fn m []) = Model.C14.FindByKey fn m := by
  induction m with
  | nil => rfl
  | cons e r ih =>
    obtain ⟨k, v⟩ := e
    simp only [Gen.Funcs.FindByKey.loop1, Model.C14.FindByKey, mapSet_eq]
    cases h : fn k
    · simp only [Bool.false_eq_true, if_false]
      exact ih
    · simp [joinSum]

theorem findByKey_tie (m : List (Int × Int)) (fn : Int → Bool) :
    Gen.Funcs.FindByKey m fn = Model.C14.FindByKey fn m := by
  rw [← findByKey_loop m fn m]
  simp only [Gen.Funcs.FindByKey]
  cases Gen.Funcs.FindByKey.loop1 m fn m [] <;> rfl

/-! ## Invert -/

theorem invert_loop (m : List (Int × Int)) (keys0 ks : List Int) (i : Int) (inverted : List (Int × Int)) :
    Gen.Funcs.Invert.loop1 m keys0 ks i inverted = Model.C14.invertLoop m ks inverted := by
  induction ks generalizing i inverted with
  | nil => rfl
  | cons k r ih =>
    simp only [Gen.Funcs.Invert.loop1, Model.C14.invertLoop, mapGet_int, mapSet_eq, ih]

theorem invert_tie (m : List (Int × Int)) : Gen.Funcs.Invert m = ofC14 (Model.C14.Invert m) := by
  simp only [Gen.Funcs.Invert, Model.C14.Invert, keys_tie]
  cases Model.C14.Keys m with
  | panic => rfl
  | ok keys => simp only [ofC14, invert_loop]

/-! ## Pluck -/

theorem pluck_loop (ms0 : List (List (Int × Int))) (key : Int) (ms : List (List (Int × Int))) (k_ : Int)
    (result : List Int) :
    Gen.Funcs.Pluck.loop1 ms0 key ms k_ result = Model.C14.pluckLoop key ms result := by
  induction ms generalizing k_ result with
  | nil => rfl
  | cons m r ih =>
    simp only [Gen.Funcs.Pluck.loop1, Model.C14.pluckLoop, findByKey_tie, mapHas_eq, mapGet_int]
    cases h : Model.C14.get? (Model.C14.FindByKey (fun k => decide (k = key)) m) key with
    | none => simp only [Option.isSome_none, Bool.false_eq_true, if_false]; exact ih _ _
    | some b => simp only [Option.isSome_some, if_true]; exact ih _ _

theorem pluck_tie (mapSlice : List (List (Int × Int))) (key : Int) :
    Gen.Funcs.Pluck mapSlice key = Model.C14.Pluck mapSlice key := by
  simp only [Gen.Funcs.Pluck, Model.C14.Pluck, pluck_loop]

/-! ## Pick, PickBy, Omit, OmitBy -/

theorem pick_loop (collection : List (Int × Int)) (keys : List Int) (m result : List (Int × Int)) :
    Gen.Funcs.Pick.loop1 collection keys m result = Model.C14.pickLoop collection keys m result := by
  induction m generalizing result with
  | nil => rfl
  | cons e r ih =>
    obtain ⟨k, v⟩ := e
    simp only [Gen.Funcs.Pick.loop1, Model.C14.pickLoop, contains_eq, mapGet_int, mapSet_eq]
    cases h : Model.C14.Contains keys k <;> simp [ih]

/-- `Pick` returns an error (`Exc.err`, not a panic) exactly when the model's flag is set -/
theorem pick_tie (collection : List (Int × Int)) (keys : List Int) :
    Gen.Funcs.Pick collection keys
      = (if (Model.C14.Pick collection keys).2 then Except.error Exc.err
         else Except.ok (Model.C14.Pick collection keys).1) := by
  cases keys with
  | nil => rfl
  | cons k ks => simp [Gen.Funcs.Pick, Model.C14.Pick, pick_loop]

theorem pickBy_loop (collection : List (Int × Int)) (fn : Int → Int → Bool) (m result : List (Int × Int)) :
    Gen.Funcs.PickBy.loop1 collection fn m result = Model.C14.pickByLoop collection fn m result := by
  induction m generalizing result with
  | nil => rfl
  | cons e r ih =>
    obtain ⟨k, v⟩ := e
    simp only [Gen.Funcs.PickBy.loop1, Model.C14.pickByLoop, mapGet_int, mapSet_eq]
    cases h : fn k v <;> simp [ih]

theorem pickBy_tie (collection : List (Int × Int)) (fn : Int → Int → Bool) :
    Gen.Funcs.PickBy collection fn = Model.C14.PickBy collection fn := by
  simp only [Gen.Funcs.PickBy, Model.C14.PickBy, pickBy_loop]

/-- the first argument of the generated loop (the `collection` parameter of the Go function, which the
loop body reassigns) is not read by the loop: the statement is for every value of it -/
theorem omit_loop (c0 : List (Int × Int)) (keys : List Int) (m collection : List (Int × Int)) :
    Gen.Funcs.Omit.loop1 c0 keys m collection = Model.C14.omitLoop keys m collection := by
  induction m generalizing c0 collection with
  | nil => rfl
  | cons e r ih =>
    obtain ⟨k, v⟩ := e
    simp only [Gen.Funcs.Omit.loop1, Model.C14.omitLoop, contains_eq, mapDel_eq]
    cases h : Model.C14.Contains keys k <;> simp [ih]

theorem omit_tie (collection : List (Int × Int)) (keys : List Int) :
    Gen.Funcs.Omit collection keys = Model.C14.Omit collection keys := by
  simp only [Gen.Funcs.Omit, Model.C14.Omit, omit_loop]

theorem omitBy_loop (c0 : List (Int × Int)) (fn : Int → Int → Bool) (m collection : List (Int × Int)) :
    Gen.Funcs.OmitBy.loop1 c0 fn m collection = Model.C14.omitByLoop fn m collection := by
  induction m generalizing c0 collection with
  | nil => rfl
  | cons e r ih =>
    obtain ⟨k, v⟩ := e
    simp only [Gen.Funcs.OmitBy.loop1, Model.C14.omitByLoop, mapDel_eq]
    cases h : fn k v <;> simp [ih]

theorem omitBy_tie (collection : List (Int × Int)) (fn : Int → Int → Bool) :
    Gen.Funcs.OmitBy collection fn = Model.C14.OmitBy collection fn := by
  simp only [Gen.Funcs.OmitBy, Model.C14.OmitBy, omitBy_loop]

/-! ## PartitionMap -/

theorem partitionMap_loop (ms0 : List (List (Int × Int))) (fn : List (Int × Int) → Bool)
    (ms : List (List (Int × Int))) (k_ : Int) (result : List (List (Int × Int)) × List (List (Int × Int))) :
    Gen.Funcs.PartitionMap.loop1 ms0 fn ms k_ result = Model.C14.partitionLoop fn ms result := by
  induction ms generalizing k_ result with
  | nil => rfl
  | cons m r ih =>
    cases m with
    | nil =>
      simp only [Gen.Funcs.PartitionMap.loop1, Gen.Funcs.PartitionMap.loop2, Model.C14.partitionLoop]
      exact ih _ _
    | cons e rest =>
      obtain ⟨k, v⟩ := e
      simp only [Gen.Funcs.PartitionMap.loop1, Gen.Funcs.PartitionMap.loop2, Model.C14.partitionLoop, mapSet_eq]
      cases h : fn (Model.C14.put ((k, v) :: rest) k v) <;> simp [ih]

theorem partitionMap_tie (mapSlice : List (List (Int × Int))) (fn : List (Int × Int) → Bool) :
    Gen.Funcs.PartitionMap mapSlice fn = Model.C14.PartitionMap mapSlice fn := by
  simp only [Gen.Funcs.PartitionMap, Model.C14.PartitionMap, partitionMap_loop]

/-! ## SliceToMap -/

theorem goIdx_nat {α : Type} (s : List α) (n : Nat) :
    goIdx s (n : Int) = match s[n]? with | some v => Except.ok v | none => Except.error Exc.panic := by
  unfold goIdx
  have : ¬ ((n : Int) < 0) := by omega
  simp only [this, if_false, Int.toNat_natCast]
  cases s[n]? <;> rfl

/-- the generated loop ranges over the rest of `s1` (`rest = s1.drop i`); the model counts the
iterations left and reads `s1[i]` -/
theorem sliceToMap_loop (s1 s2 s1' s2' : List Int) (rest : List Int) (i : Nat) (result : List (Int × Int))
    (hs2 : s2' = s2) (h : s1.drop i = rest) :
    Gen.Funcs.SliceToMap.loop1 s1' s2' rest (i : Int) result
      = ofC14 (Model.C14.sliceToMapLoop s1 s2 rest.length i result) := by
  subst hs2
  induction rest generalizing i result with
  | nil => rfl
  | cons x r ih =>
    have h1 : s1[i]? = some x := by
      have := List.getElem?_drop (xs := s1) (i := i) (j := 0)
      rw [h] at this
      simpa using this.symm
    have h2 : s1.drop (i + 1) = r := by
      have : (s1.drop i).drop 1 = r := by rw [h]; rfl
      rw [List.drop_drop] at this
      exact this
    simp only [Gen.Funcs.SliceToMap.loop1, List.length_cons, Model.C14.sliceToMapLoop, goIdx_nat, h1]
    cases hv : s2'[i]? with
    | none => rfl
    | some v =>
      simp only [mapSet_eq]
      exact ih (i + 1) _ h2

theorem sliceToMap_tie (s1 s2 : List Int) :
    Gen.Funcs.SliceToMap s1 s2 = ofC14 (Model.C14.SliceToMap s1 s2) := by
  have h := sliceToMap_loop s1 s2 s1 s2 s1 0 [] rfl rfl
  simp only [Int.natCast_zero] at h
  simp only [Gen.Funcs.SliceToMap, Model.C14.SliceToMap]
  by_cases hl : s1.length = s2.length
  · simp only [hl, ne_eq, not_true_eq_false, decide_false, Bool.false_eq_true, if_false, h]
    cases Model.C14.sliceToMapLoop s1 s2 s2.length 0 [] <;> rfl
  · have : ¬ ((s1.length : Int) = (s2.length : Int)) := by omega
    simp [this, hl, ofC14]

/-! ## filter.go: FilterMap, FilterMapCollection, Filter2DMapCollection -/

theorem filterMap_loop (m0 : List (Int × Int)) (fn : Int → Bool) (m filtered : List (Int × Int)) :
    Gen.Funcs.FilterMap.loop1 m0 fn m filtered = Model.C14.filterMapLoop fn m filtered := by
  induction m generalizing filtered with
  | nil => rfl
  | cons e r ih =>
    obtain ⟨k, v⟩ := e
    simp only [Gen.Funcs.FilterMap.loop1, Model.C14.filterMapLoop, mapSet_eq]
    cases h : fn v <;> simp [ih]

theorem filterMap_tie (m : List (Int × Int)) (fn : Int → Bool) :
    Gen.Funcs.FilterMap m fn = Model.C14.FilterMap m fn := by
  simp only [Gen.Funcs.FilterMap, Model.C14.FilterMap, filterMap_loop]

theorem filterMapCollection_loop2 (c0 : List (List (Int × Int))) (fn : Int → Bool) (item m : List (Int × Int))
    (filtered : List (List (Int × Int))) :
    joinSum (Gen.Funcs.FilterMapCollection.loop2 c0 fn item m filtered)
      = Model.C14.filterInner fn item m filtered := by
  induction m with
  | nil => rfl
  | cons e r ih =>
    obtain ⟨k, v⟩ := e
    simp only [Gen.Funcs.FilterMapCollection.loop2, Model.C14.filterInner]
    cases h : fn v
    · simp only [Bool.false_eq_true, if_false]
      exact ih
    · simp [joinSum]

theorem filterMapCollection_loop1 (c0 : List (List (Int × Int))) (fn : Int → Bool) (c : List (List (Int × Int)))
    (k_ : Int) (filtered : List (List (Int × Int))) :
    Gen.Funcs.FilterMapCollection.loop1 c0 fn c k_ filtered = Model.C14.filterCollLoop fn c filtered := by
  induction c generalizing k_ filtered with
  | nil => rfl
  | cons item r ih =>
    simp only [Gen.Funcs.FilterMapCollection.loop1, Model.C14.filterCollLoop,
      ← filterMapCollection_loop2 c0 fn item item filtered]
    rw [← ih (k_ + 1)]
    cases Gen.Funcs.FilterMapCollection.loop2 c0 fn item item filtered <;> rfl

theorem filterMapCollection_tie (collection : List (List (Int × Int))) (fn : Int → Bool) :
    Gen.Funcs.FilterMapCollection collection fn = Model.C14.FilterMapCollection collection fn := by
  simp only [Gen.Funcs.FilterMapCollection, Model.C14.FilterMapCollection, filterMapCollection_loop1]

theorem filter2DMapCollection_loop2 (c0 : List (List (Int × List (Int × Int)))) (fn : List (Int × Int) → Bool)
    (item m : List (Int × List (Int × Int))) (filtered : List (List (Int × List (Int × Int)))) :
    joinSum (Gen.Funcs.Filter2DMapCollection.loop2 c0 fn item m filtered)
      = Model.C14.filterInner fn item m filtered := by
  induction m with
  | nil => rfl
  | cons e r ih =>
    obtain ⟨k, v⟩ := e
    simp only [Gen.Funcs.Filter2DMapCollection.loop2, Model.C14.filterInner]
    cases h : fn v
    · simp only [Bool.false_eq_true, if_false]
      exact ih
    · simp [joinSum]

theorem filter2DMapCollection_loop1 (c0 : List (List (Int × List (Int × Int)))) (fn : List (Int × Int) → Bool)
    (c : List (List (Int × List (Int × Int)))) (k_ : Int) (filtered : List (List (Int × List (Int × Int)))) :
    Gen.Funcs.Filter2DMapCollection.loop1 c0 fn c k_ filtered = Model.C14.filterCollLoop fn c filtered := by
  induction c generalizing k_ filtered with
  | nil => rfl
  | cons item r ih =>
    simp only [Gen.Funcs.Filter2DMapCollection.loop1, Model.C14.filterCollLoop,
      ← filter2DMapCollection_loop2 c0 fn item item filtered]
    rw [← ih (k_ + 1)]
    cases Gen.Funcs.Filter2DMapCollection.loop2 c0 fn item item filtered <;> rfl

theorem filter2DMapCollection_tie (collection : List (List (Int × List (Int × Int)))) (fn : List (Int × Int) → Bool) :
    Gen.Funcs.Filter2DMapCollection collection fn = Model.C14.Filter2DMapCollection collection fn := by
  simp only [Gen.Funcs.Filter2DMapCollection, Model.C14.Filter2DMapCollection, filter2DMapCollection_loop1]

/-! concrete instances: the regenerated definitions compute the expected answers (non-vacuity of the ties) -/
example : Gen.Funcs.Keys [(3, 30), (1, 10)] = .ok [3, 1] := by rfl
example : Gen.Funcs.Find [(3, 30), (1, 10), (2, 20)] (fun v => decide (v > 10)) = .ok [(2, 20)] := by rfl
example : Gen.Funcs.Invert [(3, 30), (1, 10)] = .ok [(30, 3), (10, 1)] := by rfl
example : Gen.Funcs.Pick [(3, 30), (1, 10)] [] = .error .err := by rfl
example : Gen.Funcs.Pick [(3, 30), (1, 10)] [1] = .ok [(1, 10)] := by rfl
example : Gen.Funcs.Omit [(3, 30), (1, 10)] [1] = [(3, 30)] := by rfl
example : Gen.Funcs.SliceToMap [1, 2] [10] = .error .panic := by rfl
example : Gen.Funcs.SliceToMap [1, 2] [10, 20] = .ok [(1, 10), (2, 20)] := by rfl

end GoguVerif.Theorems.GenTieC14
