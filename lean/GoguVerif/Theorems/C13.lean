import GoguVerif.Lemmas.C13
/-!
# C13 — property theorems

For ALL inputs (slices of any length, any predicate / key function / comparator, any integers) the
model of each function (`Model/C13.lean`) returns an answer that satisfies the property's clause
(`Spec/C13.lean`) — in particular the models never answer `panic` or `hang` inside the documented
domain.  Go `int` is the unbounded `Int`; the `int8` instantiation of `Abs` is modelled with explicit
two's-complement wrap and proved for every int8 value (with the statement's `x = MIN` exception).
Floats are out of scope.
-/
namespace GoguVerif.Theorems.C13
open GoguVerif
open GoguVerif.Spec.C13 (Out GoMap)
open GoguVerif.Lemmas.C13

/-! ## Search -/

/-- `FindIndex` returns the smallest matching index, `-1` if none. -/
theorem findIndex_spec (p : Int → Bool) (s : List Int) :
    Spec.C13.FirstIdx p s (Model.C13.FindIndex s p) := by
  unfold Spec.C13.FirstIdx Model.C13.FindIndex
  rcases findIndexLoop_spec p s 0 with h | ⟨i, hi, h1, h2, h3⟩
  · exact Or.inl h
  · exact Or.inr ⟨i, hi, by rw [h1]; congr 1; omega, h2, h3⟩

/-- `IndexOf` returns the smallest index holding the value, `-1` if none. -/
theorem indexOf_spec (s : List Int) (v : Int) : Spec.C13.IndexOf s v (Model.C13.IndexOf s v) := by
  unfold Spec.C13.IndexOf Model.C13.IndexOf
  rw [indexOfLoop_eq]
  exact findIndex_spec _ s

/-- `FindLastIndex` never panics and returns the largest matching index, `-1` if none. -/
theorem findLastIndex_spec (p : Int → Bool) (s : List Int) :
    ∃ r, Model.C13.FindLastIndex s p = .ok r ∧ Spec.C13.LastIdx p s r := by
  obtain ⟨r, h1, h2⟩ := findLastIndexLoop_spec p s s.length (Nat.le_refl _)
  exact ⟨r, h1, lastIdx_of_index_form p s r h2⟩

/-- `LastIndexOf` never panics and returns the largest index holding the value, `-1` if none. -/
theorem lastIndexOf_spec (s : List Int) (v : Int) :
    ∃ r, Model.C13.LastIndexOf s v = .ok r ∧ Spec.C13.LastIndexOf s v r := by
  unfold Model.C13.LastIndexOf Spec.C13.LastIndexOf
  rw [lastIndexOfLoop_eq]
  exact findLastIndex_spec _ s

/-- `FindAll` returns exactly the matching index/value pairs. -/
theorem findAll_spec (p : Int → Bool) (s : List Int) :
    Spec.C13.FindAll p s (Model.C13.FindAll s p) := by
  unfold Spec.C13.FindAll Model.C13.FindAll
  rw [findAllLoop_eq, List.nil_append]
  refine ⟨pairsFrom_pairwise p s 0, ?_, ?_⟩
  · intro e he
    obtain ⟨i, h1, h2, h3⟩ := (mem_pairsFrom p s 0 e).mp he
    have hi : e.1.toNat = i := by rw [h2]; omega
    refine ⟨by rw [h2]; omega, ?_⟩
    rw [hi]
    exact (atIdx_iff _ _ _).mpr ⟨e.2, h1, rfl, h3⟩
  · intro i hi
    refine ⟨hi, ?_⟩
    intro hp
    exact (mem_pairsFrom p s 0 _).mpr ⟨i, List.getElem?_eq_getElem hi, by simp, hp⟩

theorem contains_spec (s : List Int) (v : Int) : Spec.C13.Contains s v (Model.C13.Contains s v) :=
  contains_eq s v

theorem some_spec (p : Int → Bool) (s : List Int) : Spec.C13.Some p s (Model.C13.Some p s) :=
  some_eq p s

theorem every_spec (p : Int → Bool) (s : List Int) : Spec.C13.Every p s (Model.C13.Every p s) :=
  every_eq p s

/-! ## Extrema -/

/-- `FindMin`: an element of the input that is minimal; the zero value for the empty slice. -/
theorem findMin_spec (s : List Int) : Spec.C13.IsMin s (Model.C13.FindMin s) := by
  unfold Spec.C13.IsMin Model.C13.FindMin
  cases s with
  | nil => left; exact ⟨rfl, rfl⟩
  | cons x r =>
    right
    obtain ⟨h1, _, h3⟩ := minLoop_spec (x :: r) x
    refine ⟨?_, h3⟩
    rcases h1 with h | h
    · simp only [Model.C13.seed]; rw [h]; exact List.mem_cons_self
    · exact h

theorem findMax_spec (s : List Int) : Spec.C13.IsMax s (Model.C13.FindMax s) := by
  unfold Spec.C13.IsMax Model.C13.FindMax
  cases s with
  | nil => left; exact ⟨rfl, rfl⟩
  | cons x r =>
    right
    obtain ⟨h1, _, h3⟩ := maxLoop_spec (x :: r) x
    refine ⟨?_, h3⟩
    rcases h1 with h | h
    · simp only [Model.C13.seed]; rw [h]; exact List.mem_cons_self
    · exact h

/-- variadic `Min(values...)` (math.go) -/
theorem min_spec (s : List Int) : Spec.C13.IsMin s (Model.C13.Min s) := by
  cases s with
  | nil => left; exact ⟨rfl, rfl⟩
  | cons x r => exact findMin_spec (x :: r)

theorem max_spec (s : List Int) : Spec.C13.IsMax s (Model.C13.Max s) := by
  cases s with
  | nil => left; exact ⟨rfl, rfl⟩
  | cons x r => exact findMax_spec (x :: r)

/-- `FindMinBy`: the FIRST element whose key is minimal, for every key function. -/
theorem findMinBy_spec (f : Int → Int) (s : List Int) :
    Spec.C13.IsMinBy f s (Model.C13.FindMinBy s f) := by
  unfold Spec.C13.IsMinBy Model.C13.FindMinBy
  cases s with
  | nil => left; exact ⟨rfl, rfl⟩
  | cons x r =>
    right
    obtain ⟨ha, hb⟩ := minByLoop_spec f (x :: r) x
    simp only [Model.C13.seed]
    rcases hb with ⟨h1, _⟩ | ⟨i, hi, h1, _, h3⟩
    · exact ⟨0, by simp, atIdx_zero _ _ _ h1.symm, ha, by simp⟩
    · exact ⟨i, hi, h1, ha, h3⟩

theorem findMaxBy_spec (f : Int → Int) (s : List Int) :
    Spec.C13.IsMaxBy f s (Model.C13.FindMaxBy s f) := by
  unfold Spec.C13.IsMaxBy Model.C13.FindMaxBy
  cases s with
  | nil => left; exact ⟨rfl, rfl⟩
  | cons x r =>
    right
    obtain ⟨ha, hb⟩ := maxByLoop_spec f (x :: r) x
    simp only [Model.C13.seed]
    rcases hb with ⟨h1, _⟩ | ⟨i, hi, h1, _, h3⟩
    · exact ⟨0, by simp, atIdx_zero _ _ _ h1.symm, ha, by simp⟩
    · exact ⟨i, hi, h1, ha, h3⟩

/-- `FindMinByKey`, for every slice of maps (each in any iteration order) and every key: never a panic; an error
(with the zero value) exactly when no map of the slice holds the key; otherwise the minimal one of the values stored
under the key. -/
theorem findMinByKey_spec (ms : List GoMap) (k : Int) :
    Spec.C13.IsMinByKey ms k (Model.C13.FindMinByKey ms k).1 (Model.C13.FindMinByKey ms k).2 := by
  unfold Spec.C13.IsMinByKey Model.C13.FindMinByKey
  cases ms with
  | nil => simp [Spec.C13.keyVals]
  | cons m0 r =>
    simp only [minByKeyLoop_eq]
    cases hkv : Spec.C13.keyVals k (m0 :: r) with
    | nil => simp
    | cons v vs =>
      simp only
      obtain ⟨h1, _, h3⟩ := minLoop_spec vs v
      refine ⟨by simp, by simp, fun _ => ⟨?_, ?_⟩⟩
      · rcases h1 with h | h
        · rw [h]; exact List.mem_cons_self
        · exact List.mem_cons_of_mem _ h
      · intro x hx
        rcases List.mem_cons.mp hx with rfl | hx
        · exact (minLoop_spec vs x).2.1
        · exact h3 x hx

theorem findMaxByKey_spec (ms : List GoMap) (k : Int) :
    Spec.C13.IsMaxByKey ms k (Model.C13.FindMaxByKey ms k).1 (Model.C13.FindMaxByKey ms k).2 := by
  unfold Spec.C13.IsMaxByKey Model.C13.FindMaxByKey
  cases ms with
  | nil => simp [Spec.C13.keyVals]
  | cons m0 r =>
    simp only [maxByKeyLoop_eq]
    cases hkv : Spec.C13.keyVals k (m0 :: r) with
    | nil => simp
    | cons v vs =>
      simp only
      obtain ⟨h1, h2, h3⟩ := maxLoop_spec vs v
      refine ⟨by simp, by simp, fun _ => ⟨?_, ?_⟩⟩
      · rcases h1 with h | h
        · rw [h]; exact List.mem_cons_self
        · exact List.mem_cons_of_mem _ h
      · intro x hx
        rcases List.mem_cons.mp hx with rfl | hx
        · exact h2
        · exact h3 x hx

/-- As soon as SOME map holds the key no error is reported (so the extremum really is returned) — in particular when
the first map lacks it (finding F44). -/
theorem findMinByKey_no_error (ms : List GoMap) (k : Int)
    (hsome : ∃ m ∈ ms, Spec.C13.lookup k m ≠ none) : (Model.C13.FindMinByKey ms k).1 = false := by
  have h := (findMinByKey_spec ms k).1
  cases hb : (Model.C13.FindMinByKey ms k).1 with
  | false => rfl
  | true =>
    have hnil := h.mp hb
    obtain ⟨m, hm, hl⟩ := hsome
    cases hv : Spec.C13.lookup k m with
    | none => exact absurd hv hl
    | some v =>
      have : v ∈ Spec.C13.keyVals k ms := by
        simp only [Spec.C13.keyVals, List.mem_filterMap]
        exact ⟨m, hm, hv⟩
      rw [hnil] at this
      cases this

example : Model.C13.FindMinByKey [[(1, 5)], [(0, 7)], [(0, -2)]] 0 = (false, -2) := by decide
example : Model.C13.FindMinByKey [[(1, 5)], [(2, 7)]] 0 = (true, 0) := by decide
example : Model.C13.FindMinByKey [[(0, 5), (1, 1)], [(1, 9)], [(0, -2)]] 0 = (false, -2) := by decide
example : Model.C13.FindMinBy [3, -3, 2, -2] (fun x => x * x) = 2 := by decide
example : Model.C13.FindMaxBy [3, -3, 2] (fun x => x * x) = 3 := by decide

/-! ## Nth -/

/-- `Nth` is total: `s[i]` for `0 ≤ i < len`, `s[len+i]` for `-len ≤ i < 0`, an error otherwise —
never a panic (for every slice, including the empty one, and every integer index). -/
theorem nth_spec (s : List Int) (i : Int) : Spec.C13.Nth s i (Model.C13.Nth s i) := by
  have idx : ∀ j : Int, 0 ≤ j → j < s.length →
      ∃ v, Model.C13.index s j = .ok v ∧ s[j.toNat]? = some v := by
    intro j h0 h1
    have hl : j.toNat < s.length := by omega
    refine ⟨s[j.toNat], ?_, List.getElem?_eq_getElem hl⟩
    have hn : ¬ j < 0 := by omega
    simp only [Model.C13.index, hn, if_false, List.getElem?_eq_getElem hl]
  unfold Spec.C13.Nth Model.C13.Nth
  simp only []
  refine ⟨?_, ?_, ?_⟩
  · rintro ⟨h0, h1⟩
    have hA : Model.C13.Abs i = i := by unfold Model.C13.Abs; split <;> omega
    have c1 : ¬ ((i ≥ 0 ∧ i > (s.length : Int) - 1) ∨ (i < 0 ∧ (s.length : Int) - Model.C13.Abs i < 0)) := by
      rw [hA]; omega
    have c2 : (Model.C13.enclose 0 s.length i && decide (i ≥ 0)) = true := by
      simp only [Model.C13.enclose, hA]
      have : i ≥ 0 ∧ i ≤ (s.length : Int) := by omega
      simp [this]
    simp only [c1, if_false, c2, if_true]
    exact idx i h0 h1
  · rintro ⟨h0, h1⟩
    have hA : Model.C13.Abs i = -i := by unfold Model.C13.Abs; split <;> omega
    have c1 : ¬ ((i ≥ 0 ∧ i > (s.length : Int) - 1) ∨ (i < 0 ∧ (s.length : Int) - Model.C13.Abs i < 0)) := by
      rw [hA]; omega
    have c2 : (Model.C13.enclose 0 s.length i && decide (i ≥ 0)) = false := by
      have : ¬ i ≥ 0 := by omega
      simp [this]
    simp only [c1, if_false, c2, Bool.false_eq_true]
    have e : (s.length : Int) - Model.C13.Abs i = s.length + i := by rw [hA]; omega
    rw [e]
    exact idx _ (by omega) (by omega)
  · intro h
    have c1 : (i ≥ 0 ∧ i > (s.length : Int) - 1) ∨ (i < 0 ∧ (s.length : Int) - Model.C13.Abs i < 0) := by
      unfold Model.C13.Abs; split <;> omega
    simp only [c1, if_true]

example : Model.C13.Nth [] 0 = .err := by decide
example : Model.C13.Nth [1, 2, 3] (-3) = .ok 1 := by decide
example : Model.C13.Nth [1, 2, 3] 3 = .err := by decide

/-! ## Aggregates -/

theorem sum_spec (s : List Int) : Spec.C13.Sum s (Model.C13.Sum s) := by
  unfold Spec.C13.Sum Model.C13.Sum; rw [sumLoop_eq]; omega

theorem sumBy_spec (f : Int → Int) (s : List Int) : Spec.C13.SumBy f s (Model.C13.SumBy s f) := by
  unfold Spec.C13.SumBy Model.C13.SumBy; rw [sumByLoop_eq]; omega

/-- `Mean` of a non-empty slice is the arithmetic mean rounded toward zero (Go's integer division);
no panic there.  (For the empty slice the model — like the code — panics: integer division by zero;
the property leaves that case open.) -/
theorem mean_spec (s : List Int) : Spec.C13.Mean s (Model.C13.Mean s) := by
  unfold Spec.C13.Mean Model.C13.Mean
  intro hne
  have hl : s.length ≠ 0 := by
    intro h; exact hne (List.length_eq_zero_iff.mp h)
  simp only [hl, if_false]
  refine ⟨_, rfl, ?_⟩
  rw [sumLoop_eq]
  have e : (0 : Int) + Spec.C13.total s = Spec.C13.total s := by omega
  rw [e]
  exact tdiv_isTruncQuot _ _ (by omega)

theorem mean_empty_panics : Model.C13.Mean [] = .panic := rfl

example : Model.C13.Mean [-1, -2, -4] = .ok (-2) := by decide

/-! ## Numbers -/

theorem abs_spec (x : Int) : Spec.C13.Abs x (Model.C13.Abs x) := by
  unfold Spec.C13.Abs Model.C13.Abs; split <;> omega

/-- `Abs` on int8 (negation wraps): for every int8 value `Abs x ≥ 0 ∨ x = MIN`; the result is `|x|`
except at `MIN`, where it is `MIN` again; the result is an int8. -/
theorem abs8_spec (x : Int) (hlo : -128 ≤ x) (hhi : x ≤ 127) :
    Spec.C13.Abs8 x (Model.C13.Abs8 x) ∧ (0 ≤ Model.C13.Abs8 x ∨ x = -128) ∧
      (x = -128 → Model.C13.Abs8 x = -128) ∧ -128 ≤ Model.C13.Abs8 x ∧ Model.C13.Abs8 x ≤ 127 := by
  unfold Spec.C13.Abs8 Spec.C13.Abs Model.C13.Abs8 Model.C13.wrap8
  split <;> omega

example : Model.C13.Abs8 (-128) = -128 := by decide
example : Model.C13.Abs8 (-127) = 127 := by decide

/-- `Clamp` (for `lo ≤ hi`; the same comparisons serve every integer type, no arithmetic involved) -/
theorem clamp_spec (x lo hi : Int) : Spec.C13.Clamp x lo hi (Model.C13.Clamp x lo hi) := by
  unfold Spec.C13.Clamp Model.C13.Clamp
  intro h
  split
  · omega
  · split <;> omega

theorem inRange_spec (x lo hi : Int) : Spec.C13.InRange x lo hi (Model.C13.InRange x lo hi) := by
  unfold Spec.C13.InRange Model.C13.InRange
  split <;> simp_all

/-- `Compare` reflects the comparator, for every comparator -/
theorem compare_spec (c : Int → Int → Bool) (a b : Int) :
    Spec.C13.Compare c a b (Model.C13.Compare a b c) := by
  unfold Spec.C13.Compare Model.C13.Compare
  cases h1 : c a b <;> cases h2 : c b a <;> simp

theorem less_spec (a b : Int) : Spec.C13.Less a b (Model.C13.Less a b) := by
  unfold Spec.C13.Less Model.C13.Less; simp

theorem equal_spec (a b : Int) : Spec.C13.Equal a b (Model.C13.Equal a b) := by
  unfold Spec.C13.Equal Model.C13.Equal; simp

/-! ## Range -/

/-- `Range`, for every argument list over the integers: the loops terminate (never `hang`: the fuel
`|end - start| + 1` the model runs on always suffices), invalid argument combinations give an error,
and otherwise the result is the maximal progression from `start` by `|step|` toward `end` stopping
before it — ascending when `end > 0`, descending otherwise. -/
theorem range_spec (args : List Int) : Spec.C13.Range false args (Model.C13.Range args) := by
  have fin : ∀ (o : Out (List Int)) (P : List Int → Prop), (∃ l, o = .ok l ∧ P l) →
      ∃ l, o = .ok (if false = true then l.reverse else l) ∧ P l := by
    intro o P h; simpa using h
  match args with
  | [] => exact Or.inr rfl
  | [e] =>
    have h : Model.C13.Range [e] = Model.C13.rangeLoops 0 1 e := rfl
    rw [h]
    exact fin _ _ (rangeLoops_spec 0 1 e (Or.inl (by omega)))
  | [s, e] =>
    have h : Model.C13.Range [s, e] = Model.C13.rangeLoops s 1 e := rfl
    rw [h]
    exact fin _ _ (rangeLoops_spec s 1 e (Or.inl (by omega)))
  | [s, st, e] =>
    have hm : Model.C13.Range [s, st, e] =
        (if s > e ∧ e > 0 then .err else if st = 0 then .err
         else if st < 0 ∧ e > s then .err else Model.C13.rangeLoops s st e) := rfl
    show (if Spec.C13.Invalid3 s st e then Model.C13.Range [s, st, e] = .err
          else ∃ l, Model.C13.Range [s, st, e] = .ok (if false = true then l.reverse else l) ∧
            Spec.C13.IsRange s st e l)
    by_cases hi : Spec.C13.Invalid3 s st e
    · rw [if_pos hi, hm]
      unfold Spec.C13.Invalid3 at hi
      by_cases h1 : s > e ∧ e > 0
      · rw [if_pos h1]
      · rw [if_neg h1]
        by_cases h2 : st = 0
        · rw [if_pos h2]
        · rw [if_neg h2]
          by_cases h3 : st < 0 ∧ e > s
          · rw [if_pos h3]
          · exfalso
            rcases hi with h | h | h
            · exact h2 h
            · exact h1 h
            · exact h3 h
    · rw [if_neg hi, hm]
      unfold Spec.C13.Invalid3 at hi
      have h1 : ¬ (s > e ∧ e > 0) := fun h => hi (Or.inr (Or.inl h))
      have h2 : ¬ st = 0 := fun h => hi (Or.inl h)
      have h3 : ¬ (st < 0 ∧ e > s) := fun h => hi (Or.inr (Or.inr h))
      rw [if_neg h1, if_neg h2, if_neg h3]
      exact fin _ _ (rangeLoops_spec s st e (by omega))
  | _ :: _ :: _ :: _ :: _ =>
    unfold Spec.C13.Range
    simp [Model.C13.Range]

/-- `RangeRight` is the reverse of `Range` (same errors, same termination). -/
theorem rangeRight_spec (args : List Int) : Spec.C13.Range true args (Model.C13.RangeRight args) := by
  have key : ∀ (o : Out (List Int)) (P : List Int → Prop),
      (∃ l, o = .ok (if false = true then l.reverse else l) ∧ P l) →
      ∃ l, (match o with | .ok ran => Out.ok ran.reverse | o => o) = .ok (if true = true then l.reverse else l) ∧ P l := by
    rintro o P ⟨l, h1, h2⟩
    refine ⟨l, ?_, h2⟩
    simp only [Bool.false_eq_true, if_false] at h1
    simp [h1]
  have h := range_spec args
  unfold Model.C13.RangeRight
  match args with
  | [] =>
    rcases h with h | h
    · left; rw [h]
    · right; rw [h]; rfl
  | [e] => exact key _ _ h
  | [s, e] => exact key _ _ h
  | [s, st, e] =>
    unfold Spec.C13.Range at h ⊢
    by_cases hi : Spec.C13.Invalid3 s st e
    · simp only [hi, if_true] at h ⊢
      rw [h]
    · simp only [hi, if_false] at h ⊢
      exact key _ _ h
  | _ :: _ :: _ :: _ :: _ =>
    unfold Spec.C13.Range at h ⊢
    rw [h]

/-- Termination, stated on its own: the fuel-driven model never answers `hang` or `panic`. -/
theorem range_terminates (args : List Int) :
    Model.C13.Range args ≠ .hang ∧ Model.C13.Range args ≠ .panic := by
  have h := range_spec args
  match args with
  | [] => exact ⟨by decide, by decide⟩
  | [e] =>
    obtain ⟨l, h1, _⟩ := h
    rw [h1]; exact ⟨by simp, by simp⟩
  | [s, e] =>
    obtain ⟨l, h1, _⟩ := h
    rw [h1]; exact ⟨by simp, by simp⟩
  | [s, st, e] =>
    unfold Spec.C13.Range at h
    by_cases hi : Spec.C13.Invalid3 s st e
    · simp only [hi, if_true] at h
      rw [h]; exact ⟨by simp, by simp⟩
    · simp only [hi, if_false] at h
      obtain ⟨l, h1, _⟩ := h
      rw [h1]; exact ⟨by simp, by simp⟩
  | _ :: _ :: _ :: _ :: _ =>
    unfold Spec.C13.Range at h
    rw [h]; exact ⟨by simp, by simp⟩

example : Model.C13.Range [1, 2, 8] = .ok [1, 3, 5, 7] := by decide
example : Model.C13.Range [-3, 2, -10] = .ok [-3, -5, -7, -9] := by decide
example : Model.C13.Range [0, 0, 5] = .err := by decide
example : Model.C13.RangeRight [0, -1, -3] = .ok [-2, -1, 0] := by decide
example : ¬ Spec.C13.Invalid3 1 2 8 := by decide

/-! ## The clauses determine the answer

The specification is not merely satisfied by the models: for these clauses at most one answer is
accepted, so (with the theorems above) the monitor accepts exactly the model's answer. -/

theorem firstIdx_unique (p : Int → Bool) (s : List Int) (r r' : Int)
    (h : Spec.C13.FirstIdx p s r) (h' : Spec.C13.FirstIdx p s r') : r = r' := by
  rcases h with ⟨h1, h2⟩ | ⟨i, hi, h1, h2, h3⟩ <;> rcases h' with ⟨h1', h2'⟩ | ⟨i', hi', h1', h2', h3'⟩
  · omega
  · obtain ⟨x, hx, hp⟩ := atIdx_mem _ _ _ h2'
    rw [h2 x hx] at hp; cases hp
  · obtain ⟨x, hx, hp⟩ := atIdx_mem _ _ _ h2
    rw [h2' x hx] at hp; cases hp
  · by_cases hlt : i < i'
    · obtain ⟨x, hx, hp⟩ := atIdx_mem_take _ _ i' _ hlt h2
      rw [h3' x hx] at hp; cases hp
    · by_cases hgt : i' < i
      · obtain ⟨x, hx, hp⟩ := atIdx_mem_take _ _ i _ hgt h2'
        rw [h3 x hx] at hp; cases hp
      · omega

theorem lastIdx_unique (p : Int → Bool) (s : List Int) (r r' : Int)
    (h : Spec.C13.LastIdx p s r) (h' : Spec.C13.LastIdx p s r') : r = r' := by
  rcases h with ⟨h1, h2⟩ | ⟨i, hi, h1, h2, h3⟩ <;> rcases h' with ⟨h1', h2'⟩ | ⟨i', hi', h1', h2', h3'⟩
  · omega
  · obtain ⟨x, hx, hp⟩ := atIdx_mem _ _ _ h2'
    rw [h2 x hx] at hp; cases hp
  · obtain ⟨x, hx, hp⟩ := atIdx_mem _ _ _ h2
    rw [h2' x hx] at hp; cases hp
  · by_cases hlt : i < i'
    · obtain ⟨x, hx, hp⟩ := atIdx_mem_drop _ _ i _ hlt h2'
      rw [h3 x hx] at hp; cases hp
    · by_cases hgt : i' < i
      · obtain ⟨x, hx, hp⟩ := atIdx_mem_drop _ _ i' _ hgt h2
        rw [h3' x hx] at hp; cases hp
      · omega

theorem isMin_unique (s : List Int) (r r' : Int) (h : Spec.C13.IsMin s r) (h' : Spec.C13.IsMin s r') :
    r = r' := by
  rcases h with ⟨h1, h2⟩ | ⟨h1, h2⟩ <;> rcases h' with ⟨h1', h2'⟩ | ⟨h1', h2'⟩
  · omega
  · rw [h1] at h1'; cases h1'
  · rw [h1'] at h1; cases h1
  · have a := h2 r' h1'
    have b := h2' r h1
    omega

theorem isMax_unique (s : List Int) (r r' : Int) (h : Spec.C13.IsMax s r) (h' : Spec.C13.IsMax s r') :
    r = r' := by
  rcases h with ⟨h1, h2⟩ | ⟨h1, h2⟩ <;> rcases h' with ⟨h1', h2'⟩ | ⟨h1', h2'⟩
  · omega
  · rw [h1] at h1'; cases h1'
  · rw [h1'] at h1; cases h1
  · have a := h2 r' h1'
    have b := h2' r h1
    omega

/-- "the first such one under a key function" pins the answer down -/
theorem isMinBy_unique (f : Int → Int) (s : List Int) (r r' : Int)
    (h : Spec.C13.IsMinBy f s r) (h' : Spec.C13.IsMinBy f s r') : r = r' := by
  rcases h with ⟨h1, h2⟩ | ⟨i, hi, h1, h2, h3⟩ <;> rcases h' with ⟨h1', h2'⟩ | ⟨i', hi', h1', h2', h3'⟩
  · omega
  · rw [h1] at hi'; simp at hi'
  · rw [h1'] at hi; simp at hi
  · obtain ⟨_, hr, e⟩ := atIdx_mem _ _ _ h1; subst e
    obtain ⟨_, hr', e⟩ := atIdx_mem _ _ _ h1'; subst e
    by_cases hlt : i < i'
    · obtain ⟨x, hx, e⟩ := atIdx_mem_take _ _ i' _ hlt h1
      subst e
      have a := h3' _ hx
      have b := h2 _ hr'
      omega
    · by_cases hgt : i' < i
      · obtain ⟨x, hx, e⟩ := atIdx_mem_take _ _ i _ hgt h1'
        subst e
        have a := h3 _ hx
        have b := h2' _ hr
        omega
      · have e : i = i' := by omega
        subst e
        obtain ⟨_, e1⟩ := h1
        obtain ⟨_, e2⟩ := h1'
        rw [← e1, ← e2]

theorem isMaxBy_unique (f : Int → Int) (s : List Int) (r r' : Int)
    (h : Spec.C13.IsMaxBy f s r) (h' : Spec.C13.IsMaxBy f s r') : r = r' := by
  rcases h with ⟨h1, h2⟩ | ⟨i, hi, h1, h2, h3⟩ <;> rcases h' with ⟨h1', h2'⟩ | ⟨i', hi', h1', h2', h3'⟩
  · omega
  · rw [h1] at hi'; simp at hi'
  · rw [h1'] at hi; simp at hi
  · obtain ⟨_, hr, e⟩ := atIdx_mem _ _ _ h1; subst e
    obtain ⟨_, hr', e⟩ := atIdx_mem _ _ _ h1'; subst e
    by_cases hlt : i < i'
    · obtain ⟨x, hx, e⟩ := atIdx_mem_take _ _ i' _ hlt h1
      subst e
      have a := h3' _ hx
      have b := h2 _ hr'
      omega
    · by_cases hgt : i' < i
      · obtain ⟨x, hx, e⟩ := atIdx_mem_take _ _ i _ hgt h1'
        subst e
        have a := h3 _ hx
        have b := h2' _ hr
        omega
      · have e : i = i' := by omega
        subst e
        obtain ⟨_, e1⟩ := h1
        obtain ⟨_, e2⟩ := h1'
        rw [← e1, ← e2]

theorem nth_unique (s : List Int) (i : Int) (o o' : Out Int)
    (h : Spec.C13.Nth s i o) (h' : Spec.C13.Nth s i o') : o = o' := by
  obtain ⟨a, b, c⟩ := h
  obtain ⟨a', b', c'⟩ := h'
  by_cases h1 : 0 ≤ i ∧ i < s.length
  · obtain ⟨v, e, hv⟩ := a h1
    obtain ⟨v', e', hv'⟩ := a' h1
    rw [hv] at hv'; cases hv'; rw [e, e']
  · by_cases h2 : -(s.length : Int) ≤ i ∧ i < 0
    · obtain ⟨v, e, hv⟩ := b h2
      obtain ⟨v', e', hv'⟩ := b' h2
      rw [hv] at hv'; cases hv'; rw [e, e']
    · have h3 : i ≥ s.length ∨ i < -(s.length : Int) := by omega
      rw [c h3, c' h3]

theorem abs_unique (x r r' : Int) (h : Spec.C13.Abs x r) (h' : Spec.C13.Abs x r') : r = r' := by
  unfold Spec.C13.Abs at h h'; omega

theorem clamp_unique (x lo hi r r' : Int) (hle : lo ≤ hi)
    (h : Spec.C13.Clamp x lo hi r) (h' : Spec.C13.Clamp x lo hi r') : r = r' := by
  have a := h hle
  have b := h' hle
  omega

theorem compare_unique (c : Int → Int → Bool) (a b r r' : Int)
    (h : Spec.C13.Compare c a b r) (h' : Spec.C13.Compare c a b r') : r = r' := by
  obtain ⟨h1, h2, h3⟩ := h
  obtain ⟨h1', h2', h3'⟩ := h'
  cases hab : c a b with
  | true => rw [h1 hab, h1' hab]
  | false =>
    cases hba : c b a with
    | true => rw [h2 hab hba, h2' hab hba]
    | false => rw [h3 hab hba, h3' hab hba]

/-! ## The clauses are not vacuous: each rejects wrong answers (kernel-evaluated monitors) -/

example : ¬ Spec.C13.IndexOf [1, 2, 1] 1 2 := by decide
example : ¬ Spec.C13.LastIndexOf [1, 2, 1] 1 0 := by decide
example : ¬ Spec.C13.FirstIdx (Spec.C13.pred 0) [1, 3] 0 := by decide
example : ¬ Spec.C13.FindAll (Spec.C13.pred 0) [1, 2, 4] [(1, 2)] := by decide
example : Spec.C13.FindAll (Spec.C13.pred 0) [1, 2, 4] [(1, 2), (2, 4)] := by decide
example : ¬ Spec.C13.IsMax [-3, -1] 0 := by decide
example : ¬ Spec.C13.IsMinBy (Spec.C13.key 5) [3, -3] (-3) := by decide
example : Spec.C13.IsMinBy (Spec.C13.key 5) [3, -3] 3 := by decide
example : ¬ Spec.C13.IsMinByKey [[(0, 1)], [(0, -2)]] 0 true 0 := by decide
example : ¬ Spec.C13.IsMinByKey [[(1, 1)], [(0, 7)]] 0 true 0 := by decide   -- F44: the first map lacks the key
example : ¬ Spec.C13.Nth [] 0 .panic := by decide
example : ¬ Spec.C13.Nth [1, 2] (-1) (.ok 1) := by decide
example : ¬ Spec.C13.Mean [-1, -2] (.ok (-2)) := by decide
example : Spec.C13.Mean [-1, -2] (.ok (-1)) := by decide
example : ¬ Spec.C13.Abs8 (-127) (-127) := by decide
example : ¬ Spec.C13.Clamp 5 0 3 5 := by decide
example : ¬ Spec.C13.Range false [0, 2, 5] (.ok [0, 2]) := by decide
example : ¬ Spec.C13.Range false [0, 2, 5] (.ok [0, 2, 4, 6]) := by decide
example : Spec.C13.Range false [0, 2, 5] (.ok [0, 2, 4]) := by decide
example : ¬ Spec.C13.Range false [0, 0, 5] (.ok []) := by decide
example : ¬ Spec.C13.Range false [3] .hang := by decide
example : ¬ Spec.C13.Range true [3] (.ok [0, 1, 2]) := by decide

end GoguVerif.Theorems.C13
