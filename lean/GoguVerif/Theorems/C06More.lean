import GoguVerif.Theorems.C06
/-!
# C06 — whole-history laws of the LIFO (arbitrary interleaved histories)

`Theorems/C06.lean` proves that the slice-backed `Stack` produces exactly the answers of the abstract
LIFO `Spec.C06.run` for every history; its corollary `lifo_order` only covers "push `xs`, then pop
`|xs|` times".  This file proves laws of WHOLE histories (any interleaving of the five operations,
any initial content `s`) about `Spec.C06.run` and transfers them to `Model.Stack` through
`stack_refines`.  (The linked `LStack` violates the full clause — findings F12a/F12b — and is not
treated here.)

`Pop` has no error result, so which pops succeed is read off the history with the counter `depth`
(elements held: `+1` per push, `−1` per pop at positive depth); `popped` collects the answers of the
pops issued at positive depth.

* conservation: `popped ++ final` is a permutation of `initial ++ pushed` — every pushed value is
  accounted for exactly once (`conservation_perm`); what is still held is held in push order
  (`content_sublist`).
* LIFO order: a `Pop` returns the value of the `Push` it is bracketed with — `push x`, then a
  well-bracketed segment (`balanced 0`), then `pop` answers `x` and restores the content
  (`pop_returns_matching_push`); the pops of a well-bracketed segment never reach below it
  (`balanced_restores`); every point of a history is either inside an open bracket or sees a prefix
  of the initial content (`open_push_or_initial`).
* size: `size_eq_depth`, `depth_counts`, `size_observation`.
* `peek_then_pop`, `search_observation`, `pop_empty_observation`.
-/
namespace GoguVerif.Theorems.C06More
open GoguVerif Spec.C06

set_option linter.unusedSectionVars false
variable {α : Type} [Inhabited α] [DecidableEq α]

/-! ## Reading a history -/

/-- the values pushed by a history, in order -/
def pushed : List (Op α) → List α
  | [] => []
  | .push x :: ops => x :: pushed ops
  | _ :: ops => pushed ops

/-- number of elements held after a history that started with `n` elements -/
def depth : Nat → List (Op α) → Nat
  | n, [] => n
  | n, .push _ :: ops => depth (n + 1) ops
  | n, .pop :: ops => depth (n - 1) ops
  | n, _ :: ops => depth n ops

/-- the values returned by the successful pops (those issued while something is held), in order;
`n` = number of elements held at the start -/
def popped : Nat → List (Op α) → List (Out α) → List α
  | n, op :: ops, o :: os =>
    match op with
    | .push _ => popped (n + 1) ops os
    | .pop =>
      if n = 0 then popped 0 ops os
      else (match o with | .val v => [v] | _ => []) ++ popped (n - 1) ops os
    | _ => popped n ops os
  | _, _, _ => []

/-- well-bracketing: started at depth `d`, no pop reaches below depth 0 and the segment ends at
depth 0.  `balanced 0 seg`: every pop of `seg` is matched by an earlier push of `seg` and every push
of `seg` is popped in `seg`. -/
def balanced : Nat → List (Op α) → Bool
  | d, [] => d == 0
  | d, .push _ :: ops => balanced (d + 1) ops
  | 0, .pop :: _ => false
  | d + 1, .pop :: ops => balanced d ops
  | d, _ :: ops => balanced d ops

/-! ## Structure of `run` -/

theorem run_cons (s : List α) (op : Op α) (ops : List (Op α)) :
    run s (op :: ops) = ((run (step s op).1 ops).1, (step s op).2 :: (run (step s op).1 ops).2) := rfl

theorem run_append (s : List α) (a b : List (Op α)) :
    run s (a ++ b) = ((run (run s a).1 b).1, (run s a).2 ++ (run (run s a).1 b).2) := by
  induction a generalizing s with
  | nil => rfl
  | cons op a ih => simp [run_cons, ih]

theorem run_length (s : List α) (ops : List (Op α)) : (run s ops).2.length = ops.length := by
  induction ops generalizing s with
  | nil => rfl
  | cons op ops ih => simp [run_cons, ih]

/-- The answer observed at any point of any history is the abstract LIFO's answer in the content
reached by the history so far. -/
theorem observation (s : List α) (pre post : List (Op α)) (op : Op α) :
    (run s (pre ++ op :: post)).2[pre.length]? = some (step (run s pre).1 op).2 := by
  rw [run_append, run_cons]
  simp [run_length]

theorem snoc_cases (s : List α) : s = [] ∨ ∃ r x, s = r ++ [x] := by
  cases s with
  | nil => exact Or.inl rfl
  | cons a l =>
    exact Or.inr ⟨(a :: l).dropLast, (a :: l).getLast (by simp),
      (List.dropLast_concat_getLast (by simp)).symm⟩

theorem step_pop_nil : step ([] : List α) .pop = ([], .val default) := rfl

theorem step_pop_snoc (r : List α) (x : α) : step (r ++ [x]) .pop = (r, .val x) := by
  simp [step]

/-! ## Conservation -/

/-- **Conservation, any initial content, any interleaving.**  The values returned by the successful
pops together with what is still held are, up to order, exactly the initial content together with
the pushed values: every pushed value is accounted for exactly once (never lost, never duplicated). -/
theorem conservation_perm (s : List α) (ops : List (Op α)) :
    (popped s.length ops (run s ops).2 ++ (run s ops).1).Perm (s ++ pushed ops) := by
  induction ops generalizing s with
  | nil => simp [run, popped, pushed]
  | cons op ops ih =>
    rw [run_cons]
    cases op with
    | push x =>
      have := ih (s ++ [x])
      simpa [step, popped, pushed] using this
    | pop =>
      rcases snoc_cases s with rfl | ⟨r, x, rfl⟩
      · simpa [step_pop_nil, popped, pushed] using ih []
      · have h := ih r
        rw [step_pop_snoc]
        simp only [popped, pushed, List.length_append, List.length_singleton, Nat.add_one_ne_zero,
          if_false, Nat.add_sub_cancel, List.cons_append, List.append_assoc]
        exact (List.Perm.cons x h).trans List.perm_middle.symm
    | peek => simpa [step, popped, pushed] using ih s
    | search x => simpa [step, popped, pushed] using ih s
    | size => simpa [step, popped, pushed] using ih s

/-- What is still held is held in the order it was pushed (above what is left of the initial
content). -/
theorem content_sublist (s : List α) (ops : List (Op α)) :
    (run s ops).1.Sublist (s ++ pushed ops) := by
  induction ops generalizing s with
  | nil => simp [run, pushed]
  | cons op ops ih =>
    rw [run_cons]
    cases op with
    | push x => simpa [step, pushed] using ih (s ++ [x])
    | pop =>
      rcases snoc_cases s with rfl | ⟨r, x, rfl⟩
      · simpa [step_pop_nil, pushed] using ih []
      · rw [step_pop_snoc]
        refine (ih r).trans ?_
        simp only [pushed, List.append_assoc, List.singleton_append]
        exact List.Sublist.append (List.Sublist.refl r) (List.sublist_cons_self x _)
    | peek => simpa [step, pushed] using ih s
    | search x => simpa [step, pushed] using ih s
    | size => simpa [step, pushed] using ih s

/-! ## Size -/

/-- The number of elements held is the bracket counter of the history. -/
theorem size_eq_depth (s : List α) (ops : List (Op α)) : (run s ops).1.length = depth s.length ops := by
  induction ops generalizing s with
  | nil => rfl
  | cons op ops ih =>
    rw [run_cons]
    cases op with
    | push x => simpa [step, depth] using ih (s ++ [x])
    | pop =>
      rcases snoc_cases s with rfl | ⟨r, x, rfl⟩
      · simpa [step_pop_nil, depth] using ih []
      · rw [step_pop_snoc]; simpa [depth] using ih r
    | peek => simpa [step, depth] using ih s
    | search x => simpa [step, depth] using ih s
    | size => simpa [step, depth] using ih s

/-- **Size, whole histories**: `final size + #successful pops = |initial| + #pushes` (so
`Size = |initial| + pushes − successful pops`, never negative). -/
theorem depth_counts (s : List α) (ops : List (Op α)) :
    (run s ops).1.length + (popped s.length ops (run s ops).2).length = s.length + (pushed ops).length := by
  have := (conservation_perm s ops).length_eq
  simp only [List.length_append] at this
  omega

theorem final_size (s : List α) (ops : List (Op α)) :
    ((run s ops).1.length : Int) =
      (s.length : Int) + (pushed ops).length - (popped s.length ops (run s ops).2).length := by
  have := depth_counts s ops
  omega

/-- Every `Size` observation inside a history is the length of the abstract stack at that point,
i.e. `|initial| + #pushes − #successful pops` of the history so far. -/
theorem size_observation (s : List α) (pre post : List (Op α)) :
    (run s (pre ++ Op.size :: post)).2[pre.length]? =
      some (Out.int ((s.length : Int) + (pushed pre).length
        - (popped s.length pre (run s pre).2).length)) := by
  rw [observation, ← final_size]; rfl

/-! ## LIFO order: a pop returns the value of the push it is bracketed with -/

/-- A well-bracketed segment (started `t.length` deep) consumes exactly the `t.length` topmost
elements and never reaches below them: whatever lies beneath (`s`) is what is left. -/
theorem balanced_restores (mid : List (Op α)) :
    ∀ (s t : List α), balanced t.length mid = true → (run (s ++ t) mid).1 = s := by
  induction mid with
  | nil =>
    intro s t h
    have : t = [] := by simpa [balanced] using h
    simp [this, run]
  | cons op mid ih =>
    intro s t h
    rw [run_cons]
    cases op with
    | push x =>
      have := ih s (t ++ [x]) (by simpa [balanced] using h)
      simpa [step] using this
    | pop =>
      rcases snoc_cases t with rfl | ⟨r, x, rfl⟩
      · simp [balanced] at h
      · have h' : balanced r.length mid = true := by simpa [balanced] using h
        have e : s ++ (r ++ [x]) = (s ++ r) ++ [x] := by simp
        rw [e, step_pop_snoc]
        exact ih s r h'
    | peek => simpa [step] using ih s t (by simpa [balanced] using h)
    | search x => simpa [step] using ih s t (by simpa [balanced] using h)
    | size => simpa [step] using ih s t (by simpa [balanced] using h)

/-- **Pop returns the most recently pushed value not yet popped.**  In any history, from any initial
content: if `push x` is followed by a well-bracketed segment `mid` (all of whose pushes are popped
inside it, and whose pops pop only its own pushes) and then a `Pop`, that `Pop` answers `x`, and
afterwards the content is what it was before the `push x`. -/
theorem pop_returns_matching_push (s : List α) (pre mid post : List (Op α)) (x : α)
    (hb : balanced 0 mid = true) :
    (run s (pre ++ Op.push x :: (mid ++ Op.pop :: post))).2[pre.length + 1 + mid.length]?
      = some (Out.val x) ∧
    (run s (pre ++ Op.push x :: (mid ++ [Op.pop]))).1 = (run s pre).1 := by
  have hmid : (run s (pre ++ Op.push x :: mid)).1 = (run s pre).1 ++ [x] := by
    rw [run_append, run_cons]
    have := balanced_restores mid ((run s pre).1 ++ [x]) [] hb
    simpa [step] using this
  constructor
  · have e2 : pre ++ Op.push x :: (mid ++ Op.pop :: post) = (pre ++ Op.push x :: mid) ++ Op.pop :: post := by
      simp
    have h2 := observation s (pre ++ Op.push x :: mid) post Op.pop
    rw [← e2] at h2
    have hl : (pre ++ Op.push x :: mid).length = pre.length + 1 + mid.length := by simp; omega
    rw [hl] at h2
    rw [h2, hmid, step_pop_snoc]
  · have e2 : pre ++ Op.push x :: (mid ++ [Op.pop]) = (pre ++ Op.push x :: mid) ++ [Op.pop] := by simp
    rw [e2, run_append, hmid, run_cons, step_pop_snoc]
    rfl

/-! ## Peek, Search, Pop on empty — at any point of any history -/

def readOnly : Op α → Bool
  | .peek | .search _ | .size => true
  | _ => false

theorem run_readOnly (s : List α) (mid : List (Op α)) (h : ∀ op ∈ mid, readOnly op = true) :
    (run s mid).1 = s := by
  induction mid generalizing s with
  | nil => rfl
  | cons op mid ih =>
    have h1 := h op List.mem_cons_self
    have h2 : ∀ o ∈ mid, readOnly o = true := fun o ho => h o (List.mem_cons_of_mem _ ho)
    rw [run_cons]
    cases op <;> simp [readOnly] at h1 <;> simpa [step] using ih s h2

/-- **Peek shows what the next Pop returns**, at any point of any history (observing calls may come
in between); on the empty stack both answer the zero value. -/
theorem peek_then_pop (s : List α) (pre mid post : List (Op α))
    (hm : ∀ op ∈ mid, readOnly op = true) :
    ∃ v, (run s (pre ++ Op.peek :: (mid ++ Op.pop :: post))).2[pre.length]? = some (Out.val v) ∧
      (run s (pre ++ Op.peek :: (mid ++ Op.pop :: post))).2[pre.length + 1 + mid.length]?
        = some (Out.val v) ∧
      v = (run s pre).1.getLast?.getD default := by
  have h1 := observation s pre (mid ++ Op.pop :: post) Op.peek
  have e2 : pre ++ Op.peek :: (mid ++ Op.pop :: post) = (pre ++ Op.peek :: mid) ++ Op.pop :: post := by
    simp
  have h2 := observation s (pre ++ Op.peek :: mid) post Op.pop
  rw [← e2] at h2
  have hl : (pre ++ Op.peek :: mid).length = pre.length + 1 + mid.length := by simp; omega
  rw [hl] at h2
  have hc : (run s (pre ++ Op.peek :: mid)).1 = (run s pre).1 := by
    rw [run_append, run_cons]
    simpa [step] using run_readOnly (run s pre).1 mid hm
  rw [hc] at h2
  rw [h1, h2]
  refine ⟨(run s pre).1.getLast?.getD default, rfl, ?_, rfl⟩
  rw [← (C06.peek_is_next_pop (run s pre).1).2]
  rfl

/-- **Search reports exactly the elements currently held**, at any point of any history. -/
theorem search_observation (s : List α) (pre post : List (Op α)) (x : α) :
    (run s (pre ++ Op.search x :: post)).2[pre.length]? = some (Out.bool (decide (x ∈ (run s pre).1))) := by
  rw [observation]; rfl

/-- A reported element was pushed (or initial). -/
theorem search_true_was_pushed (s : List α) (pre post : List (Op α)) (x : α)
    (h : (run s (pre ++ Op.search x :: post)).2[pre.length]? = some (Out.bool true)) :
    x ∈ s ++ pushed pre := by
  rw [search_observation] at h
  have : x ∈ (run s pre).1 := by simpa using h
  exact (content_sublist s pre).subset this

/-- **Pop / Peek on an empty stack return the zero value and change nothing**, at any point. -/
theorem pop_empty_observation (s : List α) (pre post : List (Op α)) (he : (run s pre).1 = []) :
    (run s (pre ++ Op.pop :: post)).2[pre.length]? = some (Out.val default) ∧
    (run s (pre ++ [Op.pop])).1 = [] ∧
    (run s (pre ++ Op.peek :: post)).2[pre.length]? = some (Out.val default) := by
  refine ⟨?_, ?_, ?_⟩
  · rw [observation, he]; rfl
  · rw [run_append, he]; rfl
  · rw [observation, he]; rfl

/-- well-bracketed segments compose -/
theorem balanced_append (a b : List (Op α)) :
    ∀ (d1 d2 : Nat), balanced d1 a = true → balanced d2 b = true → balanced (d1 + d2) (a ++ b) = true := by
  induction a with
  | nil =>
    intro d1 d2 h1 h2
    have : d1 = 0 := by simpa [balanced] using h1
    subst this; simpa using h2
  | cons op a ih =>
    intro d1 d2 h1 h2
    cases op with
    | push x =>
      have := ih (d1 + 1) d2 (by simpa [balanced] using h1) h2
      rw [Nat.add_right_comm] at this
      simpa [balanced] using this
    | pop =>
      cases d1 with
      | zero => simp [balanced] at h1
      | succ d =>
        have := ih d d2 (by simpa [balanced] using h1) h2
        rw [Nat.add_right_comm]
        simpa [balanced] using this
    | peek => simpa [balanced] using ih d1 d2 (by simpa [balanced] using h1) h2
    | search x => simpa [balanced] using ih d1 d2 (by simpa [balanced] using h1) h2
    | size => simpa [balanced] using ih d1 d2 (by simpa [balanced] using h1) h2

theorem snoc_cases' {β : Type} (s : List β) : s = [] ∨ ∃ r x, s = r ++ [x] := by
  cases s with
  | nil => exact Or.inl rfl
  | cons a l =>
    exact Or.inr ⟨(a :: l).dropLast, (a :: l).getLast (by simp),
      (List.dropLast_concat_getLast (by simp)).symm⟩

/-- **Every point of every history is covered.**  After any history `pre`, either the last push not
yet popped is identified by bracketing — `pre = a ++ push x :: mid` with `mid` well-bracketed, and
`x` is on top (so, by `pop_returns_matching_push`, the next `Pop` returns `x`) — or every push has
been popped and what is held is a prefix of the initial content. -/
theorem open_push_or_initial (s : List α) (pre : List (Op α)) :
    (∃ a x mid, pre = a ++ Op.push x :: mid ∧ balanced 0 mid = true ∧
        (run s pre).1 = (run s a).1 ++ [x]) ∨
    (run s pre).1 <+: s := by
  suffices H : ∀ n (pre : List (Op α)), pre.length ≤ n →
      ((∃ a x mid, pre = a ++ Op.push x :: mid ∧ balanced 0 mid = true ∧
        (run s pre).1 = (run s a).1 ++ [x]) ∨ (run s pre).1 <+: s) from H pre.length pre (Nat.le_refl _)
  intro n
  induction n with
  | zero =>
    intro pre h
    have : pre = [] := by simpa using h
    subst this
    exact Or.inr (by simp [run])
  | succ n ih =>
    intro pre h
    rcases snoc_cases' pre with rfl | ⟨pre', op, rfl⟩
    · exact Or.inr (by simp [run])
    · have hlen : pre'.length ≤ n := by simp at h; omega
      have hrun : (run s (pre' ++ [op])).1 = (step (run s pre').1 op).1 := by
        rw [run_append]; rfl
      have keep : ∀ op : Op α, readOnly op = true →
          ((∃ a x mid, pre' ++ [op] = a ++ Op.push x :: mid ∧ balanced 0 mid = true ∧
            (run s (pre' ++ [op])).1 = (run s a).1 ++ [x]) ∨ (run s (pre' ++ [op])).1 <+: s) := by
        intro op hro
        have hsame : (run s (pre' ++ [op])).1 = (run s pre').1 := by
          rw [run_append]
          exact run_readOnly _ [op] (by simpa using hro)
        rcases ih pre' hlen with ⟨a, x, mid, e, hb, hc⟩ | hp
        · refine Or.inl ⟨a, x, mid ++ [op], by rw [e]; simp, ?_, by rw [hsame, hc]⟩
          have h1 : balanced 0 [op] = true := by cases op <;> simp [readOnly] at hro <;> rfl
          simpa using balanced_append mid [op] 0 0 hb h1
        · exact Or.inr (by rw [hsame]; exact hp)
      cases op with
      | push x =>
        exact Or.inl ⟨pre', x, [], rfl, rfl, by rw [hrun]; rfl⟩
      | peek => exact keep _ rfl
      | search x => exact keep _ rfl
      | size => exact keep _ rfl
      | pop =>
        rcases ih pre' hlen with ⟨a, x, mid, e, hb, hc⟩ | hp
        · have hpop : (run s (pre' ++ [Op.pop])).1 = (run s a).1 := by
            rw [hrun, hc, step_pop_snoc]
          have hla : a.length ≤ n := by
            have := congrArg List.length e
            simp at this; omega
          rcases ih a hla with ⟨a', y, mid', e', hb', hc'⟩ | hp'
          · refine Or.inl ⟨a', y, mid' ++ Op.push x :: (mid ++ [Op.pop]), ?_, ?_, by rw [hpop, hc']⟩
            · rw [e, e']; simp
            · have h1 : balanced 0 (Op.push x :: (mid ++ [Op.pop])) = true := by
                have := balanced_append mid [Op.pop] 0 1 hb rfl
                simpa [balanced] using this
              simpa using balanced_append mid' _ 0 0 hb' h1
          · exact Or.inr (by rw [hpop]; exact hp')
        · refine Or.inr ?_
          rw [hrun]
          rcases snoc_cases (run s pre').1 with h0 | ⟨r, x, h1⟩
          · rw [h0] at hp ⊢; exact hp
          · rw [h1] at hp ⊢
            rw [step_pop_snoc]
            exact (List.prefix_append r [x]).trans hp

/-! ## Transfer to the slice-backed `Stack` -/

theorem stack_conservation_perm (s : List α) (ops : List (Op α)) :
    (popped s.length ops (Model.Stack.run s ops).2 ++ (Model.Stack.run s ops).1).Perm
      (s ++ pushed ops) := by
  rw [C06.stack_refines]; exact conservation_perm s ops

theorem stack_content_sublist (s : List α) (ops : List (Op α)) :
    (Model.Stack.run s ops).1.Sublist (s ++ pushed ops) := by
  rw [C06.stack_refines]; exact content_sublist s ops

theorem stack_depth_counts (s : List α) (ops : List (Op α)) :
    (Model.Stack.run s ops).1.length + (popped s.length ops (Model.Stack.run s ops).2).length =
      s.length + (pushed ops).length := by
  rw [C06.stack_refines]; exact depth_counts s ops

theorem stack_size_observation (s : List α) (pre post : List (Op α)) :
    (Model.Stack.run s (pre ++ Op.size :: post)).2[pre.length]? =
      some (Out.int ((s.length : Int) + (pushed pre).length
        - (popped s.length pre (Model.Stack.run s pre).2).length)) := by
  rw [C06.stack_refines, C06.stack_refines]; exact size_observation s pre post

theorem stack_pop_returns_matching_push (s : List α) (pre mid post : List (Op α)) (x : α)
    (hb : balanced 0 mid = true) :
    (Model.Stack.run s (pre ++ Op.push x :: (mid ++ Op.pop :: post))).2[pre.length + 1 + mid.length]?
      = some (Out.val x) ∧
    (Model.Stack.run s (pre ++ Op.push x :: (mid ++ [Op.pop]))).1 = (Model.Stack.run s pre).1 := by
  rw [C06.stack_refines, C06.stack_refines, C06.stack_refines]
  exact pop_returns_matching_push s pre mid post x hb

theorem stack_peek_then_pop (s : List α) (pre mid post : List (Op α))
    (hm : ∀ op ∈ mid, readOnly op = true) :
    ∃ v, (Model.Stack.run s (pre ++ Op.peek :: (mid ++ Op.pop :: post))).2[pre.length]?
        = some (Out.val v) ∧
      (Model.Stack.run s (pre ++ Op.peek :: (mid ++ Op.pop :: post))).2[pre.length + 1 + mid.length]?
        = some (Out.val v) ∧
      v = (Model.Stack.run s pre).1.getLast?.getD default := by
  rw [C06.stack_refines, C06.stack_refines]; exact peek_then_pop s pre mid post hm

theorem stack_search_observation (s : List α) (pre post : List (Op α)) (x : α) :
    (Model.Stack.run s (pre ++ Op.search x :: post)).2[pre.length]? =
      some (Out.bool (decide (x ∈ (Model.Stack.run s pre).1))) := by
  rw [C06.stack_refines, C06.stack_refines]; exact search_observation s pre post x

theorem stack_open_push_or_initial (s : List α) (pre : List (Op α)) :
    (∃ a x mid, pre = a ++ Op.push x :: mid ∧ balanced 0 mid = true ∧
        (Model.Stack.run s pre).1 = (Model.Stack.run s a).1 ++ [x]) ∨
    (Model.Stack.run s pre).1 <+: s := by
  rcases open_push_or_initial s pre with ⟨a, x, mid, e, hb, hc⟩ | hp
  · exact Or.inl ⟨a, x, mid, e, hb, by rw [C06.stack_refines, C06.stack_refines]; exact hc⟩
  · exact Or.inr (by rw [C06.stack_refines]; exact hp)

/-! ## Concrete instances -/

example : balanced 0 [.push (5 : Int), .peek, .pop, .push 6, .push 7, .pop, .size, .pop] = true := by
  decide

example : (Model.Stack.run [1] ([.pop, .pop] ++ Op.push (9 : Int) ::
      ([.push 5, .peek, .pop, .push 6, .push 7, .pop, .size, .pop] ++ Op.pop :: [.size]))).2[2 + 1 + 8]?
    = some (Out.val 9) := by decide

example : popped 1 [.push 2, .pop, .pop, .pop, .push (0 : Int), .peek, .pop, .push 4]
      (run [1] [.push 2, .pop, .pop, .pop, .push (0 : Int), .peek, .pop, .push 4]).2 = [2, 1, 0] ∧
    (run [1] [.push 2, .pop, .pop, .pop, .push (0 : Int), .peek, .pop, .push 4]).1 = [4] ∧
    pushed [.push 2, .pop, .pop, .pop, .push (0 : Int), .peek, .pop, .push 4] = [2, 0, 4] := by decide

end GoguVerif.Theorems.C06More
