import GoguVerif.Spec.C06
import GoguVerif.Model.Stack
import GoguVerif.Model.LStack
/-!
# C06 — property theorems (stacks are LIFO)

* `stack_refines`: every history of the model of the slice-backed `Stack` produces exactly the
  abstract LIFO's answers (full property for `Stack`).
* Linked `LStack`: the full-strength statement
  `∀ t ops, (Model.LStack.run (new t) ops).2 = (Spec.C06.run [t] ops).2`
  is FALSE of the code as it is (known findings F12a `lstack.pop-returns-element-beneath`,
  F12b `lstack.pop-keeps-bottom`, pinned by `stack.Example_linkedList`); its negation is proved by
  the two concrete witnesses (`lstack_full_fails_beneath`, `lstack_full_fails_bottom`), and
  `lstack_refines_patched_partial` proves that every history of the model produces exactly the
  answers of the spec patched with exactly those two deviations; `lstack_agrees_until_pop_partial`:
  until the first `Pop`, the linked stack answers exactly as the abstract LIFO.
-/
namespace GoguVerif.Theorems.C06
open GoguVerif Spec.C06

set_option linter.unusedSectionVars false
variable {α : Type} [Inhabited α] [DecidableEq α]

theorem searchLoop_eq_mem (x : α) (l : List α) : Model.Stack.searchLoop x l = decide (x ∈ l) := by
  induction l with
  | nil => simp [Model.Stack.searchLoop]
  | cons y r ih =>
    simp only [Model.Stack.searchLoop, ih]
    by_cases h : y = x
    · simp [h]
    · have : ¬ x = y := fun e => h e.symm
      simp [h, this]

/-- The slice-backed stack *is* the abstract LIFO: one step. -/
theorem stack_step_refines (s : List α) (op : Op α) :
    Model.Stack.step s op = Spec.C06.step s op := by
  cases op with
  | push x => rfl
  | pop =>
    simp only [Model.Stack.step, Spec.C06.step]
    cases h : s.getLast? with
    | none =>
      have : s = [] := by simpa using h
      simp [this]
    | some x =>
      have hne : s ≠ [] := by intro e; simp [e] at h
      have : s.length ≠ 0 := by simpa using hne
      simp [this, List.dropLast_eq_take]
  | peek =>
    simp only [Model.Stack.step, Spec.C06.step]
    cases h : s.getLast? with
    | none =>
      have : s = [] := by simpa using h
      simp [this]
    | some x =>
      have hne : s ≠ [] := by intro e; simp [e] at h
      have : s.length ≠ 0 := by simpa using hne
      simp [this]
  | search x => simp [Model.Stack.step, Spec.C06.step, searchLoop_eq_mem]
  | size => rfl

/-- Every history of the slice-backed stack produces exactly the abstract LIFO's answers. -/
theorem stack_refines (s : List α) (ops : List (Op α)) :
    Model.Stack.run s ops = Spec.C06.run s ops := by
  induction ops generalizing s with
  | nil => rfl
  | cons op ops ih => simp only [Model.Stack.run, Spec.C06.run, stack_step_refines, ih]

/-! ## Clauses of the property as facts about the abstract LIFO -/

/-- Pop returns the most recently pushed element not yet popped: pushing `xs` and popping
`xs.length` times yields `xs` reversed and leaves what was there before. -/
theorem lifo_order (s xs : List α) :
    Spec.C06.run s (xs.map .push ++ List.replicate xs.length .pop) =
      (s, xs.map (fun _ => Out.unit) ++ xs.reverse.map Out.val) := by
  have push : ∀ (s xs : List α) (rest : List (Op α)),
      Spec.C06.run s (xs.map .push ++ rest) =
        ((Spec.C06.run (s ++ xs) rest).1, xs.map (fun _ => Out.unit) ++ (Spec.C06.run (s ++ xs) rest).2) := by
    intro s xs rest
    induction xs generalizing s with
    | nil => simp
    | cons x xs ih => simp [Spec.C06.run, Spec.C06.step, ih]
  have pop : ∀ (n : Nat) (xs s : List α), xs.length = n →
      Spec.C06.run (s ++ xs) (List.replicate xs.length (Op.pop : Op α)) = (s, xs.reverse.map Out.val) := by
    intro n
    induction n with
    | zero => intro xs s h; have : xs = [] := by simpa using h
              subst this; simp [Spec.C06.run]
    | succ n ih =>
      intro xs s h
      have hne : xs ≠ [] := by intro e; simp [e] at h
      obtain ⟨ys, y, rfl⟩ : ∃ ys y, xs = ys ++ [y] := ⟨xs.dropLast, xs.getLast hne, (List.dropLast_concat_getLast hne).symm⟩
      have hl : ys.length = n := by simpa using h
      have e : s ++ (ys ++ [y]) = (s ++ ys) ++ [y] := by simp
      have := ih ys s hl
      rw [e]
      simp only [List.length_append, List.length_singleton, List.replicate_succ, Spec.C06.run,
        Spec.C06.step, List.getLast?_concat, List.dropLast_concat, this]
      simp
  rw [push]; simp [pop xs.length xs s rfl]

/-- Peek is the element the next Pop returns, and does not change the content. -/
theorem peek_is_next_pop (s : List α) :
    (Spec.C06.step s .peek).1 = s ∧ (Spec.C06.step s .peek).2 = (Spec.C06.step s .pop).2 := by
  simp only [Spec.C06.step]
  cases s.getLast? <;> simp

/-- Pop on an empty stack is a no-op returning the zero value. -/
theorem pop_empty : Spec.C06.step ([] : List α) .pop = ([], .val default) := rfl

theorem size_step (s : List α) (op : Op α) :
    ((Spec.C06.step s op).1.length : Int) =
      match op with
      | .push _ => (s.length : Int) + 1
      | .pop => if s = [] then 0 else (s.length : Int) - 1
      | _ => s.length := by
  cases op <;> simp [Spec.C06.step]
  cases h : s.getLast? with
  | none => have : s = [] := by simpa using h
            simp [this]
  | some x =>
    have hne : s ≠ [] := by intro e; simp [e] at h
    have : 0 < s.length := List.length_pos_iff.mpr hne
    simp [hne]; omega

theorem search_iff (s : List α) (x : α) : (Spec.C06.step s (.search x)).2 = .bool true ↔ x ∈ s := by
  simp [Spec.C06.step]

/-! ## Linked stack -/

/-- The model of `lstack.go` is, step for step, the LIFO spec patched with exactly the two recorded
deviations. -/
theorem lstack_step_patched (s : Model.LStack.St α) (op : Op α) :
    let r := Model.LStack.step s op
    let p := Patched.step ({ xs := s.list, n := s.n } : Patched.St α) op
    r.2 = p.2 ∧ r.1.list = p.1.xs ∧ r.1.n = p.1.n := by
  cases op <;>
    simp [Model.LStack.step, Patched.step, Model.DSeq.append, Model.DSeq.pop, Model.DSeq.last,
      Model.DSeq.find]
  split <;> simp

/-- `…_partial` (known findings F12a/F12b): every history of the linked stack produces exactly the
answers of the patched spec. -/
theorem lstack_refines_patched_partial (s : Model.LStack.St α) (ops : List (Op α)) :
    (Model.LStack.run s ops).2 =
      (ops.foldl (fun (acc : Patched.St α × List (Out α)) op =>
          let r := Patched.step acc.1 op; (r.1, acc.2 ++ [r.2]))
        (({ xs := s.list, n := s.n } : Patched.St α), [])).2 := by
  suffices h : ∀ (ops : List (Op α)) (s : Model.LStack.St α) (pre : List (Out α)),
      pre ++ (Model.LStack.run s ops).2 =
      (ops.foldl (fun (acc : Patched.St α × List (Out α)) op =>
          let r := Patched.step acc.1 op; (r.1, acc.2 ++ [r.2]))
        (({ xs := s.list, n := s.n } : Patched.St α), pre)).2 by
    simpa using h ops s []
  intro ops
  induction ops with
  | nil => intro s pre; simp [Model.LStack.run]
  | cons op ops ih =>
    intro s pre
    obtain ⟨h1, h2, h3⟩ := lstack_step_patched s op
    simp only [Model.LStack.run, List.foldl_cons]
    have := ih (Model.LStack.step s op).1 (pre ++ [(Model.LStack.step s op).2])
    simp only [List.append_assoc, List.singleton_append] at this
    rw [this, h1, h2, h3]

/-- Until the first `Pop` the linked stack answers exactly as the abstract LIFO (Push / Peek /
Search / Size are unaffected by the findings). -/
theorem lstack_agrees_until_pop_partial (s : Model.LStack.St α) (hs : s.n = s.list.length)
    (ops : List (Op α)) (hp : ∀ op ∈ ops, op ≠ .pop) :
    (Model.LStack.run s ops).2 = (Spec.C06.run s.list ops).2 := by
  induction ops generalizing s with
  | nil => rfl
  | cons op ops ih =>
    have hop : op ≠ .pop := hp op (by simp)
    have hrest : ∀ o ∈ ops, o ≠ .pop := fun o ho => hp o (by simp [ho])
    simp only [Model.LStack.run, Spec.C06.run]
    cases op with
    | pop => exact absurd rfl hop
    | push x =>
      have := ih { list := Model.DSeq.append s.list x, n := s.n + 1 }
        (by simp [Model.DSeq.append, hs]) hrest
      simp only [Model.DSeq.append] at this
      simp [Model.LStack.step, Spec.C06.step, Model.DSeq.append, this]
    | peek =>
      simp [Model.LStack.step, Spec.C06.step, ih s hs hrest, Model.DSeq.last]
    | search x =>
      simp [Model.LStack.step, Spec.C06.step, ih s hs hrest, Model.DSeq.find]
    | size =>
      simp [Model.LStack.step, Spec.C06.step, ih s hs hrest, hs]

/-- Negation of the full clause, witness of F12a: `NewLinked(1); Push(2); Pop()` answers 1, the
abstract LIFO answers 2. -/
theorem lstack_full_fails_beneath :
    (Model.LStack.run (Model.LStack.new (1 : Int)) [.push 2, .pop]).2 ≠
      (Spec.C06.run [(1 : Int)] [.push 2, .pop]).2 := by decide

/-- Negation of the full clause, witness of F12b: `NewLinked(1); Pop(); Peek()`: Pop answers the zero
value and the element stays visible. -/
theorem lstack_full_fails_bottom :
    (Model.LStack.run (Model.LStack.new (1 : Int)) [.pop, .peek, .size]).2 =
      [.val 0, .val 1, .int 0] ∧
    (Spec.C06.run [(1 : Int)] [.pop, .peek, .size]).2 = [.val 1, .val 0, .int 0] := by decide

end GoguVerif.Theorems.C06
