import GoguVerif.Theorems.C01NoPanic
import GoguVerif.Theorems.GenTieQS
/-!
# C01 — "no call panics" for the slice queue and slice stack, against the REGENERATED Go methods

Split from `Theorems/C01NoPanic.lean`: the statements below mention `Gen/Containers.lean` (regenerated from
`queue/queue.go` and `stack/stack.go` on every run) through the ties of `Theorems/GenTieQS.lean`.  They are audited with
the advisory regenerated tie of C01 (`Audit/C01NoPanicGen.lean`, `engines.GEN_TIE_MODULES`).
-/
namespace GoguVerif.Theorems.C01NoPanic
open GoguVerif GoguVerif.Model GoguVerif.Model.Lin
open GoguVerif.Model.Lock (Mode)
open GoguVerif.Theorems.C02Inst
variable {σ Op Ret : Type}
variable [Inhabited Ret] {step : σ → Op → σ × Ret} {mode : Op → Mode}
variable {α : Type} [Inhabited α] [DecidableEq α]

/-! ## 3. Slice queue `queue.Queue` and slice stack `stack.Stack`

The result types `Spec.C05.Out` / `Spec.C06.Out` of the models `Model.Queue.step` / `Model.Stack.step`
have NO panic outcome, and the state is the bare `items` slice (no counter, hence no representation
invariant beyond `True`): at the level of the hand-written model "never panics" is built into the
type.  The content is therefore taken from the REGENERATED Go methods (`Gen/Containers.lean`, tied to
the model in `Theorems/GenTieQS.lean`; element type `Int`), whose index and slice expressions fail
exactly when Go panics: `queueGoOk items op` / `stackGoOk items op` say that the regenerated method of
`op`, run on the field value `items`, returns normally.  They hold for EVERY `items`
(`queue_go_total`, `stack_go_total`), in particular for the state at each linearization point. -/
section SliceQS
open GoguVerif.Gen.Containers

/-- the regenerated Go method of `queue.Queue` for `op`, run on `items`, returns normally.
`Enqueue`, `Size`, `Clear` are regenerated with a plain (non-`Res`) type: they contain no index, slice
or division expression, so they cannot panic by construction of the translation. -/
def queueGoOk (items : List Int) : Spec.C05.Op Int → Prop
  | .dequeue => ∃ r, queue.Queue_Dequeue items = Except.ok r
  | .peek => ∃ v, queue.Queue_Peek items = Except.ok v
  | .search x => ∃ b, queue.Queue_Search items x = Except.ok b
  | .enqueue _ => True
  | .size => True
  | .clear => True

theorem queue_go_total (items : List Int) (op : Spec.C05.Op Int) : queueGoOk items op := by
  cases op with
  | dequeue => exact ⟨_, GenTieQS.queue_dequeue_tie items⟩
  | peek => exact (GenTieQS.queue_peek_tie items).2
  | search x => exact ⟨_, (GenTieQS.queue_search_tie items x).1⟩
  | enqueue _ => trivial
  | size => trivial
  | clear => trivial

/-- the same for `stack.Stack` (`Push`, `Size` regenerated with a plain type) -/
def stackGoOk (items : List Int) : Spec.C06.Op Int → Prop
  | .pop => ∃ r, stack.Stack_Pop items = Except.ok r
  | .peek => ∃ v, stack.Stack_Peek items = Except.ok v
  | .search x => ∃ b, stack.Stack_Search items x = Except.ok b
  | .push _ => True
  | .size => True

theorem stack_go_total (items : List Int) (op : Spec.C06.Op Int) : stackGoOk items op := by
  cases op with
  | pop => exact ⟨_, GenTieQS.stack_pop_tie items⟩
  | peek => exact (GenTieQS.stack_peek_tie items).2
  | search x => exact ⟨_, (GenTieQS.stack_search_tie items x).1⟩
  | push _ => trivial
  | size => trivial

/-- **Slice queue.**  Goroutines calling `Enqueue`/`Dequeue`/`Peek`/`Search`/`Size`/`Clear`
concurrently, from ANY initial slice (the model has no invariant to assume; `True` is preserved):
every linearized and every returned answer is the model's answer in some state `s0` in which the
regenerated Go method of that operation returns normally (no index/slice panic). -/
theorem queue_concurrent_never_panics {init : List Int} {h s}
    (r : Fine.Reach (oneStep Model.Queue.step (queueMode (α := Int))) init h s) :
    (∀ p ∈ linOps h, ∃ s0, queueGoOk s0 p.1 ∧ p.2 = (Model.Queue.step s0 p.1).2) ∧
      (∀ t c op res, Ev.ret t c op res ∈ h →
        ∃ s0, queueGoOk s0 op ∧ res = (Model.Queue.step s0 op).2) := by
  obtain ⟨_, g1, g2⟩ := oneStep_preserves_at queueModel_observers (fun _ => True) queueGoOk
    (fun s op _ => ⟨trivial, queue_go_total s op⟩) (init := init) trivial r
  exact ⟨fun p hp => (g1 p hp).imp fun _ h => h.2, fun t c op res hm => (g2 t c op res hm).imp fun _ h => h.2⟩

/-- **Slice stack.**  As `queue_concurrent_never_panics`, for `Push`/`Pop`/`Peek`/`Search`/`Size`. -/
theorem stack_concurrent_never_panics {init : List Int} {h s}
    (r : Fine.Reach (oneStep Model.Stack.step (stackMode (α := Int))) init h s) :
    (∀ p ∈ linOps h, ∃ s0, stackGoOk s0 p.1 ∧ p.2 = (Model.Stack.step s0 p.1).2) ∧
      (∀ t c op res, Ev.ret t c op res ∈ h →
        ∃ s0, stackGoOk s0 op ∧ res = (Model.Stack.step s0 op).2) := by
  obtain ⟨_, g1, g2⟩ := oneStep_preserves_at stackModel_observers (fun _ => True) stackGoOk
    (fun s op _ => ⟨trivial, stack_go_total s op⟩) (init := init) trivial r
  exact ⟨fun p hp => (g1 p hp).imp fun _ h => h.2, fun t c op res hm => (g2 t c op res hm).imp fun _ h => h.2⟩

/-- non-vacuity: `Dequeue` on the EMPTY queue overlapping `Peek` (the calls that would index out of
range without the emptiness test) is a reachable history -/
example : ∃ s, Fine.Reach (oneStep Model.Queue.step (queueMode (α := Int))) []
    (serialHist Model.Queue.step [] .dequeue .peek) s :=
  (overlap_serial Model.Queue.step queueMode [] .dequeue .peek).imp fun _ h => h.1
example : ∃ s, Fine.Reach (oneStep Model.Stack.step (stackMode (α := Int))) []
    (serialHist Model.Stack.step [] .pop .peek) s :=
  (overlap_serial Model.Stack.step stackMode [] .pop .peek).imp fun _ h => h.1
/-- the predicate is not trivially true: it is false of a method that does panic -/
example : ¬ ∃ v, Gen.Funcs.goIdx ([] : List Int) 0 = Except.ok v := by simp [Gen.Funcs.goIdx]

end SliceQS

end GoguVerif.Theorems.C01NoPanic
