import GoguVerif.Theorems.GenTieMore2A
import GoguVerif.Theorems.GenTieMore2B
import GoguVerif.Theorems.GenTieMore2C
/-!
# The regenerated tie for the helpers outside the fragment of `translator/frag.go`

`Gen/Funcs2.lean` is produced on every run by the translator (`translator/frag_more.go`, on the machinery of
`translator/frag_heap.go`) from `slice.go`, `filter.go`, `range.go`, `math.go`: Go `int` (and every numeric type
parameter) as `Int`, slices as `Array`s, every index / slice operation failing exactly when Go panics, loops whose
termination is not structural running on FUEL (`Out.hang` when it runs out), `return` inside a loop as `Option ρ × S`.

The parts, one per property so that a change of one Go function breaks only that property's advisory tie:
* `GenTieMore2A` (C12): `Reverse`, `Reject` = `Model.C12.reverse` / `reject`, for every fuel ≥ `len + 1`;
* `GenTieMore2B` (C13): `Abs`, `Range` = `Model.C13.Range` (for all fuel against the model's loops on that fuel; for the
  fuel the model uses; for every larger fuel when the model does not hang), `RangeRight` given the fact about `Reverse`;
* `GenTieMore2C` (C11): `Contains`, `Intersection`, `IntersectionBy` = `Model.C11.intersection(By)`, for every fuel ≥
  `len(params[0]) + len(params) + 2`, panic on no argument included.

This module closes `RangeRight` with the `Reverse` fact of part A.
-/
namespace GoguVerif.Theorems.GenTieMore2
open GoguVerif GoguVerif.Gen.Funcs2

/-- `RangeRight`, for ALL fuel and all argument lists: the regenerated definition is the model's `RangeRight` with its
loops run on that fuel (`RangeRightF`) -/
theorem rangeRight_tie (fuel : Nat) (params : List Int) :
    RangeRight fuel params.toArray = rangeOut (RangeRightF fuel params) :=
  rangeRight_tie_of (fun sl fuel hf => reverse_eq_reverse sl fuel hf) fuel params

/-- `RangeRight` with the fuel the model uses -/
theorem rangeRight_tie_model (params : List Int) :
    RangeRight (modelFuel params) params.toArray = rangeOut (Model.C13.RangeRight params) :=
  rangeRight_tie_model_of (fun sl fuel hf => reverse_eq_reverse sl fuel hf) params

/-- `RangeRight` for every fuel ≥ the model's, when the model's `Range` does not hang -/
theorem rangeRight_tie_enough (params : List Int) (fuel : Nat) (hle : modelFuel params ≤ fuel)
    (h : Model.C13.Range params ≠ .hang) :
    RangeRight fuel params.toArray = rangeOut (Model.C13.RangeRight params) :=
  rangeRight_tie_enough_of (fun sl fuel hf => reverse_eq_reverse sl fuel hf) params fuel hle h

example : modelFuel [2, 1, 5] ≤ 100 ∧ Model.C13.Range [2, 1, 5] ≠ .hang := by
  refine ⟨by decide, ?_⟩
  intro h
  have : Model.C13.Range [2, 1, 5] = .ok [2, 3, 4] := by rfl
  rw [this] at h
  cases h

end GoguVerif.Theorems.GenTieMore2
