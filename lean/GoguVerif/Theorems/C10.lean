import GoguVerif.Lemmas.C10Tree
/-!
# C10 — property theorems: the B-tree is an ordered map and stays balanced

All statements are about the model `Model.BTree` (tied to `btree/btree.go` by the correspondence run)
and hold for every key, value and history — no bound on sizes or lengths.

* `Inv` (`Lemmas/C10Tree.lean`): every node has fewer than `maxChildren` entries; internal nodes
  (the root included) have at least 2 children; every non-root node has at least `maxChildren/2`
  entries; from the second child on each separator is the smallest key below it; keys ascend
  strictly left to right; all leaves are at depth `height` (by the type index); `n` is the number of
  live entries.
* The only facts used about the constant regenerated from the source are "`maxChildren` is even" and
  "`maxChildren/2 ≥ 2`" (`Lemmas.C10.maxChildren_even`, `half_ge_two`, by `decide`): the theorems are
  re-checked for whatever even value ≥ 4 the source has; for an odd value they fail, rightly — `split`
  would drop the last entry.
* abstraction: `tflat t` — the sorted association list with tombstones; `Abs t s` relates it to the
  specification state (`s.m` = live entries, `s.ever` = a permutation of all keys held).
-/
namespace GoguVerif.Theorems.C10
open GoguVerif GoguVerif.Model.BTree GoguVerif.Spec GoguVerif.Lemmas.C10
open GoguVerif.Spec.C10 (Op Out St Admits RunAdmits HeightOk)

/-! ## 1. Invariant: established by `New`, preserved by `Put` and `Remove`; no panic -/

theorem new_inv : Inv Tree.new := inv_new

theorem put_preserves_inv (t : Tree) (hi : Inv t) (k v : Int) : ∃ t', t.put k v = .ok t' ∧ Inv t' := by
  obtain ⟨t', h1, h2, _⟩ := put_spec t hi k v
  exact ⟨t', h1, h2⟩

theorem remove_preserves_inv (t : Tree) (hi : Inv t) (k : Int) : ∃ t', t.remove k = .ok t' ∧ Inv t' := by
  obtain ⟨t', h1, h2, _⟩ := remove_spec t hi k
  exact ⟨t', h1, h2⟩

/-! ## 2. Refinement of the specification, one step and whole histories -/

/-- abstraction relation between a tree and a specification state -/
structure Abs (t : Tree) (s : St) : Prop where
  m : s.m = live (tflat t)
  ever : s.ever.Perm (keys (tflat t))

theorem new_abs : Abs Tree.new {} := ⟨rfl, List.Perm.refl _⟩

theorem height_ok (t : Tree) (s : St) (hi : Inv t) (ha : Abs t s) : HeightOk s (t.height : Int) := by
  refine ⟨by omega, ?_⟩
  have := height_le t hi
  have hl : s.ever.length = (tflat t).length := by simpa [keys] using ha.ever.length_eq
  simpa [hl] using this

/-- One step: the model does not panic, its answer is one the specification admits, and invariant
and abstraction relation carry over to the successor states. -/
theorem step_refines (t : Tree) (s : St) (hi : Inv t) (ha : Abs t s) (op : Op) :
    ∃ t' o, Model.BTree.step t op = .ok (t', o) ∧ Admits s op o ∧ Inv t' ∧ Abs t' (C10.step s op).1 := by
  cases op with
  | put k v =>
    obtain ⟨t', h1, h2, h3⟩ := put_spec t hi k v
    refine ⟨t', .unit, by simp [Model.BTree.step, h1], rfl, h2, ⟨?_, ?_⟩⟩
    · show OrdMap.insert C10.ltb k v s.m = live (tflat t')
      rw [h3, ha.m, live_insFlat_put k v _ hi.sorted]
    · show (if s.ever.contains k then s.ever else k :: s.ever).Perm (keys (tflat t'))
      rw [h3]
      by_cases hk : k ∈ keys (tflat t)
      · have : k ∈ s.ever := ha.ever.mem_iff.mpr hk
        simp only [List.contains_iff_mem, this, if_true]
        rw [keys_insFlat_old k v false _ hi.sorted hk]
        exact ha.ever
      · have : ¬ k ∈ s.ever := fun h => hk (ha.ever.mem_iff.mp h)
        simp only [List.contains_iff_mem, this, if_false]
        exact (List.Perm.cons k ha.ever).trans (keys_insFlat_new k v false _ hk).symm
  | remove k =>
    obtain ⟨t', h1, h2, _, h4⟩ := remove_spec t hi k
    refine ⟨t', .unit, by simp [Model.BTree.step, h1], rfl, h2, ⟨?_, ?_⟩⟩
    · show OrdMap.erase C10.ltb k s.m = live (tflat t')
      rw [h4, ha.m]
      cases hget : t.get k with
      | none =>
        simp only
        exact erase_of_lookup_none k _ (by rw [← get_eq_lookup t hi]; exact hget)
      | some val =>
        simp only
        rw [live_insFlat_remove k val val _ hi.sorted (by rw [← get_spec t hi]; exact hget)]
    · show s.ever.Perm (keys (tflat t'))
      rw [h4]
      cases hget : t.get k with
      | none => exact ha.ever
      | some val =>
        simp only
        rw [keys_insFlat_old k val true _ hi.sorted
          (mem_keys_of_searchLeaf (by rw [← get_spec t hi]; exact hget))]
        exact ha.ever
  | get k =>
    refine ⟨t, .got (t.get k), rfl, ?_, hi, ha⟩
    show Out.got (t.get k) = Out.got (OrdMap.lookup C10.ltb k s.m)
    rw [get_eq_lookup t hi, ha.m]
  | size =>
    refine ⟨t, .int t.n, rfl, ?_, hi, ha⟩
    show Out.int t.n = Out.int s.m.length
    rw [hi.count, ha.m]
  | isEmpty =>
    refine ⟨t, .bool (decide (t.n = 0)), rfl, ?_, hi, ha⟩
    show Out.bool (decide (t.n = 0)) = Out.bool s.m.isEmpty
    rw [hi.count, ha.m]
    cases live (tflat t) with
    | nil => rfl
    | cons x r => simp; omega
  | traverse =>
    refine ⟨t, .items (traverse t.height t.root), rfl, ?_, hi, ha⟩
    show Out.items (traverse t.height t.root) = Out.items s.m
    rw [traverse_spec, ha.m]
  | height =>
    exact ⟨t, .int t.height, rfl, ⟨(t.height : Int), rfl, height_ok t s hi ha⟩, hi, ha⟩

/-- Whole histories from any related pair of states. -/
theorem run_refines_from (ops : List Op) :
    ∀ (t : Tree) (s : St), Inv t → Abs t s →
      ∃ t' outs, Model.BTree.run t ops = .ok (t', outs) ∧ RunAdmits s ops outs ∧ Inv t' ∧ Abs t' (C10.exec s ops) := by
  induction ops with
  | nil => intro t s hi ha; exact ⟨t, [], rfl, trivial, hi, ha⟩
  | cons op ops ih =>
    intro t s hi ha
    obtain ⟨t1, o, h1, h2, h3, h4⟩ := step_refines t s hi ha op
    obtain ⟨t2, os, g1, g2, g3, g4⟩ := ih t1 _ h3 h4
    exact ⟨t2, o :: os, by simp [Model.BTree.run, h1, g1], ⟨h2, g2⟩, g3, g4⟩

/-- **Main theorem.**  For every history of `Put/Remove/Get/Size/IsEmpty/Traverse/Height` calls on a
new B-tree: the model never panics, and every answer is the one the ordered-map specification gives
(`Height`: a value within `2^height ≤ max 1 N`, N the number of distinct keys ever inserted). -/
theorem btree_refines (ops : List Op) :
    ∃ t outs, Model.BTree.run Tree.new ops = .ok (t, outs) ∧ RunAdmits {} ops outs ∧ Inv t ∧ Abs t (C10.exec {} ops) :=
  run_refines_from ops Tree.new {} new_inv new_abs

/-- No history panics (no out-of-range `children[i]`, no nil `next`). -/
theorem btree_never_panics (ops : List Op) : Model.BTree.run Tree.new ops ≠ .panic := by
  obtain ⟨t, outs, h, _⟩ := btree_refines ops
  rw [h]; intro hc; cases hc

/-! ## 3. The clauses of the property, as statements about the tree itself -/

/-- `Get` after `Put`: the value just put for that key, every other key unaffected. -/
theorem get_put (t : Tree) (hi : Inv t) (k' v k : Int) :
    ∃ t', t.put k' v = .ok t' ∧ t'.get k = if k = k' then some v else t.get k := by
  obtain ⟨t', h1, h2, h3⟩ := put_spec t hi k' v
  refine ⟨t', h1, ?_⟩
  rw [get_spec t' h2, get_spec t hi, h3]
  by_cases hk : k = k'
  · subst hk; simp [searchLeaf_insFlat_put]
  · simp only [hk, if_false]; exact searchLeaf_insFlat_ne k k' v false _ hk

/-- `Get` after `Remove`: the removed key is absent, every other key unaffected. -/
theorem get_remove (t : Tree) (hi : Inv t) (k' k : Int) :
    ∃ t', t.remove k' = .ok t' ∧ t'.get k = if k = k' then none else t.get k := by
  obtain ⟨t', h1, h2, _, h4⟩ := remove_spec t hi k'
  refine ⟨t', h1, ?_⟩
  rw [get_spec t' h2, h4]
  cases hget : t.get k' with
  | none =>
    simp only
    rw [← get_spec t hi]
    by_cases hk : k = k'
    · subst hk; simp [hget]
    · simp [hk]
  | some val =>
    simp only
    have hget' : searchLeaf k' (tflat t) = some val := by rw [← get_spec t hi]; exact hget
    by_cases hk : k = k'
    · subst hk; simp only [if_true]
      exact searchLeaf_insFlat_remove k val val _ hi.sorted hget'
    · simp only [hk, if_false]
      rw [get_spec t hi]
      exact searchLeaf_insFlat_ne k k' val true _ hk

/-- The value a history leaves under key `k`: the last `Put k v` not followed by a `Remove k`. -/
def lastPut (k : Int) : Option Int → List Op → Option Int
  | acc, [] => acc
  | acc, .put k' v :: ops => lastPut k (if k = k' then some v else acc) ops
  | acc, .remove k' :: ops => lastPut k (if k = k' then none else acc) ops
  | acc, _ :: ops => lastPut k acc ops

theorem get_after_history_from (k : Int) (ops : List Op) :
    ∀ t : Tree, Inv t → ∃ t' outs, Model.BTree.run t ops = .ok (t', outs) ∧ Inv t' ∧ t'.get k = lastPut k (t.get k) ops := by
  induction ops with
  | nil => intro t hi; exact ⟨t, [], rfl, hi, rfl⟩
  | cons op ops ih =>
    intro t hi
    cases op with
    | put k' v =>
      obtain ⟨t1, h1, h2⟩ := get_put t hi k' v k
      obtain ⟨t1', h1', hi1⟩ := put_preserves_inv t hi k' v
      rw [h1] at h1'; cases h1'
      obtain ⟨t2, os, g1, g2, g3⟩ := ih t1 hi1
      exact ⟨t2, .unit :: os, by simp [Model.BTree.run, Model.BTree.step, h1, g1], g2, by rw [g3, h2]; rfl⟩
    | remove k' =>
      obtain ⟨t1, h1, h2⟩ := get_remove t hi k' k
      obtain ⟨t1', h1', hi1⟩ := remove_preserves_inv t hi k'
      rw [h1] at h1'; cases h1'
      obtain ⟨t2, os, g1, g2, g3⟩ := ih t1 hi1
      exact ⟨t2, .unit :: os, by simp [Model.BTree.run, Model.BTree.step, h1, g1], g2, by rw [g3, h2]; rfl⟩
    | get k' =>
      obtain ⟨t2, os, g1, g2, g3⟩ := ih t hi
      exact ⟨t2, Out.got (t.get k') :: os, by simp [Model.BTree.run, Model.BTree.step, g1], g2, g3⟩
    | size =>
      obtain ⟨t2, os, g1, g2, g3⟩ := ih t hi
      exact ⟨t2, Out.int t.n :: os, by simp [Model.BTree.run, Model.BTree.step, g1], g2, g3⟩
    | isEmpty =>
      obtain ⟨t2, os, g1, g2, g3⟩ := ih t hi
      exact ⟨t2, Out.bool (decide (t.n = 0)) :: os, by simp [Model.BTree.run, Model.BTree.step, g1], g2, g3⟩
    | traverse =>
      obtain ⟨t2, os, g1, g2, g3⟩ := ih t hi
      exact ⟨t2, Out.items (traverse t.height t.root) :: os, by simp [Model.BTree.run, Model.BTree.step, g1], g2, g3⟩
    | height =>
      obtain ⟨t2, os, g1, g2, g3⟩ := ih t hi
      exact ⟨t2, Out.int t.height :: os, by simp [Model.BTree.run, Model.BTree.step, g1], g2, g3⟩

/-- **Get clause.**  After any history on a new tree, `Get k` returns the last value put for `k` and
not since removed, and reports absence for every other key. -/
theorem get_after_history (k : Int) (ops : List Op) :
    ∃ t outs, Model.BTree.run Tree.new ops = .ok (t, outs) ∧ t.get k = lastPut k none ops := by
  obtain ⟨t, outs, h1, _, h3⟩ := get_after_history_from k ops Tree.new new_inv
  exact ⟨t, outs, h1, h3⟩

/-- **Traverse clause, order.**  `Traverse` visits keys in strictly ascending order (so each once). -/
theorem traverse_ascending (t : Tree) (hi : Inv t) :
    (traverse t.height t.root).Pairwise (fun a b => a.1 < b.1) := by
  rw [traverse_spec]
  have hs : SortedK (tflat t) := hi.sorted
  unfold live
  exact List.Pairwise.map _ (fun a b h => h) (List.Pairwise.filter _ hs)

/-- **Traverse clause, content.**  `Traverse` visits exactly the present keys with their current values. -/
theorem mem_traverse_iff (t : Tree) (hi : Inv t) (k v : Int) :
    (k, v) ∈ traverse t.height t.root ↔ t.get k = some v := by
  rw [traverse_spec, get_spec t hi]
  exact mem_live_iff k v _ hi.sorted

/-- **Size / IsEmpty clause.**  `Size` is the number of keys `Traverse` visits, `IsEmpty` says whether it is 0. -/
theorem size_eq_traverse_length (t : Tree) (hi : Inv t) : t.n = (traverse t.height t.root).length := by
  rw [traverse_spec]; exact hi.count

/-! ### What `N` is: the specification's `ever` is the duplicate-free list of the keys put so far -/

theorem step_ever (s : St) (op : Op) (k : Int) :
    k ∈ (C10.step s op).1.ever ↔ k ∈ s.ever ∨ ∃ v, op = .put k v := by
  cases op with
  | put k' v =>
    show k ∈ (if s.ever.contains k' then s.ever else k' :: s.ever) ↔ _
    by_cases hc : k' ∈ s.ever
    · simp only [List.contains_iff_mem, hc, if_true]
      constructor
      · intro h; left; exact h
      · rintro (h | ⟨v', hv⟩)
        · exact h
        · cases hv; exact hc
    · simp only [List.contains_iff_mem, hc, if_false, List.mem_cons]
      constructor
      · rintro (h | h)
        · right; exact ⟨v, by rw [h]⟩
        · left; exact h
      · rintro (h | ⟨v', hv⟩)
        · right; exact h
        · cases hv; left; rfl
  | remove k' => simp [C10.step]
  | get k' => simp [C10.step]
  | size => simp [C10.step]
  | isEmpty => simp [C10.step]
  | traverse => simp [C10.step]
  | height => simp [C10.step]

theorem step_ever_nodup (s : St) (op : Op) (h : s.ever.Nodup) : (C10.step s op).1.ever.Nodup := by
  cases op with
  | put k' v =>
    show (if s.ever.contains k' then s.ever else k' :: s.ever).Nodup
    by_cases hc : k' ∈ s.ever
    · simpa [List.contains_iff_mem, hc] using h
    · simp only [List.contains_iff_mem, hc, if_false]
      exact List.nodup_cons.mpr ⟨hc, h⟩
  | remove k' => exact h
  | get k' => exact h
  | size => exact h
  | isEmpty => exact h
  | traverse => exact h
  | height => exact h

theorem exec_ever (ops : List Op) : ∀ (s : St) (k : Int),
    k ∈ (C10.exec s ops).ever ↔ k ∈ s.ever ∨ ∃ v, Op.put k v ∈ ops := by
  induction ops with
  | nil => intro s k; simp [C10.exec]
  | cons op ops ih =>
    intro s k
    show k ∈ (C10.exec (C10.step s op).1 ops).ever ↔ _
    rw [ih, step_ever]
    constructor
    · rintro ((h | ⟨v, hv⟩) | ⟨v, hv⟩)
      · left; exact h
      · right; exact ⟨v, by rw [hv]; simp⟩
      · right; exact ⟨v, by simp [hv]⟩
    · rintro (h | ⟨v, hv⟩)
      · left; left; exact h
      · rcases List.mem_cons.mp hv with h | h
        · left; right; exact ⟨v, h.symm⟩
        · right; exact ⟨v, h⟩

theorem exec_ever_nodup (ops : List Op) : ∀ (s : St), s.ever.Nodup → (C10.exec s ops).ever.Nodup := by
  induction ops with
  | nil => intro s h; exact h
  | cons op ops ih => intro s h; exact ih _ (step_ever_nodup s op h)

/-- `N`: after a history on a new tree, `ever` lists exactly the keys that were put, each once. -/
theorem ever_is_distinct_keys_put (ops : List Op) :
    (C10.exec {} ops).ever.Nodup ∧ ∀ k, k ∈ (C10.exec {} ops).ever ↔ ∃ v, Op.put k v ∈ ops := by
  refine ⟨exec_ever_nodup ops {} List.nodup_nil, fun k => ?_⟩
  rw [exec_ever]; simp

/-- **Height clause.**  `2^height ≤ max 1 N` — i.e. `height ≤ log₂ (max 1 N)` — where `N` is the number
of distinct keys ever inserted, after every history, whatever the insertion order.  (`(C10.exec {} ops).ever`
is the specification's duplicate-free list of the keys put so far.) -/
theorem height_bound (ops : List Op) :
    ∃ t outs, Model.BTree.run Tree.new ops = .ok (t, outs) ∧
      2 ^ t.height ≤ max 1 (C10.exec {} ops).ever.length := by
  obtain ⟨t, outs, h1, _, h3, h4⟩ := btree_refines ops
  exact ⟨t, outs, h1, (height_ok t _ h3 h4).2⟩

/-- Sharper form (DESIGN §7): a tree that has grown a level holds at least `2^(height+1)` distinct keys. -/
theorem height_bound_strong (ops : List Op) :
    ∃ t outs, Model.BTree.run Tree.new ops = .ok (t, outs) ∧
      (0 < t.height → 2 ^ (t.height + 1) ≤ (C10.exec {} ops).ever.length) := by
  obtain ⟨t, outs, h1, _, h3, h4⟩ := btree_refines ops
  refine ⟨t, outs, h1, fun hpos => ?_⟩
  have hl : (C10.exec {} ops).ever.length = (tflat t).length := by simpa [keys] using h4.ever.length_eq
  rw [hl]; exact height_strong t h3 hpos

/-! ## 4. Non-vacuity -/

/-- a concrete non-trivial history: 9 ascending puts (two levels of splits for `maxChildren = 4`), a tombstone, an overwrite -/
def sampleOps : List Op :=
  (List.range 9).map (fun i => Op.put (Int.ofNat i) (10 + Int.ofNat i)) ++ [.remove 3, .put 4 0]

/-- what can be observed of the tree a history leaves: size, `Get 3`, `Get 4`, `Traverse`
(the height is left out so that the examples do not depend on the value of `maxChildren`) -/
structure Obs where
  size : Int
  get3 : Option Int
  get4 : Option Int
  items : List (Int × Int)
deriving DecidableEq

def observe (ops : List Op) : Option Obs :=
  match Model.BTree.run Tree.new ops with
  | .ok (t, _) => some ⟨t.n, t.get 3, t.get 4, traverse t.height t.root⟩
  | .panic => none

example : observe sampleOps =
    some ⟨8, none, some 0, [(0, 10), (1, 11), (2, 12), (4, 0), (5, 15), (6, 16), (7, 17), (8, 18)]⟩ := by decide

/-- the hypotheses `Inv t`, `Abs t s` of `step_refines` hold for that tree (and every reachable one) -/
example : ∃ t outs, Model.BTree.run Tree.new sampleOps = .ok (t, outs) ∧ Inv t ∧ Abs t (C10.exec {} sampleOps) := by
  obtain ⟨t, outs, h1, _, h3, h4⟩ := btree_refines sampleOps
  exact ⟨t, outs, h1, h3, h4⟩

/-- the repaired F20 behaviour (corpus/C10/f20-tombstones.trace), evaluated on the model:
re-`Put` does not count twice, `Get` of a removed key reports absence, a second `Remove` does not decrement. -/
example :
    (match Model.BTree.run Tree.new
        [.put 2 10, .put 2 11, .size, .remove 2, .get 2, .size, .remove 2, .size, .isEmpty, .traverse,
         .put 2 12, .size, .get 2] with
      | .ok (_, outs) => some outs
      | .panic => none)
    = some [.unit, .unit, .int 1, .unit, .got none, .int 0, .unit, .int 0, .bool true, .items [],
            .unit, .int 1, .got (some 12)] := by decide

/-- the hypothesis `0 < t.height` of `height_bound_strong` is met: 33 ascending puts grow at least one
level (for every `maxChildren ≤ 32`), and for the current constant the height is within the bound. -/
example :
    (match Model.BTree.run Tree.new ((List.range 33).map (fun i => Op.put (Int.ofNat i) 0)) with
      | .ok (t, _) => decide (0 < t.height ∧ 2 ^ (t.height + 1) ≤ 33)
      | .panic => false) = true := by decide

/-- The proofs use two facts about the regenerated constant only (`Lemmas.C10.maxChildren_even`,
`Lemmas.C10.half_ge_two`); they hold for the current source: -/
example : GoguVerif.Gen.maxChildren = 2 * (GoguVerif.Gen.maxChildren / 2) ∧ 2 ≤ GoguVerif.Gen.maxChildren / 2 :=
  ⟨maxChildren_even, half_ge_two⟩

example : lastPut 3 none sampleOps = none ∧ lastPut 4 none sampleOps = some 0 ∧ lastPut 8 none sampleOps = some 18 := by decide

/-! ## bulk operations of long runs: the closed forms are the single steps

`fillasc a n` / `removeasc a n` stand for `n` `Put`s / `Remove`s of ascending keys; the monitor applies
`Spec.C10.fillAsc` / `dropAsc` in one go when `fillPre` / `dropPre` hold. -/
section Bulk
open GoguVerif.Spec.C10 (ltb exec fillOps dropOps fillPre dropPre fillAsc dropAsc ascKeys)


theorem insert_above (k v : Int) : ∀ (m : List (Int × Int)), (∀ e ∈ m, e.1 < k) →
    OrdMap.insert ltb k v m = m ++ [(k, v)]
  | [], _ => rfl
  | (k', v') :: r, h => by
    have hk : k' < k := h (k', v') (by simp)
    have h1 : ltb k k' = false := by simp [ltb]; omega
    have h2 : ltb k' k = true := by simp [ltb]; omega
    simp only [OrdMap.insert, h1, h2, if_true, List.cons_append, Bool.false_eq_true, if_false]
    rw [insert_above k v r (fun e he => h e (by simp [he]))]

theorem fillAsc_exec : ∀ (n : Nat) (s : St) (a : Int), fillPre s a = true →
    exec s (fillOps a n) = fillAsc s a n
  | 0, s, a, _ => by simp [fillOps, ascKeys, exec, fillAsc]
  | n + 1, s, a, h => by
    simp only [fillPre, Bool.and_eq_true, List.all_eq_true, decide_eq_true_eq] at h
    have hnot : s.ever.contains a = false := by
      cases hc : s.ever.contains a with
      | false => rfl
      | true => have := h.1 a (by simpa using hc); omega
    have hstep : (C10.step s (.put a a)).1 = { m := s.m ++ [(a, a)], ever := a :: s.ever } := by
      simp only [C10.step, hnot, Bool.false_eq_true, if_false]
      rw [insert_above a a s.m (fun e he => h.2 e he)]
    have hpre : fillPre { m := s.m ++ [(a, a)], ever := a :: s.ever } (a + 1) = true := by
      simp only [fillPre, Bool.and_eq_true, List.all_eq_true, decide_eq_true_eq, List.mem_cons, List.mem_append]
      refine ⟨fun k hk => ?_, fun e he => ?_⟩
      · rcases hk with rfl | hk
        · omega
        · have := h.1 k hk; omega
      · rcases he with he | he
        · have := h.2 e he; omega
        · rcases he with rfl | he
          · show a < a + 1; omega
          · simp at he
    simp only [fillOps, ascKeys, List.map_cons, exec]
    rw [hstep]
    have ih := fillAsc_exec n _ (a + 1) hpre
    simp only [fillOps] at ih
    rw [ih]
    simp [fillAsc, ascKeys, List.append_assoc]

theorem erase_head (k v : Int) (r : List (Int × Int)) : OrdMap.erase ltb k ((k, v) :: r) = r := by
  simp [OrdMap.erase, ltb]

theorem dropAsc_exec : ∀ (n : Nat) (s : St) (a : Int), dropPre s a n = true →
    exec s (dropOps a n) = dropAsc s n
  | 0, s, a, _ => by simp [dropOps, ascKeys, exec, dropAsc]
  | n + 1, s, a, h => by
    simp only [dropPre, beq_iff_eq] at h
    cases hm : s.m with
    | nil => simp [hm, ascKeys] at h
    | cons e r =>
      simp only [hm, List.take_succ_cons, List.map_cons, ascKeys, List.cons.injEq] at h
      obtain ⟨he, hr⟩ := h
      have hstep : (C10.step s (.remove a)).1 = { s with m := r } := by
        obtain ⟨k, v⟩ := e
        simp only at he; subst he
        simp only [C10.step, hm, erase_head]
      simp only [dropOps, ascKeys, List.map_cons, exec]
      rw [hstep]
      have ih := dropAsc_exec n { s with m := r } (a + 1) (by simp [dropPre, hr])
      simp only [dropOps] at ih
      rw [ih]
      simp [dropAsc, hm]

end Bulk

end GoguVerif.Theorems.C10
