import GoguVerif.Gen.Funcs2
import GoguVerif.Model.C13
/-!
# The regenerated tie for `range.go` (`Abs`, `Range`, `RangeRight`) — part B of `GenTieMore2`

`Gen/Funcs2.lean` is produced by the translator from the Go source.  The Go `switch len(args)` of `Range` is
translated into an if-chain with the two loops duplicated per case (`Range_loop1 … Range_loop8`).  The
theorems below state that the regenerated definitions compute the outcome of the hand-written model of
`Model/C13.lean` (`rangeUp`, `rangeDown`, `Range`, `RangeRight`).
-/
namespace GoguVerif.Theorems.GenTieMore2
open GoguVerif GoguVerif.Gen.Funcs2

/-- the model's outcome of `Range` as an outcome of the regenerated code: the Go `error` is the `Bool` -/
def rangeOut : Spec.C13.Out (List Int) → Out (Array Int × Bool)
  | .ok l => .ok (l.toArray, false)
  | .err => .ok (#[], true)
  | .panic => .panic
  | .hang => .hang

/-- the model's outcome of one loop (`rangeUp` / `rangeDown`) as an outcome of the regenerated loop,
projected on the slice -/
def loopOut : Spec.C13.Out (List Int) → Out (Array Int)
  | .ok l => .ok l.toArray
  | .err => .panic
  | .panic => .panic
  | .hang => .hang

namespace B

@[simp] theorem bindB_ok {β γ : Type} (b : β) (f : β → Out γ) : Out.bind (Out.ok b) f = f b := rfl
@[simp] theorem bindB_panic {β γ : Type} (f : β → Out γ) : Out.bind (Out.panic : Out β) f = Out.panic := rfl
@[simp] theorem bindB_hang {β γ : Type} (f : β → Out γ) : Out.bind (Out.hang : Out β) f = Out.hang := rfl

@[simp] theorem rangeOut_ok (l : List Int) : rangeOut (.ok l) = .ok (l.toArray, false) := rfl
@[simp] theorem rangeOut_err : rangeOut .err = .ok (#[], true) := rfl
@[simp] theorem rangeOut_panic : rangeOut .panic = .panic := rfl
@[simp] theorem rangeOut_hang : rangeOut .hang = .hang := rfl
@[simp] theorem loopOut_ok (l : List Int) : loopOut (.ok l) = .ok l.toArray := rfl
@[simp] theorem loopOut_hang : loopOut .hang = .hang := rfl

end B
open B

/-! ## `Abs` -/

theorem abs_tie (x : Int) : Abs x = Model.C13.Abs x := rfl

/-! ## the eight loops, for ALL fuel -/

/-- the tactic script shared by the eight loop ties -/
local macro "loop_tie_tac" gen:ident mdl:ident : tactic =>
  `(tactic| (
    intro fuel
    induction fuel with
    | zero => intro result i; rfl
    | succ n ih =>
      intro result i
      unfold $gen $mdl
      split
      · rw [ih]; simp only [Array.toList_push, abs_tie]
      · rfl))

theorem range_loop1_tie (args : Array Int) (start step e : Int) :
    ∀ (fuel : Nat) (result : Array Int) (i : Int),
      Out.bind (Range_loop1 args start step e fuel result i) (fun r => Out.ok r.1)
        = loopOut (Model.C13.rangeUp fuel i step e result.toList) := by
  loop_tie_tac Range_loop1 Model.C13.rangeUp

theorem range_loop2_tie (args : Array Int) (start step e : Int) :
    ∀ (fuel : Nat) (result : Array Int) (i : Int),
      Out.bind (Range_loop2 args start step e fuel result i) (fun r => Out.ok r.1)
        = loopOut (Model.C13.rangeDown fuel i step e result.toList) := by
  loop_tie_tac Range_loop2 Model.C13.rangeDown

theorem range_loop3_tie (args : Array Int) (start step e : Int) :
    ∀ (fuel : Nat) (result : Array Int) (i : Int),
      Out.bind (Range_loop3 args start step e fuel result i) (fun r => Out.ok r.1)
        = loopOut (Model.C13.rangeUp fuel i step e result.toList) := by
  loop_tie_tac Range_loop3 Model.C13.rangeUp

theorem range_loop4_tie (args : Array Int) (start step e : Int) :
    ∀ (fuel : Nat) (result : Array Int) (i : Int),
      Out.bind (Range_loop4 args start step e fuel result i) (fun r => Out.ok r.1)
        = loopOut (Model.C13.rangeDown fuel i step e result.toList) := by
  loop_tie_tac Range_loop4 Model.C13.rangeDown

theorem range_loop5_tie (args : Array Int) (start step e : Int) :
    ∀ (fuel : Nat) (result : Array Int) (i : Int),
      Out.bind (Range_loop5 args start step e fuel result i) (fun r => Out.ok r.1)
        = loopOut (Model.C13.rangeUp fuel i step e result.toList) := by
  loop_tie_tac Range_loop5 Model.C13.rangeUp

theorem range_loop6_tie (args : Array Int) (start step e : Int) :
    ∀ (fuel : Nat) (result : Array Int) (i : Int),
      Out.bind (Range_loop6 args start step e fuel result i) (fun r => Out.ok r.1)
        = loopOut (Model.C13.rangeDown fuel i step e result.toList) := by
  loop_tie_tac Range_loop6 Model.C13.rangeDown

theorem range_loop7_tie (args : Array Int) (start step e : Int) :
    ∀ (fuel : Nat) (result : Array Int) (i : Int),
      Out.bind (Range_loop7 args start step e fuel result i) (fun r => Out.ok r.1)
        = loopOut (Model.C13.rangeUp fuel i step e result.toList) := by
  loop_tie_tac Range_loop7 Model.C13.rangeUp

theorem range_loop8_tie (args : Array Int) (start step e : Int) :
    ∀ (fuel : Nat) (result : Array Int) (i : Int),
      Out.bind (Range_loop8 args start step e fuel result i) (fun r => Out.ok r.1)
        = loopOut (Model.C13.rangeDown fuel i step e result.toList) := by
  loop_tie_tac Range_loop8 Model.C13.rangeDown

/-! ## `Range` -/

/-- the model's two loops run on a given amount of fuel (the model's `rangeLoops` picks
`rangeFuel start end_`) -/
def rangeLoopsF (fuel : Nat) (start step end_ : Int) : Spec.C13.Out (List Int) :=
  if end_ > 0 then Model.C13.rangeUp fuel start step end_ []
  else Model.C13.rangeDown fuel start step end_ []

/-- the model's `Range` with `rangeLoops` replaced by the same loops run on the given `fuel` -/
def RangeF (fuel : Nat) (args : List Int) : Spec.C13.Out (List Int) :=
  if args.length > 3 then .err
  else match args with
    | [] => rangeLoopsF fuel 0 0 0
    | [e] => rangeLoopsF fuel 0 1 e
    | [s, e] => rangeLoopsF fuel s 1 e
    | [s, st, e] =>
      if s > e ∧ e > 0 then .err
      else if st = 0 then .err
      else if st < 0 ∧ e > s then .err
      else rangeLoopsF fuel s st e
    | _ => .err

theorem rangeLoopsF_rangeFuel (start step e : Int) :
    rangeLoopsF (Model.C13.rangeFuel start e) start step e = Model.C13.rangeLoops start step e := rfl

theorem bind_loopOut (x : Spec.C13.Out (List Int)) (h : x ≠ .err) (h' : x ≠ .panic) :
    Out.bind (loopOut x) (fun result => Out.ok (result, false)) = rangeOut x := by
  cases x <;> first | rfl | contradiction

theorem rangeUp_ne_err (step e : Int) : ∀ (fuel : Nat) (i : Int) (acc : List Int),
    Model.C13.rangeUp fuel i step e acc ≠ .err ∧ Model.C13.rangeUp fuel i step e acc ≠ .panic := by
  intro fuel
  induction fuel with
  | zero => intro i acc; unfold Model.C13.rangeUp; simp
  | succ n ih =>
    intro i acc
    unfold Model.C13.rangeUp
    split
    · exact ih _ _
    · simp

theorem rangeDown_ne_err (step e : Int) : ∀ (fuel : Nat) (i : Int) (acc : List Int),
    Model.C13.rangeDown fuel i step e acc ≠ .err ∧ Model.C13.rangeDown fuel i step e acc ≠ .panic := by
  intro fuel
  induction fuel with
  | zero => intro i acc; unfold Model.C13.rangeDown; simp
  | succ n ih =>
    intro i acc
    unfold Model.C13.rangeDown
    split
    · exact ih _ _
    · simp

/-- the loop pair of one `switch` case, as the model's `rangeLoopsF` (generic in the two loops) -/
theorem loops_tie_gen (up down : Nat → Array Int → Int → Out (Array Int × Int)) (s st e : Int)
    (hup : ∀ (fuel : Nat) (result : Array Int) (i : Int),
      Out.bind (up fuel result i) (fun r => Out.ok r.1) = loopOut (Model.C13.rangeUp fuel i st e result.toList))
    (hdown : ∀ (fuel : Nat) (result : Array Int) (i : Int),
      Out.bind (down fuel result i) (fun r => Out.ok r.1) = loopOut (Model.C13.rangeDown fuel i st e result.toList))
    (fuel : Nat) :
    Out.bind (if e > 0 then Out.bind (up fuel #[] s) (fun r => Out.ok r.1)
      else Out.bind (down fuel #[] s) (fun r => Out.ok r.1))
      (fun result => Out.ok (result, false)) = rangeOut (rangeLoopsF fuel s st e) := by
  unfold rangeLoopsF
  split
  · rw [hup]
    exact bind_loopOut _ (rangeUp_ne_err _ _ _ _ _).1 (rangeUp_ne_err _ _ _ _ _).2
  · rw [hdown]
    exact bind_loopOut _ (rangeDown_ne_err _ _ _ _ _).1 (rangeDown_ne_err _ _ _ _ _).2

theorem range_loops12_tie (args : Array Int) (start s st e : Int) (fuel : Nat) :
    Out.bind (if e > 0 then Out.bind (Range_loop1 args start st e fuel #[] s) (fun r => Out.ok r.1)
      else Out.bind (Range_loop2 args start st e fuel #[] s) (fun r => Out.ok r.1))
      (fun result => Out.ok (result, false)) = rangeOut (rangeLoopsF fuel s st e) :=
  loops_tie_gen _ _ s st e (range_loop1_tie args start st e) (range_loop2_tie args start st e) fuel

theorem range_loops34_tie (args : Array Int) (start s st e : Int) (fuel : Nat) :
    Out.bind (if e > 0 then Out.bind (Range_loop3 args start st e fuel #[] s) (fun r => Out.ok r.1)
      else Out.bind (Range_loop4 args start st e fuel #[] s) (fun r => Out.ok r.1))
      (fun result => Out.ok (result, false)) = rangeOut (rangeLoopsF fuel s st e) :=
  loops_tie_gen _ _ s st e (range_loop3_tie args start st e) (range_loop4_tie args start st e) fuel

theorem range_loops56_tie (args : Array Int) (start s st e : Int) (fuel : Nat) :
    Out.bind (if e > 0 then Out.bind (Range_loop5 args start st e fuel #[] s) (fun r => Out.ok r.1)
      else Out.bind (Range_loop6 args start st e fuel #[] s) (fun r => Out.ok r.1))
      (fun result => Out.ok (result, false)) = rangeOut (rangeLoopsF fuel s st e) :=
  loops_tie_gen _ _ s st e (range_loop5_tie args start st e) (range_loop6_tie args start st e) fuel

theorem range_loops78_tie (args : Array Int) (start s st e : Int) (fuel : Nat) :
    Out.bind (if e > 0 then Out.bind (Range_loop7 args start st e fuel #[] s) (fun r => Out.ok r.1)
      else Out.bind (Range_loop8 args start st e fuel #[] s) (fun r => Out.ok r.1))
      (fun result => Out.ok (result, false)) = rangeOut (rangeLoopsF fuel s st e) :=
  loops_tie_gen _ _ s st e (range_loop7_tie args start st e) (range_loop8_tie args start st e) fuel

/-- **`Range`, for ALL argument lists and ALL fuel**: the regenerated `Range` run on `fuel` is the model's
`Range` whose loops run on that same `fuel`. -/
theorem range_tie (fuel : Nat) (args : List Int) :
    Range fuel args.toArray = rangeOut (RangeF fuel args) := by
  match args with
  | [] =>
    have h := range_loops78_tie #[] 0 0 0 0 fuel
    simp only [Range, RangeF] at h ⊢
    simpa using h
  | [e] =>
    have h := range_loops12_tie #[e] 0 0 1 e fuel
    simp [Range, RangeF, hIdx] at h ⊢
    exact h
  | [s, e] =>
    have h := range_loops34_tie #[s, e] s s 1 e fuel
    simp [Range, RangeF, hIdx] at h ⊢
    exact h
  | [s, st, e] =>
    have h := range_loops56_tie #[s, st, e] s s st e fuel
    simp [Range, RangeF, hIdx] at h ⊢
    split
    · rfl
    · split
      · rfl
      · split
        · rfl
        · exact h
  | a :: b :: c :: d :: rest =>
    have hsz : ((a :: b :: c :: d :: rest).toArray.size : Int) > 3 := by
      simp only [List.size_toArray, List.length_cons]; omega
    have hlen : (a :: b :: c :: d :: rest).length > 3 := by
      simp only [List.length_cons]; omega
    simp only [Range, RangeF, hsz, hlen, if_true]
    rfl

/-! ### for the fuel the model uses -/

theorem rangeF_0 : RangeF (Model.C13.rangeFuel 0 0) [] = Model.C13.Range [] := rfl

theorem rangeF_1 (e : Int) : RangeF (Model.C13.rangeFuel 0 e) [e] = Model.C13.Range [e] := rfl

theorem rangeF_2 (s e : Int) : RangeF (Model.C13.rangeFuel s e) [s, e] = Model.C13.Range [s, e] := rfl

theorem rangeF_3 (s st e : Int) :
    RangeF (Model.C13.rangeFuel s e) [s, st, e] = Model.C13.Range [s, st, e] := rfl

theorem rangeF_many (args : List Int) (h : args.length > 3) (fuel : Nat) :
    RangeF fuel args = Model.C13.Range args := by
  simp only [RangeF, Model.C13.Range, h, if_true]

theorem range_tie_0 : Range (Model.C13.rangeFuel 0 0) #[] = rangeOut (Model.C13.Range []) := by
  rw [← rangeF_0]; exact range_tie _ []

theorem range_tie_1 (e : Int) :
    Range (Model.C13.rangeFuel 0 e) #[e] = rangeOut (Model.C13.Range [e]) := by
  rw [← rangeF_1]; exact range_tie _ [e]

theorem range_tie_2 (s e : Int) :
    Range (Model.C13.rangeFuel s e) #[s, e] = rangeOut (Model.C13.Range [s, e]) := by
  rw [← rangeF_2]; exact range_tie _ [s, e]

theorem range_tie_3 (s st e : Int) :
    Range (Model.C13.rangeFuel s e) #[s, st, e] = rangeOut (Model.C13.Range [s, st, e]) := by
  rw [← rangeF_3]; exact range_tie _ [s, st, e]

/-- more than three arguments: the error, whatever the fuel -/
theorem range_tie_many (args : List Int) (h : args.length > 3) (fuel : Nat) :
    Range fuel args.toArray = rangeOut (Model.C13.Range args) := by
  rw [← rangeF_many args h fuel]; exact range_tie fuel args

example : Range 0 #[1, 2, 3, 4] = rangeOut (Model.C13.Range [1, 2, 3, 4]) :=
  range_tie_many [1, 2, 3, 4] (by decide) 0

/-! ### fuel independence: a result other than `hang` is stable under more fuel -/

theorem rangeUp_mono (step e : Int) : ∀ (fuel : Nat) (i : Int) (acc : List Int),
    Model.C13.rangeUp fuel i step e acc ≠ .hang →
    ∀ fuel', fuel ≤ fuel' → Model.C13.rangeUp fuel' i step e acc = Model.C13.rangeUp fuel i step e acc := by
  intro fuel
  induction fuel with
  | zero => intro i acc h; exact absurd rfl h
  | succ n ih =>
    intro i acc h fuel' hle
    match fuel', hle with
    | m + 1, hle =>
      unfold Model.C13.rangeUp at h ⊢
      split
      · rename_i hlt
        simp only [hlt, if_true] at h
        exact ih _ _ h m (by omega)
      · rfl

theorem rangeDown_mono (step e : Int) : ∀ (fuel : Nat) (i : Int) (acc : List Int),
    Model.C13.rangeDown fuel i step e acc ≠ .hang →
    ∀ fuel', fuel ≤ fuel' → Model.C13.rangeDown fuel' i step e acc = Model.C13.rangeDown fuel i step e acc := by
  intro fuel
  induction fuel with
  | zero => intro i acc h; exact absurd rfl h
  | succ n ih =>
    intro i acc h fuel' hle
    match fuel', hle with
    | m + 1, hle =>
      unfold Model.C13.rangeDown at h ⊢
      split
      · rename_i hlt
        simp only [hlt, if_true] at h
        exact ih _ _ h m (by omega)
      · rfl

theorem rangeLoopsF_mono (start step e : Int) (fuel fuel' : Nat)
    (h : rangeLoopsF fuel start step e ≠ .hang) (hle : fuel ≤ fuel') :
    rangeLoopsF fuel' start step e = rangeLoopsF fuel start step e := by
  unfold rangeLoopsF at h ⊢
  split
  · rename_i hlt
    simp only [hlt, if_true] at h
    exact rangeUp_mono _ _ _ _ _ h _ hle
  · rename_i hlt
    simp only [hlt, if_false] at h
    exact rangeDown_mono _ _ _ _ _ h _ hle

theorem rangeF_mono (args : List Int) (fuel fuel' : Nat)
    (h : RangeF fuel args ≠ .hang) (hle : fuel ≤ fuel') :
    RangeF fuel' args = RangeF fuel args := by
  unfold RangeF at h ⊢
  split
  · rfl
  · rename_i hlen
    simp only [hlen, if_false] at h
    split
    · exact rangeLoopsF_mono _ _ _ _ _ h hle
    · exact rangeLoopsF_mono _ _ _ _ _ h hle
    · exact rangeLoopsF_mono _ _ _ _ _ h hle
    · rename_i s st e
      by_cases h1 : s > e ∧ e > 0
      · simp only [h1, and_self, if_true]
      · simp only [h1, if_false] at h ⊢
        by_cases h2 : st = 0
        · simp only [h2, if_true]
        · simp only [h2, if_false] at h ⊢
          by_cases h3 : st < 0 ∧ e > s
          · simp only [h3, and_self, if_true]
          · simp only [h3, if_false] at h ⊢
            exact rangeLoopsF_mono _ _ _ _ _ h hle
    · rfl

/-- the fuel the model's `Range` gives its loops, by argument shape (irrelevant for more than three
arguments, where no loop runs) -/
def modelFuel : List Int → Nat
  | [] => Model.C13.rangeFuel 0 0
  | [e] => Model.C13.rangeFuel 0 e
  | [s, e] => Model.C13.rangeFuel s e
  | [s, _, e] => Model.C13.rangeFuel s e
  | _ => 0

theorem rangeF_modelFuel (args : List Int) : RangeF (modelFuel args) args = Model.C13.Range args := by
  match args with
  | [] => rfl
  | [e] => rfl
  | [s, e] => rfl
  | [s, st, e] => rfl
  | a :: b :: c :: d :: rest => exact rangeF_many _ (by simp only [List.length_cons]; omega) _

/-- `Range` on exactly the fuel the model uses, for ALL argument lists -/
theorem range_tie_model (args : List Int) :
    Range (modelFuel args) args.toArray = rangeOut (Model.C13.Range args) := by
  rw [← rangeF_modelFuel]; exact range_tie _ args

/-- **fuel independence**: whenever the model's `Range` does not answer `hang`, the regenerated `Range` run
on ANY fuel at least the model's computes the model's outcome. -/
theorem range_tie_enough (args : List Int) (fuel : Nat) (hle : modelFuel args ≤ fuel)
    (h : Model.C13.Range args ≠ .hang) :
    Range fuel args.toArray = rangeOut (Model.C13.Range args) := by
  rw [range_tie, ← rangeF_modelFuel]
  rw [← rangeF_modelFuel] at h
  rw [rangeF_mono args _ _ h hle]

example : Range 100 #[2, 1, 5] = rangeOut (Model.C13.Range [2, 1, 5]) :=
  range_tie_enough [2, 1, 5] 100 (by decide) (by decide)

/-! ## `RangeRight` -/

/-- every element appended costs one unit of fuel, and so does the final test -/
theorem rangeUp_length (step e : Int) : ∀ (fuel : Nat) (i : Int) (acc l : List Int),
    Model.C13.rangeUp fuel i step e acc = .ok l → l.length + 1 ≤ acc.length + fuel := by
  intro fuel
  induction fuel with
  | zero => intro i acc l h; simp [Model.C13.rangeUp] at h
  | succ n ih =>
    intro i acc l h
    unfold Model.C13.rangeUp at h
    split at h
    · have := ih _ _ _ h
      simp only [List.length_append, List.length_cons, List.length_nil] at this
      omega
    · cases h; omega

theorem rangeDown_length (step e : Int) : ∀ (fuel : Nat) (i : Int) (acc l : List Int),
    Model.C13.rangeDown fuel i step e acc = .ok l → l.length + 1 ≤ acc.length + fuel := by
  intro fuel
  induction fuel with
  | zero => intro i acc l h; simp [Model.C13.rangeDown] at h
  | succ n ih =>
    intro i acc l h
    unfold Model.C13.rangeDown at h
    split at h
    · have := ih _ _ _ h
      simp only [List.length_append, List.length_cons, List.length_nil] at this
      omega
    · cases h; omega

theorem rangeLoopsF_length (start step e : Int) (fuel : Nat) (l : List Int)
    (h : rangeLoopsF fuel start step e = .ok l) : l.length + 1 ≤ fuel := by
  unfold rangeLoopsF at h
  split at h
  · simpa using rangeUp_length _ _ _ _ _ _ h
  · simpa using rangeDown_length _ _ _ _ _ _ h

/-- the progression `RangeF fuel` produces is shorter than `fuel` -/
theorem rangeF_length (args : List Int) (fuel : Nat) (l : List Int)
    (h : RangeF fuel args = .ok l) : l.length + 1 ≤ fuel := by
  unfold RangeF at h
  split at h
  · cases h
  · split at h
    · exact rangeLoopsF_length _ _ _ _ _ h
    · exact rangeLoopsF_length _ _ _ _ _ h
    · exact rangeLoopsF_length _ _ _ _ _ h
    · split at h
      · cases h
      · split at h
        · cases h
        · split at h
          · cases h
          · exact rangeLoopsF_length _ _ _ _ _ h
    · cases h

/-- the model's `RangeRight` over `RangeF fuel` -/
def RangeRightF (fuel : Nat) (params : List Int) : Spec.C13.Out (List Int) :=
  match RangeF fuel params with
  | .ok ran => .ok ran.reverse
  | o => o

theorem rangeRightF_modelFuel (params : List Int) :
    RangeRightF (modelFuel params) params = Model.C13.RangeRight params := by
  unfold RangeRightF Model.C13.RangeRight
  rw [rangeF_modelFuel]
  cases Model.C13.Range params <;> rfl

/-- the fact about the regenerated `Reverse` that the sibling proof file provides (`reverse_eq_reverse`
at `Int`) -/
def ReverseFact : Prop :=
  ∀ (sl : Array Int) (fuel : Nat), sl.size + 1 ≤ fuel → Reverse fuel sl = Out.ok (sl.reverse, sl.reverse)

/-- **`RangeRight`, for ALL argument lists and ALL fuel**, given the fact about `Reverse`: the regenerated
`RangeRight` run on `fuel` is the model's `RangeRight` whose `Range` loops run on that same `fuel`.  No
extra hypothesis on the fuel is needed for `Reverse`: a progression produced on `fuel` has fewer than
`fuel` elements (`rangeF_length`). -/
theorem rangeRight_tie_of
    (hrev : ∀ (sl : Array Int) (fuel : Nat), sl.size + 1 ≤ fuel →
      Reverse fuel sl = Out.ok (sl.reverse, sl.reverse))
    (fuel : Nat) (params : List Int) :
    RangeRight fuel params.toArray = rangeOut (RangeRightF fuel params) := by
  unfold RangeRight RangeRightF
  rw [range_tie]
  have hl := rangeF_length params fuel
  cases hr : RangeF fuel params with
  | ok l =>
    have := hl l hr
    simp [hrev l.toArray fuel (by simpa using this)]
  | err => simp
  | panic => rfl
  | hang => rfl

example (hrev : ReverseFact) :
    RangeRight 10 #[1, 4] = rangeOut (RangeRightF 10 [1, 4]) := rangeRight_tie_of hrev 10 [1, 4]

/-- `RangeRight` on exactly the fuel the model uses, for ALL argument lists -/
theorem rangeRight_tie_model_of
    (hrev : ∀ (sl : Array Int) (fuel : Nat), sl.size + 1 ≤ fuel →
      Reverse fuel sl = Out.ok (sl.reverse, sl.reverse))
    (params : List Int) :
    RangeRight (modelFuel params) params.toArray = rangeOut (Model.C13.RangeRight params) := by
  rw [← rangeRightF_modelFuel]; exact rangeRight_tie_of hrev _ params

/-- fuel independence for `RangeRight`: any fuel at least the model's, when the model does not `hang` -/
theorem rangeRight_tie_enough_of
    (hrev : ∀ (sl : Array Int) (fuel : Nat), sl.size + 1 ≤ fuel →
      Reverse fuel sl = Out.ok (sl.reverse, sl.reverse))
    (params : List Int) (fuel : Nat) (hle : modelFuel params ≤ fuel)
    (h : Model.C13.Range params ≠ .hang) :
    RangeRight fuel params.toArray = rangeOut (Model.C13.RangeRight params) := by
  rw [rangeRight_tie_of hrev, ← rangeRightF_modelFuel]
  unfold RangeRightF
  rw [← rangeF_modelFuel] at h
  rw [rangeF_mono params _ _ h hle]

example (hrev : ReverseFact) :
    RangeRight 100 #[2, 1, 5] = rangeOut (Model.C13.RangeRight [2, 1, 5]) :=
  rangeRight_tie_enough_of hrev [2, 1, 5] 100 (by decide) (by decide)

/-! ## sanity: both sides compute -/

example : Range 10 #[1, 4] = .ok (#[1, 2, 3], false) := by rfl
example : rangeOut (Model.C13.Range [1, 4]) = .ok (#[1, 2, 3], false) := by rfl
example : Range 10 #[5, 0, 9] = .ok (#[], true) := by rfl
example : Range 3 #[1, 4] = .hang := by rfl

end GoguVerif.Theorems.GenTieMore2
