import GoguVerif.Theorems.C20
import GoguVerif.Lemmas.C20T3
import GoguVerif.Kinds.C20
/-!
# C20 — the throttle monitor accepts the throttle model

`TMon` (the decidable monitor that judges the implementation's trace in the driver) is run alongside
the model exactly as the driver runs it on the generated cases: every operation is one line, followed
by a `done` observation line; `Next` callers get the ids 0, 1, 2, … in the order they start.  For
every configuration, every choice function (which blocked caller wins a wake-up — any number of
callers may be blocked at the same time) and every sequence of operations the monitor reports no
violated clause.
-/
namespace GoguVerif.Theorems.C20
open GoguVerif.Spec.C20 GoguVerif.Model.C20 GoguVerif.Lemmas.C20T GoguVerif.Lemmas.C20T2
  GoguVerif.Lemmas.C20T3 GoguVerif.Lemmas.C20 GoguVerif.Lemmas.C20L

/-! ## the run -/

/-- operations of a throttle case (the harness numbers the `Next` callers itself) -/
inductive TAct where
  | call
  | cancel
  | next
  | advance (dt : Nat)
deriving Repr, DecidableEq

def TAct.ev (c : Nat) : TAct → TEv
  | .call => .call
  | .cancel => .cancel
  | .next => .next c
  | .advance dt => .advance dt

/-- what the model shows on a `next` line (as `Kinds/C20.lean` renders it): blocked, true or false -/
def nextRes (s' : TState) (id : Nat) : Option Bool :=
  if s'.blocked.contains id then none
  else if s'.grants.any (fun g => g.id == id) then some true else some false

structure TRun where
  m : TMon
  s : TState
  /-- id of the next `Next` caller -/
  c : Nat := 0

/-- the monitor's reaction to the operation line -/
def tmonEvent (m : TMon) (s' : TState) (c : Nat) : TAct → Option String × TMon
  | .call => (none, m.onCall)
  | .cancel => (none, m.onCancel)
  | .advance dt => (none, m.onSleep dt)
  | .next => m.onNext c (nextRes s' c)

/-- one operation line followed by a `done` line -/
def tmonStep (cfg : TCfg) (ch : Choice) (r : TRun) (a : TAct) : Option String × TRun :=
  let s' := tstep cfg ch r.s (a.ev r.c)
  let r1 := tmonEvent r.m s' r.c a
  let r2 := r1.2.onDone s'.doneLog
  (firstSome r1.1 r2.1, { m := r2.2, s := s', c := if a = .next then r.c + 1 else r.c })

def tmonRun (cfg : TCfg) (ch : Choice) : List TAct → TRun → Option String
  | [], _ => none
  | a :: rest, r =>
    match tmonStep cfg ch r a with
    | (some c, _) => some c
    | (none, r') => tmonRun cfg ch rest r'

/-! ## monitor lemmas -/

theorem go_skip_prefix : ∀ (old : List (Nat × Int × Bool)) (m : TMon) (err : Option String)
    (new : List (Nat × Int × Bool)), (∀ x ∈ old, x.1 ∈ m.completed) →
    TMon.onDone.go m err (old ++ new) = TMon.onDone.go m err new := by
  intro old
  induction old with
  | nil => intro m err new _; rfl
  | cons x r ih =>
    intro m err new h
    obtain ⟨id, t, res⟩ := x
    have hc : m.completed.contains id = true := List.contains_iff_mem.mpr (h (id, t, res) (by simp))
    rw [List.cons_append, TMon.onDone.go, if_pos hc]
    exact ih m err new (fun y hy => h y (by simp [hy]))

theorem go_nil (m : TMon) (err : Option String) : TMon.onDone.go m err [] = (err, m) := by
  rw [TMon.onDone.go]

/-- a permission that respects the spacing and has a justifying trigger is accepted -/
theorem onPerm_accepts (m : TMon) (t : Int) (lo : Nat) (hc : m.cancel = none)
    (hgap : ∀ P, m.lastPerm = some P → gapOK m.dur m.trailing P.t t = true)
    (hj : ∃ c ∈ m.calls, justifiedBy m.dur m.trailing (m.lastPerm.map fun p => (p.t, p.lo)) t m.line c = true) :
    m.onPerm t lo =
      (none, { m with lastPerm := some { t := t, lo := lo, pos := m.line }, nperms := m.nperms + 1 }) := by
  have hany : ∀ o, m.lastPerm = o →
      m.calls.any (justifiedBy m.dur m.trailing (o.map fun p => (p.t, p.lo)) t m.line) = true := by
    intro o ho; rw [List.any_eq_true, ← ho]; exact hj
  unfold TMon.onPerm
  cases hl : m.lastPerm with
  | none =>
    have h1 := hany none hl
    simp only [Option.map_none] at h1
    simp [hc, h1]
  | some P =>
    have h1 := hany (some P) hl
    have h2 := hgap P hl
    simp only [Option.map_some] at h1
    simp [hc, h1, h2]

/-- the monitor after a `done` line that brought nothing new -/
def afterDone (m : TMon) : TMon :=
  TMon.tick { m with opened := m.opened.map fun o => { o with lastBlocked := m.line } }

theorem onDone_of_go (m mg : TMon) (l : List (Nat × Int × Bool))
    (hgo : TMon.onDone.go m none l = (none, mg))
    (hchk : (mg.cancel.isSome && !mg.opened.isEmpty) = false) :
    m.onDone l = (none, afterDone mg) := by
  unfold TMon.onDone
  simp only [hgo, hchk, firstSome, Bool.false_eq_true, if_false]
  rfl

/-- a `done` line whose entries have all been seen already -/
theorem onDone_nothing_new (m : TMon) (l : List (Nat × Int × Bool))
    (hall : ∀ x ∈ l, x.1 ∈ m.completed)
    (hchk : (m.cancel.isSome && !m.opened.isEmpty) = false) :
    m.onDone l = (none, afterDone m) := by
  apply onDone_of_go _ _ _ _ hchk
  have := go_skip_prefix l m none [] hall
  rw [List.append_nil] at this
  rw [this, go_nil]

/-- `Cancel` released the blocked callers `ops` (in the order they started): every one of them is
seen to have returned false at the cancel instant -/
theorem go_cancel_list (cpos : Nat) (ctime : Int) : ∀ (ops : List TOpen) (m : TMon),
    m.opened = ops → (ops.map (·.id)).Nodup → (∀ o ∈ ops, o.id ∉ m.completed) →
    m.cancel = some (cpos, ctime) → (∀ o ∈ ops, o.startPos < cpos) →
    TMon.onDone.go m none (ops.map fun o => (o.id, ctime, false)) =
      (none, { m with opened := [], completed := (ops.map (·.id)).reverse ++ m.completed }) := by
  intro ops
  induction ops with
  | nil =>
    intro m hop _ _ _ _
    rw [List.map_nil, go_nil]
    congr 1
    cases m; simp at hop ⊢; exact hop
  | cons o rest ih =>
    intro m hop hnd hdis hcan hpos
    rw [List.map_cons, List.nodup_cons] at hnd
    have hc : m.completed.contains o.id = false := by
      cases hcc : m.completed.contains o.id with
      | false => rfl
      | true => exact absurd (List.contains_iff_mem.mp hcc) (hdis o (by simp))
    have hfind : m.opened.find? (fun x => x.id == o.id) = some o := by
      rw [hop]; simp
    have hfilter : m.opened.filter (fun x => x.id != o.id) = rest := by
      rw [hop, List.filter_cons]
      simp only [bne_self_eq_false, Bool.false_eq_true, if_false]
      rw [List.filter_eq_self]
      intro a ha
      simp only [bne_iff_ne, ne_eq]
      intro heq
      exact hnd.1 (by rw [← heq]; exact List.mem_map_of_mem ha)
    rw [List.map_cons, TMon.onDone.go]
    simp only [hc, Bool.false_eq_true, if_false, hfind, hfilter]
    have hfalse : TMon.onFalse { m with opened := rest, completed := o.id :: m.completed } o ctime = none := by
      unfold TMon.onFalse
      simp only [hcan]
      rw [if_pos (hpos o (by simp))]
      simp
    rw [hfalse]
    simp only [firstSome]
    rw [ih { m with opened := rest, completed := o.id :: m.completed } rfl hnd.2
      (by
        intro o' ho' hmem
        simp only [List.mem_cons] at hmem
        rcases hmem with heq | hmem
        · exact hnd.1 (by rw [← heq]; exact List.mem_map_of_mem ho')
        · exact hdis o' (by simp [ho']) hmem)
      hcan (fun o' ho' => hpos o' (by simp [ho']))]
    simp [List.reverse_cons, List.append_assoc]

/-- a `done` line with one new entry: the blocked caller `o` is seen to have received a permission -/
theorem go_one_grant (m : TMon) (o : TOpen) (t : Int)
    (hc : o.id ∉ m.completed) (hfind : m.opened.find? (fun x => x.id == o.id) = some o)
    (ht : t ≤ m.now) (hcan : m.cancel = none)
    (hgap : ∀ P, m.lastPerm = some P → gapOK m.dur m.trailing P.t t = true)
    (hj : ∃ c ∈ m.calls, justifiedBy m.dur m.trailing (m.lastPerm.map fun p => (p.t, p.lo)) t m.line c = true) :
    TMon.onDone.go m none [(o.id, t, true)] =
      (none, { m with opened := m.opened.filter (fun x => x.id != o.id), completed := o.id :: m.completed,
                      lastPerm := some { t := t, lo := o.lastBlocked, pos := m.line },
                      nperms := m.nperms + 1 }) := by
  have hcc : m.completed.contains o.id = false := by
    cases hcc : m.completed.contains o.id with
    | false => rfl
    | true => exact absurd (List.contains_iff_mem.mp hcc) hc
  rw [TMon.onDone.go]
  simp only [hcc, Bool.false_eq_true, if_false, hfind, if_true]
  rw [onPerm_accepts { m with opened := m.opened.filter (fun x => x.id != o.id), completed := o.id :: m.completed }
    t o.lastBlocked hcan hgap hj]
  have : ¬ (t > m.now) := by omega
  simp only [this, if_false, firstSome, go_nil]

/-! ## the synchronisation invariant -/

/-- monitor and model are in step after the operations `hist` (line `2k` = operation `k`, line
`2k+1` = the `done` line after it) -/
structure TSync (cfg : TCfg) (ch : Choice) (hist : List TEv) (r : TRun) : Prop where
  model : r.s = trun cfg ch hist
  dur_eq : r.m.dur = cfg.dur
  tr_eq : r.m.trailing = cfg.trailing
  now_eq : r.m.now = r.s.now
  line_eq : r.m.line = 2 * hist.length
  calls : ∀ p, hist[p]? = some TEv.call → (2 * p, tclock (hist.take p)) ∈ r.m.calls
  last_t : r.m.lastPerm.map (·.t) = r.s.last
  last_lo : ∀ P, r.m.lastPerm = some P → ∃ j, j < hist.length ∧ P.lo ≤ 2 * j ∧
    (trun cfg ch (hist.take j)).grants.length < r.s.grants.length
  cancel_none : r.s.stop = false → r.m.cancel = none
  cancel_some : r.s.stop = true → ∃ cpos ctime, r.m.cancel = some (cpos, ctime) ∧ cpos < r.m.line
  opened : r.m.opened.map (·.id) = r.s.blocked
  opened_pos : ∀ o ∈ r.m.opened, o.lastBlocked + 1 = r.m.line ∧ o.startPos < r.m.line
  completed : ∀ x ∈ r.s.doneLog, x.1 ∈ r.m.completed
  nodup : r.s.blocked.Nodup
  fresh_b : ∀ id ∈ r.s.blocked, id < r.c
  fresh_g : ∀ g ∈ r.s.grants, g.id < r.c
  fresh_c : ∀ id ∈ r.m.completed, id < r.c
  disj : ∀ id ∈ r.s.blocked, id ∉ r.m.completed

/-- the same in the middle of a `done` line (entries processed, `lastBlocked` not yet refreshed) -/
structure TSyncMid (cfg : TCfg) (ch : Choice) (hist : List TEv) (r : TRun) : Prop where
  model : r.s = trun cfg ch hist
  dur_eq : r.m.dur = cfg.dur
  tr_eq : r.m.trailing = cfg.trailing
  now_eq : r.m.now = r.s.now
  line_eq : r.m.line + 1 = 2 * hist.length
  calls : ∀ p, hist[p]? = some TEv.call → (2 * p, tclock (hist.take p)) ∈ r.m.calls
  last_t : r.m.lastPerm.map (·.t) = r.s.last
  last_lo : ∀ P, r.m.lastPerm = some P → ∃ j, j < hist.length ∧ P.lo ≤ 2 * j ∧
    (trun cfg ch (hist.take j)).grants.length < r.s.grants.length
  cancel_none : r.s.stop = false → r.m.cancel = none
  cancel_some : r.s.stop = true → ∃ cpos ctime, r.m.cancel = some (cpos, ctime) ∧ cpos < r.m.line + 1
  opened : r.m.opened.map (·.id) = r.s.blocked
  opened_pos : ∀ o ∈ r.m.opened, o.startPos < r.m.line + 1
  completed : ∀ x ∈ r.s.doneLog, x.1 ∈ r.m.completed
  nodup : r.s.blocked.Nodup
  fresh_b : ∀ id ∈ r.s.blocked, id < r.c
  fresh_g : ∀ g ∈ r.s.grants, g.id < r.c
  fresh_c : ∀ id ∈ r.m.completed, id < r.c
  disj : ∀ id ∈ r.s.blocked, id ∉ r.m.completed

theorem sync_afterDone {cfg : TCfg} {ch : Choice} {hist : List TEv} {m : TMon} {s : TState} {c : Nat}
    (h : TSyncMid cfg ch hist { m := m, s := s, c := c }) :
    TSync cfg ch hist { m := afterDone m, s := s, c := c } where
  model := h.model
  dur_eq := h.dur_eq
  tr_eq := h.tr_eq
  now_eq := h.now_eq
  line_eq := by have := h.line_eq; show m.line + 1 = _; exact this
  calls := h.calls
  last_t := h.last_t
  last_lo := h.last_lo
  cancel_none := h.cancel_none
  cancel_some := by
    intro hs
    obtain ⟨cpos, ctime, h1, h2⟩ := h.cancel_some hs
    exact ⟨cpos, ctime, h1, h2⟩
  opened := by
    have := h.opened
    show (m.opened.map fun o => ({ o with lastBlocked := m.line } : TOpen)).map (·.id) = s.blocked
    rw [List.map_map]; exact this
  opened_pos := by
    intro o ho
    have ho' : o ∈ m.opened.map fun o => ({ o with lastBlocked := m.line } : TOpen) := ho
    rw [List.mem_map] at ho'
    obtain ⟨o0, ho0, rfl⟩ := ho'
    exact ⟨rfl, h.opened_pos o0 ho0⟩
  completed := h.completed
  nodup := h.nodup
  fresh_b := h.fresh_b
  fresh_g := h.fresh_g
  fresh_c := h.fresh_c
  disj := h.disj

/-- what the model guarantees about a permission `g` handed out by the step `e` after `hist` -/
theorem perm_facts {cfg : TCfg} {ch : Choice} {hist : List TEv} {r : TRun} (h : TSync cfg ch hist r)
    (e : TEv) (g : Grant)
    (hg : (trun cfg ch (hist ++ [e])).grants = r.s.grants ++ [g]) :
    (∀ P, r.m.lastPerm = some P → gapOK cfg.dur cfg.trailing P.t g.t = true) ∧
    (∃ p, (hist ++ [e])[p]? = some TEv.call ∧ p ≤ hist.length ∧
      ∀ L, 2 * hist.length ≤ L →
        justifiedBy cfg.dur cfg.trailing (r.m.lastPerm.map fun P => (P.t, P.lo)) g.t L
          (2 * p, tclock ((hist ++ [e]).take p)) = true) ∧
    g.t ≤ (trun cfg ch (hist ++ [e])).now ∧ r.s.stop = false := by
  have hI := trun_inv cfg ch hist
  rw [← h.model] at hI
  have hI' := trun_inv cfg ch (hist ++ [e])
  have hk : (trun cfg ch (hist ++ [e])).grants[r.s.grants.length]? = some g := by
    rw [hg, List.getElem?_append_right (Nat.le_refl _)]; simp
  -- the previous permission, if any
  have hprev : ∀ P, r.m.lastPerm = some P →
      ∃ g', r.s.grants.getLast? = some g' ∧ g'.t = P.t ∧ 0 < r.s.grants.length := by
    intro P hP
    have h1 := h.last_t
    rw [hP, hI.last_eq] at h1
    cases hl : r.s.grants.getLast? with
    | none => rw [hl] at h1; cases h1
    | some g' =>
      rw [hl] at h1
      simp only [Option.map_some, Option.some.injEq] at h1
      refine ⟨g', rfl, h1.symm, ?_⟩
      cases hgr : r.s.grants with
      | nil => rw [hgr] at hl; cases hl
      | cons a l => simp
  refine ⟨?_, ?_, ?_, ?_⟩
  · intro P hP
    obtain ⟨g', hg', hgt, _⟩ := hprev P hP
    have hsp := hI'.spaced
    rw [hg, List.map_append, List.map_singleton, spacedOK_snoc, Bool.and_eq_true] at hsp
    have h2 := hsp.2
    rw [List.getLast?_map, hg'] at h2
    simp only [Option.map_some] at h2
    rw [← hgt]; exact h2
  · obtain ⟨p, hcall, htime, hle, hpre, _, hnt⟩ :=
      throttle_trigger_position cfg ch (hist ++ [e]) r.s.grants.length g hk
    have hpl : p < (hist ++ [e]).length := by
      rcases List.getElem?_eq_some_iff.mp hcall with ⟨h', _⟩; exact h'
    have hpl' : p ≤ hist.length := by simp at hpl; omega
    refine ⟨p, hcall, hpl', ?_⟩
    intro L hL
    unfold justifiedBy
    simp only [Bool.and_eq_true, decide_eq_true_eq]
    refine ⟨⟨by omega, by rw [htime]; exact hle⟩, ?_⟩
    cases hP : r.m.lastPerm with
    | none => rfl
    | some P =>
      obtain ⟨j, hj, hlo, hlen⟩ := h.last_lo P hP
      obtain ⟨g', hg', hgt, hpos⟩ := hprev P hP
      simp only [Option.map_some, Bool.and_eq_true, decide_eq_true_eq, Bool.or_eq_true]
      constructor
      · -- the trigger comes after the event that handed out the previous permission
        have hjp : j < p := by
          rcases Nat.lt_or_ge j p with hlt | hge
          · exact hlt
          · exfalso
            have h1 := trun_grants_prefix cfg ch ((hist ++ [e]).take j) p
            rw [List.take_take, Nat.min_eq_left hge] at h1
            have h2 := h1.length_le
            rw [hpre, List.take_append_of_le_length (by omega : j ≤ hist.length)] at h2
            rw [hg] at h2
            simp at h2
            omega
        omega
      · cases htr : cfg.trailing with
        | true => left; rfl
        | false =>
          right
          have hget : (trun cfg ch (hist ++ [e])).grants[r.s.grants.length - 1]? = some g' := by
            rw [hg, List.getElem?_append_left (by omega), ← List.getLast?_eq_getElem?]; exact hg'
          have := hnt htr (r.s.grants.length - 1) g' (by omega) hget
          rw [htime, ← hgt]; exact this
  · have h1 := hI'.last_eq
    rw [hg] at h1
    simp only [List.getLast?_append, List.getLast?_singleton] at h1
    exact hI'.last_le g.t (by rw [h1]; simp)
  · cases hs : r.s.stop with
    | false => rfl
    | true =>
      exfalso
      have := (stop_step cfg ch r.s e hs (hI.bs hs)).2.1
      rw [trun_snoc, ← h.model, this] at hg
      have := congrArg List.length hg
      simp at this

/-! ## one operation + `done` keeps monitor and model in step -/

theorem take_snoc_le {α} (l : List α) (x : α) {k : Nat} (h : k ≤ l.length) :
    (l ++ [x]).take k = l.take k := List.take_append_of_le_length h

theorem get_snoc_lt {α} (l : List α) (x : α) {k : Nat} (h : k < l.length) :
    (l ++ [x])[k]? = l[k]? := List.getElem?_append_left h

theorem chk_of_sync {cfg ch hist r} (h : TSync cfg ch hist r) :
    (r.m.cancel.isSome && !r.m.opened.isEmpty) = false := by
  cases hs : r.s.stop with
  | false => rw [h.cancel_none hs]; rfl
  | true =>
    have hI := trun_inv cfg ch hist
    rw [← h.model] at hI
    have hb := hI.bs hs
    have := h.opened
    rw [hb, List.map_eq_nil_iff] at this
    rw [this]; simp

/-- `Call` or the passage of time, then `done` -/
theorem woke_step {cfg : TCfg} {ch : Choice} {hist : List TEv} {r : TRun} (h : TSync cfg ch hist r)
    (e : TEv) (he : e = TEv.call ∨ ∃ dt, e = TEv.advance dt) (m1 : TMon)
    (h_dur : m1.dur = r.m.dur) (h_tr : m1.trailing = r.m.trailing) (h_lp : m1.lastPerm = r.m.lastPerm)
    (h_can : m1.cancel = r.m.cancel) (h_op : m1.opened = r.m.opened) (h_co : m1.completed = r.m.completed)
    (h_line : m1.line = 2 * hist.length + 1) (h_now : m1.now = (tstep cfg ch r.s e).now)
    (h_calls : ∀ p, (hist ++ [e])[p]? = some TEv.call →
      (2 * p, tclock ((hist ++ [e]).take p)) ∈ m1.calls) :
    ∃ m2, m1.onDone (tstep cfg ch r.s e).doneLog = (none, m2) ∧
      TSync cfg ch (hist ++ [e]) { m := m2, s := tstep cfg ch r.s e, c := r.c } := by
  have hI := trun_inv cfg ch hist
  rw [← h.model] at hI
  have hmodel : tstep cfg ch r.s e = trun cfg ch (hist ++ [e]) := by rw [trun_snoc, h.model]
  have hI' := trun_inv cfg ch (hist ++ [e])
  rw [← hmodel] at hI'
  have hlen : (hist ++ [e]).length = hist.length + 1 := by simp
  obtain ⟨hw, hstop, _⟩ := tstep_woke ch e hI h.nodup he
  have hlastlo : ∀ P, r.m.lastPerm = some P → ∃ j, j < (hist ++ [e]).length ∧ P.lo ≤ 2 * j ∧
      (trun cfg ch ((hist ++ [e]).take j)).grants.length < r.s.grants.length := by
    intro P hP
    obtain ⟨j, hj, hlo, hl⟩ := h.last_lo P hP
    exact ⟨j, by omega, hlo, by rw [take_snoc_le _ _ (by omega)]; exact hl⟩
  rcases hw with ⟨h1, h2, h3⟩ | ⟨g, h1, h2, h3, h4⟩
  · -- nothing new
    refine ⟨afterDone m1, onDone_nothing_new m1 _ ?_ ?_, sync_afterDone ?_⟩
    · intro x hx; rw [h2] at hx; rw [h_co]; exact h.completed x hx
    · rw [h_can, h_op]; exact chk_of_sync h
    · exact
        { model := hmodel
          dur_eq := by show m1.dur = _; rw [h_dur]; exact h.dur_eq
          tr_eq := by show m1.trailing = _; rw [h_tr]; exact h.tr_eq
          now_eq := h_now
          line_eq := by show m1.line + 1 = _; rw [h_line, hlen]; omega
          calls := h_calls
          last_t := by
            show m1.lastPerm.map (·.t) = (tstep cfg ch r.s e).last
            rw [h_lp, h.last_t, hI.last_eq, hI'.last_eq, h1]
          last_lo := by
            intro P hP
            have hP' : r.m.lastPerm = some P := by rw [← h_lp]; exact hP
            obtain ⟨j, hj, hlo, hl⟩ := hlastlo P hP'
            exact ⟨j, hj, hlo, by show _ < (tstep cfg ch r.s e).grants.length; rw [h1]; exact hl⟩
          cancel_none := by
            intro hs
            show m1.cancel = none
            rw [h_can]; exact h.cancel_none (by rw [← hstop]; exact hs)
          cancel_some := by
            intro hs
            obtain ⟨cpos, ctime, hc1, hc2⟩ := h.cancel_some (by rw [← hstop]; exact hs)
            refine ⟨cpos, ctime, by show m1.cancel = _; rw [h_can]; exact hc1, ?_⟩
            show cpos < m1.line + 1
            rw [h_line]; have := h.line_eq; omega
          opened := by show m1.opened.map (·.id) = _; rw [h_op, h3]; exact h.opened
          opened_pos := by
            intro o ho
            have ho' : o ∈ r.m.opened := by rw [← h_op]; exact ho
            show o.startPos < m1.line + 1
            have := (h.opened_pos o ho').2; have := h.line_eq
            rw [h_line]; omega
          completed := by
            intro x hx
            show x.1 ∈ m1.completed
            rw [h2] at hx; rw [h_co]; exact h.completed x hx
          nodup := by show (tstep cfg ch r.s e).blocked.Nodup; rw [h3]; exact h.nodup
          fresh_b := by intro id hid; rw [h3] at hid; exact h.fresh_b id hid
          fresh_g := by intro g hg; rw [h1] at hg; exact h.fresh_g g hg
          fresh_c := by intro id hid; exact h.fresh_c id (by rw [← h_co]; exact hid)
          disj := by
            intro id hid
            rw [h3] at hid
            show id ∉ m1.completed
            rw [h_co]; exact h.disj id hid }
  · -- one blocked caller got a permission
    rw [hmodel] at h1
    obtain ⟨hgap, ⟨p, hcall, hp, hjust⟩, hgt, hstopf⟩ := perm_facts h e g h1
    rw [← hmodel] at h1 hgt
    -- the caller's entry in the monitor
    have hfind : ∃ o, r.m.opened.find? (fun x => x.id == g.id) = some o ∧ o.id = g.id ∧ o ∈ r.m.opened := by
      cases hf : r.m.opened.find? (fun x => x.id == g.id) with
      | none =>
        exfalso
        rw [← h.opened, List.mem_map] at h3
        obtain ⟨o, ho, hoid⟩ := h3
        exact (List.find?_eq_none.mp hf) o ho (by simp [hoid])
      | some o =>
        have := List.find?_some hf
        simp only [beq_iff_eq] at this
        exact ⟨o, rfl, this, List.mem_of_find?_eq_some hf⟩
    obtain ⟨o, hfo, hoid, homem⟩ := hfind
    have hcan1 : m1.cancel = none := by rw [h_can]; exact h.cancel_none hstopf
    have hgo := go_one_grant m1 o g.t
      (by rw [hoid, h_co]; exact h.disj g.id h3)
      (by rw [h_op, hoid]; exact hfo)
      (by rw [h_now]; exact hgt) hcan1
      (by intro P hP; rw [h_dur, h_tr, h.dur_eq, h.tr_eq]; exact hgap P (by rw [← h_lp]; exact hP))
      ⟨_, h_calls p hcall, by
        rw [h_dur, h_tr, h.dur_eq, h.tr_eq, h_lp, h_line]
        exact hjust _ (by omega)⟩
    rw [hoid] at hgo
    have hsplit : (tstep cfg ch r.s e).doneLog = r.s.doneLog ++ [(g.id, g.t, true)] := h2
    have hgo' := go_skip_prefix r.s.doneLog m1 none [(g.id, g.t, true)]
      (by intro x hx; rw [h_co]; exact h.completed x hx)
    rw [hgo, ← hsplit] at hgo'
    refine ⟨_, onDone_of_go m1 _ _ hgo' (by simp [hcan1]), sync_afterDone ?_⟩
    have hgid : g.id < r.c := h.fresh_b g.id h3
    exact
      { model := hmodel
        dur_eq := by show m1.dur = _; rw [h_dur]; exact h.dur_eq
        tr_eq := by show m1.trailing = _; rw [h_tr]; exact h.tr_eq
        now_eq := h_now
        line_eq := by show m1.line + 1 = _; rw [h_line, hlen]; omega
        calls := h_calls
        last_t := by
          show some g.t = (tstep cfg ch r.s e).last
          rw [hI'.last_eq, h1]; simp
        last_lo := by
          intro P hP
          have hP' : some ({ t := g.t, lo := o.lastBlocked, pos := m1.line } : TPerm) = some P := hP
          simp only [Option.some.injEq] at hP'
          subst hP'
          refine ⟨hist.length, by omega, ?_, ?_⟩
          · show o.lastBlocked ≤ _
            have := (h.opened_pos o homem).1; have := h.line_eq; omega
          · show _ < (tstep cfg ch r.s e).grants.length
            rw [take_snoc_le _ _ (Nat.le_refl _), List.take_of_length_le (Nat.le_refl _), ← h.model, h1]
            simp
        cancel_none := fun _ => hcan1
        cancel_some := by intro hs; rw [hstop, hstopf] at hs; cases hs
        opened := by
          show (m1.opened.filter fun x => x.id != g.id).map (·.id) = (tstep cfg ch r.s e).blocked
          rw [h4, ← h.opened, h_op, List.filter_map]; rfl
        opened_pos := by
          intro o' ho'
          have ho'' : o' ∈ m1.opened.filter fun x => x.id != g.id := ho'
          rw [List.mem_filter, h_op] at ho''
          show o'.startPos < m1.line + 1
          have := (h.opened_pos o' ho''.1).2; have := h.line_eq
          rw [h_line]; omega
        completed := by
          intro x hx
          show x.1 ∈ g.id :: m1.completed
          rw [hsplit, List.mem_append] at hx
          rcases hx with hx | hx
          · rw [h_co]; exact List.mem_cons_of_mem _ (h.completed x hx)
          · simp only [List.mem_singleton] at hx; subst hx; simp
        nodup := by
          show (tstep cfg ch r.s e).blocked.Nodup
          rw [h4]; exact List.Nodup.sublist List.filter_sublist h.nodup
        fresh_b := by intro id hid; rw [h4, List.mem_filter] at hid; exact h.fresh_b id hid.1
        fresh_g := by
          intro g' hg'
          rw [h1, List.mem_append, List.mem_singleton] at hg'
          rcases hg' with hg' | rfl
          · exact h.fresh_g g' hg'
          · exact hgid
        fresh_c := by
          intro id hid
          have hid' : id ∈ g.id :: m1.completed := hid
          rw [List.mem_cons, h_co] at hid'
          rcases hid' with rfl | hid'
          · exact hgid
          · exact h.fresh_c id hid'
        disj := by
          intro id hid
          rw [h4, List.mem_filter] at hid
          show id ∉ g.id :: m1.completed
          rw [List.mem_cons, h_co]
          intro hc
          rcases hc with rfl | hc
          · simp at hid
          · exact h.disj id hid.1 hc }

/-- `Cancel`, then `done` -/
theorem cancel_step {cfg : TCfg} {ch : Choice} {hist : List TEv} {r : TRun} (h : TSync cfg ch hist r) :
    ∃ m2, r.m.onCancel.onDone (tstep cfg ch r.s .cancel).doneLog = (none, m2) ∧
      TSync cfg ch (hist ++ [TEv.cancel]) { m := m2, s := tstep cfg ch r.s .cancel, c := r.c } := by
  have hI := trun_inv cfg ch hist
  rw [← h.model] at hI
  have hstrict : Strict r.s := by rw [h.model]; exact trun_strict cfg ch hist
  have hmodel : tstep cfg ch r.s .cancel = trun cfg ch (hist ++ [TEv.cancel]) := by rw [trun_snoc, h.model]
  have hI' := trun_inv cfg ch (hist ++ [TEv.cancel])
  rw [← hmodel] at hI'
  have hlen : (hist ++ [TEv.cancel]).length = hist.length + 1 := by simp
  obtain ⟨f1, f2, f3, f4, f5⟩ := tstep_cancel_fields cfg ch r.s hstrict
  -- the monitor's cancel record after the `cancel` line
  have hcan : ∃ cpos ctime, r.m.onCancel.cancel = some (cpos, ctime) ∧ cpos < 2 * hist.length + 1 ∧
      (∀ o ∈ r.m.opened, o.startPos < cpos) ∧
      r.m.opened.map (fun o => (o.id, r.s.now, false)) = r.m.opened.map (fun o => (o.id, ctime, false)) := by
    cases hs : r.s.stop with
    | true =>
      obtain ⟨cpos, ctime, hc1, hc2⟩ := h.cancel_some hs
      have hop : r.m.opened = [] := by
        have := h.opened
        rw [hI.bs hs, List.map_eq_nil_iff] at this; exact this
      refine ⟨cpos, ctime, by simp [TMon.onCancel, TMon.tick, hc1], by have := h.line_eq; omega, ?_, ?_⟩
      · intro o ho; rw [hop] at ho; cases ho
      · rw [hop]; rfl
    | false =>
      have hc := h.cancel_none hs
      refine ⟨r.m.line, r.m.now, by simp [TMon.onCancel, TMon.tick, hc], by have := h.line_eq; omega, ?_, ?_⟩
      · intro o ho; exact (h.opened_pos o ho).2
      · rw [h.now_eq]
  obtain ⟨cpos, ctime, hc1, hc2, hc3, hc4⟩ := hcan
  have hnew : (tstep cfg ch r.s .cancel).doneLog =
      r.s.doneLog ++ r.m.opened.map (fun o => (o.id, ctime, false)) := by
    rw [f2, ← hc4, ← h.opened, List.map_map]; rfl
  have hgo := go_cancel_list cpos ctime r.m.opened r.m.onCancel rfl
    (by rw [h.opened]; exact h.nodup)
    (by
      intro o ho
      show o.id ∉ r.m.completed
      exact h.disj o.id (by rw [← h.opened]; exact List.mem_map_of_mem ho))
    hc1 hc3
  have hgo' := go_skip_prefix r.s.doneLog r.m.onCancel none (r.m.opened.map fun o => (o.id, ctime, false))
    (by intro x hx; exact h.completed x hx)
  rw [hgo, ← hnew] at hgo'
  refine ⟨_, onDone_of_go _ _ _ hgo' (by simp), sync_afterDone ?_⟩
  have hcalls : ∀ p, (hist ++ [TEv.cancel])[p]? = some TEv.call →
      (2 * p, tclock ((hist ++ [TEv.cancel]).take p)) ∈ r.m.calls := by
    intro p hp
    have hpl : p < (hist ++ [TEv.cancel]).length := by
      rcases List.getElem?_eq_some_iff.mp hp with ⟨h', _⟩; exact h'
    by_cases hpn : p < hist.length
    · rw [get_snoc_lt _ _ hpn] at hp
      rw [take_snoc_le _ _ (by omega)]; exact h.calls p hp
    · have : p = hist.length := by omega
      rw [this, List.getElem?_append_right (Nat.le_refl _)] at hp
      simp at hp
  exact
    { model := hmodel
      dur_eq := h.dur_eq
      tr_eq := h.tr_eq
      now_eq := by show r.m.now = _; rw [f5]; exact h.now_eq
      line_eq := by show r.m.line + 1 + 1 = _; rw [h.line_eq, hlen]; omega
      calls := hcalls
      last_t := by
        show r.m.lastPerm.map (·.t) = (tstep cfg ch r.s .cancel).last
        rw [h.last_t, hI.last_eq, hI'.last_eq, f1]
      last_lo := by
        intro P hP
        obtain ⟨j, hj, hlo, hl⟩ := h.last_lo P hP
        exact ⟨j, by omega, hlo, by
          show _ < (tstep cfg ch r.s .cancel).grants.length
          rw [take_snoc_le _ _ (by omega), f1]; exact hl⟩
      cancel_none := by intro hs; rw [f4] at hs; cases hs
      cancel_some := by
        intro _
        refine ⟨cpos, ctime, hc1, ?_⟩
        show cpos < r.m.line + 1 + 1
        have := h.line_eq; omega
      opened := by show ([] : List TOpen).map (·.id) = _; rw [f3]; rfl
      opened_pos := by intro o ho; cases ho
      completed := by
        intro x hx
        show x.1 ∈ (r.m.opened.map (·.id)).reverse ++ r.m.completed
        rw [hnew, List.mem_append] at hx
        rcases hx with hx | hx
        · exact List.mem_append_right _ (h.completed x hx)
        · rw [List.mem_map] at hx
          obtain ⟨o, ho, rfl⟩ := hx
          exact List.mem_append_left _ (List.mem_reverse.mpr (List.mem_map_of_mem ho))
      nodup := by show (tstep cfg ch r.s .cancel).blocked.Nodup; rw [f3]; exact List.nodup_nil
      fresh_b := by intro id hid; rw [f3] at hid; cases hid
      fresh_g := by intro g hg; rw [f1] at hg; exact h.fresh_g g hg
      fresh_c := by
        intro id hid
        have hid' : id ∈ (r.m.opened.map (·.id)).reverse ++ r.m.completed := hid
        rw [List.mem_append, List.mem_reverse, h.opened] at hid'
        rcases hid' with hid' | hid'
        · exact h.fresh_b id hid'
        · exact h.fresh_c id hid'
      disj := by intro id hid; rw [f3] at hid; cases hid }

/-- `Next`, then `done` -/
theorem next_step {cfg : TCfg} {ch : Choice} {hist : List TEv} {r : TRun} (h : TSync cfg ch hist r) :
    ∃ m2, (r.m.onNext r.c (nextRes (tstep cfg ch r.s (.next r.c)) r.c)).1 = none ∧
      (r.m.onNext r.c (nextRes (tstep cfg ch r.s (.next r.c)) r.c)).2.onDone
        (tstep cfg ch r.s (.next r.c)).doneLog = (none, m2) ∧
      TSync cfg ch (hist ++ [TEv.next r.c]) { m := m2, s := tstep cfg ch r.s (.next r.c), c := r.c + 1 } := by
  have hI := trun_inv cfg ch hist
  rw [← h.model] at hI
  have hstrict : Strict r.s := by rw [h.model]; exact trun_strict cfg ch hist
  have hmodel : tstep cfg ch r.s (.next r.c) = trun cfg ch (hist ++ [TEv.next r.c]) := by
    rw [trun_snoc, h.model]
  have hI' := trun_inv cfg ch (hist ++ [TEv.next r.c])
  rw [← hmodel] at hI'
  have hlen : (hist ++ [TEv.next r.c]).length = hist.length + 1 := by simp
  obtain ⟨f1, f2, f3, f4, f5⟩ := tstep_next_fields cfg ch r.s r.c hstrict
  have hcalls : ∀ p, (hist ++ [TEv.next r.c])[p]? = some TEv.call →
      p < hist.length ∧ (2 * p, tclock ((hist ++ [TEv.next r.c]).take p)) ∈ r.m.calls := by
    intro p hp
    have hpl : p < (hist ++ [TEv.next r.c]).length := by
      rcases List.getElem?_eq_some_iff.mp hp with ⟨h', _⟩; exact h'
    by_cases hpn : p < hist.length
    · rw [get_snoc_lt _ _ hpn] at hp
      rw [take_snoc_le _ _ (by omega)]; exact ⟨hpn, h.calls p hp⟩
    · have : p = hist.length := by omega
      rw [this, List.getElem?_append_right (Nat.le_refl _)] at hp
      simp at hp
  have hcfresh : r.c ∉ r.s.blocked := fun hc => Nat.lt_irrefl _ (h.fresh_b r.c hc)
  have hgfresh : ∀ g ∈ r.s.grants, (g.id == r.c) = false := by
    intro g hg
    have := h.fresh_g g hg
    simp; omega
  have hlastlo : ∀ P, r.m.lastPerm = some P → ∃ j, j < (hist ++ [TEv.next r.c]).length ∧ P.lo ≤ 2 * j ∧
      (trun cfg ch ((hist ++ [TEv.next r.c]).take j)).grants.length < r.s.grants.length := by
    intro P hP
    obtain ⟨j, hj, hlo, hl⟩ := h.last_lo P hP
    exact ⟨j, by omega, hlo, by rw [take_snoc_le _ _ (by omega)]; exact hl⟩
  by_cases hc : r.s.waiting = true ∨ r.s.stop = true
  · by_cases hs : r.s.stop = false
    · -- a permission is waiting: the caller returns true at once
      have htn : tnext r.s r.c = grantTo r.s r.c := by unfold tnext; rw [if_pos hc, if_pos hs]
      rw [htn] at f1 f2 f3 f4
      have hg : (trun cfg ch (hist ++ [TEv.next r.c])).grants = r.s.grants ++
          [{ t := r.s.now, id := r.c, ctime := r.s.wsrc.1, cepoch := r.s.wsrc.2, prevT := r.s.last }] := by
        rw [← hmodel, f1]; rfl
      obtain ⟨hgap, ⟨p, hcall, hp, hjust⟩, _, _⟩ := perm_facts h (.next r.c) _ hg
      have hres : nextRes (tstep cfg ch r.s (.next r.c)) r.c = some true := by
        unfold nextRes
        rw [f3, f1]
        have h1 : (grantTo r.s r.c).blocked.contains r.c = false := by
          show r.s.blocked.contains r.c = false
          cases hcc : r.s.blocked.contains r.c with
          | false => rfl
          | true => exact absurd (List.contains_iff_mem.mp hcc) hcfresh
        have h2 : (grantTo r.s r.c).grants.any (fun g => g.id == r.c) = true := by
          simp [grantTo]
        rw [h1, h2]; simp
      have hcan : r.m.cancel = none := h.cancel_none hs
      have hperm := onPerm_accepts r.m r.m.now r.m.line hcan
        (by intro P hP; rw [h.dur_eq, h.tr_eq, h.now_eq]; exact hgap P hP)
        ⟨_, (hcalls p hcall).2, by
          rw [h.dur_eq, h.tr_eq, h.now_eq]
          exact hjust _ (by rw [h.line_eq]; omega)⟩
      rw [hres]
      have hon : r.m.onNext r.c (some true) =
          (none, TMon.tick { r.m with
            lastPerm := some ({ t := r.m.now, lo := r.m.line, pos := r.m.line } : TPerm)
            nperms := r.m.nperms + 1
            completed := r.c :: r.m.completed }) := by
        unfold TMon.onNext
        simp only [hperm]
      rw [hon]
      refine ⟨_, rfl, onDone_nothing_new _ _ ?_ (by simp [TMon.tick, hcan]), sync_afterDone ?_⟩
      · intro x hx
        show x.1 ∈ r.c :: r.m.completed
        rw [f2] at hx
        have hx' : x ∈ r.s.doneLog ++ [(r.c, r.s.now, true)] := hx
        rw [List.mem_append, List.mem_singleton] at hx'
        rcases hx' with hx' | rfl
        · exact List.mem_cons_of_mem _ (h.completed x hx')
        · simp
      · exact
          { model := hmodel
            dur_eq := h.dur_eq
            tr_eq := h.tr_eq
            now_eq := by show r.m.now = _; rw [f5]; exact h.now_eq
            line_eq := by show r.m.line + 1 + 1 = _; rw [h.line_eq, hlen]; omega
            calls := fun p hp => (hcalls p hp).2
            last_t := by
              show some r.m.now = (tstep cfg ch r.s (.next r.c)).last
              rw [hI'.last_eq, f1, h.now_eq]; simp [grantTo]
            last_lo := by
              intro P hP
              have hP' : some ({ t := r.m.now, lo := r.m.line, pos := r.m.line } : TPerm) = some P := hP
              simp only [Option.some.injEq] at hP'
              subst hP'
              refine ⟨hist.length, by omega, by show r.m.line ≤ _; rw [h.line_eq]; omega, ?_⟩
              show _ < (tstep cfg ch r.s (.next r.c)).grants.length
              rw [take_snoc_le _ _ (Nat.le_refl _), List.take_of_length_le (Nat.le_refl _), ← h.model, f1]
              simp [grantTo]
            cancel_none := fun _ => hcan
            cancel_some := by intro hs'; rw [f4] at hs'; have : r.s.stop = true := hs'; rw [hs] at this; cases this
            opened := by show r.m.opened.map (·.id) = _; rw [f3]; exact h.opened
            opened_pos := by
              intro o ho
              show o.startPos < r.m.line + 1 + 1
              have := (h.opened_pos o ho).2; omega
            completed := by
              intro x hx
              show x.1 ∈ r.c :: r.m.completed
              rw [f2] at hx
              have hx' : x ∈ r.s.doneLog ++ [(r.c, r.s.now, true)] := hx
              rw [List.mem_append, List.mem_singleton] at hx'
              rcases hx' with hx' | rfl
              · exact List.mem_cons_of_mem _ (h.completed x hx')
              · simp
            nodup := by show (tstep cfg ch r.s (.next r.c)).blocked.Nodup; rw [f3]; exact h.nodup
            fresh_b := by
              intro id hid; rw [f3] at hid
              have := h.fresh_b id hid; show id < r.c + 1; omega
            fresh_g := by
              intro g hg'
              rw [f1] at hg'
              have hg'' : g ∈ r.s.grants ++ [_] := hg'
              rw [List.mem_append, List.mem_singleton] at hg''
              show g.id < r.c + 1
              rcases hg'' with hg'' | rfl
              · have := h.fresh_g g hg''; omega
              · show r.c < r.c + 1; omega
            fresh_c := by
              intro id hid
              have hid' : id ∈ r.c :: r.m.completed := hid
              rw [List.mem_cons] at hid'
              show id < r.c + 1
              rcases hid' with rfl | hid'
              · omega
              · have := h.fresh_c id hid'; omega
            disj := by
              intro id hid
              rw [f3] at hid
              show id ∉ r.c :: r.m.completed
              rw [List.mem_cons]
              intro hcc
              rcases hcc with rfl | hcc
              · exact hcfresh hid
              · exact h.disj id hid hcc }
    · -- cancelled: the caller returns false at once
      have hst : r.s.stop = true := by
        cases hsv : r.s.stop with
        | true => rfl
        | false => exact absurd hsv hs
      have htn : tnext r.s r.c = { r.s with
          falses := r.s.falses ++ [(r.s.now, r.c)]
          doneLog := r.s.doneLog ++ [(r.c, r.s.now, false)] } := by
        unfold tnext; rw [if_pos hc, if_neg hs]
      rw [htn] at f1 f2 f3 f4
      have hres : nextRes (tstep cfg ch r.s (.next r.c)) r.c = some false := by
        unfold nextRes
        rw [f3, f1]
        have h1 : r.s.blocked.contains r.c = false := by
          cases hcc : r.s.blocked.contains r.c with
          | false => rfl
          | true => exact absurd (List.contains_iff_mem.mp hcc) hcfresh
        have h2 : r.s.grants.any (fun g => g.id == r.c) = false := by
          rw [List.any_eq_false]; intro g hg; rw [hgfresh g hg]; simp
        show (if r.s.blocked.contains r.c = true then none
          else if r.s.grants.any (fun g => g.id == r.c) = true then some true else some false) = some false
        rw [h1, h2]; simp
      obtain ⟨cpos, ctime, hc1, hc2⟩ := h.cancel_some hst
      have hop : r.m.opened = [] := by
        have := h.opened
        rw [hI.bs hst, List.map_eq_nil_iff] at this; exact this
      rw [hres]
      have hon : r.m.onNext r.c (some false) =
          (none, TMon.tick { r.m with completed := r.c :: r.m.completed }) := by
        unfold TMon.onNext
        simp only [TMon.onFalse, hc1]
        rw [if_neg (by omega)]
        simp
      rw [hon]
      refine ⟨_, rfl, onDone_nothing_new _ _ ?_ (by simp [TMon.tick, hop]), sync_afterDone ?_⟩
      · intro x hx
        show x.1 ∈ r.c :: r.m.completed
        rw [f2] at hx
        have hx' : x ∈ r.s.doneLog ++ [(r.c, r.s.now, false)] := hx
        rw [List.mem_append, List.mem_singleton] at hx'
        rcases hx' with hx' | rfl
        · exact List.mem_cons_of_mem _ (h.completed x hx')
        · simp
      · exact
          { model := hmodel
            dur_eq := h.dur_eq
            tr_eq := h.tr_eq
            now_eq := by show r.m.now = _; rw [f5]; exact h.now_eq
            line_eq := by show r.m.line + 1 + 1 = _; rw [h.line_eq, hlen]; omega
            calls := fun p hp => (hcalls p hp).2
            last_t := by
              show r.m.lastPerm.map (·.t) = (tstep cfg ch r.s (.next r.c)).last
              rw [h.last_t, hI.last_eq, hI'.last_eq, f1]
            last_lo := by
              intro P hP
              obtain ⟨j, hj, hlo, hl⟩ := hlastlo P hP
              exact ⟨j, hj, hlo, by show _ < (tstep cfg ch r.s (.next r.c)).grants.length; rw [f1]; exact hl⟩
            cancel_none := by intro hs'; rw [f4] at hs'; have : r.s.stop = false := hs'; rw [hst] at this; cases this
            cancel_some := by
              intro _
              exact ⟨cpos, ctime, hc1, by show cpos < r.m.line + 1 + 1; omega⟩
            opened := by show r.m.opened.map (·.id) = _; rw [f3]; exact h.opened
            opened_pos := by
              intro o ho
              show o.startPos < r.m.line + 1 + 1
              have := (h.opened_pos o ho).2; omega
            completed := by
              intro x hx
              show x.1 ∈ r.c :: r.m.completed
              rw [f2] at hx
              have hx' : x ∈ r.s.doneLog ++ [(r.c, r.s.now, false)] := hx
              rw [List.mem_append, List.mem_singleton] at hx'
              rcases hx' with hx' | rfl
              · exact List.mem_cons_of_mem _ (h.completed x hx')
              · simp
            nodup := by show (tstep cfg ch r.s (.next r.c)).blocked.Nodup; rw [f3]; exact h.nodup
            fresh_b := by
              intro id hid; rw [f3] at hid
              have := h.fresh_b id hid; show id < r.c + 1; omega
            fresh_g := by
              intro g hg'
              rw [f1] at hg'
              have := h.fresh_g g hg'; show g.id < r.c + 1; omega
            fresh_c := by
              intro id hid
              have hid' : id ∈ r.c :: r.m.completed := hid
              rw [List.mem_cons] at hid'
              show id < r.c + 1
              rcases hid' with rfl | hid'
              · omega
              · have := h.fresh_c id hid'; omega
            disj := by
              intro id hid
              rw [f3] at hid
              show id ∉ r.c :: r.m.completed
              rw [List.mem_cons]
              intro hcc
              rcases hcc with rfl | hcc
              · exact hcfresh hid
              · exact h.disj id hid hcc }
  · -- nothing waiting: the caller blocks
    have hwf : r.s.stop = false := by
      cases hsv : r.s.stop with
      | false => rfl
      | true => exact absurd (Or.inr hsv) hc
    have htn : tnext r.s r.c = { r.s with blocked := r.s.blocked ++ [r.c] } := by
      unfold tnext; rw [if_neg hc]
    rw [htn] at f1 f2 f3 f4
    have hres : nextRes (tstep cfg ch r.s (.next r.c)) r.c = none := by
      unfold nextRes
      rw [f3]
      have : (r.s.blocked ++ [r.c]).contains r.c = true := List.contains_iff_mem.mpr (by simp)
      show (if (r.s.blocked ++ [r.c]).contains r.c = true then none else _) = none
      rw [if_pos this]
    have hcan : r.m.cancel = none := h.cancel_none hwf
    rw [hres]
    have hon : r.m.onNext r.c none =
        (none, TMon.tick { r.m with opened := r.m.opened ++
          [{ id := r.c, startPos := r.m.line, startTime := r.m.now, lastBlocked := r.m.line }] }) := by
      unfold TMon.onNext
      simp [hcan]
    rw [hon]
    refine ⟨_, rfl, onDone_nothing_new _ _ ?_ (by simp [TMon.tick, hcan]), sync_afterDone ?_⟩
    · intro x hx
      rw [f2] at hx
      exact h.completed x hx
    · exact
        { model := hmodel
          dur_eq := h.dur_eq
          tr_eq := h.tr_eq
          now_eq := by show r.m.now = _; rw [f5]; exact h.now_eq
          line_eq := by show r.m.line + 1 + 1 = _; rw [h.line_eq, hlen]; omega
          calls := fun p hp => (hcalls p hp).2
          last_t := by
            show r.m.lastPerm.map (·.t) = (tstep cfg ch r.s (.next r.c)).last
            rw [h.last_t, hI.last_eq, hI'.last_eq, f1]
          last_lo := by
            intro P hP
            obtain ⟨j, hj, hlo, hl⟩ := hlastlo P hP
            exact ⟨j, hj, hlo, by show _ < (tstep cfg ch r.s (.next r.c)).grants.length; rw [f1]; exact hl⟩
          cancel_none := fun _ => hcan
          cancel_some := by intro hs'; rw [f4] at hs'; have : r.s.stop = true := hs'; rw [hwf] at this; cases this
          opened := by
            show (r.m.opened ++ [_]).map (fun o : TOpen => o.id) = _
            rw [f3, List.map_append, h.opened]; rfl
          opened_pos := by
            intro o ho
            have ho' : o ∈ r.m.opened ++ [_] := ho
            rw [List.mem_append, List.mem_singleton] at ho'
            show o.startPos < r.m.line + 1 + 1
            rcases ho' with ho' | rfl
            · have := (h.opened_pos o ho').2; omega
            · show r.m.line < _; omega
          completed := by
            intro x hx
            rw [f2] at hx
            exact h.completed x hx
          nodup := by
            show (tstep cfg ch r.s (.next r.c)).blocked.Nodup
            rw [f3]
            show (r.s.blocked ++ [r.c]).Nodup
            rw [List.nodup_append]
            refine ⟨h.nodup, by simp, ?_⟩
            intro a ha b hb
            simp only [List.mem_singleton] at hb
            subst hb
            intro heq; subst heq; exact hcfresh ha
          fresh_b := by
            intro id hid
            rw [f3] at hid
            have hid' : id ∈ r.s.blocked ++ [r.c] := hid
            rw [List.mem_append, List.mem_singleton] at hid'
            show id < r.c + 1
            rcases hid' with hid' | rfl
            · have := h.fresh_b id hid'; omega
            · omega
          fresh_g := by
            intro g hg'
            rw [f1] at hg'
            have := h.fresh_g g hg'; show g.id < r.c + 1; omega
          fresh_c := by
            intro id hid
            have := h.fresh_c id hid; show id < r.c + 1; omega
          disj := by
            intro id hid
            rw [f3] at hid
            have hid' : id ∈ r.s.blocked ++ [r.c] := hid
            rw [List.mem_append, List.mem_singleton] at hid'
            rcases hid' with hid' | rfl
            · exact h.disj id hid'
            · intro hcc; exact Nat.lt_irrefl _ (h.fresh_c _ hcc) }

/-- one operation line + `done` line: no clause is reported and monitor and model stay in step -/
theorem tmonStep_sync {cfg : TCfg} {ch : Choice} {hist : List TEv} {r : TRun} (h : TSync cfg ch hist r)
    (a : TAct) :
    (tmonStep cfg ch r a).1 = none ∧ TSync cfg ch (hist ++ [a.ev r.c]) (tmonStep cfg ch r a).2 := by
  have hI := trun_inv cfg ch hist
  rw [← h.model] at hI
  have hnow0 : r.s.now = tclock hist := by rw [h.model]; exact trun_now cfg ch hist
  cases a with
  | call =>
    have hcalls : ∀ p, (hist ++ [TEv.call])[p]? = some TEv.call →
        (2 * p, tclock ((hist ++ [TEv.call]).take p)) ∈ r.m.onCall.calls := by
      intro p hp
      have hpl : p < (hist ++ [TEv.call]).length := by
        rcases List.getElem?_eq_some_iff.mp hp with ⟨h', _⟩; exact h'
      show _ ∈ (r.m.line, r.m.now) :: r.m.calls
      by_cases hpn : p < hist.length
      · rw [get_snoc_lt _ _ hpn] at hp
        rw [take_snoc_le _ _ (by omega)]; exact List.mem_cons_of_mem _ (h.calls p hp)
      · have hpe : p = hist.length := by simp at hpl; omega
        rw [hpe, take_snoc_le _ _ (Nat.le_refl _), List.take_of_length_le (Nat.le_refl _), ← hnow0,
          ← h.now_eq, ← h.line_eq]
        exact List.mem_cons_self
    obtain ⟨m2, h1, h2⟩ := woke_step h .call (Or.inl rfl) r.m.onCall rfl rfl rfl rfl rfl rfl
      (by show r.m.line + 1 = _; rw [h.line_eq])
      (by
        show r.m.now = _
        rw [(tstep_frame ch .call hI).2.2, h.now_eq]; simp [TEv.dt])
      hcalls
    refine ⟨?_, ?_⟩
    · show firstSome none (r.m.onCall.onDone (tstep cfg ch r.s .call).doneLog).1 = none
      rw [h1]; rfl
    · show TSync cfg ch (hist ++ [TEv.call])
        { m := (r.m.onCall.onDone (tstep cfg ch r.s .call).doneLog).2, s := tstep cfg ch r.s .call, c := r.c }
      rw [h1]; exact h2
  | advance dt =>
    have hcalls : ∀ p, (hist ++ [TEv.advance dt])[p]? = some TEv.call →
        (2 * p, tclock ((hist ++ [TEv.advance dt]).take p)) ∈ (r.m.onSleep dt).calls := by
      intro p hp
      have hpl : p < (hist ++ [TEv.advance dt]).length := by
        rcases List.getElem?_eq_some_iff.mp hp with ⟨h', _⟩; exact h'
      show _ ∈ r.m.calls
      by_cases hpn : p < hist.length
      · rw [get_snoc_lt _ _ hpn] at hp
        rw [take_snoc_le _ _ (by omega)]; exact h.calls p hp
      · have hpe : p = hist.length := by simp at hpl; omega
        rw [hpe, List.getElem?_append_right (Nat.le_refl _)] at hp
        simp at hp
    obtain ⟨m2, h1, h2⟩ := woke_step h (.advance dt) (Or.inr ⟨dt, rfl⟩) (r.m.onSleep dt) rfl rfl rfl rfl rfl rfl
      (by show r.m.line + 1 = _; rw [h.line_eq])
      (by
        show r.m.now + (dt : Int) = _
        rw [(tstep_frame ch (.advance dt) hI).2.2, h.now_eq]; simp [TEv.dt])
      hcalls
    refine ⟨?_, ?_⟩
    · show firstSome none ((r.m.onSleep dt).onDone (tstep cfg ch r.s (.advance dt)).doneLog).1 = none
      rw [h1]; rfl
    · show TSync cfg ch (hist ++ [TEv.advance dt])
        { m := ((r.m.onSleep dt).onDone (tstep cfg ch r.s (.advance dt)).doneLog).2,
          s := tstep cfg ch r.s (.advance dt), c := r.c }
      rw [h1]; exact h2
  | cancel =>
    obtain ⟨m2, h1, h2⟩ := cancel_step h
    refine ⟨?_, ?_⟩
    · show firstSome none (r.m.onCancel.onDone (tstep cfg ch r.s .cancel).doneLog).1 = none
      rw [h1]; rfl
    · show TSync cfg ch (hist ++ [TEv.cancel])
        { m := (r.m.onCancel.onDone (tstep cfg ch r.s .cancel).doneLog).2, s := tstep cfg ch r.s .cancel, c := r.c }
      rw [h1]; exact h2
  | next =>
    obtain ⟨m2, h0, h1, h2⟩ := next_step h
    refine ⟨?_, ?_⟩
    · show firstSome (r.m.onNext r.c (nextRes (tstep cfg ch r.s (.next r.c)) r.c)).1
        ((r.m.onNext r.c (nextRes (tstep cfg ch r.s (.next r.c)) r.c)).2.onDone
          (tstep cfg ch r.s (.next r.c)).doneLog).1 = none
      rw [h0, h1]; rfl
    · show TSync cfg ch (hist ++ [TEv.next r.c])
        { m := ((r.m.onNext r.c (nextRes (tstep cfg ch r.s (.next r.c)) r.c)).2.onDone
            (tstep cfg ch r.s (.next r.c)).doneLog).2,
          s := tstep cfg ch r.s (.next r.c), c := r.c + 1 }
      rw [h1]; exact h2

theorem tsync_init (cfg : TCfg) (ch : Choice) :
    TSync cfg ch [] { m := { dur := cfg.dur, trailing := cfg.trailing }, s := {}, c := 0 } where
  model := rfl
  dur_eq := rfl
  tr_eq := rfl
  now_eq := rfl
  line_eq := rfl
  calls := by intro p hp; simp at hp
  last_t := rfl
  last_lo := by intro P hP; cases hP
  cancel_none := fun _ => rfl
  cancel_some := by intro hs; cases hs
  opened := rfl
  opened_pos := by intro o ho; cases ho
  completed := by intro x hx; cases hx
  nodup := List.nodup_nil
  fresh_b := by intro id hid; cases hid
  fresh_g := by intro g hg; cases hg
  fresh_c := by intro id hid; cases hid
  disj := by intro id hid; cases hid

theorem tmonRun_accepts (cfg : TCfg) (ch : Choice) : ∀ (acts : List TAct) (hist : List TEv) (r : TRun),
    TSync cfg ch hist r → tmonRun cfg ch acts r = none := by
  intro acts
  induction acts with
  | nil => intro hist r _; rfl
  | cons a rest ih =>
    intro hist r h
    obtain ⟨h1, h2⟩ := tmonStep_sync h a
    rcases hr : tmonStep cfg ch r a with ⟨c, r'⟩
    rw [hr] at h1 h2
    simp only at h1 h2
    subst h1
    simp only [tmonRun, hr]
    exact ih _ _ h2

/-- **The throttle monitor accepts the model**: for every duration, trailing on/off, every choice
function (any number of `Next` callers may be blocked at the same time) and every sequence of
operations — each operation line followed by a `done` line, as in every generated case — `TMon`, fed
the operations and shown the model's answers (`blocked`/`T`/`F` on `next` lines, the model's
completion log on `done` lines), reports none of its clauses. -/
theorem tmon_accepts_model (cfg : TCfg) (ch : Choice) (acts : List TAct) :
    tmonRun cfg ch acts { m := { dur := cfg.dur, trailing := cfg.trailing }, s := {}, c := 0 } = none :=
  tmonRun_accepts cfg ch acts [] _ (tsync_init cfg ch)

example : tmonRun ⟨50, true⟩ (fun _ _ => 1)
    [.next, .next, .call, .advance 1, .call, .advance 49, .next, .cancel, .next]
    { m := { dur := 50, trailing := true }, s := {}, c := 0 } = none := by decide


/-! ## The delay monitor accepts the model's log in the order the driver renders it

The driver sorts the model's executions by (time, id) (`Kinds.C20.sortFires`).  Every check of
`LMon.onFired` depends on the log only through membership and distinctness of ids, so the monitor
accepts every permutation of the model's log — in particular the sorted one. -/

theorem lonFired_accepts_perm {hist m s} (h : LSync hist m s) (log' : List (Int × Nat × Int))
    (hperm : log'.Perm (llog s)) : m.onFired log' = none := by
  have hI := lrun_invh hist
  rw [← h.model] at hI
  unfold LMon.onFired
  split
  · rename_i hc
    exfalso
    have hpw : log'.Pairwise (fun a b => a.2.1 ≠ b.2.1) :=
      (List.Perm.pairwise_iff (fun hab => Ne.symm hab) hperm).mpr (by rw [h.model]; exact llog_ids_distinct hist)
    rw [nodup_of_pairwise _ hpw] at hc
    simp at hc
  · split
    · rename_i hc
      exfalso
      have : (m.seen.all fun o => log'.contains o) = true := by
        rw [List.all_eq_true]; intro x hx; exact List.contains_iff_mem.mpr (hperm.mem_iff.mpr (h.seen x hx))
      rw [this] at hc; simp at hc
    · dsimp only
      split
      · rename_i val hbad
        exfalso
        have hmem := hperm.mem_iff.mp (List.mem_of_find?_eq_some hbad)
        have hp := List.find?_some hbad
        obtain ⟨f, id, tc⟩ := val
        simp only [llog, List.mem_map] at hmem
        obtain ⟨fr, hfr, hfe⟩ := hmem
        simp only [Prod.mk.injEq] at hfe
        obtain ⟨rfl, rfl, rfl⟩ := hfe
        have hF := hI.fired fr hfr
        dsimp only at hp
        split at hp
        · rename_i hnone
          have hlt : fr.id < m.timers.length := by
            rw [h.len, hF.id_eq]; exact cnt_take_lt_total hist fr.idx fr.d hF.isDelay
          have hget := List.getElem?_eq_getElem hlt
          have := (List.find?_eq_none.mp hnone) _ (List.mem_of_getElem? hget)
          exact this (by simp [(h.tim _ _ hget).id_eq])
        · rename_i t hsome
          have htm := List.mem_of_find?_eq_some hsome
          have htid := List.find?_some hsome
          simp only [beq_iff_eq] at htid
          obtain ⟨j, hj⟩ := List.getElem?_of_mem htm
          have hT := h.tim j t hj
          obtain ⟨i, hi, hcn, htc, _, hs⟩ := hT.pos
          have hij : i = fr.idx :=
            cnt_take_inj hist i fr.idx t.d fr.d hi hF.isDelay (by rw [hcn, ← hF.id_eq, ← htid, hT.id_eq])
          subst hij
          have hd : t.d = fr.d := by
            have := hF.isDelay; rw [hi] at this
            simp only [Option.some.injEq, LEv.delay.injEq] at this; exact this
          have htc' : t.tc = fr.tc := by rw [← htc, hF.callTime]
          have hex := hF.exact
          have hle := hF.le_now
          have h1 : fr.tc + fr.d ≤ fr.f := by omega
          rw [h.now_eq, ← hI.now_eq] at hp
          cases hst : t.stopped with
          | none =>
            rw [hst] at hp
            simp [htc', hd, hle, h1] at hp
          | some sv =>
            obtain ⟨⟨k, hk, hxk, hsvk⟩, _⟩ := hs sv hst
            have h2 : fr.f ≤ sv := by
              have := hF.nostop k hk (by rw [hF.id_eq, hcn]; exact hxk)
              omega
            rw [hst] at hp
            simp [htc', hd, hle, h1, h2] at hp
      · split
        · rename_i val hmiss
          exfalso
          have htm := List.mem_of_find?_eq_some hmiss
          have hp := List.find?_some hmiss
          obtain ⟨j, hj⟩ := List.getElem?_of_mem htm
          have hT := h.tim j val hj
          obtain ⟨i, hi, hcn, htc, hn, hs⟩ := hT.pos
          simp only [Bool.and_eq_true, decide_eq_true_eq, Bool.not_eq_true'] at hp
          obtain ⟨⟨hdl, hst⟩, hnot⟩ := hp
          rw [h.now_eq] at hdl
          have hcomp := delay_completeness hist i val.d hi (by
            intro k hk hxk
            rw [hcn] at hxk
            cases hsv : val.stopped with
            | none => exact absurd hxk (hn hsv k hk)
            | some sv =>
              rw [hsv] at hst
              simp only [decide_eq_true_eq] at hst
              have := (hs sv hsv).2 k hk hxk
              rw [htc]; omega) (by rw [htc]; exact hdl)
          obtain ⟨fr, hfr, hfi, _⟩ := hcomp.2
          rw [← h.model] at hfr
          have hF := hI.fired fr hfr
          have : (log'.any fun o => o.2.1 == val.id) = true := by
            rw [List.any_eq_true]
            refine ⟨(fr.f, fr.id, fr.tc), hperm.mem_iff.mpr (by simp only [llog, List.mem_map]; exact ⟨fr, hfr, rfl⟩), ?_⟩
            simp only [beq_iff_eq]
            rw [hF.id_eq, hfi, hcn, hT.id_eq]
          rw [this] at hnot
          cases hnot
        · rfl


theorem insertFire_perm (x : LFire) : ∀ l : List LFire, (Kinds.C20.insertFire x l).Perm (x :: l) := by
  intro l
  induction l with
  | nil => exact List.Perm.refl _
  | cons y r ih =>
    unfold Kinds.C20.insertFire
    split
    · exact List.Perm.refl _
    · exact ((List.Perm.cons y ih).trans (List.Perm.swap x y r))

theorem sortFires_perm (l : List LFire) : (Kinds.C20.sortFires l).Perm l := by
  have : ∀ (l acc : List LFire), (l.foldl (fun acc x => Kinds.C20.insertFire x acc) acc).Perm (l.reverse ++ acc) := by
    intro l
    induction l with
    | nil => intro acc; exact List.Perm.refl _
    | cons x r ih =>
      intro acc
      rw [List.foldl_cons, List.reverse_cons, List.append_assoc]
      exact (ih _).trans (List.Perm.append_left _ (insertFire_perm x acc))
  have h := this l []
  rw [List.append_nil] at h
  exact h.trans (List.reverse_perm l)

/-- the model's log as the driver renders it: sorted by (time, id) -/
def llogSorted (s : LState) : List (Int × Nat × Int) :=
  (Kinds.C20.sortFires s.fired).map fun fr => (fr.f, fr.id, fr.tc)

theorem llogSorted_perm (s : LState) : (llogSorted s).Perm (llog s) :=
  (sortFires_perm s.fired).map _

/-- monitor and model side by side, the monitor being shown the *sorted* log -/
def lmonRunSorted : List (LEv × Bool) → LMon → LState → Option String
  | [], _, _ => none
  | (e, o) :: r, m, s =>
    if o then
      match (lmonPush m e).onFired (llogSorted (lstep s e)) with
      | some c => some c
      | none => lmonRunSorted r ((lmonPush m e).observe (llogSorted (lstep s e))) (lstep s e)
    else lmonRunSorted r (lmonPush m e) (lstep s e)

theorem lmonRunSorted_accepts : ∀ (tr : List (LEv × Bool)) (hist : List LEv) (m : LMon) (s : LState),
    LSync hist m s → lmonRunSorted tr m s = none := by
  intro tr
  induction tr with
  | nil => intro hist m s _; rfl
  | cons x r ih =>
    intro hist m s h
    obtain ⟨e, o⟩ := x
    have hp := lsync_push e h
    cases o with
    | false =>
      simp only [lmonRunSorted, Bool.false_eq_true, if_false]
      exact ih _ _ _ hp
    | true =>
      simp only [lmonRunSorted, if_true, lonFired_accepts_perm hp _ (llogSorted_perm _)]
      exact ih _ _ _
        { model := hp.model, now_eq := hp.now_eq, len := hp.len, tim := hp.tim
          seen := fun x hx => (llogSorted_perm _).mem_iff.mp hx }

/-- **The delay monitor accepts the model's log as the driver renders it** (sorted by time and id). -/
theorem lmon_accepts_model_sorted (tr : List (LEv × Bool)) : lmonRunSorted tr {} {} = none :=
  lmonRunSorted_accepts tr [] _ _ lsync_init


/-! ## The driver's call-number ↔ position translation for the debounce kind

The harness reports executions by call number; `Kinds.C20.debounceKind` keeps the positions of the
calls (`callPos`), renders the model's log with `noOfPos` and translates the implementation's log
back with `callPos[k]?`.  The two are inverse on recorded call positions, so the monitor is shown
exactly the log of `dmon_accepts_model`. -/

theorem findIdx_roundtrip (idx : Nat) : ∀ (l : List Nat), idx ∈ l →
    ∃ k, l.findIdx? (· == idx) = some k ∧ l[k]? = some idx := by
  intro l
  induction l with
  | nil => intro h; cases h
  | cons a r ih =>
    intro h
    rw [List.findIdx?_cons]
    by_cases ha : (a == idx) = true
    · rw [if_pos ha]
      simp only [beq_iff_eq] at ha
      exact ⟨0, rfl, by simp [ha]⟩
    · rw [if_neg ha]
      have hr : idx ∈ r := by
        rcases List.mem_cons.mp h with h' | h'
        · simp [h'] at ha
        · exact h'
      obtain ⟨k, hk1, hk2⟩ := ih hr
      exact ⟨k + 1, by simp [hk1], by simp [hk2]⟩

/-- rendering a recorded call position as a call number and translating it back gives the position -/
theorem noOfPos_roundtrip (st : Kinds.C20.DSt) (f tc : Int) (idx : Nat) (h : idx ∈ st.callPos.toList) :
    (if st.noOfPos idx < 0 then none
      else (st.callPos[(st.noOfPos idx).toNat]?).map fun p => (f, p, tc)) = some (f, idx, tc) := by
  obtain ⟨k, hk1, hk2⟩ := findIdx_roundtrip idx st.callPos.toList h
  have hno : st.noOfPos idx = (k : Int) := by
    unfold Kinds.C20.DSt.noOfPos
    rw [hk1]
  rw [hno, if_neg (by omega)]
  have : st.callPos[((k : Int)).toNat]? = some idx := by
    rw [Int.toNat_natCast, ← Array.getElem?_toList]; exact hk2
  rw [this]; rfl

end GoguVerif.Theorems.C20
