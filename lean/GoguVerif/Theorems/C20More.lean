import GoguVerif.Theorems.C20
import GoguVerif.Lemmas.C20T3
/-!
# C20 — the throttle: the POSITIVE directions

`Theorems/C20.lean` says what a throttle never does (two permissions in a period, a permission after
`Cancel`, a permission for a trigger inside the period when not trailing).  This file states what it
DOES, for every reachable state `trun cfg ch evs`, every period `cfg.dur`, every choice function:

* `trailing_trigger_kept`, `trailing_trigger_kept_eventually` — a trailing throttle keeps a trigger that
  arrives inside the period: the timer is armed for the end of the period and yields one permission there;
* `trigger_after_period_granted` — a trigger after the period (or the very first one) is a permission at once;
* `next_takes_waiting_permission` — `Next` takes a waiting permission at once;
* `not_trailing_trigger_in_period_lost_forever` — without trailing a trigger inside the period has no
  effect on any later state (but the ghost log and the event counter).
-/
namespace GoguVerif.Theorems.C20More
open GoguVerif.Spec.C20 GoguVerif.Model.C20 GoguVerif.Lemmas.C20T GoguVerif.Lemmas.C20T2
  GoguVerif.Lemmas.C20T3 GoguVerif.Theorems.C20

/-! ## wake-ups, exactly -/

theorem pickFrom_mem : ∀ (c b : Nat) (bs : List Nat), (pickFrom c b bs).1 ∈ b :: bs := by
  intro c
  induction c with
  | zero => intro b bs; simp [pickFrom]
  | succ c ih =>
    intro b bs
    cases bs with
    | nil => simp [pickFrom]
    | cons b' bs =>
      simp only [pickFrom]
      exact List.mem_cons_of_mem _ (ih b' bs)

/-- `waiting = true` + broadcast: with nobody blocked the permission waits; otherwise one blocked caller
takes it at the current instant and the others stay blocked -/
theorem wake_outcome (ch : Choice) (s : TState) (w : Int × Nat) :
    (s.blocked = [] ∧ wake ch s w = { s with waiting := true, wsrc := w }) ∨
    (∃ id rest, id ∈ s.blocked ∧ rest.length + 1 = s.blocked.length ∧
      wake ch s w = { s with waiting := false, wsrc := w, blocked := rest, last := some s.now,
                             grants := s.grants ++ [{ t := s.now, id := id, ctime := w.1, cepoch := w.2, prevT := s.last }],
                             doneLog := s.doneLog ++ [(id, s.now, true)] }) := by
  unfold wake
  cases hb : s.blocked with
  | nil => exact Or.inl ⟨rfl, rfl⟩
  | cons b bs =>
    refine Or.inr ⟨(pickFrom (ch s.n (b :: bs)) b bs).1, (pickFrom (ch s.n (b :: bs)) b bs).2,
      pickFrom_mem _ b bs, by rw [pickFrom_length]; rfl, ?_⟩
    rfl

/-- letting no time pass in a state without a pending timer -/
theorem advanceTo_none (ch : Choice) (s : TState) (t : Int) (h : s.scheduled = none) :
    advanceTo ch s t = { s with now := t } := by
  unfold advanceTo; rw [h]

/-! ## 2. A trigger after the period is a permission at once -/

/-- `Call` strictly after the period (or before any permission): no timer can be pending, and the call is
a wake-up caused by itself -/
theorem tcall_after_period {cfg : TCfg} {s : TState} (ch : Choice) (h : TInv cfg s)
    (hstop : s.stop = false) (hw : s.waiting = false)
    (hafter : s.last = none ∨ ∃ l, s.last = some l ∧ s.now - l > cfg.dur) :
    s.scheduled = none ∧ tcall cfg ch s = wake ch (logCall s) (s.now, s.grants.length) := by
  have hsc : s.scheduled = none := by
    cases hsv : s.scheduled with
    | none => rfl
    | some sc =>
      obtain ⟨_, _, h3, h4, _⟩ := h.sched sc hsv
      rcases hafter with h0 | ⟨l, h0, h1⟩
      · rw [h0] at h4; cases h4
      · rw [h0] at h4
        simp only [Option.some.injEq] at h4
        omega
  refine ⟨hsc, ?_⟩
  unfold tcall
  dsimp only
  have hc : (logCall s).waiting = false ∧ (logCall s).stop = false := ⟨hw, hstop⟩
  rw [if_pos hc]
  rcases hafter with h0 | ⟨l, h0, h1⟩
  · have : (logCall s).last = none := h0
    rw [this]; rfl
  · have : (logCall s).last = some l := h0
    rw [this]
    dsimp only
    have hd : (logCall s).now - l > cfg.dur := h1
    rw [if_pos hd]; rfl

/-- the step made of a wake-up (caused by `w`) with no timer pending and no time passing -/
theorem wake_step_fields (ch : Choice) (s r : TState) (w : Int × Nat) (k : Nat) (t : Int)
    (hr : r = { wake ch s w with now := t, n := k }) :
    r.now = t ∧ r.stop = s.stop ∧ r.scheduled = s.scheduled ∧ r.falses = s.falses ∧ r.calls = s.calls ∧
    ((s.blocked = [] ∧ r.waiting = true ∧ r.wsrc = w ∧ r.grants = s.grants ∧ r.last = s.last ∧
        r.blocked = [] ∧ r.doneLog = s.doneLog) ∨
     (∃ id, id ∈ s.blocked ∧ r.waiting = false ∧
        r.grants = s.grants ++ [{ t := s.now, id := id, ctime := w.1, cepoch := w.2, prevT := s.last }] ∧
        r.last = some s.now ∧ r.doneLog = s.doneLog ++ [(id, s.now, true)] ∧
        r.blocked.length + 1 = s.blocked.length)) := by
  subst hr
  rcases wake_outcome ch s w with ⟨hb, he⟩ | ⟨id, rest, hid, hlen, he⟩
  · rw [he]
    exact ⟨rfl, rfl, rfl, rfl, rfl, Or.inl ⟨hb, rfl, rfl, rfl, rfl, hb, rfl⟩⟩
  · rw [he]
    exact ⟨rfl, rfl, rfl, rfl, rfl, Or.inr ⟨id, hid, rfl, rfl, rfl, rfl, hlen⟩⟩

/-- **Completeness for direct triggers** (both trailing settings).  In a reachable state that is not
stopped and has no permission waiting, a `Call` arriving strictly after the period
(`now - last > duration`), or before any permission was handed out, makes a permission available at
once: with nobody blocked in `Next` the permission waits (`waiting = true`, caused by this very call);
otherwise one blocked caller returns `true` at this very instant — a new last grant stamped `s.now`,
answering this call — and the others stay blocked.  No timer is pending afterwards, nobody is refused. -/
theorem trigger_after_period_granted (cfg : TCfg) (ch : Choice) (evs : List TEv) (s s' : TState)
    (hs : s = trun cfg ch evs) (hs' : s' = trun cfg ch (evs ++ [.call]))
    (hstop : s.stop = false) (hw : s.waiting = false)
    (hafter : s.last = none ∨ ∃ l, s.last = some l ∧ s.now - l > cfg.dur) :
    s'.now = s.now ∧ s'.stop = false ∧ s'.scheduled = none ∧ s'.falses = s.falses ∧
    s'.calls = s.calls ++ [(s.now, s.grants.length)] ∧
    ((s.blocked = [] ∧ s'.waiting = true ∧ s'.wsrc = (s.now, s.grants.length) ∧ s'.grants = s.grants ∧
        s'.last = s.last ∧ s'.blocked = [] ∧ s'.doneLog = s.doneLog) ∨
     (∃ id, id ∈ s.blocked ∧ s'.waiting = false ∧
        s'.grants = s.grants ++ [{ t := s.now, id := id, ctime := s.now, cepoch := s.grants.length, prevT := s.last }] ∧
        s'.last = some s.now ∧ s'.doneLog = s.doneLog ++ [(id, s.now, true)] ∧
        s'.blocked.length + 1 = s.blocked.length)) := by
  have h : TInv cfg s := by rw [hs]; exact trun_inv cfg ch evs
  rw [trun_snoc, ← hs] at hs'
  obtain ⟨hsc, hcall⟩ := tcall_after_period ch h hstop hw hafter
  have hwsc : (wake ch (logCall s) (s.now, s.grants.length)).scheduled = none :=
    (wake_frame ch (logCall s) (s.now, s.grants.length)).2.2.2.trans hsc
  have hnow : (wake ch (logCall s) (s.now, s.grants.length)).now = s.now :=
    (wake_frame ch (logCall s) (s.now, s.grants.length)).2.2.1
  have he : s' = { wake ch (logCall s) (s.now, s.grants.length) with
      now := s.now, n := (wake ch (logCall s) (s.now, s.grants.length)).n + 1 } := by
    rw [hs', tstep_eq]
    show ({ advanceTo ch (tcall cfg ch s) ((tcall cfg ch s).now + ((0 : Nat) : Int)) with
      n := (advanceTo ch (tcall cfg ch s) ((tcall cfg ch s).now + ((0 : Nat) : Int))).n + 1 } : TState) = _
    rw [hcall, advanceTo_none ch _ _ hwsc, hnow]
    simp
  obtain ⟨h1, h2, h3, h4, h5, h6⟩ := wake_step_fields ch (logCall s) s' _ _ _ he
  exact ⟨h1, h2.trans hstop, h3.trans hsc, h4, h5, h6⟩

example :
    let s := trun ⟨40, false⟩ (fun _ _ => 0) [.call, .next 0, .advance 41]
    s.stop = false ∧ s.waiting = false ∧ (∃ l, s.last = some l ∧ s.now - l > (40 : Nat)) ∧ s.blocked = [] ∧
    (trun ⟨40, false⟩ (fun _ _ => 0) [.call, .next 0, .advance 41, .call]).waiting = true := by
  refine ⟨by decide, by decide, ⟨0, by decide, by decide⟩, by decide, by decide⟩

/-! ## 3. `Next` takes a waiting permission at once -/

/-- **`Next` returns `true` immediately when a permission is waiting.**  In a reachable state that is not
stopped and has `waiting = true`, `Next` (caller `id`) does not block: a grant for `id` stamped `s.now`
(answering the trigger that set `waiting`, which is in the trigger log and belongs to the current epoch)
is appended, the completion log records `(id, now, true)`, `waiting` becomes false and `last` is the
current instant.  Nobody is blocked, nobody is refused, no time passes. -/
theorem next_takes_waiting_permission (cfg : TCfg) (ch : Choice) (evs : List TEv) (id : Nat)
    (s s' : TState) (hs : s = trun cfg ch evs) (hs' : s' = trun cfg ch (evs ++ [.next id]))
    (hstop : s.stop = false) (hw : s.waiting = true) :
    s'.grants = s.grants ++ [{ t := s.now, id := id, ctime := s.wsrc.1, cepoch := s.wsrc.2, prevT := s.last }] ∧
    s'.doneLog = s.doneLog ++ [(id, s.now, true)] ∧
    s'.waiting = false ∧ s'.last = some s.now ∧ s'.now = s.now ∧ s'.stop = false ∧
    s'.blocked = [] ∧ s'.falses = s.falses ∧ s'.scheduled = none ∧
    s.wsrc ∈ s.calls ∧ s.wsrc.2 = s.grants.length := by
  have h : TInv cfg s := by rw [hs]; exact trun_inv cfg ch evs
  rw [trun_snoc, ← hs] at hs'
  have hsc : s.scheduled = none := by
    cases hsv : s.scheduled with
    | none => rfl
    | some sc => have := (h.sched sc hsv).2.1; rw [hw] at this; cases this
  have hb : s.blocked = [] := h.bw hw hstop
  obtain ⟨w1, w2, _, _⟩ := h.wait hw hstop
  have hn : tnext s id = grantTo s id := by
    unfold tnext
    rw [if_pos (Or.inl hw), if_pos hstop]
  have he : s' = { grantTo s id with now := s.now, n := s.n + 1 } := by
    rw [hs', tstep_eq]
    show ({ advanceTo ch (tnext s id) ((tnext s id).now + ((0 : Nat) : Int)) with
      n := (advanceTo ch (tnext s id) ((tnext s id).now + ((0 : Nat) : Int))).n + 1 } : TState) = _
    rw [hn, advanceTo_none ch _ _ (show (grantTo s id).scheduled = none from hsc)]
    simp [grantTo]
  subst he
  exact ⟨rfl, rfl, rfl, rfl, rfl, hstop, hb, rfl, hsc, w2, w1⟩

example :
    (trun ⟨40, true⟩ (fun _ _ => 0) [.call]).stop = false ∧
    (trun ⟨40, true⟩ (fun _ _ => 0) [.call]).waiting = true ∧
    ((trun ⟨40, true⟩ (fun _ _ => 0) [.call, .next 7]).grants.map fun g => (g.t, g.id)) = [(0, 7)] := by
  decide

/-! ## 1. A trailing throttle keeps the trigger that arrives inside the period -/

/-- `Call` inside the period of a trailing throttle with no timer pending: the timer is armed for the
end of the period; nothing else changes (but the ghost log) -/
theorem tcall_in_period_trailing {cfg : TCfg} {s : TState} (ch : Choice) (l : Int)
    (htr : cfg.trailing = true) (hstop : s.stop = false) (hw : s.waiting = false)
    (hsc : s.scheduled = none) (hlast : s.last = some l) (hin : s.now - l ≤ cfg.dur) :
    tcall cfg ch s =
      { logCall s with scheduled := some { deadline := l + cfg.dur, ctime := s.now, cepoch := s.grants.length } } := by
  unfold tcall
  dsimp only
  have hc : (logCall s).waiting = false ∧ (logCall s).stop = false := ⟨hw, hstop⟩
  rw [if_pos hc]
  have : (logCall s).last = some l := hlast
  rw [this]
  dsimp only
  have hd : ¬ ((logCall s).now - l > cfg.dur) := by show ¬ (s.now - l > cfg.dur); omega
  have ht : cfg.trailing = true ∧ (logCall s).scheduled = none := ⟨htr, hsc⟩
  rw [if_neg hd, if_pos ht]
  have : (logCall s).now + ((cfg.dur : Int) - ((logCall s).now - l)) = l + cfg.dur := by omega
  rw [this]
  rfl

/-- time reaches the deadline of the pending timer in a state that is not stopped: the callback runs AT
the deadline (a wake-up caused by the trigger that armed the timer), then the clock moves on -/
theorem advanceTo_fires (ch : Choice) (q : TState) (sc : Sched) (t : Int)
    (hsc : q.scheduled = some sc) (hstop : q.stop = false) (hle : q.now ≤ sc.deadline)
    (ht : sc.deadline ≤ t) :
    advanceTo ch q t =
      { wake ch { q with now := sc.deadline, scheduled := none } (sc.ctime, sc.cepoch) with now := t } := by
  unfold advanceTo
  rw [hsc]
  dsimp only
  rw [if_pos ht, Int.max_eq_right hle]
  unfold fire
  dsimp only
  rw [if_neg (by rw [hstop]; simp)]

/-- the whole `Call` step inside the period (strictly before its end): the timer is armed, the trigger
logged, the event counted — nothing else -/
theorem tstep_call_armed {cfg : TCfg} {s : TState} (ch : Choice) (l : Int)
    (htr : cfg.trailing = true) (hstop : s.stop = false) (hw : s.waiting = false)
    (hsc : s.scheduled = none) (hlast : s.last = some l) (hlt : s.now < l + cfg.dur) :
    tstep cfg ch s .call =
      { logCall s with
          scheduled := some { deadline := l + cfg.dur, ctime := s.now, cepoch := s.grants.length },
          n := s.n + 1 } := by
  have hcall := tcall_in_period_trailing ch l htr hstop hw hsc hlast (by omega)
  rw [tstep_eq]
  show ({ advanceTo ch (tcall cfg ch s) ((tcall cfg ch s).now + ((0 : Nat) : Int)) with
    n := (advanceTo ch (tcall cfg ch s) ((tcall cfg ch s).now + ((0 : Nat) : Int))).n + 1 } : TState) = _
  rw [hcall, advanceTo_noop ch _ _ (by
    intro sc h'
    simp only [Option.some.injEq] at h'
    subst h'
    show s.now + ((0 : Nat) : Int) < l + cfg.dur
    omega)]
  simp [logCall]

/-- the whole `Call` step exactly at the end of the period: the timer armed by the call is due at once and
its callback runs within the step — a wake-up caused by this call -/
theorem tstep_call_at_end {cfg : TCfg} {s : TState} (ch : Choice) (l : Int)
    (htr : cfg.trailing = true) (hstop : s.stop = false) (hw : s.waiting = false)
    (hsc : s.scheduled = none) (hlast : s.last = some l) (hnow : s.now = l + cfg.dur) :
    tstep cfg ch s .call =
      { wake ch { logCall s with now := l + cfg.dur, scheduled := none } (s.now, s.grants.length) with
          now := s.now,
          n := (wake ch { logCall s with now := l + cfg.dur, scheduled := none } (s.now, s.grants.length)).n + 1 } := by
  have hcall := tcall_in_period_trailing ch l htr hstop hw hsc hlast (by omega)
  rw [tstep_eq]
  show ({ advanceTo ch (tcall cfg ch s) ((tcall cfg ch s).now + ((0 : Nat) : Int)) with
    n := (advanceTo ch (tcall cfg ch s) ((tcall cfg ch s).now + ((0 : Nat) : Int))).n + 1 } : TState) = _
  rw [hcall, advanceTo_fires ch
    { logCall s with scheduled := some { deadline := l + cfg.dur, ctime := s.now, cepoch := s.grants.length } }
    { deadline := l + cfg.dur, ctime := s.now, cepoch := s.grants.length } _
    rfl hstop (by show s.now ≤ l + cfg.dur; omega) (by show l + cfg.dur ≤ s.now + ((0 : Nat) : Int); omega)]
  simp [logCall]

/-- **A trailing throttle keeps the trigger that arrives inside the period, and it yields exactly one
permission at the end of the period.**  Reachable state `s`: not stopped, no permission waiting, no timer
pending, last permission at `l`, and `now - l ≤ duration`.  Then

* `Call` arms the trailing timer with deadline exactly `l + duration` (recording this call as its cause);
  when the period has not yet ended (`now < l + duration`) that — and the ghost log — is ALL the step does;
* once time has moved to or past the deadline (`advance dt`, `now + dt ≥ l + duration`), the timer has run
  AT the deadline: with nobody blocked in `Next` a permission waits (`waiting = true`, caused by that
  call, no new grant yet); otherwise exactly one blocked caller has returned `true` with a grant stamped
  `l + duration` answering that call, and the others stay blocked.  The timer is gone, nobody was refused. -/
theorem trailing_trigger_kept (cfg : TCfg) (ch : Choice) (evs : List TEv) (l : Int) (dt : Nat)
    (s s1 s2 : TState) (hs : s = trun cfg ch evs) (hs1 : s1 = trun cfg ch (evs ++ [.call]))
    (hs2 : s2 = trun cfg ch (evs ++ [.call, .advance dt]))
    (htr : cfg.trailing = true) (hstop : s.stop = false) (hw : s.waiting = false)
    (hsc : s.scheduled = none) (hlast : s.last = some l) (hin : s.now - l ≤ cfg.dur)
    (hdt : s.now + dt ≥ l + cfg.dur) :
    (tcall cfg ch s).scheduled = some { deadline := l + cfg.dur, ctime := s.now, cepoch := s.grants.length } ∧
    (s.now < l + cfg.dur →
      s1 = { logCall s with
              scheduled := some { deadline := l + cfg.dur, ctime := s.now, cepoch := s.grants.length },
              n := s.n + 1 }) ∧
    s2.now = s.now + dt ∧ s2.stop = false ∧ s2.scheduled = none ∧ s2.falses = s.falses ∧
    s2.calls = s.calls ++ [(s.now, s.grants.length)] ∧
    ((s.blocked = [] ∧ s2.waiting = true ∧ s2.wsrc = (s.now, s.grants.length) ∧ s2.grants = s.grants ∧
        s2.last = some l ∧ s2.blocked = [] ∧ s2.doneLog = s.doneLog) ∨
     (∃ id, id ∈ s.blocked ∧ s2.waiting = false ∧
        s2.grants = s.grants ++ [{ t := l + cfg.dur, id := id, ctime := s.now, cepoch := s.grants.length, prevT := some l }] ∧
        s2.last = some (l + cfg.dur) ∧ s2.doneLog = s.doneLog ++ [(id, l + cfg.dur, true)] ∧
        s2.blocked.length + 1 = s.blocked.length)) := by
  have hcall := tcall_in_period_trailing ch l htr hstop hw hsc hlast hin
  have h12 : s2 = tstep cfg ch s1 (.advance dt) := by
    rw [hs2, hs1, ← trun_snoc, List.append_assoc]; rfl
  rw [trun_snoc, ← hs] at hs1
  -- the state on which the callback runs, and the shape of both outcomes
  let q : TState := { logCall s with now := l + cfg.dur, scheduled := none }
  have hfin : ∀ (k : Nat) (k' : Nat), s2 = { wake ch { q with n := k' } (s.now, s.grants.length) with now := s.now + dt, n := k } →
      s2.now = s.now + dt ∧ s2.stop = false ∧ s2.scheduled = none ∧ s2.falses = s.falses ∧
      s2.calls = s.calls ++ [(s.now, s.grants.length)] ∧
      ((s.blocked = [] ∧ s2.waiting = true ∧ s2.wsrc = (s.now, s.grants.length) ∧ s2.grants = s.grants ∧
          s2.last = some l ∧ s2.blocked = [] ∧ s2.doneLog = s.doneLog) ∨
       (∃ id, id ∈ s.blocked ∧ s2.waiting = false ∧
          s2.grants = s.grants ++ [{ t := l + cfg.dur, id := id, ctime := s.now, cepoch := s.grants.length, prevT := some l }] ∧
          s2.last = some (l + cfg.dur) ∧ s2.doneLog = s.doneLog ++ [(id, l + cfg.dur, true)] ∧
          s2.blocked.length + 1 = s.blocked.length)) := by
    intro k k' he
    obtain ⟨h1, h2, h3, h4, h5, h6⟩ := wake_step_fields ch { q with n := k' } s2 _ _ _ he
    refine ⟨h1, h2.trans hstop, h3, h4, h5, ?_⟩
    rcases h6 with ⟨a, b, c, d, e, f, g⟩ | ⟨id, a, b, c, d, e, f⟩
    · exact Or.inl ⟨a, b, c, d, e.trans hlast, f, g⟩
    · refine Or.inr ⟨id, a, b, ?_, d, e, f⟩
      rw [c]
      show s.grants ++ [{ t := l + cfg.dur, id := id, ctime := s.now, cepoch := s.grants.length, prevT := s.last }] = _
      rw [hlast]
  refine ⟨by rw [hcall], ?_, ?_⟩
  · intro hlt
    rw [hs1]
    exact tstep_call_armed ch l htr hstop hw hsc hlast hlt
  · by_cases hlt : s.now < l + cfg.dur
    · -- the timer is pending after the call and runs during the advance
      have e1 := tstep_call_armed ch l htr hstop hw hsc hlast hlt
      rw [← hs1] at e1
      apply hfin _ (s.n + 1)
      rw [h12, tstep_eq]
      show ({ advanceTo ch s1 (s1.now + (dt : Int)) with n := (advanceTo ch s1 (s1.now + (dt : Int))).n + 1 } : TState) = _
      rw [advanceTo_fires ch s1 { deadline := l + cfg.dur, ctime := s.now, cepoch := s.grants.length } _
        (by rw [e1]) (by rw [e1]; exact hstop) (by rw [e1]; show s.now ≤ l + cfg.dur; omega)
        (by rw [e1]; show l + cfg.dur ≤ s.now + dt; omega)]
      rw [e1]
      rfl
    · -- the call arrives exactly at the end of the period: the timer runs at once
      have hnow : s.now = l + cfg.dur := by omega
      have e1 := tstep_call_at_end ch l htr hstop hw hsc hlast hnow
      rw [← hs1] at e1
      have hsc1 : s1.scheduled = none := by
        rw [e1]
        exact (wake_frame ch { logCall s with now := l + cfg.dur, scheduled := none } (s.now, s.grants.length)).2.2.2
      apply hfin _ s.n
      rw [h12, tstep_eq]
      show ({ advanceTo ch s1 (s1.now + (dt : Int)) with n := (advanceTo ch s1 (s1.now + (dt : Int))).n + 1 } : TState) = _
      rw [advanceTo_none ch _ _ hsc1]
      have hn1 : s1.now = s.now := by rw [e1]
      rw [hn1]
      rw [e1]
      rfl

/-! Non-vacuity: the script of the property (period 40; permission at 0, trigger at 3): the timer is armed
for 40 and at 40 a permission waits; with a caller blocked in `Next` it is that caller's grant, stamped 40;
a trigger exactly at the end of the period (40) is a permission at once. -/
example :
    let s := trun ⟨40, true⟩ (fun _ _ => 0) [.call, .next 0, .advance 3]
    s.stop = false ∧ s.waiting = false ∧ s.scheduled = none ∧ s.last = some 0 ∧ s.now - 0 ≤ (40 : Nat) ∧
    s.now + (37 : Nat) ≥ 0 + (40 : Nat) := by decide
example : (trun ⟨40, true⟩ (fun _ _ => 0) [.call, .next 0, .advance 3, .call]).scheduled =
    some { deadline := 40, ctime := 3, cepoch := 1 } := by decide
example :
    (trun ⟨40, true⟩ (fun _ _ => 0) [.call, .next 0, .advance 3, .call, .advance 37]).waiting = true ∧
    (trun ⟨40, true⟩ (fun _ _ => 0) [.call, .next 0, .advance 3, .call, .advance 37]).now = 40 ∧
    (trun ⟨40, true⟩ (fun _ _ => 0) [.call, .next 0, .advance 3, .call, .advance 37]).wsrc = (3, 1) := by decide
example :
    ((trun ⟨40, true⟩ (fun _ _ => 0) [.call, .next 0, .advance 3, .next 1, .call, .advance 50]).grants.map
      fun g => (g.t, g.id, g.ctime)) = [(0, 0, 0), (40, 1, 3)] := by decide
example :
    (trun ⟨40, true⟩ (fun _ _ => 0) [.call, .next 0, .advance 40]).now - 0 ≤ (40 : Nat) ∧
    (trun ⟨40, true⟩ (fun _ _ => 0) [.call, .next 0, .advance 40, .call]).waiting = true := by decide

/-! ### ... whatever happens in between, short of `Cancel`

The trigger `(c, G.length)` (instant, epoch) kept by the timer for the deadline `l + duration` is in one of
three stages; every event but `Cancel` keeps it on this path, and the first stage ends when the clock
reaches the deadline. -/

/-- the timer armed by the trigger is pending, nothing has been handed out since -/
def Armed (cfg : TCfg) (l c : Int) (G : List Grant) (s : TState) : Prop :=
  s.scheduled = some { deadline := l + cfg.dur, ctime := c, cepoch := G.length } ∧ s.grants = G ∧
  s.stop = false ∧ s.now < l + cfg.dur

/-- the timer has run: the trigger's permission is waiting (not stopped, the period is over) -/
def Ready (cfg : TCfg) (l c : Int) (G : List Grant) (s : TState) : Prop :=
  s.waiting = true ∧ s.wsrc = (c, G.length) ∧ s.grants = G ∧ s.stop = false ∧ l + cfg.dur ≤ s.now ∧
  s.last = some l

/-- the trigger's permission has been handed out: it is the grant that follows `G`, not before the
deadline -/
def Taken (cfg : TCfg) (l c : Int) (G : List Grant) (s : TState) : Prop :=
  l + cfg.dur ≤ s.now ∧
  ∃ g : Grant, G ++ [g] <+: s.grants ∧ g.ctime = c ∧ g.cepoch = G.length ∧ g.prevT = some l ∧
    l + cfg.dur ≤ g.t

theorem kept_step {cfg : TCfg} (ch : Choice) (l c : Int) (G : List Grant) (s : TState) (e : TEv)
    (h : TInv cfg s) (he : e ≠ TEv.cancel)
    (hk : Armed cfg l c G s ∨ Ready cfg l c G s ∨ Taken cfg l c G s) :
    Armed cfg l c G (tstep cfg ch s e) ∨ Ready cfg l c G (tstep cfg ch s e) ∨
      Taken cfg l c G (tstep cfg ch s e) := by
  rcases hk with ⟨hsc, hg, hstop, hnow⟩ | ⟨hw, hsrc, hg, hstop, hnow, hlast⟩ | ⟨hnow, g, hpre, hrest⟩
  · -- the timer is pending
    obtain ⟨_, hw, _, h4, _⟩ := h.sched _ hsc
    have hlast : s.last = some l := by
      rw [h4]; congr 1
      show l + (cfg.dur : Int) - cfg.dur = l
      omega
    have hc : ¬ (s.waiting = true ∨ s.stop = true) := by rw [hw, hstop]; simp
    cases e with
    | cancel => exact absurd rfl he
    | call =>
      have hpre : tpre cfg ch s .call = logCall s := by
        show tcall cfg ch s = _
        unfold tcall
        dsimp only
        rw [if_pos (show (logCall s).waiting = false ∧ (logCall s).stop = false from ⟨hw, hstop⟩),
          show (logCall s).last = some l from hlast]
        dsimp only
        rw [if_neg (show ¬ ((logCall s).now - l > cfg.dur) by show ¬ (s.now - l > cfg.dur); omega),
          if_neg (show ¬ (cfg.trailing = true ∧ (logCall s).scheduled = none) by
            intro h'; have : s.scheduled = none := h'.2; rw [hsc] at this; cases this)]
      rw [tstep_noop cfg ch s .call (by
        rw [hpre]; intro sc h'
        have : s.scheduled = some sc := h'
        rw [hsc] at this; cases this
        show s.now + ((0 : Nat) : Int) < l + cfg.dur; omega), hpre]
      exact Or.inl ⟨hsc, hg, hstop, by show s.now + ((0 : Nat) : Int) < l + cfg.dur; omega⟩
    | next id =>
      have hpre : tpre cfg ch s (.next id) = { s with blocked := s.blocked ++ [id] } := by
        show tnext s id = _
        unfold tnext
        rw [if_neg hc]
      rw [tstep_noop cfg ch s (.next id) (by
        rw [hpre]; intro sc h'
        have : s.scheduled = some sc := h'
        rw [hsc] at this; cases this
        show s.now + ((0 : Nat) : Int) < l + cfg.dur; omega), hpre]
      exact Or.inl ⟨hsc, hg, hstop, by show s.now + ((0 : Nat) : Int) < l + cfg.dur; omega⟩
    | advance dt =>
      by_cases hd : l + cfg.dur ≤ s.now + dt
      · rw [tstep_eq]
        show _ ∨ _ ∨ _
        have hf := advanceTo_fires ch s _ (s.now + dt) hsc hstop (by show s.now ≤ l + cfg.dur; omega) hd
        have hf' : tstep cfg ch s (.advance dt) =
            { wake ch { s with now := l + cfg.dur, scheduled := none } (c, G.length) with
              now := s.now + dt, n := (advanceTo ch s (s.now + dt)).n + 1 } := by
          rw [tstep_eq]
          show ({ advanceTo ch s (s.now + dt) with n := (advanceTo ch s (s.now + dt)).n + 1 } : TState) = _
          rw [hf]
        obtain ⟨h1, h2, h3, _, _, h6⟩ := wake_step_fields ch _ _ _ _ _ hf'
        rw [← tstep_eq]
        rcases h6 with ⟨_, b, c', d, e', _, _⟩ | ⟨id, _, _, c', _, _, _⟩
        · exact Or.inr (Or.inl ⟨b, c', d.trans hg, h2.trans hstop, by rw [h1]; exact hd, e'.trans hlast⟩)
        · refine Or.inr (Or.inr ⟨by rw [h1]; exact hd,
            { t := l + cfg.dur, id := id, ctime := c, cepoch := G.length, prevT := s.last },
            ?_, rfl, rfl, hlast, Int.le_refl _⟩)
          rw [c']
          show G ++ [_] <+: s.grants ++ [_]
          rw [hg]
          exact List.prefix_refl _
      · rw [tstep_noop cfg ch s (.advance dt) (by
          intro sc h'
          have : s.scheduled = some sc := h'
          rw [hsc] at this; cases this
          show s.now + (dt : Int) < l + cfg.dur; omega)]
        exact Or.inl ⟨hsc, hg, hstop, by show s.now + (dt : Int) < l + cfg.dur; omega⟩
  · -- the permission is waiting
    have hsc : s.scheduled = none := by
      cases hsv : s.scheduled with
      | none => rfl
      | some sc => have := (h.sched sc hsv).2.1; rw [hw] at this; cases this
    cases e with
    | cancel => exact absurd rfl he
    | call =>
      have hpre : tpre cfg ch s .call = logCall s := by
        show tcall cfg ch s = _
        unfold tcall
        dsimp only
        rw [if_neg (show ¬ ((logCall s).waiting = false ∧ (logCall s).stop = false) by
          intro h'; have : s.waiting = false := h'.1; rw [hw] at this; cases this)]
      rw [tstep_noop cfg ch s .call (by
        rw [hpre]; intro sc h'
        have : s.scheduled = some sc := h'
        rw [hsc] at this; cases this), hpre]
      exact Or.inr (Or.inl ⟨hw, hsrc, hg, hstop, by show l + cfg.dur ≤ s.now + ((0 : Nat) : Int); omega, hlast⟩)
    | next id =>
      have hpre : tpre cfg ch s (.next id) = grantTo s id := by
        show tnext s id = _
        unfold tnext
        rw [if_pos (Or.inl hw), if_pos hstop]
      rw [tstep_noop cfg ch s (.next id) (by
        rw [hpre]; intro sc h'
        have : s.scheduled = some sc := h'
        rw [hsc] at this; cases this), hpre]
      refine Or.inr (Or.inr ⟨by show l + cfg.dur ≤ s.now + ((0 : Nat) : Int); omega,
        { t := s.now, id := id, ctime := s.wsrc.1, cepoch := s.wsrc.2, prevT := s.last },
        ?_, by rw [hsrc], by rw [hsrc], hlast, hnow⟩)
      show G ++ [_] <+: s.grants ++ [_]
      rw [hg]
      exact List.prefix_refl _
    | advance dt =>
      rw [tstep_noop cfg ch s (.advance dt) (by
        intro sc h'
        have : s.scheduled = some sc := h'
        rw [hsc] at this; cases this)]
      exact Or.inr (Or.inl ⟨hw, hsrc, hg, hstop, by show l + cfg.dur ≤ s.now + (dt : Int); omega, hlast⟩)
  · -- the permission has been handed out: permissions are never taken back
    obtain ⟨ext, hext, _⟩ := (tstep_frame ch e h).1
    have hn := (tstep_frame ch e h).2.2
    exact Or.inr (Or.inr ⟨by rw [hn]; omega, g, List.IsPrefix.trans hpre ⟨ext, hext.symm⟩, hrest⟩)

theorem kept_fold {cfg : TCfg} (ch : Choice) (l c : Int) (G : List Grant) :
    ∀ (post : List TEv) (s : TState), TInv cfg s → TEv.cancel ∉ post →
      (Armed cfg l c G s ∨ Ready cfg l c G s ∨ Taken cfg l c G s) →
      Armed cfg l c G (post.foldl (tstep cfg ch) s) ∨ Ready cfg l c G (post.foldl (tstep cfg ch) s) ∨
        Taken cfg l c G (post.foldl (tstep cfg ch) s) := by
  intro post
  induction post with
  | nil => intro s _ _ hk; exact hk
  | cons e r ih =>
    intro s h hnc hk
    rw [List.foldl_cons]
    refine ih _ (tstep_inv ch e h) (fun h' => hnc (List.mem_cons_of_mem _ h')) ?_
    exact kept_step ch l c G s e h (fun h' => hnc (by rw [h']; exact List.mem_cons_self)) hk

/-- **The kept trigger yields its permission whatever happens in between, short of `Cancel`.**  Same
reachable state `s` and `Call` as in `trailing_trigger_kept`, followed by ANY events `post` without
`Cancel` (more triggers, `Next` calls that block, time passing in any number of pieces).  In the state
reached:

* while the clock is before `l + duration`, the timer armed by that call is still pending with deadline
  `l + duration`, and no permission has been handed out or is waiting;
* once the clock has reached `l + duration`, the permission caused by that call (instant `s.now`, epoch
  `s.grants.length`) either waits (`waiting = true`, nothing handed out since), or it is the grant that
  follows `s.grants` — handed out not before the deadline, with `l` as the previous permission. -/
theorem trailing_trigger_kept_eventually (cfg : TCfg) (ch : Choice) (evs post : List TEv) (l : Int)
    (s s' : TState) (hs : s = trun cfg ch evs) (hs' : s' = trun cfg ch (evs ++ TEv.call :: post))
    (hnc : TEv.cancel ∉ post)
    (htr : cfg.trailing = true) (hstop : s.stop = false) (hw : s.waiting = false)
    (hsc : s.scheduled = none) (hlast : s.last = some l) (hin : s.now - l ≤ cfg.dur) :
    s'.now = s.now + tclock post ∧
    (s'.now < l + cfg.dur →
      s'.scheduled = some { deadline := l + cfg.dur, ctime := s.now, cepoch := s.grants.length } ∧
      s'.grants = s.grants ∧ s'.waiting = false ∧ s'.stop = false) ∧
    (l + cfg.dur ≤ s'.now →
      (s'.waiting = true ∧ s'.wsrc = (s.now, s.grants.length) ∧ s'.grants = s.grants ∧ s'.stop = false ∧
        s'.last = some l) ∨
      (∃ g : Grant, s.grants ++ [g] <+: s'.grants ∧ g.ctime = s.now ∧ g.cepoch = s.grants.length ∧
        g.prevT = some l ∧ l + cfg.dur ≤ g.t)) := by
  have h : TInv cfg s := by rw [hs]; exact trun_inv cfg ch evs
  have h1 : TInv cfg (tstep cfg ch s .call) := tstep_inv ch _ h
  have hrun : s' = post.foldl (tstep cfg ch) (tstep cfg ch s .call) := by
    rw [hs', hs]; simp [trun, List.foldl_append]
  have hnow1 : (tstep cfg ch s .call).now = s.now := by
    rw [(tstep_frame ch .call h).2.2]; show s.now + ((0 : Nat) : Int) = s.now; omega
  have hnow : s'.now = s.now + tclock post := by
    rw [hrun, tfold_now cfg ch post _ h1, hnow1]
  -- the stage right after the call
  have hk1 : Armed cfg l s.now s.grants (tstep cfg ch s .call) ∨ Ready cfg l s.now s.grants (tstep cfg ch s .call) ∨
      Taken cfg l s.now s.grants (tstep cfg ch s .call) := by
    by_cases hlt : s.now < l + cfg.dur
    · rw [tstep_call_armed ch l htr hstop hw hsc hlast hlt]
      exact Or.inl ⟨rfl, rfl, hstop, hlt⟩
    · have hnow0 : s.now = l + cfg.dur := by omega
      have e1 := tstep_call_at_end ch l htr hstop hw hsc hlast hnow0
      obtain ⟨a1, a2, _, _, _, a6⟩ := wake_step_fields ch _ _ _ _ _ e1
      rcases a6 with ⟨_, b, c, d, e, _, _⟩ | ⟨id, _, _, c, _, _, _⟩
      · exact Or.inr (Or.inl ⟨b, c, d, a2.trans hstop, by rw [a1]; omega, e.trans hlast⟩)
      · refine Or.inr (Or.inr ⟨by rw [a1]; omega,
          { t := l + cfg.dur, id := id, ctime := s.now, cepoch := s.grants.length, prevT := s.last },
          ?_, rfl, rfl, hlast, Int.le_refl _⟩)
        rw [c]
        exact List.prefix_refl _
  have hk := kept_fold ch l s.now s.grants post _ h1 hnc hk1
  rw [← hrun] at hk
  refine ⟨hnow, ?_, ?_⟩
  · intro hlt
    rcases hk with ⟨a, b, c, _⟩ | ⟨_, _, _, _, d, _⟩ | ⟨d, _⟩
    · have hi : TInv cfg s' := by rw [hs']; exact trun_inv cfg ch _
      exact ⟨a, b, (hi.sched _ a).2.1, c⟩
    · omega
    · omega
  · intro hge
    rcases hk with ⟨_, _, _, d⟩ | ⟨a, b, c, d, _, f⟩ | ⟨_, g, hg⟩
    · omega
    · exact Or.inl ⟨a, b, c, d, f⟩
    · exact Or.inr ⟨g, hg⟩

example : TEv.cancel ∉ [TEv.call, .advance 10, .next 1, .call, .advance 20, .next 2, .advance 7, .next 3] ∧
    ((trun ⟨40, true⟩ (fun _ _ => 0) ([.call, .next 0, .advance 3] ++ .call ::
        [.call, .advance 10, .next 1, .call, .advance 20, .next 2, .advance 7, .next 3])).grants.map
      fun g => (g.t, g.id, g.ctime, g.prevT)) = [(0, 0, 0, none), (40, 1, 3, some 0)] := by decide

/-! ## 4. Without trailing, a trigger inside the period is lost for good

`in_period_trigger_dropped` (Theorems/C20.lean) is the one-step statement: the `Call` step changes nothing
but the ghost log and the event counter.  Here: NO later state tells the two histories apart.  The event
counter is an argument of the choice function, so the history without the call is run under the scheduler
`skipAt` that makes the same choices (`ch` itself when the choices do not depend on the event number). -/

/-- the scheduler's choices one event later -/
def shiftCh (ch : Choice) : Choice := fun m b => ch (m + 1) b

theorem wake_shift (ch : Choice) (s : TState) (c : List (Int × Nat)) (w : Int × Nat) :
    wake ch { s with n := s.n + 1, calls := c } w =
      { wake (shiftCh ch) s w with n := (wake (shiftCh ch) s w).n + 1, calls := c } := by
  rcases s with ⟨now, n, last, waiting, stop, scheduled, blocked, grants, falses, doneLog, wsrc, calls⟩
  cases blocked <;> rfl

theorem advanceTo_shift (ch : Choice) (s : TState) (c : List (Int × Nat)) (t : Int) :
    advanceTo ch { s with n := s.n + 1, calls := c } t =
      { advanceTo (shiftCh ch) s t with n := (advanceTo (shiftCh ch) s t).n + 1, calls := c } := by
  rcases s with ⟨now, n, last, waiting, stop, scheduled, blocked, grants, falses, doneLog, wsrc, calls⟩
  cases scheduled with
  | none => rfl
  | some sc =>
    unfold advanceTo
    dsimp only
    split
    · unfold fire
      dsimp only
      cases stop
      · simp only [Bool.false_eq_true, if_false]
        rw [wake_shift ch { now := max now sc.deadline, n := n, last := last, waiting := waiting, stop := false, scheduled := none, blocked := blocked, grants := grants, falses := falses, doneLog := doneLog, wsrc := wsrc, calls := calls } c]
      · rfl
    · rfl
theorem tcall_shift (cfg : TCfg) (ch : Choice) (s : TState) (c : List (Int × Nat)) :
    tcall cfg ch { s with n := s.n + 1, calls := c } =
      { tcall cfg (shiftCh ch) s with n := (tcall cfg (shiftCh ch) s).n + 1,
                                      calls := c ++ [(s.now, s.grants.length)] } := by
  rcases s with ⟨now, n, last, waiting, stop, scheduled, blocked, grants, falses, doneLog, wsrc, calls⟩
  unfold tcall logCall
  dsimp only
  split
  · cases last with
    | none =>
      exact wake_shift ch ⟨now, n, none, waiting, stop, scheduled, blocked, grants, falses, doneLog, wsrc,
        calls ++ [(now, grants.length)]⟩ _ _
    | some l =>
      dsimp only
      split
      · exact wake_shift ch ⟨now, n, some l, waiting, stop, scheduled, blocked, grants, falses, doneLog, wsrc,
          calls ++ [(now, grants.length)]⟩ _ _
      · split <;> rfl
  · rfl

theorem tstep_shift (cfg : TCfg) (ch : Choice) (s : TState) (c : List (Int × Nat)) (e : TEv) :
    tstep cfg ch { s with n := s.n + 1, calls := c } e =
      { tstep cfg (shiftCh ch) s e with n := (tstep cfg (shiftCh ch) s e).n + 1, calls := c ++ logOf s e } := by
  cases e with
  | call =>
    unfold tstep
    dsimp only
    rw [tcall_shift, advanceTo_shift]
    rfl
  | cancel =>
    unfold tstep
    dsimp only
    have : tcancel { s with n := s.n + 1, calls := c } = { tcancel s with n := (tcancel s).n + 1, calls := c } := rfl
    rw [this, advanceTo_shift]
    simp [logOf]
  | next id =>
    unfold tstep
    dsimp only
    have : tnext { s with n := s.n + 1, calls := c } id = { tnext s id with n := (tnext s id).n + 1, calls := c } := by
      unfold tnext
      dsimp only
      split
      · split <;> rfl
      · rfl
    rw [this, advanceTo_shift]
    simp [logOf]
  | advance dt =>
    unfold tstep
    dsimp only
    rw [advanceTo_shift]
    simp [logOf]
theorem fold_shift (cfg : TCfg) (ch : Choice) : ∀ (post : List TEv) (s : TState) (c : List (Int × Nat)),
    ∃ c', post.foldl (tstep cfg ch) { s with n := s.n + 1, calls := c } =
      { post.foldl (tstep cfg (shiftCh ch)) s with
          n := (post.foldl (tstep cfg (shiftCh ch)) s).n + 1, calls := c' } := by
  intro post
  induction post with
  | nil => intro s c; exact ⟨c, rfl⟩
  | cons e r ih =>
    intro s c
    rw [List.foldl_cons, List.foldl_cons, tstep_shift]
    exact ih _ _

/-! the scheduler is consulted at the current event number only -/

theorem wake_n (ch : Choice) (s : TState) (w : Int × Nat) : (wake ch s w).n = s.n := by
  unfold wake; split <;> rfl

theorem wake_congr (ch ch' : Choice) (s : TState) (w : Int × Nat) (h : ∀ b, ch s.n b = ch' s.n b) :
    wake ch s w = wake ch' s w := by
  unfold wake; rw [h]

theorem fire_congr (ch ch' : Choice) (s : TState) (sc : Sched) (h : ∀ b, ch s.n b = ch' s.n b) :
    fire ch s sc = fire ch' s sc := by
  unfold fire
  dsimp only
  split
  · rfl
  · exact wake_congr ch ch' _ _ h

theorem advanceTo_congr (ch ch' : Choice) (s : TState) (t : Int) (h : ∀ b, ch s.n b = ch' s.n b) :
    advanceTo ch s t = advanceTo ch' s t := by
  unfold advanceTo
  split
  · rename_i sc _
    split
    · rw [fire_congr ch ch' { s with now := max s.now sc.deadline } sc h]
    · rfl
  · rfl

theorem tcall_congr (cfg : TCfg) (ch ch' : Choice) (s : TState) (h : ∀ b, ch s.n b = ch' s.n b) :
    tcall cfg ch s = tcall cfg ch' s := by
  unfold tcall
  dsimp only
  rw [wake_congr ch ch' (logCall s) _ h]

theorem tpre_n (cfg : TCfg) (ch : Choice) (s : TState) (e : TEv) : (tpre cfg ch s e).n = s.n := by
  cases e with
  | call =>
    show (tcall cfg ch s).n = s.n
    unfold tcall
    dsimp only
    split
    · split
      · exact wake_n ch _ _
      · split
        · exact wake_n ch _ _
        · split <;> rfl
    · rfl
  | cancel => rfl
  | next id =>
    show (tnext s id).n = s.n
    unfold tnext
    split
    · split <;> rfl
    · rfl
  | advance dt => rfl

theorem advanceTo_n (ch : Choice) (s : TState) (t : Int) : (advanceTo ch s t).n = s.n := by
  unfold advanceTo fire
  dsimp only
  split
  · split
    · split
      · rfl
      · exact wake_n ch _ _
    · rfl
  · rfl

theorem tstep_n (cfg : TCfg) (ch : Choice) (s : TState) (e : TEv) : (tstep cfg ch s e).n = s.n + 1 := by
  rw [tstep_eq]
  show (advanceTo ch _ _).n + 1 = s.n + 1
  rw [advanceTo_n, tpre_n]

theorem tstep_congr (cfg : TCfg) (ch ch' : Choice) (s : TState) (e : TEv) (h : ∀ b, ch s.n b = ch' s.n b) :
    tstep cfg ch s e = tstep cfg ch' s e := by
  have hp : tpre cfg ch s e = tpre cfg ch' s e := by
    cases e with
    | call => exact tcall_congr cfg ch ch' s h
    | cancel => rfl
    | next id => rfl
    | advance dt => rfl
  rw [tstep_eq, tstep_eq, ← hp, advanceTo_congr ch ch' _ _ (by rw [tpre_n]; exact h)]

theorem fold_congr (cfg : TCfg) (ch ch' : Choice) : ∀ (evs : List TEv) (s : TState),
    (∀ m, s.n ≤ m → m < s.n + evs.length → ∀ b, ch m b = ch' m b) →
    evs.foldl (tstep cfg ch) s = evs.foldl (tstep cfg ch') s := by
  intro evs
  induction evs with
  | nil => intro s _; rfl
  | cons e r ih =>
    intro s h
    rw [List.foldl_cons, List.foldl_cons,
      tstep_congr cfg ch ch' s e (h s.n (Nat.le_refl _) (by simp))]
    apply ih
    intro m h1 h2
    rw [tstep_n] at h1 h2
    exact h m (by omega) (by simp; omega)

theorem fold_n (cfg : TCfg) (ch : Choice) : ∀ (evs : List TEv) (s : TState),
    (evs.foldl (tstep cfg ch) s).n = s.n + evs.length := by
  intro evs
  induction evs with
  | nil => intro s; rfl
  | cons e r ih => intro s; rw [List.foldl_cons, ih, tstep_n]; simp; omega

/-- the event counter counts the events -/
theorem trun_n (cfg : TCfg) (ch : Choice) (evs : List TEv) : (trun cfg ch evs).n = evs.length := by
  have := fold_n cfg ch evs {}
  simpa [trun] using this

/-- the scheduler that makes, in the history with the event at position `N` removed, the choices `ch`
makes in the full history -/
def skipAt (N : Nat) (ch : Choice) : Choice := fun m b => if m < N then ch m b else ch (m + 1) b

theorem lost_forever_state (cfg : TCfg) (ch : Choice) (evs post : List TEv) (l : Int)
    (htr : cfg.trailing = false) (hlast : (trun cfg ch evs).last = some l)
    (hin : (trun cfg ch evs).now - l ≤ cfg.dur) :
    ∃ c', trun cfg ch (evs ++ TEv.call :: post) =
      { trun cfg (skipAt evs.length ch) (evs ++ post) with
          n := (trun cfg (skipAt evs.length ch) (evs ++ post)).n + 1, calls := c' } := by
  have hdrop := in_period_trigger_dropped cfg ch evs l htr hlast hin
  have h1 : trun cfg ch (evs ++ TEv.call :: post) =
      post.foldl (tstep cfg ch)
        { trun cfg ch evs with n := (trun cfg ch evs).n + 1, calls := (logCall (trun cfg ch evs)).calls } := by
    have : trun cfg ch (evs ++ TEv.call :: post) =
        post.foldl (tstep cfg ch) (tstep cfg ch (trun cfg ch evs) .call) := by
      simp [trun, List.foldl_append]
    rw [this, hdrop]
    rfl
  have h2 : trun cfg (skipAt evs.length ch) (evs ++ post) =
      post.foldl (tstep cfg (shiftCh ch)) (trun cfg ch evs) := by
    have e1 : trun cfg (skipAt evs.length ch) evs = trun cfg ch evs := by
      unfold trun
      apply fold_congr
      intro m _ hm b
      have : m < evs.length := by simpa using hm
      simp [skipAt, this]
    have : trun cfg (skipAt evs.length ch) (evs ++ post) =
        post.foldl (tstep cfg (skipAt evs.length ch)) (trun cfg (skipAt evs.length ch) evs) := by
      simp [trun, List.foldl_append]
    rw [this, e1]
    apply fold_congr
    intro m hm _ b
    rw [trun_n] at hm
    have : ¬ m < evs.length := by omega
    simp [skipAt, shiftCh, this]
  obtain ⟨c', hc'⟩ := fold_shift cfg ch post (trun cfg ch evs) _
  exact ⟨c', by rw [h1, h2, hc']⟩

/-- **Without trailing, a trigger inside the period is lost forever.**  `cfg.trailing = false`, reachable
state after `evs` with the last permission at `l` and `now - l ≤ duration`.  Whatever follows (`post`), the
history WITH a `Call` at that point and the history WITHOUT it (scheduler re-indexed by the one missing
event) end in states that agree on every field — clock, `last`, `waiting`, `stop`, the timer, the blocked
callers, the permissions with their stamps and causes, the refusals, the completion log — except the event
counter (one more) and the ghost trigger log. -/
theorem not_trailing_trigger_in_period_lost_forever (cfg : TCfg) (ch : Choice) (evs post : List TEv) (l : Int)
    (a b : TState) (ha : a = trun cfg ch (evs ++ TEv.call :: post))
    (hb : b = trun cfg (skipAt evs.length ch) (evs ++ post))
    (htr : cfg.trailing = false) (hlast : (trun cfg ch evs).last = some l)
    (hin : (trun cfg ch evs).now - l ≤ cfg.dur) :
    a.now = b.now ∧ a.last = b.last ∧ a.waiting = b.waiting ∧ a.stop = b.stop ∧ a.scheduled = b.scheduled ∧
    a.blocked = b.blocked ∧ a.grants = b.grants ∧ a.falses = b.falses ∧ a.doneLog = b.doneLog ∧
    a.wsrc = b.wsrc ∧ a.n = b.n + 1 := by
  obtain ⟨c', h⟩ := lost_forever_state cfg ch evs post l htr hlast hin
  rw [← ha, ← hb] at h
  rw [h]
  exact ⟨rfl, rfl, rfl, rfl, rfl, rfl, rfl, rfl, rfl, rfl, rfl⟩

/-- a scheduler whose choices do not depend on the event number is its own re-indexing -/
theorem skipAt_const (N : Nat) (ch : Choice) (hch : ∀ m m' b, ch m b = ch m' b) : skipAt N ch = ch := by
  funext m b
  unfold skipAt
  split
  · rfl
  · exact hch _ _ _

/-- the same under a scheduler that ignores the event number: the very same `ch` on both sides -/
theorem not_trailing_trigger_in_period_lost_forever' (cfg : TCfg) (ch : Choice) (evs post : List TEv) (l : Int)
    (a b : TState) (ha : a = trun cfg ch (evs ++ TEv.call :: post)) (hb : b = trun cfg ch (evs ++ post))
    (hch : ∀ m m' b, ch m b = ch m' b)
    (htr : cfg.trailing = false) (hlast : (trun cfg ch evs).last = some l)
    (hin : (trun cfg ch evs).now - l ≤ cfg.dur) :
    a.now = b.now ∧ a.last = b.last ∧ a.waiting = b.waiting ∧ a.stop = b.stop ∧ a.scheduled = b.scheduled ∧
    a.blocked = b.blocked ∧ a.grants = b.grants ∧ a.falses = b.falses ∧ a.doneLog = b.doneLog ∧
    a.wsrc = b.wsrc ∧ a.n = b.n + 1 :=
  not_trailing_trigger_in_period_lost_forever cfg ch evs post l a b ha
    (by rw [skipAt_const _ ch hch]; exact hb) htr hlast hin

/-! Non-vacuity: period 40, not trailing, permission at 0; a trigger at 3 is inside the period.  With it or
without it, two callers block, the period ends, one trigger at 43 serves the caller the scheduler picks
(the second one: choice 1), a later trigger at 90 serves the other. -/
example :
    (trun ⟨40, false⟩ (fun _ _ => 1) [.call, .next 0, .advance 3]).last = some 0 ∧
    (trun ⟨40, false⟩ (fun _ _ => 1) [.call, .next 0, .advance 3]).now - 0 ≤ (40 : Nat) := by decide
example :
    ((trun ⟨40, false⟩ (fun _ _ => 1) ([.call, .next 0, .advance 3] ++ .call ::
        [.next 1, .next 2, .advance 40, .call, .advance 47, .call])).grants.map fun g => (g.t, g.id)) =
      [(0, 0), (43, 2), (90, 1)] := by decide
example :
    ((trun ⟨40, false⟩ (fun _ _ => 1) ([.call, .next 0, .advance 3] ++
        [.next 1, .next 2, .advance 40, .call, .advance 47, .call])).grants.map fun g => (g.t, g.id)) =
      [(0, 0), (43, 2), (90, 1)] := by decide

end GoguVerif.Theorems.C20More
