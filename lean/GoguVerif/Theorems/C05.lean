import GoguVerif.Spec.C05
import GoguVerif.Model.Queue
/-!
# C05 — property theorems (queues are FIFO)
-/
namespace GoguVerif.Theorems.C05
open GoguVerif Spec.C05

variable {α : Type} [Inhabited α] [DecidableEq α]

theorem searchLoop_eq_mem (x : α) (l : List α) : Model.Queue.searchLoop x l = decide (x ∈ l) := by
  induction l with
  | nil => simp [Model.Queue.searchLoop]
  | cons y r ih =>
    simp only [Model.Queue.searchLoop, ih]
    by_cases h : y = x
    · simp [h]
    · have : ¬ x = y := fun e => h e.symm
      simp [h, this]

/-- The slice-backed queue *is* the abstract FIFO: one step. -/
theorem queue_step_refines (s : List α) (op : Op α) :
    Model.Queue.step s op = Spec.C05.step s op := by
  cases op with
  | enqueue x => rfl
  | dequeue => cases s <;> simp [Model.Queue.step, Spec.C05.step]
  | peek => cases s <;> simp [Model.Queue.step, Spec.C05.step]
  | search x => simp [Model.Queue.step, Spec.C05.step, searchLoop_eq_mem]
  | size => rfl
  | clear => rfl

/-- Every history of the slice-backed queue produces exactly the abstract FIFO's answers. -/
theorem queue_refines (s : List α) (ops : List (Op α)) :
    Model.Queue.run s ops = Spec.C05.run s ops := by
  induction ops generalizing s with
  | nil => rfl
  | cons op ops ih => simp only [Model.Queue.run, Spec.C05.run, queue_step_refines, ih]

end GoguVerif.Theorems.C05
