import GoguVerif.Spec.C05
import GoguVerif.Model.Queue
import GoguVerif.Model.LQueue
/-!
# C05 — property theorems (queues are FIFO)

* `queue_refines`: every history of the model of the slice-backed `Queue` produces exactly the
  abstract FIFO's answers.
* `lqueue_refines`: every history of the model of the linked `LQueue` (counter + `list.DList` at
  sequence level) produces exactly the abstract FIFO's answers (`Dequeue` has no error flag there:
  answers are compared after `obsLinked`, which erases the flag).
* the clauses of the property statement as corollaries about the abstract FIFO.
-/
namespace GoguVerif.Theorems.C05
open GoguVerif Spec.C05

set_option linter.unusedSectionVars false
variable {α : Type} [Inhabited α] [DecidableEq α]

theorem searchLoop_eq_mem (x : α) (l : List α) : Model.Queue.searchLoop x l = decide (x ∈ l) := by
  induction l with
  | nil => simp [Model.Queue.searchLoop]
  | cons y r ih =>
    simp only [Model.Queue.searchLoop, ih]
    by_cases h : y = x
    · simp [h]
    · have : ¬ x = y := fun e => h e.symm
      simp [h, this]

/-- The slice-backed queue *is* the abstract FIFO: one step. -/
theorem queue_step_refines (s : List α) (op : Op α) :
    Model.Queue.step s op = Spec.C05.step s op := by
  cases op with
  | enqueue x => rfl
  | dequeue => cases s <;> simp [Model.Queue.step, Spec.C05.step]
  | peek => cases s <;> simp [Model.Queue.step, Spec.C05.step]
  | search x => simp [Model.Queue.step, Spec.C05.step, searchLoop_eq_mem]
  | size => rfl
  | clear => rfl

/-- Every history of the slice-backed queue produces exactly the abstract FIFO's answers. -/
theorem queue_refines (s : List α) (ops : List (Op α)) :
    Model.Queue.run s ops = Spec.C05.run s ops := by
  induction ops generalizing s with
  | nil => rfl
  | cons op ops ih => simp only [Model.Queue.run, Spec.C05.run, queue_step_refines, ih]

/-! ## Linked queue -/

/-- `LQueue.Dequeue` returns only the value: the emptiness flag of the abstract answer is erased. -/
def obsLinked : Out α → Out α
  | .deq v _ => .val v
  | o => o

/-- abstraction: with `n = 0` the list only holds its placeholder head -/
def absL (s : Model.LQueue.St α) : List α := if s.n = 0 then [] else s.list

/-- representation invariant: the counter is the length of the abstract queue -/
def InvL (s : Model.LQueue.St α) : Prop := s.n = (absL s).length

theorem invL_new (t : α) : InvL (Model.LQueue.new t) ∧ absL (Model.LQueue.new t) = [t] := by
  simp [InvL, absL, Model.LQueue.new, Model.DSeq.init]

/-- One step of the linked queue refines one step of the abstract FIFO. -/
theorem lqueue_step_refines (s : Model.LQueue.St α) (op : Op α) (h : InvL s) :
    InvL (Model.LQueue.step s op).1 ∧
    absL (Model.LQueue.step s op).1 = (Spec.C05.step (absL s) op).1 ∧
    (Model.LQueue.step s op).2 = obsLinked (Spec.C05.step (absL s) op).2 := by
  unfold InvL absL at *
  by_cases h0 : s.n = 0
  · -- empty queue: the list holds only the placeholder
    cases op <;>
      simp [Model.LQueue.step, Spec.C05.step, h0, obsLinked, Model.DSeq.init]
  · simp only [h0, if_false] at h
    have hl : s.list ≠ [] := by
      intro e; rw [e] at h; simp at h; exact h0 h
    cases op with
    | enqueue x =>
      have : s.n + 1 ≠ 0 := by omega
      simp [Model.LQueue.step, Spec.C05.step, h0, obsLinked, Model.DSeq.append, this]
      omega
    | dequeue =>
      match hs : s.list with
      | [] => exact absurd hs hl
      | [x] =>
        have hn : s.n = 1 := by rw [hs] at h; simpa using h
        simp [Model.LQueue.step, Spec.C05.step, obsLinked, Model.DSeq.shift, hs, hn]
      | x :: y :: r =>
        have hn : s.n = (r.length : Int) + 1 + 1 := by rw [hs] at h; simpa using h
        have : s.n - 1 ≠ 0 := by omega
        simp [Model.LQueue.step, Spec.C05.step, h0, obsLinked, Model.DSeq.shift, hs, this]
        omega
    | peek =>
      simp [Model.LQueue.step, Spec.C05.step, h0, obsLinked, Model.DSeq.first]; exact h
    | search x =>
      simp [Model.LQueue.step, Spec.C05.step, h0, obsLinked, Model.DSeq.find]; exact h
    | size =>
      simp [Model.LQueue.step, Spec.C05.step, h0, obsLinked]; exact h
    | clear =>
      simp [Model.LQueue.step, Spec.C05.step, obsLinked]

/-- Every history of the linked queue (started by `NewLinked t`, or from any state satisfying the
invariant) produces exactly the abstract FIFO's answers. -/
theorem lqueue_run_refines (s : Model.LQueue.St α) (h : InvL s) (ops : List (Op α)) :
    (Model.LQueue.run s ops).2 = ((Spec.C05.run (absL s) ops).2).map obsLinked ∧
    absL (Model.LQueue.run s ops).1 = (Spec.C05.run (absL s) ops).1 ∧
    InvL (Model.LQueue.run s ops).1 := by
  induction ops generalizing s with
  | nil => simp [Model.LQueue.run, Spec.C05.run, h]
  | cons op ops ih =>
    obtain ⟨hi, ha, ho⟩ := lqueue_step_refines s op h
    obtain ⟨r1, r2, r3⟩ := ih _ hi
    simp only [Model.LQueue.run, Spec.C05.run]
    rw [ha] at r1 r2
    exact ⟨by simp [r1, ho], r2, r3⟩

theorem lqueue_refines (t : α) (ops : List (Op α)) :
    (Model.LQueue.run (Model.LQueue.new t) ops).2 = ((Spec.C05.run [t] ops).2).map obsLinked := by
  have := (lqueue_run_refines (Model.LQueue.new t) (invL_new t).1 ops).1
  rwa [(invL_new t).2] at this

/-! ## The clauses of the property, as facts about the abstract FIFO

(by the two refinement theorems they hold of both models for every history) -/

/-- content after a history -/
def content (s : List α) (ops : List (Op α)) : List α := (Spec.C05.run s ops).1

/-- Dequeue order = enqueue order, each element exactly once: enqueueing `xs` into an empty queue
and dequeuing `xs.length` times yields exactly `xs`, and leaves the queue empty. -/
theorem fifo_order (xs : List α) :
    Spec.C05.run ([] : List α) (xs.map .enqueue ++ List.replicate xs.length .dequeue) =
      ([], xs.map (fun _ => Out.unit) ++ xs.map (fun x => Out.deq x false)) := by
  have enq : ∀ (s xs : List α) (rest : List (Op α)),
      Spec.C05.run s (xs.map .enqueue ++ rest) =
        ((Spec.C05.run (s ++ xs) rest).1, xs.map (fun _ => Out.unit) ++ (Spec.C05.run (s ++ xs) rest).2) := by
    intro s xs rest
    induction xs generalizing s with
    | nil => simp
    | cons x xs ih => simp [Spec.C05.run, Spec.C05.step, ih]
  have deq : ∀ (s : List α),
      Spec.C05.run s (List.replicate s.length (Op.dequeue : Op α)) = ([], s.map (fun x => Out.deq x false)) := by
    intro s
    induction s with
    | nil => simp [Spec.C05.run]
    | cons x s ih => simp [List.replicate, Spec.C05.run, Spec.C05.step, ih]
  rw [enq]; simp [deq]

/-- `Peek` is the element the next `Dequeue` returns (on a non-empty queue), and does not change
the content. -/
theorem peek_is_next_dequeue (s : List α) (h : s ≠ []) :
    ∃ x, (Spec.C05.step s .peek) = (s, .val x) ∧ (Spec.C05.step s .dequeue).2 = .deq x false := by
  cases s with
  | nil => exact absurd rfl h
  | cons x r => exact ⟨x, by simp [Spec.C05.step]⟩

/-- `Dequeue` on an empty queue is a no-op reporting emptiness (zero value). -/
theorem dequeue_empty : Spec.C05.step ([] : List α) .dequeue = ([], .deq default true) := rfl

/-- `Size` is never negative and equals enqueues − successful dequeues since the last `Clear`:
stepwise form. -/
theorem size_step (s : List α) (op : Op α) :
    ((Spec.C05.step s op).1.length : Int) =
      match op with
      | .enqueue _ => (s.length : Int) + 1
      | .dequeue => if s = [] then 0 else (s.length : Int) - 1
      | .clear => 0
      | _ => s.length := by
  cases op <;> simp [Spec.C05.step]
  cases s <;> simp

theorem size_nonneg (s : List α) : (Spec.C05.step s .size).2 = .int s.length ∧ (0 : Int) ≤ s.length := by
  simp [Spec.C05.step]

/-- `Search` agrees with membership. -/
theorem search_iff (s : List α) (x : α) : (Spec.C05.step s (.search x)).2 = .bool true ↔ x ∈ s := by
  simp [Spec.C05.step]

/-- non-vacuity: the invariant of the linked queue holds in a non-trivial reachable state -/
example : InvL (Model.LQueue.run (Model.LQueue.new (7 : Int)) [.enqueue 8, .dequeue, .enqueue 9]).1 ∧
    (Model.LQueue.run (Model.LQueue.new (7 : Int)) [.enqueue 8, .dequeue, .enqueue 9]).1.list = [8, 9] := by
  unfold InvL absL; decide

end GoguVerif.Theorems.C05
