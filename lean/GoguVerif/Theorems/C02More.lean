import GoguVerif.Theorems.C02
import GoguVerif.Spec.C08
import GoguVerif.Theorems.C08
import GoguVerif.Lemmas.C09Ord
/-!
# C02 — "insert-if-absent is granted to exactly one racer"

`Theorems/C02.lean` proves (generically) that every concurrent history is a LEGAL sequential run of
the sequential object in linearization order, with exactly the returned values.  This file adds the
sequential facts that turn that into the racing clause, and the concurrent corollaries.

Sequential object of the cache: the specification `Spec.C08.step cfg c` (`c` resolves the one
instant `now = deadline` the property leaves open; everything below holds for both choices).  `Set`
does not let time pass (`now` only moves in `sleep`), so in a run made of `Set`s alone all calls
happen at one instant `now`; every entry a `Set` stores is live at the instant it is stored
(`live_expOf`), whatever the duration (positive, negative = never, `0` = the default) — so no
hypothesis on the durations is needed.

* `race_sequential`: in ANY legal sequential run consisting only of `Set k vᵢ dᵢ` with accepted
  values on one key `k` that has no live entry at the start (absent, or present but expired): the
  first call succeeds, every other reports the error, the final content holds the first call's value
  (and deadline); `race_sequential_count`: exactly one success.
* `race_linearizable`: every concurrent history of such racing `Set`s (any number of threads and
  calls) has exactly one successful linearization point; its value is the one stored.
* `race_at_most_one_granted` / `race_exactly_one_granted`: among the calls that RETURNED, at most one
  returned success — exactly one once every call has returned.
* `model_legal_abs`, `race_sequential_model`, `race_linearizable_model`: the same for the MODEL of
  `cache.go` (through `Theorems/C08.lean: step_refines`).
* trie: `put_race_sequential` — any legal sequential run of `Put k vᵢ` on one new key grows `Size` by
  exactly one (and stores the last value); `put_race_linearizable` for concurrent histories.
-/
namespace GoguVerif.Theorems.C02More
open GoguVerif GoguVerif.Model.Lin

/-! ## Generic: inverting legal runs -/

section generic
variable {σ Op Ret : Type}

theorem legal_cons_inv {O : Obj σ Op Ret} {s s' : σ} {p : Op × Ret} {rest : List (Op × Ret)}
    (h : Legal O s (p :: rest) s') :
    p.2 = (O.step s p.1).2 ∧ Legal O (O.step s p.1).1 rest s' := by
  cases h with
  | cons h' => exact ⟨rfl, h'⟩

theorem legal_nil_inv {O : Obj σ Op Ret} {s s' : σ} (h : Legal O s [] s') : s' = s := by
  cases h; rfl

/-- every operation of the sequential witness has a `lin` event in the history -/
theorem mem_linOps {h : List (Ev Op Ret)} {op : Op} {r : Ret} (hm : (op, r) ∈ linOps h) :
    ∃ t c, Ev.lin t c op r ∈ h := by
  induction h with
  | nil => simp [linOps] at hm
  | cons e es ih =>
    cases e with
    | lin t c op' r' =>
      simp only [linOps, List.mem_append, List.mem_singleton, Prod.mk.injEq] at hm
      rcases hm with hm | ⟨rfl, rfl⟩
      · obtain ⟨t', c', h'⟩ := ih hm; exact ⟨t', c', List.mem_cons_of_mem _ h'⟩
      · exact ⟨t, c, List.mem_cons_self⟩
    | inv t c op' => obtain ⟨t', c', h'⟩ := ih (by simpa [linOps] using hm); exact ⟨t', c', List.mem_cons_of_mem _ h'⟩
    | tau t c => obtain ⟨t', c', h'⟩ := ih (by simpa [linOps] using hm); exact ⟨t', c', List.mem_cons_of_mem _ h'⟩
    | ret t c op' r' => obtain ⟨t', c', h'⟩ := ih (by simpa [linOps] using hm); exact ⟨t', c', List.mem_cons_of_mem _ h'⟩

/-- every linearized operation was invoked -/
theorem linOps_invoked {O : Obj σ Op Ret} {h s} (r : Reach O h s) {op : Op} {res : Ret}
    (hm : (op, res) ∈ linOps h) : ∃ t c, Ev.inv t c op ∈ h := by
  obtain ⟨t, c, hl⟩ := mem_linOps hm
  obtain ⟨newer, older, e⟩ := List.append_of_mem hl
  have := C02.lin_after_inv r newer older t c op res e
  exact ⟨t, c, by rw [e]; exact List.mem_append_right _ (List.mem_cons_of_mem _ this)⟩

/-- the converse: every `lin` event contributes its operation and result to the witness -/
theorem lin_mem_linOps {h : List (Ev Op Ret)} {t c : Nat} {op : Op} {r : Ret}
    (hm : Ev.lin t c op r ∈ h) : (op, r) ∈ linOps h := by
  induction h with
  | nil => simp at hm
  | cons e es ih =>
    rcases List.mem_cons.1 hm with rfl | hm1
    · simp [linOps]
    · cases e <;> simp [linOps, ih hm1]

/-- call ids of returns are below `next` -/
theorem ret_id_lt {O : Obj σ Op Ret} {h s} (r : Reach O h s) {t c : Nat} {op : Op} {res : Ret}
    (hm : Ev.ret t c op res ∈ h) : c < s.next := by
  obtain ⟨n1, o1, e1⟩ := List.append_of_mem hm
  have hl := C02.ret_after_lin r n1 o1 t c op res e1
  obtain ⟨n2, o2, e2⟩ := List.append_of_mem hl
  have hl' : Ev.lin t c op res ∈ h := by
    rw [e1]; exact List.mem_append_right _ (List.mem_cons_of_mem _ hl)
  obtain ⟨n3, o3, e3⟩ := List.append_of_mem hl'
  have hi := C02.lin_after_inv r n3 o3 t c op res e3
  exact C02.inv_id_lt r t c op (by rw [e3]; exact List.mem_append_right _ (List.mem_cons_of_mem _ hi))

/-- a call that is still open (pending or done, not yet returned) has no `ret` event -/
def OpenInv (h : List (Ev Op Ret)) (s : CState σ Op Ret) : Prop :=
  ∀ t c, ((∃ op, s.pcs t = .pending c op) ∨ (∃ op r, s.pcs t = .done c op r)) →
    ∀ op' r', Ev.ret t c op' r' ∉ h

theorem openInv {O : Obj σ Op Ret} {h s} (r : Reach O h s) : OpenInv h s := by
  induction r with
  | init =>
    intro t c ho
    rcases ho with ⟨op, ho⟩ | ⟨op, r, ho⟩ <;> simp at ho
  | step rp st ih =>
    cases st with
    | inv t0 op0 hp =>
      intro t c ho op' r' hm
      rcases List.mem_cons.1 hm with hm1 | hm1
      · cases hm1
      · by_cases e : t = t0
        · subst e
          have hlt := ret_id_lt rp hm1
          rcases ho with ⟨op, ho⟩ | ⟨op, r, ho⟩
          · simp [upd] at ho; omega
          · simp [upd] at ho
        · refine ih t c ?_ op' r' hm1
          rcases ho with ⟨op, ho⟩ | ⟨op, r, ho⟩
          · exact Or.inl ⟨op, by simpa [upd, e] using ho⟩
          · exact Or.inr ⟨op, r, by simpa [upd, e] using ho⟩
    | tau t0 c0 op0 hp =>
      intro t c ho op' r' hm
      rcases List.mem_cons.1 hm with hm1 | hm1
      · cases hm1
      · exact ih t c ho op' r' hm1
    | lin t0 c0 op0 hp =>
      intro t c ho op' r' hm
      rcases List.mem_cons.1 hm with hm1 | hm1
      · cases hm1
      · by_cases e : t = t0
        · subst e
          have hc : c = c0 := by
            rcases ho with ⟨op, ho⟩ | ⟨op, r, ho⟩
            · simp [upd] at ho
            · simp [upd] at ho; exact ho.1.symm
          subst hc
          exact ih t c (Or.inl ⟨op0, hp⟩) op' r' hm1
        · refine ih t c ?_ op' r' hm1
          rcases ho with ⟨op, ho⟩ | ⟨op, r, ho⟩
          · exact Or.inl ⟨op, by simpa [upd, e] using ho⟩
          · exact Or.inr ⟨op, r, by simpa [upd, e] using ho⟩
    | ret t0 c0 op0 r0 hp =>
      intro t c ho op' r' hm
      by_cases e : t = t0
      · subst e
        rcases ho with ⟨op, ho⟩ | ⟨op, r, ho⟩ <;> simp [upd] at ho
      · rcases List.mem_cons.1 hm with hm1 | hm1
        · cases hm1; exact e rfl
        · refine ih t c ?_ op' r' hm1
          rcases ho with ⟨op, ho⟩ | ⟨op, r, ho⟩
          · exact Or.inl ⟨op, by simpa [upd, e] using ho⟩
          · exact Or.inr ⟨op, r, by simpa [upd, e] using ho⟩

/-- A call returns at most once: nothing older than a `ret` of call `c` of thread `t` is a `ret` of
the same call. -/
theorem ret_unique {O : Obj σ Op Ret} {h s} (r : Reach O h s) :
    ∀ newer older t c op res, h = newer ++ Ev.ret t c op res :: older →
      ∀ op' r', Ev.ret t c op' r' ∉ older := by
  induction r with
  | init => intro newer older t c op res e; simp at e
  | step rp st ih =>
    intro newer older t c op res e
    cases newer with
    | nil =>
      simp only [List.nil_append, List.cons.injEq] at e
      obtain ⟨e1, e2⟩ := e
      subst e2
      cases st with
      | ret t' c' op' r' hp =>
        cases e1
        exact openInv rp t c (Or.inr ⟨_, _, hp⟩)
      | inv _ _ _ => cases e1
      | tau _ _ _ _ => cases e1
      | lin _ _ _ _ => cases e1
    | cons x newer' =>
      simp only [List.cons_append, List.cons.injEq] at e
      exact ih newer' older t c op res e.2

/-- every linearized call has returned (with the result of its `lin`) or is about to -/
theorem lin_returned_or_done {O : Obj σ Op Ret} {h s} (r : Reach O h s) :
    ∀ t c op res, Ev.lin t c op res ∈ h → Ev.ret t c op res ∈ h ∨ s.pcs t = .done c op res := by
  induction r with
  | init => intro t c op res hm; simp at hm
  | step rp st ih =>
    cases st with
    | inv t0 op0 hp =>
      intro t c op res hm
      rcases List.mem_cons.1 hm with hm1 | hm1
      · cases hm1
      · rcases ih t c op res hm1 with h1 | h1
        · exact Or.inl (List.mem_cons_of_mem _ h1)
        · by_cases e : t = t0
          · subst e; rw [hp] at h1; cases h1
          · exact Or.inr (by simpa [upd, e] using h1)
    | tau t0 c0 op0 hp =>
      intro t c op res hm
      rcases List.mem_cons.1 hm with hm1 | hm1
      · cases hm1
      · rcases ih t c op res hm1 with h1 | h1
        · exact Or.inl (List.mem_cons_of_mem _ h1)
        · exact Or.inr h1
    | lin t0 c0 op0 hp =>
      intro t c op res hm
      rcases List.mem_cons.1 hm with hm1 | hm1
      · cases hm1; exact Or.inr (by simp [upd])
      · rcases ih t c op res hm1 with h1 | h1
        · exact Or.inl (List.mem_cons_of_mem _ h1)
        · by_cases e : t = t0
          · subst e; rw [hp] at h1; cases h1
          · exact Or.inr (by simpa [upd, e] using h1)
    | ret t0 c0 op0 r0 hp =>
      intro t c op res hm
      rcases List.mem_cons.1 hm with hm1 | hm1
      · cases hm1
      · rcases ih t c op res hm1 with h1 | h1
        · exact Or.inl (List.mem_cons_of_mem _ h1)
        · by_cases e : t = t0
          · subst e; rw [hp] at h1; cases h1
            exact Or.inl List.mem_cons_self
          · exact Or.inr (by simpa [upd, e] using h1)

/-- every invoked call has been linearized or is still pending -/
theorem inv_linearized_or_pending {O : Obj σ Op Ret} {h s} (r : Reach O h s) :
    ∀ t c op, Ev.inv t c op ∈ h → (∃ res, Ev.lin t c op res ∈ h) ∨ s.pcs t = .pending c op := by
  induction r with
  | init => intro t c op hm; simp at hm
  | step rp st ih =>
    cases st with
    | inv t0 op0 hp =>
      intro t c op hm
      rcases List.mem_cons.1 hm with hm1 | hm1
      · cases hm1; exact Or.inr (by simp [upd])
      · rcases ih t c op hm1 with ⟨res, h1⟩ | h1
        · exact Or.inl ⟨res, List.mem_cons_of_mem _ h1⟩
        · by_cases e : t = t0
          · subst e; rw [hp] at h1; cases h1
          · exact Or.inr (by simpa [upd, e] using h1)
    | tau t0 c0 op0 hp =>
      intro t c op hm
      rcases List.mem_cons.1 hm with hm1 | hm1
      · cases hm1
      · rcases ih t c op hm1 with ⟨res, h1⟩ | h1
        · exact Or.inl ⟨res, List.mem_cons_of_mem _ h1⟩
        · exact Or.inr h1
    | lin t0 c0 op0 hp =>
      intro t c op hm
      rcases List.mem_cons.1 hm with hm1 | hm1
      · cases hm1
      · rcases ih t c op hm1 with ⟨res, h1⟩ | h1
        · exact Or.inl ⟨res, List.mem_cons_of_mem _ h1⟩
        · by_cases e : t = t0
          · subst e; rw [hp] at h1; cases h1
            exact Or.inl ⟨_, List.mem_cons_self⟩
          · exact Or.inr (by simpa [upd, e] using h1)
    | ret t0 c0 op0 r0 hp =>
      intro t c op hm
      rcases List.mem_cons.1 hm with hm1 | hm1
      · cases hm1
      · rcases ih t c op hm1 with ⟨res, h1⟩ | h1
        · exact Or.inl ⟨res, List.mem_cons_of_mem _ h1⟩
        · by_cases e : t = t0
          · subst e; rw [hp] at h1; cases h1
          · exact Or.inr (by simpa [upd, e] using h1)

end generic

/-! ## The cache: sequential race -/

section cache
open GoguVerif.Spec.C08

/-- the expiring cache as a sequential object, started in `s0` -/
def cacheObj (cfg : Cfg) (c : Bool) (s0 : St) : Obj St Op Out := ⟨s0, Spec.C08.step cfg c⟩

/-- key `k` has no live entry: it is absent, or its entry is expired -/
def Free (c : Bool) (k : Int) (s : St) : Prop := ∀ e, find k s.es = some e → live c s.now e = false

/-- key `k` holds value `v` with deadline `x`, live -/
def Holds (c : Bool) (k v x : Int) (s : St) : Prop :=
  find k s.es = some ⟨k, v, x⟩ ∧ live c s.now ⟨k, v, x⟩ = true

/-- a racing call: `Set` on key `k` with a value the cache accepts -/
def RaceOp (cfg : Cfg) (k : Int) (op : Op) : Prop := ∃ v d, op = .set k v d ∧ accepted cfg v = true

/-- number of calls of a sequential run that report success -/
def successes (ops : List (Op × Out)) : Nat := (ops.filter (fun p => decide (p.2 = Out.err false))).length

theorem find_store (k v x : Int) (es : List Entry) : find k (store k v x es) = some ⟨k, v, x⟩ := by
  simp [find, store]

/-- Whatever the duration, a freshly stored entry is live at the instant it is stored. -/
theorem live_expOf (cfg : Cfg) (c : Bool) (now k v d : Int) : live c now ⟨k, v, expOf cfg now d⟩ = true := by
  unfold expOf live
  simp only []
  generalize (if d == 0 then cfg.defExp else d) = d'
  by_cases h1 : d' > 0
  · simp only [h1, if_true]
    by_cases h2 : now + d' ≤ 0
    · simp [h2]
    · have : now < now + d' := by omega
      simp [this]
  · by_cases h2 : d' < 0 <;> simp [h1, h2]

theorem set_free {cfg : Cfg} {c : Bool} {s : St} {k v d : Int} (hf : Free c k s)
    (ha : accepted cfg v = true) :
    Spec.C08.step cfg c s (.set k v d) =
      ({ s with es := store k v (expOf cfg s.now d) s.es }, .err false) := by
  simp only [Spec.C08.step, setOne]
  cases hk : find k s.es with
  | none => simp [ha]
  | some e => simp [hf e hk, ha]

theorem set_held {cfg : Cfg} {c : Bool} {s : St} {k v x v' d : Int} (hh : Holds c k v x s) :
    Spec.C08.step cfg c s (.set k v' d) = (s, .err true) := by
  simp [Spec.C08.step, setOne, hh.1, hh.2]

/-- Once the key is held live, every further racing `Set` reports the error and changes nothing. -/
theorem race_losers {cfg : Cfg} {c : Bool} {s0 : St} {k v x : Int} :
    ∀ {ops : List (Op × Out)} {s s' : St}, Legal (cacheObj cfg c s0) s ops s' →
      (∀ p ∈ ops, RaceOp cfg k p.1) → Holds c k v x s →
      s' = s ∧ ∀ p ∈ ops, p.2 = Out.err true := by
  intro ops
  induction ops with
  | nil => intro s s' hl _ _; exact ⟨legal_nil_inv hl, by simp⟩
  | cons p rest ih =>
    intro s s' hl hr hh
    obtain ⟨h1, h2⟩ := legal_cons_inv hl
    obtain ⟨v', d', hop, _⟩ := hr p List.mem_cons_self
    have hs : (cacheObj cfg c s0).step s p.1 = (s, Out.err true) := by
      rw [hop]; exact set_held hh
    rw [hs] at h1 h2
    obtain ⟨e1, e2⟩ := ih h2 (fun q hq => hr q (List.mem_cons_of_mem _ hq)) hh
    refine ⟨e1, ?_⟩
    intro q hq
    rcases List.mem_cons.1 hq with rfl | hq
    · exact h1
    · exact e2 q hq

/-- **Insert-if-absent, sequentially.**  In any legal sequential run of the cache that consists only
of `Set k vᵢ dᵢ` calls with accepted values, on one key `k` that has no live entry at the start:
the FIRST call succeeds, EVERY other call reports the error, and the final content holds the first
call's value with the deadline computed for the first call; time has not moved. -/
theorem race_sequential {cfg : Cfg} {c : Bool} {s0 s s' : St} {k : Int} {ops : List (Op × Out)}
    (hl : Legal (cacheObj cfg c s0) s ops s') (hr : ∀ p ∈ ops, RaceOp cfg k p.1) (hf : Free c k s)
    (hne : ops ≠ []) :
    ∃ v d rest, ops = (Op.set k v d, Out.err false) :: rest ∧ (∀ p ∈ rest, p.2 = Out.err true) ∧
      Holds c k v (expOf cfg s.now d) s' ∧ s'.now = s.now ∧
      s'.es = store k v (expOf cfg s.now d) s.es := by
  cases ops with
  | nil => exact absurd rfl hne
  | cons p rest =>
    obtain ⟨h1, h2⟩ := legal_cons_inv hl
    obtain ⟨v, d, hop, ha⟩ := hr p List.mem_cons_self
    have hs : (cacheObj cfg c s0).step s p.1 =
        ({ s with es := store k v (expOf cfg s.now d) s.es }, Out.err false) := by
      rw [hop]; exact set_free hf ha
    rw [hs] at h1 h2
    have hh : Holds c k v (expOf cfg s.now d) { s with es := store k v (expOf cfg s.now d) s.es } :=
      ⟨find_store _ _ _ _, live_expOf cfg c s.now k v d⟩
    obtain ⟨e1, e2⟩ := race_losers h2 (fun q hq => hr q (List.mem_cons_of_mem _ hq)) hh
    refine ⟨v, d, rest, ?_, e2, ?_, ?_, ?_⟩
    · rw [show p = (Op.set k v d, Out.err false) from Prod.ext hop h1]
    · rw [e1]; exact hh
    · rw [e1]
    · rw [e1]

/-- … hence EXACTLY ONE of the racing calls succeeds. -/
theorem race_sequential_count {cfg : Cfg} {c : Bool} {s0 s s' : St} {k : Int} {ops : List (Op × Out)}
    (hl : Legal (cacheObj cfg c s0) s ops s') (hr : ∀ p ∈ ops, RaceOp cfg k p.1) (hf : Free c k s)
    (hne : ops ≠ []) : successes ops = 1 := by
  obtain ⟨v, d, rest, rfl, h2, _⟩ := race_sequential hl hr hf hne
  have : rest.filter (fun p => decide (p.2 = Out.err false)) = [] := by
    rw [List.filter_eq_nil_iff]
    intro p hp
    simp [h2 p hp]
  simp [successes, this]

/-- instance: three racers on key 1 of an empty string-valued cache, different durations -/
example : Legal (cacheObj ⟨20, 10, true⟩ true {}) {}
    [(.set 1 7 5, .err false), (.set 1 8 (-1), .err true), (.set 1 9 0, .err true)]
    { now := 0, es := [⟨1, 7, 5⟩] } := Legal.cons (Legal.cons (Legal.cons (Legal.nil _)))

example : successes [(Op.set 1 7 5, Out.err false), (.set 1 8 (-1), .err true), (.set 1 9 0, .err true)] = 1 := by
  decide

/-- the key may be present but expired: the racer that comes first replaces it -/
example : Free true 1 { now := 10, es := [⟨1, 3, 4⟩] } ∧
    (Spec.C08.step ⟨20, 10, true⟩ true { now := 10, es := [⟨1, 3, 4⟩] } (.set 1 7 5)) =
      ({ now := 10, es := [⟨1, 7, 15⟩] }, .err false) := by
  constructor
  · intro e he
    have : e = ⟨1, 3, 4⟩ := by simpa [find] using he.symm
    subst this; decide
  · decide

/-! ## The cache: concurrent race -/

theorem successes_pos {ops : List (Op × Out)} {p : Op × Out} (hm : p ∈ ops) (hp : p.2 = Out.err false) :
    1 ≤ successes ops := by
  have : p ∈ ops.filter (fun p => decide (p.2 = Out.err false)) := by
    simp [List.mem_filter, hm, hp]
  exact List.length_pos_of_mem this

theorem successes_append (a b : List (Op × Out)) : successes (a ++ b) = successes a + successes b := by
  simp [successes]

/-- If the sequential witness has at most one success, any two successful `lin` events are events of
the same call. -/
theorem lin_success_unique {h : List (Ev Op Out)} (hs : successes (linOps h) ≤ 1)
    {t1 c1 t2 c2 : Nat} {op1 op2 : Op}
    (h1 : Ev.lin t1 c1 op1 (Out.err false) ∈ h) (h2 : Ev.lin t2 c2 op2 (Out.err false) ∈ h) :
    t1 = t2 ∧ c1 = c2 ∧ op1 = op2 := by
  induction h with
  | nil => simp at h1
  | cons e es ih =>
    cases e with
    | lin t c op r =>
      simp only [linOps, successes_append] at hs
      rcases List.mem_cons.1 h1 with e1 | m1
      · rcases List.mem_cons.1 h2 with e2 | m2
        · cases e1; cases e2; exact ⟨rfl, rfl, rfl⟩
        · cases e1
          have := successes_pos (lin_mem_linOps m2) rfl
          have : successes [(op1, Out.err false)] = 1 := by simp [successes]
          omega
      · have hp := successes_pos (lin_mem_linOps m1) rfl
        rcases List.mem_cons.1 h2 with e2 | m2
        · cases e2
          have : successes [(op2, Out.err false)] = 1 := by simp [successes]
          omega
        · exact ih (by omega) m1 m2
    | inv t c op =>
      rcases List.mem_cons.1 h1 with e1 | m1
      · cases e1
      · rcases List.mem_cons.1 h2 with e2 | m2
        · cases e2
        · exact ih (by simpa [linOps] using hs) m1 m2
    | tau t c =>
      rcases List.mem_cons.1 h1 with e1 | m1
      · cases e1
      · rcases List.mem_cons.1 h2 with e2 | m2
        · cases e2
        · exact ih (by simpa [linOps] using hs) m1 m2
    | ret t c op r =>
      rcases List.mem_cons.1 h1 with e1 | m1
      · cases e1
      · rcases List.mem_cons.1 h2 with e2 | m2
        · cases e2
        · exact ih (by simpa [linOps] using hs) m1 m2

/-- **Racing `Set`s, concurrently (linearization points).**  Any number of threads, any number of
calls, every call a `Set` on key `k` with an accepted value, `k` without live entry initially: as
soon as one call has taken effect, exactly one call has succeeded — the one linearized first — all
others linearized so far report the error, and the cache holds the winner's value. -/
theorem race_linearizable {cfg : Cfg} {c : Bool} {s0 : St} {k : Int} {h : List (Ev Op Out)}
    {st : CState St Op Out} (r : Reach (cacheObj cfg c s0) h st) (hf : Free c k s0)
    (hinv : ∀ t c' op, Ev.inv t c' op ∈ h → RaceOp cfg k op) (hne : linOps h ≠ []) :
    successes (linOps h) = 1 ∧
    ∃ v d rest, linOps h = (Op.set k v d, Out.err false) :: rest ∧ (∀ p ∈ rest, p.2 = Out.err true) ∧
      Holds c k v (expOf cfg s0.now d) st.obj := by
  have hl : Legal (cacheObj cfg c s0) s0 (linOps h) st.obj := C02.lin_legal r
  have hr : ∀ p ∈ linOps h, RaceOp cfg k p.1 := by
    intro p hp
    obtain ⟨t, c', hi⟩ := linOps_invoked r (op := p.1) (res := p.2) hp
    exact hinv t c' p.1 hi
  refine ⟨race_sequential_count hl hr hf hne, ?_⟩
  obtain ⟨v, d, rest, h1, h2, h3, _⟩ := race_sequential hl hr hf hne
  exact ⟨v, d, rest, h1, h2, h3⟩

/-- Before any call has taken effect nobody has succeeded; so at every moment at most one has. -/
theorem race_at_most_one_success {cfg : Cfg} {c : Bool} {s0 : St} {k : Int} {h : List (Ev Op Out)}
    {st : CState St Op Out} (r : Reach (cacheObj cfg c s0) h st) (hf : Free c k s0)
    (hinv : ∀ t c' op, Ev.inv t c' op ∈ h → RaceOp cfg k op) : successes (linOps h) ≤ 1 := by
  by_cases hne : linOps h = []
  · simp [hne, successes]
  · exact Nat.le_of_eq (race_linearizable r hf hinv hne).1

/-- **At most one racer is granted** (returned values): no two `ret` events of a history of racing
`Set`s carry success. -/
theorem race_at_most_one_granted {cfg : Cfg} {c : Bool} {s0 : St} {k : Int} {h : List (Ev Op Out)}
    {st : CState St Op Out} (r : Reach (cacheObj cfg c s0) h st) (hf : Free c k s0)
    (hinv : ∀ t c' op, Ev.inv t c' op ∈ h → RaceOp cfg k op)
    (n1 n2 n3 : List (Ev Op Out)) (t1 c1 t2 c2 : Nat) (op1 op2 : Op) :
    h ≠ n1 ++ Ev.ret t1 c1 op1 (Out.err false) :: (n2 ++ Ev.ret t2 c2 op2 (Out.err false) :: n3) := by
  intro e
  have l2 : Ev.lin t2 c2 op2 (Out.err false) ∈ n3 :=
    C02.ret_after_lin r (n1 ++ Ev.ret t1 c1 op1 (Out.err false) :: n2) n3 t2 c2 op2 _ (by simp [e])
  have l1 := C02.ret_after_lin r n1 _ t1 c1 op1 _ e
  have m1 : Ev.lin t1 c1 op1 (Out.err false) ∈ h := by
    rw [e]; exact List.mem_append_right _ (List.mem_cons_of_mem _ l1)
  have m2 : Ev.lin t2 c2 op2 (Out.err false) ∈ h := by
    rw [e]
    exact List.mem_append_right _ (List.mem_cons_of_mem _
      (List.mem_append_right _ (List.mem_cons_of_mem _ l2)))
  obtain ⟨rfl, rfl, rfl⟩ := lin_success_unique (race_at_most_one_success r hf hinv) m1 m2
  exact ret_unique r n1 _ t1 c1 op1 _ e op1 (Out.err false)
    (List.mem_append_right _ List.mem_cons_self)

/-- **Exactly one racer is granted.**  Once every call has returned (all threads idle) and at least
one call was made: exactly one call — `(t, c)` — returned success, the cache holds its value, and
every other call that returned, returned the error. -/
theorem race_exactly_one_granted {cfg : Cfg} {c : Bool} {s0 : St} {k : Int} {h : List (Ev Op Out)}
    {st : CState St Op Out} (r : Reach (cacheObj cfg c s0) h st) (hf : Free c k s0)
    (hinv : ∀ t c' op, Ev.inv t c' op ∈ h → RaceOp cfg k op)
    (hq : ∀ t, st.pcs t = PC.idle) (hne : h ≠ []) :
    ∃ t c₀ v d, Ev.ret t c₀ (Op.set k v d) (Out.err false) ∈ h ∧
      Holds c k v (expOf cfg s0.now d) st.obj ∧
      (∀ t' c' op' res, Ev.ret t' c' op' res ∈ h →
        (res = Out.err false ∧ t' = t ∧ c' = c₀ ∧ op' = Op.set k v d) ∨ res = Out.err true) := by
  -- some call was invoked, hence (all idle) linearized
  have hlin : linOps h ≠ [] := by
    have hinvEx : ∃ t c' op, Ev.inv t c' op ∈ h := by
      cases r with
      | init => exact absurd rfl hne
      | step rp stp =>
        cases stp with
        | inv t op hp => exact ⟨_, _, _, List.mem_cons_self⟩
        | tau t c' op hp =>
          exact ⟨t, c', op, List.mem_cons_of_mem _ ((C02.pcInv rp).1 t c' op hp)⟩
        | lin t c' op hp =>
          exact ⟨t, c', op, List.mem_cons_of_mem _ ((C02.pcInv rp).1 t c' op hp)⟩
        | ret t c' op res hp =>
          have hl := (C02.pcInv rp).2 t c' op res hp
          obtain ⟨n, o, e⟩ := List.append_of_mem hl
          have := C02.lin_after_inv rp n o t c' op res e
          exact ⟨t, c', op, List.mem_cons_of_mem _
            (by rw [e]; exact List.mem_append_right _ (List.mem_cons_of_mem _ this))⟩
    obtain ⟨t, c', op, hi⟩ := hinvEx
    rcases inv_linearized_or_pending r t c' op hi with ⟨res, hl⟩ | hp
    · intro e
      have := lin_mem_linOps hl
      rw [e] at this; cases this
    · rw [hq t] at hp; cases hp
  obtain ⟨hcount, v, d, rest, h1, h2, h3⟩ := race_linearizable r hf hinv hlin
  have hw : (Op.set k v d, Out.err false) ∈ linOps h := by rw [h1]; exact List.mem_cons_self
  obtain ⟨t, c₀, hl⟩ := mem_linOps hw
  have hret : Ev.ret t c₀ (Op.set k v d) (Out.err false) ∈ h := by
    rcases lin_returned_or_done r t c₀ _ _ hl with h' | h'
    · exact h'
    · rw [hq t] at h'; cases h'
  refine ⟨t, c₀, v, d, hret, h3, ?_⟩
  intro t' c' op' res hr'
  obtain ⟨n, o, e⟩ := List.append_of_mem hr'
  have hl' : Ev.lin t' c' op' res ∈ h := by
    rw [e]; exact List.mem_append_right _ (List.mem_cons_of_mem _ (C02.ret_after_lin r n o t' c' op' res e))
  have hm := lin_mem_linOps hl'
  rw [h1] at hm
  rcases List.mem_cons.1 hm with e' | hm'
  · have hres : res = Out.err false := (Prod.mk.inj e').2
    subst hres
    obtain ⟨a, b, c3⟩ := lin_success_unique (Nat.le_of_eq hcount) hl' hl
    exact Or.inl ⟨rfl, a, b, c3⟩
  · exact Or.inr (h2 _ hm')

/-- non-vacuity: two threads race on key 1; thread 1's call takes effect first and wins, thread 0's
call reports the error; both have returned -/
example : ∃ h st, Reach (cacheObj ⟨20, 10, true⟩ true {}) h st ∧ (∀ t, st.pcs t = PC.idle) ∧
    Ev.ret 1 1 (Op.set 1 8 (-1)) (Out.err false) ∈ h ∧ Ev.ret 0 0 (Op.set 1 7 5) (Out.err true) ∈ h := by
  refine ⟨_, _, Reach.step (Reach.step (Reach.step (Reach.step (Reach.step (Reach.step Reach.init
    (Step.inv _ 0 (.set 1 7 5) rfl)) (Step.inv _ 1 (.set 1 8 (-1)) (by simp [upd])))
    (Step.lin _ 1 1 (.set 1 8 (-1)) (by simp [upd]))) (Step.lin _ 0 0 (.set 1 7 5) (by simp [upd])))
    (Step.ret _ 0 0 (.set 1 7 5) (.err true) (by simp [upd]; decide)))
    (Step.ret _ 1 1 (.set 1 8 (-1)) (.err false) (by simp [upd]; decide)), ?_, ?_, ?_⟩
  · intro t; simp [upd]; split <;> simp_all
  · simp
  · simp

end cache

/-! ## The cache: the same for the MODEL of `cache.go`

`Theorems/C08.lean: step_refines` — every call of the model is the specification's step with the
deadline instant counted as live — carries legal runs of the model to legal runs of the
specification, hence the racing clause to the model of the code. -/

section cacheModel
open GoguVerif.Spec.C08 GoguVerif.Lemmas.C08

/-- the model of `cache.go` (clocked machine) as a sequential object -/
def cacheModelObj (cfg : Model.Cache.Cfg) (s0 : Model.Cache.St) :
    Obj Model.Cache.St Op Out := ⟨s0, Model.Cache.step cfg⟩

/-- A legal run of the model is, through the abstraction function, a legal run of the specification
with the same calls and the same answers. -/
theorem model_legal_abs {cfg : Model.Cache.Cfg} {s0 : Model.Cache.St} :
    ∀ {ops : List (Op × Out)} {s s' : Model.Cache.St}, Legal (cacheModelObj cfg s0) s ops s' →
      Inv cfg s → (∀ p ∈ ops, WellTimed p.1) →
      Legal (cacheObj (absCfg cfg) true (abs s0)) (abs s) ops (abs s') ∧ Inv cfg s' := by
  intro ops
  induction ops with
  | nil => intro s s' hl hi _; rw [legal_nil_inv hl]; exact ⟨Legal.nil _, hi⟩
  | cons p rest ih =>
    intro s s' hl hi hw
    obtain ⟨h1, h2⟩ := legal_cons_inv hl
    obtain ⟨r1, r2⟩ := C08.step_refines cfg s p.1 hi (hw p List.mem_cons_self)
    obtain ⟨l, i⟩ := ih h2 r2 (fun q hq => hw q (List.mem_cons_of_mem _ hq))
    refine ⟨?_, i⟩
    have hp : p = (p.1, ((cacheObj (absCfg cfg) true (abs s0)).step (abs s) p.1).2) := by
      refine Prod.ext rfl ?_
      show p.2 = (Spec.C08.step (absCfg cfg) true (abs s) p.1).2
      rw [r1]; exact h1
    rw [hp]
    refine Legal.cons ?_
    show Legal _ (Spec.C08.step (absCfg cfg) true (abs s) p.1).1 rest (abs s')
    rw [r1]; exact l

/-- **Insert-if-absent for the model of the code, sequentially.**  Any legal sequential run of the
model consisting only of `Set k vᵢ dᵢ` with accepted values on a key without live entry: exactly one
call — the first — succeeds, all others report the error, the first call's value is held. -/
theorem race_sequential_model {cfg : Model.Cache.Cfg} {s0 s s' : Model.Cache.St} {k : Int}
    {ops : List (Op × Out)} (hl : Legal (cacheModelObj cfg s0) s ops s') (hi : Inv cfg s)
    (hr : ∀ p ∈ ops, RaceOp (absCfg cfg) k p.1) (hf : Free true k (abs s)) (hne : ops ≠ []) :
    successes ops = 1 ∧
    ∃ v d rest, ops = (Op.set k v d, Out.err false) :: rest ∧ (∀ p ∈ rest, p.2 = Out.err true) ∧
      Holds true k v (expOf (absCfg cfg) s.now d) (abs s') := by
  have hw : ∀ p ∈ ops, WellTimed p.1 := by
    intro p hp
    obtain ⟨v, d, e, _⟩ := hr p hp
    rw [e]; trivial
  obtain ⟨hl', _⟩ := model_legal_abs hl hi hw
  refine ⟨race_sequential_count hl' hr hf hne, ?_⟩
  obtain ⟨v, d, rest, h1, h2, h3, _⟩ := race_sequential hl' hr hf hne
  exact ⟨v, d, rest, h1, h2, h3⟩

/-- **… and concurrently**, on a cache fresh from `New` (any key is free there): in every history
of the atomic system over the model in which all calls are racing `Set`s on `k`, exactly one call
has succeeded as soon as one has taken effect. -/
theorem race_linearizable_model {cfg : Model.Cache.Cfg} {k : Int} {h : List (Ev Op Out)}
    {st : CState Model.Cache.St Op Out}
    (r : Reach (cacheModelObj cfg (Model.Cache.init cfg)) h st)
    (hinv : ∀ t c' op, Ev.inv t c' op ∈ h → RaceOp (absCfg cfg) k op) (hne : linOps h ≠ []) :
    successes (linOps h) = 1 ∧
    ∃ v d rest, linOps h = (Op.set k v d, Out.err false) :: rest ∧ (∀ p ∈ rest, p.2 = Out.err true) ∧
      Holds true k v (expOf (absCfg cfg) 0 d) (abs st.obj) := by
  have hl : Legal (cacheModelObj cfg (Model.Cache.init cfg)) (Model.Cache.init cfg) (linOps h) st.obj :=
    C02.lin_legal r
  have hr : ∀ p ∈ linOps h, RaceOp (absCfg cfg) k p.1 := by
    intro p hp
    obtain ⟨t, c', hi⟩ := linOps_invoked r (op := p.1) (res := p.2) hp
    exact hinv t c' p.1 hi
  have hf : Free true k (abs (Model.Cache.init cfg)) := by
    intro e he
    simp [abs, Model.Cache.init, absItems, find] at he
  exact race_sequential_model hl (C08.inv_init cfg) hr hf hne

example : Legal (cacheModelObj ⟨20, 10, true⟩ (Model.Cache.init ⟨20, 10, true⟩))
    (Model.Cache.init ⟨20, 10, true⟩)
    [(.set 1 7 5, .err false), (.set 1 8 (-1), .err true), (.set 1 9 0, .err true)]
    { now := 0, nextTick := 10, items := [(1, ⟨7, 5⟩)] } :=
  Legal.cons (Legal.cons (Legal.cons (Legal.nil _)))

end cacheModel

/-! ## The trie: racing `Put`s on one new key -/

section trie
open GoguVerif.Spec GoguVerif.Spec.C09 GoguVerif.Lemmas.C09

variable {κ ν : Type}

/-- `insert` adds an entry exactly when `lookup` finds none (no hypothesis on the comparator). -/
theorem insert_length (comp : κ → κ → Bool) (k : κ) (v : ν) (m : List (κ × ν)) :
    (OrdMap.insert comp k v m).length =
      m.length + (if (OrdMap.lookup comp k m).isNone then 1 else 0) := by
  induction m with
  | nil => simp [OrdMap.insert, OrdMap.lookup]
  | cons e r ih =>
    obtain ⟨k', v'⟩ := e
    by_cases h1 : comp k k' = true
    · simp [OrdMap.insert, OrdMap.lookup, h1]
    · by_cases h2 : comp k' k = true
      · simp [OrdMap.insert, OrdMap.lookup, h1, h2, ih]; omega
      · simp [OrdMap.insert, OrdMap.lookup, h1, h2]

theorem lookup_insert_self (comp : κ → κ → Bool) (k : κ) (v : ν) (m : List (κ × ν))
    (hirr : comp k k = false) : OrdMap.lookup comp k (OrdMap.insert comp k v m) = some v := by
  induction m with
  | nil => simp [OrdMap.insert, OrdMap.lookup, hirr]
  | cons e r ih =>
    obtain ⟨k', v'⟩ := e
    by_cases h1 : comp k k' = true
    · simp [OrdMap.insert, OrdMap.lookup, h1, hirr]
    · by_cases h2 : comp k' k = true
      · simp [OrdMap.insert, OrdMap.lookup, h1, h2, ih]
      · simp [OrdMap.insert, OrdMap.lookup, h1, h2, hirr]

/-- the trie as a sequential object, started with the map `m0` -/
def trieObj (m0 : List (Key × Int)) : Obj (List (Key × Int)) C09.Op C09.Out := ⟨m0, C09.step⟩

/-- a racing call: `Put` on key `k` -/
def PutOp (k : Key) (op : C09.Op) : Prop := ∃ v, op = .put k v

/-- Racing `Put`s on a key that is already held do not change the size. -/
theorem put_held {m0 : List (Key × Int)} {k : Key} :
    ∀ {ops : List (C09.Op × C09.Out)} {m m' : List (Key × Int)}, Legal (trieObj m0) m ops m' →
      (∀ p ∈ ops, PutOp k p.1) → (OrdMap.lookup lexLt k m).isSome = true →
      m'.length = m.length ∧ (OrdMap.lookup lexLt k m').isSome = true ∧ ∀ p ∈ ops, p.2 = C09.Out.unit := by
  intro ops
  induction ops with
  | nil => intro m m' hl _ hs; rw [legal_nil_inv hl]; exact ⟨rfl, hs, by simp⟩
  | cons p rest ih =>
    intro m m' hl hr hs
    obtain ⟨h1, h2⟩ := legal_cons_inv hl
    obtain ⟨v, hop⟩ := hr p List.mem_cons_self
    have hstep : (trieObj m0).step m p.1 = (OrdMap.insert lexLt k v m, C09.Out.unit) := by
      rw [hop]; rfl
    rw [hstep] at h1 h2
    have hs' : (OrdMap.lookup lexLt k (OrdMap.insert lexLt k v m)).isSome = true := by
      rw [lookup_insert_self lexLt k v m (lexLt_irrefl k)]; rfl
    obtain ⟨e1, e2, e3⟩ := ih h2 (fun q hq => hr q (List.mem_cons_of_mem _ hq)) hs'
    refine ⟨?_, e2, ?_⟩
    · rw [e1]
      have := insert_length lexLt k v m
      have hn : (OrdMap.lookup lexLt k m).isNone = false := by
        cases hL : OrdMap.lookup lexLt k m <;> simp [hL] at hs ⊢
      simpa [hn] using this
    · intro q hq
      rcases List.mem_cons.1 hq with rfl | hq
      · exact h1
      · exact e3 q hq

/-- the value held after racing `Put`s is the one put last -/
theorem put_last {m0 : List (Key × Int)} {k : Key} :
    ∀ {ops : List (C09.Op × C09.Out)} {m m' : List (Key × Int)}, Legal (trieObj m0) m ops m' →
      (∀ p ∈ ops, PutOp k p.1) → ops ≠ [] →
      ∃ v, ops.getLast? = some (C09.Op.put k v, C09.Out.unit) ∧ OrdMap.lookup lexLt k m' = some v := by
  intro ops
  induction ops with
  | nil => intro m m' _ _ hne; exact absurd rfl hne
  | cons p rest ih =>
    intro m m' hl hr _
    obtain ⟨h1, h2⟩ := legal_cons_inv hl
    obtain ⟨v, hop⟩ := hr p List.mem_cons_self
    have hstep : (trieObj m0).step m p.1 = (OrdMap.insert lexLt k v m, C09.Out.unit) := by
      rw [hop]; rfl
    rw [hstep] at h1 h2
    cases rest with
    | nil =>
      rw [legal_nil_inv h2]
      refine ⟨v, ?_, lookup_insert_self lexLt k v m (lexLt_irrefl k)⟩
      rw [show p = (C09.Op.put k v, C09.Out.unit) from Prod.ext hop h1]; rfl
    | cons q rest' =>
      obtain ⟨w, hw1, hw2⟩ := ih h2 (fun x hx => hr x (List.mem_cons_of_mem _ hx)) (by simp)
      exact ⟨w, by rw [List.getLast?_cons_cons]; exact hw1, hw2⟩

/-- **Racing `Put`s on one new key, sequentially.**  In any legal sequential run of the trie
consisting only of `Put k vᵢ` on one key `k` that is not held at the start: the number of entries —
what `Size` reports — grows by EXACTLY ONE, however many calls there are; every call answers
normally; the key ends up holding the value put last. -/
theorem put_race_sequential {m0 m m' : List (Key × Int)} {k : Key} {ops : List (C09.Op × C09.Out)}
    (hl : Legal (trieObj m0) m ops m') (hr : ∀ p ∈ ops, PutOp k p.1)
    (hnew : OrdMap.lookup lexLt k m = none) (hne : ops ≠ []) :
    m'.length = m.length + 1 ∧
    ((C09.step m .size).2 = C09.Out.int m.length ∧ (C09.step m' .size).2 = C09.Out.int (m.length + 1)) ∧
    (∀ p ∈ ops, p.2 = C09.Out.unit) ∧
    ∃ v, ops.getLast? = some (C09.Op.put k v, C09.Out.unit) ∧ OrdMap.lookup lexLt k m' = some v := by
  have hlast := put_last hl hr hne
  cases ops with
  | nil => exact absurd rfl hne
  | cons p rest =>
    obtain ⟨h1, h2⟩ := legal_cons_inv hl
    obtain ⟨v, hop⟩ := hr p List.mem_cons_self
    have hstep : (trieObj m0).step m p.1 = (OrdMap.insert lexLt k v m, C09.Out.unit) := by
      rw [hop]; rfl
    rw [hstep] at h1 h2
    have hs' : (OrdMap.lookup lexLt k (OrdMap.insert lexLt k v m)).isSome = true := by
      rw [lookup_insert_self lexLt k v m (lexLt_irrefl k)]; rfl
    obtain ⟨e1, _, e3⟩ := put_held h2 (fun q hq => hr q (List.mem_cons_of_mem _ hq)) hs'
    have hlen : m'.length = m.length + 1 := by
      rw [e1, insert_length, hnew]; rfl
    refine ⟨hlen, ?_, ?_, hlast⟩
    · simp [C09.step, hlen]
    · intro q hq
      rcases List.mem_cons.1 hq with rfl | hq
      · exact h1
      · exact e3 q hq

/-- **Racing `Put`s, concurrently**: any number of threads and calls, every call a `Put` on the one
new key `k`; as soon as one call has taken effect the trie has exactly one entry more than at the
start, and it stays so. -/
theorem put_race_linearizable {m0 : List (Key × Int)} {k : Key} {h : List (Ev C09.Op C09.Out)}
    {st : CState (List (Key × Int)) C09.Op C09.Out} (r : Reach (trieObj m0) h st)
    (hnew : OrdMap.lookup lexLt k m0 = none)
    (hinv : ∀ t c op, Ev.inv t c op ∈ h → PutOp k op) (hne : linOps h ≠ []) :
    st.obj.length = m0.length + 1 ∧ (C09.step st.obj .size).2 = C09.Out.int (m0.length + 1) := by
  have hl : Legal (trieObj m0) m0 (linOps h) st.obj := C02.lin_legal r
  have hr : ∀ p ∈ linOps h, PutOp k p.1 := by
    intro p hp
    obtain ⟨t, c, hi⟩ := linOps_invoked r (op := p.1) (res := p.2) hp
    exact hinv t c p.1 hi
  have := (put_race_sequential hl hr hnew hne).1
  exact ⟨this, by simp [C09.step, this]⟩

/-- instance: three `Put`s on the new key "b" of a trie holding "a" and "c" -/
example : Legal (trieObj []) [([97], 1), ([99], 3)]
    [(.put [98] 10, .unit), (.put [98] 20, .unit), (.put [98] 30, .unit)]
    [([97], 1), ([98], 30), ([99], 3)] := by
  have h : Legal (trieObj []) [([97], 1), ([99], 3)]
      [(.put [98] 10, (C09.step [([97], 1), ([99], 3)] (.put [98] 10)).2),
       (.put [98] 20, (C09.step [([97], 1), ([98], 10), ([99], 3)] (.put [98] 20)).2),
       (.put [98] 30, (C09.step [([97], 1), ([98], 20), ([99], 3)] (.put [98] 30)).2)]
      [([97], 1), ([98], 30), ([99], 3)] := by
    refine Legal.cons ?_
    show Legal _ [([97], 1), ([98], 10), ([99], 3)] _ _
    refine Legal.cons ?_
    show Legal _ [([97], 1), ([98], 20), ([99], 3)] _ _
    refine Legal.cons ?_
    show Legal _ [([97], 1), ([98], 30), ([99], 3)] _ _
    exact Legal.nil _
  exact h

end trie

end GoguVerif.Theorems.C02More
