import GoguVerif.Spec.C11
import GoguVerif.Model.C11
import GoguVerif.Lemmas.C11
import GoguVerif.Lemmas.C11Dup
/-!
# C11 — property theorems (set-algebra slice helpers)

For ALL inputs (any element type with decidable equality, any key function, slices and nestings of
any size) the model of each function returns what the specification `Spec/C11.lean` prescribes.
Helper lemmas are in `Lemmas/C11.lean`.
-/
namespace GoguVerif.Theorems.C11
open GoguVerif.Spec.C11 GoguVerif.Model.C11 GoguVerif.Lemmas.C11

variable {α : Type} [DecidableEq α]

/-! ## the specification's reference function is what the statement says -/

/-- `firstOccs s` is a subsequence of `s` without repetition that holds exactly the values of `s`. -/
theorem firstOccs_characterised (s : List α) :
    (firstOccs s).Sublist s ∧ (firstOccs s).Nodup ∧ ∀ x, x ∈ firstOccs s ↔ x ∈ s :=
  ⟨firstOccs_sublist s, firstOccs_nodup s, mem_firstOccs s⟩

/-- … and the occurrence it keeps is the first one: reading left to right, a value is kept exactly
when it has not occurred before. -/
theorem firstOccs_append (a b : List α) :
    firstOccs (a ++ b) = firstOccs a ++ (firstOccs b).filter (fun y => decide (y ∉ a)) := by
  induction a with
  | nil =>
    simp [firstOccs, filter_const_true]
  | cons x r ih =>
    simp only [List.cons_append, firstOccs, ih, List.filter_append, List.filter_filter]
    congr 2
    apply List.filter_congr
    intro y _
    by_cases hy : y = x <;> simp [hy]

/-- `firstBy f s`: a subsequence of `s`, pairwise distinct images, every image of `s` represented. -/
theorem firstBy_characterised (f : α → α) (s : List α) :
    (firstBy f s).Sublist s ∧ (firstBy f s).Pairwise (fun a b => f a ≠ f b)
      ∧ ∀ y, y ∈ (firstBy f s).map f ↔ y ∈ s.map f :=
  ⟨firstBy_sublist f s, firstBy_pairwise f s, mem_firstBy_image f s⟩

/-! ## Unique, UniqueBy -/

/-- `Unique` keeps the first occurrence of each distinct value, in order. -/
theorem unique_spec (s : List α) : unique s = uniqueRef s := by
  simp [unique, uniqueRef, uniqueLoop_eq]

/-- `UniqueBy` keeps the first element of each distinct image under the key function. -/
theorem uniqueBy_spec (f : α → α) (s : List α) : uniqueBy s f = uniqueByRef f s := by
  simp [uniqueBy, uniqueByRef, uniqueByLoop_eq]

/-! ## Union -/

/-- `Union` of an arbitrarily nested input is `Unique` of its left-to-right flattening, and an
error exactly when a malformed leaf occurs anywhere. -/
theorem union_spec (n : Nested α) : union n = unionRef n := by
  simp only [union, unionRef, baseFlatten_eq]
  by_cases h : n.wellFormed = true
  · simp [h, unique_spec, uniqueRef]
  · simp [h]

/-- malformed nesting yields an error, never a silent (empty) result -/
theorem union_error_iff (n : Nested α) : union n = none ↔ n.wellFormed = false := by
  rw [union_spec, unionRef]
  by_cases h : n.wellFormed = true <;> simp [h]

/-! ## Intersection -/

/-- `Intersection`: the distinct values of the first argument, in its order, that occur in every
other argument (any number of other arguments, including none). -/
theorem intersection_spec (s : List α) (others : List (List α)) :
    intersection (s :: others) = .ok (interRef s others) := by
  simp only [intersection, List.length_cons, interLoop_eq_keep, keepLoop_eq_unique, uniqueLoop_eq, interRef]
  simp

/-- with no argument at all the code indexes `params[0]`: a run-time panic (outside the property's
domain; the model predicts it and the correspondence run checks the prediction) -/
theorem intersection_no_argument : intersection ([] : List (List α)) = .panic := rfl

/-! ## Difference, Without -/

theorem difference_spec (s t : List α) : difference s t = diffRef s t := by
  simp only [difference, diffLoop_eq_unique, uniqueLoop_eq, diffRef, skipEq_eq]
  simp

theorem without_spec (s values : List α) : without s values = diffRef s values := by
  simp only [without, diffLoop_eq_unique, uniqueLoop_eq, diffRef, skipEq_eq]
  simp

/-! ## the `By` variants -/

/-- a result that is the de-duplicated filter satisfies the relational reading -/
theorem byHolds_of_eq (cond : α → Bool) (s : List α) : ByHolds cond s (firstOccs (s.filter cond)) := by
  refine ⟨(firstOccs_sublist _).trans List.filter_sublist, ?_, ?_⟩
  · intro x hx
    rw [mem_firstOccs, List.mem_filter] at hx
    exact hx.2
  · intro x hx hc
    rw [mem_firstOccs, List.mem_filter]
    exact ⟨hx, hc⟩

/-- what `DifferenceBy` returns exactly (it collapses equal elements) -/
theorem differenceBy_eq (f : α → α) (s t : List α) :
    differenceBy s t f = firstOccs (s.filter (diffByCond f t)) := by
  have hc : diffByCond f t = fun x => decide (f x ∉ t.map f) := rfl
  simp only [differenceBy, diffByLoop_eq_unique, uniqueLoop_eq, skipByEq_eq, hc,
    List.not_mem_nil, not_false_eq_true, decide_true, filter_const_true, List.nil_append]
  congr 1
  apply List.filter_congr
  intro x _
  by_cases h : f x ∈ t.map f <;> simp [h]

/-- `DifferenceBy` keeps, in order, the elements of the first argument whose image does not occur
among the images of the second. -/
theorem differenceBy_spec (f : α → α) (s t : List α) :
    ByHolds (diffByCond f t) s (differenceBy s t f) := by
  rw [differenceBy_eq]; exact byHolds_of_eq _ _

/-- what `IntersectionBy` returns exactly -/
theorem intersectionBy_eq (f : α → α) (s : List α) (others : List (List α)) :
    intersectionBy f (s :: others) = .ok (firstOccs (s.filter (interByCond f others))) := by
  simp only [intersectionBy, List.length_cons, interByLoop_eq_keep, keepLoop_eq_unique, uniqueLoop_eq]
  simp

/-- `IntersectionBy` keeps, in order, the elements of the first argument whose image occurs among
the images of every other argument. -/
theorem intersectionBy_spec (f : α → α) (s : List α) (others : List (List α)) :
    ∃ r, intersectionBy f (s :: others) = .ok r ∧ ByHolds (interByCond f others) s r :=
  ⟨_, intersectionBy_eq f s others, byHolds_of_eq _ _⟩

theorem intersectionBy_no_argument (f : α → α) :
    intersectionBy f ([] : List (List α)) = .panic := rfl

/-! ## Duplicate, DuplicateWithIndex (results come out of a Go map: every iteration order) -/

/-- `Duplicate` returns exactly the values occurring more than once, each once — whatever order Go
iterates the counting map in (`m'` is any permutation of the map built by the first loop). -/
theorem duplicate_spec (s : List α) (m' : List (α × Nat)) (hp : m'.Perm (dupCountLoop [] s)) :
    DupHolds s (dupCollect m') := by
  have inv := dupCountLoop_inv [] [] s countInv_nil
  simp only [List.nil_append] at inv
  exact dupCollect_holds s _ m' inv hp

/-- the hypothesis of `duplicate_spec` is satisfiable by a non-trivial input and a non-identity order -/
example : DupHolds [1, 2, 1, 3, 2] (dupCollect [(2, 2), (3, 1), (1, 2)]) :=
  duplicate_spec [1, 2, 1, 3, 2] [(2, 2), (3, 1), (1, 2)] (by decide)

/-- in particular for the insertion order used by the executable model -/
theorem duplicate_spec_insertion_order (s : List α) : DupHolds s (duplicate s) :=
  duplicate_spec s _ (List.Perm.refl _)

/-- `DuplicateWithIndex` maps exactly the values occurring more than once to the index of their
first occurrence, whatever the iteration order of its map (and although the code shares one `count`
variable between all values). -/
theorem duplicateWithIndex_spec (s : List α) (m' : List (α × Nat × Nat))
    (hp : m'.Perm (dupIdxLoop 0 [] 0 s)) : DupIdxHolds s (dupIdxCollect m') := by
  have inv := dupIdxLoop_inv 0 [] [] s idxInv_nil (fun h => absurd rfl h)
  simp only [List.nil_append, List.length_nil] at inv
  exact dupIdxCollect_holds s _ m' inv hp

example : DupIdxHolds [7, 8, 7, 9, 8, 7] (dupIdxCollect [(9, 3, 1), (8, 1, 2), (7, 0, 3)]) :=
  duplicateWithIndex_spec [7, 8, 7, 9, 8, 7] [(9, 3, 1), (8, 1, 2), (7, 0, 3)] (by decide)

theorem duplicateWithIndex_spec_insertion_order (s : List α) :
    DupIdxHolds s (duplicateWithIndex s) :=
  duplicateWithIndex_spec s _ (List.Perm.refl _)

/-! ## the general clauses of the statement -/

/-- the plain functions never repeat a value -/
theorem plain_results_nodup (s t : List α) (others : List (List α)) (n : Nested α) :
    (unique s).Nodup ∧ (difference s t).Nodup ∧ (without s t).Nodup
      ∧ (∀ r, intersection (s :: others) = .ok r → r.Nodup)
      ∧ (∀ r, union n = some r → r.Nodup) := by
  refine ⟨?_, ?_, ?_, ?_, ?_⟩
  · rw [unique_spec]; exact firstOccs_nodup _
  · rw [difference_spec]; exact firstOccs_nodup _
  · rw [without_spec]; exact firstOccs_nodup _
  · intro r h
    rw [intersection_spec] at h
    cases h; exact firstOccs_nodup _
  · intro r h
    rw [union_spec, unionRef] at h
    by_cases hw : n.wellFormed = true
    · simp only [hw, if_true, Option.some.injEq] at h
      subst h; exact firstOccs_nodup _
    · simp [hw] at h

/-- no result contains a value absent from the first input -/
theorem results_within_first_input (f : α → α) (s t : List α) (others : List (List α)) (n : Nested α) (x : α) :
    (x ∈ unique s → x ∈ s) ∧ (x ∈ uniqueBy s f → x ∈ s)
      ∧ (x ∈ difference s t → x ∈ s) ∧ (x ∈ without s t → x ∈ s) ∧ (x ∈ differenceBy s t f → x ∈ s)
      ∧ (∀ r, intersection (s :: others) = .ok r → x ∈ r → x ∈ s)
      ∧ (∀ r, intersectionBy f (s :: others) = .ok r → x ∈ r → x ∈ s)
      ∧ (∀ r, union n = some r → x ∈ r → x ∈ n.leaves)
      ∧ (∀ m', m'.Perm (dupCountLoop [] s) → x ∈ dupCollect m' → x ∈ s)
      ∧ (∀ m' i, m'.Perm (dupIdxLoop 0 [] 0 s) → (x, i) ∈ dupIdxCollect m' → x ∈ s) := by
  refine ⟨?_, ?_, ?_, ?_, ?_, ?_, ?_, ?_, ?_, ?_⟩
  · rw [unique_spec]; exact fun h => (firstOccs_sublist s).subset h
  · rw [uniqueBy_spec]; exact fun h => (firstBy_sublist f s).subset h
  · rw [difference_spec]; exact fun h => ((firstOccs_sublist _).trans List.filter_sublist).subset h
  · rw [without_spec]; exact fun h => ((firstOccs_sublist _).trans List.filter_sublist).subset h
  · exact fun h => (differenceBy_spec f s t).1.subset h
  · intro r h
    rw [intersection_spec] at h
    cases h; exact fun h => ((firstOccs_sublist _).trans List.filter_sublist).subset h
  · intro r h
    rw [intersectionBy_eq] at h
    cases h; exact fun h => ((firstOccs_sublist _).trans List.filter_sublist).subset h
  · intro r h
    rw [union_spec, unionRef] at h
    by_cases hw : n.wellFormed = true
    · simp only [hw, if_true, Option.some.injEq] at h
      subst h; exact fun h => (firstOccs_sublist _).subset h
    · simp [hw] at h
  · intro m' hp hx
    have := ((duplicate_spec s m' hp).2 x).mp hx
    exact List.count_pos_iff.mp (by omega)
  · intro m' i hp hx
    have := ((duplicateWithIndex_spec s m' hp).2 x i).mp hx
    exact List.count_pos_iff.mp (by omega)

/-! ## the monitors decide the specification -/

theorem dupCheck_iff (s r : List α) : dupCheck s r = true ↔ DupHolds s r := by
  simp only [dupCheck, DupHolds, Bool.and_eq_true, decide_eq_true_eq, List.all_eq_true]
  constructor
  · rintro ⟨⟨hn, h1⟩, h2⟩
    refine ⟨hn, fun x => ⟨h1 x, fun hx => h2 x (List.count_pos_iff.mp (by omega)) hx⟩⟩
  · rintro ⟨hn, h⟩
    exact ⟨⟨hn, fun x hx => (h x).mp hx⟩, fun x _ hc => (h x).mpr hc⟩

theorem dupIdxCheck_iff (s : List α) (r : List (α × Nat)) : dupIdxCheck s r = true ↔ DupIdxHolds s r := by
  simp only [dupIdxCheck, DupIdxHolds, Bool.and_eq_true, decide_eq_true_eq, List.all_eq_true]
  constructor
  · rintro ⟨⟨hn, h1⟩, h2⟩
    refine ⟨hn, fun k i => ⟨fun h => h1 (k, i) h, fun ⟨hc, hi⟩ => ?_⟩⟩
    have := h2 k (List.count_pos_iff.mp (by omega)) hc
    rwa [hi] at this
  · rintro ⟨hn, h⟩
    exact ⟨⟨hn, fun p hp => (h p.1 p.2).mp hp⟩, fun x _ hc => (h x _).mpr ⟨hc, rfl⟩⟩

theorem byCheck_iff (cond : α → Bool) (s r : List α) : byCheck cond s r = true ↔ ByHolds cond s r := by
  simp only [byCheck, ByHolds, Bool.and_eq_true, List.isSublist_iff_sublist, List.all_eq_true,
    Bool.or_eq_true, Bool.not_eq_true', decide_eq_true_eq]
  constructor
  · rintro ⟨⟨h1, h2⟩, h3⟩
    refine ⟨h1, h2, fun x hx hc => ?_⟩
    rcases h3 x hx with h | h
    · rw [hc] at h; cases h
    · exact h
  · rintro ⟨h1, h2, h3⟩
    refine ⟨⟨h1, h2⟩, fun x hx => ?_⟩
    by_cases hc : cond x = true
    · exact Or.inr (h3 x hx hc)
    · exact Or.inl (by simpa using hc)

/-- the `Union` monitor accepts exactly: an error on malformed nesting, and otherwise no error
together with `Unique` of the flattening -/
theorem unionCheck_iff (n : Nested α) (isErr : Bool) (r : List α) :
    unionCheck n isErr r = true ↔
      (n.wellFormed = false ∧ isErr = true) ∨
      (n.wellFormed = true ∧ isErr = false ∧ r = firstOccs n.leaves) := by
  simp only [unionCheck, unionRef]
  by_cases h : n.wellFormed = true <;> simp [h]

/-! ## concrete evaluations (the models compute; inputs with duplicates, empty and partial overlaps) -/

example : unique [2, 1, 2, 1, 3] = [2, 1, 3] := by decide
example : uniqueBy [1, 3, 2, 4, -1, -3] (fun x : Int => Int.tmod x 2) = [1, 2, -1] := by decide
example : intersection [[1, 2, 2, 3, 1], [2, 1], [1, 2, 3]] = .ok [1, 2] := by decide
example : intersectionBy (fun x : Int => Int.tdiv x 2) [[1, 2], [1, 2]] = .ok [1, 2] := by decide
example : difference [1, 2, 1, 3, 2] [2] = [1, 3] := by decide
example : differenceBy [2, 3, 2, 3, 4] [5] (fun x : Int => Int.tdiv x 2) = [2, 3] := by decide
example : union (.list [.slice [1, 2], .list [.leaf 2, .list [.leaf 3, .list [.leaf 1, .leaf 4]]], .slice []])
    = some [1, 2, 3, 4] := by decide
example : union (.list [.leaf 1, .list [.leaf (2 : Int), .bad]]) = none := by decide
example : duplicateWithIndex [1, 2, 2, 1] = [(1, 0), (2, 1)] := by decide

/-! ## negation witness: the code before commit 2634aef

`IntersectionBy` used to test `Contains(result, fn(item))`, comparing an element's *image* with the
already kept *values*.  That loop (transcribed below) leaves the specification: with `fn = x/2` it
drops `2` from `[1, 2]` although the image of `2` occurs among the images of `[1, 2]`. -/

def interByLoopBefore2634aef (fn : α → α) (n : Nat) (others : List (List α)) (result : List α) :
    List α → List α
  | [] => result
  | item :: rest =>
    if contains (fn item) result then interByLoopBefore2634aef fn n others result rest
    else if interByScan fn item others 1 = n then
      interByLoopBefore2634aef fn n others (result ++ [item]) rest
    else interByLoopBefore2634aef fn n others result rest

example : ¬ ByHolds (interByCond (fun x : Int => Int.tdiv x 2) [[1, 2]]) [1, 2]
    (interByLoopBefore2634aef (fun x : Int => Int.tdiv x 2) 2 [[1, 2]] [] [1, 2]) := by
  rw [← byCheck_iff]; decide

end GoguVerif.Theorems.C11
