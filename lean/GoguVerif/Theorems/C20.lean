import GoguVerif.Lemmas.C20
import GoguVerif.Lemmas.C20T
import GoguVerif.Lemmas.C20T2
import GoguVerif.Lemmas.C20L
/-!
# C20 — property theorems (Delay, debounce and throttle never fire early or more often than allowed)

All statements are about the timed models of `Model/C20.lean` (which mirror `func.go`) and hold for
every wait / duration, every history of events (calls, cancels, `Next` calls, passages of time of any
length) and — for the throttle — every choice of which blocked caller wins a wake-up.
-/
namespace GoguVerif.Theorems.C20
open GoguVerif.Spec.C20 GoguVerif.Model.C20 GoguVerif.Lemmas.C20 GoguVerif.Lemmas.C20T GoguVerif.Lemmas.C20T2 GoguVerif.Lemmas.C20L

/-! ## Debounce -/

/-- **Never early, most recent call, none after cancel.**  Every execution of the debounced callback
satisfies the specification `FireOK`: it belongs to a `call` event `i` at instant `tc`, runs no
earlier than `tc + wait`, and every event after `i` that happens before the execution is a passage
of time — no newer call (so `i` is the most recent call) and no cancel. -/
theorem debounce_fire_ok (wait : Nat) (evs : List DEv) :
    ∀ fr ∈ (drun wait evs).fired, FireOK wait evs fr.f fr.idx fr.tc := by
  intro fr hfr
  have h := (drun_inv wait evs).fired fr hfr
  refine ⟨h.isCall, h.callTime, by have := h.exact; omega, ?_⟩
  intro k e hik hke hlt
  by_cases hk : k ≤ fr.at
  · exact h.between k e hik hk hke
  · have := clock_take_mono evs (show fr.at + 1 ≤ k by omega)
    have := h.fired_by
    omega

/-- the execution happens exactly at the deadline `tc + wait` (virtual time) -/
theorem debounce_fire_exact (wait : Nat) (evs : List DEv) :
    ∀ fr ∈ (drun wait evs).fired, fr.f = fr.tc + wait :=
  fun fr hfr => ((drun_inv wait evs).fired fr hfr).exact

/-- the same in terms of positions: the execution happens during event `at ≥ i`, event `i` is a call,
and every event in between (including `at` itself when `at ≠ i`) is a passage of time -/
theorem debounce_between_advances (wait : Nat) (evs : List DEv) :
    ∀ fr ∈ (drun wait evs).fired, fr.idx ≤ fr.at ∧ fr.at < evs.length ∧ evs[fr.idx]? = some DEv.call ∧
      ∀ k e, fr.idx < k → k ≤ fr.at → evs[k]? = some e → e.isAdvance = true := by
  intro fr hfr
  have h := (drun_inv wait evs).fired fr hfr
  exact ⟨h.idx_le, h.at_lt, h.isCall, h.between⟩

/-- **At most once per burst**: no call is executed twice (the scheduling calls of the executions are
pairwise different — and by `debounce_fire_ok` each is the last call of its burst). -/
theorem debounce_at_most_once (wait : Nat) (evs : List DEv) :
    ((drun wait evs).fired.map (·.idx)).Nodup := by
  have h := (drun_inv wait evs).sorted
  rw [List.Nodup, List.pairwise_map]
  exact h.imp (fun hab => by omega)

theorem debounce_unique (wait : Nat) (evs : List DEv) {a b : Fire}
    (ha : a ∈ (drun wait evs).fired) (hb : b ∈ (drun wait evs).fired) (h : a.idx = b.idx) : a = b :=
  pairwise_idx_inj (drun_inv wait evs).sorted ha hb h

/-- at most one timer is pending at any time: structural (`pending : Option Pending`); its deadline
lies in the future and it belongs to the last call -/
theorem debounce_pending (wait : Nat) (evs : List DEv) :
    ∀ p, (drun wait evs).pending = some p →
      clock evs < p.deadline ∧ p.deadline = p.tc + wait ∧ evs[p.idx]? = some DEv.call ∧
      ∀ k e, p.idx < k → evs[k]? = some e → e.isAdvance = true := by
  intro p hp
  have h := drun_inv wait evs
  obtain ⟨hpi, hlt⟩ := h.pend p hp
  exact ⟨by rw [← h.now_eq]; exact hlt, hpi.exact, hpi.isCall, hpi.after⟩

/-- all events of `l` are passages of time -/
def AllAdv (l : List DEv) : Prop := ∀ e ∈ l, e.isAdvance = true

theorem fired_mono_step (wait : Nat) (s : DState) (e : DEv) :
    ∀ fr ∈ s.fired, fr ∈ (dstep wait s e).fired := by
  intro fr hfr
  rw [dstep_eq]
  have hd : (dpre wait s e).fired = s.fired := by cases e <;> rfl
  unfold DState.settle
  cases hp : (dpre wait s e).pending with
  | none => simp only; rw [hd]; exact hfr
  | some p =>
    simp only
    by_cases hdl : p.deadline ≤ (dpre wait s e).now
    · rw [if_pos hdl]; simp only [List.mem_append]; left; rw [hd]; exact hfr
    · rw [if_neg hdl]; rw [hd]; exact hfr

/-- the call `i` has been executed at `D`, or is still pending with its deadline ahead -/
def Served (D : Int) (i : Nat) (tc : Int) (s : DState) : Prop :=
  (∃ fr ∈ s.fired, fr.idx = i ∧ fr.f = D) ∨
  (s.pending = some { deadline := D, idx := i, tc := tc } ∧ s.now < D)

theorem served_settle (D : Int) (i : Nat) (tc : Int) (s : DState)
    (h : (∃ fr ∈ s.fired, fr.idx = i ∧ fr.f = D) ∨ s.pending = some { deadline := D, idx := i, tc := tc }) :
    Served D i tc { s.settle with n := s.settle.n + 1 } := by
  unfold DState.settle
  rcases h with ⟨fr, hfr, h1, h2⟩ | hp
  · left
    refine ⟨fr, ?_, h1, h2⟩
    cases hq : s.pending with
    | none => simpa using hfr
    | some q =>
      simp only
      by_cases hd : q.deadline ≤ s.now
      · rw [if_pos hd]; simp only [List.mem_append]; left; exact hfr
      · rw [if_neg hd]; exact hfr
  · rw [hp]
    simp only
    by_cases hd : D ≤ s.now
    · rw [if_pos hd]; left
      exact ⟨⟨D, i, tc, s.n⟩, by simp, rfl, rfl⟩
    · rw [if_neg hd]; right
      exact ⟨hp, by show s.now < D; omega⟩

theorem served_advance (wait : Nat) (D : Int) (i : Nat) (tc : Int) (s : DState) (dt : Nat)
    (h : Served D i tc s) : Served D i tc (dstep wait s (.advance dt)) := by
  rw [dstep_eq]
  apply served_settle
  rcases h with h | ⟨hp, _⟩
  · left; exact h
  · right; exact hp

theorem served_fold (wait : Nat) (D : Int) (i : Nat) (tc : Int) :
    ∀ (advs : List DEv) (s : DState), AllAdv advs → Served D i tc s →
      Served D i tc (advs.foldl (dstep wait) s) := by
  intro advs
  induction advs with
  | nil => intro s _ h; exact h
  | cons e r ih =>
    intro s ha h
    have he : e.isAdvance = true := ha e (by simp)
    have hr : AllAdv r := fun x hx => ha x (by simp [hx])
    cases e with
    | advance dt => exact ih _ hr (served_advance wait D i tc s dt h)
    | call => cases he
    | cancel => cases he

/-- **Completeness.**  If the last call-or-cancel of a history is a call (at position `pre.length`,
instant `clock pre`) and at least `wait` has passed since, that call has been executed exactly once,
at `clock pre + wait`. -/
theorem debounce_completeness (wait : Nat) (pre advs : List DEv) (hadv : AllAdv advs)
    (hlong : (wait : Int) ≤ clock advs) :
    ∃ fr ∈ (drun wait (pre ++ DEv.call :: advs)).fired,
      fr.idx = pre.length ∧ fr.f = clock pre + wait ∧
      ∀ fr' ∈ (drun wait (pre ++ DEv.call :: advs)).fired, fr'.idx = pre.length → fr' = fr := by
  have hinv := drun_inv wait (pre ++ DEv.call :: advs)
  have hpre := drun_inv wait pre
  have hrun : drun wait (pre ++ DEv.call :: advs) =
      advs.foldl (dstep wait) (dstep wait (drun wait pre) .call) := by
    simp [drun, List.foldl_append]
  have h1 : Served (clock pre + wait) pre.length (clock pre) (dstep wait (drun wait pre) .call) := by
    rw [dstep_eq]
    apply served_settle
    right
    simp [dpre, hpre.n_eq, hpre.now_eq]
  have h2 := served_fold wait _ _ _ advs _ hadv h1
  rw [← hrun] at h2
  rcases h2 with ⟨fr, hfr, hi, hf⟩ | ⟨_, hlt⟩
  · exact ⟨fr, hfr, hi, hf, fun fr' hfr' hi' => debounce_unique wait _ hfr' hfr (by omega)⟩
  · exfalso
    rw [hinv.now_eq, clock_append] at hlt
    simp only [clock, DEv.dt] at hlt
    omega

/-- the decidable monitor clause agrees with the specification predicate -/
theorem fireOKb_iff (wait : Nat) (evs : List DEv) (f : Int) (i : Nat) (tc : Int) :
    fireOKb wait evs f i tc = true ↔ FireOK wait evs f i tc := by
  constructor
  · intro h
    simp only [fireOKb, Bool.and_eq_true, beq_iff_eq, decide_eq_true_eq, List.all_eq_true,
      List.mem_range] at h
    obtain ⟨⟨⟨h1, h2⟩, h3⟩, h4⟩ := h
    refine ⟨h1, h2, h3, ?_⟩
    intro k e hik hke hlt
    have hk : k < evs.length := by
      rcases List.getElem?_eq_some_iff.mp hke with ⟨hk, _⟩; exact hk
    have := h4 k hk
    rw [hke] at this
    simpa [hik, hlt] using this
  · intro h
    simp only [fireOKb, Bool.and_eq_true, beq_iff_eq, decide_eq_true_eq, List.all_eq_true,
      List.mem_range]
    refine ⟨⟨⟨h.isCall, h.callTime⟩, h.notEarly⟩, ?_⟩
    intro k _
    cases hke : evs[k]? with
    | none => rfl
    | some e =>
      simp only [Bool.or_eq_true, Bool.not_eq_true', Bool.and_eq_false_iff, decide_eq_false_iff_not]
      by_cases hik : i < k
      · by_cases hlt : clock (evs.take k) < f
        · right; exact h.mostRecent k e hik hke hlt
        · left; right; exact hlt
      · left; left; exact hik

/-! Non-vacuity: a burst of three calls 4 ms apart (wait 10) runs once, for the last call, at 18;
a cancelled call does not run; the completeness hypotheses are satisfiable. -/
example : (drun 10 [.call, .advance 4, .call, .advance 4, .call, .advance 9, .advance 1, .advance 30]).fired =
    [{ f := 18, idx := 4, tc := 8, «at» := 6 }] := by decide
example : (drun 10 [.call, .advance 9, .cancel, .advance 30]).fired = [] := by decide
example : AllAdv [.advance 9, .advance 1] ∧ ((10 : Nat) : Int) ≤ clock [.advance 9, .advance 1] := by
  constructor
  · intro e he; simp at he; rcases he with rfl | rfl <;> rfl
  · decide

/-! ## Throttle

`trun cfg ch evs` is the state after the history `evs` under the choice function `ch` (which blocked
caller wins a wake-up).  `grants` are the permissions (`Next` returning true) in the order they were
handed out, each stamped with the instant of the return. -/

/-- **At most one permission per period.**  Consecutive permissions are at least `duration` apart —
strictly more when not trailing — for every history and every choice function (the specification's
own checker `spacedOK` accepts the model's permission instants). -/
theorem throttle_spacing (cfg : TCfg) (ch : Choice) (evs : List TEv) :
    spacedOK cfg.dur cfg.trailing ((trun cfg ch evs).grants.map (·.t)) = true :=
  (trun_inv cfg ch evs).spaced

theorem spacedOK_get (dur : Nat) (trailing : Bool) :
    ∀ (l : List Int) (k : Nat) (a b : Int), spacedOK dur trailing l = true →
      l[k]? = some a → l[k + 1]? = some b → gapOK dur trailing a b = true := by
  intro l
  induction l with
  | nil => intro k a b _ h; simp at h
  | cons x r ih =>
    intro k a b hs ha hb
    cases r with
    | nil => simp at hb
    | cons y r =>
      simp only [spacedOK, Bool.and_eq_true] at hs
      cases k with
      | zero =>
        simp only [List.getElem?_cons_zero, Option.some.injEq] at ha
        simp only [List.getElem?_cons_succ, List.getElem?_cons_zero, Option.some.injEq] at hb
        subst ha; subst hb; exact hs.1
      | succ k =>
        simp only [List.getElem?_cons_succ] at ha hb
        exact ih k a b hs.2 ha (by simpa using hb)

/-- the spacing inequality in both forms, for any two consecutive permissions -/
theorem throttle_spacing_pairs (cfg : TCfg) (ch : Choice) (evs : List TEv) (k : Nat) (a b : Grant)
    (ha : (trun cfg ch evs).grants[k]? = some a) (hb : (trun cfg ch evs).grants[k + 1]? = some b) :
    a.t + cfg.dur ≤ b.t ∧ (cfg.trailing = false → a.t + cfg.dur < b.t) := by
  have h := spacedOK_get cfg.dur cfg.trailing _ k a.t b.t (throttle_spacing cfg ch evs)
    (by simp [List.getElem?_map, ha]) (by simp [List.getElem?_map, hb])
  unfold gapOK at h
  cases ht : cfg.trailing <;> simp [ht] at h
  · exact ⟨by omega, fun _ => h⟩
  · exact ⟨h, fun h' => by cases h'⟩

/-- **One permission per trigger epoch.**  The `k`-th permission (0-based) answers a `Call` that
happened when exactly `k` permissions had been handed out — i.e. after the previous permission and
before this one — and not later than the permission itself; when not trailing, that `Call` happened
after the previous period had ended (a trigger inside the period is never kept). -/
theorem throttle_triggered (cfg : TCfg) (ch : Choice) (evs : List TEv) (k : Nat) (g : Grant)
    (hg : (trun cfg ch evs).grants[k]? = some g) :
    (g.ctime, k) ∈ (trun cfg ch evs).calls ∧ g.ctime ≤ g.t ∧
    (cfg.trailing = false → ∀ k' g', k = k' + 1 → (trun cfg ch evs).grants[k']? = some g' →
      g'.t + cfg.dur < g.ctime) := by
  have h := trun_inv cfg ch evs
  have hmem : g ∈ (trun cfg ch evs).grants := List.mem_of_getElem? hg
  obtain ⟨h1, h2, h3⟩ := h.gr g hmem
  have he := h.epochs k g hg
  refine ⟨by rw [← he]; exact h1, h2, ?_⟩
  intro htr k' g' hk hg'
  subst hk
  exact h3 g'.t (h.chain k' g g' hg' hg) htr

/-- every logged trigger's epoch is at most the number of permissions handed out so far: a trigger
cannot answer a permission that precedes it -/
theorem throttle_calls_epoch (cfg : TCfg) (ch : Choice) (evs : List TEv) :
    ∀ c ∈ (trun cfg ch evs).calls, c.2 ≤ (trun cfg ch evs).grants.length :=
  fun c hc => ((trun_inv cfg ch evs).calls_ep c hc).1

theorem pickFrom_length : ∀ (c b : Nat) (bs : List Nat), (pickFrom c b bs).2.length = bs.length := by
  intro c
  induction c with
  | zero => intro b bs; rfl
  | succ c ih =>
    intro b bs
    cases bs with
    | nil => rfl
    | cons b' bs => simp [pickFrom, ih b' bs]

/-- **One permission per grant, regardless of the number of blocked callers**: a wake-up hands out
exactly one permission when somebody is blocked (exactly one caller leaves, the others stay
blocked), none otherwise — whichever caller the scheduler picks. -/
theorem wake_one_permission (ch : Choice) (s : TState) (w : Int × Nat) :
    (s.blocked = [] → (wake ch s w).grants = s.grants ∧ (wake ch s w).waiting = true) ∧
    (s.blocked ≠ [] → (wake ch s w).grants.length = s.grants.length + 1 ∧
      (wake ch s w).blocked.length + 1 = s.blocked.length ∧ (wake ch s w).waiting = false) := by
  unfold wake
  cases hb : s.blocked with
  | nil => simp
  | cons b bs => simp [grantTo, pickFrom_length]

/-- no one is blocked while a permission is waiting or after cancel -/
theorem throttle_blocked (cfg : TCfg) (ch : Choice) (evs : List TEv) :
    ((trun cfg ch evs).waiting = true ∨ (trun cfg ch evs).stop = true) → (trun cfg ch evs).blocked = [] := by
  have h := trun_inv cfg ch evs
  intro hc
  cases hs : (trun cfg ch evs).stop with
  | true => exact h.bs hs
  | false =>
    rcases hc with hc | hc
    · exact h.bw hc hs
    · rw [hs] at hc; cases hc

/-! ### Cancel -/

/-- `Cancel`: every blocked `Next` returns false at the cancel instant; no permission is handed out -/
theorem tcancel_spec (s : TState) :
    (tcancel s).stop = true ∧ (tcancel s).blocked = [] ∧ (tcancel s).grants = s.grants ∧
    (tcancel s).falses = s.falses ++ s.blocked.map (fun id => (s.now, id)) :=
  ⟨rfl, rfl, rfl, rfl⟩

theorem advanceTo_stop (ch : Choice) (s : TState) (t : Int) (hs : s.stop = true) :
    (advanceTo ch s t).stop = true ∧ (advanceTo ch s t).grants = s.grants ∧
    (advanceTo ch s t).falses = s.falses ∧ (advanceTo ch s t).blocked = s.blocked := by
  unfold advanceTo
  split
  · split
    · simp [fire, hs]
    · simp [hs]
  · simp [hs]

/-- once stopped, every step keeps the permissions as they are, and a `Next` returns false at once -/
theorem stop_step (cfg : TCfg) (ch : Choice) (s : TState) (e : TEv) (hs : s.stop = true)
    (hb : s.blocked = []) :
    (tstep cfg ch s e).stop = true ∧ (tstep cfg ch s e).grants = s.grants ∧
    (tstep cfg ch s e).blocked = [] ∧
    (∀ id, e = .next id → (tstep cfg ch s e).falses = s.falses ++ [(s.now, id)]) := by
  cases e with
  | call =>
    unfold tstep; dsimp only
    have h1 : tcall cfg ch s = logCall s := by
      unfold tcall; simp [logCall, hs]
    have := advanceTo_stop ch (logCall s) ((logCall s).now + (TEv.call.dt : Int)) hs
    rw [h1]
    exact ⟨this.1, this.2.1, by rw [this.2.2.2]; exact hb, by intro id h; cases h⟩
  | cancel =>
    unfold tstep; dsimp only
    have := advanceTo_stop ch (tcancel s) ((tcancel s).now + (TEv.cancel.dt : Int)) rfl
    exact ⟨this.1, this.2.1, by rw [this.2.2.2]; rfl, by intro id h; cases h⟩
  | next id =>
    unfold tstep; dsimp only
    have h1 : tnext s id = { s with falses := s.falses ++ [(s.now, id)], doneLog := s.doneLog ++ [(id, s.now, false)] } := by
      unfold tnext; simp [hs]
    rw [h1]
    have := advanceTo_stop ch { s with falses := s.falses ++ [(s.now, id)], doneLog := s.doneLog ++ [(id, s.now, false)] }
      (s.now + ((TEv.next id).dt : Int)) hs
    refine ⟨this.1, this.2.1, by rw [this.2.2.2]; exact hb, ?_⟩
    intro id' h; cases h; exact this.2.2.1
  | advance dt =>
    unfold tstep; dsimp only
    have := advanceTo_stop ch s (s.now + ((TEv.advance dt).dt : Int)) hs
    exact ⟨this.1, this.2.1, by rw [this.2.2.2]; exact hb, by intro id h; cases h⟩

/-- **After Cancel no permission is handed out and nobody stays blocked**, whatever follows. -/
theorem no_permission_after_cancel (cfg : TCfg) (ch : Choice) (pre post : List TEv) :
    (trun cfg ch (pre ++ TEv.cancel :: post)).grants = (trun cfg ch pre).grants ∧
    (trun cfg ch (pre ++ TEv.cancel :: post)).blocked = [] ∧
    (trun cfg ch (pre ++ TEv.cancel :: post)).stop = true := by
  have hfold : ∀ (post : List TEv) (s : TState), s.stop = true → s.blocked = [] →
      (post.foldl (tstep cfg ch) s).grants = s.grants ∧ (post.foldl (tstep cfg ch) s).blocked = [] ∧
      (post.foldl (tstep cfg ch) s).stop = true := by
    intro post
    induction post with
    | nil => intro s hs hb; exact ⟨rfl, hb, hs⟩
    | cons e r ih =>
      intro s hs hb
      obtain ⟨h1, h2, h3, _⟩ := stop_step cfg ch s e hs hb
      have := ih _ h1 h3
      exact ⟨by rw [List.foldl_cons, this.1, h2], this.2⟩
  have hc : (tstep cfg ch (trun cfg ch pre) .cancel).stop = true ∧
      (tstep cfg ch (trun cfg ch pre) .cancel).grants = (trun cfg ch pre).grants ∧
      (tstep cfg ch (trun cfg ch pre) .cancel).blocked = [] := by
    unfold tstep
    dsimp only
    have := advanceTo_stop ch (tcancel (trun cfg ch pre)) ((tcancel (trun cfg ch pre)).now + (TEv.cancel.dt : Int)) rfl
    exact ⟨this.1, this.2.1, by rw [this.2.2.2]; rfl⟩
  have hrun : trun cfg ch (pre ++ TEv.cancel :: post) =
      post.foldl (tstep cfg ch) (tstep cfg ch (trun cfg ch pre) .cancel) := by
    simp [trun, List.foldl_append]
  rw [hrun]
  have := hfold post _ hc.1 hc.2.2
  exact ⟨by rw [this.1, hc.2.1], this.2⟩

/-- the blocked callers are released with `false` at the cancel instant -/
theorem cancel_releases_blocked (cfg : TCfg) (ch : Choice) (s : TState) :
    (tstep cfg ch s .cancel).falses = s.falses ++ s.blocked.map (fun id => (s.now, id)) := by
  unfold tstep
  dsimp only
  exact (advanceTo_stop ch (tcancel s) _ rfl).2.2.1

/-! ### Triggers inside the period -/

/-- **A trigger inside the period is dropped when not trailing**: in a reachable state with
`since(last) ≤ duration` a `Call` changes nothing but the ghost log and the event counter. -/
theorem in_period_trigger_dropped (cfg : TCfg) (ch : Choice) (evs : List TEv) (l : Int)
    (htr : cfg.trailing = false) (hlast : (trun cfg ch evs).last = some l)
    (hin : (trun cfg ch evs).now - l ≤ cfg.dur) :
    tstep cfg ch (trun cfg ch evs) .call =
      { logCall (trun cfg ch evs) with n := (trun cfg ch evs).n + 1 } := by
  have h := trun_inv cfg ch evs
  have hsc := h.notrail htr
  generalize trun cfg ch evs = s at *
  have h1 : tcall cfg ch s = logCall s := by
    unfold tcall
    simp only
    have hl : (logCall s).last = some l := hlast
    split
    · rw [hl]
      simp only
      have : ¬ ((logCall s).now - l > cfg.dur) := by show ¬ (s.now - l > cfg.dur); omega
      rw [if_neg this, if_neg (by rw [htr]; simp)]
    · rfl
  unfold tstep
  dsimp only
  rw [h1]
  unfold advanceTo
  have : (logCall s).scheduled = none := hsc
  rw [this]
  simp [TEv.dt, logCall]

/-- a trigger while a permission is already waiting is coalesced with it -/
theorem waiting_trigger_coalesced (cfg : TCfg) (ch : Choice) (evs : List TEv)
    (hw : (trun cfg ch evs).waiting = true) :
    tstep cfg ch (trun cfg ch evs) .call =
      { logCall (trun cfg ch evs) with n := (trun cfg ch evs).n + 1 } := by
  have h := trun_inv cfg ch evs
  have hsc : (trun cfg ch evs).scheduled = none := by
    cases hs : (trun cfg ch evs).scheduled with
    | none => rfl
    | some sc => have := (h.sched sc hs).2.1; rw [hw] at this; cases this
  generalize trun cfg ch evs = s at *
  have h1 : tcall cfg ch s = logCall s := by
    unfold tcall
    simp only
    have : ¬ ((logCall s).waiting = false ∧ (logCall s).stop = false) := by
      intro hc; have : s.waiting = false := hc.1; rw [hw] at this; cases this
    rw [if_neg this]
  unfold tstep
  dsimp only
  rw [h1]
  unfold advanceTo
  have : (logCall s).scheduled = none := hsc
  rw [this]
  simp [TEv.dt, logCall]

/-! Non-vacuity: trailing throttle of 50 ms — permissions at 0, 50, 100 (the script of F32);
without trailing the in-period trigger is dropped; three blocked callers, one trigger: one
permission; cancel releases the blocked caller. -/
example : ((trun ⟨50, true⟩ (fun _ _ => 0)
    [.call, .next 0, .advance 1, .call, .next 1, .advance 49, .call, .next 2, .advance 50]).grants.map
      fun g => (g.t, g.id)) = [(0, 0), (50, 1), (100, 2)] := by decide
example : ((trun ⟨50, false⟩ (fun _ _ => 0)
    [.call, .next 0, .advance 1, .call, .next 1, .advance 49, .advance 50]).grants.map
      fun g => (g.t, g.id)) = [(0, 0)] := by decide
example : ((trun ⟨50, true⟩ (fun _ _ => 1) [.next 0, .next 1, .next 2, .call]).grants.map
      fun g => (g.t, g.id)) = [(0, 1)] ∧
    (trun ⟨50, true⟩ (fun _ _ => 1) [.next 0, .next 1, .next 2, .call]).blocked = [0, 2] := by decide
example : (trun ⟨50, true⟩ (fun _ _ => 0) [.next 0, .advance 3, .cancel, .next 1]).falses = [(3, 0), (3, 1)] := by
  decide
example : (trun ⟨50, false⟩ (fun _ _ => 0) [.call, .next 0, .advance 7]).last = some 0 ∧
    (trun ⟨50, false⟩ (fun _ _ => 0) [.call, .next 0, .advance 7]).now - 0 ≤ 50 := by decide

/-! ## Throttle: one permission per step, triggers as positions of the history -/

theorem trun_snoc (cfg : TCfg) (ch : Choice) (evs : List TEv) (e : TEv) :
    trun cfg ch (evs ++ [e]) = tstep cfg ch (trun cfg ch evs) e := by
  simp [trun, List.foldl_append]

/-- **A step hands out at most one permission**: whatever the event (a `Call` that wakes a blocked
caller, a `Next` that finds a permission waiting, time passing over the trailing timer's deadline)
and however many callers are blocked, the permissions after the step are those before it plus at
most one. -/
theorem throttle_step_one_permission (cfg : TCfg) (ch : Choice) (evs : List TEv) (e : TEv) :
    ∃ ext, (trun cfg ch (evs ++ [e])).grants = (trun cfg ch evs).grants ++ ext ∧ ext.length ≤ 1 := by
  rw [trun_snoc]
  exact (tstep_frame ch e (trun_inv cfg ch evs)).1

theorem tclock_append (a b : List TEv) : tclock (a ++ b) = tclock a + tclock b := by
  induction a with
  | nil => simp [tclock]
  | cons e r ih => simp only [List.cons_append, tclock, ih]; omega

theorem tfold_now (cfg : TCfg) (ch : Choice) : ∀ (evs : List TEv) (s : TState), TInv cfg s →
    (evs.foldl (tstep cfg ch) s).now = s.now + tclock evs := by
  intro evs
  induction evs with
  | nil => intro s _; simp [tclock]
  | cons e r ih =>
    intro s h
    rw [List.foldl_cons, ih _ (tstep_inv ch e h), (tstep_frame ch e h).2.2]
    simp only [tclock]; omega

/-- the model's clock is the history's clock -/
theorem trun_now (cfg : TCfg) (ch : Choice) (evs : List TEv) : (trun cfg ch evs).now = tclock evs := by
  have := tfold_now cfg ch evs {} (tinv_init cfg)
  simpa [trun] using this

theorem tfold_grants_prefix (cfg : TCfg) (ch : Choice) : ∀ (evs : List TEv) (s : TState), TInv cfg s →
    s.grants <+: (evs.foldl (tstep cfg ch) s).grants := by
  intro evs
  induction evs with
  | nil => intro s _; exact List.prefix_refl _
  | cons e r ih =>
    intro s h
    obtain ⟨ext, he, _⟩ := (tstep_frame ch e h).1
    exact List.IsPrefix.trans ⟨ext, he.symm⟩ (ih _ (tstep_inv ch e h))

/-- permissions are never taken back: the permissions after a prefix of the history are a prefix of
the permissions after the whole history -/
theorem trun_grants_prefix (cfg : TCfg) (ch : Choice) (evs : List TEv) (p : Nat) :
    (trun cfg ch (evs.take p)).grants <+: (trun cfg ch evs).grants := by
  have h := tfold_grants_prefix cfg ch (evs.drop p) (trun cfg ch (evs.take p)) (trun_inv cfg ch _)
  have : (evs.drop p).foldl (tstep cfg ch) (trun cfg ch (evs.take p)) = trun cfg ch evs := by
    unfold trun
    rw [← List.foldl_append, List.take_append_drop]
  rw [this] at h
  exact h

theorem trun_take_succ (cfg : TCfg) (ch : Choice) (evs : List TEv) (n : Nat) (x : TEv)
    (h : evs[n]? = some x) :
    trun cfg ch (evs.take (n + 1)) = tstep cfg ch (trun cfg ch (evs.take n)) x := by
  rw [List.take_add_one, h]
  exact trun_snoc cfg ch _ x

/-- **The ghost trigger log describes the history**: every logged trigger `(t, e)` is a `call` event
at some position `p` of the history, `t` is the instant of that event and `e` the number of
permissions handed out by the events before it. -/
theorem calls_positions (cfg : TCfg) (ch : Choice) (evs : List TEv) :
    ∀ n, ∀ c ∈ (trun cfg ch (evs.take n)).calls,
      ∃ p, p < n ∧ evs[p]? = some TEv.call ∧ c.1 = tclock (evs.take p) ∧
        c.2 = (trun cfg ch (evs.take p)).grants.length := by
  intro n
  induction n with
  | zero => intro c hc; simp [trun] at hc
  | succ n ih =>
    intro c hc
    cases hx : evs[n]? with
    | none =>
      have hlen : evs.length ≤ n := by
        rcases Nat.lt_or_ge n evs.length with h | h
        · have := List.getElem?_eq_getElem h; rw [hx] at this; cases this
        · exact h
      rw [List.take_of_length_le (by omega)] at hc
      rw [← List.take_of_length_le hlen] at hc
      obtain ⟨p, hp, h⟩ := ih c hc
      exact ⟨p, by omega, h⟩
    | some x =>
      rw [trun_take_succ cfg ch evs n x hx,
        (tstep_frame ch x (trun_inv cfg ch (evs.take n))).2.1, List.mem_append] at hc
      rcases hc with hc | hc
      · obtain ⟨p, hp, h⟩ := ih c hc
        exact ⟨p, by omega, h⟩
      · cases x with
        | call =>
          simp only [logOf, List.mem_singleton] at hc
          subst hc
          exact ⟨n, by omega, hx, trun_now cfg ch _, rfl⟩
        | cancel => simp [logOf] at hc
        | next id => simp [logOf] at hc
        | advance dt => simp [logOf] at hc

/-- **The trigger of the `k`-th permission is a `call` event of the history, after the previous
permission and not after this one.**  For the `k`-th permission `g` (0-based) there is a position
`p` with `evs[p] = call`, happening at the instant `g.ctime ≤ g.t`, such that
* the events before `p` have handed out exactly the permissions `0 … k-1` (so the `(k-1)`-th
  permission precedes the trigger), and
* no event before `p` has handed out the `k`-th permission (the trigger is not after it);
when not trailing the trigger came after the previous period had ended. -/
theorem throttle_trigger_position (cfg : TCfg) (ch : Choice) (evs : List TEv) (k : Nat) (g : Grant)
    (hg : (trun cfg ch evs).grants[k]? = some g) :
    ∃ p, evs[p]? = some TEv.call ∧ tclock (evs.take p) = g.ctime ∧ g.ctime ≤ g.t ∧
      (trun cfg ch (evs.take p)).grants = (trun cfg ch evs).grants.take k ∧
      (∀ q, q ≤ p → (trun cfg ch (evs.take q)).grants.length ≤ k) ∧
      (cfg.trailing = false → ∀ k' g', k = k' + 1 → (trun cfg ch evs).grants[k']? = some g' →
        g'.t + cfg.dur < g.ctime) := by
  obtain ⟨hmem, hle, hnt⟩ := throttle_triggered cfg ch evs k g hg
  have hfull : evs.take evs.length = evs := List.take_of_length_le (Nat.le_refl _)
  rw [← hfull] at hmem
  obtain ⟨p, _, hcall, ht, hk⟩ := calls_positions cfg ch evs evs.length _ hmem
  refine ⟨p, hcall, ht.symm, hle, ?_, ?_, hnt⟩
  · obtain ⟨ext, he⟩ := trun_grants_prefix cfg ch evs p
    rw [← he, List.take_append_of_le_length (by simp at hk; omega)]
    exact (List.take_of_length_le (by simp at hk; omega)).symm
  · intro q hq
    have h1 := trun_grants_prefix cfg ch (evs.take p) q
    rw [List.take_take, Nat.min_eq_left hq] at h1
    have := h1.length_le
    simp at hk
    omega

example : ∃ ext, (trun ⟨50, true⟩ (fun _ _ => 0) ([.next 0, .next 1] ++ [.call])).grants =
    (trun ⟨50, true⟩ (fun _ _ => 0) [.next 0, .next 1]).grants ++ ext ∧ ext.length ≤ 1 :=
  throttle_step_one_permission _ _ _ _

/-! ## Delay -/

/-- every pending timer's deadline and every execution's instant is `callTime + max d 0` -/
structure LInv (s : LState) : Prop where
  timers : ∀ t ∈ s.timers, t.deadline = t.tc + max t.d 0
  fired : ∀ fr ∈ s.fired, fr.f = fr.tc + max fr.d 0

theorem lsettle_inv {s : LState} (h : LInv s) : LInv s.settle where
  timers := by
    intro t ht
    simp only [LState.settle, List.mem_filter] at ht
    exact h.timers t ht.1
  fired := by
    intro fr hfr
    simp only [LState.settle, List.mem_append, List.mem_map, List.mem_filter] at hfr
    rcases hfr with hfr | ⟨t, ⟨ht, _⟩, rfl⟩
    · exact h.fired fr hfr
    · exact h.timers t ht

theorem lstep_inv {s : LState} (e : LEv) (h : LInv s) : LInv (lstep s e) := by
  unfold lstep
  dsimp only
  have hn : ∀ {s : LState}, LInv s → LInv { s with n := s.n + 1 } := fun h => ⟨h.timers, h.fired⟩
  apply hn
  apply lsettle_inv
  cases e with
  | delay d =>
    dsimp only
    refine ⟨?_, h.fired⟩
    intro t ht
    simp only [List.mem_append, List.mem_singleton] at ht
    rcases ht with ht | rfl
    · exact h.timers t ht
    · rfl
  | stop id =>
    dsimp only
    split
    · refine ⟨?_, h.fired⟩
      intro t ht
      simp only [List.mem_filter] at ht
      exact h.timers t ht.1
    · exact ⟨h.timers, h.fired⟩
  | advance dt => exact ⟨h.timers, h.fired⟩

theorem lrun_inv (evs : List LEv) : LInv (lrun evs) := by
  have : ∀ (evs : List LEv) (s : LState), LInv s → LInv (evs.foldl lstep s) := by
    intro evs
    induction evs with
    | nil => intro s h; exact h
    | cons e r ih => intro s h; exact ih _ (lstep_inv e h)
  exact this evs {} ⟨(by intro t h; cases h), (by intro t h; cases h)⟩

/-- **Delay never fires early**: every execution happens exactly `max d 0` after the `Delay` call
that scheduled it — in particular no sooner than `d` after it — for every history of `Delay`, `Stop`
and passages of time. -/
theorem delay_never_early (evs : List LEv) :
    ∀ fr ∈ (lrun evs).fired, fr.f = fr.tc + max fr.d 0 ∧ fr.tc + fr.d ≤ fr.f := by
  intro fr hfr
  have := (lrun_inv evs).fired fr hfr
  exact ⟨this, by omega⟩

example : ((lrun [.delay 5, .delay (-3), .advance 4, .stop 0, .delay 2, .advance 10]).fired.map
    fun fr => (fr.f, fr.id, fr.tc)) = [(0, 1, 0), (6, 2, 4)] := by decide

/-! ### Delay: the specification `DelayOK`, at most once, not after a successful stop, completeness

`cnt (evs.take i)` — the number of `delay` events before position `i` — is the timer id handed out by
the `delay` event at position `i`. -/

/-- **Every execution satisfies the specification `DelayOK`**: it belongs to a `delay d` event `i` at
instant `tc`, runs no earlier than `tc + d` (exactly at `tc + max d 0`, by `delay_never_early`), and
every `stop` of its timer that comes after the `delay` happens at or after the instant of the
execution (no stop before it ran). -/
theorem delay_ok (evs : List LEv) :
    ∀ fr ∈ (lrun evs).fired,
      DelayOK evs (fun i => cnt (evs.take i)) fr.f fr.idx fr.tc ∧ fr.id = cnt (evs.take fr.idx) ∧
      fr.f ≤ lclock evs := by
  intro fr hfr
  have hI := lrun_invh evs
  have h := hI.fired fr hfr
  refine ⟨⟨⟨fr.d, h.isDelay, by have := h.exact; omega⟩, h.callTime, ?_⟩, h.id_eq, by rw [← hI.now_eq]; exact h.le_now⟩
  intro k hk hx
  exact h.nostop k hk (by rw [h.id_eq]; exact hx)

/-- **At most one run per `Delay` call**: at most one execution belongs to the event at position `i` -/
theorem delay_at_most_once (evs : List LEv) (i : Nat) : firedAt i (lrun evs).fired ≤ 1 := by
  have := (lrun_invh evs).once i
  omega

/-- **No run after a successful stop**: if the timer `t` is still pending after the first `k` events
and event `k` is `stop t.id`, the callback of that `Delay` call never runs, whatever follows. -/
theorem delay_no_run_after_stop (evs : List LEv) (k : Nat) (t : LPending)
    (ht : t ∈ (lrun (evs.take k)).timers) (hx : evs[k]? = some (LEv.stop t.id)) :
    ∀ fr ∈ (lrun evs).fired, fr.idx ≠ t.idx := by
  intro fr hfr heq
  have hP := lrun_invh (evs.take k)
  obtain ⟨⟨hT, _⟩, hlt⟩ := hP.timers t ht
  have hF := (lrun_invh evs).fired fr hfr
  have hik : t.idx < k := by have := hT.idx_lt; simp at this; omega
  have hd : fr.d = t.d := by
    have h1 := hT.isDelay
    rw [List.getElem?_take, if_pos hik] at h1
    have h2 := hF.isDelay
    rw [heq, h1] at h2
    simp only [Option.some.injEq, LEv.delay.injEq] at h2
    exact h2.symm
  have htake : (evs.take k).take t.idx = evs.take t.idx := by
    rw [List.take_take, Nat.min_eq_left (by omega)]
  have htc : fr.tc = t.tc := by
    have h1 := hT.callTime
    rw [htake] at h1
    have h2 := hF.callTime
    rw [heq, h1] at h2
    exact h2.symm
  have hid : fr.id = t.id := by
    rw [hF.id_eq, hT.id_eq, htake, heq]
  have hstop := hF.nostop k (by omega) (by rw [hid]; exact hx)
  have hf := hF.exact
  have hdl := hT.exact
  rw [hP.now_eq] at hlt
  rw [hd, htc] at hf
  omega

/-- **Completeness.**  If the `delay d` event at position `i` is not stopped before its deadline
`tc + max d 0` (every `stop` of its timer comes at or after the deadline) and the clock has reached
the deadline, the callback has run exactly once, at the deadline. -/
theorem delay_completeness (evs : List LEv) (i : Nat) (d : Int) (hx : evs[i]? = some (LEv.delay d))
    (hns : ∀ k, i < k → evs[k]? = some (LEv.stop (cnt (evs.take i))) →
      lclock (evs.take i) + max d 0 ≤ lclock (evs.take k))
    (hlong : lclock (evs.take i) + max d 0 ≤ lclock evs) :
    firedAt i (lrun evs).fired = 1 ∧
    ∃ fr ∈ (lrun evs).fired, fr.idx = i ∧ fr.f = lclock (evs.take i) + max d 0 := by
  have hI := lrun_invh evs
  have hex : ∃ fr ∈ (lrun evs).fired, fr.idx = i := by
    rcases hI.served i d hx with ⟨t, ht, hti⟩ | hfr | ⟨k, hk, hxk, hlt⟩
    · exfalso
      obtain ⟨⟨hT, _⟩, hlt⟩ := hI.timers t ht
      have hd : t.d = d := by
        have := hT.isDelay; rw [hti, hx] at this; cases this; rfl
      have h1 := hT.callTime
      have h2 := hT.exact
      rw [hti] at h1
      rw [hI.now_eq] at hlt
      rw [hd] at h2
      omega
    · exact hfr
    · exfalso
      have := hns k hk hxk
      omega
  obtain ⟨fr, hfr, hi⟩ := hex
  have hF := hI.fired fr hfr
  constructor
  · have h1 := delay_at_most_once evs i
    have h2 : 0 < firedAt i (lrun evs).fired :=
      List.countP_pos_iff.mpr ⟨fr, hfr, by simp [hi]⟩
    omega
  · refine ⟨fr, hfr, hi, ?_⟩
    have hd : fr.d = d := by
      have := hF.isDelay; rw [hi, hx] at this; cases this; rfl
    have h1 := hF.callTime
    have h2 := hF.exact
    rw [hi] at h1
    rw [hd] at h2
    omega

example : (lrun ([LEv.delay 5, .advance 4].take 1)).timers.map (·.id) = [0] ∧
    (lrun [.delay 5, .stop 0, .advance 10]).fired = [] := by decide
example : firedAt 0 (lrun [.delay 5, .advance 4, .advance 1]).fired = 1 := by decide

/-! ## The monitors accept the models

`DMon` (the decidable monitor that judges the implementation's trace in the driver) is run alongside
the model: after every event the monitor is told the event, and at arbitrary points (`true` flags) it
is shown the model's execution log, exactly as the driver shows it the implementation's log.  For
every history and every choice of observation points the monitor reports no violation. -/

/-- the model's execution log in the monitor's format (fireTime, position, callTime) -/
def dlog (s : DState) : List (Int × Nat × Int) := s.fired.map fun fr => (fr.f, fr.idx, fr.tc)

/-- monitor and model side by side; the flag says whether `fired` is observed after the event -/
def dmonRun (wait : Nat) : List (DEv × Bool) → DMon → DState → Option String
  | [], _, _ => none
  | (e, o) :: r, m, s =>
    if o then
      match (m.push e).onFired (dlog (dstep wait s e)) with
      | (some c, _) => some c
      | (none, m2) => dmonRun wait r m2 (dstep wait s e)
    else dmonRun wait r (m.push e) (dstep wait s e)

theorem dstep_fired_prefix (wait : Nat) (s : DState) (e : DEv) : s.fired <+: (dstep wait s e).fired := by
  rw [dstep_eq]
  have hd : (dpre wait s e).fired = s.fired := by cases e <;> rfl
  unfold DState.settle
  cases hp : (dpre wait s e).pending with
  | none => simp only; rw [hd]; exact List.prefix_refl _
  | some p =>
    simp only
    by_cases hdl : p.deadline ≤ (dpre wait s e).now
    · rw [if_pos hdl]; rw [hd]; exact List.prefix_append _ _
    · rw [if_neg hdl]; rw [hd]; exact List.prefix_refl _

/-- what the monitor checks of one log entry -/
structure EntryOK (wait : Nat) (hist : List DEv) (x : Int × Nat × Int) : Prop where
  le_now : x.1 ≤ clock hist
  isCall : hist[x.2.1]? = some DEv.call
  callTime : clock (hist.take x.2.1) = x.2.2
  notEarly : x.2.2 + wait ≤ x.1
  ok : fireOKb wait hist x.1 x.2.1 x.2.2 = true

theorem dlog_entry_ok (wait : Nat) (hist : List DEv) :
    ∀ x ∈ dlog (drun wait hist), EntryOK wait hist x := by
  intro x hx
  simp only [dlog, List.mem_map] at hx
  obtain ⟨fr, hfr, rfl⟩ := hx
  have h := (drun_inv wait hist).fired fr hfr
  have hok := debounce_fire_ok wait hist fr hfr
  refine ⟨?_, h.isCall, h.callTime, by have := h.exact; show fr.tc + wait ≤ fr.f; omega,
    (fireOKb_iff wait hist fr.f fr.idx fr.tc).mpr hok⟩
  have := h.fired_by
  have := clock_take_le hist (fr.at + 1)
  show fr.f ≤ clock hist
  omega

theorem dlog_sorted (wait : Nat) (hist : List DEv) :
    (dlog (drun wait hist)).Pairwise (fun a b => a.2.1 < b.2.1) := by
  simp only [dlog, List.pairwise_map]
  exact (drun_inv wait hist).sorted

theorem chk_accepts (m : DMon) (hist : List DEv) (hnow : m.now = clock hist) :
    ∀ (extra old : List (Int × Nat × Int)), (∀ x ∈ extra, EntryOK m.wait hist x) →
      (old ++ extra).Pairwise (fun a b => a.2.1 < b.2.1) →
      DMon.onFired.chk m hist old extra = none := by
  intro extra
  induction extra with
  | nil => intro old _ _; rfl
  | cons x r ih =>
    intro old hok hsorted
    obtain ⟨f, i, tc⟩ := x
    have hx := hok (f, i, tc) (by simp)
    have h1 : (old.any fun o => o.2.1 == i) = false := by
      rw [List.any_eq_false]
      intro o ho
      have := (List.pairwise_append.mp hsorted).2.2 o ho (f, i, tc) (by simp)
      simp at this ⊢; omega
    have h2 : ¬ (f > m.now) := by have := hx.le_now; simp at this; omega
    have h3 : (hist[i]? != some DEv.call || clock (hist.take i) != tc) = false := by
      have a := hx.isCall; have b := hx.callTime
      simp at a b
      simp [a, b]
    have h4 : ¬ (f < tc + m.wait) := by have := hx.notEarly; simp at this; omega
    have h5 : (!(fireOKb m.wait hist f i tc)) = false := by
      have := hx.ok; simp at this; simp [this]
    rw [DMon.onFired.chk]
    simp only [h1, h2, h3, h4, h5, Bool.false_eq_true, if_false]
    exact ih (old ++ [(f, i, tc)]) (fun y hy => hok y (by simp [hy]))
      (by simpa [List.append_assoc] using hsorted)

/-- monitor and model are in step after the history `hist` -/
structure Sync (wait : Nat) (hist : List DEv) (m : DMon) (s : DState) : Prop where
  model : s = drun wait hist
  wait_eq : m.wait = wait
  rev_eq : m.rev = hist.reverse
  len_eq : m.len = hist.length
  now_eq : m.now = clock hist
  seen : m.seen <+: dlog s
  lastNA : ∀ i tc, m.lastNA = some (i, true, tc) → Served (tc + wait) i tc s

theorem sync_init (wait : Nat) : Sync wait [] { wait := wait } {} where
  model := rfl
  wait_eq := rfl
  rev_eq := rfl
  len_eq := rfl
  now_eq := rfl
  seen := List.prefix_refl _
  lastNA := by intro i tc h; cases h

theorem sync_push {wait hist m s} (e : DEv) (h : Sync wait hist m s) :
    Sync wait (hist ++ [e]) (m.push e) (dstep wait s e) where
  model := by rw [h.model]; simp [drun, List.foldl_append]
  wait_eq := h.wait_eq
  rev_eq := by simp [DMon.push, h.rev_eq]
  len_eq := by simp [DMon.push, h.len_eq]
  now_eq := by simp [DMon.push, h.now_eq, clock_snoc]
  seen := by
    have h1 : dlog s <+: dlog (dstep wait s e) := by
      obtain ⟨ext, he⟩ := dstep_fired_prefix wait s e
      exact ⟨ext.map fun fr => (fr.f, fr.idx, fr.tc), by simp [dlog, ← he]⟩
    exact List.IsPrefix.trans h.seen h1
  lastNA := by
    intro i tc hl
    have hinv := drun_inv wait hist
    rw [← h.model] at hinv
    cases e with
    | call =>
      simp only [DMon.push, DEv.isAdvance, Bool.false_eq_true, if_false, Option.some.injEq, Prod.mk.injEq] at hl
      obtain ⟨rfl, _, rfl⟩ := hl
      rw [dstep_eq]
      apply served_settle
      right
      simp [dpre, hinv.n_eq, hinv.now_eq, h.len_eq, h.now_eq]
    | cancel =>
      simp [DMon.push, DEv.isAdvance] at hl
    | advance dt =>
      simp only [DMon.push, DEv.isAdvance, if_true] at hl
      exact served_advance wait _ i tc s dt (h.lastNA i tc hl)

theorem onFired_accepts {wait hist m s} (h : Sync wait hist m s) :
    (m.onFired (dlog s)).1 = none ∧ Sync wait hist (m.onFired (dlog s)).2 s := by
  have hseen : (dlog s).take m.seen.length = m.seen := (List.prefix_iff_eq_take.mp h.seen).symm
  have hsplit : m.seen ++ (dlog s).drop m.seen.length = dlog s := by
    have := List.take_append_drop m.seen.length (dlog s)
    rw [hseen] at this; exact this
  have hentries : ∀ x ∈ (dlog s).drop m.seen.length, EntryOK m.wait hist x := by
    intro x hx
    rw [h.wait_eq]
    exact dlog_entry_ok wait hist x (by rw [← h.model]; exact List.mem_of_mem_drop hx)
  have hsorted : (m.seen ++ (dlog s).drop m.seen.length).Pairwise (fun a b => a.2.1 < b.2.1) := by
    rw [hsplit, h.model]; exact dlog_sorted wait hist
  have hchk : ∀ evs, (((dlog s).drop m.seen.length).isEmpty = false → evs = hist) →
      DMon.onFired.chk m evs m.seen ((dlog s).drop m.seen.length) = none := by
    intro evs hev
    cases hd : (dlog s).drop m.seen.length with
    | nil => rfl
    | cons x r =>
      rw [hd] at hev hentries hsorted
      rw [hev rfl]
      exact chk_accepts m hist h.now_eq _ _ hentries hsorted
  have hsync : Sync wait hist { m with seen := dlog s } s :=
    { model := h.model, wait_eq := h.wait_eq, rev_eq := h.rev_eq, len_eq := h.len_eq, now_eq := h.now_eq,
      seen := List.prefix_refl _, lastNA := h.lastNA }
  unfold DMon.onFired
  have hne : ((dlog s).take m.seen.length != m.seen) = false := by simp [hseen]
  simp only [hne, Bool.false_eq_true, if_false]
  rw [hchk _ (by intro hne'; simp [hne', h.rev_eq])]
  simp only
  rcases hl : m.lastNA with _ | ⟨i, b, tc⟩
  · rw [hl] at hsync; exact ⟨rfl, hsync⟩
  · rw [hl] at hsync
    cases b with
    | false => exact ⟨rfl, hsync⟩
    | true =>
      simp only
      have hserved := h.lastNA i tc hl
      have hcond : (decide (tc + (m.wait : Int) ≤ m.now) && !((dlog s).any fun o => o.2.1 == i)) = false := by
        by_cases hle : tc + (m.wait : Int) ≤ m.now
        · rcases hserved with ⟨fr, hfr, hi, _⟩ | ⟨_, hlt⟩
          · have : ((dlog s).any fun o => o.2.1 == i) = true := by
              rw [List.any_eq_true]
              exact ⟨(fr.f, fr.idx, fr.tc), by simp only [dlog, List.mem_map]; exact ⟨fr, hfr, rfl⟩, by simp [hi]⟩
            simp [this]
          · exfalso
            have hinv := drun_inv wait hist
            rw [← h.model] at hinv
            rw [h.wait_eq, h.now_eq, ← hinv.now_eq] at hle
            omega
        · simp [hle]
      rw [if_neg (by rw [hcond]; simp)]
      exact ⟨rfl, hsync⟩

theorem dmonRun_accepts (wait : Nat) : ∀ (tr : List (DEv × Bool)) (hist : List DEv) (m : DMon) (s : DState),
    Sync wait hist m s → dmonRun wait tr m s = none := by
  intro tr
  induction tr with
  | nil => intro hist m s _; rfl
  | cons x r ih =>
    intro hist m s h
    obtain ⟨e, o⟩ := x
    have hp := sync_push e h
    cases o with
    | false =>
      simp only [dmonRun, Bool.false_eq_true, if_false]
      exact ih _ _ _ hp
    | true =>
      obtain ⟨h1, h2⟩ := onFired_accepts hp
      simp only [dmonRun, if_true]
      rcases hr : (m.push e).onFired (dlog (dstep wait s e)) with ⟨c, m2⟩
      rw [hr] at h1 h2
      simp only at h1 h2
      subst h1
      simp only
      exact ih _ _ _ h2

/-- **The debounce monitor accepts the model**: for every wait, every history and every choice of
observation points, `DMon` — fed the events and shown the model's execution log — reports no
violated clause (`log-grows-only`, `at-most-once-per-burst`, `fire-time-in-the-future`,
`belongs-to-a-call`, `never-early`, `most-recent-call-and-none-after-cancel`, `does-run`). -/
theorem dmon_accepts_model (wait : Nat) (tr : List (DEv × Bool)) :
    dmonRun wait tr { wait := wait } {} = none :=
  dmonRun_accepts wait tr [] _ _ (sync_init wait)

example : dmonRun 10 [(.call, true), (.advance 4, true), (.call, false), (.advance 10, true), (.cancel, true)]
    { wait := 10 } {} = none := by decide

/-! ### The delay monitor accepts the model -/

/-- the model's execution log in the monitor's format (fireTime, timer id, callTime), in firing order
(the driver sorts it by (time, id); every check of `LMon.onFired` is insensitive to the order) -/
def llog (s : LState) : List (Int × Nat × Int) := s.fired.map fun fr => (fr.f, fr.id, fr.tc)

def lmonPush (m : LMon) : LEv → LMon
  | .delay d => m.onDelay d
  | .stop id => m.onStop id
  | .advance dt => m.onSleep dt

/-- monitor and model side by side; the flag says whether `fired` is observed after the event -/
def lmonRun : List (LEv × Bool) → LMon → LState → Option String
  | [], _, _ => none
  | (e, o) :: r, m, s =>
    if o then
      match (lmonPush m e).onFired (llog (lstep s e)) with
      | some c => some c
      | none => lmonRun r ((lmonPush m e).observe (llog (lstep s e))) (lstep s e)
    else lmonRun r (lmonPush m e) (lstep s e)

theorem cnt_take_le (hist : List LEv) (k : Nat) : cnt (hist.take k) ≤ cnt hist := by
  have h := cnt_append (hist.take k) (hist.drop k)
  rw [List.take_append_drop] at h
  omega

theorem cnt_take_lt (hist : List LEv) (i j : Nat) (d : Int) (hi : hist[i]? = some (LEv.delay d))
    (hij : i < j) : cnt (hist.take i) < cnt (hist.take j) := by
  have h1 : hist.take (i + 1) = hist.take i ++ [LEv.delay d] := by
    rw [List.take_add_one, hi]; rfl
  have h2 : cnt (hist.take (i + 1)) = cnt (hist.take i) + 1 := by
    rw [h1, cnt_append]; simp [cnt]
  have h3 : cnt ((hist.take j).take (i + 1)) ≤ cnt (hist.take j) := cnt_take_le _ _
  rw [List.take_take, Nat.min_eq_left (by omega)] at h3
  omega

theorem cnt_take_inj (hist : List LEv) (i j : Nat) (d d' : Int) (hi : hist[i]? = some (LEv.delay d))
    (hj : hist[j]? = some (LEv.delay d')) (h : cnt (hist.take i) = cnt (hist.take j)) : i = j := by
  rcases Nat.lt_trichotomy i j with hlt | heq | hgt
  · have := cnt_take_lt hist i j d hi hlt; omega
  · exact heq
  · have := cnt_take_lt hist j i d' hj hgt; omega

theorem cnt_take_lt_total (hist : List LEv) (i : Nat) (d : Int) (hi : hist[i]? = some (LEv.delay d)) :
    cnt (hist.take i) < cnt hist := by
  have hlen : i < hist.length := by
    rcases List.getElem?_eq_some_iff.mp hi with ⟨h, _⟩; exact h
  have := cnt_take_lt hist i hist.length d hi hlen
  rw [List.take_of_length_le (Nat.le_refl _)] at this
  exact this

/-- what the monitor knows about timer `j` -/
structure MTimerOK (hist : List LEv) (j : Nat) (t : LTimer) : Prop where
  id_eq : t.id = j
  pos : ∃ i, hist[i]? = some (LEv.delay t.d) ∧ cnt (hist.take i) = j ∧ lclock (hist.take i) = t.tc ∧
    (t.stopped = none → ∀ k, i < k → hist[k]? ≠ some (LEv.stop j)) ∧
    (∀ sv, t.stopped = some sv →
      (∃ k, i < k ∧ hist[k]? = some (LEv.stop j) ∧ sv = lclock (hist.take k)) ∧
      ∀ k, i < k → hist[k]? = some (LEv.stop j) → sv ≤ lclock (hist.take k))

structure LSync (hist : List LEv) (m : LMon) (s : LState) : Prop where
  model : s = lrun hist
  now_eq : m.now = lclock hist
  len : m.timers.length = cnt hist
  tim : ∀ j t, m.timers[j]? = some t → MTimerOK hist j t
  seen : ∀ x ∈ m.seen, x ∈ llog s

theorem MTimerOK.snoc {hist j t} (e : LEv) (h : MTimerOK hist j t) (he : e ≠ LEv.stop j) :
    MTimerOK (hist ++ [e]) j t := by
  obtain ⟨i, hi, hc, htc, hn, hs⟩ := h.pos
  have hil : i < hist.length := by
    rcases List.getElem?_eq_some_iff.mp hi with ⟨h', _⟩; exact h'
  refine ⟨h.id_eq, i, get_snoc_old _ _ _ hi, by rw [take_snoc _ _ (by omega)]; exact hc,
    by rw [take_snoc _ _ (by omega)]; exact htc, ?_, ?_⟩
  · intro hnone k hk hx
    rcases get_snoc_cases _ _ _ hx with ⟨_, hx'⟩ | ⟨_, hxe⟩
    · exact hn hnone k hk hx'
    · exact he hxe.symm
  · intro sv hsv
    obtain ⟨⟨k, hk, hxk, hsvk⟩, hall⟩ := hs sv hsv
    have hkl : k < hist.length := by
      rcases List.getElem?_eq_some_iff.mp hxk with ⟨h', _⟩; exact h'
    refine ⟨⟨k, hk, get_snoc_old _ _ _ hxk, by rw [take_snoc _ _ (by omega)]; exact hsvk⟩, ?_⟩
    intro k' hk' hx'
    rcases get_snoc_cases _ _ _ hx' with ⟨hkl', hx''⟩ | ⟨_, hxe⟩
    · rw [take_snoc _ _ (by omega)]; exact hall k' hk' hx''
    · exact absurd hxe.symm he

theorem lstep_fired_mono (s : LState) (e : LEv) : ∀ fr ∈ s.fired, fr ∈ (lstep s e).fired := by
  intro fr hfr
  rw [lstep_eq]
  have hd : (lpre s e).fired = s.fired := by
    cases e with
    | delay d => rfl
    | stop id => simp only [lpre]; split <;> rfl
    | advance dt => rfl
  simp only [LState.settle, List.mem_append]
  left; rw [hd]; exact hfr

theorem lsync_init : LSync [] {} {} where
  model := rfl
  now_eq := rfl
  len := rfl
  tim := by intro j t h; simp at h
  seen := by intro x h; cases h

theorem lsync_push {hist m s} (e : LEv) (h : LSync hist m s) :
    LSync (hist ++ [e]) (lmonPush m e) (lstep s e) := by
  have hseen : ∀ x ∈ m.seen, x ∈ llog (lstep s e) := by
    intro x hx
    have := h.seen x hx
    simp only [llog, List.mem_map] at this ⊢
    obtain ⟨fr, hfr, rfl⟩ := this
    exact ⟨fr, lstep_fired_mono s e fr hfr, rfl⟩
  have hmodel : lstep s e = lrun (hist ++ [e]) := by
    rw [h.model]; simp [lrun, List.foldl_append]
  cases e with
  | delay d =>
    refine ⟨hmodel, by simp [lmonPush, LMon.onDelay, lclock_snoc, h.now_eq, LEv.dt],
      by simp [lmonPush, LMon.onDelay, cnt_append, cnt, h.len], ?_, hseen⟩
    intro j t hj
    simp only [lmonPush, LMon.onDelay] at hj
    by_cases hjl : j < m.timers.length
    · rw [List.getElem?_append_left hjl] at hj
      exact (h.tim j t hj).snoc _ (by intro h'; cases h')
    · rw [List.getElem?_append_right (by omega)] at hj
      have hj0 : j - m.timers.length = 0 := by
        rcases List.getElem?_eq_some_iff.mp hj with ⟨hl, _⟩
        simp at hl; omega
      rw [hj0] at hj
      simp only [List.getElem?_cons_zero, Option.some.injEq] at hj
      subst hj
      have hjeq : j = m.timers.length := by omega
      refine ⟨hjeq.symm, hist.length, get_snoc_last _ _, by rw [take_snoc_full, ← h.len]; exact hjeq.symm,
        by rw [take_snoc_full]; exact h.now_eq.symm, ?_, by intro sv hsv; cases hsv⟩
      intro _ k hk
      rw [get_snoc_beyond _ _ hk]
      intro h'; cases h'
  | stop id =>
    refine ⟨hmodel, by simp [lmonPush, LMon.onStop, lclock_snoc, h.now_eq, LEv.dt],
      by simp [lmonPush, LMon.onStop, cnt_append, cnt, h.len], ?_, hseen⟩
    intro j t hj
    simp only [lmonPush, LMon.onStop, List.getElem?_map] at hj
    cases hj0 : m.timers[j]? with
    | none => rw [hj0] at hj; cases hj
    | some t0 =>
      rw [hj0] at hj
      simp only [Option.map_some, Option.some.injEq] at hj
      have h0 := h.tim j t0 hj0
      by_cases hc : (t0.id == id && t0.stopped.isNone) = true
      · rw [if_pos hc] at hj
        subst hj
        simp only [Bool.and_eq_true, beq_iff_eq, Option.isNone_iff_eq_none] at hc
        obtain ⟨hid, hnone⟩ := hc
        have hjid : j = id := by rw [← h0.id_eq, hid]
        obtain ⟨i, hi, hcn, htc, hn, _⟩ := h0.pos
        have hil : i < hist.length := by
          rcases List.getElem?_eq_some_iff.mp hi with ⟨h', _⟩; exact h'
        refine ⟨h0.id_eq, i, get_snoc_old _ _ _ hi, by rw [take_snoc _ _ (by omega)]; exact hcn,
          by rw [take_snoc _ _ (by omega)]; exact htc, (by intro h'; cases h'), ?_⟩
        intro sv hsv
        simp only [Option.some.injEq] at hsv
        subst hsv
        refine ⟨⟨hist.length, hil, by rw [get_snoc_last, hjid], by rw [take_snoc_full]; exact h.now_eq⟩, ?_⟩
        intro k hk hx
        rcases get_snoc_cases _ _ _ hx with ⟨_, hx'⟩ | ⟨hkl, _⟩
        · exact absurd hx' (hn hnone k hk)
        · rw [hkl, take_snoc_full, h.now_eq]; exact Int.le_refl _
      · rw [if_neg hc] at hj
        subst hj
        by_cases hjid : j = id
        · -- already stopped: the new stop comes later
          have hst : t0.stopped ≠ none := by
            intro hnone
            apply hc
            simp [h0.id_eq, hjid, hnone]
          obtain ⟨i, hi, hcn, htc, hn, hs⟩ := h0.pos
          have hil : i < hist.length := by
            rcases List.getElem?_eq_some_iff.mp hi with ⟨h', _⟩; exact h'
          refine ⟨h0.id_eq, i, get_snoc_old _ _ _ hi, by rw [take_snoc _ _ (by omega)]; exact hcn,
            by rw [take_snoc _ _ (by omega)]; exact htc, fun h' => absurd h' hst, ?_⟩
          intro sv hsv
          obtain ⟨⟨k, hk, hxk, hsvk⟩, hall⟩ := hs sv hsv
          have hkl : k < hist.length := by
            rcases List.getElem?_eq_some_iff.mp hxk with ⟨h', _⟩; exact h'
          refine ⟨⟨k, hk, get_snoc_old _ _ _ hxk, by rw [take_snoc _ _ (by omega)]; exact hsvk⟩, ?_⟩
          intro k' hk' hx'
          rcases get_snoc_cases _ _ _ hx' with ⟨hkl', hx''⟩ | ⟨hkl', _⟩
          · rw [take_snoc _ _ (by omega)]; exact hall k' hk' hx''
          · rw [hkl', take_snoc_full, hsvk]; exact lclock_take_le _ _
        · exact h0.snoc _ (by intro h'; cases h'; exact hjid rfl)
  | advance dt =>
    refine ⟨hmodel, by simp [lmonPush, LMon.onSleep, lclock_snoc, h.now_eq, LEv.dt],
      by simp [lmonPush, LMon.onSleep, cnt_append, cnt, h.len], ?_, hseen⟩
    intro j t hj
    exact (h.tim j t hj).snoc _ (by intro h'; cases h')

theorem pairwise_of_once : ∀ (l : List LFire), (∀ i, firedAt i l ≤ 1) →
    l.Pairwise (fun a b => a.idx ≠ b.idx) := by
  intro l
  induction l with
  | nil => intro _; exact List.Pairwise.nil
  | cons a r ih =>
    intro h
    rw [List.pairwise_cons]
    constructor
    · intro b hb heq
      have h1 := h a.idx
      simp only [firedAt, List.countP_cons, beq_self_eq_true, if_true] at h1
      have : 0 < r.countP (fun fr => fr.idx == a.idx) :=
        List.countP_pos_iff.mpr ⟨b, hb, by simp [heq]⟩
      omega
    · apply ih
      intro i
      have := h i
      simp only [firedAt, List.countP_cons] at this ⊢
      omega

theorem nodup_of_pairwise : ∀ (l : List (Int × Nat × Int)),
    l.Pairwise (fun a b => a.2.1 ≠ b.2.1) → LMon.onFired.nodup l = true := by
  intro l
  induction l with
  | nil => intro _; rfl
  | cons x r ih =>
    intro h
    rw [List.pairwise_cons] at h
    rw [LMon.onFired.nodup]
    simp only [Bool.and_eq_true, Bool.not_eq_true', List.any_eq_false, beq_iff_eq]
    exact ⟨fun y hy heq => h.1 y hy heq.symm, ih h.2⟩

theorem llog_ids_distinct (hist : List LEv) :
    (llog (lrun hist)).Pairwise (fun a b => a.2.1 ≠ b.2.1) := by
  have hI := lrun_invh hist
  simp only [llog, List.pairwise_map]
  refine List.Pairwise.imp_of_mem ?_ (pairwise_of_once _ (fun i => by have := hI.once i; omega))
  intro a b ha hb hne heq
  have hA := hI.fired a ha
  have hB := hI.fired b hb
  apply hne
  exact cnt_take_inj hist a.idx b.idx a.d b.d hA.isDelay hB.isDelay (by rw [← hA.id_eq, ← hB.id_eq]; exact heq)

theorem lonFired_accepts {hist m s} (h : LSync hist m s) : m.onFired (llog s) = none := by
  have hI := lrun_invh hist
  rw [← h.model] at hI
  unfold LMon.onFired
  split
  · rename_i hc
    exfalso
    rw [h.model, nodup_of_pairwise _ (llog_ids_distinct hist)] at hc
    simp at hc
  · split
    · rename_i hc
      exfalso
      have : (m.seen.all fun o => (llog s).contains o) = true := by
        rw [List.all_eq_true]; intro x hx; exact List.contains_iff_mem.mpr (h.seen x hx)
      rw [this] at hc; simp at hc
    · dsimp only
      split
      · rename_i val hbad
        exfalso
        have hmem := List.mem_of_find?_eq_some hbad
        have hp := List.find?_some hbad
        obtain ⟨f, id, tc⟩ := val
        simp only [llog, List.mem_map] at hmem
        obtain ⟨fr, hfr, hfe⟩ := hmem
        simp only [Prod.mk.injEq] at hfe
        obtain ⟨rfl, rfl, rfl⟩ := hfe
        have hF := hI.fired fr hfr
        dsimp only at hp
        split at hp
        · rename_i hnone
          have hlt : fr.id < m.timers.length := by
            rw [h.len, hF.id_eq]; exact cnt_take_lt_total hist fr.idx fr.d hF.isDelay
          have hget := List.getElem?_eq_getElem hlt
          have := (List.find?_eq_none.mp hnone) _ (List.mem_of_getElem? hget)
          exact this (by simp [(h.tim _ _ hget).id_eq])
        · rename_i t hsome
          have htm := List.mem_of_find?_eq_some hsome
          have htid := List.find?_some hsome
          simp only [beq_iff_eq] at htid
          obtain ⟨j, hj⟩ := List.getElem?_of_mem htm
          have hT := h.tim j t hj
          obtain ⟨i, hi, hcn, htc, _, hs⟩ := hT.pos
          have hij : i = fr.idx :=
            cnt_take_inj hist i fr.idx t.d fr.d hi hF.isDelay (by rw [hcn, ← hF.id_eq, ← htid, hT.id_eq])
          subst hij
          have hd : t.d = fr.d := by
            have := hF.isDelay; rw [hi] at this
            simp only [Option.some.injEq, LEv.delay.injEq] at this; exact this
          have htc' : t.tc = fr.tc := by rw [← htc, hF.callTime]
          have hex := hF.exact
          have hle := hF.le_now
          have h1 : fr.tc + fr.d ≤ fr.f := by omega
          rw [h.now_eq, ← hI.now_eq] at hp
          cases hst : t.stopped with
          | none =>
            rw [hst] at hp
            simp [htc', hd, hle, h1] at hp
          | some sv =>
            obtain ⟨⟨k, hk, hxk, hsvk⟩, _⟩ := hs sv hst
            have h2 : fr.f ≤ sv := by
              have := hF.nostop k hk (by rw [hF.id_eq, hcn]; exact hxk)
              omega
            rw [hst] at hp
            simp [htc', hd, hle, h1, h2] at hp
      · split
        · rename_i val hmiss
          exfalso
          have htm := List.mem_of_find?_eq_some hmiss
          have hp := List.find?_some hmiss
          obtain ⟨j, hj⟩ := List.getElem?_of_mem htm
          have hT := h.tim j val hj
          obtain ⟨i, hi, hcn, htc, hn, hs⟩ := hT.pos
          simp only [Bool.and_eq_true, decide_eq_true_eq, Bool.not_eq_true'] at hp
          obtain ⟨⟨hdl, hst⟩, hnot⟩ := hp
          rw [h.now_eq] at hdl
          have hcomp := delay_completeness hist i val.d hi (by
            intro k hk hxk
            rw [hcn] at hxk
            cases hsv : val.stopped with
            | none => exact absurd hxk (hn hsv k hk)
            | some sv =>
              rw [hsv] at hst
              simp only [decide_eq_true_eq] at hst
              have := (hs sv hsv).2 k hk hxk
              rw [htc]; omega) (by rw [htc]; exact hdl)
          obtain ⟨fr, hfr, hfi, _⟩ := hcomp.2
          rw [← h.model] at hfr
          have hF := hI.fired fr hfr
          have : ((llog s).any fun o => o.2.1 == val.id) = true := by
            rw [List.any_eq_true]
            refine ⟨(fr.f, fr.id, fr.tc), by simp only [llog, List.mem_map]; exact ⟨fr, hfr, rfl⟩, ?_⟩
            simp only [beq_iff_eq]
            rw [hF.id_eq, hfi, hcn, hT.id_eq]
          rw [this] at hnot
          cases hnot
        · rfl

theorem lmonRun_accepts : ∀ (tr : List (LEv × Bool)) (hist : List LEv) (m : LMon) (s : LState),
    LSync hist m s → lmonRun tr m s = none := by
  intro tr
  induction tr with
  | nil => intro hist m s _; rfl
  | cons x r ih =>
    intro hist m s h
    obtain ⟨e, o⟩ := x
    have hp := lsync_push e h
    cases o with
    | false =>
      simp only [lmonRun, Bool.false_eq_true, if_false]
      exact ih _ _ _ hp
    | true =>
      simp only [lmonRun, if_true, lonFired_accepts hp]
      exact ih _ _ _
        { model := hp.model, now_eq := hp.now_eq, len := hp.len, tim := hp.tim, seen := fun x hx => hx }

/-- **The delay monitor accepts the model**: for every history of `Delay` / `Stop` / passages of time
and every choice of observation points, `LMon` — fed the events and shown the model's execution log —
reports no violated clause (`at-most-once`, `log-grows-only`, `never-early-and-not-after-stop`,
`does-run`). -/
theorem lmon_accepts_model (tr : List (LEv × Bool)) : lmonRun tr {} {} = none :=
  lmonRun_accepts tr [] _ _ lsync_init

example : lmonRun [(.delay 5, true), (.delay (-3), true), (.advance 4, true), (.stop 0, true),
    (.stop 1, true), (.delay 2, false), (.advance 10, true)] {} {} = none := by decide

end GoguVerif.Theorems.C20
