import GoguVerif.Lemmas.C20
import GoguVerif.Lemmas.C20T
/-!
# C20 — property theorems (Delay, debounce and throttle never fire early or more often than allowed)

All statements are about the timed models of `Model/C20.lean` (which mirror `func.go`) and hold for
every wait / duration, every history of events (calls, cancels, `Next` calls, passages of time of any
length) and — for the throttle — every choice of which blocked caller wins a wake-up.
-/
namespace GoguVerif.Theorems.C20
open GoguVerif.Spec.C20 GoguVerif.Model.C20 GoguVerif.Lemmas.C20 GoguVerif.Lemmas.C20T

/-! ## Debounce -/

/-- **Never early, most recent call, none after cancel.**  Every execution of the debounced callback
satisfies the specification `FireOK`: it belongs to a `call` event `i` at instant `tc`, runs no
earlier than `tc + wait`, and every event after `i` that happens before the execution is a passage
of time — no newer call (so `i` is the most recent call) and no cancel. -/
theorem debounce_fire_ok (wait : Nat) (evs : List DEv) :
    ∀ fr ∈ (drun wait evs).fired, FireOK wait evs fr.f fr.idx fr.tc := by
  intro fr hfr
  have h := (drun_inv wait evs).fired fr hfr
  refine ⟨h.isCall, h.callTime, by have := h.exact; omega, ?_⟩
  intro k e hik hke hlt
  by_cases hk : k ≤ fr.at
  · exact h.between k e hik hk hke
  · have := clock_take_mono evs (show fr.at + 1 ≤ k by omega)
    have := h.fired_by
    omega

/-- the execution happens exactly at the deadline `tc + wait` (virtual time) -/
theorem debounce_fire_exact (wait : Nat) (evs : List DEv) :
    ∀ fr ∈ (drun wait evs).fired, fr.f = fr.tc + wait :=
  fun fr hfr => ((drun_inv wait evs).fired fr hfr).exact

/-- the same in terms of positions: the execution happens during event `at ≥ i`, event `i` is a call,
and every event in between (including `at` itself when `at ≠ i`) is a passage of time -/
theorem debounce_between_advances (wait : Nat) (evs : List DEv) :
    ∀ fr ∈ (drun wait evs).fired, fr.idx ≤ fr.at ∧ fr.at < evs.length ∧ evs[fr.idx]? = some DEv.call ∧
      ∀ k e, fr.idx < k → k ≤ fr.at → evs[k]? = some e → e.isAdvance = true := by
  intro fr hfr
  have h := (drun_inv wait evs).fired fr hfr
  exact ⟨h.idx_le, h.at_lt, h.isCall, h.between⟩

/-- **At most once per burst**: no call is executed twice (the scheduling calls of the executions are
pairwise different — and by `debounce_fire_ok` each is the last call of its burst). -/
theorem debounce_at_most_once (wait : Nat) (evs : List DEv) :
    ((drun wait evs).fired.map (·.idx)).Nodup := by
  have h := (drun_inv wait evs).sorted
  rw [List.Nodup, List.pairwise_map]
  exact h.imp (fun hab => by omega)

theorem debounce_unique (wait : Nat) (evs : List DEv) {a b : Fire}
    (ha : a ∈ (drun wait evs).fired) (hb : b ∈ (drun wait evs).fired) (h : a.idx = b.idx) : a = b :=
  pairwise_idx_inj (drun_inv wait evs).sorted ha hb h

/-- at most one timer is pending at any time: structural (`pending : Option Pending`); its deadline
lies in the future and it belongs to the last call -/
theorem debounce_pending (wait : Nat) (evs : List DEv) :
    ∀ p, (drun wait evs).pending = some p →
      clock evs < p.deadline ∧ p.deadline = p.tc + wait ∧ evs[p.idx]? = some DEv.call ∧
      ∀ k e, p.idx < k → evs[k]? = some e → e.isAdvance = true := by
  intro p hp
  have h := drun_inv wait evs
  obtain ⟨hpi, hlt⟩ := h.pend p hp
  exact ⟨by rw [← h.now_eq]; exact hlt, hpi.exact, hpi.isCall, hpi.after⟩

/-- all events of `l` are passages of time -/
def AllAdv (l : List DEv) : Prop := ∀ e ∈ l, e.isAdvance = true

theorem fired_mono_step (wait : Nat) (s : DState) (e : DEv) :
    ∀ fr ∈ s.fired, fr ∈ (dstep wait s e).fired := by
  intro fr hfr
  rw [dstep_eq]
  have hd : (dpre wait s e).fired = s.fired := by cases e <;> rfl
  unfold DState.settle
  cases hp : (dpre wait s e).pending with
  | none => simp only; rw [hd]; exact hfr
  | some p =>
    simp only
    by_cases hdl : p.deadline ≤ (dpre wait s e).now
    · rw [if_pos hdl]; simp only [List.mem_append]; left; rw [hd]; exact hfr
    · rw [if_neg hdl]; rw [hd]; exact hfr

/-- the call `i` has been executed at `D`, or is still pending with its deadline ahead -/
def Served (D : Int) (i : Nat) (tc : Int) (s : DState) : Prop :=
  (∃ fr ∈ s.fired, fr.idx = i ∧ fr.f = D) ∨
  (s.pending = some { deadline := D, idx := i, tc := tc } ∧ s.now < D)

theorem served_settle (D : Int) (i : Nat) (tc : Int) (s : DState)
    (h : (∃ fr ∈ s.fired, fr.idx = i ∧ fr.f = D) ∨ s.pending = some { deadline := D, idx := i, tc := tc }) :
    Served D i tc { s.settle with n := s.settle.n + 1 } := by
  unfold DState.settle
  rcases h with ⟨fr, hfr, h1, h2⟩ | hp
  · left
    refine ⟨fr, ?_, h1, h2⟩
    cases hq : s.pending with
    | none => simpa using hfr
    | some q =>
      simp only
      by_cases hd : q.deadline ≤ s.now
      · rw [if_pos hd]; simp only [List.mem_append]; left; exact hfr
      · rw [if_neg hd]; exact hfr
  · rw [hp]
    simp only
    by_cases hd : D ≤ s.now
    · rw [if_pos hd]; left
      exact ⟨⟨D, i, tc, s.n⟩, by simp, rfl, rfl⟩
    · rw [if_neg hd]; right
      exact ⟨hp, by show s.now < D; omega⟩

theorem served_advance (wait : Nat) (D : Int) (i : Nat) (tc : Int) (s : DState) (dt : Nat)
    (h : Served D i tc s) : Served D i tc (dstep wait s (.advance dt)) := by
  rw [dstep_eq]
  apply served_settle
  rcases h with h | ⟨hp, _⟩
  · left; exact h
  · right; exact hp

theorem served_fold (wait : Nat) (D : Int) (i : Nat) (tc : Int) :
    ∀ (advs : List DEv) (s : DState), AllAdv advs → Served D i tc s →
      Served D i tc (advs.foldl (dstep wait) s) := by
  intro advs
  induction advs with
  | nil => intro s _ h; exact h
  | cons e r ih =>
    intro s ha h
    have he : e.isAdvance = true := ha e (by simp)
    have hr : AllAdv r := fun x hx => ha x (by simp [hx])
    cases e with
    | advance dt => exact ih _ hr (served_advance wait D i tc s dt h)
    | call => cases he
    | cancel => cases he

/-- **Completeness.**  If the last call-or-cancel of a history is a call (at position `pre.length`,
instant `clock pre`) and at least `wait` has passed since, that call has been executed exactly once,
at `clock pre + wait`. -/
theorem debounce_completeness (wait : Nat) (pre advs : List DEv) (hadv : AllAdv advs)
    (hlong : (wait : Int) ≤ clock advs) :
    ∃ fr ∈ (drun wait (pre ++ DEv.call :: advs)).fired,
      fr.idx = pre.length ∧ fr.f = clock pre + wait ∧
      ∀ fr' ∈ (drun wait (pre ++ DEv.call :: advs)).fired, fr'.idx = pre.length → fr' = fr := by
  have hinv := drun_inv wait (pre ++ DEv.call :: advs)
  have hpre := drun_inv wait pre
  have hrun : drun wait (pre ++ DEv.call :: advs) =
      advs.foldl (dstep wait) (dstep wait (drun wait pre) .call) := by
    simp [drun, List.foldl_append]
  have h1 : Served (clock pre + wait) pre.length (clock pre) (dstep wait (drun wait pre) .call) := by
    rw [dstep_eq]
    apply served_settle
    right
    simp [dpre, hpre.n_eq, hpre.now_eq]
  have h2 := served_fold wait _ _ _ advs _ hadv h1
  rw [← hrun] at h2
  rcases h2 with ⟨fr, hfr, hi, hf⟩ | ⟨_, hlt⟩
  · exact ⟨fr, hfr, hi, hf, fun fr' hfr' hi' => debounce_unique wait _ hfr' hfr (by omega)⟩
  · exfalso
    rw [hinv.now_eq, clock_append] at hlt
    simp only [clock, DEv.dt] at hlt
    omega

/-- the decidable monitor clause agrees with the specification predicate -/
theorem fireOKb_iff (wait : Nat) (evs : List DEv) (f : Int) (i : Nat) (tc : Int) :
    fireOKb wait evs f i tc = true ↔ FireOK wait evs f i tc := by
  constructor
  · intro h
    simp only [fireOKb, Bool.and_eq_true, beq_iff_eq, decide_eq_true_eq, List.all_eq_true,
      List.mem_range] at h
    obtain ⟨⟨⟨h1, h2⟩, h3⟩, h4⟩ := h
    refine ⟨h1, h2, h3, ?_⟩
    intro k e hik hke hlt
    have hk : k < evs.length := by
      rcases List.getElem?_eq_some_iff.mp hke with ⟨hk, _⟩; exact hk
    have := h4 k hk
    rw [hke] at this
    simpa [hik, hlt] using this
  · intro h
    simp only [fireOKb, Bool.and_eq_true, beq_iff_eq, decide_eq_true_eq, List.all_eq_true,
      List.mem_range]
    refine ⟨⟨⟨h.isCall, h.callTime⟩, h.notEarly⟩, ?_⟩
    intro k _
    cases hke : evs[k]? with
    | none => rfl
    | some e =>
      simp only [Bool.or_eq_true, Bool.not_eq_true', Bool.and_eq_false_iff, decide_eq_false_iff_not]
      by_cases hik : i < k
      · by_cases hlt : clock (evs.take k) < f
        · right; exact h.mostRecent k e hik hke hlt
        · left; right; exact hlt
      · left; left; exact hik

/-! Non-vacuity: a burst of three calls 4 ms apart (wait 10) runs once, for the last call, at 18;
a cancelled call does not run; the completeness hypotheses are satisfiable. -/
example : (drun 10 [.call, .advance 4, .call, .advance 4, .call, .advance 9, .advance 1, .advance 30]).fired =
    [{ f := 18, idx := 4, tc := 8, «at» := 6 }] := by decide
example : (drun 10 [.call, .advance 9, .cancel, .advance 30]).fired = [] := by decide
example : AllAdv [.advance 9, .advance 1] ∧ ((10 : Nat) : Int) ≤ clock [.advance 9, .advance 1] := by
  constructor
  · intro e he; simp at he; rcases he with rfl | rfl <;> rfl
  · decide

/-! ## Throttle

`trun cfg ch evs` is the state after the history `evs` under the choice function `ch` (which blocked
caller wins a wake-up).  `grants` are the permissions (`Next` returning true) in the order they were
handed out, each stamped with the instant of the return. -/

/-- **At most one permission per period.**  Consecutive permissions are at least `duration` apart —
strictly more when not trailing — for every history and every choice function (the specification's
own checker `spacedOK` accepts the model's permission instants). -/
theorem throttle_spacing (cfg : TCfg) (ch : Choice) (evs : List TEv) :
    spacedOK cfg.dur cfg.trailing ((trun cfg ch evs).grants.map (·.t)) = true :=
  (trun_inv cfg ch evs).spaced

theorem spacedOK_get (dur : Nat) (trailing : Bool) :
    ∀ (l : List Int) (k : Nat) (a b : Int), spacedOK dur trailing l = true →
      l[k]? = some a → l[k + 1]? = some b → gapOK dur trailing a b = true := by
  intro l
  induction l with
  | nil => intro k a b _ h; simp at h
  | cons x r ih =>
    intro k a b hs ha hb
    cases r with
    | nil => simp at hb
    | cons y r =>
      simp only [spacedOK, Bool.and_eq_true] at hs
      cases k with
      | zero =>
        simp only [List.getElem?_cons_zero, Option.some.injEq] at ha
        simp only [List.getElem?_cons_succ, List.getElem?_cons_zero, Option.some.injEq] at hb
        subst ha; subst hb; exact hs.1
      | succ k =>
        simp only [List.getElem?_cons_succ] at ha hb
        exact ih k a b hs.2 ha (by simpa using hb)

/-- the spacing inequality in both forms, for any two consecutive permissions -/
theorem throttle_spacing_pairs (cfg : TCfg) (ch : Choice) (evs : List TEv) (k : Nat) (a b : Grant)
    (ha : (trun cfg ch evs).grants[k]? = some a) (hb : (trun cfg ch evs).grants[k + 1]? = some b) :
    a.t + cfg.dur ≤ b.t ∧ (cfg.trailing = false → a.t + cfg.dur < b.t) := by
  have h := spacedOK_get cfg.dur cfg.trailing _ k a.t b.t (throttle_spacing cfg ch evs)
    (by simp [List.getElem?_map, ha]) (by simp [List.getElem?_map, hb])
  unfold gapOK at h
  cases ht : cfg.trailing <;> simp [ht] at h
  · exact ⟨by omega, fun _ => h⟩
  · exact ⟨h, fun h' => by cases h'⟩

/-- **One permission per trigger epoch.**  The `k`-th permission (0-based) answers a `Call` that
happened when exactly `k` permissions had been handed out — i.e. after the previous permission and
before this one — and not later than the permission itself; when not trailing, that `Call` happened
after the previous period had ended (a trigger inside the period is never kept). -/
theorem throttle_triggered (cfg : TCfg) (ch : Choice) (evs : List TEv) (k : Nat) (g : Grant)
    (hg : (trun cfg ch evs).grants[k]? = some g) :
    (g.ctime, k) ∈ (trun cfg ch evs).calls ∧ g.ctime ≤ g.t ∧
    (cfg.trailing = false → ∀ k' g', k = k' + 1 → (trun cfg ch evs).grants[k']? = some g' →
      g'.t + cfg.dur < g.ctime) := by
  have h := trun_inv cfg ch evs
  have hmem : g ∈ (trun cfg ch evs).grants := List.mem_of_getElem? hg
  obtain ⟨h1, h2, h3⟩ := h.gr g hmem
  have he := h.epochs k g hg
  refine ⟨by rw [← he]; exact h1, h2, ?_⟩
  intro htr k' g' hk hg'
  subst hk
  exact h3 g'.t (h.chain k' g g' hg' hg) htr

/-- every logged trigger's epoch is at most the number of permissions handed out so far: a trigger
cannot answer a permission that precedes it -/
theorem throttle_calls_epoch (cfg : TCfg) (ch : Choice) (evs : List TEv) :
    ∀ c ∈ (trun cfg ch evs).calls, c.2 ≤ (trun cfg ch evs).grants.length :=
  fun c hc => ((trun_inv cfg ch evs).calls_ep c hc).1

theorem pickFrom_length : ∀ (c b : Nat) (bs : List Nat), (pickFrom c b bs).2.length = bs.length := by
  intro c
  induction c with
  | zero => intro b bs; rfl
  | succ c ih =>
    intro b bs
    cases bs with
    | nil => rfl
    | cons b' bs => simp [pickFrom, ih b' bs]

/-- **One permission per grant, regardless of the number of blocked callers**: a wake-up hands out
exactly one permission when somebody is blocked (exactly one caller leaves, the others stay
blocked), none otherwise — whichever caller the scheduler picks. -/
theorem wake_one_permission (ch : Choice) (s : TState) (w : Int × Nat) :
    (s.blocked = [] → (wake ch s w).grants = s.grants ∧ (wake ch s w).waiting = true) ∧
    (s.blocked ≠ [] → (wake ch s w).grants.length = s.grants.length + 1 ∧
      (wake ch s w).blocked.length + 1 = s.blocked.length ∧ (wake ch s w).waiting = false) := by
  unfold wake
  cases hb : s.blocked with
  | nil => simp
  | cons b bs => simp [grantTo, pickFrom_length]

/-- no one is blocked while a permission is waiting or after cancel -/
theorem throttle_blocked (cfg : TCfg) (ch : Choice) (evs : List TEv) :
    ((trun cfg ch evs).waiting = true ∨ (trun cfg ch evs).stop = true) → (trun cfg ch evs).blocked = [] := by
  have h := trun_inv cfg ch evs
  intro hc
  cases hs : (trun cfg ch evs).stop with
  | true => exact h.bs hs
  | false =>
    rcases hc with hc | hc
    · exact h.bw hc hs
    · rw [hs] at hc; cases hc

/-! ### Cancel -/

/-- `Cancel`: every blocked `Next` returns false at the cancel instant; no permission is handed out -/
theorem tcancel_spec (s : TState) :
    (tcancel s).stop = true ∧ (tcancel s).blocked = [] ∧ (tcancel s).grants = s.grants ∧
    (tcancel s).falses = s.falses ++ s.blocked.map (fun id => (s.now, id)) :=
  ⟨rfl, rfl, rfl, rfl⟩

theorem advanceTo_stop (ch : Choice) (s : TState) (t : Int) (hs : s.stop = true) :
    (advanceTo ch s t).stop = true ∧ (advanceTo ch s t).grants = s.grants ∧
    (advanceTo ch s t).falses = s.falses ∧ (advanceTo ch s t).blocked = s.blocked := by
  unfold advanceTo
  split
  · split
    · simp [fire, hs]
    · simp [hs]
  · simp [hs]

/-- once stopped, every step keeps the permissions as they are, and a `Next` returns false at once -/
theorem stop_step (cfg : TCfg) (ch : Choice) (s : TState) (e : TEv) (hs : s.stop = true)
    (hb : s.blocked = []) :
    (tstep cfg ch s e).stop = true ∧ (tstep cfg ch s e).grants = s.grants ∧
    (tstep cfg ch s e).blocked = [] ∧
    (∀ id, e = .next id → (tstep cfg ch s e).falses = s.falses ++ [(s.now, id)]) := by
  cases e with
  | call =>
    unfold tstep; dsimp only
    have h1 : tcall cfg ch s = logCall s := by
      unfold tcall; simp [logCall, hs]
    have := advanceTo_stop ch (logCall s) ((logCall s).now + (TEv.call.dt : Int)) hs
    rw [h1]
    exact ⟨this.1, this.2.1, by rw [this.2.2.2]; exact hb, by intro id h; cases h⟩
  | cancel =>
    unfold tstep; dsimp only
    have := advanceTo_stop ch (tcancel s) ((tcancel s).now + (TEv.cancel.dt : Int)) rfl
    exact ⟨this.1, this.2.1, by rw [this.2.2.2]; rfl, by intro id h; cases h⟩
  | next id =>
    unfold tstep; dsimp only
    have h1 : tnext s id = { s with falses := s.falses ++ [(s.now, id)], doneLog := s.doneLog ++ [(id, s.now, false)] } := by
      unfold tnext; simp [hs]
    rw [h1]
    have := advanceTo_stop ch { s with falses := s.falses ++ [(s.now, id)], doneLog := s.doneLog ++ [(id, s.now, false)] }
      (s.now + ((TEv.next id).dt : Int)) hs
    refine ⟨this.1, this.2.1, by rw [this.2.2.2]; exact hb, ?_⟩
    intro id' h; cases h; exact this.2.2.1
  | advance dt =>
    unfold tstep; dsimp only
    have := advanceTo_stop ch s (s.now + ((TEv.advance dt).dt : Int)) hs
    exact ⟨this.1, this.2.1, by rw [this.2.2.2]; exact hb, by intro id h; cases h⟩

/-- **After Cancel no permission is handed out and nobody stays blocked**, whatever follows. -/
theorem no_permission_after_cancel (cfg : TCfg) (ch : Choice) (pre post : List TEv) :
    (trun cfg ch (pre ++ TEv.cancel :: post)).grants = (trun cfg ch pre).grants ∧
    (trun cfg ch (pre ++ TEv.cancel :: post)).blocked = [] ∧
    (trun cfg ch (pre ++ TEv.cancel :: post)).stop = true := by
  have hfold : ∀ (post : List TEv) (s : TState), s.stop = true → s.blocked = [] →
      (post.foldl (tstep cfg ch) s).grants = s.grants ∧ (post.foldl (tstep cfg ch) s).blocked = [] ∧
      (post.foldl (tstep cfg ch) s).stop = true := by
    intro post
    induction post with
    | nil => intro s hs hb; exact ⟨rfl, hb, hs⟩
    | cons e r ih =>
      intro s hs hb
      obtain ⟨h1, h2, h3, _⟩ := stop_step cfg ch s e hs hb
      have := ih _ h1 h3
      exact ⟨by rw [List.foldl_cons, this.1, h2], this.2⟩
  have hc : (tstep cfg ch (trun cfg ch pre) .cancel).stop = true ∧
      (tstep cfg ch (trun cfg ch pre) .cancel).grants = (trun cfg ch pre).grants ∧
      (tstep cfg ch (trun cfg ch pre) .cancel).blocked = [] := by
    unfold tstep
    dsimp only
    have := advanceTo_stop ch (tcancel (trun cfg ch pre)) ((tcancel (trun cfg ch pre)).now + (TEv.cancel.dt : Int)) rfl
    exact ⟨this.1, this.2.1, by rw [this.2.2.2]; rfl⟩
  have hrun : trun cfg ch (pre ++ TEv.cancel :: post) =
      post.foldl (tstep cfg ch) (tstep cfg ch (trun cfg ch pre) .cancel) := by
    simp [trun, List.foldl_append]
  rw [hrun]
  have := hfold post _ hc.1 hc.2.2
  exact ⟨by rw [this.1, hc.2.1], this.2⟩

/-- the blocked callers are released with `false` at the cancel instant -/
theorem cancel_releases_blocked (cfg : TCfg) (ch : Choice) (s : TState) :
    (tstep cfg ch s .cancel).falses = s.falses ++ s.blocked.map (fun id => (s.now, id)) := by
  unfold tstep
  dsimp only
  exact (advanceTo_stop ch (tcancel s) _ rfl).2.2.1

/-! ### Triggers inside the period -/

/-- **A trigger inside the period is dropped when not trailing**: in a reachable state with
`since(last) ≤ duration` a `Call` changes nothing but the ghost log and the event counter. -/
theorem in_period_trigger_dropped (cfg : TCfg) (ch : Choice) (evs : List TEv) (l : Int)
    (htr : cfg.trailing = false) (hlast : (trun cfg ch evs).last = some l)
    (hin : (trun cfg ch evs).now - l ≤ cfg.dur) :
    tstep cfg ch (trun cfg ch evs) .call =
      { logCall (trun cfg ch evs) with n := (trun cfg ch evs).n + 1 } := by
  have h := trun_inv cfg ch evs
  have hsc := h.notrail htr
  generalize trun cfg ch evs = s at *
  have h1 : tcall cfg ch s = logCall s := by
    unfold tcall
    simp only
    have hl : (logCall s).last = some l := hlast
    split
    · rw [hl]
      simp only
      have : ¬ ((logCall s).now - l > cfg.dur) := by show ¬ (s.now - l > cfg.dur); omega
      rw [if_neg this, if_neg (by rw [htr]; simp)]
    · rfl
  unfold tstep
  dsimp only
  rw [h1]
  unfold advanceTo
  have : (logCall s).scheduled = none := hsc
  rw [this]
  simp [TEv.dt, logCall]

/-- a trigger while a permission is already waiting is coalesced with it -/
theorem waiting_trigger_coalesced (cfg : TCfg) (ch : Choice) (evs : List TEv)
    (hw : (trun cfg ch evs).waiting = true) :
    tstep cfg ch (trun cfg ch evs) .call =
      { logCall (trun cfg ch evs) with n := (trun cfg ch evs).n + 1 } := by
  have h := trun_inv cfg ch evs
  have hsc : (trun cfg ch evs).scheduled = none := by
    cases hs : (trun cfg ch evs).scheduled with
    | none => rfl
    | some sc => have := (h.sched sc hs).2.1; rw [hw] at this; cases this
  generalize trun cfg ch evs = s at *
  have h1 : tcall cfg ch s = logCall s := by
    unfold tcall
    simp only
    have : ¬ ((logCall s).waiting = false ∧ (logCall s).stop = false) := by
      intro hc; have : s.waiting = false := hc.1; rw [hw] at this; cases this
    rw [if_neg this]
  unfold tstep
  dsimp only
  rw [h1]
  unfold advanceTo
  have : (logCall s).scheduled = none := hsc
  rw [this]
  simp [TEv.dt, logCall]

/-! Non-vacuity: trailing throttle of 50 ms — permissions at 0, 50, 100 (the script of F32);
without trailing the in-period trigger is dropped; three blocked callers, one trigger: one
permission; cancel releases the blocked caller. -/
example : ((trun ⟨50, true⟩ (fun _ _ => 0)
    [.call, .next 0, .advance 1, .call, .next 1, .advance 49, .call, .next 2, .advance 50]).grants.map
      fun g => (g.t, g.id)) = [(0, 0), (50, 1), (100, 2)] := by decide
example : ((trun ⟨50, false⟩ (fun _ _ => 0)
    [.call, .next 0, .advance 1, .call, .next 1, .advance 49, .advance 50]).grants.map
      fun g => (g.t, g.id)) = [(0, 0)] := by decide
example : ((trun ⟨50, true⟩ (fun _ _ => 1) [.next 0, .next 1, .next 2, .call]).grants.map
      fun g => (g.t, g.id)) = [(0, 1)] ∧
    (trun ⟨50, true⟩ (fun _ _ => 1) [.next 0, .next 1, .next 2, .call]).blocked = [0, 2] := by decide
example : (trun ⟨50, true⟩ (fun _ _ => 0) [.next 0, .advance 3, .cancel, .next 1]).falses = [(3, 0), (3, 1)] := by
  decide
example : (trun ⟨50, false⟩ (fun _ _ => 0) [.call, .next 0, .advance 7]).last = some 0 ∧
    (trun ⟨50, false⟩ (fun _ _ => 0) [.call, .next 0, .advance 7]).now - 0 ≤ 50 := by decide

/-! ## Delay -/

/-- every pending timer's deadline and every execution's instant is `callTime + max d 0` -/
structure LInv (s : LState) : Prop where
  timers : ∀ t ∈ s.timers, t.deadline = t.tc + max t.d 0
  fired : ∀ fr ∈ s.fired, fr.f = fr.tc + max fr.d 0

theorem lsettle_inv {s : LState} (h : LInv s) : LInv s.settle where
  timers := by
    intro t ht
    simp only [LState.settle, List.mem_filter] at ht
    exact h.timers t ht.1
  fired := by
    intro fr hfr
    simp only [LState.settle, List.mem_append, List.mem_map, List.mem_filter] at hfr
    rcases hfr with hfr | ⟨t, ⟨ht, _⟩, rfl⟩
    · exact h.fired fr hfr
    · exact h.timers t ht

theorem lstep_inv {s : LState} (e : LEv) (h : LInv s) : LInv (lstep s e) := by
  unfold lstep
  dsimp only
  have hn : ∀ {s : LState}, LInv s → LInv { s with n := s.n + 1 } := fun h => ⟨h.timers, h.fired⟩
  apply hn
  apply lsettle_inv
  cases e with
  | delay d =>
    dsimp only
    refine ⟨?_, h.fired⟩
    intro t ht
    simp only [List.mem_append, List.mem_singleton] at ht
    rcases ht with ht | rfl
    · exact h.timers t ht
    · rfl
  | stop id =>
    dsimp only
    split
    · refine ⟨?_, h.fired⟩
      intro t ht
      simp only [List.mem_filter] at ht
      exact h.timers t ht.1
    · exact ⟨h.timers, h.fired⟩
  | advance dt => exact ⟨h.timers, h.fired⟩

theorem lrun_inv (evs : List LEv) : LInv (lrun evs) := by
  have : ∀ (evs : List LEv) (s : LState), LInv s → LInv (evs.foldl lstep s) := by
    intro evs
    induction evs with
    | nil => intro s h; exact h
    | cons e r ih => intro s h; exact ih _ (lstep_inv e h)
  exact this evs {} ⟨(by intro t h; cases h), (by intro t h; cases h)⟩

/-- **Delay never fires early**: every execution happens exactly `max d 0` after the `Delay` call
that scheduled it — in particular no sooner than `d` after it — for every history of `Delay`, `Stop`
and passages of time. -/
theorem delay_never_early (evs : List LEv) :
    ∀ fr ∈ (lrun evs).fired, fr.f = fr.tc + max fr.d 0 ∧ fr.tc + fr.d ≤ fr.f := by
  intro fr hfr
  have := (lrun_inv evs).fired fr hfr
  exact ⟨this, by omega⟩

example : ((lrun [.delay 5, .delay (-3), .advance 4, .stop 0, .delay 2, .advance 10]).fired.map
    fun fr => (fr.f, fr.id, fr.tc)) = [(0, 1, 0), (6, 2, 4)] := by decide

end GoguVerif.Theorems.C20
