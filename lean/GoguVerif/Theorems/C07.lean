import GoguVerif.Lemmas.C07
import GoguVerif.Lemmas.C07Sim2
/-!
# C07 — property theorems (LRU cache)

`Model.Lru` (the abstract-list model of `cache/lrucache.go`) against `Spec.C07` (recency-ordered
finite map).  Abstraction: `abs c = c.list` (entries, most recent first), capacity `c.size.toNat`.
The pointer-level model `Model.LruPtr` (circular doubly linked list in an address-indexed store,
the layer the driver compares with the code) is tied to `Model.Lru` by a representation relation
and a simulation (last section), so that its answers too are the specification's for every history.
Everything here is for ALL capacities, keys, values and histories (induction, no bound).
-/
namespace GoguVerif.Theorems.C07
open GoguVerif Spec.C07 Model.Lru
open GoguVerif.Lemmas.C07 (Inv keys)

/-! ## Invariant -/

/-- `NewLRU(n)` succeeds exactly for `n > 0` (a non-positive capacity is rejected) … -/
theorem newLRU_rejects_nonpositive (n : Int) : newLRU n = none ↔ n ≤ 0 := by
  unfold newLRU; split <;> simp_all

/-- … which is what the specification's `createOk` says. -/
theorem newLRU_isSome_eq_createOk (n : Int) : (newLRU n).isSome = createOk n := by
  unfold newLRU createOk; split <;> simp_all <;> omega

/-- The invariant holds in the state `NewLRU` returns (empty, capacity `n ≥ 1`). -/
theorem inv_init {n : Int} {c : St} (h : newLRU n = some c) :
    Inv c ∧ c.list = [] ∧ c.size = n := by
  unfold newLRU at h
  split at h
  · simp at h
  · cases h
    refine ⟨⟨by simp, by simp, ?_, ?_⟩, rfl, rfl⟩ <;> simp only [List.length_nil] <;> omega

example : ∃ c, newLRU 3 = some c := ⟨_, rfl⟩

/-- Every method keeps the invariant, and never meets a map entry without a list node. -/
theorem inv_step {c : St} (h : Inv c) (op : Op) :
    ∃ c' r, step c op = .ok c' r ∧ Inv c' := by
  obtain ⟨c', h1, _, _, h4⟩ := Lemmas.C07.refines_all h op
  exact ⟨c', _, h1, h4⟩

theorem step_never_stale {c : St} (h : Inv c) (op : Op) : step c op ≠ .stale := by
  obtain ⟨c', r, h1, _⟩ := inv_step h op
  rw [h1]; exact fun x => Res.noConfusion x

/-! ## Refinement -/

/-- One call: the model's result tuple is the one the specification allows, and the new list is the
specification's new recency order. -/
theorem step_refines {c : St} (h : Inv c) (op : Op) :
    ∃ c', step c op = .ok c' (Ret.ofOut (Spec.C07.step c.size.toNat c.list op).2) ∧
      c'.list = (Spec.C07.step c.size.toNat c.list op).1 ∧ c'.size = c.size ∧ Inv c' :=
  Lemmas.C07.refines_all h op

/-- Whole histories from any state that satisfies the invariant. -/
theorem run_refines {c : St} (h : Inv c) (ops : List Op) :
    ∃ c', run c ops = some (c', (Spec.C07.run c.size.toNat c.list ops).2.map Ret.ofOut) ∧
      c'.list = (Spec.C07.run c.size.toNat c.list ops).1 ∧ c'.size = c.size ∧ Inv c' := by
  induction ops generalizing c with
  | nil => exact ⟨c, rfl, rfl, rfl, h⟩
  | cons op ops ih =>
    obtain ⟨c1, h1, h2, h3, h4⟩ := step_refines h op
    obtain ⟨c2, k1, k2, k3, k4⟩ := ih h4
    rw [h3, h2] at k1 k2
    refine ⟨c2, ?_, ?_, k3.trans h3, k4⟩
    · simp only [Model.Lru.run, h1, k1, Spec.C07.run, List.map_cons]
    · simp only [Spec.C07.run, k2]

/-- **Main theorem.** For every capacity `n`, if `NewLRU(n)` succeeds then every history of calls
is answered exactly as the recency-ordered map of capacity `n` answers it, and the list ends up as
the specification's recency order. -/
theorem lru_refines {n : Int} {c : St} (hc : newLRU n = some c) (ops : List Op) :
    ∃ c', run c ops = some (c', (Spec.C07.run n.toNat [] ops).2.map Ret.ofOut) ∧
      c'.list = (Spec.C07.run n.toNat [] ops).1 ∧ Inv c' := by
  obtain ⟨hi, hl, hs⟩ := inv_init hc
  obtain ⟨c', h1, h2, _, h4⟩ := run_refines hi ops
  rw [hl, hs] at h1 h2
  exact ⟨c', h1, h2, h4⟩

/-- non-vacuity: the F13 witness history on the repaired model (cf. corpus/C07/f13-removeyoungest.trace) -/
example :
    (newLRU 3).bind (fun c => (run c [.add 1 10, .add 2 20, .add 3 30, .removeYoungest, .get 1, .get 3,
      .count, .getYoungest, .removeOldest, .removeOldest, .removeOldest, .count]).map (·.2)) =
    some [.kvb 0 0 false, .kvb 0 0 false, .kvb 0 0 false, .kvb 3 30 true, .vb 10 true, .vb 0 false,
      .int 2, .kvb 1 10 true, .kvb 2 20 true, .kvb 1 10 true, .kvb 0 0 false, .int 0] := by decide

/-! ## The clauses of the property, as corollaries

All of them are about the model (hence, through the correspondence, about the code); each is read
off the refinement plus a fact about the specification. -/

/-- functional form of `step_refines` -/
theorem step_eq {c c' : St} {r : Ret} (h : Inv c) {op : Op} (hs : step c op = .ok c' r) :
    r = Ret.ofOut (Spec.C07.step c.size.toNat c.list op).2 ∧
      c'.list = (Spec.C07.step c.size.toNat c.list op).1 ∧ c'.size = c.size ∧ Inv c' := by
  obtain ⟨c1, h1, h2, h3, h4⟩ := step_refines h op
  rw [h1] at hs; cases hs
  exact ⟨rfl, h2, h3, h4⟩

/-- **Count never exceeds the capacity**: after every history from `NewLRU(n)`, `Count() ≤ n`
(and `n ≥ 1`).  Every prefix of a history is a history, so this covers all intermediate states. -/
theorem count_le_capacity {n : Int} {c c' : St} {rs : List Ret} (hc : newLRU n = some c)
    {ops : List Op} (hr : Model.Lru.run c ops = some (c', rs)) : count c' ≤ n ∧ 1 ≤ n := by
  obtain ⟨hi, _, hs⟩ := inv_init hc
  obtain ⟨c1, h1, _, h3, h4⟩ := run_refines hi ops
  rw [h1] at hr; cases hr
  have := h4.len; have := h4.cap
  simp only [count, length]; omega

/-- … and every `Count()` call inside a history answers a number between 0 and `n`. -/
theorem count_answer_le_capacity {c c' : St} {x : Int} (h : Inv c)
    (hs : step c .count = .ok c' (.int x)) : 0 ≤ x ∧ x ≤ c.size := by
  simp only [Model.Lru.step, count, length] at hs
  cases hs
  have := h.len; omega

/-- **Lookup exactness and latest value.**  After any history from `NewLRU(n)`, `Get(k)` succeeds
exactly when the observed history says `k` is live — added and not since removed by `Remove(k)`,
returned by a remover, returned as evicted by an `Add`, or flushed — and it returns the value of the
latest `Add(k, ·)`. -/
theorem lookup_exact {n : Int} {c c' : St} {rs : List Ret} (hc : newLRU n = some c)
    {ops : List Op} (hr : Model.Lru.run c ops = some (c', rs)) (k : Int) :
    ∃ c'', step c' (.get k) = .ok c'' (match Lemmas.C07.trackAll k none ops rs with
        | some v => .vb v true
        | none => .vb 0 false) := by
  obtain ⟨hi, hl, _⟩ := inv_init hc
  -- generalised: from any invariant state whose lookup agrees with the bookkeeping so far
  suffices H : ∀ (ops : List Op) (c c' : St) (rs : List Ret) (cur : Option Int), Inv c →
      find k c.list = cur → Model.Lru.run c ops = some (c', rs) →
      Inv c' ∧ find k c'.list = Lemmas.C07.trackAll k cur ops rs by
    obtain ⟨hi', hf⟩ := H ops c c' rs none hi (by simp [hl]) hr
    obtain ⟨c'', h1, _⟩ := step_refines hi' (.get k)
    refine ⟨c'', ?_⟩
    rw [h1, ← hf]
    cases hq : find k c'.list <;> simp [Spec.C07.step, hq, Ret.ofOut]
  intro ops
  induction ops with
  | nil =>
    intro c c' rs cur hi hf hr
    simp only [Model.Lru.run, Option.some.injEq, Prod.mk.injEq] at hr
    obtain ⟨rfl, rfl⟩ := hr
    exact ⟨hi, hf⟩
  | cons op ops ih =>
    intro c c' rs cur hi hf hr
    obtain ⟨c1, h1, h2, h3, h4⟩ := step_refines hi op
    simp only [Model.Lru.run, h1] at hr
    cases hrun : Model.Lru.run c1 ops with
    | none => simp [hrun] at hr
    | some p =>
      obtain ⟨c2, rs2⟩ := p
      simp only [hrun, Option.some.injEq, Prod.mk.injEq] at hr
      obtain ⟨rfl, rfl⟩ := hr
      have hcap : 1 ≤ c.size.toNat := by have := hi.cap; omega
      have hstep := Lemmas.C07.find_step hi.nodup hcap k op
      rw [← h2, hf] at hstep
      exact ih c1 c2 rs2 _ h4 hstep hrun

/-- **Eviction.**  Adding a key that is not held to a full cache evicts, and returns, exactly the
least recently touched entry (the last of the recency order); the new entry becomes the most recent
and everything else keeps its place. -/
theorem add_evicts_least_recent {c c' : St} {r : Ret} (h : Inv c) {k v : Int}
    (hk : find k c.list = none) (hfull : (c.list.length : Int) = c.size)
    (hs : step c (.add k v) = .ok c' r) :
    ∃ e, c.list.getLast? = some e ∧ r = .kvb e.1 e.2 true ∧ c'.list = (k, v) :: c.list.dropLast := by
  obtain ⟨hr, hl, _, _⟩ := step_eq h hs
  have hcap := h.cap
  rw [Lemmas.C07.spec_add_new hk, if_pos (by omega)] at hr hl
  cases hq : c.list with
  | nil => rw [hq] at hfull; simp at hfull; omega
  | cons a b =>
    rw [hq] at hr hl
    have hne : a :: b ≠ [] := by simp
    refine ⟨(a :: b).getLast hne, List.getLast?_eq_some_getLast hne, ?_, ?_⟩
    · rw [hr, List.getLast?_cons_of_ne_nil hne, List.getLast?_eq_some_getLast hne]; rfl
    · rw [hl]; rfl

/-- Adding a key that is not held to a cache that is not full evicts nothing. -/
theorem add_no_eviction_when_room {c c' : St} {r : Ret} (h : Inv c) {k v : Int}
    (hk : find k c.list = none) (hroom : (c.list.length : Int) < c.size)
    (hs : step c (.add k v) = .ok c' r) :
    r = .kvb 0 0 false ∧ c'.list = (k, v) :: c.list := by
  obtain ⟨hr, hl, _, _⟩ := step_eq h hs
  rw [Lemmas.C07.spec_add_new hk, if_neg (by omega)] at hr hl
  exact ⟨hr, hl⟩

/-- Adding a key that is held stores the latest value, evicts nothing and makes it the most recent. -/
theorem add_existing_refreshes {c c' : St} {r : Ret} (h : Inv c) {k v v0 : Int}
    (hk : find k c.list = some v0) (hs : step c (.add k v) = .ok c' r) :
    r = .kvb 0 0 false ∧ c'.list = (k, v) :: del k c.list := by
  obtain ⟨hr, hl, _, _⟩ := step_eq h hs
  simp only [Spec.C07.step, hk] at hr hl
  exact ⟨hr, hl⟩

/-- `Get` of a held key returns its value and makes it the most recent; the others keep their order. -/
theorem get_hit_refreshes {c c' : St} {r : Ret} (h : Inv c) {k v : Int}
    (hk : find k c.list = some v) (hs : step c (.get k) = .ok c' r) :
    r = .vb v true ∧ c'.list = (k, v) :: del k c.list := by
  obtain ⟨hr, hl, _, _⟩ := step_eq h hs
  simp only [Spec.C07.step, hk] at hr hl
  exact ⟨hr, hl⟩

/-- `Get` of a key that is not held reports so and changes nothing. -/
theorem get_miss {c c' : St} {r : Ret} (h : Inv c) {k : Int}
    (hk : find k c.list = none) (hs : step c (.get k) = .ok c' r) :
    r = .vb 0 false ∧ c'.list = c.list := by
  obtain ⟨hr, hl, _, _⟩ := step_eq h hs
  simp only [Spec.C07.step, hk] at hr hl
  exact ⟨hr, hl⟩

/-- **Oldest accessor**: designates the least recently touched entry and refreshes it. -/
theorem getOldest_designates {c c' : St} {r : Ret} (h : Inv c)
    (hs : step c .getOldest = .ok c' r) :
    r = Ret.ofOut (.kv c.list.getLast?) ∧
      c'.list = (match c.list.getLast? with | some e => e :: c.list.dropLast | none => c.list) := by
  obtain ⟨hr, hl, _, _⟩ := step_eq h hs
  cases hq : c.list.getLast? <;> simp only [Spec.C07.step, hq] at hr hl ⊢ <;> exact ⟨hr, hl⟩

/-- **Youngest accessor**: designates the most recently touched entry; no refresh, no change. -/
theorem getYoungest_designates {c c' : St} {r : Ret} (h : Inv c)
    (hs : step c .getYoungest = .ok c' r) :
    r = Ret.ofOut (.kv c.list.head?) ∧ c'.list = c.list := by
  obtain ⟨hr, hl, _, _⟩ := step_eq h hs
  exact ⟨hr, hl⟩

/-- **Oldest remover**: returns the least recently touched entry and removes exactly that entry —
its key is no longer found, every other key is found as before, the order of the rest is unchanged. -/
theorem removeOldest_removes_what_it_returns {c c' : St} {r : Ret} (h : Inv c)
    (hs : step c .removeOldest = .ok c' r) :
    r = Ret.ofOut (.kv c.list.getLast?) ∧ c'.list = c.list.dropLast ∧
      ∀ e, c.list.getLast? = some e →
        find e.1 c'.list = none ∧ ∀ k, k ≠ e.1 → find k c'.list = find k c.list := by
  obtain ⟨hr, hl, _, _⟩ := step_eq h hs
  refine ⟨hr, hl, fun e he => ?_⟩
  simp only [Spec.C07.step] at hl
  rw [hl]
  constructor
  · rw [Lemmas.C07.find_dropLast h.nodup he]; simp
  · intro k hk; rw [Lemmas.C07.find_dropLast h.nodup he]; simp [hk]

/-- **Youngest remover**: returns the most recently touched entry and removes exactly that entry. -/
theorem removeYoungest_removes_what_it_returns {c c' : St} {r : Ret} (h : Inv c)
    (hs : step c .removeYoungest = .ok c' r) :
    r = Ret.ofOut (.kv c.list.head?) ∧ c'.list = c.list.tail ∧
      ∀ e, c.list.head? = some e →
        find e.1 c'.list = none ∧ ∀ k, k ≠ e.1 → find k c'.list = find k c.list := by
  obtain ⟨hr, hl, _, _⟩ := step_eq h hs
  refine ⟨hr, hl, fun e he => ?_⟩
  simp only [Spec.C07.step] at hl
  rw [hl]
  cases hq : c.list with
  | nil => rw [hq] at he; simp at he
  | cons a b =>
    rw [hq] at he; simp only [List.head?_cons, Option.some.injEq] at he; subst he
    have hn := h.nodup; rw [hq] at hn
    simp only [Lemmas.C07.keys_cons, List.nodup_cons] at hn
    refine ⟨Lemmas.C07.find_none_iff.mpr hn.1, fun k hk => ?_⟩
    have : ¬ a.1 = k := fun x => hk x.symm
    simp [Lemmas.C07.find_cons, this]

/-- **Remove(k)** returns the value held under `k` and removes exactly that entry. -/
theorem remove_removes_what_it_returns {c c' : St} {r : Ret} (h : Inv c) (k : Int)
    (hs : step c (.remove k) = .ok c' r) :
    r = Ret.ofOut (.v (find k c.list)) ∧ c'.list = del k c.list ∧
      find k c'.list = none ∧ ∀ k', k' ≠ k → find k' c'.list = find k' c.list := by
  obtain ⟨hr, hl, _, _⟩ := step_eq h hs
  have hl' : c'.list = del k c.list := by
    cases hq : find k c.list with
    | some v => simpa [Spec.C07.step, hq] using hl
    | none =>
      rw [Lemmas.C07.del_of_not_mem (Lemmas.C07.find_none_iff.mp hq)]
      simpa [Spec.C07.step, hq] using hl
  refine ⟨?_, hl', ?_, fun k' hk' => ?_⟩
  · cases hq : find k c.list <;> simpa [Spec.C07.step, hq] using hr
  · rw [hl', Lemmas.C07.find_del]; simp
  · rw [hl', Lemmas.C07.find_del]; simp [hk']

/-- The operations that refresh recency. -/
def refreshes : Op → Bool
  | .add _ _ | .get _ | .getOldest => true
  | _ => false

/-- **Recency is refreshed by `Add`, `Get` and `GetOldest` only**: every other call leaves the
remaining entries in the same relative order (the new recency order is a sublist of the old one —
nobody is promoted). -/
theorem only_add_get_getOldest_refresh {c c' : St} {r : Ret} (h : Inv c) {op : Op}
    (hop : refreshes op = false) (hs : step c op = .ok c' r) : c'.list.Sublist c.list := by
  obtain ⟨_, hl, _, _⟩ := step_eq h hs
  rw [hl]
  cases op with
  | add k v => simp [refreshes] at hop
  | get k => simp [refreshes] at hop
  | getOldest => simp [refreshes] at hop
  | getYoungest => exact List.Sublist.refl _
  | remove k =>
    cases hq : find k c.list <;> simp only [Spec.C07.step, hq]
    · exact List.Sublist.refl _
    · exact List.filter_sublist
  | removeOldest => exact List.dropLast_sublist _
  | removeYoungest => exact List.tail_sublist _
  | flush => exact List.nil_sublist _
  | count => exact List.Sublist.refl _

/-- … while a refreshing call moves (at most) the touched entry to the front and leaves the rest in
their relative order. -/
theorem refresh_moves_only_the_touched {c c' : St} {r : Ret} (h : Inv c) {op : Op}
    (hs : step c op = .ok c' r) : c'.list.tail.Sublist c.list ∨ c'.list = c.list := by
  by_cases hop : refreshes op = false
  · exact Or.inl ((List.tail_sublist _).trans (only_add_get_getOldest_refresh h hop hs))
  · obtain ⟨_, hl, _, _⟩ := step_eq h hs
    rw [hl]
    cases op with
    | add k v =>
      cases hq : find k c.list with
      | some v0 => left; simp only [Spec.C07.step, hq, List.tail_cons]; exact List.filter_sublist
      | none =>
        left; rw [Lemmas.C07.spec_add_new hq]
        split
        · cases hc : c.list with
          | nil => simp
          | cons a b => exact List.dropLast_sublist _
        · exact List.Sublist.refl _
    | get k =>
      cases hq : find k c.list with
      | some v0 => left; simp only [Spec.C07.step, hq, List.tail_cons]; exact List.filter_sublist
      | none => right; simp only [Spec.C07.step, hq]
    | getOldest =>
      cases hq : c.list.getLast? with
      | some e => left; simp only [Spec.C07.step, hq, List.tail_cons]; exact List.dropLast_sublist _
      | none => right; simp only [Spec.C07.step, hq]
    | getYoungest => simp [refreshes] at hop
    | remove k => simp [refreshes] at hop
    | removeOldest => simp [refreshes] at hop
    | removeYoungest => simp [refreshes] at hop
    | flush => simp [refreshes] at hop
    | count => simp [refreshes] at hop

/-! ## F13 (repaired in /repo 4cc2540): the pre-repair `RemoveYoungest` breaks the invariant

`removeYoungestPreFix` deletes the youngest key from the map but unlinks the *oldest* node.  On the
witness of `corpus/C07/f13-removeyoungest.trace` (`NewLRU(3); Add 1,2,3; RemoveYoungest`) the map
then holds `{1, 2}` while the list holds the keys `[3, 2]`. -/

/-- the state after `NewLRU(3); Add(1,10); Add(2,20); Add(3,30)` -/
def f13State : St := { size := 3, items := [3, 2, 1], list := [(3, 30), (2, 20), (1, 10)] }

example : (newLRU 3).bind (fun c => (Model.Lru.run c [.add 1 10, .add 2 20, .add 3 30]).map (·.1)) =
    some f13State := by decide

example : Inv f13State :=
  ⟨by decide, fun k => by simp [f13State, Lemmas.C07.keys], by decide, by decide⟩

/-- the pre-repair method returns `(3, 30, true)` and leaves map `{2, 1}` / list `[3, 2]` … -/
example : removeYoungestPreFix f13State =
    .ok { size := 3, items := [2, 1], list := [(3, 30), (2, 20)] } (.kvb 3 30 true) := by decide

/-- … which violates the invariant: key 1 is in the map and not in the list. -/
example : ∀ c' r, removeYoungestPreFix f13State = .ok c' r → ¬ Inv c' := by
  intro c' r h hinv
  have h' : removeYoungestPreFix f13State =
      .ok { size := 3, items := [2, 1], list := [(3, 30), (2, 20)] } (.kvb 3 30 true) := by decide
  rw [h'] at h; cases h
  have := (hinv.items 1).mp (by decide)
  simp [Lemmas.C07.keys] at this

/-- the repaired method on the same state keeps it: map `{2, 1}`, list `[2, 1]` -/
example : removeYoungest f13State =
    .ok { size := 3, items := [2, 1], list := [(2, 20), (1, 10)] } (.kvb 3 30 true) := by decide

/-! ## Layer 2: the pointer-level model answers as the abstract-list model, hence as the specification

`Lemmas.C07Ptr.Rep p c as`: the heap of `p` holds the circular list `root, as…, root` (next and prev
consistent, addresses distinct), whose nodes spell `c.list`; `len` is its length; the map sends
exactly the keys of those nodes to their addresses. -/

open GoguVerif.Lemmas.C07Ptr (Rep)

/-- `NewLRU` on both layers: rejected together, and otherwise related (empty circular list). -/
theorem ptr_init (n : Int) :
    (Model.LruPtr.newLRU n = none ∧ newLRU n = none ∧ n ≤ 0) ∨
    (∃ p c, Model.LruPtr.newLRU n = some p ∧ newLRU n = some c ∧ Rep p c []) := by
  by_cases h : n ≤ 0
  · left; simp [Model.LruPtr.newLRU, newLRU, h]
  · right
    refine ⟨{ items := [], evictList := Model.LruPtr.newLRUList, size := n },
      { size := n, items := [], list := [] }, by simp [Model.LruPtr.newLRU, h], by simp [newLRU, h],
      rfl, by simp, ?_, rfl, rfl, by intro k a; simp, by intro k; simp⟩
    show Lemmas.C07Ptr.LinkedF _ _ [0, 0]
    simp [Lemmas.C07Ptr.linkedF_cons2, Lemmas.C07Ptr.Edge, Model.LruPtr.newLRUList,
      Model.LruPtr.nextOf, Model.LruPtr.prevOf, Model.LruPtr.root]

/-- One call: the pointer-level method never dereferences a missing node, returns the same tuple
as the abstract-list method, and the two states stay related. -/
theorem ptr_step_simulates {p : Model.LruPtr.PSt} {c : St} {as : List Nat} (hr : Rep p c as)
    (hi : Inv c) (op : Op) :
    ∃ p' c' r as', Model.LruPtr.step p op = .ok p' r ∧ step c op = .ok c' r ∧ Rep p' c' as' ∧ Inv c' := by
  obtain ⟨p', c', r, as', h1, h2, h3⟩ := Lemmas.C07Ptr.sim_all hr hi.nodup op
  exact ⟨p', c', r, as', h1, h2, h3, (step_eq hi h2).2.2.2⟩

/-- Whole histories. -/
theorem ptr_run_simulates {p : Model.LruPtr.PSt} {c : St} {as : List Nat} (hr : Rep p c as)
    (hi : Inv c) (ops : List Op) :
    ∃ p' c' rs as', Model.LruPtr.run p ops = some (p', rs) ∧ Model.Lru.run c ops = some (c', rs) ∧
      Rep p' c' as' ∧ Inv c' := by
  induction ops generalizing p c as with
  | nil => exact ⟨p, c, [], as, rfl, rfl, hr, hi⟩
  | cons op ops ih =>
    obtain ⟨p1, c1, r, as1, h1, h2, h3, h4⟩ := ptr_step_simulates hr hi op
    obtain ⟨p2, c2, rs, as2, k1, k2, k3, k4⟩ := ih h3 h4
    exact ⟨p2, c2, r :: rs, as2, by simp only [Model.LruPtr.run, h1, k1],
      by simp only [Model.Lru.run, h2, k2], k3, k4⟩

/-- **Main theorem for the pointer-level model.**  For every capacity `n` for which `NewLRU(n)`
succeeds and every history, the circular-list implementation never faults and answers exactly as
the recency-ordered map of capacity `n`; its `len` counter never exceeds `n`. -/
theorem ptr_refines {n : Int} {p : Model.LruPtr.PSt} (hp : Model.LruPtr.newLRU n = some p)
    (ops : List Op) :
    ∃ p', Model.LruPtr.run p ops = some (p', (Spec.C07.run n.toNat [] ops).2.map Ret.ofOut) ∧
      Model.LruPtr.count p' ≤ n := by
  rcases ptr_init n with ⟨h, _, _⟩ | ⟨p0, c, h1, h2, hr⟩
  · rw [h] at hp; cases hp
  · rw [h1] at hp; cases hp
    obtain ⟨hi, _, _⟩ := inv_init h2
    obtain ⟨p', c', rs, as', k1, k2, k3, k4⟩ := ptr_run_simulates hr hi ops
    obtain ⟨c'', j1, _, _⟩ := lru_refines h2 ops
    rw [k2] at j1; cases j1
    refine ⟨p', k1, ?_⟩
    rw [Lemmas.C07Ptr.count_eq k3]
    exact (count_le_capacity h2 k2).1

/-- Every state the pointer-level model reaches holds a well-formed circular list (`next`/`prev`
consistent all the way round, distinct addresses) of at most `n` nodes, with an exact `len` counter
and a map that holds exactly the keys of the linked nodes — and it represents an abstract-list state
that satisfies the invariant. -/
theorem ptr_reachable_wellformed {n : Int} {p p' : Model.LruPtr.PSt} {rs : List Ret}
    (hp : Model.LruPtr.newLRU n = some p) {ops : List Op}
    (hrun : Model.LruPtr.run p ops = some (p', rs)) :
    ∃ as c', Rep p' c' as ∧ Inv c' ∧ p'.evictList.len = as.length ∧ (as.length : Int) ≤ n := by
  rcases ptr_init n with ⟨h, _, _⟩ | ⟨p0, c, h1, h2, hr⟩
  · rw [h] at hp; cases hp
  · rw [h1] at hp; cases hp
    obtain ⟨hi, _, hs⟩ := inv_init h2
    obtain ⟨p1, c', rs', as', k1, k2, k3, k4⟩ := ptr_run_simulates hr hi ops
    rw [k1] at hrun; cases hrun
    refine ⟨as', c', k3, k4, k3.len, ?_⟩
    have := (count_le_capacity h2 k2).1
    rw [← Lemmas.C07Ptr.count_eq k3] at this
    simpa [Model.LruPtr.count, k3.len] using this

/-- … in particular no history makes the pointer-level model dereference a missing node. -/
theorem ptr_never_faults {n : Int} {p : Model.LruPtr.PSt} (hp : Model.LruPtr.newLRU n = some p)
    (ops : List Op) : Model.LruPtr.run p ops ≠ none := by
  obtain ⟨p', h, _⟩ := ptr_refines hp ops
  rw [h]; simp

theorem ptr_newLRU_rejects_nonpositive (n : Int) : Model.LruPtr.newLRU n = none ↔ n ≤ 0 := by
  unfold Model.LruPtr.newLRU; split <;> simp_all

/-- non-vacuity: the F13 witness history on the repaired pointer-level model -/
example :
    (Model.LruPtr.newLRU 3).bind (fun c => (Model.LruPtr.run c [.add 1 10, .add 2 20, .add 3 30,
      .removeYoungest, .get 1, .get 3, .count, .getYoungest, .removeOldest, .removeOldest,
      .removeOldest, .count]).map (fun x => x.2)) =
    some [.kvb 0 0 false, .kvb 0 0 false, .kvb 0 0 false, .kvb 3 30 true, .vb 10 true, .vb 0 false,
      .int 2, .kvb 1 10 true, .kvb 2 20 true, .kvb 1 10 true, .kvb 0 0 false, .int 0] := by decide

/-- F13 at pointer level: after `NewLRU(3); Add 1,2,3`, the pre-repair `RemoveYoungest` followed by
the rest of the witness trace answers what the unrepaired code answered — `Get(1)` still succeeds,
`Get(3)` fails, `Count()` is 2, key 3 comes out of `RemoveOldest` although it was "removed", and the
final `Count()` is `-1`. -/
example :
    ((Model.LruPtr.newLRU 3).bind (fun c => (Model.LruPtr.run c [.add 1 10, .add 2 20, .add 3 30]).map
      (fun x => x.1))).bind (fun c => match Model.LruPtr.removeYoungestPreFix c with
        | .ok c' r => (Model.LruPtr.run c' [.get 1, .get 3, .count, .getYoungest, .removeOldest,
            .removeOldest, .removeOldest, .count]).map (fun x => r :: x.2)
        | .fault => none) =
    some [.kvb 3 30 true, .vb 10 true, .vb 0 false, .int 2, .kvb 1 10 true, .kvb 2 20 true,
      .kvb 3 30 true, .kvb 1 10 true, .int (-1)] := by decide

end GoguVerif.Theorems.C07
