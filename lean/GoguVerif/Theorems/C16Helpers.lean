import GoguVerif.Lemmas.C16Helpers
import GoguVerif.Theorems.C12
import GoguVerif.Gen.Effects
/-!
# C16 — store-level refinement of concrete helpers

`Theorems/C16.lean` proves the frame theorems for EVERY program obeying the builder discipline and
leaves open that a given helper IS such a program (the effect table's claim).  Here that gap is closed
for concrete helpers: `Model/StoreHelpers.lean` writes each of them over the slice store statement by
statement (`make`, `append`, `s[i] = v`, `s[lo:hi]`, reading `slice[i]` from the current store), and for
each the following is proved for ALL stores, all well-formed argument headers (any offset, any spare
capacity, any other slices sharing the array), all callbacks:

1. **value refinement** — the elements of the returned header in the new store are the answer of the
   value-level model (`Model/C12.lean`, `Model/C11.lean`), whose correctness is C11/C12's theorem;
2. **frame** — `Frame σ σ'`: every array that existed before the call is unchanged in every cell, the
   spare capacity behind the argument included (non-in-place helpers);
3. **aliasing** — builders return a header into storage that did not exist before (`σ.length ≤ res.arr`);
   view-returners (`Drop`, `Chunk`) return headers inside the argument's window and leave the store as it
   is; the in-place helpers (`Reverse`, `Reject`) write only cells `[off, off+len)` of their argument's array;
4. **discipline** — for the `append` builders the store function equals `run` of an explicit program of
   `Instr`s, so `Theorems.C16.run_frame` applies to it.

Covered (17 helpers): builders `Filter`, `DropWhile`, `DropRightWhile`, `Unique`, `UniqueBy`, `Without`,
`Difference`, `Intersection` (reads its own result), `Map` (indexed writes), `Merge` (variadic `append`;
plus its predecessor, which is shown to VIOLATE the frame), `ToSlice`, `Partition` (two results),
`Shuffle` (copy + swaps inside the copy); view-returners `Drop`, `Chunk`; in-place `Reverse`, `Reject`.
`covered_agree_with_table` ties the list to the translator's regenerated table.

Assumed: element type `Int`, callbacks are pure Lean functions, `WF` (what every Go slice value
satisfies) for the argument headers; the growth policy of `append` is `Store.append`'s; and that
`Model/StoreHelpers.lean` mirrors the Go statements (read off the source, not regenerated).
Not covered: 2-D results (`Zip`, `Unzip`), `Flatten`/`Union` (`any`-typed recursion), `Duplicate` (result
order = map iteration order), `IntersectionBy`/`DifferenceBy` (variants of covered loops), map-valued
helpers (`Omit`, `OmitBy`, `FilterMap…`, `GroupBy`: maps are not slice storage), `heap.*`.
-/
namespace GoguVerif.Theorems.C16Helpers
open GoguVerif Model.Store Model.StoreHelpers Lemmas.C16Helpers Theorems.C16

/-- a concrete store for the non-vacuity examples: array 0 holds the argument `arg0 = [1,2,3,4]` at
offset 1 with two cells of spare capacity (sentinels `-777`) and a foreign cell in front; `other0`
is a second slice sharing that array (it sees the last element and the first spare cell); array 1
holds a second argument `[2,9]`. -/
def σx : Store := [[-555, 1, 2, 3, 4, -777, -777], [2, 9, -888]]
def arg0 : Slice := { arr := 0, off := 1, len := 4, cap := 6 }
def other0 : Slice := { arr := 0, off := 4, len := 2, cap := 3 }
def arg1 : Slice := { arr := 1, off := 0, len := 2, cap := 3 }

theorem wf_arg0 : WF σx arg0 := ⟨by decide, _, rfl, by decide⟩
theorem wf_other0 : WF σx other0 := ⟨by decide, _, rfl, by decide⟩
theorem wf_arg1 : WF σx arg1 := ⟨by decide, _, rfl, by decide⟩

/-! ## what `Frame` gives -/

/-- **Frame ⇒ nothing observable changes**: ANY well-formed header of the old store — the argument, its
full capacity window, another slice sharing its array, a result returned by an earlier call — shows the
same elements afterwards and is still well-formed. -/
theorem frame_keeps {σ σ' : Store} (hf : Frame σ σ') {t : Slice} (ht : WF σ t) :
    elems σ' t = elems σ t ∧ elems σ' { t with len := t.cap } = elems σ { t with len := t.cap } ∧ WF σ' t := by
  have h := hf t.arr (WF_arr_lt ht)
  exact ⟨elems_congr t h, elems_congr { t with len := t.cap } h, WF_congr h ht⟩

example : WF σx other0 ∧ elems σx { arg0 with len := arg0.cap } = [1, 2, 3, 4, -777, -777] :=
  ⟨wf_other0, by decide⟩

/-- what a builder that is `alloc` followed by appends returns -/
theorem builder_post (σ : Store) (len cap : Nat) (vs : List Int) :
    let r := appendEach (alloc σ len cap).1 (alloc σ len cap).2 vs
    elems r.1 r.2 = List.replicate len 0 ++ vs ∧ Frame σ r.1 ∧ σ.length ≤ r.2.arr ∧ WF r.1 r.2 := by
  have hinv := (Inv.alloc σ len cap).appendEach vs
  have hpost := appendEach_post (alloc_spec σ len cap).1 vs
  exact ⟨by rw [hpost.elems, (alloc_spec σ len cap).2.1], hinv.frame, hinv.fresh, hinv.wf⟩

/-- **discipline**: `make` followed by appends to the made slice is a program of the builder discipline
(`Model.Store.run` with `base` = the number of arrays that existed before) -/
theorem run_alloc_appends (σ : Store) (regs : List Slice) (len cap : Nat) (vs : List Int) :
    run σ.length { σ := σ, regs := regs } (Instr.alloc len cap :: vs.map (Instr.append regs.length)) =
      { σ := (appendEach (alloc σ len cap).1 (alloc σ len cap).2 vs).1,
        regs := regs ++ [(appendEach (alloc σ len cap).1 (alloc σ len cap).2 vs).2] } := by
  simp only [run, step]
  rw [run_appends σ.length vs _ regs.length (alloc σ len cap).2 (by simp) (Nat.le_refl _) (by simp [alloc])]
  simp

/-! ## Filter -/

theorem filterStore_eq (σ : Store) (arg : Slice) (fn : Int → Bool) (h : WF σ arg) :
    filterStore σ arg fn = some (appendEach (alloc σ 0 0).1 (alloc σ 0 0).2 ((elems σ arg).filter fn)) := by
  unfold filterStore
  rw [filterLoop_eq fn h arg.len 0 _ _ (Inv.alloc σ 0 0) (by omega), List.drop_zero]

/-- **Filter**: value refinement, frame, fresh result. -/
theorem filter_refines (σ : Store) (arg : Slice) (fn : Int → Bool) (h : WF σ arg) :
    ∃ σ' res, filterStore σ arg fn = some (σ', res) ∧
      elems σ' res = Model.C12.filter (elems σ arg) fn ∧
      Frame σ σ' ∧ σ.length ≤ res.arr ∧ WF σ' res := by
  obtain ⟨h1, h2, h3, h4⟩ := builder_post σ 0 0 ((elems σ arg).filter fn)
  refine ⟨_, _, filterStore_eq σ arg fn h, ?_, h2, h3, h4⟩
  rw [h1, Model.C12.filter, Lemmas.C12.filterLoop_eq]; rfl

/-- **Filter obeys the discipline**: it is `run` of `make` + one `append` per kept element, hence
`Theorems.C16.run_frame` applies. -/
theorem filter_disciplined (σ : Store) (regs : List Slice) (arg : Slice) (fn : Int → Bool) (h : WF σ arg) :
    ∃ σ' res, filterStore σ arg fn = some (σ', res) ∧
      run σ.length { σ := σ, regs := regs }
        (Instr.alloc 0 0 :: ((elems σ arg).filter fn).map (Instr.append regs.length)) =
        { σ := σ', regs := regs ++ [res] } :=
  ⟨_, _, filterStore_eq σ arg fn h, run_alloc_appends σ regs 0 0 _⟩

example : filterStore σx arg0 (fun x => x % 2 == 0) =
    some (σx ++ [[], [2], [2, 4, 0]], { arr := 4, off := 0, len := 2, cap := 3 }) := by decide

/-! ## DropWhile -/

theorem dropWhileStore_eq (σ : Store) (arg : Slice) (fn : Int → Bool) (h : WF σ arg) :
    dropWhileStore σ arg fn =
      some (appendEach (alloc σ 0 arg.len).1 (alloc σ 0 arg.len).2 ((elems σ arg).filter (fun x => !fn x))) := by
  unfold dropWhileStore
  rw [dropWhileLoop_eq fn h arg.len 0 _ _ (Inv.alloc σ 0 arg.len) (by omega), List.drop_zero]

/-- **DropWhile**: value refinement, frame, fresh result. -/
theorem dropWhile_refines (σ : Store) (arg : Slice) (fn : Int → Bool) (h : WF σ arg) :
    ∃ σ' res, dropWhileStore σ arg fn = some (σ', res) ∧
      elems σ' res = Model.C12.dropWhile (elems σ arg) fn ∧
      Frame σ σ' ∧ σ.length ≤ res.arr ∧ WF σ' res := by
  obtain ⟨h1, h2, h3, h4⟩ := builder_post σ 0 arg.len ((elems σ arg).filter (fun x => !fn x))
  refine ⟨_, _, dropWhileStore_eq σ arg fn h, ?_, h2, h3, h4⟩
  rw [h1, Model.C12.dropWhile, Lemmas.C12.dropWhileLoop_eq]; rfl

theorem dropWhile_disciplined (σ : Store) (regs : List Slice) (arg : Slice) (fn : Int → Bool) (h : WF σ arg) :
    ∃ σ' res, dropWhileStore σ arg fn = some (σ', res) ∧
      run σ.length { σ := σ, regs := regs }
        (Instr.alloc 0 arg.len :: ((elems σ arg).filter (fun x => !fn x)).map (Instr.append regs.length)) =
        { σ := σ', regs := regs ++ [res] } :=
  ⟨_, _, dropWhileStore_eq σ arg fn h, run_alloc_appends σ regs 0 arg.len _⟩

example : dropWhileStore σx arg0 (fun x => x % 2 == 0) =
    some (σx ++ [[1, 3, 0, 0]], { arr := 2, off := 0, len := 2, cap := 4 }) := by decide

/-! ## Unique -/

theorem uniqueStore_eq (σ : Store) (arg : Slice) (h : WF σ arg) :
    uniqueStore σ arg = some (appendEach (alloc σ 0 0).1 (alloc σ 0 0).2 (Model.C11.unique (elems σ arg))) := by
  unfold uniqueStore
  rw [uniqueLoop_eq h arg.len 0 [] _ _ (Inv.alloc σ 0 0) (by omega), List.drop_zero]; rfl

/-- **Unique**: value refinement, frame, fresh result. -/
theorem unique_refines (σ : Store) (arg : Slice) (h : WF σ arg) :
    ∃ σ' res, uniqueStore σ arg = some (σ', res) ∧
      elems σ' res = Model.C11.unique (elems σ arg) ∧
      Frame σ σ' ∧ σ.length ≤ res.arr ∧ WF σ' res := by
  obtain ⟨h1, h2, h3, h4⟩ := builder_post σ 0 0 (Model.C11.unique (elems σ arg))
  exact ⟨_, _, uniqueStore_eq σ arg h, by rw [h1]; rfl, h2, h3, h4⟩

theorem unique_disciplined (σ : Store) (regs : List Slice) (arg : Slice) (h : WF σ arg) :
    ∃ σ' res, uniqueStore σ arg = some (σ', res) ∧
      run σ.length { σ := σ, regs := regs }
        (Instr.alloc 0 0 :: (Model.C11.unique (elems σ arg)).map (Instr.append regs.length)) =
        { σ := σ', regs := regs ++ [res] } :=
  ⟨_, _, uniqueStore_eq σ arg h, run_alloc_appends σ regs 0 0 _⟩

/-! ## Without -/

theorem withoutStore_eq (σ : Store) (arg values : Slice) (h : WF σ arg) (hv : WF σ values) :
    withoutStore σ arg values =
      some (appendEach (alloc σ 0 arg.len).1 (alloc σ 0 arg.len).2
        (Model.C11.without (elems σ arg) (elems σ values))) := by
  unfold withoutStore
  rw [withoutLoop_eq h hv arg.len 0 [] _ _ (Inv.alloc σ 0 arg.len) (by omega), List.drop_zero]; rfl

/-- **Without** (the excluded values are a slice in the store too): value refinement, frame (for BOTH
arguments), fresh result. -/
theorem without_refines (σ : Store) (arg values : Slice) (h : WF σ arg) (hv : WF σ values) :
    ∃ σ' res, withoutStore σ arg values = some (σ', res) ∧
      elems σ' res = Model.C11.without (elems σ arg) (elems σ values) ∧
      Frame σ σ' ∧ σ.length ≤ res.arr ∧ WF σ' res := by
  obtain ⟨h1, h2, h3, h4⟩ := builder_post σ 0 arg.len (Model.C11.without (elems σ arg) (elems σ values))
  exact ⟨_, _, withoutStore_eq σ arg values h hv, by rw [h1]; rfl, h2, h3, h4⟩

theorem without_disciplined (σ : Store) (regs : List Slice) (arg values : Slice) (h : WF σ arg) (hv : WF σ values) :
    ∃ σ' res, withoutStore σ arg values = some (σ', res) ∧
      run σ.length { σ := σ, regs := regs }
        (Instr.alloc 0 arg.len ::
          (Model.C11.without (elems σ arg) (elems σ values)).map (Instr.append regs.length)) =
        { σ := σ', regs := regs ++ [res] } :=
  ⟨_, _, withoutStore_eq σ arg values h hv, run_alloc_appends σ regs 0 arg.len _⟩

example : withoutStore σx arg0 arg1 = some (σx ++ [[1, 3, 4, 0]], { arr := 2, off := 0, len := 3, cap := 4 }) := by
  decide

/-! ## Map -/

/-- **Map** (`make([]T2, len)` + indexed writes): value refinement, frame, fresh result. -/
theorem map_refines (σ : Store) (arg : Slice) (fn : Int → Int) (h : WF σ arg) :
    ∃ σ' res, mapStore σ arg fn = some (σ', res) ∧
      Model.C12.mapPure (elems σ arg) fn = .ok (elems σ' res) ∧
      Frame σ σ' ∧ σ.length ≤ res.arr ∧ WF σ' res := by
  obtain ⟨σ', h1, h2, h3⟩ := mapLoop_spec fn h (alloc σ arg.len arg.len).2 rfl arg.len 0 _ (Inv.alloc σ _ _) (by omega)
  refine ⟨σ', (alloc σ arg.len arg.len).2, by simp only [mapStore, h1], ?_, h2.frame, h2.fresh, h2.wf⟩
  rw [Lemmas.C12.mapPure_eq, h3]; simp

/-- the program of `Map`'s loop: one indexed write per element, through register `r` -/
def writesFrom (r : Nat) : Nat → List Int → List Instr
  | _, [] => []
  | idx, v :: vs => Instr.write r idx v :: writesFrom r (idx + 1) vs

theorem run_mapLoop (fn : Int → Int) {σ0 : Store} {arg : Slice} (harg : WF σ0 arg) (res : Slice)
    (hlen : res.len = arg.len) (regs : List Slice) (r : Nat) (hr : regs[r]? = some res) (n idx : Nat) (σ : Store)
    (hinv : Inv σ0 σ res) (hi : idx + n = arg.len) :
    ∃ σ', mapLoop fn arg res n idx σ = some σ' ∧
      run σ0.length { σ := σ, regs := regs } (writesFrom r idx (((elems σ0 arg).drop idx).map fn)) =
        { σ := σ', regs := regs } := by
  induction n generalizing idx σ with
  | zero =>
    refine ⟨σ, rfl, ?_⟩
    rw [drop_len_nil harg (show idx = arg.len by omega)]; rfl
  | succ n ih =>
    obtain ⟨v, hrd, hd⟩ := hinv.read harg (show idx < arg.len by omega)
    obtain ⟨σ1, hw, hinv1, _⟩ := hinv.write (show idx < res.len by omega) (fn v)
    obtain ⟨σ', h1, h2⟩ := ih (idx + 1) σ1 hinv1 (by omega)
    refine ⟨σ', by simp only [mapLoop, hrd, hw]; exact h1, ?_⟩
    rw [hd]
    simp only [List.map_cons, writesFrom, run, step, hr, hinv.fresh, if_true, hw]
    exact h2

/-- **Map obeys the discipline**: it is `run` of `make([]T2, len)` + one indexed write per element into the
made slice. -/
theorem map_disciplined (σ : Store) (regs : List Slice) (arg : Slice) (fn : Int → Int) (h : WF σ arg) :
    ∃ σ' res, mapStore σ arg fn = some (σ', res) ∧
      run σ.length { σ := σ, regs := regs }
        (Instr.alloc arg.len arg.len :: writesFrom regs.length 0 ((elems σ arg).map fn)) =
        { σ := σ', regs := regs ++ [res] } := by
  obtain ⟨σ', h1, h2⟩ := run_mapLoop fn h (alloc σ arg.len arg.len).2 rfl (regs ++ [(alloc σ arg.len arg.len).2])
    regs.length (by simp) arg.len 0 _ (Inv.alloc σ _ _) (by omega)
  refine ⟨σ', (alloc σ arg.len arg.len).2, by simp only [mapStore, h1], ?_⟩
  rw [List.drop_zero] at h2
  simp only [run, step]
  exact h2

example : mapStore σx arg0 (fun x => x * x) =
    some (σx ++ [[1, 4, 9, 16]], { arr := 2, off := 0, len := 4, cap := 4 }) := by decide

/-! ## Merge -/

/-- **Merge** (after the repair): value refinement, frame — the spare capacity behind the first argument
included —, fresh result. -/
theorem merge_refines (σ : Store) (s : Slice) (params : List Slice) (h : WF σ s) (hp : ∀ p ∈ params, WF σ p) :
    elems (mergeStore σ s params).1 (mergeStore σ s params).2 =
        Model.C12.merge (elems σ s) (params.map (elems σ)) ∧
      Frame σ (mergeStore σ s params).1 ∧ σ.length ≤ (mergeStore σ s params).2.arr ∧
      WF (mergeStore σ s params).1 (mergeStore σ s params).2 := by
  have hinv0 := Inv.alloc σ 0 s.len
  have hpost := appendMany_post hinv0.wf (elems (alloc σ 0 s.len).1 s)
  obtain ⟨h1, h2⟩ := mergeLoop_spec params hp _ _ (hinv0.post hpost)
  refine ⟨?_, h1.frame, h1.fresh, h1.wf⟩
  simp only [mergeStore]
  rw [h2, hpost.elems, (hinv0.arg h).2.2, (alloc_spec σ 0 s.len).2.1, Model.C12.merge, Lemmas.C12.mergeLoop_eq]
  simp

example : mergeStore σx arg0 [arg1, other0] =
    (σx ++ [[1, 2, 3, 4], [1, 2, 3, 4, 2, 9, 4, -777, 0]], { arr := 3, off := 0, len := 8, cap := 9 }) := by decide

/-- the predecessor of `Merge` (`append(s, merged...)`) VIOLATES the frame: with spare capacity behind the
first argument it writes there — and a second slice sharing the array sees its element change. -/
theorem mergeOld_breaks_frame :
    ¬ Frame σx (mergeOldStore σx arg0 [arg1]).1 ∧
    cell (mergeOldStore σx arg0 [arg1]).1 0 5 = some 2 ∧ cell σx 0 5 = some (-777) ∧
    elems σx other0 = [4, -777] ∧ elems (mergeOldStore σx arg0 [arg1]).1 other0 = [4, 2] ∧
    (mergeOldStore σx arg0 [arg1]).2.arr = arg0.arr := by
  refine ⟨fun hf => ?_, by decide, by decide, by decide, by decide, by decide⟩
  have := hf 0 (by decide)
  revert this
  decide

/-- the same for EVERY store: whenever what the old `Merge` appends is non-empty and fits into the spare
capacity behind its first argument, the first spare cell is overwritten and the result shares the
argument's array (two such results on the same argument share storage). -/
theorem mergeOld_writes_spare (σ : Store) (s : Slice) (params : List Slice) (h : WF σ s)
    (hp : ∀ p ∈ params, WF σ p) (v : Int) (rest : List Int)
    (hall : (params.map (elems σ)).flatten = v :: rest) (hfit : s.len + (rest.length + 1) ≤ s.cap) :
    cell (mergeOldStore σ s params).1 s.arr (s.off + s.len) = some v ∧
      (mergeOldStore σ s params).2.arr = s.arr := by
  have i0 := Inv.alloc σ 0 s.len
  obtain ⟨i1, e1⟩ := mergeLoop_spec params hp _ _ i0
  rw [(alloc_spec σ 0 s.len).2.1, hall] at e1
  simp only [List.replicate_zero, List.nil_append] at e1
  obtain ⟨_, hws, _⟩ := i1.arg h
  obtain ⟨_, a, ha, hc⟩ := hws
  have hlt : s.len < s.cap := by omega
  simp only [mergeOldStore, e1]
  have ham : ∀ σ1, appendMany σ1 s (v :: rest) =
      appendEach (setCell σ1 s.arr (s.off + s.len) v) { s with len := s.len + 1 } rest := by
    intro σ1
    simp only [appendMany, List.length_cons, if_pos hfit, appendEach, append, if_pos hlt]
  rw [ham]
  obtain ⟨q1, _, _, q4, _⟩ := appendEach_inplace (σ := setCell (mergeLoop params (alloc σ 0 s.len).1 (alloc σ 0 s.len).2).1
    s.arr (s.off + s.len) v) (s := { s with len := s.len + 1 }) rest (show s.len + 1 + rest.length ≤ s.cap by omega)
  refine ⟨?_, by rw [q1]⟩
  rw [q4 (s.off + s.len) (Or.inl (show s.off + s.len < s.off + (s.len + 1) by omega))]
  simp only [cell, setCell_same, ha, Option.map_some, Option.bind_some]
  exact List.getElem?_set_self (by omega)

example : (([arg1].map (elems σx)).flatten = 2 :: [9]) ∧ arg0.len + ([9].length + 1) ≤ arg0.cap := by decide

/-! ## Drop (a view) -/

/-- **Drop** returns a VIEW: value refinement; the store is literally unchanged when `-len < n < len` and
the result lies inside the argument's window; otherwise the result is a fresh empty slice. -/
theorem drop_refines (σ : Store) (s : Slice) (n : Int) (h : WF σ s) :
    ∃ σ' res, dropStore σ s n = some (σ', res) ∧
      Model.C12.drop (elems σ s) n = .ok (elems σ' res) ∧ Frame σ σ' ∧ WF σ' res ∧
      ((n > -(s.len : Int) ∧ n < s.len) → σ' = σ ∧ View s res) ∧
      (¬ (n > -(s.len : Int) ∧ n < s.len) → σ.length ≤ res.arr ∧ res.len = 0) := by
  have hlen := elems_length h
  unfold dropStore Model.C12.drop
  rw [hlen]
  by_cases hr : n > -(s.len : Int) ∧ n < s.len
  · rw [if_pos hr, if_pos hr]
    by_cases hpos : n > 0
    · rw [if_pos hpos, if_pos hpos]
      have hn : n = ((n.toNat : Nat) : Int) := by omega
      obtain ⟨c, hc1, hc2, hc3, hc4, _⟩ := reslice_spec h (lo := n.toNat) (hi := s.len) (by omega) (Nat.le_refl _)
      have hre : resliceI s n s.len = some c := by
        simp only [resliceI, Int.toNat_natCast, hc1]; rw [if_pos (by omega)]
      refine ⟨σ, c, by rw [hre], ?_, fun _ _ => rfl, hc2, fun _ => ⟨rfl, hc4⟩, fun hc => absurd hr hc⟩
      have := Lemmas.C12.sliceOf_ok (elems σ s) n.toNat (elems σ s).length (by omega) (Nat.le_refl _)
      rw [← hn, hlen] at this
      rw [this, hc3]
    · rw [if_neg hpos, if_neg hpos]
      have hhi : (s.len : Int) - abs n = ((s.len - n.natAbs : Nat) : Int) := by unfold abs; split <;> omega
      have hhi' : (s.len : Int) - Model.C12.abs n = ((s.len - n.natAbs : Nat) : Int) := by
        unfold Model.C12.abs; split <;> omega
      obtain ⟨c, hc1, hc2, hc3, hc4, _⟩ := reslice_spec h (lo := 0) (hi := s.len - n.natAbs) (by omega) (by omega)
      have hre : resliceI s 0 (s.len - abs n) = some c := by
        rw [hhi]; simp only [resliceI, Int.toNat_natCast, Int.toNat_zero, hc1]; rw [if_pos (by omega)]
      refine ⟨σ, c, by rw [hre], ?_, fun _ _ => rfl, hc2, fun _ => ⟨rfl, hc4⟩, fun hc => absurd hr hc⟩
      rw [hhi']
      have := Lemmas.C12.sliceOf_ok (elems σ s) 0 (s.len - n.natAbs) (by omega) (by omega)
      rw [Int.natCast_zero] at this
      rw [this, hc3]
  · rw [if_neg hr, if_neg hr]
    obtain ⟨a1, a2, a3, a4, a5⟩ := alloc_spec σ 0 0
    exact ⟨(alloc σ 0 0).1, (alloc σ 0 0).2, rfl, by rw [a2]; rfl, a5, a1, fun hc => absurd hc hr, fun _ => ⟨Nat.le_of_eq a3.symm, rfl⟩⟩

example : dropStore σx arg0 1 = some (σx, { arr := 0, off := 2, len := 3, cap := 5 }) ∧
    dropStore σx arg0 (-1) = some (σx, { arr := 0, off := 1, len := 3, cap := 6 }) ∧
    dropStore σx arg0 4 = some (σx ++ [[]], { arr := 2, off := 0, len := 0, cap := 0 }) := by decide

/-! ## Chunk (views) -/

theorem chunkLoop_refines {σ : Store} {s : Slice} (h : WF σ s) (size n i : Nat) (acc : List Slice)
    (hi : i + n = s.len) (hacc : ∀ c ∈ acc, View s c ∧ WF σ c) :
    ∃ r, chunkLoop s size n i acc = some r ∧
      Model.C12.chunkLoop (elems σ s) size n i (acc.map (elems σ)) = .ok (r.map (elems σ)) ∧
      ∀ c ∈ r, View s c ∧ WF σ c := by
  have hlen := elems_length h
  induction n generalizing i acc with
  | zero => exact ⟨acc, rfl, rfl, hacc⟩
  | succ n ih =>
    simp only [chunkLoop, Model.C12.chunkLoop, hlen]
    by_cases hmod : i % size = 0
    · rw [if_pos hmod, if_pos hmod]
      by_cases hlt : i + size < s.len
      · rw [if_pos hlt, if_pos hlt]
        obtain ⟨c, hc1, hc2, hc3, hc4, _⟩ := reslice_spec h (lo := i) (hi := i + size) (by omega) (by omega)
        have hs : Model.C12.sliceOf (elems σ s) (i : Int) ((i : Int) + (size : Int)) =
            .ok (((elems σ s).take (i + size)).drop i) := by
          rw [← Int.natCast_add]; exact Lemmas.C12.sliceOf_ok _ i (i + size) (by omega) (by omega)
        rw [hc1, hs]
        have := ih (i + 1) (acc ++ [c]) (by omega) (fun d hd => by
          rcases List.mem_append.mp hd with hd | hd
          · exact hacc d hd
          · rw [List.mem_singleton.mp hd]; exact ⟨hc4, hc2⟩)
        rw [List.map_append, List.map_singleton, hc3] at this
        exact this
      · rw [if_neg hlt, if_neg hlt]
        obtain ⟨c, hc1, hc2, hc3, hc4, _⟩ := reslice_spec h (lo := i) (hi := s.len) (by omega) (by omega)
        have hs := Lemmas.C12.sliceOf_ok (elems σ s) i s.len (by omega) (by omega)
        rw [hc1, hs]
        have := ih (i + 1) (acc ++ [c]) (by omega) (fun d hd => by
          rcases List.mem_append.mp hd with hd | hd
          · exact hacc d hd
          · rw [List.mem_singleton.mp hd]; exact ⟨hc4, hc2⟩)
        rw [List.map_append, List.map_singleton, hc3] at this
        exact this
    · rw [if_neg hmod, if_neg hmod]
      exact ih (i + 1) acc (by omega) hacc

/-- **Chunk** returns VIEWS: the store is returned as it came, every chunk lies inside the argument's
window, and the chunks show what the value-level model answers; the deliberate panic is the model's. -/
theorem chunk_refines (σ : Store) (s : Slice) (size : Int) (h : WF σ s) (hsz : 0 < size) :
    ∃ r, chunkStore σ s size = some (σ, r) ∧
      Model.C12.chunk (elems σ s) size = .ok (r.map (elems σ)) ∧ ∀ c ∈ r, View s c ∧ WF σ c := by
  obtain ⟨r, h1, h2, h3⟩ := chunkLoop_refines h size.toNat s.len 0 [] (by omega) (fun _ hc => by cases hc)
  refine ⟨r, ?_, ?_, h3⟩
  · simp only [chunkStore, h1]; rw [if_neg (by omega)]
  · unfold Model.C12.chunk; rw [if_neg (by omega), elems_length h]; exact h2

theorem chunk_panics (σ : Store) (s : Slice) (size : Int) (hsz : size ≤ 0) :
    chunkStore σ s size = none ∧ Model.C12.chunk (elems σ s) size = .panic := by
  simp [chunkStore, Model.C12.chunk, hsz]

example : chunkStore σx arg0 3 = some (σx, [{ arr := 0, off := 1, len := 3, cap := 6 }, { arr := 0, off := 4, len := 1, cap := 3 }]) := by
  decide

/-! ## in-place helpers -/

/-- **InPlace ⇒ everything else is unchanged**: any well-formed header that lies in another array, or in
the same array but outside the argument's window `[off, off+len)` — e.g. the spare capacity behind the
argument, `{off := s.off + s.len, len := s.cap - s.len}` — shows the same elements afterwards. -/
theorem inplace_keeps {σ σ' : Store} {s : Slice} (hp : InPlace σ σ' s) {t : Slice} (ht : WF σ t)
    (hdis : t.arr ≠ s.arr ∨ t.off + t.len ≤ s.off ∨ s.off + s.len ≤ t.off) :
    elems σ' t = elems σ t ∧ WF σ' t := by
  refine ⟨?_, InPlace.keep hp ht⟩
  obtain ⟨_, h2, h3, h4⟩ := hp
  by_cases hta : t.arr = s.arr
  · have hdis' : t.off + t.len ≤ s.off ∨ s.off + s.len ≤ t.off := by
      rcases hdis with h | h
      · exact absurd hta h
      · exact h
    obtain ⟨_, a, ha, _⟩ := ht
    rw [hta] at ha
    simp only [cell, ha, Option.bind_some] at h3
    cases ha' : σ'[s.arr]? with
    | none => rw [ha', ha] at h4; cases h4
    | some a' =>
      simp only [ha', Option.bind_some] at h3
      simp only [elems, hta, ha, ha', Option.getD_some]
      apply List.ext_getElem?
      intro k
      simp only [List.getElem?_take, List.getElem?_drop]
      split
      · exact h3 _ (by omega)
      · rfl
  · exact elems_congr t (h2 _ hta)

example : WF σx { arr := 0, off := 5, len := 2, cap := 2 } ∧ (5 : Nat) + 2 ≤ 7 ∧ arg0.off + arg0.len ≤ 5 :=
  ⟨⟨by decide, _, rfl, by decide⟩, by decide, by decide⟩

/-- **Reverse** (in place): the swap loop never panics, the argument afterwards shows the value-level
model's answer (= the reversed list), the returned header IS the argument, and only cells
`[off, off+len)` of the argument's array may have changed. -/
theorem reverse_refines (σ : Store) (s : Slice) (h : WF σ s) :
    ∃ σ', reverseStore σ s = some (σ', s) ∧
      Model.C12.reverse (elems σ s) = .ok (elems σ' s) ∧ elems σ' s = (elems σ s).reverse ∧
      InPlace σ σ' s := by
  obtain ⟨σ', h1, h2, h3⟩ := reverseLoop_refines 0 s.len h (Nat.le_refl _)
  have h2' : Model.C12.reverse (elems σ s) = .ok (elems σ' s) := by
    unfold Model.C12.reverse; rw [elems_length h]; exact h2
  refine ⟨σ', by simp only [reverseStore, h1], h2', ?_, h3⟩
  have := Theorems.C12.reverse_eq (elems σ s)
  rw [h2'] at this
  injection this

/-- **Reverse is an instance of the generic in-place class** (`Model.Store.runInPlace`): the store it
produces is reached by a sequence of indexed writes through the ONE register holding its argument, so
`Theorems.C16.runInPlace_frame` applies to it. -/
theorem reverse_is_runInPlace (σ : Store) (regs : List Slice) (r : Nat) (s : Slice) (hr : regs[r]? = some s)
    (i j1 : Nat) (σ' : Store) (h : reverseLoop s i j1 σ = some σ') :
    ∃ ws, (runInPlace { σ := σ, regs := regs } r ws).σ = σ' := by
  fun_induction reverseLoop s i j1 σ with
  | case1 i j1 σ hlt hsw => cases h
  | case2 i j1 σ hlt σ1 hsw ih =>
    obtain ⟨ws, hws⟩ := ih h
    unfold swapStore at hsw
    split at hsw
    · rename_i a b _ _
      split at hsw
      · rename_i σa hwa
        refine ⟨(i, b) :: (j1 - 1, a) :: ws, ?_⟩
        simp only [runInPlace, hr, hwa, hsw]
        exact hws
      · cases hsw
    · cases hsw
  | case3 i j1 σ hge => cases h; exact ⟨[], rfl⟩

example : reverseStore σx arg0 = some ([[-555, 4, 3, 2, 1, -777, -777], [2, 9, -888]], arg0) := by
  have h1 : swapStore σx arg0 0 3 = some [[-555, 4, 2, 3, 1, -777, -777], [2, 9, -888]] := by decide
  have h2 : swapStore [[-555, 4, 2, 3, 1, -777, -777], [2, 9, -888]] arg0 1 2 =
      some [[-555, 4, 3, 2, 1, -777, -777], [2, 9, -888]] := by decide
  have e : arg0.len = 4 := rfl
  unfold reverseStore
  rw [e, reverseLoop, if_pos (by decide)]
  simp only [Nat.add_one_sub_one, Nat.zero_add, h1]
  rw [reverseLoop, if_pos (by decide)]
  simp only [Nat.add_one_sub_one, h2]
  rw [reverseLoop, if_neg (by decide)]

/-- **Reject** (in place, through `append(slice[:i], slice[i+1:]...)`): never panics, never allocates; the
returned header is a prefix window of the argument (same array, same offset, same capacity, shorter) and
shows the value-level model's answer; only cells `[off, off+len)` of the argument's array may have
changed — the `append` on the argument's own prefix never reaches the spare capacity. -/
theorem reject_refines (σ : Store) (s : Slice) (fn : Int → Bool) (h : WF σ s) :
    ∃ σ' res, rejectStore σ s fn = some (σ', res) ∧
      elems σ' res = Model.C12.reject (elems σ s) fn ∧
      res.arr = s.arr ∧ res.off = s.off ∧ res.cap = s.cap ∧ res.len ≤ s.len ∧ WF σ' res ∧
      InPlace σ σ' s := by
  obtain ⟨σ', res, g⟩ := rejectLoop_refines fn s.len 0 σ s h (by omega)
  exact ⟨σ', res, g⟩

example : rejectStore σx arg0 (fun x => x % 2 == 0) =
    some ([[-555, 1, 3, 4, 4, -777, -777], [2, 9, -888]], { arr := 0, off := 1, len := 2, cap := 6 }) := by decide

/-! ## Difference, UniqueBy, DropRightWhile, ToSlice -/

theorem differenceStore_eq (σ : Store) (s1 s2 : Slice) (h : WF σ s1) (h2 : WF σ s2) :
    differenceStore σ s1 s2 =
      some (appendEach (alloc σ 0 0).1 (alloc σ 0 0).2 (Model.C11.difference (elems σ s1) (elems σ s2))) := by
  unfold differenceStore
  rw [withoutLoop_eq h h2 s1.len 0 [] _ _ (Inv.alloc σ 0 0) (by omega), List.drop_zero]; rfl

/-- **Difference**: value refinement, frame (both arguments), fresh result. -/
theorem difference_refines (σ : Store) (s1 s2 : Slice) (h : WF σ s1) (h2 : WF σ s2) :
    ∃ σ' res, differenceStore σ s1 s2 = some (σ', res) ∧
      elems σ' res = Model.C11.difference (elems σ s1) (elems σ s2) ∧
      Frame σ σ' ∧ σ.length ≤ res.arr ∧ WF σ' res := by
  obtain ⟨g1, g2, g3, g4⟩ := builder_post σ 0 0 (Model.C11.difference (elems σ s1) (elems σ s2))
  exact ⟨_, _, differenceStore_eq σ s1 s2 h h2, by rw [g1]; rfl, g2, g3, g4⟩

theorem difference_disciplined (σ : Store) (regs : List Slice) (s1 s2 : Slice) (h : WF σ s1) (h2 : WF σ s2) :
    ∃ σ' res, differenceStore σ s1 s2 = some (σ', res) ∧
      run σ.length { σ := σ, regs := regs }
        (Instr.alloc 0 0 :: (Model.C11.difference (elems σ s1) (elems σ s2)).map (Instr.append regs.length)) =
        { σ := σ', regs := regs ++ [res] } :=
  ⟨_, _, differenceStore_eq σ s1 s2 h h2, run_alloc_appends σ regs 0 0 _⟩

example : differenceStore σx arg0 arg1 =
    some (σx ++ [[], [1], [1, 3, 4]], { arr := 4, off := 0, len := 3, cap := 3 }) := by decide

theorem uniqueByStore_eq (σ : Store) (arg : Slice) (fn : Int → Int) (h : WF σ arg) :
    uniqueByStore σ arg fn =
      some (appendEach (alloc σ 0 0).1 (alloc σ 0 0).2 (Model.C11.uniqueBy (elems σ arg) fn)) := by
  unfold uniqueByStore
  rw [uniqueByLoop_eq fn h arg.len 0 [] _ _ (Inv.alloc σ 0 0) (by omega), List.drop_zero]; rfl

/-- **UniqueBy**: value refinement, frame, fresh result. -/
theorem uniqueBy_refines (σ : Store) (arg : Slice) (fn : Int → Int) (h : WF σ arg) :
    ∃ σ' res, uniqueByStore σ arg fn = some (σ', res) ∧
      elems σ' res = Model.C11.uniqueBy (elems σ arg) fn ∧
      Frame σ σ' ∧ σ.length ≤ res.arr ∧ WF σ' res := by
  obtain ⟨g1, g2, g3, g4⟩ := builder_post σ 0 0 (Model.C11.uniqueBy (elems σ arg) fn)
  exact ⟨_, _, uniqueByStore_eq σ arg fn h, by rw [g1]; rfl, g2, g3, g4⟩

theorem uniqueBy_disciplined (σ : Store) (regs : List Slice) (arg : Slice) (fn : Int → Int) (h : WF σ arg) :
    ∃ σ' res, uniqueByStore σ arg fn = some (σ', res) ∧
      run σ.length { σ := σ, regs := regs }
        (Instr.alloc 0 0 :: (Model.C11.uniqueBy (elems σ arg) fn).map (Instr.append regs.length)) =
        { σ := σ', regs := regs ++ [res] } :=
  ⟨_, _, uniqueByStore_eq σ arg fn h, run_alloc_appends σ regs 0 0 _⟩

example : uniqueByStore σx arg0 (fun x => x.tmod 2) =
    some (σx ++ [[], [1], [1, 2, 0]], { arr := 4, off := 0, len := 2, cap := 3 }) := by decide

theorem dropRightWhileStore_eq (σ : Store) (arg : Slice) (fn : Int → Bool) (h : WF σ arg) :
    dropRightWhileStore σ arg fn =
      some (appendEach (alloc σ 0 arg.len).1 (alloc σ 0 arg.len).2
        ((elems σ arg).reverse.filter (fun x => !fn x))) := by
  unfold dropRightWhileStore
  rw [dropRightWhileLoop_eq fn h arg.len _ _ (Inv.alloc σ 0 arg.len) (Nat.le_refl _),
    List.take_of_length_le (Nat.le_of_eq (elems_length h))]

/-- **DropRightWhile** (countdown loop): value refinement, frame, fresh result. -/
theorem dropRightWhile_refines (σ : Store) (arg : Slice) (fn : Int → Bool) (h : WF σ arg) :
    ∃ σ' res, dropRightWhileStore σ arg fn = some (σ', res) ∧
      Model.C12.dropRightWhile (elems σ arg) fn = .ok (elems σ' res) ∧
      Frame σ σ' ∧ σ.length ≤ res.arr ∧ WF σ' res := by
  obtain ⟨g1, g2, g3, g4⟩ := builder_post σ 0 arg.len ((elems σ arg).reverse.filter (fun x => !fn x))
  refine ⟨_, _, dropRightWhileStore_eq σ arg fn h, ?_, g2, g3, g4⟩
  rw [g1, Model.C12.dropRightWhile, Lemmas.C12.dropRightWhileLoop_eq _ _ _ _ (Nat.le_refl _), List.take_length]
  rfl

theorem dropRightWhile_disciplined (σ : Store) (regs : List Slice) (arg : Slice) (fn : Int → Bool) (h : WF σ arg) :
    ∃ σ' res, dropRightWhileStore σ arg fn = some (σ', res) ∧
      run σ.length { σ := σ, regs := regs }
        (Instr.alloc 0 arg.len :: ((elems σ arg).reverse.filter (fun x => !fn x)).map (Instr.append regs.length)) =
        { σ := σ', regs := regs ++ [res] } :=
  ⟨_, _, dropRightWhileStore_eq σ arg fn h, run_alloc_appends σ regs 0 arg.len _⟩

example : dropRightWhileStore σx arg0 (fun x => x % 2 == 0) =
    some (σx ++ [[3, 1, 0, 0]], { arr := 2, off := 0, len := 2, cap := 4 }) := by decide

/-- **ToSlice** (`ToSlice(xs...)` hands `xs` itself over as `args`): the result is a fresh copy. -/
theorem toSlice_refines (σ : Store) (args : Slice) (h : WF σ args) :
    elems (toSliceStore σ args).1 (toSliceStore σ args).2 = elems σ args ∧
      Frame σ (toSliceStore σ args).1 ∧ σ.length ≤ (toSliceStore σ args).2.arr ∧
      WF (toSliceStore σ args).1 (toSliceStore σ args).2 := by
  have hinv0 := Inv.alloc σ 0 args.len
  have hpost := appendMany_post hinv0.wf (elems (alloc σ 0 args.len).1 args)
  have hinv := hinv0.post hpost
  refine ⟨?_, hinv.frame, hinv.fresh, hinv.wf⟩
  simp only [toSliceStore]
  rw [hpost.elems, (hinv0.arg h).2.2, (alloc_spec σ 0 args.len).2.1]; rfl

example : toSliceStore σx arg0 = (σx ++ [[1, 2, 3, 4]], { arr := 2, off := 0, len := 4, cap := 4 }) := by decide

/-! ## Partition: two results side by side -/

/-- **Partition**: value refinement for both halves, frame, both results fresh AND on different arrays
(appending to one never writes the other). -/
theorem partition_refines (σ : Store) (arg : Slice) (fn : Int → Bool) (h : WF σ arg) :
    ∃ σ' q0 q1, partitionStore σ arg fn = some (σ', q0, q1) ∧
      Model.C12.partition (elems σ arg) fn = (elems σ' q0, elems σ' q1) ∧
      Frame σ σ' ∧ σ.length ≤ q0.arr ∧ σ.length ≤ q1.arr ∧ q0.arr ≠ q1.arr ∧ WF σ' q0 ∧ WF σ' q1 := by
  have i0 := Inv.alloc σ 0 0
  obtain ⟨b1, b2, b3, b4, b5⟩ := alloc_spec (alloc σ 0 0).1 0 0
  obtain ⟨c1, c2, c3, c4, c5⟩ := alloc_spec σ 0 0
  have hinv : Inv2 σ (alloc (alloc σ 0 0).1 0 0).1 (alloc σ 0 0).2 (alloc (alloc σ 0 0).1 0 0).2 := by
    refine ⟨⟨by omega, fun a ha => ?_, i0.fresh, ?_⟩, ⟨by omega, fun a ha => ?_, by omega, b1⟩, by omega⟩
    · rw [b5 a (by omega), c5 a ha]
    · exact WF_congr (b5 _ (WF_arr_lt c1)) c1
    · rw [b5 a (by omega), c5 a ha]
  obtain ⟨σ', q0, q1, g1, g2, g3, g4⟩ := partitionLoop_spec fn h arg.len 0 _ _ _ hinv (by omega)
  refine ⟨σ', q0, q1, by simp only [partitionStore, g1], ?_, g2.i0.frame, g2.i0.fresh, g2.i1.fresh, g2.ne,
    g2.i0.wf, g2.i1.wf⟩
  rw [Model.C12.partition, Lemmas.C12.partitionLoop_eq, g3, g4, List.drop_zero,
    elems_congr _ (b5 _ (WF_arr_lt c1)), c2, b2]
  rfl

example : partitionStore σx arg0 (fun x => x % 2 == 0) =
    some (σx ++ [[], [], [1], [2], [1, 3, 0], [2, 4, 0]],
      { arr := 7, off := 0, len := 2, cap := 3 }, { arr := 6, off := 0, len := 2, cap := 3 }) := by decide

/-! ## Shuffle: a copy, then swaps inside the copy -/

/-- **Shuffle** (for every stream `rnd` of `rand.Int()` results): neither `copy` nor any `swap` panics,
the result shows the value-level model's answer, frame, fresh result — the swaps stay inside the copy. -/
theorem shuffle_refines (σ : Store) (src : Slice) (rnd : Nat → Nat) (h : WF σ src) :
    ∃ σ' res, shuffleStore σ src rnd = some (σ', res) ∧
      Model.C12.shuffle rnd (elems σ src) = .ok (elems σ' res) ∧
      Frame σ σ' ∧ σ.length ≤ res.arr ∧ WF σ' res := by
  have i0 := Inv.alloc σ src.len src.len
  have hlen := elems_length h
  have hsrc := (i0.arg h).2.2
  obtain ⟨σ1, w1, e1, p1⟩ := writeAll_spec i0.wf (elems σ src) 0 (by rw [hlen]; exact Nat.le_of_eq (Nat.zero_add _))
  have i1 := i0.inplace p1
  obtain ⟨σ2, g1, g2, g3⟩ := shuffleLoop_refines rnd src.len 0 σ1 i1.wf (Nat.le_refl _)
  have i2 := i1.inplace g3
  have hcopy : copyStore (alloc σ src.len src.len).1 (alloc σ src.len src.len).2 src = some σ1 := by
    unfold copyStore
    rw [hsrc, show (alloc σ src.len src.len).2.len = src.len from rfl,
      List.take_of_length_le (Nat.le_of_eq hlen)]
    exact w1
  refine ⟨σ2, (alloc σ src.len src.len).2, by simp only [shuffleStore, hcopy, g1], ?_, i2.frame, i2.fresh, i2.wf⟩
  rw [Model.C12.shuffle, hlen]
  rw [e1, (alloc_spec σ src.len src.len).2.1] at g2
  simpa [hlen] using g2

example : shuffleStore σx arg0 (fun c => c + 2) =
    some (σx ++ [[2, 4, 1, 3]], { arr := 2, off := 0, len := 4, cap := 4 }) := by decide

/-! ## Intersection: the builder reads its own result -/

theorem intersectionStore_eq (σ : Store) (p0 : Slice) (others : List Slice) (h0 : WF σ p0)
    (ho : ∀ p ∈ others, WF σ p) :
    intersectionStore σ (p0 :: others) =
      some (appendEach (alloc σ 0 0).1 (alloc σ 0 0).2
        (Model.C11.interLoop (others.length + 1) (others.map (elems σ)) [] (elems σ p0))) := by
  obtain ⟨ws, g1, g2⟩ := interLoop_eq (others.length + 1) h0 ho p0.len 0 _ _ (Inv.alloc σ 0 0) (by omega)
  rw [(alloc_spec σ 0 0).2.1, List.drop_zero] at g2
  simp only [List.replicate_zero, List.nil_append] at g2
  simp only [intersectionStore, List.length_cons, g1, g2]

/-- **Intersection** (≥ 1 argument): value refinement, frame (ALL arguments), fresh result. -/
theorem intersection_refines (σ : Store) (p0 : Slice) (others : List Slice) (h0 : WF σ p0)
    (ho : ∀ p ∈ others, WF σ p) :
    ∃ σ' res, intersectionStore σ (p0 :: others) = some (σ', res) ∧
      Model.C11.intersection ((p0 :: others).map (elems σ)) = .ok (elems σ' res) ∧
      Frame σ σ' ∧ σ.length ≤ res.arr ∧ WF σ' res := by
  obtain ⟨g1, g2, g3, g4⟩ := builder_post σ 0 0
    (Model.C11.interLoop (others.length + 1) (others.map (elems σ)) [] (elems σ p0))
  refine ⟨_, _, intersectionStore_eq σ p0 others h0 ho, ?_, g2, g3, g4⟩
  rw [g1]
  simp [Model.C11.intersection]

/-- `Intersection()` panics at `params[0]`, in the store model as in the value-level model -/
theorem intersection_no_argument (σ : Store) :
    intersectionStore σ [] = none ∧ Model.C11.intersection ([] : List (List Int)) = .panic := ⟨rfl, rfl⟩

theorem intersection_disciplined (σ : Store) (regs : List Slice) (p0 : Slice) (others : List Slice) (h0 : WF σ p0)
    (ho : ∀ p ∈ others, WF σ p) :
    ∃ σ' res, intersectionStore σ (p0 :: others) = some (σ', res) ∧
      run σ.length { σ := σ, regs := regs }
        (Instr.alloc 0 0 ::
          (Model.C11.interLoop (others.length + 1) (others.map (elems σ)) [] (elems σ p0)).map
            (Instr.append regs.length)) =
        { σ := σ', regs := regs ++ [res] } :=
  ⟨_, _, intersectionStore_eq σ p0 others h0 ho, run_alloc_appends σ regs 0 0 _⟩

example : intersectionStore σx [arg0, other0, { arr := 0, off := 3, len := 2, cap := 4 }] =
    some (σx ++ [[], [4]], { arr := 3, off := 0, len := 1, cap := 1 }) := by decide

/-! ## the pair rule -/

/-- an earlier result survives a later builder call on the same argument (instance: `Filter`, then
`Merge` of the same argument with itself and other slices): by `frame_keeps`, for ANY later call whose
store function satisfies `Frame`. -/
theorem filter_result_survives_merge (σ : Store) (arg : Slice) (fn : Int → Bool) (ps : List Slice) (h : WF σ arg)
    (hp : ∀ p ∈ ps, WF σ p) :
    ∃ σ1 r1, filterStore σ arg fn = some (σ1, r1) ∧
      elems (mergeStore σ1 arg ps).1 r1 = elems σ1 r1 ∧
      elems (mergeStore σ1 arg ps).1 arg = elems σ arg := by
  obtain ⟨σ1, r1, e, _, hf, _, hw⟩ := filter_refines σ arg fn h
  have harg := frame_keeps hf h
  obtain ⟨_, hf2, _, _⟩ := merge_refines σ1 arg ps harg.2.2 (fun p hp' => (frame_keeps hf (hp p hp')).2.2)
  exact ⟨σ1, r1, e, (frame_keeps hf2 hw).1, by rw [(frame_keeps hf2 harg.2.2).1, harg.1]⟩

/-! ## agreement with the regenerated effect table -/

/-- the helpers covered here with what is PROVED about them: (name, parameters written through,
parameters the result may alias) -/
def covered : List (String × List Nat × List Nat) :=
  [("Filter", [], []), ("DropWhile", [], []), ("DropRightWhile", [], []), ("Unique", [], []), ("UniqueBy", [], []),
   ("Without", [], []), ("Difference", [], []), ("Intersection", [], []), ("Map", [], []), ("Merge", [], []),
   ("ToSlice", [], []), ("Partition", [], []), ("Shuffle", [], []),
   ("Drop", [], [0]), ("Chunk", [], []),            -- `Chunk`: the outer `[][]T` is fresh; its ELEMENTS are views
   ("Reverse", [0], [0]), ("Reject", [0], [0])]

/-- OBLIGATION re-checked against the current source on every run: for every helper covered here the
translator's regenerated classification (`Gen.effects`) is the one proved above — so for these helpers
the table's claim is no longer trusted but proved (as long as `Model/StoreHelpers.lean` mirrors the
source, which is read off, not regenerated). -/
theorem covered_agree_with_table :
    covered.all (fun c => Gen.effects.any (fun e => e.name == c.1 && e.writes == c.2.1 && e.aliases == c.2.2 &&
      !e.selfAssignOnly)) = true := by decide

end GoguVerif.Theorems.C16Helpers
