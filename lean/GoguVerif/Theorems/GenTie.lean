import GoguVerif.Gen.Funcs
import GoguVerif.Model.C13
import GoguVerif.Model.C12
/-!
# The regenerated tie: mechanically translated Go = hand-written model

`Gen/Funcs.lean` is produced on every run by `translator/frag.go` from the Go source of /repo (a
statement-by-statement translation of a small fragment of Go).  Each theorem below states that the
regenerated definition equals the hand-written model that the property theorems (C12, C13) are
about — for ALL inputs.  For these 21 functions the model is therefore tied to the code by the
translator itself, not only by the sampled correspondence run.  A change of the Go source changes the
regenerated definition; if the new definition is no longer equal to the model, the corresponding
theorem stops checking (bin/check then explores with the thorough generators, DESIGN.md §15).
-/
namespace GoguVerif.Theorems.GenTie
open GoguVerif

/-- the value a loop with early `return` yields: the returned value, or the default when it ran to the end -/
def fromSum {α σ : Type} (d : α) : α ⊕ σ → α
  | .inl r => r
  | .inr _ => d

@[simp] theorem fromSum_inl {α σ : Type} (d r : α) : fromSum (σ := σ) d (Sum.inl r) = r := rfl
@[simp] theorem fromSum_inr {α σ : Type} (d : α) (x : σ) : fromSum d (Sum.inr x : α ⊕ σ) = d := rfl

/-! ## slice.go -/

theorem sum_loop (slice s : List Int) (k acc : Int) :
    Gen.Funcs.Sum.loop1 slice s k acc = Model.C13.sumLoop s acc := by
  induction s generalizing k acc with
  | nil => rfl
  | cons v r ih => simp only [Gen.Funcs.Sum.loop1, Model.C13.sumLoop, ih]

theorem sum_tie (s : List Int) : Gen.Funcs.Sum s = Model.C13.Sum s := by
  simp [Gen.Funcs.Sum, Model.C13.Sum, sum_loop]

theorem sumBy_loop (slice : List Int) (fn : Int → Int) (s : List Int) (k acc : Int) :
    Gen.Funcs.SumBy.loop1 slice fn s k acc = Model.C13.sumByLoop fn s acc := by
  induction s generalizing k acc with
  | nil => rfl
  | cons v r ih => simp only [Gen.Funcs.SumBy.loop1, Model.C13.sumByLoop, ih]

theorem sumBy_tie (s : List Int) (fn : Int → Int) : Gen.Funcs.SumBy s fn = Model.C13.SumBy s fn := by
  simp [Gen.Funcs.SumBy, Model.C13.SumBy, sumBy_loop]

theorem indexOf_loop (s0 : List Int) (val : Int) (s : List Int) (k : Nat) :
    fromSum (-1 : Int) (Gen.Funcs.IndexOf.loop1 s0 val s (k : Int) ()) = Model.C13.indexOfLoop val s k := by
  induction s generalizing k with
  | nil => rfl
  | cons v r ih =>
    simp only [Gen.Funcs.IndexOf.loop1, Model.C13.indexOfLoop]
    by_cases h : v = val
    · simp [h]
    · simp only [h, decide_false, Bool.false_eq_true, if_false]
      have := ih (k + 1)
      simpa using this

theorem indexOf_tie (s : List Int) (val : Int) : Gen.Funcs.IndexOf s val = Model.C13.IndexOf s val := by
  have h := indexOf_loop s val s 0
  simp only [Gen.Funcs.IndexOf, Model.C13.IndexOf]
  cases e : Gen.Funcs.IndexOf.loop1 s val s 0 () <;> simp [e, fromSum] at h ⊢ <;> exact h

theorem contains_loop (s0 : List Int) (value : Int) (s : List Int) (k : Int) :
    fromSum false (Gen.Funcs.Contains.loop1 s0 value s k ()) = Model.C13.Contains s value := by
  induction s generalizing k with
  | nil => rfl
  | cons v r ih =>
    simp only [Gen.Funcs.Contains.loop1, Model.C13.Contains]
    by_cases h : v = value
    · simp [h]
    · simp only [h, decide_false, Bool.false_eq_true, if_false]
      exact ih (k + 1)

theorem contains_tie (s : List Int) (value : Int) : Gen.Funcs.Contains s value = Model.C13.Contains s value := by
  have h := contains_loop s value s 0
  simp only [Gen.Funcs.Contains]
  cases e : Gen.Funcs.Contains.loop1 s value s 0 () <;> simp [e, fromSum] at h ⊢ <;> exact h

theorem every_loop (s0 : List Int) (fn : Int → Bool) (s : List Int) (k : Int) :
    fromSum true (Gen.Funcs.Every.loop1 s0 fn s k ()) = Model.C13.Every fn s := by
  induction s generalizing k with
  | nil => rfl
  | cons v r ih =>
    simp only [Gen.Funcs.Every.loop1, Model.C13.Every]
    cases h : fn v
    · simp
    · simp only [Bool.not_true, Bool.false_eq_true, if_false]
      exact ih (k + 1)

theorem every_tie (s : List Int) (fn : Int → Bool) : Gen.Funcs.Every s fn = Model.C13.Every fn s := by
  have h := every_loop s fn s 0
  simp only [Gen.Funcs.Every]
  cases e : Gen.Funcs.Every.loop1 s fn s 0 () <;> simp [e, fromSum] at h ⊢ <;> exact h

theorem some_loop (s0 : List Int) (fn : Int → Bool) (s : List Int) (k : Int) :
    fromSum false (Gen.Funcs.Some.loop1 s0 fn s k ()) = Model.C13.Some fn s := by
  induction s generalizing k with
  | nil => rfl
  | cons v r ih =>
    simp only [Gen.Funcs.Some.loop1, Model.C13.Some]
    cases h : fn v
    · simp only [Bool.false_eq_true, if_false]
      exact ih (k + 1)
    · simp

theorem some_tie (s : List Int) (fn : Int → Bool) : Gen.Funcs.Some s fn = Model.C13.Some fn s := by
  have h := some_loop s fn s 0
  simp only [Gen.Funcs.Some]
  cases e : Gen.Funcs.Some.loop1 s fn s 0 () <;> simp [e, fromSum] at h ⊢ <;> exact h

/-! ## find.go -/

theorem findIndex_loop (s0 : List Int) (fn : Int → Bool) (s : List Int) (k : Nat) :
    fromSum (-1 : Int) (Gen.Funcs.FindIndex.loop1 s0 fn s (k : Int) ()) = Model.C13.findIndexLoop fn s k := by
  induction s generalizing k with
  | nil => rfl
  | cons v r ih =>
    simp only [Gen.Funcs.FindIndex.loop1, Model.C13.findIndexLoop]
    cases h : fn v
    · simp only [Bool.false_eq_true, if_false]
      have := ih (k + 1)
      simpa using this
    · simp

theorem findIndex_tie (s : List Int) (fn : Int → Bool) : Gen.Funcs.FindIndex s fn = Model.C13.FindIndex s fn := by
  have h := findIndex_loop s fn s 0
  simp only [Gen.Funcs.FindIndex, Model.C13.FindIndex]
  cases e : Gen.Funcs.FindIndex.loop1 s fn s 0 () <;> simp [e, fromSum] at h ⊢ <;> exact h

theorem findMin_loop (s0 s : List Int) (i m : Int) :
    Gen.Funcs.FindMin.loop1 s0 s i m = Model.C13.minLoop s m := by
  induction s generalizing i m with
  | nil => rfl
  | cons x r ih =>
    simp only [Gen.Funcs.FindMin.loop1, Model.C13.minLoop]
    by_cases h : x < m <;> simp [h, ih]

theorem findMin_tie (s : List Int) : Gen.Funcs.FindMin s = Model.C13.FindMin s := by
  cases s <;> simp [Gen.Funcs.FindMin, Model.C13.FindMin, Model.C13.seed, findMin_loop]

theorem findMax_loop (s0 s : List Int) (i m : Int) :
    Gen.Funcs.FindMax.loop1 s0 s i m = Model.C13.maxLoop s m := by
  induction s generalizing i m with
  | nil => rfl
  | cons x r ih =>
    simp only [Gen.Funcs.FindMax.loop1, Model.C13.maxLoop]
    by_cases h : x > m <;> simp [h, ih]

theorem findMax_tie (s : List Int) : Gen.Funcs.FindMax s = Model.C13.FindMax s := by
  cases s <;> simp [Gen.Funcs.FindMax, Model.C13.FindMax, Model.C13.seed, findMax_loop]

theorem findMinBy_loop (s0 : List Int) (fn : Int → Int) (s : List Int) (i m : Int) :
    Gen.Funcs.FindMinBy.loop1 s0 fn s i m = Model.C13.minByLoop fn s m := by
  induction s generalizing i m with
  | nil => rfl
  | cons x r ih =>
    simp only [Gen.Funcs.FindMinBy.loop1, Model.C13.minByLoop]
    by_cases h : fn x < fn m <;> simp [h, ih]

theorem findMinBy_tie (s : List Int) (fn : Int → Int) : Gen.Funcs.FindMinBy s fn = Model.C13.FindMinBy s fn := by
  cases s <;> simp [Gen.Funcs.FindMinBy, Model.C13.FindMinBy, Model.C13.seed, findMinBy_loop]

theorem findMaxBy_loop (s0 : List Int) (fn : Int → Int) (s : List Int) (i m : Int) :
    Gen.Funcs.FindMaxBy.loop1 s0 fn s i m = Model.C13.maxByLoop fn s m := by
  induction s generalizing i m with
  | nil => rfl
  | cons x r ih =>
    simp only [Gen.Funcs.FindMaxBy.loop1, Model.C13.maxByLoop]
    by_cases h : fn x > fn m <;> simp [h, ih]

theorem findMaxBy_tie (s : List Int) (fn : Int → Int) : Gen.Funcs.FindMaxBy s fn = Model.C13.FindMaxBy s fn := by
  cases s <;> simp [Gen.Funcs.FindMaxBy, Model.C13.FindMaxBy, Model.C13.seed, findMaxBy_loop]

/-! ## math.go, generic.go -/

theorem min_loop (s0 s : List Int) (k m : Int) : Gen.Funcs.Min.loop1 s0 s k m = Model.C13.minLoop s m := by
  induction s generalizing k m with
  | nil => rfl
  | cons x r ih =>
    simp only [Gen.Funcs.Min.loop1, Model.C13.minLoop]
    by_cases h : x < m <;> simp [h, ih]

theorem min_tie (values : List Int) : Gen.Funcs.Min values = Model.C13.Min values := by
  cases values <;> simp [Gen.Funcs.Min, Model.C13.Min, min_loop]

theorem max_loop (s0 s : List Int) (k m : Int) : Gen.Funcs.Max.loop1 s0 s k m = Model.C13.maxLoop s m := by
  induction s generalizing k m with
  | nil => rfl
  | cons x r ih =>
    simp only [Gen.Funcs.Max.loop1, Model.C13.maxLoop]
    by_cases h : x > m <;> simp [h, ih]

theorem max_tie (values : List Int) : Gen.Funcs.Max values = Model.C13.Max values := by
  cases values <;> simp [Gen.Funcs.Max, Model.C13.Max, max_loop]

theorem abs_tie (x : Int) : Gen.Funcs.Abs x = Model.C13.Abs x := by
  simp [Gen.Funcs.Abs, Model.C13.Abs]

theorem clamp_tie (num mn mx : Int) : Gen.Funcs.Clamp num mn mx = Model.C13.Clamp num mn mx := by
  simp [Gen.Funcs.Clamp, Model.C13.Clamp]

theorem inRange_tie (num lo up : Int) : Gen.Funcs.InRange num lo up = Model.C13.InRange num lo up := by
  simp only [Gen.Funcs.InRange, Model.C13.InRange]
  by_cases h1 : num ≥ lo <;> by_cases h2 : num ≤ up <;> simp [h1, h2]

theorem compare_tie (a b : Int) (comp : Int → Int → Bool) :
    Gen.Funcs.Compare a b comp = Model.C13.Compare a b comp := by
  simp [Gen.Funcs.Compare, Model.C13.Compare]

theorem equal_tie (a b : Int) : Gen.Funcs.Equal a b = Model.C13.Equal a b := rfl
theorem less_tie (a b : Int) : Gen.Funcs.Less a b = Model.C13.Less a b := rfl

/-! ## filter.go, slice.go (C12) -/

theorem filter_loop (s0 : List Int) (fn : Int → Bool) (s : List Int) (k : Int) (res : List Int) :
    Gen.Funcs.Filter.loop1 s0 fn s k res = Model.C12.filterLoop fn s res := by
  induction s generalizing k res with
  | nil => rfl
  | cons v r ih =>
    simp only [Gen.Funcs.Filter.loop1, Model.C12.filterLoop]
    cases h : fn v <;> simp [ih]

theorem filter_tie (s : List Int) (fn : Int → Bool) : Gen.Funcs.Filter s fn = Model.C12.filter s fn := by
  simp [Gen.Funcs.Filter, Model.C12.filter, filter_loop]

theorem partition_loop (s0 : List Int) (fn : Int → Bool) (s : List Int) (k : Int) (res : List Int × List Int) :
    Gen.Funcs.Partition.loop1 s0 fn s k res = Model.C12.partitionLoop fn s res := by
  induction s generalizing k res with
  | nil => rfl
  | cons v r ih =>
    obtain ⟨yes, no⟩ := res
    simp only [Gen.Funcs.Partition.loop1, Model.C12.partitionLoop]
    cases h : fn v <;> simp [ih]

theorem partition_tie (s : List Int) (fn : Int → Bool) : Gen.Funcs.Partition s fn = Model.C12.partition s fn := by
  simp [Gen.Funcs.Partition, Model.C12.partition, partition_loop]

end GoguVerif.Theorems.GenTie
