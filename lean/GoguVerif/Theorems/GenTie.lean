import GoguVerif.Gen.Funcs
import GoguVerif.Model.C13
import GoguVerif.Model.C12
import GoguVerif.Model.C11
import GoguVerif.Model.C15
/-!
# The regenerated tie: mechanically translated Go = hand-written model

`Gen/Funcs.lean` is produced on every run by `translator/frag.go` from the Go source of /repo (a
statement-by-statement translation of a small fragment of Go).  Each theorem below states that the
regenerated definition equals the hand-written model that the property theorems (C12, C13) are
about — for ALL inputs.  For these functions the model is therefore tied to the code by the
translator itself, not only by the sampled correspondence run.

Statement forms.  Pure functions: `Gen.Funcs.F args = Model.Cxx.f args`.  Functions translated in RES mode
(`Res α = Except Exc α`, see translator/frag.go): `Gen.Funcs.F args = ofC12 (Model.C12.f args)` /
`ofC15 (…)` where `ofC12`, `ofC15` are the (injective) embeddings of the model's outcome type into `Res`, or
`toOut (Gen.Funcs.F args) = Model.C13.f args` where `toOut` is the (injective) embedding of `Res` into the
C13 outcome type.  The C12 iterators are modelled with state-passing callbacks; their tie is stated for pure
callbacks (`mapPure`, `reduce` with a callback that leaves the state alone).  The set helpers of C11 are
modelled with the key list of the Go `map[T]bool`; the regenerated definition uses an association list
(`mapHas`/`mapSet`), and the proofs carry the invariant that both stand for the same set (`SameKeys`).  A change of the Go source changes the
regenerated definition; if the new definition is no longer equal to the model, the corresponding
theorem stops checking (bin/check then explores with the thorough generators, DESIGN.md §15).
-/
namespace GoguVerif.Theorems.GenTie
open GoguVerif
open GoguVerif.Gen.Funcs (Res Exc goIdx goSlice goSet goDiv goMod goMake goRepeat mapHas mapSet mapGet)

/-- the value a loop with early `return` yields: the returned value, or the default when it ran to the end -/
def fromSum {α σ : Type} (d : α) : α ⊕ σ → α
  | .inl r => r
  | .inr _ => d

@[simp] theorem fromSum_inl {α σ : Type} (d r : α) : fromSum (σ := σ) d (Sum.inl r) = r := rfl
@[simp] theorem fromSum_inr {α σ : Type} (d : α) (x : σ) : fromSum d (Sum.inr x : α ⊕ σ) = d := rfl

/-! ## slice.go -/

theorem sum_loop (slice s : List Int) (k acc : Int) :
    Gen.Funcs.Sum.loop1 slice s k acc = Model.C13.sumLoop s acc := by
  induction s generalizing k acc with
  | nil => rfl
  | cons v r ih => simp only [Gen.Funcs.Sum.loop1, Model.C13.sumLoop, ih]

theorem sum_tie (s : List Int) : Gen.Funcs.Sum s = Model.C13.Sum s := by
  simp [Gen.Funcs.Sum, Model.C13.Sum, sum_loop]

theorem sumBy_loop (slice : List Int) (fn : Int → Int) (s : List Int) (k acc : Int) :
    Gen.Funcs.SumBy.loop1 slice fn s k acc = Model.C13.sumByLoop fn s acc := by
  induction s generalizing k acc with
  | nil => rfl
  | cons v r ih => simp only [Gen.Funcs.SumBy.loop1, Model.C13.sumByLoop, ih]

theorem sumBy_tie (s : List Int) (fn : Int → Int) : Gen.Funcs.SumBy s fn = Model.C13.SumBy s fn := by
  simp [Gen.Funcs.SumBy, Model.C13.SumBy, sumBy_loop]

theorem indexOf_loop (s0 : List Int) (val : Int) (s : List Int) (k : Nat) :
    fromSum (-1 : Int) (Gen.Funcs.IndexOf.loop1 s0 val s (k : Int) ()) = Model.C13.indexOfLoop val s k := by
  induction s generalizing k with
  | nil => rfl
  | cons v r ih =>
    simp only [Gen.Funcs.IndexOf.loop1, Model.C13.indexOfLoop]
    by_cases h : v = val
    · simp [h]
    · simp only [h, decide_false, Bool.false_eq_true, if_false]
      have := ih (k + 1)
      simpa using this

theorem indexOf_tie (s : List Int) (val : Int) : Gen.Funcs.IndexOf s val = Model.C13.IndexOf s val := by
  have h := indexOf_loop s val s 0
  simp only [Gen.Funcs.IndexOf, Model.C13.IndexOf]
  cases e : Gen.Funcs.IndexOf.loop1 s val s 0 () <;> simp [e, fromSum] at h ⊢ <;> exact h

theorem contains_loop (s0 : List Int) (value : Int) (s : List Int) (k : Int) :
    fromSum false (Gen.Funcs.Contains.loop1 s0 value s k ()) = Model.C13.Contains s value := by
  induction s generalizing k with
  | nil => rfl
  | cons v r ih =>
    simp only [Gen.Funcs.Contains.loop1, Model.C13.Contains]
    by_cases h : v = value
    · simp [h]
    · simp only [h, decide_false, Bool.false_eq_true, if_false]
      exact ih (k + 1)

theorem contains_tie (s : List Int) (value : Int) : Gen.Funcs.Contains s value = Model.C13.Contains s value := by
  have h := contains_loop s value s 0
  simp only [Gen.Funcs.Contains]
  cases e : Gen.Funcs.Contains.loop1 s value s 0 () <;> simp [e, fromSum] at h ⊢ <;> exact h

theorem every_loop (s0 : List Int) (fn : Int → Bool) (s : List Int) (k : Int) :
    fromSum true (Gen.Funcs.Every.loop1 s0 fn s k ()) = Model.C13.Every fn s := by
  induction s generalizing k with
  | nil => rfl
  | cons v r ih =>
    simp only [Gen.Funcs.Every.loop1, Model.C13.Every]
    cases h : fn v
    · simp
    · simp only [Bool.not_true, Bool.false_eq_true, if_false]
      exact ih (k + 1)

theorem every_tie (s : List Int) (fn : Int → Bool) : Gen.Funcs.Every s fn = Model.C13.Every fn s := by
  have h := every_loop s fn s 0
  simp only [Gen.Funcs.Every]
  cases e : Gen.Funcs.Every.loop1 s fn s 0 () <;> simp [e, fromSum] at h ⊢ <;> exact h

theorem some_loop (s0 : List Int) (fn : Int → Bool) (s : List Int) (k : Int) :
    fromSum false (Gen.Funcs.Some.loop1 s0 fn s k ()) = Model.C13.Some fn s := by
  induction s generalizing k with
  | nil => rfl
  | cons v r ih =>
    simp only [Gen.Funcs.Some.loop1, Model.C13.Some]
    cases h : fn v
    · simp only [Bool.false_eq_true, if_false]
      exact ih (k + 1)
    · simp

theorem some_tie (s : List Int) (fn : Int → Bool) : Gen.Funcs.Some s fn = Model.C13.Some fn s := by
  have h := some_loop s fn s 0
  simp only [Gen.Funcs.Some]
  cases e : Gen.Funcs.Some.loop1 s fn s 0 () <;> simp [e, fromSum] at h ⊢ <;> exact h

/-! ## find.go -/

theorem findIndex_loop (s0 : List Int) (fn : Int → Bool) (s : List Int) (k : Nat) :
    fromSum (-1 : Int) (Gen.Funcs.FindIndex.loop1 s0 fn s (k : Int) ()) = Model.C13.findIndexLoop fn s k := by
  induction s generalizing k with
  | nil => rfl
  | cons v r ih =>
    simp only [Gen.Funcs.FindIndex.loop1, Model.C13.findIndexLoop]
    cases h : fn v
    · simp only [Bool.false_eq_true, if_false]
      have := ih (k + 1)
      simpa using this
    · simp

theorem findIndex_tie (s : List Int) (fn : Int → Bool) : Gen.Funcs.FindIndex s fn = Model.C13.FindIndex s fn := by
  have h := findIndex_loop s fn s 0
  simp only [Gen.Funcs.FindIndex, Model.C13.FindIndex]
  cases e : Gen.Funcs.FindIndex.loop1 s fn s 0 () <;> simp [e, fromSum] at h ⊢ <;> exact h

theorem findMin_loop (s0 s : List Int) (i m : Int) :
    Gen.Funcs.FindMin.loop1 s0 s i m = Model.C13.minLoop s m := by
  induction s generalizing i m with
  | nil => rfl
  | cons x r ih =>
    simp only [Gen.Funcs.FindMin.loop1, Model.C13.minLoop]
    by_cases h : x < m <;> simp [h, ih]

theorem findMin_tie (s : List Int) : Gen.Funcs.FindMin s = Model.C13.FindMin s := by
  cases s <;> simp [Gen.Funcs.FindMin, Model.C13.FindMin, Model.C13.seed, findMin_loop]

theorem findMax_loop (s0 s : List Int) (i m : Int) :
    Gen.Funcs.FindMax.loop1 s0 s i m = Model.C13.maxLoop s m := by
  induction s generalizing i m with
  | nil => rfl
  | cons x r ih =>
    simp only [Gen.Funcs.FindMax.loop1, Model.C13.maxLoop]
    by_cases h : x > m <;> simp [h, ih]

theorem findMax_tie (s : List Int) : Gen.Funcs.FindMax s = Model.C13.FindMax s := by
  cases s <;> simp [Gen.Funcs.FindMax, Model.C13.FindMax, Model.C13.seed, findMax_loop]

theorem findMinBy_loop (s0 : List Int) (fn : Int → Int) (s : List Int) (i m : Int) :
    Gen.Funcs.FindMinBy.loop1 s0 fn s i m = Model.C13.minByLoop fn s m := by
  induction s generalizing i m with
  | nil => rfl
  | cons x r ih =>
    simp only [Gen.Funcs.FindMinBy.loop1, Model.C13.minByLoop]
    by_cases h : fn x < fn m <;> simp [h, ih]

theorem findMinBy_tie (s : List Int) (fn : Int → Int) : Gen.Funcs.FindMinBy s fn = Model.C13.FindMinBy s fn := by
  cases s <;> simp [Gen.Funcs.FindMinBy, Model.C13.FindMinBy, Model.C13.seed, findMinBy_loop]

theorem findMaxBy_loop (s0 : List Int) (fn : Int → Int) (s : List Int) (i m : Int) :
    Gen.Funcs.FindMaxBy.loop1 s0 fn s i m = Model.C13.maxByLoop fn s m := by
  induction s generalizing i m with
  | nil => rfl
  | cons x r ih =>
    simp only [Gen.Funcs.FindMaxBy.loop1, Model.C13.maxByLoop]
    by_cases h : fn x > fn m <;> simp [h, ih]

theorem findMaxBy_tie (s : List Int) (fn : Int → Int) : Gen.Funcs.FindMaxBy s fn = Model.C13.FindMaxBy s fn := by
  cases s <;> simp [Gen.Funcs.FindMaxBy, Model.C13.FindMaxBy, Model.C13.seed, findMaxBy_loop]

/-! ## math.go, generic.go -/

theorem min_loop (s0 s : List Int) (k m : Int) : Gen.Funcs.Min.loop1 s0 s k m = Model.C13.minLoop s m := by
  induction s generalizing k m with
  | nil => rfl
  | cons x r ih =>
    simp only [Gen.Funcs.Min.loop1, Model.C13.minLoop]
    by_cases h : x < m <;> simp [h, ih]

theorem min_tie (values : List Int) : Gen.Funcs.Min values = Model.C13.Min values := by
  cases values <;> simp [Gen.Funcs.Min, Model.C13.Min, min_loop]

theorem max_loop (s0 s : List Int) (k m : Int) : Gen.Funcs.Max.loop1 s0 s k m = Model.C13.maxLoop s m := by
  induction s generalizing k m with
  | nil => rfl
  | cons x r ih =>
    simp only [Gen.Funcs.Max.loop1, Model.C13.maxLoop]
    by_cases h : x > m <;> simp [h, ih]

theorem max_tie (values : List Int) : Gen.Funcs.Max values = Model.C13.Max values := by
  cases values <;> simp [Gen.Funcs.Max, Model.C13.Max, max_loop]

theorem abs_tie (x : Int) : Gen.Funcs.Abs x = Model.C13.Abs x := by
  simp [Gen.Funcs.Abs, Model.C13.Abs]

theorem clamp_tie (num mn mx : Int) : Gen.Funcs.Clamp num mn mx = Model.C13.Clamp num mn mx := by
  simp [Gen.Funcs.Clamp, Model.C13.Clamp]

theorem inRange_tie (num lo up : Int) : Gen.Funcs.InRange num lo up = Model.C13.InRange num lo up := by
  simp only [Gen.Funcs.InRange, Model.C13.InRange]
  by_cases h1 : num ≥ lo <;> by_cases h2 : num ≤ up <;> simp [h1, h2]

theorem compare_tie (a b : Int) (comp : Int → Int → Bool) :
    Gen.Funcs.Compare a b comp = Model.C13.Compare a b comp := by
  simp [Gen.Funcs.Compare, Model.C13.Compare]

theorem equal_tie (a b : Int) : Gen.Funcs.Equal a b = Model.C13.Equal a b := rfl
theorem less_tie (a b : Int) : Gen.Funcs.Less a b = Model.C13.Less a b := rfl

/-! ## filter.go, slice.go (C12) -/

theorem filter_loop (s0 : List Int) (fn : Int → Bool) (s : List Int) (k : Int) (res : List Int) :
    Gen.Funcs.Filter.loop1 s0 fn s k res = Model.C12.filterLoop fn s res := by
  induction s generalizing k res with
  | nil => rfl
  | cons v r ih =>
    simp only [Gen.Funcs.Filter.loop1, Model.C12.filterLoop]
    cases h : fn v <;> simp [ih]

theorem filter_tie (s : List Int) (fn : Int → Bool) : Gen.Funcs.Filter s fn = Model.C12.filter s fn := by
  simp [Gen.Funcs.Filter, Model.C12.filter, filter_loop]

theorem partition_loop (s0 : List Int) (fn : Int → Bool) (s : List Int) (k : Int) (res : List Int × List Int) :
    Gen.Funcs.Partition.loop1 s0 fn s k res = Model.C12.partitionLoop fn s res := by
  induction s generalizing k res with
  | nil => rfl
  | cons v r ih =>
    obtain ⟨yes, no⟩ := res
    simp only [Gen.Funcs.Partition.loop1, Model.C12.partitionLoop]
    cases h : fn v <;> simp [ih]

theorem partition_tie (s : List Int) (fn : Int → Bool) : Gen.Funcs.Partition s fn = Model.C12.partition s fn := by
  simp [Gen.Funcs.Partition, Model.C12.partition, partition_loop]

/-! # Second batch: RES mode, counting loops, maps as sets, strings -/

def toOut {α : Type} : Res α → Spec.C13.Out α
  | .ok a => .ok a
  | .error .err => .err
  | .error .panic => .panic

def ofC12 {α : Type} : Model.C12.Outcome α → Res α
  | .ok a => .ok a
  | .panic => .error .panic

def ofC15 {α : Type} : Model.C15.Outcome α → Res α
  | .ok a => .ok a
  | .panic => .error .panic

theorem mean_loop (s0 s : List Int) (i acc : Int) :
    Gen.Funcs.Mean.loop1 s0 s i acc = Model.C13.sumLoop s acc := by
  induction s generalizing i acc with
  | nil => rfl
  | cons v r ih => simp only [Gen.Funcs.Mean.loop1, Model.C13.sumLoop, ih]

theorem mean_tie (s : List Int) : toOut (Gen.Funcs.Mean s) = Model.C13.Mean s := by
  simp only [Gen.Funcs.Mean, Model.C13.Mean, mean_loop, goDiv]
  by_cases h : s.length = 0
  · simp [h, toOut]
  · have : ¬ ((s.length : Int) = 0) := by omega
    simp [h, toOut]

theorem reduce_loop (s0 : List Int) (fn : Int → Int → Int) (iv : Int) (s : List Int) (k a : Int) :
    (Gen.Funcs.Reduce.loop1 s0 fn iv s k a, ()) = Model.C12.reduce (fun v a st => (fn v a, st)) s a () := by
  induction s generalizing k a with
  | nil => rfl
  | cons v r ih => simp only [Gen.Funcs.Reduce.loop1, Model.C12.reduce, ih]

theorem reduce_tie (s : List Int) (fn : Int → Int → Int) (iv : Int) :
    (Gen.Funcs.Reduce s fn iv, ()) = Model.C12.reduce (fun v a st => (fn v a, st)) s iv () := by
  simp only [Gen.Funcs.Reduce, reduce_loop]

theorem dropWhile_loop (s0 : List Int) (fn : Int → Bool) (s : List Int) (k : Int) (res : List Int) :
    Gen.Funcs.DropWhile.loop1 s0 fn s k res = Model.C12.dropWhileLoop fn s res := by
  induction s generalizing k res with
  | nil => rfl
  | cons v r ih =>
    simp only [Gen.Funcs.DropWhile.loop1, Model.C12.dropWhileLoop]
    cases h : fn v <;> simp [ih]

theorem dropWhile_tie (s : List Int) (fn : Int → Bool) : Gen.Funcs.DropWhile s fn = Model.C12.dropWhile s fn := by
  simp [Gen.Funcs.DropWhile, Model.C12.dropWhile, dropWhile_loop]

theorem merge_loop (s0 : List Int) (p0 ps : List (List Int)) (i : Int) (m : List Int) :
    Gen.Funcs.Merge.loop1 s0 p0 ps i m = Model.C12.mergeLoop ps m := by
  induction ps generalizing i m with
  | nil => rfl
  | cons p r ih => simp only [Gen.Funcs.Merge.loop1, Model.C12.mergeLoop, ih]

theorem merge_tie (s : List Int) (params : List (List Int)) : Gen.Funcs.Merge s params = Model.C12.merge s params := by
  simp [Gen.Funcs.Merge, Model.C12.merge, merge_loop]

theorem goSlice_c12 {α : Type} (s : List α) (lo hi : Int) : goSlice s lo hi = ofC12 (Model.C12.sliceOf s lo hi) := by
  unfold goSlice Model.C12.sliceOf
  split <;> rfl

theorem goSlice_c15 (s : List UInt8) (lo hi : Int) : goSlice s lo hi = ofC15 (Model.C15.goSlice s lo hi) := by
  unfold goSlice Model.C15.goSlice
  split <;> rfl

theorem drop_tie (s : List Int) (n : Int) : Gen.Funcs.Drop s n = ofC12 (Model.C12.drop s n) := by
  simp only [Gen.Funcs.Drop, Model.C12.drop, goSlice_c12, Gen.Funcs.Abs, Model.C12.abs]
  by_cases h1 : n > -(s.length : Int) <;> by_cases h2 : n < s.length <;> by_cases h3 : n > 0 <;>
    simp [h1, h2, h3, ofC12] <;> (cases Model.C12.sliceOf _ _ _ <;> rfl)


def resSum {α σ : Type} (d : α) : Res (α ⊕ σ) → Res α
  | .error e => .error e
  | .ok (.inl r) => .ok r
  | .ok (.inr _) => .ok d

theorem goIdx_nat {α : Type} (s : List α) (n : Nat) :
    goIdx s (n : Int) = match s[n]? with | some v => Except.ok v | none => Except.error Exc.panic := by
  unfold goIdx
  have : ¬ ((n : Int) < 0) := by omega
  simp only [this, if_false, Int.toNat_natCast]
  cases s[n]? <;> rfl

theorem lastIndexOf_loop (s : List Int) (val : Int) (n : Nat) (j : Int) :
    toOut (resSum (-1 : Int) (Gen.Funcs.LastIndexOf.loop1 s val n j)) = Model.C13.lastIndexOfLoop val s n := by
  induction n generalizing j with
  | zero => rfl
  | succ n ih =>
    simp only [Gen.Funcs.LastIndexOf.loop1, Model.C13.lastIndexOfLoop, goIdx_nat]
    cases h : s[n]? with
    | none => rfl
    | some v =>
      simp only []
      by_cases hv : v = val
      · simp [hv, resSum, toOut]
      · simp only [hv, decide_false, Bool.false_eq_true, if_false]
        exact ih _

theorem len_toNat (n : Nat) : ((n : Int) - 1 + 1).toNat = n := by omega

theorem lastIndexOf_tie (s : List Int) (val : Int) :
    toOut (Gen.Funcs.LastIndexOf s val) = Model.C13.LastIndexOf s val := by
  have h := lastIndexOf_loop s val s.length 0
  simp only [Gen.Funcs.LastIndexOf, Model.C13.LastIndexOf, len_toNat]
  rw [← h]
  cases Gen.Funcs.LastIndexOf.loop1 s val s.length 0 with
  | error e => rfl
  | ok r => cases r <;> rfl

theorem findLastIndex_loop (s : List Int) (fn : Int → Bool) (n : Nat) (j : Int) :
    toOut (resSum (-1 : Int) (Gen.Funcs.FindLastIndex.loop1 s fn n j)) = Model.C13.findLastIndexLoop fn s n := by
  induction n generalizing j with
  | zero => rfl
  | succ n ih =>
    simp only [Gen.Funcs.FindLastIndex.loop1, Model.C13.findLastIndexLoop, goIdx_nat]
    cases h : s[n]? with
    | none => rfl
    | some v =>
      simp only []
      cases hv : fn v
      · simp only [Bool.false_eq_true, if_false]
        exact ih _
      · simp [resSum, toOut]

theorem findLastIndex_tie (s : List Int) (fn : Int → Bool) :
    toOut (Gen.Funcs.FindLastIndex s fn) = Model.C13.FindLastIndex s fn := by
  have h := findLastIndex_loop s fn s.length 0
  simp only [Gen.Funcs.FindLastIndex, Model.C13.FindLastIndex, len_toNat]
  rw [← h]
  cases Gen.Funcs.FindLastIndex.loop1 s fn s.length 0 with
  | error e => rfl
  | ok r => cases r <;> rfl

theorem dropRightWhile_loop (s : List Int) (fn : Int → Bool) (n : Nat) (res : List Int) :
    Gen.Funcs.DropRightWhile.loop1 s fn n res = ofC12 (Model.C12.dropRightWhileLoop fn s n res) := by
  induction n generalizing res with
  | zero => rfl
  | succ n ih =>
    simp only [Gen.Funcs.DropRightWhile.loop1, Model.C12.dropRightWhileLoop, goIdx_nat]
    cases h : s[n]? with
    | none => rfl
    | some v =>
      simp only []
      cases hv : fn v <;> simp [ih]

theorem dropRightWhile_tie (s : List Int) (fn : Int → Bool) :
    Gen.Funcs.DropRightWhile s fn = ofC12 (Model.C12.dropRightWhile s fn) := by
  simp only [Gen.Funcs.DropRightWhile, Model.C12.dropRightWhile, len_toNat, dropRightWhile_loop]
  cases Model.C12.dropRightWhileLoop fn s s.length [] <;> rfl

theorem goSet_nat {α : Type} (s : List α) (k : Nat) (v : α) :
    goSet s (k : Int) v = if k < s.length then Except.ok (s.set k v) else Except.error Exc.panic := by
  unfold goSet
  by_cases h : k < s.length
  · have : 0 ≤ (k : Int) ∧ (k : Int) < (s.length : Int) := by omega
    simp [h, this]
  · simp [h]

/-- `Map` with a pure callback, the model's result projected to the slice -/
def c12Fst {α σ : Type} : Model.C12.Outcome (α × σ) → Model.C12.Outcome α
  | .ok r => .ok r.1
  | .panic => .panic

theorem map_loop (s0 : List Int) (fn : Int → Int) (s : List Int) (k : Nat) (res : List Int) :
    Gen.Funcs.Map.loop1 s0 fn s (k : Int) res
      = ofC12 (c12Fst (Model.C12.mapLoop (fun x (_ : Unit) => (fn x, ())) s k res ())) := by
  induction s generalizing k res with
  | nil => rfl
  | cons v r ih =>
    simp only [Gen.Funcs.Map.loop1, Model.C12.mapLoop, goSet_nat]
    by_cases h : k < res.length
    · simp only [h, if_true]
      have := ih (k + 1) (res.set k (fn v))
      simpa using this
    · simp [h, c12Fst, ofC12]

theorem map_tie (s : List Int) (fn : Int → Int) : Gen.Funcs.Map s fn = ofC12 (Model.C12.mapPure s fn) := by
  have h := map_loop s fn s 0 (List.replicate s.length 0)
  simp only [Gen.Funcs.Map, Model.C12.mapPure, Model.C12.map]
  simp only [Int.natCast_zero] at h
  rw [h]
  have hd : (default : Int) = 0 := rfl
  rw [hd]
  cases Model.C12.mapLoop (fun x (_ : Unit) => (fn x, ())) s 0 (List.replicate s.length 0) () <;> rfl


/-! ## string.go (C15) -/

theorem wrap_tie (str tok : List UInt8) : Gen.Funcs.Wrap str tok = Model.C15.wrap str tok := by
  simp [Gen.Funcs.Wrap, Model.C15.wrap]

theorem goRepeat_c15 (s : List UInt8) (n : Int) : goRepeat s n = ofC15 (Model.C15.goRepeat s n) := by
  unfold goRepeat Model.C15.goRepeat
  split <;> rfl

theorem unwrap_tie (str tok : List UInt8) : Gen.Funcs.Unwrap str tok = ofC15 (Model.C15.unwrap str tok) := by
  have e1 : ((tok.length : Int) > 0) ↔ tok.length > 0 := by omega
  have e2 : ((str.length : Int) ≥ 2 * (tok.length : Int)) ↔ (str.length ≥ 2 * tok.length) := by omega
  simp only [Gen.Funcs.Unwrap, Model.C15.unwrap, goSlice_c15, e1, e2]
  by_cases h1 : tok.length > 0 <;> by_cases h2 : str.length ≥ 2 * tok.length <;>
    cases h3 : tok.isPrefixOf str <;> cases h4 : tok.isSuffixOf str <;>
    simp [h1, h2, ofC15] <;>
    (cases Model.C15.goSlice _ _ _ <;> rfl)

theorem splitAtIndex_tie (str : List UInt8) (index : Int) :
    Gen.Funcs.SplitAtIndex str index = ofC15 (Model.C15.splitAtIndex str index) := by
  simp only [Gen.Funcs.SplitAtIndex, Model.C15.splitAtIndex, goSlice_c15]
  by_cases h1 : index < 0 <;> by_cases h2 : index > (str.length : Int) - 1 <;> simp [h1, h2, ofC15]
  all_goals
    cases Model.C15.goSlice str 0 (index + 1) <;> cases Model.C15.goSlice str (index + 1) str.length <;> rfl

theorem padLeft_tie (str : List UInt8) (size : Int) (tok : List UInt8) :
    Gen.Funcs.PadLeft str size tok = ofC15 (Model.C15.padLeft str size tok) := by
  simp only [Gen.Funcs.PadLeft, Model.C15.padLeft, Model.C15.padToken, goSlice_c15, goRepeat_c15]
  by_cases h1 : size ≤ (str.length : Int) <;> by_cases h2 : (tok.length : Int) ≤ size - str.length <;>
    simp [h1, h2, ofC15, Model.C15.Outcome.bind]
  · cases Model.C15.goRepeat tok (size - str.length) with
    | panic => rfl
    | ok t => simp only []; cases Model.C15.goSlice t 0 (size - str.length) <;> rfl
  · cases Model.C15.goSlice tok 0 (size - str.length) <;> rfl

theorem padRight_tie (str : List UInt8) (size : Int) (tok : List UInt8) :
    Gen.Funcs.PadRight str size tok = ofC15 (Model.C15.padRight str size tok) := by
  simp only [Gen.Funcs.PadRight, Model.C15.padRight, Model.C15.padToken, goSlice_c15, goRepeat_c15]
  by_cases h1 : size ≤ (str.length : Int) <;> by_cases h2 : (tok.length : Int) ≤ size - str.length <;>
    simp [h1, h2, ofC15, Model.C15.Outcome.bind]
  · cases Model.C15.goRepeat tok (size - str.length) with
    | panic => rfl
    | ok t => simp only []; cases Model.C15.goSlice t 0 (size - str.length) <;> rfl
  · cases Model.C15.goSlice tok 0 (size - str.length) <;> rfl


theorem ofC15_ok_nil : (Except.ok ([] : List UInt8) : Res (List UInt8)) = ofC15 (Model.C15.Outcome.ok []) := rfl

theorem dec_abs_gt (x n : Int) : decide (Gen.Funcs.Abs x > n) = (decide (x > n) || decide (-x > n)) := by
  unfold Gen.Funcs.Abs
  by_cases h : x < 0 <;> simp [h] <;> omega

theorem abs15_gt (x n : Int) : (Model.C15.abs x > n) ↔ (x > n ∨ -x > n) := by
  unfold Model.C15.abs
  by_cases h : x < 0 <;> simp [h] <;> omega

theorem inRange_gen (a lo hi : Int) : Gen.Funcs.InRange a lo hi = (decide (a ≥ lo) && decide (a ≤ hi)) := by
  unfold Gen.Funcs.InRange
  cases decide (a ≥ lo) <;> cases decide (a ≤ hi) <;> rfl

theorem substr_tie (str : List UInt8) (offset length : Int) :
    Gen.Funcs.Substr str offset length = ofC15 (Model.C15.substr str offset length) := by
  simp only [Gen.Funcs.Substr, Gen.Funcs.Null_Str, Model.C15.substr,
    Model.C15.substrLen, Model.C15.substrEnd, Model.C15.inRange, goSlice_c15, dec_abs_gt, abs15_gt, inRange_gen]
  generalize (str.length : Int) = n
  by_cases h1 : offset < 0 <;> by_cases h3 : length < 0 <;> simp only [h1, h3, decide_true, decide_false, if_true, if_false, Bool.false_eq_true]
  all_goals simp only [apply_ite ofC15, Bool.or_eq_true, decide_eq_true_eq, Bool.not_eq_true', Bool.and_eq_false_iff, decide_eq_false_iff_not]
  all_goals
    (try simp only [show ∀ x : Int, (x + length < x) = False from fun x => by
      simp only [eq_iff_iff, iff_false]; omega, if_false])
    repeat' split
    all_goals first | rfl | omega | (symm; assumption)


/-! ## set helpers of slice.go (C11): a Go `map[T]bool` used as a set -/

/-- the association list `m` and the key list `ks` of the model stand for the same set -/
def SameKeys {β : Type} (m : List (Int × β)) (ks : List Int) : Prop := ∀ x, mapHas m x = true ↔ x ∈ ks

theorem mapHas_mapSet {β : Type} (m : List (Int × β)) (k x : Int) (v : β) :
    mapHas (mapSet m k v) x = (decide (k = x) || mapHas m x) := by
  induction m with
  | nil => simp [mapSet, mapHas]
  | cons e r ih =>
    simp only [mapSet, mapHas]
    by_cases h : e.1 = k
    · subst h; simp only [if_true, mapHas]; by_cases h2 : e.1 = x <;> simp [h2]
    · simp only [h, if_false, mapHas, ih]
      by_cases h2 : e.1 = x
      · simp [h2]
      · simp [h2]

theorem sameKeys_nil {β : Type} : SameKeys ([] : List (Int × β)) [] := by
  intro x; simp [mapHas]

theorem sameKeys_set {β : Type} (m : List (Int × β)) (ks : List Int) (k : Int) (v : β) (h : SameKeys m ks) :
    SameKeys (mapSet m k v) (k :: ks) := by
  intro x
  rw [mapHas_mapSet]
  have := h x
  simp only [Bool.or_eq_true, decide_eq_true_eq, List.mem_cons]
  constructor
  · rintro (h1 | h1)
    · exact Or.inl h1.symm
    · exact Or.inr (this.mp h1)
  · rintro (h1 | h1)
    · exact Or.inl h1.symm
    · exact Or.inr (this.mpr h1)

theorem sameKeys_has {β : Type} {m : List (Int × β)} {ks : List Int} (h : SameKeys m ks) (x : Int) :
    mapHas m x = decide (x ∈ ks) := by
  have := h x
  by_cases hx : x ∈ ks
  · simp [hx, this.mpr hx]
  · have : mapHas m x ≠ true := fun c => hx (this.mp c)
    simp [hx, this]

theorem unique_loop (s0 s : List Int) (i : Int) (m : List (Int × Bool)) (ks res : List Int) (h : SameKeys m ks) :
    (Gen.Funcs.Unique.loop1 s0 s i (m, res)).2 = Model.C11.uniqueLoop ks res s := by
  induction s generalizing i m ks res with
  | nil => rfl
  | cons v r ih =>
    simp only [Gen.Funcs.Unique.loop1, Model.C11.uniqueLoop, sameKeys_has h]
    by_cases hv : v ∈ ks
    · simp only [hv, decide_true, Bool.not_true, Bool.false_eq_true, if_false, if_true]
      exact ih _ _ _ _ h
    · simp only [hv, decide_false, Bool.not_false, if_true, if_false]
      exact ih _ _ _ _ (sameKeys_set m ks v true h)

theorem unique_tie (s : List Int) : Gen.Funcs.Unique s = Model.C11.unique s := by
  simp only [Gen.Funcs.Unique, Model.C11.unique]
  exact unique_loop s s 0 [] [] [] sameKeys_nil

theorem uniqueBy_loop (s0 : List Int) (fn : Int → Int) (s : List Int) (i : Int) (m : List (Int × Bool))
    (ks res : List Int) (h : SameKeys m ks) :
    (Gen.Funcs.UniqueBy.loop1 s0 fn s i (m, res)).2 = Model.C11.uniqueByLoop fn ks res s := by
  induction s generalizing i m ks res with
  | nil => rfl
  | cons v r ih =>
    simp only [Gen.Funcs.UniqueBy.loop1, Model.C11.uniqueByLoop, sameKeys_has h]
    by_cases hv : fn v ∈ ks
    · simp only [hv, decide_true, Bool.not_true, Bool.false_eq_true, if_false, if_true]
      exact ih _ _ _ _ h
    · simp only [hv, decide_false, Bool.not_false, if_true, if_false]
      exact ih _ _ _ _ (sameKeys_set m ks (fn v) true h)

theorem uniqueBy_tie (s : List Int) (fn : Int → Int) : Gen.Funcs.UniqueBy s fn = Model.C11.uniqueBy s fn := by
  simp only [Gen.Funcs.UniqueBy, Model.C11.uniqueBy]
  exact uniqueBy_loop s fn s 0 [] [] [] sameKeys_nil


theorem without_scan (s0 vals0 : List Int) (v : Int) (vals : List Int) (k : Int) :
    Gen.Funcs.Without.loop2 s0 vals0 v vals k () = if Model.C11.skipEq v vals then Sum.inl () else Sum.inr () := by
  induction vals generalizing k with
  | nil => rfl
  | cons x r ih =>
    simp only [Gen.Funcs.Without.loop2, Model.C11.skipEq]
    by_cases h : v = x
    · simp [h]
    · simp only [h, decide_false, Bool.false_eq_true, if_false]; exact ih _

theorem without_loop (s0 vals s : List Int) (i : Int) (m : List (Int × Bool)) (ks res : List Int) (h : SameKeys m ks) :
    (Gen.Funcs.Without.loop1 s0 vals s i (m, res)).2 = Model.C11.diffLoop vals ks res s := by
  induction s generalizing i m ks res with
  | nil => rfl
  | cons v r ih =>
    simp only [Gen.Funcs.Without.loop1, Model.C11.diffLoop, without_scan, sameKeys_has h]
    cases hs : Model.C11.skipEq v vals
    · simp only [Bool.false_eq_true, if_false]
      by_cases hv : v ∈ ks
      · simp only [hv, decide_true, Bool.not_true, Bool.false_eq_true, if_false, if_true]
        exact ih _ _ _ _ h
      · simp only [hv, decide_false, Bool.not_false, if_true, if_false]
        exact ih _ _ _ _ (sameKeys_set m ks v true h)
    · simp only [if_true]
      exact ih _ _ _ _ h

theorem without_tie (s vals : List Int) : Gen.Funcs.Without s vals = Model.C11.without s vals := by
  simp only [Gen.Funcs.Without, Model.C11.without]
  exact without_loop s vals s 0 [] [] [] sameKeys_nil

theorem difference_scan (s1 s2 : List Int) (v : Int) (vals : List Int) (k : Int) :
    Gen.Funcs.Difference.loop2 s1 s2 v vals k () = if Model.C11.skipEq v vals then Sum.inl () else Sum.inr () := by
  induction vals generalizing k with
  | nil => rfl
  | cons x r ih =>
    simp only [Gen.Funcs.Difference.loop2, Model.C11.skipEq]
    by_cases h : v = x
    · simp [h]
    · simp only [h, decide_false, Bool.false_eq_true, if_false]; exact ih _

theorem difference_loop (s1 s2 s : List Int) (i : Int) (m : List (Int × Bool)) (ks res : List Int) (h : SameKeys m ks) :
    (Gen.Funcs.Difference.loop1 s1 s2 s i (m, res)).2 = Model.C11.diffLoop s2 ks res s := by
  induction s generalizing i m ks res with
  | nil => rfl
  | cons v r ih =>
    simp only [Gen.Funcs.Difference.loop1, Model.C11.diffLoop, difference_scan, sameKeys_has h]
    cases hs : Model.C11.skipEq v s2
    · simp only [Bool.false_eq_true, if_false]
      by_cases hv : v ∈ ks
      · simp only [hv, decide_true, Bool.not_true, Bool.false_eq_true, if_false, if_true]
        exact ih _ _ _ _ h
      · simp only [hv, decide_false, Bool.not_false, if_true, if_false]
        exact ih _ _ _ _ (sameKeys_set m ks v true h)
    · simp only [if_true]
      exact ih _ _ _ _ h

theorem difference_tie (s1 s2 : List Int) : Gen.Funcs.Difference s1 s2 = Model.C11.difference s1 s2 := by
  simp only [Gen.Funcs.Difference, Model.C11.difference]
  exact difference_loop s1 s2 s1 0 [] [] [] sameKeys_nil

theorem differenceBy_scan (s1 s2 : List Int) (fn : Int → Int) (v : Int) (vals : List Int) (k : Int) :
    Gen.Funcs.DifferenceBy.loop2 s1 s2 fn v vals k ()
      = if Model.C11.skipByEq fn v vals then Sum.inl () else Sum.inr () := by
  induction vals generalizing k with
  | nil => rfl
  | cons x r ih =>
    simp only [Gen.Funcs.DifferenceBy.loop2, Model.C11.skipByEq]
    by_cases h : fn v = fn x
    · simp [h]
    · simp only [h, decide_false, Bool.false_eq_true, if_false]; exact ih _

theorem differenceBy_loop (s1 s2 : List Int) (fn : Int → Int) (s : List Int) (i : Int) (m : List (Int × Bool))
    (ks res : List Int) (h : SameKeys m ks) :
    (Gen.Funcs.DifferenceBy.loop1 s1 s2 fn s i (m, res)).2 = Model.C11.diffByLoop fn s2 ks res s := by
  induction s generalizing i m ks res with
  | nil => rfl
  | cons v r ih =>
    simp only [Gen.Funcs.DifferenceBy.loop1, Model.C11.diffByLoop, differenceBy_scan, sameKeys_has h]
    cases hs : Model.C11.skipByEq fn v s2
    · simp only [Bool.false_eq_true, if_false]
      by_cases hv : v ∈ ks
      · simp only [hv, decide_true, Bool.not_true, Bool.false_eq_true, if_false, if_true]
        exact ih _ _ _ _ h
      · simp only [hv, decide_false, Bool.not_false, if_true, if_false]
        exact ih _ _ _ _ (sameKeys_set m ks v true h)
    · simp only [if_true]
      exact ih _ _ _ _ h

theorem differenceBy_tie (s1 s2 : List Int) (fn : Int → Int) :
    Gen.Funcs.DifferenceBy s1 s2 fn = Model.C11.differenceBy s1 s2 fn := by
  simp only [Gen.Funcs.DifferenceBy, Model.C11.differenceBy]
  exact differenceBy_loop s1 s2 fn s1 0 [] [] [] sameKeys_nil

/-! ## FindAll: the map `m[k] = v` with strictly increasing keys is an append -/

theorem mapSet_fresh {β : Type} (m : List (Int × β)) (k : Int) (v : β) (h : mapHas m k = false) :
    mapSet m k v = m ++ [(k, v)] := by
  induction m with
  | nil => rfl
  | cons e r ih =>
    simp only [mapHas] at h
    by_cases he : e.1 = k
    · simp [he] at h
    · simp only [he, if_false] at h
      simp [mapSet, he, ih h]

theorem findAll_loop (s0 : List Int) (fn : Int → Bool) (s : List Int) (k : Nat) (m : List (Int × Int))
    (hm : ∀ x, (k : Int) ≤ x → mapHas m x = false) :
    Gen.Funcs.FindAll.loop1 s0 fn s (k : Int) m = Model.C13.findAllLoop fn s k m := by
  induction s generalizing k m with
  | nil => rfl
  | cons v r ih =>
    simp only [Gen.Funcs.FindAll.loop1, Model.C13.findAllLoop]
    cases hv : fn v
    · simp only [Bool.false_eq_true, if_false]
      have := ih (k + 1) m (fun x hx => hm x (by omega))
      simpa using this
    · simp only [if_true]
      rw [mapSet_fresh m k v (hm k (by omega))]
      have := ih (k + 1) (m ++ [((k : Int), v)]) (fun x hx => by
        rw [← mapSet_fresh m k v (hm k (by omega)), mapHas_mapSet, hm x (by omega)]
        have : ¬ ((k : Int) = x) := by omega
        simp [this])
      simpa using this

theorem findAll_tie (s : List Int) (fn : Int → Bool) : Gen.Funcs.FindAll s fn = Model.C13.FindAll s fn := by
  simp only [Gen.Funcs.FindAll, Model.C13.FindAll]
  exact findAll_loop s fn s 0 [] (fun x _ => rfl)


/-! ## Chunk -/

theorem chunk_loop (slice : List Int) (sz : Nat) (hsz : 0 < sz) (rest : List Int) (i : Nat) (result : List (List Int)) :
    Gen.Funcs.Chunk.loop1 slice (sz : Int) rest (i : Int) result
      = ofC12 (Model.C12.chunkLoop slice sz rest.length i result) := by
  induction rest generalizing i result with
  | nil => rfl
  | cons x r ih =>
    have hne : ¬ ((sz : Int) = 0) := by omega
    have hmod : (i : Int).tmod (sz : Int) = ((i % sz : Nat) : Int) := (Int.ofNat_tmod i sz).symm
    have hz : (((i % sz : Nat) : Int) = 0) ↔ (i % sz = 0) := by omega
    have hlt : ((i : Int) + (sz : Int) < (slice.length : Int)) ↔ (i + sz < slice.length) := by omega
    simp only [Gen.Funcs.Chunk.loop1, Model.C12.chunkLoop, List.length_cons, goMod, hne, if_false, hmod, hz, hlt,
      goSlice_c12]
    by_cases h1 : i % sz = 0
    · simp only [h1, decide_true, if_true]
      by_cases h2 : i + sz < slice.length
      · simp only [h2, decide_true, if_true]
        have e : ((i : Int) + (sz : Int)) = ((i + sz : Nat) : Int) := by omega
        rw [e]
        cases Model.C12.sliceOf slice (i : Int) ((i + sz : Nat) : Int) with
        | panic => rfl
        | ok c =>
          have := ih (i + 1) (result ++ [c])
          simpa [ofC12] using this
      · simp only [h2, decide_false, Bool.false_eq_true, if_false]
        cases Model.C12.sliceOf slice (i : Int) (slice.length : Int) with
        | panic => rfl
        | ok c =>
          have := ih (i + 1) (result ++ [c])
          simpa [ofC12] using this
    · simp only [h1, decide_false, Bool.false_eq_true, if_false]
      have := ih (i + 1) result
      simpa using this

theorem chunk_tie (slice : List Int) (size : Int) : Gen.Funcs.Chunk slice size = ofC12 (Model.C12.chunk slice size) := by
  have hcap : (0 : Int) ≤ 0 ∧ (0 : Int) ≤ (Int.tdiv (slice.length : Int) 2) + 1 := by
    have := Int.tdiv_nonneg (a := (slice.length : Int)) (b := 2) (by omega) (by omega)
    omega
  simp only [Gen.Funcs.Chunk, Model.C12.chunk, goMake, hcap, and_self, if_true, Int.toNat_zero, List.replicate_zero]
  by_cases h : size ≤ 0
  · simp [h, ofC12]
  · simp only [h, decide_false, Bool.false_eq_true, if_false]
    have hs : size = ((size.toNat : Nat) : Int) := by omega
    have := chunk_loop slice size.toNat (by omega) slice 0 []
    rw [← hs] at this
    simp only [Int.natCast_zero] at this
    rw [this]
    cases Model.C12.chunkLoop slice size.toNat slice.length 0 [] <;> rfl


/-! ## Callbacks without result (ForEach, ForEachRight): the callback is a state transformer -/

theorem forEach_loop {σ : Type} (s0 : List Int) (fn : Int → σ → σ) (s : List Int) (k : Int) (st : σ) :
    Gen.Funcs.ForEach.loop1 s0 fn s k st = Model.C12.forEach fn s st := by
  induction s generalizing k st with
  | nil => rfl
  | cons v r ih => simp only [Gen.Funcs.ForEach.loop1, Model.C12.forEach, ih]

theorem forEach_tie {σ : Type} (s : List Int) (fn : Int → σ → σ) (st : σ) :
    Gen.Funcs.ForEach s fn st = Model.C12.forEach fn s st := by
  simp only [Gen.Funcs.ForEach, forEach_loop]

theorem forEachRight_loop {σ : Type} (s : List Int) (fn : Int → σ → σ) (n : Nat) (st : σ) :
    Gen.Funcs.ForEachRight.loop1 s fn n st = ofC12 (Model.C12.forEachRightLoop fn s n st) := by
  induction n generalizing st with
  | zero => rfl
  | succ n ih =>
    simp only [Gen.Funcs.ForEachRight.loop1, Model.C12.forEachRightLoop, goIdx_nat]
    cases h : s[n]? with
    | none => rfl
    | some v => simp only [ih]

theorem forEachRight_tie {σ : Type} (s : List Int) (fn : Int → σ → σ) (st : σ) :
    Gen.Funcs.ForEachRight s fn st = ofC12 (Model.C12.forEachRight s fn st) := by
  simp only [Gen.Funcs.ForEachRight, Model.C12.forEachRight, len_toNat, forEachRight_loop]
  cases Model.C12.forEachRightLoop fn s s.length st <;> rfl

/-! ## Nth (struct `Bound` as a pair, method `Enclose` as a function) -/

theorem goIdx_c13 (s : List Int) (i : Int) : toOut (goIdx s i) = Model.C13.index s i := by
  unfold goIdx Model.C13.index
  by_cases h : i < 0
  · simp [h, toOut]
  · simp only [h, if_false]
    cases s[i.toNat]? <;> rfl

theorem nth_tie (s : List Int) (nth : Int) : toOut (Gen.Funcs.Nth s nth) = Model.C13.Nth s nth := by
  have hg : ∀ i : Int, toOut (match goIdx s i with
      | Except.error e_ => Except.error e_
      | Except.ok t => (Except.ok t : Res Int)) = Model.C13.index s i := by
    intro i; rw [← goIdx_c13]; cases goIdx s i <;> rfl
  have hen : Gen.Funcs.Bound_Enclose ((0 : Int), (s.length : Int)) nth = Model.C13.enclose 0 s.length nth := by
    simp only [Gen.Funcs.Bound_Enclose, Model.C13.enclose, Gen.Funcs.Abs, Model.C13.Abs]
    by_cases h : nth < 0 <;> simp [h]
  have hab : Gen.Funcs.Abs nth = Model.C13.Abs nth := by simp [Gen.Funcs.Abs, Model.C13.Abs]
  simp only [Gen.Funcs.Nth, Model.C13.Nth, hen]
  by_cases h1 : (nth ≥ 0 ∧ nth > (s.length : Int) - 1) ∨ (nth < 0 ∧ (s.length : Int) - Model.C13.Abs nth < 0)
  · have : ((decide (nth ≥ 0) && decide (nth > (s.length : Int) - 1)) ||
        (decide (nth < 0) && decide ((s.length : Int) - Gen.Funcs.Abs nth < 0))) = true := by
      rw [hab]; simpa using h1
    simp only [this, if_true, h1]
    rfl
  · have : ((decide (nth ≥ 0) && decide (nth > (s.length : Int) - 1)) ||
        (decide (nth < 0) && decide ((s.length : Int) - Gen.Funcs.Abs nth < 0))) = false := by
      rw [hab]; simpa using h1
    simp only [this, Bool.false_eq_true, if_false, h1]
    cases he : Model.C13.enclose 0 (s.length : Int) nth <;> by_cases h2 : nth ≥ 0 <;>
      simp only [h2, decide_true, decide_false, Bool.and_true, Bool.and_false,
        Bool.false_eq_true, if_false, if_true, hab] <;> exact hg _

/-! ## GroupBy = mapByIndex(slice, Map(slice, fn)): a Go `map[K][]V` built with `mapHas` / `mapSet` / `mapGet` -/

theorem mapHas_any {β : Type} (m : List (Int × β)) (v : Int) : mapHas m v = m.any (fun e => e.1 == v) := by
  induction m with
  | nil => rfl
  | cons e r ih =>
    simp only [mapHas, List.any_cons, ih]
    by_cases h : e.1 = v <;> simp [h]

theorem map_upd_absent {β : Type} (r : List (Int × List β)) (v : Int) (x : β) (h : v ∉ r.map (·.1)) :
    r.map (fun e => if e.1 == v then (e.1, e.2 ++ [x]) else e) = r := by
  induction r with
  | nil => rfl
  | cons e r ih =>
    simp only [List.map_cons, List.mem_cons, not_or] at h
    have hne : ¬ (e.1 = v) := fun c => h.1 c.symm
    rw [List.map_cons, ih h.2]
    simp [hne]

theorem mapSet_get_map {β : Type} (m : List (Int × List β)) (v : Int) (x : β)
    (hn : (m.map (·.1)).Nodup) (hh : mapHas m v = true) :
    mapSet m v (mapGet m v [] ++ [x]) = m.map (fun e => if e.1 == v then (e.1, e.2 ++ [x]) else e) := by
  induction m with
  | nil => simp [mapHas] at hh
  | cons e r ih =>
    simp only [List.map_cons, List.nodup_cons] at hn
    by_cases he : e.1 = v
    · have hab : v ∉ r.map (·.1) := he ▸ hn.1
      rw [List.map_cons, map_upd_absent r v x hab]
      simp [mapSet, mapGet, he]
    · simp only [mapHas, he, if_false] at hh
      rw [List.map_cons, ← ih hn.2 hh]
      simp [mapSet, mapGet, he]

theorem keys_map_upd {β : Type} (m : List (Int × List β)) (v : Int) (x : β) :
    (m.map (fun e => if e.1 == v then (e.1, e.2 ++ [x]) else e)).map (·.1) = m.map (·.1) := by
  induction m with
  | nil => rfl
  | cons e r ih =>
    simp only [List.map_cons, ih]
    by_cases h : e.1 = v <;> simp [h]

theorem mapByIndex_loop (orig m0 : List Int) (ks : List Int) (idx : Nat) (result : List (Int × List Int))
    (hn : (result.map (·.1)).Nodup) :
    Gen.Funcs.mapByIndex.loop1 orig m0 ks (idx : Int) result
      = ofC12 (Model.C12.mapByIndexLoop orig ks idx result) := by
  induction ks generalizing idx result with
  | nil => rfl
  | cons v r ih =>
    simp only [Gen.Funcs.mapByIndex.loop1, Model.C12.mapByIndexLoop, goIdx_nat, mapHas_any]
    -- the map after the optional insertion of an empty entry
    have hres : (if (!result.any (fun e => e.1 == v)) = true then mapSet result v ([] : List Int) else result)
        = (if result.any (fun e => e.1 == v) = true then result else result ++ [(v, [])]) := by
      cases ha : result.any (fun e => e.1 == v)
      · simp only [Bool.not_false, if_true, Bool.false_eq_true, if_false]
        exact mapSet_fresh result v [] (by rw [mapHas_any]; exact ha)
      · simp
    rw [hres]
    generalize hr' : (if result.any (fun e => e.1 == v) = true then result else result ++ [(v, [])]) = result'
    have hn' : (result'.map (·.1)).Nodup := by
      subst hr'
      cases ha : result.any (fun e => e.1 == v)
      · simp only [Bool.false_eq_true, if_false, List.map_append, List.map_cons, List.map_nil]
        rw [List.nodup_append]
        refine ⟨hn, by simp, ?_⟩
        intro a ha' b hb
        simp only [List.mem_singleton] at hb
        subst hb
        intro hab; subst hab
        rw [List.mem_map] at ha'
        obtain ⟨e, he, hev⟩ := ha'
        have : result.any (fun e => e.1 == a) = true := List.any_eq_true.mpr ⟨e, he, by simp [hev]⟩
        simp [this] at ha
      · simpa using hn
    have hh' : mapHas result' v = true := by
      subst hr'
      rw [mapHas_any]
      cases ha : result.any (fun e => e.1 == v)
      · simp
      · simpa using ha
    cases hx : orig[idx]? with
    | none => rfl
    | some x =>
      simp only []
      rw [mapSet_get_map result' v x hn' hh']
      have := ih (idx + 1) (result'.map fun e => if e.1 == v then (e.1, e.2 ++ [x]) else e)
        (by rw [keys_map_upd]; exact hn')
      simpa using this

theorem groupBy_tie (s : List Int) (fn : Int → Int) : Gen.Funcs.GroupBy s fn = ofC12 (Model.C12.groupBy s fn) := by
  simp only [Gen.Funcs.GroupBy, Model.C12.groupBy, map_tie, Gen.Funcs.mapByIndex]
  cases Model.C12.mapPure s fn with
  | panic => rfl
  | ok keys =>
    have := mapByIndex_loop s keys keys 0 [] (by simp)
    simp only [Int.natCast_zero] at this
    simp only [ofC12, this]
    cases Model.C12.mapByIndexLoop s keys 0 [] <;> rfl

/-! concrete instances: the regenerated definitions compute the expected answers (non-vacuity of the ties) -/
example : Gen.Funcs.Chunk [1, 2, 3, 4, 5] 2 = .ok [[1, 2], [3, 4], [5]] := by rfl
example : Gen.Funcs.Chunk [1, 2, 3] 0 = .error .panic := by rfl
example : Gen.Funcs.Drop [1, 2, 3, 4] (-1) = .ok [1, 2, 3] := by rfl
example : Gen.Funcs.LastIndexOf [7, 8, 7, 9] 7 = .ok 2 := by rfl
example : Gen.Funcs.Nth [10, 20, 30] (-1) = .ok 30 := by rfl
example : Gen.Funcs.Nth [10, 20, 30] 3 = .error .err := by rfl
example : Gen.Funcs.Mean [] = .error .panic := by rfl
example : Gen.Funcs.Unique [3, 1, 3, 2, 1] = [3, 1, 2] := by rfl
example : Gen.Funcs.Without [1, 2, 3, 2, 4] [2] = [1, 3, 4] := by rfl
example : Gen.Funcs.GroupBy [1, 2, 3, 4] (fun x => x.tmod 2) = .ok [(1, [1, 3]), (0, [2, 4])] := by rfl
example : Gen.Funcs.Substr [104, 101, 108, 108, 111] 1 3 = .ok [101, 108, 108] := by rfl
example : Gen.Funcs.Substr [104, 101, 108, 108, 111] (-2) 5 = .ok [108, 111] := by rfl
example : Gen.Funcs.SplitAtIndex [97, 98, 99] 0 = .ok [[97], [98, 99]] := by rfl
example : Gen.Funcs.PadLeft [97] 4 [45, 43] = .ok [45, 43, 45, 97] := by rfl
example : Gen.Funcs.Unwrap [34, 97, 34] [34] = .ok [97] := by rfl
example : Gen.Funcs.ForEachRight [1, 2, 3] (fun x (st : List Int) => st ++ [x]) [] = .ok [3, 2, 1] := by rfl
example : Gen.Funcs.FindAll [5, 6, 7, 8] (fun x => decide (x > 5)) = [(1, 6), (2, 7), (3, 8)] := by rfl

end GoguVerif.Theorems.GenTie
