import GoguVerif.Spec.C18
import GoguVerif.Model.Funcs
/-!
# C18 — property theorems (Before / After / Once / Retry invoke the callback as often as promised)

All statements are about the models of `Model/Funcs.lean` (which mirror `func.go`) and hold for every
`n`, every number of calls, every script of callback outcomes and every instant.
-/
namespace GoguVerif.Theorems.C18
open GoguVerif Model.Funcs

/-! ## After -/

/-- On the `(i+1)`-th call `After` runs the callback iff `i+1 > max n 0` — for every `n` and every
number of calls (no wrap-around of the counter: it is an unbounded `Int` here). -/
theorem after_runs_iff (n : Int) (m i : Nat) (h : i < m) :
    (afterTrace n m)[i]? = some (Spec.C18.afterRuns n (i + 1)) := by
  induction m generalizing n i with
  | zero => omega
  | succ m ih =>
    cases i with
    | zero =>
      simp only [afterTrace, afterCall, Spec.C18.afterRuns, List.getElem?_cons_zero, Option.some.injEq,
        decide_eq_decide]
      omega
    | succ i =>
      have := ih (n - 1) i (by omega)
      simp only [afterTrace, afterCall, List.getElem?_cons_succ, this, Spec.C18.afterRuns,
        Option.some.injEq, decide_eq_decide]
      omega

example : afterTrace 2 5 = [false, false, true, true, true] := by decide

/-! ## Before -/

theorem cellGet_cellSet_none (e now v : Int) :
    cellGet now (cellSet e now none v) = some v := by
  simp only [cellSet, cellGet, defaultExp]
  by_cases h : e > 0
  · by_cases h2 : now + e > 0
    · have : ¬ (now > now + e) := by omega
      simp [h, h2, this]
    · simp [h, h2]
  · by_cases h2 : e < 0 <;> simp [h, h2]

theorem beforeCall_gt (e now : Int) (res : Nat → Int) (s : BSt) (h : s.n - 1 > 0) :
    beforeCall e now res s = ({ s with n := s.n - 1, runs := s.runs + 1 }, true, res (s.runs + 1)) := by
  unfold beforeCall; exact if_pos h

theorem beforeCall_eq (e now : Int) (res : Nat → Int) (s : BSt) (h : s.n - 1 = 0) :
    beforeCall e now res s =
      ({ n := s.n - 1, cell := cellSet e now s.cell (res (s.runs + 1)), runs := s.runs + 1 }, true,
       (cellGet now (cellSet e now s.cell (res (s.runs + 1)))).getD 0) := by
  have h1 : ¬ (s.n - 1 > 0) := by omega
  unfold beforeCall; rw [if_neg h1]; exact if_pos h

theorem beforeCall_lt (e now : Int) (res : Nat → Int) (s : BSt) (h : s.n - 1 < 0) :
    beforeCall e now res s = ({ s with n := s.n - 1 }, false, (cellGet now s.cell).getD 0) := by
  have h1 : ¬ (s.n - 1 > 0) := by omega
  have h2 : ¬ (s.n - 1 = 0) := by omega
  unfold beforeCall; rw [if_neg h1]; exact if_neg h2

/-- once the counter is ≤ 0 the callback never runs again and every call returns the cached value -/
theorem beforeTrace_post (e now : Int) (res : Nat → Int) (s : BSt) (m : Nat) (h : s.n ≤ 0) :
    beforeTrace e now res s m = List.replicate m (false, (cellGet now s.cell).getD 0) := by
  induction m generalizing s with
  | zero => rfl
  | succ m ih =>
    have hc := beforeCall_lt e now res s (by omega)
    simp only [beforeTrace, hc, List.replicate_succ]
    rw [ih { s with n := s.n - 1 } (by show s.n - 1 ≤ 0; omega)]

theorem beforeTrace_pre (e now : Int) (res : Nat → Int) (p : Nat) (s : BSt) (m i : Nat)
    (hn : s.n = (p : Int) + 1) (hc : s.cell = none) (hi : i < m) :
    (beforeTrace e now res s m)[i]? =
      some (decide (i < p + 1), res (s.runs + min (i + 1) (p + 1))) := by
  induction i generalizing s p m with
  | zero =>
    obtain ⟨m, rfl⟩ : ∃ m', m = m' + 1 := ⟨m - 1, by omega⟩
    simp only [beforeTrace, List.getElem?_cons_zero]
    by_cases hp : s.n - 1 > 0
    · rw [beforeCall_gt _ _ _ _ hp]; simp
    · have h0 : s.n - 1 = 0 := by omega
      rw [beforeCall_eq _ _ _ _ h0, hc, cellGet_cellSet_none]; simp
  | succ i ih =>
    obtain ⟨m, rfl⟩ : ∃ m', m = m' + 1 := ⟨m - 1, by omega⟩
    simp only [beforeTrace, List.getElem?_cons_succ]
    by_cases hp : s.n - 1 > 0
    · obtain ⟨q, rfl⟩ : ∃ q, p = q + 1 := ⟨p - 1, by omega⟩
      rw [beforeCall_gt _ _ _ _ hp]
      have := ih q { s with n := s.n - 1, runs := s.runs + 1 } m
        (by show s.n - 1 = (q : Int) + 1; rw [hn]; push_cast; omega) hc (by omega)
      rw [this]
      simp only [Option.some.injEq, Prod.mk.injEq, decide_eq_decide]
      constructor
      · omega
      · congr 1; omega
    · have h0 : s.n - 1 = 0 := by omega
      have hp0 : p = 0 := by omega
      subst hp0
      rw [beforeCall_eq _ _ _ _ h0, beforeTrace_post _ _ _ _ _ (by show s.n - 1 ≤ 0; omega)]
      simp only [hc, cellGet_cellSet_none, Option.getD_some]
      rw [List.getElem?_replicate]
      have : i < m := by omega
      simp [this]

/-- `Before n`: with the cache entry `"func"` absent at the start and no expiry in between (all calls
at one instant `now`), the callback runs on exactly the first `max n 0` calls; call `i+1` returns the
result of its own run while `i+1 ≤ n`, afterwards the result of the last run (the `n`-th), and the
zero value when `n ≤ 0`. -/
theorem before_spec (e now n : Int) (res : Nat → Int) (m i : Nat) (h : i < m) :
    (beforeTrace e now res { n := n } m)[i]? =
      some (Spec.C18.beforeRuns n (i + 1), if n ≤ 0 then 0 else res (min (i + 1) n.toNat)) := by
  by_cases hn : n ≤ 0
  · rw [beforeTrace_post _ _ _ _ _ hn]
    simp [List.getElem?_replicate, h, hn, Spec.C18.beforeRuns, cellGet]
    omega
  · have := beforeTrace_pre e now res (n.toNat - 1) { n := n } m i (by simp; omega) rfl h
    rw [this]
    simp only [hn, if_false, Option.some.injEq, Prod.mk.injEq, Spec.C18.beforeRuns, decide_eq_decide]
    constructor
    · omega
    · congr 1; omega

example : beforeTrace (-1) 0 (fun k => 100 + k) { n := 2 } 4 =
    [(true, 101), (true, 102), (false, 102), (false, 102)] := by decide

/-! ## Once -/

/-- a call that finds no live entry runs the callback once, stores and returns its result -/
theorem once_runs_when_absent (e now fresh : Int) (c : Cell) (h : cellGet now c = none) :
    onceCall e now c fresh = (cellSet e now c fresh, true, fresh) := by
  simp [onceCall, h]

/-- a call that finds a live entry does not run the callback and returns the cached value -/
theorem once_cached_when_live (e now fresh v : Int) (c : Cell) (h : cellGet now c = some v) :
    onceCall e now c fresh = (c, false, v) := by
  simp [onceCall, h]

/-- after a run at `t0`, the entry is live at every instant `now ≤ t0 + e` (`e > 0`), resp. at every
instant at all (`e ≤ 0`: never expires); it is expired at every `now > t0 + e`. -/
theorem once_entry_life (e t0 now fresh : Int) (c : Cell) (ht0 : 0 ≤ t0) (h : cellGet t0 c = none) :
    cellGet now (onceCall e t0 c fresh).1 =
      if e ≤ 0 ∨ now ≤ t0 + e then some fresh else none := by
  have hs : cellSet e t0 c fresh = some (fresh, defaultExp e t0) := by
    cases c with
    | none => rfl
    | some p =>
      obtain ⟨v, exp⟩ := p
      simp only [cellGet] at h
      split at h
      · split at h
        · rename_i h1 h2
          have : ¬ (exp ≤ 0) := by omega
          have : ¬ (t0 ≤ exp) := by omega
          simp [cellSet, *]
        · cases h
      · cases h
  rw [once_runs_when_absent _ _ _ _ h, hs]
  simp only [cellGet, defaultExp]
  by_cases he : e > 0
  · have ht : t0 + e > 0 := by omega
    by_cases hn : now ≤ t0 + e
    · have : ¬ (now > t0 + e) := by omega
      simp [he, hn, ht, this]
    · have : now > t0 + e := by omega
      have h2 : ¬ (e ≤ 0) := by omega
      simp [he, hn, ht, this, h2]
  · by_cases he0 : e < 0 <;> simp [he, he0] <;> omega

/-- sequence of calls at instants `ts` (with the value a run would produce), from a cell -/
def onceTrace (e : Int) : Cell → List (Int × Int) → List (Bool × Int)
  | _, [] => []
  | c, (now, fresh) :: r =>
    let x := onceCall e now c fresh
    (x.2.1, x.2.2) :: onceTrace e x.1 r

/-- `Once` with a never-expiring entry (`e ≤ 0`, cache entry `"func"` absent at the start): the
callback runs exactly once, on the first call, and every call returns that first result — for any
number of calls at any instants. -/
theorem once_spec_no_expiry (e : Int) (he : e ≤ 0) (t0 f0 : Int) (calls : List (Int × Int)) :
    onceTrace e none ((t0, f0) :: calls) = (true, f0) :: calls.map (fun _ => (false, f0)) := by
  have hlive : ∀ now, cellGet now (some (f0, defaultExp e t0)) = some f0 := by
    intro now
    simp only [cellGet, defaultExp]
    by_cases h0 : e < 0 <;> simp [h0] <;> omega
  have tail : ∀ calls : List (Int × Int),
      onceTrace e (some (f0, defaultExp e t0)) calls = calls.map (fun _ => (false, f0)) := by
    intro calls
    induction calls with
    | nil => rfl
    | cons c r ih =>
      obtain ⟨now, fresh⟩ := c
      simp only [onceTrace, once_cached_when_live _ _ _ _ _ (hlive now), List.map_cons, ih]
  simp only [onceTrace, onceCall, cellGet, cellSet]
  exact congrArg _ (tail calls)

/-- `Once` with expiry `e > 0`, instants non-decreasing and all within the entry's life
(`≤ t0 + e`): exactly one run, every call returns the first result. -/
theorem once_spec_within_life (e : Int) (he : e > 0) (t0 f0 : Int) (ht : 0 ≤ t0)
    (calls : List (Int × Int)) (hin : ∀ c ∈ calls, c.1 ≤ t0 + e) :
    onceTrace e none ((t0, f0) :: calls) = (true, f0) :: calls.map (fun _ => (false, f0)) := by
  have tail : ∀ calls : List (Int × Int), (∀ c ∈ calls, c.1 ≤ t0 + e) →
      onceTrace e (some (f0, defaultExp e t0)) calls = calls.map (fun _ => (false, f0)) := by
    intro calls
    induction calls with
    | nil => intro _; rfl
    | cons c r ih =>
      intro h
      obtain ⟨now, fresh⟩ := c
      have hn : now ≤ t0 + e := h (now, fresh) (by simp)
      have hl : cellGet now (some (f0, defaultExp e t0)) = some f0 := by
        simp only [cellGet, defaultExp, he, if_true]
        have : t0 + e > 0 := by omega
        have h2 : ¬ (now > t0 + e) := by omega
        simp [this, h2]
      simp only [onceTrace, once_cached_when_live _ _ _ _ _ hl, List.map_cons]
      rw [ih (fun c hc => h c (by simp [hc]))]
  simp only [onceTrace, onceCall, cellGet, cellSet]
  exact congrArg _ (tail calls hin)

/-- abstraction of the cell to the specification's entry (`deadline ≤ 0` ↦ `-1`: never expires) -/
def absCell : Cell → Option (Int × Int)
  | none => none
  | some (v, exp) => some (v, if exp ≤ 0 then -1 else exp)

/-- The model of `Once` refines the specification's state machine (`Spec.C18.onceCall`, with the
choice at the instant `now = deadline` resolved the way the code resolves it: still live) — every
call, every state, every instant `now ≥ 0`. -/
theorem once_refines (e now fresh : Int) (c : Cell) (hnow : 0 ≤ now) :
    Spec.C18.onceCall e true { now := now, entry := absCell c } fresh =
      ({ now := now, entry := absCell (onceCall e now c fresh).1 },
       (if (onceCall e now c fresh).2.1 then 1 else 0), (onceCall e now c fresh).2.2) := by
  cases c with
  | none =>
    simp only [Spec.C18.onceCall, absCell, onceCall, cellGet, cellSet, defaultExp]
    by_cases h : e > 0
    · have : ¬ (now + e ≤ 0) := by omega
      simp [h, this]
    · by_cases h2 : e < 0 <;> simp [h, h2]
  | some p =>
    obtain ⟨v, exp⟩ := p
    by_cases hx : exp ≤ 0
    · have : ¬ (exp > 0) := by omega
      simp [Spec.C18.onceCall, absCell, onceCall, cellGet, hx, this]
    · have hx' : exp > 0 := by omega
      by_cases hn : now > exp
      · have h1 : ¬ (now < exp) := by omega
        have h2 : ¬ (now = exp) := by omega
        have h3 : ¬ (now ≤ exp) := by omega
        simp only [Spec.C18.onceCall, absCell, onceCall, cellGet, cellSet, defaultExp, hx, hx', hn,
          if_true, if_false]
        by_cases h : e > 0
        · have : ¬ (now + e ≤ 0) := by omega
          simp [h, this, h1, h2, h3]
        · by_cases h4 : e < 0 <;> simp [h, h4, h1, h2, h3]
      · have h1 : now < exp ∨ now = exp := by omega
        simp only [Spec.C18.onceCall, absCell, onceCall, cellGet, hx, hx', hn, if_true, if_false]
        rcases h1 with h1 | h1
        · simp [h1]
        · have : ¬ (now < exp) := by omega
          simp [h1]

example : onceTrace 10 none [(0, 101), (4, 102), (10, 102), (11, 102), (15, 103)] =
    [(true, 101), (false, 101), (false, 101), (true, 102), (false, 102)] := by decide

/-! ## Retry -/

/-- number of leading failures of the script -/
def leadFails (script : List Bool) : Nat := (script.takeWhile (· == true)).length

theorem fails_lt_leadFails (script : List Bool) (i : Nat) (h : i < leadFails script) :
    fails script i = true := by
  induction script generalizing i with
  | nil => simp [leadFails] at h
  | cons b r ih =>
    cases b with
    | false => simp [leadFails] at h
    | true =>
      cases i with
      | zero => rfl
      | succ i =>
        have : i < leadFails r := by simpa [leadFails] using h
        simpa [fails] using ih i this

theorem fails_at_leadFails (script : List Bool) (h : leadFails script < script.length) :
    fails script (leadFails script) = false := by
  induction script with
  | nil => simp at h
  | cons b r ih =>
    cases b with
    | false => rfl
    | true =>
      have : leadFails r < r.length := by simpa [leadFails] using h
      simpa [fails, leadFails] using ih this

theorem fails_past (script : List Bool) (i : Nat) (h : script.length ≤ i) : fails script i = true := by
  simp [fails, List.getD, List.getElem?_eq_none h]

/-- while every remaining invocation fails, the loop runs out its budget -/
theorem retryLoop_allfail (script : List Bool) (fuel a : Nat) (le : Bool)
    (h : ∀ i, a ≤ i → fails script i = true) :
    retryLoop script fuel a le = (a + fuel, if fuel = 0 then le else true, a + fuel) := by
  induction fuel generalizing a le with
  | zero => simp [retryLoop]
  | succ fuel ih =>
    simp only [retryLoop, h a (Nat.le_refl a), if_true]
    rw [ih (a + 1) true (fun i hi => h i (by omega))]
    simp only [Nat.add_eq_zero_iff, Nat.succ_ne_zero, and_false, if_false, Prod.mk.injEq]
    refine ⟨by omega, ?_, by omega⟩
    split <;> rfl

theorem retryLoop_succ (script : List Bool) (fuel a : Nat) (le : Bool) (k : Nat)
    (hk : a ≤ k) (hlt : ∀ i, i < k → fails script i = true) (hat : fails script k = false) :
    retryLoop script fuel a le =
      if k < a + fuel then (k, false, k + 1) else (a + fuel, if fuel = 0 then le else true, a + fuel) := by
  induction fuel generalizing a le with
  | zero =>
    have : ¬ (k < a + 0) := by omega
    rw [if_neg this]; simp [retryLoop]
  | succ fuel ih =>
    by_cases hak : a = k
    · subst hak
      have : a < a + (fuel + 1) := by omega
      simp [retryLoop, hat, this]
    · have ha : fails script a = true := hlt a (by omega)
      simp only [retryLoop, ha, if_true]
      rw [ih (a + 1) true (by omega)]
      have e : a + 1 + fuel = a + (fuel + 1) := by omega
      simp only [e, Nat.add_eq_zero_iff, Nat.succ_ne_zero, and_false, if_false]
      split
      · rfl
      · simp

/-- `Retry n`: closed form for every `n` and every script of outcomes.  With `k` the index of the
first success (if there is one): the callback is invoked `min n (k+1)` times (never for `n ≤ 0`),
the reported attempt count is the number of failed invocations, and an error is reported iff no
invocation succeeded (or `n < 0`). -/
theorem retry_spec (n : Int) (script : List Bool) :
    retry n script =
      if n < 0 then (0, true, 0)
      else if leadFails script < script.length ∧ leadFails script < n.toNat then
        (leadFails script, false, leadFails script + 1)
      else (n.toNat, decide (n.toNat ≠ 0), n.toNat) := by
  unfold retry
  split
  · rfl
  · by_cases hs : leadFails script < script.length
    · rw [retryLoop_succ script n.toNat 0 false (leadFails script) (Nat.zero_le _)
        (fun i hi => fails_lt_leadFails script i hi) (fails_at_leadFails script hs)]
      simp only [Nat.zero_add, hs, true_and]
      split
      · rfl
      · simp only [Prod.mk.injEq, true_and, and_true]
        split <;> simp_all
    · have hall : ∀ i, 0 ≤ i → fails script i = true := by
        intro i _
        by_cases hi : i < leadFails script
        · exact fails_lt_leadFails script i hi
        · refine fails_past script i ?_
          have : leadFails script ≤ script.length := (List.takeWhile_sublist _).length_le
          omega
      rw [retryLoop_allfail script n.toNat 0 false hall]
      simp only [Nat.zero_add, hs, false_and, if_false, Prod.mk.injEq, true_and, and_true]
      split <;> simp_all

/-- number of invocations = `min n (index of first success + 1)`, none for `n ≤ 0` -/
theorem retry_calls (n : Int) (script : List Bool) :
    (retry n script).2.2 =
      if leadFails script < script.length then min n.toNat (leadFails script + 1) else n.toNat := by
  rw [retry_spec]
  by_cases hn : n < 0
  · have : n.toNat = 0 := by omega
    simp [hn, this]
  · simp only [hn, if_false]
    by_cases hs : leadFails script < script.length
    · by_cases hk : leadFails script < n.toNat
      · simp [hs, hk]; omega
      · simp [hs, hk]; omega
    · simp [hs]

example : retry 5 [true, true, false, true] = (2, false, 3) := by decide
example : retry 2 [true, true, false, true] = (2, true, 2) := by decide
example : retry 0 [false] = (0, false, 0) := by decide

/-- `RetryWithDelay`: whatever the script, consecutive invocations are at least `d` apart, provided
no wait returns early (`waits i ≥ d`: timers never fire early). -/
theorem retryDelay_spaced (script : List Bool) (waits : Nat → Int) (d : Int)
    (hw : ∀ i, waits i ≥ d) (fuel a : Nat) (now : Int) :
    Spec.C18.spaced d (retryDelayStamps script waits fuel a now) = true := by
  induction fuel generalizing a now with
  | zero => rfl
  | succ fuel ih =>
    simp only [retryDelayStamps]
    split
    · have := ih (a + 1) (now + waits a)
      cases fuel with
      | zero => simp [retryDelayStamps, Spec.C18.spaced]
      | succ fuel =>
        simp only [retryDelayStamps] at this ⊢
        split
        · rename_i hf
          simp only [hf, if_true] at this
          simp only [Spec.C18.spaced, Bool.and_eq_true, decide_eq_true_eq]
          exact ⟨by have := hw a; omega, this⟩
        · simp only [Spec.C18.spaced, Bool.and_eq_true, decide_eq_true_eq, and_true]
          have := hw a; omega
    · rfl

/-- `RetryWithDelay` when the attempts themselves take time (`durs i ≥ 0`): every attempt starts at
least `d` after the END of the previous one, hence also at least `d` after its start. -/
theorem retryDelay_gapped (script : List Bool) (waits durs : Nat → Int) (d : Int)
    (hw : ∀ i, waits i ≥ d) (fuel a : Nat) (now : Int) :
    Spec.C18.gapped d (retryDelayTimes script waits durs fuel a now) = true := by
  induction fuel generalizing a now with
  | zero => rfl
  | succ fuel ih =>
    simp only [retryDelayTimes]
    split
    · have := ih (a + 1) (now + durs a + waits a)
      cases fuel with
      | zero => simp [retryDelayTimes, Spec.C18.gapped]
      | succ fuel =>
        simp only [retryDelayTimes] at this ⊢
        split
        · rename_i hf
          simp only [hf, if_true] at this
          simp only [Spec.C18.gapped, Bool.and_eq_true, decide_eq_true_eq]
          exact ⟨by have := hw a; omega, this⟩
        · simp only [Spec.C18.gapped, Bool.and_eq_true, decide_eq_true_eq, and_true]
          have := hw a; omega
    · rfl

/-- with instantaneous attempts the timed loop is the untimed one -/
theorem retryDelayTimes_instant (script : List Bool) (waits : Nat → Int) (fuel a : Nat) (now : Int) :
    (retryDelayTimes script waits (fun _ => 0) fuel a now).map (·.1) = retryDelayStamps script waits fuel a now := by
  induction fuel generalizing a now with
  | zero => rfl
  | succ fuel ih =>
    simp only [retryDelayTimes, retryDelayStamps, Int.add_zero]
    split
    · simp [ih]
    · rfl

/-- **Once never invents a value** (whatever instant the call happens at, also the very instant at which the entry
expires): a call returns the stored first result that its ONE lookup found live, without running the callback, or it
runs the callback and returns that run's result.  (Until /repo dc4805d `Once` looked the entry up a second time before
answering; when the entry expired between the two lookups it answered with the zero value — finding F39, exhibited on
the real clock by kind `oncelive`.) -/
theorem once_returns_stored_or_fresh (expTime now : Int) (c : Model.Funcs.Cell) (fresh : Int) :
    (Model.Funcs.cellGet now c = some (Model.Funcs.onceCall expTime now c fresh).2.2 ∧
        (Model.Funcs.onceCall expTime now c fresh).2.1 = false) ∨
    (Model.Funcs.cellGet now c = none ∧ (Model.Funcs.onceCall expTime now c fresh).2.2 = fresh ∧
        (Model.Funcs.onceCall expTime now c fresh).2.1 = true) := by
  unfold Model.Funcs.onceCall
  cases h : Model.Funcs.cellGet now c <;> simp

/-- **Known finding** `before.result-lost-after-entry-expires`: the full clause "later calls return the result of the
last run" is FALSE of the code when the cache's entries expire — n = 2, lifetime 20: the calls at instant 0 give 101, 102,
102; the call at instant 25 gives 0 (and does not run the callback).  The exact behaviour for every history of instants is
`Theorems/C18More.lean: before_timed_live / before_timed_expired`; with entries that do not expire the full clause holds
(`before_spec`). -/
theorem before_full_false :
    let res : Nat → Int := fun j => 100 + (j : Int)
    let s1 := (Model.Funcs.beforeCall 20 0 res { n := 2 }).1
    let s2 := (Model.Funcs.beforeCall 20 0 res s1).1
    let s3 := (Model.Funcs.beforeCall 20 0 res s2).1
    (Model.Funcs.beforeCall 20 0 res s2).2 = (false, 102) ∧ (Model.Funcs.beforeCall 20 25 res s3).2 = (false, 0) := by
  decide

end GoguVerif.Theorems.C18
