import GoguVerif.Gen.Lists
/-!
# Regenerated tie for the pointer-level doubly linked list (`list/dlist.go`) — the read-only methods

`Gen/Lists.lean` (namespace `Gen.Lists.DList`) is regenerated from /repo by `translator/frag_list.go` over the store of
`Model/DList.lean`.  Tied here, for all stores/handles/values: `InitDList`, `Find`, `First`, `Last`, `Val`.
NOT yet tied (translated, see Gen/Lists.lean): `relink`, `Unshift`, `Append`, `InsertBefore`, `InsertAfter`, `Replace`,
`Delete`, `Pop`, `Each`, `Clear`; `Shift` is outside the translated fragment (`var` declaration statement).
-/
namespace GoguVerif.Theorems.GenTieLists
open GoguVerif.Model GoguVerif.Model.DList
open GoguVerif.Spec.C19 (Ans)

/-- `InitDList` -/
theorem dlist_init_tie (v : Int) : Gen.Lists.DList.InitDList v = DList.init v := rfl

/-- the walk of dlist.go `Find` is the model's `findLoop` -/
theorem dlist_find_loop_tie (fuel : Nat) (h : Heap) (v : Int) (n : Option Nat) :
    Gen.Lists.DList.Find_loop1 fuel h v n =
      (DList.findLoop fuel h n v >>= fun r =>
        match r with
        | some a => pure (some (some a, true), h, some a)
        | none => pure (none, h, none)) := by
  induction fuel generalizing n with
  | zero => simp [Gen.Lists.DList.Find_loop1, DList.findLoop]
  | succ k ih =>
    unfold Gen.Lists.DList.Find_loop1 DList.findLoop
    cases n with
    | none => simp
    | some a =>
      simp only [ListRes.deref, load, reduceCtorEq, if_false, ListRes.ok_bind]
      cases h[a]? with
      | none => simp
      | some nd =>
        simp only [ListRes.ok_bind]
        by_cases hv : nd.val = v
        · simp [hv]
        · simp [hv, ih]

/-- dlist.go `Find` (read-only): the store is unchanged, the handle is the model's, the flag is "not nil" -/
theorem dlist_find_tie (h : Heap) (v : Int) :
    Gen.Lists.DList.Find h v = (DList.find h v >>= fun r => pure (h, r, r.isSome)) := by
  unfold Gen.Lists.DList.Find DList.find
  simp only [dlist_find_loop_tie]
  cases DList.findLoop (h.length + 1) h (some 0) v with
  | ok r => cases r <;> simp
  | _ => simp

/-- dlist.go `First`: the store is unchanged -/
theorem dlist_first_tie (h : Heap) :
    Gen.Lists.DList.First h = (DList.first h >>= fun v => pure (h, v)) := by
  unfold Gen.Lists.DList.First DList.first
  cases load h 0 <;> simp

/-- dlist.go `Val`: the store is unchanged -/
theorem dlist_val_tie (h : Heap) (node : Option Nat) :
    Gen.Lists.DList.Val h node = (DList.val h node >>= fun v => pure (h, v)) := by
  unfold Gen.Lists.DList.Val DList.val
  cases ListRes.deref node with
  | ok a => simp only [ListRes.ok_bind]; cases load h a <;> simp
  | _ => simp

/-- the walk of dlist.go `Last` is the model's `lastAddr` -/
theorem dlist_last_loop_tie (fuel : Nat) (h : Heap) (a : Nat) :
    Gen.Lists.DList.Last_loop1 fuel h (some a) = (DList.lastAddr fuel h a >>= fun b => pure (h, some b)) := by
  induction fuel generalizing a with
  | zero => simp [Gen.Lists.DList.Last_loop1, DList.lastAddr]
  | succ k ih =>
    unfold Gen.Lists.DList.Last_loop1 DList.lastAddr
    simp only [ListRes.deref, load, ListRes.ok_bind]
    cases h[a]? with
    | none => simp
    | some nd =>
      simp only [ListRes.ok_bind]
      cases hn : nd.next with
      | none => simp
      | some b => simp [ih]

/-- dlist.go `Last`: the store is unchanged -/
theorem dlist_last_tie (h : Heap) :
    Gen.Lists.DList.Last h = (DList.last h >>= fun v => pure (h, v)) := by
  unfold Gen.Lists.DList.Last DList.last
  simp only [dlist_last_loop_tie]
  cases DList.lastAddr (h.length + 1) h 0 with
  | ok a => simp only [ListRes.ok_bind, ListRes.pure_eq, ListRes.deref]; cases load h a <;> simp
  | _ => simp
end GoguVerif.Theorems.GenTieLists
