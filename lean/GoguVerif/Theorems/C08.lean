import GoguVerif.Lemmas.C08
/-!
# C08 — property theorems (expiring cache = map with per-entry deadlines)

Objects (defined in `Model/Cache.lean`, `Spec/C08.lean`, `Lemmas/C08.lean`):
* `Model.Cache.call cfg now m op` — one API call of `cache.go` at instant `now` on the map `m`;
  `Model.Cache.ev` / `runEv` — histories of calls and janitor ticks, each with its own instant;
  `Model.Cache.step` / `run` — the clocked machine the harness drives (`sleep` lets the ticker fire).
* `Spec.C08.step cfg c` — the specification; `c` decides the one instant `now = deadline`, which the
  property leaves open; `Spec.C08.stepAll` lists both admitted behaviours.
* `Lemmas.C08.abs`, `Lemmas.C08.Inv` — abstraction function and representation invariant.

All theorems quantify over every instant `now : Int`, every map, every configuration and every
history; none is a statement about sampled instants.  `now` is `time.Now().UnixNano()`; Unix time is
positive, which is what makes `now + d` (`d > 0`) a positive, i.e. real, deadline — where that
matters the hypothesis `0 ≤ t₀` is explicit.
-/
namespace GoguVerif.Theorems.C08
open GoguVerif GoguVerif.Model.Cache GoguVerif.Lemmas.C08
open GoguVerif.Spec.C08 (Op Out)

/-! ## A. Refinement: every answer of the model is an answer the specification admits -/

theorem inv_init (cfg : Cfg) : Inv cfg (init cfg) := by
  refine ⟨by simp [init, keys], ?_⟩
  intro _
  simp [init]

theorem abs_init (cfg : Cfg) : abs (init cfg) = {} := rfl

/-- **Per-operation refinement.**  In a state satisfying the invariant, the model's answer and
successor state are exactly those of the specification with the deadline instant counted as live
(`c = true`), and the invariant is preserved. -/
theorem step_refines (cfg : Cfg) (s : St) (op : Op) (hI : Inv cfg s) (hop : WellTimed op) :
    Spec.C08.step (absCfg cfg) true (abs s) op = (abs (step cfg s op).1, (step cfg s op).2)
      ∧ Inv cfg (step cfg s op).1 := by
  obtain ⟨hn, ht⟩ := hI
  cases op with
  | set k v d =>
    simp only [Spec.C08.step, step, call, abs, setOne_abs]
    exact ⟨trivial, nodup_set hn, ht⟩
  | update k v d =>
    have hu : update cfg s.now s.items k v d = store cfg s.now s.items k v d := by
      unfold update add; split <;> rfl
    simp only [Spec.C08.step, step, call, abs, hu]
    refine ⟨?_, nodup_store hn, ht⟩
    by_cases hr : rejected cfg v = true
    · simp [store, hr, accepted_abs]
    · simp [store, hr, accepted_abs, store_abs, expOf_abs]
  | get k =>
    have hg := get_eq s.now s.items k
    cases hl : lookup k s.items with
    | none =>
      rw [hl] at hg
      simp only [Option.filter_none] at hg
      simp only [Spec.C08.step, step, call, abs, find_abs, hl, hg, Option.map_none]
      exact ⟨trivial, hn, ht⟩
    | some it =>
      rw [hl] at hg
      have hlv := live_abs s.now (k, it)
      simp only [absItem] at hlv
      by_cases he : expired s.now it = true
      · simp only [he, Option.filter_some, Bool.not_true] at hg hlv
        simp only [Spec.C08.step, step, call, abs, find_abs, hl, hg, Option.map_some, hlv]
        exact ⟨rfl, hn, ht⟩
      · simp only [he, Option.filter_some, Bool.not_false] at hg hlv
        simp only [Spec.C08.step, step, call, abs, find_abs, hl, hg, Option.map_some, hlv]
        exact ⟨rfl, hn, ht⟩
  | delete k =>
    simp only [Spec.C08.step, step, call, abs, find_abs, delete]
    cases hl : lookup k s.items with
    | none => exact ⟨rfl, hn, ht⟩
    | some it => exact ⟨by simp [erase_abs], nodup_erase hn, ht⟩
  | flush =>
    exact ⟨rfl, by simp [step, call, flush, keys], ht⟩
  | deleteExpired =>
    simp only [Spec.C08.step, step, call, abs]
    refine ⟨?_, nodup_deleteExpired hn, ht⟩
    rw [purgeAt_abs hn, deleteExpired_eq_filter hn]
  | count =>
    exact ⟨by simp [Spec.C08.step, step, call, abs, count, absItems], hn, ht⟩
  | list =>
    exact ⟨by simp [Spec.C08.step, step, call, abs, listObs_abs hn], hn, ht⟩
  | mapToCache kvs d =>
    simp only [Spec.C08.step, step, call, abs, mapToCache]
    have := mapToCacheLoop_abs cfg s.now d kvs s.items false
    refine ⟨?_, nodup_mapToCacheLoop kvs _ _ hn, ht⟩
    rw [this]
  | isExpired k =>
    simp only [Spec.C08.step, step, call, abs, find_abs, isExpired_eq]
    refine ⟨?_, hn, ht⟩
    cases hl : lookup k s.items with
    | none => rfl
    | some it =>
      have := live_abs s.now (k, it)
      simp only [absItem] at this
      simp [this]
  | sleep ms =>
    simp only [WellTimed] at hop
    by_cases hcl : cfg.cleanupInt > 0
    · have hnt := ht hcl
      have ha := runTicks_abs cfg hcl (s.now + ms) (ms.toNat + 1) s.now s.items hn
      have hb := runTicks_next hcl (s.now + ms) (ms.toNat + 1) s.now s.items (by omega)
        (fuel_enough hcl)
      rw [← hnt] at ha hb
      simp only [Spec.C08.step, step, abs, hcl, if_true, absCfg]
      simp only [absCfg] at ha
      refine ⟨?_, ha.2, fun _ => hb⟩
      rw [← ha.1]
    · simp only [Spec.C08.step, step, abs, hcl, if_false, absCfg]
      exact ⟨trivial, hn, fun h => absurd h hcl⟩

/-- Every single answer of the model is among the behaviours the specification admits. -/
theorem step_admitted (cfg : Cfg) (s : St) (op : Op) (hI : Inv cfg s) (hop : WellTimed op) :
    (abs (step cfg s op).1, (step cfg s op).2) ∈ Spec.C08.stepAll (absCfg cfg) (abs s) op := by
  rw [← (step_refines cfg s op hI hop).1]
  simp [Spec.C08.stepAll]

/-- A history of answers the specification admits: each step is one of `Spec.C08.stepAll`. -/
inductive Admits (cfg : Spec.C08.Cfg) : Spec.C08.St → List Op → List Out → Prop
  | nil (s) : Admits cfg s [] []
  | cons {s s' op o ops os} :
      (s', o) ∈ Spec.C08.stepAll cfg s op → Admits cfg s' ops os → Admits cfg s (op :: ops) (o :: os)

/-- **Refinement, whole histories.**  For every configuration, every reachable state and every
history in which time does not run backwards, the model's answers form a history the
map-with-deadlines specification admits; the invariant holds afterwards. -/
theorem run_admitted (cfg : Cfg) (ops : List Op) :
    ∀ s, Inv cfg s → (∀ op ∈ ops, WellTimed op) →
      Admits (absCfg cfg) (abs s) ops (run cfg s ops).2 ∧ Inv cfg (run cfg s ops).1 := by
  induction ops with
  | nil => intro s hI _; exact ⟨.nil _, hI⟩
  | cons op ops ih =>
    intro s hI hw
    have hop := hw op List.mem_cons_self
    have h1 := step_admitted cfg s op hI hop
    have h2 := (step_refines cfg s op hI hop).2
    have h3 := ih (step cfg s op).1 h2 (fun o ho => hw o (List.mem_cons_of_mem _ ho))
    simp only [run]
    exact ⟨.cons h1 h3.1, h3.2⟩

/-- From `New`: the model's whole behaviour is admitted by the specification started empty. -/
theorem cache_refines_deadline_map (cfg : Cfg) (ops : List Op) (hw : ∀ op ∈ ops, WellTimed op) :
    Admits (absCfg cfg) {} ops (run cfg (init cfg) ops).2 := by
  have := (run_admitted cfg ops (init cfg) (inv_init cfg) hw).1
  rwa [abs_init] at this

/-- the specification resolved with one fixed choice for the deadline instant -/
def specRun (cfg : Spec.C08.Cfg) (c : Bool) (s : Spec.C08.St) : List Op → Spec.C08.St × List Out
  | [] => (s, [])
  | op :: ops =>
    match Spec.C08.step cfg c s op with
    | (s', o) => match specRun cfg c s' ops with
      | (s'', os) => (s'', o :: os)

/-- The code resolves the open instant uniformly: it behaves as the specification in which an entry
is still live at `now = deadline` (`Get`, `Set`, `IsExpired`, `DeleteExpired` all test `now > exp`). -/
theorem run_refines (cfg : Cfg) (ops : List Op) :
    ∀ s, Inv cfg s → (∀ op ∈ ops, WellTimed op) →
      specRun (absCfg cfg) true (abs s) ops = (abs (run cfg s ops).1, (run cfg s ops).2) := by
  induction ops with
  | nil => intro s _ _; rfl
  | cons op ops ih =>
    intro s hI hw
    have hop := hw op List.mem_cons_self
    have h := step_refines cfg s op hI hop
    simp only [specRun, run, h.1]
    rw [ih _ h.2 (fun o ho => hw o (List.mem_cons_of_mem _ ho))]

/-! ## B. The clauses of the property, for every instant and every map

`m` is any association list with unique keys (`Inv` gives that for every reachable state). -/

/-- the duration `store` works with: `DefaultExpiration` is replaced by the cache's default -/
def effDur (cfg : Cfg) (d : Int) : Int := if d = Gen.defaultExpiration then cfg.expTime else d

theorem expiry_pos {cfg : Cfg} {now d : Int} (h : 0 < effDur cfg d) :
    expiry cfg now d = now + effDur cfg d := by
  simp only [effDur] at h
  simp only [expiry, effDur]
  split <;> simp_all

/-- `NoExpiration`, any negative duration, or a default of zero or less: the stored deadline is
`-1` or `0`, never positive. -/
theorem expiry_nonpos {cfg : Cfg} {now d : Int} (h : effDur cfg d ≤ 0) :
    expiry cfg now d = -1 ∨ expiry cfg now d = 0 := by
  simp only [effDur] at h
  simp only [expiry, Gen.noExpiration]
  split at h <;> simp_all <;> omega

/-! ### Get -/

/-- `Get` succeeds exactly on a stored entry that never expires or whose deadline has not passed
(the deadline instant itself included), and returns that entry. -/
theorem get_some_iff {now k : Int} {m : Items} {it : Item} :
    Model.Cache.get now m k = some it ↔
      lookup k m = some it ∧ (it.expiration ≤ 0 ∨ now ≤ it.expiration) := by
  rw [get_eq]
  cases lookup k m with
  | none => simp
  | some it' =>
    simp only [Option.filter_some, expired]
    by_cases h : it'.expiration > 0 ∧ now > it'.expiration
    · simp [h]; intro e; subst e; omega
    · simp [h]; intro e; subst e; omega

/-- `Get` fails exactly for a missing key or an entry whose (positive) deadline lies strictly before `now`. -/
theorem get_none_iff {now k : Int} {m : Items} :
    Model.Cache.get now m k = none ↔
      lookup k m = none ∨ ∃ it, lookup k m = some it ∧ 0 < it.expiration ∧ it.expiration < now := by
  rw [get_eq]
  cases lookup k m with
  | none => simp
  | some it' =>
    simp only [Option.filter_some, expired]
    by_cases h : it'.expiration > 0 ∧ now > it'.expiration
    · simp [h]
    · simp [h]

/-! ### Set, Update -/

/-- `Set` stores iff the key has no live entry and the value is accepted … -/
theorem set_ok {cfg : Cfg} {now k v d : Int} {m : Items}
    (hfree : Model.Cache.get now m k = none) (hacc : rejected cfg v = false) :
    Model.Cache.set cfg now m k v d = (assign k ⟨v, expiry cfg now d⟩ m, false) := by
  rcases get_none_iff.mp hfree with h | ⟨it, h, h1, h2⟩
  · simp [Model.Cache.set, h, store, hacc]
  · have : ¬ (it.expiration ≤ 0 ∨ now ≤ it.expiration) := by omega
    simp [Model.Cache.set, h, this, store, hacc]

/-- … otherwise it reports an error and changes nothing: the key has a live entry, … -/
theorem set_blocked {cfg : Cfg} {now k v d : Int} {m : Items} {it : Item}
    (hlive : Model.Cache.get now m k = some it) :
    Model.Cache.set cfg now m k v d = (m, true) := by
  obtain ⟨h, h1⟩ := get_some_iff.mp hlive
  simp [Model.Cache.set, h, h1]

/-- … or the value is rejected (the empty string). -/
theorem set_rejected {cfg : Cfg} {now k v d : Int} {m : Items} (hrej : rejected cfg v = true) :
    Model.Cache.set cfg now m k v d = (m, true) := by
  unfold Model.Cache.set
  split
  · split
    · rfl
    · simp [store, hrej]
  · simp [store, hrej]

theorem set_ok_iff {cfg : Cfg} {now k v d : Int} {m : Items} :
    (Model.Cache.set cfg now m k v d).2 = false ↔
      Model.Cache.get now m k = none ∧ rejected cfg v = false := by
  constructor
  · intro h
    cases hg : Model.Cache.get now m k with
    | some it => rw [set_blocked hg] at h; simp at h
    | none =>
      cases hr : rejected cfg v with
      | true => rw [set_rejected hr] at h; simp at h
      | false => exact ⟨rfl, rfl⟩
  · intro ⟨h1, h2⟩; rw [set_ok h1 h2]

/-- `Update` always stores an accepted value — over a live, an expired or no entry alike
(its `Get` probe can never produce an item together with an error). -/
theorem update_stores {cfg : Cfg} {now k v d : Int} {m : Items} (hacc : rejected cfg v = false) :
    update cfg now m k v d = (assign k ⟨v, expiry cfg now d⟩ m, false) := by
  simp [update_eq_store, store, hacc]

theorem update_rejected {cfg : Cfg} {now k v d : Int} {m : Items} (hrej : rejected cfg v = true) :
    update cfg now m k v d = (m, true) := by
  simp [update_eq_store, store, hrej]

/-- After a store, `Get` of that key at any later-or-earlier instant `now'` sees the new entry
(as long as it is live at `now'`); other keys are unaffected. -/
theorem get_assign {now' k k' : Int} {it : Item} {m : Items} :
    Model.Cache.get now' (assign k it m) k' =
      if k' = k then (if it.expiration > 0 ∧ now' > it.expiration then none else some it)
      else Model.Cache.get now' m k' := by
  rw [get_eq, get_eq, lookup_assign]
  by_cases h : k' = k
  · by_cases h2 : it.expiration > 0 ∧ now' > it.expiration <;> simp [h, h2, Option.filter_some, expired]
  · simp [h]

/-! ### Delete, Flush, DeleteExpired -/

/-- `Delete` removes exactly the named entry and errs iff there was none. -/
theorem delete_spec (m : Items) (k : Int) :
    ((delete m k).2 = false ↔ lookup k m ≠ none) ∧
      ∀ k', lookup k' (delete m k).1 = if k' = k then none else lookup k' m := by
  unfold delete
  cases h : lookup k m with
  | none =>
    refine ⟨by simp, fun k' => ?_⟩
    by_cases hk : k' = k
    · subst hk; simp [h]
    · simp [hk]
  | some it => exact ⟨by simp, fun k' => lookup_erase k k' m⟩

theorem flush_spec (k : Int) : lookup k flush = none ∧ count flush = 0 := ⟨rfl, rfl⟩

/-- `DeleteExpired` (and so every janitor tick) removes exactly the entries with `0 < exp < now`, keeps
all others untouched and in place, and reports no error — for every iteration order of the map. -/
theorem deleteExpired_exact {now : Int} {m : Items} (hn : (keys m).Nodup) :
    deleteExpired now m
      = (m.filter (fun p => !decide (0 < p.2.expiration ∧ p.2.expiration < now)), false) := by
  rw [deleteExpired_eq_filter hn]
  congr 1

theorem lookup_deleteExpired_iff {now k : Int} {m : Items} {it : Item} (hn : (keys m).Nodup) :
    lookup k (deleteExpired now m).1 = some it ↔
      lookup k m = some it ∧ ¬ (0 < it.expiration ∧ it.expiration < now) := by
  rw [lookup_deleteExpired hn]
  cases lookup k m with
  | none => simp
  | some it' =>
    simp only [Option.filter_some, expired]
    by_cases h : it'.expiration > 0 ∧ now > it'.expiration
    · simp [h]; intro e; subst e; omega
    · simp [h]; intro e; subst e; omega

/-- Entries without expiry (`exp ≤ 0`: `NoExpiration`, or a default of zero or less) are never removed
by cleanup, at any instant. -/
theorem deleteExpired_keeps_unexpiring {now k : Int} {m : Items} {it : Item} (hn : (keys m).Nodup)
    (h : lookup k m = some it) (hexp : it.expiration ≤ 0) :
    lookup k (deleteExpired now m).1 = some it :=
  (lookup_deleteExpired_iff hn).mpr ⟨h, by omega⟩

/-! ### IsExpired -/

/-- `IsExpired` is true exactly for stored entries strictly past their (positive) deadline. -/
theorem isExpired_iff {now k : Int} {m : Items} :
    isExpired now m k = true ↔
      ∃ it, lookup k m = some it ∧ 0 < it.expiration ∧ it.expiration < now := by
  rw [isExpired_eq]
  cases lookup k m with
  | none => simp
  | some it => simp [expired]

/-- `IsExpired` is the stored-and-not-gettable test. -/
theorem isExpired_iff_get {now k : Int} {m : Items} :
    isExpired now m k = true ↔ lookup k m ≠ none ∧ Model.Cache.get now m k = none := by
  rw [isExpired_iff, get_none_iff]
  cases lookup k m <;> simp

/-! ### Count, List -/

theorem count_eq (m : Items) : count m = (keys m).length := by simp [count, keys]

/-- `List()` (canonical form: pairs sorted by key) reports exactly the stored entries — every one,
expired-but-unpurged ones included — once each. -/
theorem listObs_spec {m : Items} (hn : (keys m).Nodup) :
    (listObs m).Pairwise (fun a b => a.1 ≤ b.1) ∧ (listObs m).length = count m ∧
      ∀ k v, (k, v) ∈ listObs m ↔ ∃ it, lookup k m = some it ∧ it.object = v := by
  have hp : (listObs m).Perm (m.map fun p => (p.1, p.2.object)) := by
    rw [listObs, list_eq_reverse hn]
    exact (sortKV_perm_self _).trans ((List.reverse_perm m).map _)
  refine ⟨sortKV_sorted _, by rw [hp.length_eq]; simp [count], fun k v => ?_⟩
  rw [hp.mem_iff, List.mem_map]
  constructor
  · rintro ⟨⟨k', it⟩, hmem, he⟩
    simp only [Prod.mk.injEq] at he
    obtain ⟨rfl, rfl⟩ := he
    exact ⟨it, lookup_of_mem hn hmem, rfl⟩
  · rintro ⟨it, hl, rfl⟩
    exact ⟨(k, it), mem_of_lookup hl, rfl⟩

/-! ### MapToCache -/

/-- `MapToCache` over a Go map (unique keys) listed in the order `kvs`: it reports an error iff the
`Set` of at least one entry fails, every entry's key ends up as its own `Set` on the original map
would leave it, and no other key changes. -/
theorem mapToCache_spec {cfg : Cfg} {now d : Int} {m : Items} {kvs : List (Int × Int)}
    (hk : (kvs.map (·.1)).Nodup) :
    ((mapToCache cfg now m kvs d).2 = true ↔
        ∃ kv ∈ kvs, (Model.Cache.set cfg now m kv.1 kv.2 d).2 = true) ∧
    (∀ kv ∈ kvs, lookup kv.1 (mapToCache cfg now m kvs d).1
        = lookup kv.1 (Model.Cache.set cfg now m kv.1 kv.2 d).1) ∧
    (∀ k, k ∉ kvs.map (·.1) → lookup k (mapToCache cfg now m kvs d).1 = lookup k m) := by
  obtain ⟨h1, h2⟩ := mapToCacheLoop_spec (cfg := cfg) (now := now) (d := d) kvs m false hk
  refine ⟨?_, ?_, ?_⟩
  · simp only [mapToCache, h1, Bool.false_or, List.any_eq_true, set_err_eq]
  · intro kv hkv
    simp only [mapToCache, h2 kv hkv, set_lookup_eq]
  · intro k hk'
    apply lookup_mapToCacheLoop_other
    rw [Bool.eq_false_iff]
    intro h
    obtain ⟨x, hx, hxe⟩ := List.any_eq_true.mp h
    exact hk' (List.mem_map.mpr ⟨x, hx, by simpa using hxe⟩)

/-- The iteration order of the argument map does not matter: same error flag, same resulting map. -/
theorem mapToCache_order_irrelevant {cfg : Cfg} {now d : Int} {m : Items} {kvs kvs' : List (Int × Int)}
    (hk : (kvs.map (·.1)).Nodup) (hp : kvs.Perm kvs') :
    (mapToCache cfg now m kvs d).2 = (mapToCache cfg now m kvs' d).2 ∧
      ∀ k, lookup k (mapToCache cfg now m kvs d).1 = lookup k (mapToCache cfg now m kvs' d).1 := by
  have hk' : (kvs'.map (·.1)).Nodup := ((hp.map (·.1)).nodup_iff).mp hk
  obtain ⟨a1, a2⟩ := mapToCacheLoop_spec (cfg := cfg) (now := now) (d := d) kvs m false hk
  obtain ⟨b1, b2⟩ := mapToCacheLoop_spec (cfg := cfg) (now := now) (d := d) kvs' m false hk'
  obtain ⟨_, _, a3⟩ := mapToCache_spec (cfg := cfg) (now := now) (d := d) (m := m) hk
  obtain ⟨_, _, b3⟩ := mapToCache_spec (cfg := cfg) (now := now) (d := d) (m := m) hk'
  refine ⟨by simp only [mapToCache, a1, b1, hp.any_eq], fun k => ?_⟩
  by_cases hmem : k ∈ kvs.map (·.1)
  · obtain ⟨kv, hkv, rfl⟩ := List.mem_map.mp hmem
    simp only [mapToCache, a2 kv hkv, b2 kv (hp.mem_iff.mp hkv)]
  · have hmem' : k ∉ kvs'.map (·.1) := fun h => hmem ((hp.map (·.1)).mem_iff.mpr h)
    rw [a3 k hmem, b3 k hmem']

/-! ## C. All instants, all histories: liveness before the deadline, expiry after it, cleanup

A history is any list of events — API calls and janitor ticks, each at its own instant — that do not
store, delete or flush the key under consideration (`touches k e = false`); everything else,
including purges and operations on other keys, is arbitrary. -/

/-- An entry is live at **every** instant up to and including its deadline: whatever happened
since it was stored (no event later than `now`), `Get` at `now ≤ exp` returns it. -/
theorem live_before_deadline {cfg : Cfg} {m : Items} {k : Int} {it : Item} (es : List Ev) (now : Int)
    (hn : (keys m).Nodup) (hst : lookup k m = some it)
    (hun : ∀ e ∈ es, touches k e = false) (hpast : ∀ e ∈ es, evTime e ≤ now)
    (hlive : now ≤ it.expiration) :
    Model.Cache.get now (runEv cfg m es).1 k = some it := by
  rw [get_some_iff]
  refine ⟨lookup_runEv_stable es m hn hst hun ?_, Or.inr hlive⟩
  intro e he _
  have := hpast e he
  cases h : expired (evTime e) it with
  | false => rfl
  | true => simp only [expired, decide_eq_true_eq] at h; omega

/-- An entry is expired at **every** instant strictly after its (positive) deadline: `Get` fails,
whether or not cleanup has removed it meanwhile. -/
theorem expired_after_deadline {cfg : Cfg} {m : Items} {k : Int} {it : Item} (es : List Ev) (now : Int)
    (hn : (keys m).Nodup) (hst : lookup k m = some it)
    (hun : ∀ e ∈ es, touches k e = false) (hpos : 0 < it.expiration) (hlate : it.expiration < now) :
    Model.Cache.get now (runEv cfg m es).1 k = none := by
  rw [get_none_iff]
  rcases lookup_runEv_some_or_none (cfg := cfg) es m hn hst hun with h | h
  · exact Or.inr ⟨it, h, hpos, hlate⟩
  · exact Or.inl h

/-- Entries without expiry never expire and are never removed by cleanup: after any history, with
purges at any instants, `Get` at any instant returns the entry. -/
theorem unexpiring_forever {cfg : Cfg} {m : Items} {k : Int} {it : Item} (es : List Ev) (now : Int)
    (hn : (keys m).Nodup) (hst : lookup k m = some it)
    (hun : ∀ e ∈ es, touches k e = false) (hexp : it.expiration ≤ 0) :
    lookup k (runEv cfg m es).1 = some it ∧ Model.Cache.get now (runEv cfg m es).1 k = some it ∧
      isExpired now (runEv cfg m es).1 k = false := by
  have h : lookup k (runEv cfg m es).1 = some it := by
    refine lookup_runEv_stable es m hn hst hun ?_
    intro e _ _
    cases h : expired (evTime e) it with
    | false => rfl
    | true => simp only [expired, decide_eq_true_eq] at h; omega
  refine ⟨h, get_some_iff.mpr ⟨h, Or.inl hexp⟩, ?_⟩
  cases hx : isExpired now (runEv cfg m es).1 k with
  | false => rfl
  | true =>
    obtain ⟨it', h1, h2, _⟩ := isExpired_iff.mp hx
    rw [h] at h1; cases h1; omega

/-- The statement's timing clause in one piece.  A successful `Set` (or `Update`, see
`update_stores`) at instant `t₀ ≥ 0` with a positive effective duration `D = effDur cfg d`, followed by
any history that does not touch the key: `Get` returns the value at every `now ≤ t₀ + D` (nothing
in the history being later than `now`) and fails at every `now > t₀ + D`. -/
theorem positive_duration_entry {cfg : Cfg} {m : Items} {k v d t₀ : Int} (es : List Ev)
    (hn : (keys m).Nodup) (ht₀ : 0 ≤ t₀) (hd : 0 < effDur cfg d)
    (hok : (Model.Cache.set cfg t₀ m k v d).2 = false)
    (hun : ∀ e ∈ es, touches k e = false) :
    let m' := (Model.Cache.set cfg t₀ m k v d).1
    (∀ now, (∀ e ∈ es, evTime e ≤ now) → now ≤ t₀ + effDur cfg d →
        Model.Cache.get now (runEv cfg m' es).1 k = some ⟨v, t₀ + effDur cfg d⟩) ∧
    (∀ now, t₀ + effDur cfg d < now → Model.Cache.get now (runEv cfg m' es).1 k = none) := by
  intro m'
  obtain ⟨h1, h2⟩ := set_ok_iff.mp hok
  have hm' : m' = assign k ⟨v, t₀ + effDur cfg d⟩ m := by
    simp only [m', set_ok h1 h2, expiry_pos hd]
  have hn' : (keys m').Nodup := by rw [hm']; exact nodup_assign hn
  have hst : lookup k m' = some ⟨v, t₀ + effDur cfg d⟩ := by rw [hm', lookup_assign]; simp
  exact ⟨fun now hp hl => live_before_deadline es now hn' hst hun hp hl,
         fun now hl => expired_after_deadline es now hn' hst hun (by simp only []; omega) hl⟩

/-! ### Background cleanup -/

/-- Once the janitor has ticked at an instant past the deadline, the expired entry is gone — and it
stays gone for the rest of the history (nothing re-stores the key). -/
theorem janitor_purges {cfg : Cfg} {m : Items} {k : Int} {it : Item} (es : List Ev) (t : Int)
    (hn : (keys m).Nodup) (hst : lookup k m = some it)
    (hun : ∀ e ∈ es, touches k e = false) (hpos : 0 < it.expiration) (ht : it.expiration < t)
    (htick : Ev.tick t ∈ es) :
    lookup k (runEv cfg m es).1 = none :=
  lookup_runEv_purged es m hn hst hun ⟨.tick t, htick, rfl, by simp [expired, evTime, hpos, ht]⟩

/-- **Ticker punctuality** — an assumption about `time.Ticker` and the Go scheduler, not something
the model can prove about the real runtime: the janitor's ticker, period `cl`, has fired (and
`DeleteExpired` has run) at every multiple of `cl` in the window `(start, horizon]`. -/
def Punctual (cl start horizon : Int) (es : List Ev) : Prop :=
  ∀ n : Int, start < n * cl → n * cl ≤ horizon → Ev.tick (n * cl) ∈ es

/-- With background cleanup enabled and a punctual ticker, an entry whose deadline is `D` is gone by
`D + cleanupInt`: after any history, not touching the key, whose ticks are punctual on a window
that starts no later than `D` and reaches `D + cleanupInt`. -/
theorem cleanup_within_interval {cfg : Cfg} {m : Items} {k : Int} {it : Item} (es : List Ev)
    (start now : Int)
    (hcl : 0 < cfg.cleanupInt) (hn : (keys m).Nodup) (hst : lookup k m = some it)
    (hun : ∀ e ∈ es, touches k e = false) (hpos : 0 < it.expiration)
    (hpunct : Punctual cfg.cleanupInt start now es) (hstart : start ≤ it.expiration)
    (hnow : it.expiration + cfg.cleanupInt ≤ now) :
    lookup k (runEv cfg m es).1 = none := by
  have hne : cfg.cleanupInt ≠ 0 := by omega
  have h1 := Int.lt_ediv_add_one_mul_self it.expiration hcl
  have h2 := Int.ediv_mul_le it.expiration hne
  have h4 : (it.expiration / cfg.cleanupInt + 1) * cfg.cleanupInt
      = it.expiration / cfg.cleanupInt * cfg.cleanupInt + cfg.cleanupInt := by
    rw [Int.add_mul, Int.one_mul]
  exact janitor_purges es _ hn hst hun hpos h1
    (hpunct (it.expiration / cfg.cleanupInt + 1) (by omega) (by omega))

/-- … while a live entry is never removed by cleanup, however many ticks fire: this is
`live_before_deadline` / `unexpiring_forever` (ticks are events of the history).  Stated once more
for ticks only: -/
theorem ticks_keep_live {cfg : Cfg} {m : Items} {k : Int} {it : Item} (ts : List Int) (now : Int)
    (hn : (keys m).Nodup) (hst : lookup k m = some it) (hpast : ∀ t ∈ ts, t ≤ now)
    (hlive : it.expiration ≤ 0 ∨ now ≤ it.expiration) :
    lookup k (runEv cfg m (ts.map Ev.tick)).1 = some it := by
  refine lookup_runEv_stable _ m hn hst ?_ ?_
  · intro e he; obtain ⟨t, _, rfl⟩ := List.mem_map.mp he; rfl
  · intro e he _
    obtain ⟨t, htm, rfl⟩ := List.mem_map.mp he
    have := hpast t htm
    cases h : expired (evTime (Ev.tick t)) it with
    | false => rfl
    | true => simp [expired, evTime] at h; omega

/-! ## D. The same clauses on the clocked machine the harness compares with the real code

`Model.Cache.run` is what the driver runs beside the implementation (virtual clock, `sleep`).
Its histories are event histories (`run_items`), its clock never exceeds the final reading
(`evsOf_times`) and its ticker is punctual by construction (`evsOf_punctual`), so the theorems of
part C apply without any timing hypothesis. -/

/-- After any protocol history that does not touch key `k` (time not running backwards), starting in
any reachable state in which `k ↦ it` is stored, with `s'` the final state:
* if the entry has no deadline or the clock has not passed it, `Get` returns its value;
* if the clock is strictly past a positive deadline, `Get` fails;
* if moreover cleanup is enabled, the deadline was not yet passed at the start and the clock has
  reached `deadline + cleanupInt`, the entry is no longer in the map (`Count`/`List` drop it). -/
theorem clocked_entry_lifecycle {cfg : Cfg} {s : St} {k : Int} {it : Item} (ops : List Op)
    (hI : Inv cfg s) (hw : ∀ op ∈ ops, WellTimed op)
    (hst : lookup k s.items = some it) (hun : ∀ op ∈ ops, touchesOp k op = false) :
    let s' := (run cfg s ops).1
    ((it.expiration ≤ 0 ∨ s'.now ≤ it.expiration) →
        (step cfg s' (.get k)).2 = .got (some it.object) ∧ lookup k s'.items = some it) ∧
    (0 < it.expiration → it.expiration < s'.now → (step cfg s' (.get k)).2 = .got none) ∧
    (0 < cfg.cleanupInt → 0 < it.expiration → s.now ≤ it.expiration →
        it.expiration + cfg.cleanupInt ≤ s'.now → lookup k s'.items = none) := by
  intro s'
  have hitems : s'.items = (runEv cfg s.items (evsOf cfg s ops)).1 := run_items cfg ops s
  have hun' := evsOf_untouched (cfg := cfg) ops s hun
  have htimes := evsOf_times (cfg := cfg) ops s hw
  refine ⟨?_, ?_, ?_⟩
  · intro hlive
    have hg : Model.Cache.get s'.now s'.items k = some it := by
      rw [hitems]
      rcases hlive with h | h
      · exact (unexpiring_forever _ _ hI.1 hst hun' h).2.1
      · exact live_before_deadline _ _ hI.1 hst hun' htimes h
    refine ⟨?_, (get_some_iff.mp hg).1⟩
    simp only [step, call, hg]
  · intro hpos hlate
    have hg : Model.Cache.get s'.now s'.items k = none := by
      rw [hitems]; exact expired_after_deadline _ _ hI.1 hst hun' hpos hlate
    simp only [step, call, hg]
  · intro hcl hpos hstart hnow
    rw [hitems]
    exact cleanup_within_interval _ s.now s'.now hcl hI.1 hst hun' hpos
      (evsOf_punctual hcl ops s hI hw) hstart hnow

/-! ## Non-vacuity: the hypotheses are satisfiable, the model computes the documented behaviour -/
section Examples

/-- string-valued cache, default expiry 20, janitor every 10 -/
def cfgX : Cfg := ⟨20, 10, true⟩

def opsX : List Op :=
  [.set 0 5 0, .sleep 20, .get 0, .set 0 6 0, .sleep 1, .get 0, .isExpired 0, .count, .sleep 9, .count]

/-- live at the deadline instant (20), expired at 21, purged by the tick at 30 -/
example : (run cfgX (init cfgX) opsX).2 =
    [.err false, .unit, .got (some 5), .err true, .unit, .got none, .bool true, .int 1, .unit, .int 0] := by
  decide

example : ∀ op ∈ opsX, WellTimed op := by
  intro op h
  simp only [opsX, List.mem_cons, List.not_mem_nil, or_false] at h
  rcases h with rfl | rfl | rfl | rfl | rfl | rfl | rfl | rfl | rfl | rfl <;> simp [WellTimed]

/-- `run_admitted` / `cache_refines_deadline_map` applied -/
example : Admits (absCfg cfgX) {} opsX (run cfgX (init cfgX) opsX).2 :=
  cache_refines_deadline_map cfgX opsX (by
    intro op h
    simp only [opsX, List.mem_cons, List.not_mem_nil, or_false] at h
    rcases h with rfl | rfl | rfl | rfl | rfl | rfl | rfl | rfl | rfl | rfl <;> simp [WellTimed])

def evsX : List Ev := [.tick 10, .call 12 (.set 1 7 (-1)), .call 15 .deleteExpired, .tick 20]

/-- `positive_duration_entry`: hypotheses hold for a concrete store and history; conclusion at the
deadline instant and just after it -/
example :
    Model.Cache.get 20 (runEv cfgX (Model.Cache.set cfgX 0 [] 0 5 0).1 evsX).1 0 = some ⟨5, 20⟩ ∧
    Model.Cache.get 21 (runEv cfgX (Model.Cache.set cfgX 0 [] 0 5 0).1 evsX).1 0 = none := by
  have h := positive_duration_entry (cfg := cfgX) (m := []) (k := 0) (v := 5) (d := 0) (t₀ := 0) evsX
    (by decide) (by decide) (by decide) (by decide) (by decide)
  exact ⟨h.1 20 (by decide) (by decide), h.2 21 (by decide)⟩

/-- `unexpiring_forever`: a `NoExpiration` entry and a zero-default entry survive ticks at any time -/
example : lookup 1 (runEv ⟨0, 10, false⟩ [(1, ⟨7, 0⟩)] [.tick 10, .tick 1000000]).1 = some ⟨7, 0⟩ :=
  (unexpiring_forever (cfg := ⟨0, 10, false⟩) (it := ⟨7, 0⟩) [.tick 10, .tick 1000000] 0 (by decide) (by decide)
    (by decide) (by decide)).1

/-- `cleanup_within_interval`: a punctual tick sequence exists -/
example : lookup 0 (runEv cfgX [(0, ⟨5, 20⟩)] [.tick 10, .tick 20, .tick 30]).1 = none :=
  cleanup_within_interval (cfg := cfgX) (it := ⟨5, 20⟩) [.tick 10, .tick 20, .tick 30] 0 30 (by decide) (by decide)
    (by decide) (by decide) (by decide)
    (by
      intro n h1 h2
      have : n = 1 ∨ n = 2 ∨ n = 3 := by simp only [cfgX] at h1 h2; omega
      rcases this with rfl | rfl | rfl <;> simp [cfgX])
    (by decide) (by decide)

/-- `clocked_entry_lifecycle` from the state right after a successful `Set` -/
example : lookup 0 (run cfgX (step cfgX (init cfgX) (.set 0 5 0)).1 [.sleep 20, .get 0, .sleep 10]).1.items = none := by
  have hI : Inv cfgX (step cfgX (init cfgX) (.set 0 5 0)).1 := inv_step _ (inv_init cfgX) trivial
  have h := clocked_entry_lifecycle (cfg := cfgX) (k := 0) (it := ⟨5, 20⟩)
    [.sleep 20, .get 0, .sleep 10] hI
    (by intro op h
        simp only [List.mem_cons, List.not_mem_nil, or_false] at h
        rcases h with rfl | rfl | rfl <;> simp [WellTimed])
    (by decide) (by decide)
  exact h.2.2 (by decide) (by decide) (by decide) (by decide)

/-- `mapToCache_order_irrelevant`: both orders of a two-entry map -/
example : (mapToCache cfgX 0 [(1, ⟨9, -1⟩)] [(1, 7), (2, 8)] 0).2
    = (mapToCache cfgX 0 [(1, ⟨9, -1⟩)] [(2, 8), (1, 7)] 0).2 :=
  (mapToCache_order_irrelevant (by decide) (List.Perm.swap _ _ _)).1

/-! The four repaired defects, as facts about the model (= the code as it is now): -/

/-- F14: `Set` reports the rejection of an empty string value -/
example : Model.Cache.set ⟨-1, 0, true⟩ 0 [] 1 0 0 = ([], true) := by decide
/-- F15: `MapToCache` reports the error of a blocked entry and still stores the others -/
example : mapToCache ⟨-1, 0, false⟩ 0 [(1, ⟨5, -1⟩)] [(1, 7), (2, 8)] 0
    = ([(2, ⟨8, -1⟩), (1, ⟨5, -1⟩)], true) := by decide
/-- F16: `IsExpired` is true past the deadline, false at it -/
example : isExpired 11 [(0, ⟨5, 10⟩)] 0 = true ∧ isExpired 10 [(0, ⟨5, 10⟩)] 0 = false := by decide
/-- F17: an entry stored under a zero default (`exp = 0`) is not purged -/
example : deleteExpired 100 (Model.Cache.set ⟨0, 10, false⟩ 0 [] 2 2 0).1 = ([(2, ⟨2, 0⟩)], false) := by
  decide

end Examples

end GoguVerif.Theorems.C08
