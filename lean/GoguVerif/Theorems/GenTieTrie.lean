import GoguVerif.Gen.Trie
import GoguVerif.Model.Trie
/-!
# The regenerated tie for `trie/trie.go` (C09)

`Gen/Trie.lean` is produced on every run by the translator (`translator/frag_trie.go`) from `trie/trie.go`: a
`*node[K,V]` as a value of the generated inductive type `Gen.Trie.node` (fields in declaration order: the embedded
`Item{key,val}`, `left`, `mid`, `right`, `c`, `isValid`), `K ~string` as `List UInt8`, `key[d]` as `byteAt`
(`none` ↦ `Out.panic`), Go `int` as `Int`, `error` as `Option String`, the `*Trie` handle's fields as variables.

The theorems state, for ALL tries, keys, values (and depths `d : Nat`, the only depths the code ever passes), that
each regenerated definition computes exactly what the hand-written definition of `Model/Trie.lean` computes.
`toM` forgets `Item.key` (written once by `newNode`, never read: not part of the model) and reorders fields.
The model's `Option` (`none` = the call panics) corresponds to `Out.panic`; `Out.hang` never occurs.
-/
set_option linter.unusedSimpArgs false
namespace GoguVerif.Theorems.GenTieTrie
open GoguVerif
open GoguVerif.Gen.Trie
open GoguVerif.Model.Trie (T)

/-- the regenerated node as a node of the model -/
def toM : node Int → T
  | .nil => .nil
  | .cons it l m r c iv => .node c (toM l) (toM m) (toM r) it.val iv

/-- every model trie is the image of a regenerated one (keys chosen arbitrarily): "for all `node`" covers all `T` -/
def ofM : T → node Int
  | .nil => .nil
  | .node c l m r v iv => .cons ⟨[], v⟩ (ofM l) (ofM m) (ofM r) c iv

theorem toM_ofM (t : T) : toM (ofM t) = t := by
  induction t with
  | nil => rfl
  | node c l m r v iv ihl ihm ihr => simp only [ofM, toM, ihl, ihm, ihr]

def optOut {β : Type} : Option β → Out β
  | some b => .ok b
  | none => .panic

def Out.map {β γ : Type} (f : β → γ) : Out β → Out γ
  | .ok b => .ok (f b)
  | .panic => .panic
  | .hang => .hang

theorem byteAt_nat (key : Str) (d : Nat) : byteAt key (d : Int) = key[d]? := by
  have h : ¬ ((d : Int) < 0) := by omega
  unfold byteAt
  rw [if_neg h, Int.toNat_natCast]

theorem isNil_toM (x : node Int) : (node.isNil x = true) ↔ toM x = .nil := by
  cases x <;> simp [node.isNil, toM]

/-- `(*node).get`: the returned pointer (through `toM`) and `err != nil` -/
theorem get_tie (n : node Int) (key : Str) (d : Nat) :
    Out.map (fun p => (toM p.1, p.2.isSome)) (node_get n key (d : Int))
      = optOut (Model.Trie.get (toM n) key d) := by
  induction n generalizing d with
  | nil => simp [node_get, toM, Model.Trie.get, optOut, Out.map]
  | cons it l m r c iv ihl ihm ihr =>
    unfold node_get
    simp only [toM, Model.Trie.get, byteAt_nat]
    by_cases h0 : key.length = 0
    · simp [h0, optOut, Out.map, toM]
    · have h0' : ¬ ((key.length : Int) = 0) := by omega
      simp only [h0, h0', if_false]
      cases hk : key[d]? with
      | none => simp [optOut, Out.map]
      | some b =>
        simp only []
        by_cases h1 : b < c
        · simp only [h1, if_true]; exact ihl d
        · simp only [h1, if_false]
          by_cases h2 : b > c
          · simp only [h2, if_true]; exact ihr d
          · simp only [h2, if_false]
            by_cases h3 : d < key.length - 1
            · have h3' : ((d : Int) < (key.length : Int) - 1) := by omega
              simp only [h3, h3', if_true]
              have := ihm (d + 1)
              simpa using this
            · have h3' : ¬ ((d : Int) < (key.length : Int) - 1) := by omega
              simp [h3, h3', optOut, Out.map, toM]

/-- the shape of a tied `put` outcome -/
theorem dup_cases (x : Out (node Int × node Int)) (mo : Option T)
    (h : Out.map (fun p => (toM p.1, toM p.2)) x = optOut (mo.map fun t => (t, t))) :
    (∃ p, x = .ok p ∧ mo = some (toM p.1) ∧ toM p.2 = toM p.1) ∨ (x = .panic ∧ mo = none) := by
  cases x with
  | ok p =>
    cases mo with
    | none => simp [Out.map, optOut] at h
    | some t =>
      simp only [Out.map, optOut, Option.map, Out.ok.injEq, Prod.mk.injEq] at h
      exact Or.inl ⟨p, rfl, by rw [h.1], by rw [h.1, h.2]⟩
  | panic =>
    cases mo with
    | none => exact Or.inr ⟨rfl, rfl⟩
    | some t => simp [Out.map, optOut] at h
  | hang => cases mo <;> simp [Out.map, optOut] at h

/-- `put` on a nil receiver (the translator's specialisation `node_put_nil`) is the model's `putNil` over `key[d:]` -/
theorem put_nil_tie (key : Str) (val : Int) (iv : Bool) (k : Nat) :
    ∀ d : Nat, key.length - d = k →
    Out.map (fun p => (toM p.1, toM p.2)) (node_put_nil key val (d : Int) iv)
      = optOut ((Model.Trie.putNil val iv (key.drop d)).map fun t => (t, t)) := by
  induction k with
  | zero =>
    intro d hk
    have hd : key.length ≤ d := by omega
    rw [node_put_nil]
    simp [byteAt_nat, List.getElem?_eq_none hd, List.drop_eq_nil_of_le hd, Model.Trie.putNil, optOut, Out.map]
  | succ k ih =>
    intro d hk
    have hd : d < key.length := by omega
    rw [node_put_nil]
    simp only [byteAt_nat, List.getElem?_eq_getElem hd]
    rw [List.drop_eq_getElem_cons hd]
    by_cases h3 : d < key.length - 1
    · have h3' : ((d : Int) < (key.length : Int) - 1) := by omega
      have hd1 : d + 1 < key.length := by omega
      simp only [h3', dite_true]
      have ih' := ih (d + 1) (by omega)
      rw [List.drop_eq_getElem_cons hd1] at ih' ⊢
      simp only [Model.Trie.putNil]
      have hc : ((d : Int) + 1) = ((d + 1 : Nat) : Int) := by omega
      rw [hc]
      rcases dup_cases _ _ ih' with ⟨p, hx, hm, hp⟩ | ⟨hx, hm⟩
      · rw [hx]; simp only [Model.Trie.putNil] at hm; simp [hm, Out.bind, Out.map, optOut, toM]
      · rw [hx]; simp only [Model.Trie.putNil] at hm; simp [hm, Out.bind, Out.map, optOut]
    · have h3' : ¬ ((d : Int) < (key.length : Int) - 1) := by omega
      have hn : key.drop (d + 1) = [] := List.drop_eq_nil_of_le (by omega)
      simp [h3', hn, Model.Trie.putNil, Out.map, optOut, toM]

theorem put_nil_eq (key : Str) (val : Int) (d : Int) (iv : Bool) :
    node_put .nil key val d iv = node_put_nil key val d iv := by
  rw [node_put_nil]
  unfold node_put
  cases byteAt key d with
  | none => rfl
  | some c => simp only []; split <;> rfl

/-- `(*node).put`: the returned pointer and the updated receiver (the same node) -/
theorem put_tie (n : node Int) (key : Str) (val : Int) (d : Nat) (iv : Bool) :
    Out.map (fun p => (toM p.1, toM p.2)) (node_put n key val (d : Int) iv)
      = optOut ((Model.Trie.put (toM n) key val d iv).map fun t => (t, t)) := by
  induction n generalizing d with
  | nil =>
    rw [put_nil_eq]
    simpa [toM, Model.Trie.put] using put_nil_tie key val iv (key.length - d) d rfl
  | cons it l m r c vv ihl ihm ihr =>
    unfold node_put
    simp only [toM, Model.Trie.put, byteAt_nat]
    cases hk : key[d]? with
    | none => simp [optOut, Out.map]
    | some b =>
      simp only []
      by_cases h1 : b < c
      · simp only [h1, if_true]
        rcases dup_cases _ _ (ihl d) with ⟨p, hx, hm, hp⟩ | ⟨hx, hm⟩
        · rw [hx]; simp [hm, Out.bind, Out.map, optOut, toM]
        · rw [hx]; simp [hm, Out.bind, Out.map, optOut]
      · simp only [h1, if_false]
        by_cases h2 : b > c
        · simp only [h2, if_true]
          rcases dup_cases _ _ (ihr d) with ⟨p, hx, hm, hp⟩ | ⟨hx, hm⟩
          · rw [hx]; simp [hm, Out.bind, Out.map, optOut, toM]
          · rw [hx]; simp [hm, Out.bind, Out.map, optOut]
        · simp only [h2, if_false]
          by_cases h3 : d < key.length - 1
          · have h3' : ((d : Int) < (key.length : Int) - 1) := by omega
            simp only [h3, h3', if_true]
            have hc : ((d : Int) + 1) = ((d + 1 : Nat) : Int) := by omega
            rw [hc]
            rcases dup_cases _ _ (ihm (d + 1)) with ⟨p, hx, hm, hp⟩ | ⟨hx, hm⟩
            · rw [hx]; simp [hm, Out.bind, Out.map, optOut, toM]
            · rw [hx]; simp [hm, Out.bind, Out.map, optOut]
          · have h3' : ¬ ((d : Int) < (key.length : Int) - 1) := by omega
            simp [h3, h3', optOut, Out.map, toM]

/-- `Trie.Put`: the new root and the new counter (`t.q` is not touched) -/
theorem Put_tie (t : Model.Trie.Trie) (root : node Int) (hr : toM root = t.root) (key : Str) (val : Int) :
    Out.map (fun p => (toM p.1, p.2)) (Trie_Put root t.n key val)
      = optOut ((Model.Trie.Put t key val).map fun t' => (t'.root, t'.n)) := by
  unfold Trie_Put Model.Trie.Put
  have h : Out.map (fun p => (toM p.1, p.2.isSome)) (node_get root key 0)
      = optOut (Model.Trie.get (toM root) key 0) := get_tie root key 0
  have hp : Out.map (fun p => (toM p.1, toM p.2)) (node_put root key val 0 true)
      = optOut ((Model.Trie.put (toM root) key val 0 true).map fun t => (t, t)) := put_tie root key val 0 true
  rw [hr] at h hp
  cases hg : node_get root key (0 : Int) with
  | hang => rw [hg] at h; cases hm : Model.Trie.get t.root key 0 <;> simp [hm, optOut, Out.map] at h
  | panic =>
    rw [hg] at h
    cases hm : Model.Trie.get t.root key 0 with
    | some q => simp [hm, optOut, Out.map] at h
    | none => simp [Out.bind, optOut, Out.map]
  | ok p =>
    rw [hg] at h
    cases hm : Model.Trie.get t.root key 0 with
    | none => simp [hm, optOut, Out.map] at h
    | some q =>
      simp only [hm, optOut, Out.map, Out.ok.injEq] at h
      subst h
      obtain ⟨x, e⟩ := p
      rcases dup_cases _ _ hp with ⟨p, hx, hm2, hp2⟩ | ⟨hx, hm2⟩
      · cases x with
        | nil => simp [Out.bind, toM, node.isNil, optOut, Out.map, hx, hm2, Model.Trie.notFound]
        | cons it l m r c iv =>
          cases e <;> cases iv <;>
            simp [Out.bind, toM, node.isNil, node.isValid_, optOut, Out.map, hx, hm2, Model.Trie.notFound]
      · cases x with
        | nil => simp [Out.bind, toM, node.isNil, optOut, Out.map, hx, hm2, Model.Trie.notFound]
        | cons it l m r c iv =>
          cases e <;> cases iv <;>
            simp [Out.bind, toM, node.isNil, node.isValid_, optOut, Out.map, hx, hm2, Model.Trie.notFound]

/-- `Trie.Get`: value and `ok`; the model's `none` is `(zero value, false)` -/
theorem Get_tie (t : Model.Trie.Trie) (root : node Int) (hr : toM root = t.root) (key : Str) :
    Trie_Get root key = optOut ((Model.Trie.Get t key).map fun r => (r.getD default, r.isSome)) := by
  unfold Trie_Get Model.Trie.Get
  by_cases h0 : key.length = 0
  · simp [h0, optOut]
  · have h0' : ¬ ((key.length : Int) = 0) := by omega
    simp only [h0, h0', if_false]
    have h : Out.map (fun p => (toM p.1, p.2.isSome)) (node_get root key 0)
        = optOut (Model.Trie.get (toM root) key 0) := get_tie root key 0
    rw [hr] at h
    cases hg : node_get root key (0 : Int) with
    | hang => rw [hg] at h; cases hm : Model.Trie.get t.root key 0 <;> simp [hm, optOut, Out.map] at h
    | panic =>
      rw [hg] at h
      cases hm : Model.Trie.get t.root key 0 with
      | some q => simp [hm, optOut, Out.map] at h
      | none => simp [Out.bind, optOut]
    | ok p =>
      rw [hg] at h
      cases hm : Model.Trie.get t.root key 0 with
      | none => simp [hm, optOut, Out.map] at h
      | some q =>
        simp only [hm, optOut, Out.map, Out.ok.injEq] at h
        subst h
        obtain ⟨x, e⟩ := p
        cases x with
        | nil => simp [Out.bind, toM, node.isNil, optOut]
        | cons it l m r c iv =>
          cases e <;> cases iv <;> simp [Out.bind, toM, node.isNil, node.isValid_, optOut]

/-- `Trie.Contains` -/
theorem Contains_tie (t : Model.Trie.Trie) (root : node Int) (hr : toM root = t.root) (key : Str) :
    Trie_Contains root key = optOut (Model.Trie.Contains t key) := by
  unfold Trie_Contains Model.Trie.Contains
  by_cases h0 : key.length = 0
  · simp [h0, optOut]
  · have h0' : ¬ ((key.length : Int) = 0) := by omega
    simp only [h0, h0', if_false, Get_tie t root hr key]
    cases Model.Trie.Get t key <;> simp [optOut, Out.bind]

/-- `Trie.Size` -/
theorem Size_tie (t : Model.Trie.Trie) : Trie_Size (ν := Int) t.n = Out.ok t.n := rfl

/-- `(*node).collect` (over the assumed list contract of `t.q`): never panics, always ends in the nil case's
`ErrorNotFound`, and leaves the model's `collect` in the queue -/
theorem collect_tie (n : node Int) (q : List Str) (pfx : Str) :
    node_collect n q pfx
      = Out.ok (Model.Trie.collect (toM n) pfx q, some "ErrorNotFound", Model.Trie.collect (toM n) pfx q) := by
  induction n generalizing q pfx with
  | nil => simp [node_collect, toM, Model.Trie.collect]
  | cons it l m r c iv ihl ihm ihr =>
    unfold node_collect
    cases iv <;> simp [ihl, ihm, ihr, Out.bind, toM, Model.Trie.collect]

/-- `Trie.Keys` (whatever the queue held before): the returned queue content, `err`, and `t.q` afterwards -/
theorem Keys_tie (t : Model.Trie.Trie) (root : node Int) (hr : toM root = t.root) (q0 : List Str) :
    Trie_Keys q0 root
      = Out.ok ((Model.Trie.Keys t).1.q, (none : Err), (Model.Trie.Keys t).1.q) := by
  simp [Trie_Keys, collect_tie, Out.bind, Model.Trie.Keys, hr]

/-- `Trie.StartsWith`: the returned queue content, `err != nil`, and `t.q` afterwards -/
theorem StartsWith_tie (t : Model.Trie.Trie) (root : node Int) (hr : toM root = t.root) (q0 : List Str) (pfx : Str) :
    Out.map (fun p => (p.1, p.2.1.isSome, p.2.2)) (Trie_StartsWith q0 root pfx)
      = optOut ((Model.Trie.StartsWith t pfx).map fun r => (r.1.q, r.2, r.1.q)) := by
  unfold Trie_StartsWith Model.Trie.StartsWith
  by_cases h0 : pfx.length = 0
  · simp [h0, optOut, Out.map]
  · have h0' : ¬ ((pfx.length : Int) = 0) := by omega
    simp only [h0, h0', if_false]
    have h : Out.map (fun p => (toM p.1, p.2.isSome)) (node_get root pfx 0)
        = optOut (Model.Trie.get (toM root) pfx 0) := get_tie root pfx 0
    rw [hr] at h
    cases hg : node_get root pfx (0 : Int) with
    | hang => rw [hg] at h; cases hm : Model.Trie.get t.root pfx 0 <;> simp [hm, optOut, Out.map] at h
    | panic =>
      rw [hg] at h
      cases hm : Model.Trie.get t.root pfx 0 with
      | some q => simp [hm, optOut, Out.map] at h
      | none => simp [Out.bind, optOut, Out.map]
    | ok p =>
      rw [hg] at h
      cases hm : Model.Trie.get t.root pfx 0 with
      | none => simp [hm, optOut, Out.map] at h
      | some q =>
        simp only [hm, optOut, Out.map, Out.ok.injEq] at h
        subst h
        obtain ⟨x, e⟩ := p
        cases x with
        | nil => simp [Out.bind, toM, node.isNil, optOut, Out.map]
        | cons it l m r c iv =>
          cases e <;> cases iv <;> simp [Out.bind, toM, node.isNil, optOut, Out.map, collect_tie]

end GoguVerif.Theorems.GenTieTrie
