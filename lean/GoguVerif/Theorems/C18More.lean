import GoguVerif.Theorems.C18
import GoguVerif.Theorems.C08
import GoguVerif.Model.FuncsMore
/-!
# C18 — more theorems: `RetryWithDelay` (results, count, termination, spacing), `Before` across time

Models: `Model/FuncsMore.lean` (`retryWithDelay`, `beforeTimed`, `beforeTimedC`), on top of
`Model/Funcs.lean` and `Model/Cache.lean`.
-/
namespace GoguVerif.Theorems.C18More
open GoguVerif Model.Funcs Theorems.C18

/-! ## 1. RetryWithDelay -/

/-- The loop of `RetryWithDelay` reports the same attempt count and error flag, and makes the same
number of callback invocations, as the loop of `Retry` from the same state — whatever the clock,
the waits and the durations. -/
theorem retryDelayLoop_results (script : List Bool) (waits durs : Nat → Int)
    (fuel a : Nat) (le : Bool) (now : Int) :
    ((retryDelayLoop script waits durs fuel a le a now).attempts,
     (retryDelayLoop script waits durs fuel a le a now).err,
     (retryDelayLoop script waits durs fuel a le a now).calls) = retryLoop script fuel a le := by
  induction fuel generalizing a le now with
  | zero => rfl
  | succ fuel ih =>
    simp only [retryDelayLoop, retryLoop]
    split
    · exact ih (a + 1) true _
    · rfl

/-- Its (start, end) list is the existing `retryDelayTimes` — now with `fuel` tied to the loop. -/
theorem retryDelayLoop_times (script : List Bool) (waits durs : Nat → Int)
    (fuel a : Nat) (le : Bool) (now : Int) :
    (retryDelayLoop script waits durs fuel a le a now).times =
      retryDelayTimes script waits durs fuel a now := by
  induction fuel generalizing a le now with
  | zero => rfl
  | succ fuel ih =>
    simp only [retryDelayLoop, retryDelayTimes]
    split
    · simp only [ih (a + 1) true]
    · rfl

/-- one (start, end) pair per invocation -/
theorem retryDelayLoop_times_length (script : List Bool) (waits durs : Nat → Int)
    (fuel a c : Nat) (le : Bool) (now : Int) :
    c + (retryDelayLoop script waits durs fuel a le c now).times.length =
      (retryDelayLoop script waits durs fuel a le c now).calls := by
  induction fuel generalizing a c le now with
  | zero => rfl
  | succ fuel ih =>
    simp only [retryDelayLoop]
    split
    · have := ih (a + 1) (c + 1) true (now + durs c + waits a)
      simp only [List.length_cons]
      omega
    · rfl

/-- **(a)** `RetryWithDelay(n, d, fn)` returns the same (failed attempts, error?) and invokes the
callback the same number of times as the loop of `Retry(n, fn)` on the same outcome script — for
every `n`, every script, every clock behaviour. -/
theorem retryWithDelay_results (n : Int) (script : List Bool) (waits durs : Nat → Int) :
    ((retryWithDelay n script waits durs).attempts, (retryWithDelay n script waits durs).err,
     (retryWithDelay n script waits durs).calls) = retryLoop script n.toNat 0 false :=
  retryDelayLoop_results script waits durs n.toNat 0 false 0

/-- … hence, for `n ≥ 0`, the same as `Retry n` itself. -/
theorem retryWithDelay_eq_retry (n : Int) (hn : 0 ≤ n) (script : List Bool) (waits durs : Nat → Int) :
    ((retryWithDelay n script waits durs).attempts, (retryWithDelay n script waits durs).err,
     (retryWithDelay n script waits durs).calls) = retry n script := by
  rw [retryWithDelay_results]
  have : ¬ n < 0 := by omega
  simp [retry, this]

/-- For `n < 0` the two functions DIFFER in the error: `Retry` rejects a negative `n` with an error,
`RetryWithDelay` has no such check — it returns `(0s, 0, nil)` without calling the callback. -/
theorem retryWithDelay_neg (n : Int) (hn : n < 0) (script : List Bool) (waits durs : Nat → Int) :
    retryWithDelay n script waits durs = ⟨0, 0, false, 0, []⟩ ∧ retry n script = (0, true, 0) := by
  have : n.toNat = 0 := by omega
  simp [retryWithDelay, this, retryDelayLoop, retry, hn]

/-- Closed form (from `retry_spec`): with `k = leadFails script` the index of the first success, if
there is one — `min n (k+1)` invocations, none for `n ≤ 0`; the reported attempt count is the number
of failed invocations; an error is reported iff `n > 0` and no invocation succeeded. -/
theorem retryWithDelay_spec (n : Int) (script : List Bool) (waits durs : Nat → Int) :
    ((retryWithDelay n script waits durs).attempts, (retryWithDelay n script waits durs).err,
     (retryWithDelay n script waits durs).calls) =
      if leadFails script < script.length ∧ leadFails script < n.toNat then
        (leadFails script, false, leadFails script + 1)
      else (n.toNat, decide (n.toNat ≠ 0), n.toNat) := by
  by_cases hn : 0 ≤ n
  · rw [retryWithDelay_eq_retry n hn, retry_spec]
    have : ¬ n < 0 := by omega
    simp [this]
  · have h0 : n.toNat = 0 := by omega
    rw [(retryWithDelay_neg n (by omega) script waits durs).1]
    simp [h0]

/-- never more than `n` invocations; no failed attempt is reported that was not made -/
theorem retryWithDelay_calls_le (n : Int) (script : List Bool) (waits durs : Nat → Int) :
    (retryWithDelay n script waits durs).calls ≤ n.toNat ∧
    (retryWithDelay n script waits durs).attempts ≤ (retryWithDelay n script waits durs).calls := by
  have h := retryWithDelay_spec n script waits durs
  split at h <;> simp only [Prod.mk.injEq] at h <;> omega

/-- no invocation at all for `n ≤ 0` (and nothing waited for) -/
theorem retryWithDelay_nonpos (n : Int) (hn : n ≤ 0) (script : List Bool) (waits durs : Nat → Int) :
    retryWithDelay n script waits durs = ⟨0, 0, false, 0, []⟩ := by
  have : n.toNat = 0 := by omega
  simp [retryWithDelay, this, retryDelayLoop]

/-- It stops at the first success: every invocation but the last one failed; when no error is
reported (and `n > 0`) the last invocation succeeded and `attempts` counts the ones before it; when
an error is reported all `n` invocations were made and all failed. -/
theorem retryWithDelay_stops (n : Int) (script : List Bool) (waits durs : Nat → Int) :
    let r := retryWithDelay n script waits durs
    (∀ i, i + 1 < r.calls → fails script i = true) ∧
    (r.err = false → 0 < n → r.calls = r.attempts + 1 ∧ fails script r.attempts = false) ∧
    (r.err = true → r.calls = n.toNat ∧ r.attempts = n.toNat ∧ ∀ i, i < r.calls → fails script i = true) := by
  intro r
  have h : (r.attempts, r.err, r.calls) = _ := retryWithDelay_spec n script waits durs
  have hle : leadFails script ≤ script.length := (List.takeWhile_sublist _).length_le
  split at h
  · rename_i hc
    simp only [Prod.mk.injEq] at h
    obtain ⟨h1, h2, h3⟩ := h
    refine ⟨fun i hi => fails_lt_leadFails script i ?_, fun _ _ => ⟨?_, ?_⟩, fun he => ?_⟩
    · show i < leadFails script
      have : i + 1 < r.calls := hi
      omega
    · show r.calls = r.attempts + 1; omega
    · show fails script r.attempts = false
      rw [h1]; exact fails_at_leadFails script hc.1
    · have : r.err = false := h2
      rw [this] at he; cases he
  · rename_i hc
    simp only [Prod.mk.injEq] at h
    obtain ⟨h1, h2, h3⟩ := h
    have hall : ∀ i, i < n.toNat → fails script i = true := by
      intro i hi
      by_cases hs : leadFails script < script.length
      · exact fails_lt_leadFails script i (by omega)
      · by_cases hi2 : i < leadFails script
        · exact fails_lt_leadFails script i hi2
        · exact fails_past script i (by omega)
    refine ⟨fun i hi => hall i ?_, fun he hn => ?_, fun _ => ⟨h3, h1, fun i hi => hall i ?_⟩⟩
    · have : i + 1 < r.calls := hi
      omega
    · have : r.err = decide (n.toNat ≠ 0) := h2
      rw [he] at this
      have : n.toNat = 0 := by simpa using this.symm
      omega
    · have : i < r.calls := hi
      omega

/-- one (start, end) pair per invocation -/
theorem retryWithDelay_times_length (n : Int) (script : List Bool) (waits durs : Nat → Int) :
    (retryWithDelay n script waits durs).times.length = (retryWithDelay n script waits durs).calls := by
  have := retryDelayLoop_times_length script waits durs n.toNat 0 0 false 0
  simpa [retryWithDelay] using this

/-- the (start, end) list is the existing `retryDelayTimes`, its `fuel` now being `n` -/
theorem retryWithDelay_times (n : Int) (script : List Bool) (waits durs : Nat → Int) :
    (retryWithDelay n script waits durs).times = retryDelayTimes script waits durs n.toNat 0 0 :=
  retryDelayLoop_times script waits durs n.toNat 0 false 0

/-- `gapped`, index by index -/
theorem gapped_index (d : Int) (l : List (Int × Int)) (h : Spec.C18.gapped d l = true)
    (i : Nat) (a b : Int × Int) (ha : l[i]? = some a) (hb : l[i + 1]? = some b) : b.1 ≥ a.2 + d := by
  induction l generalizing i with
  | nil => simp at ha
  | cons x r ih =>
    cases r with
    | nil => simp at hb
    | cons y r =>
      simp only [Spec.C18.gapped, Bool.and_eq_true, decide_eq_true_eq] at h
      cases i with
      | zero =>
        simp only [List.getElem?_cons_zero, List.getElem?_cons_succ, Option.some.injEq] at ha hb
        subst ha; subst hb; exact h.1
      | succ i =>
        exact ih h.2 i (by simpa using ha) (by simpa using hb)

/-- attempts that do not end before they start: `gapped` gives `spaced` starts -/
theorem spaced_of_gapped (d : Int) (l : List (Int × Int)) (h : Spec.C18.gapped d l = true)
    (hd : ∀ p ∈ l, p.1 ≤ p.2) : Spec.C18.spaced d (l.map (·.1)) = true := by
  induction l with
  | nil => rfl
  | cons x r ih =>
    cases r with
    | nil => rfl
    | cons y r =>
      simp only [Spec.C18.gapped, Bool.and_eq_true, decide_eq_true_eq] at h
      simp only [List.map_cons, Spec.C18.spaced, Bool.and_eq_true, decide_eq_true_eq]
      refine ⟨?_, by simpa using ih h.2 (fun p hp => hd p (List.mem_cons_of_mem _ hp))⟩
      have := hd x (by simp)
      omega

theorem retryDelayTimes_le (script : List Bool) (waits durs : Nat → Int) (hd : ∀ i, 0 ≤ durs i)
    (fuel a : Nat) (now : Int) : ∀ p ∈ retryDelayTimes script waits durs fuel a now, p.1 ≤ p.2 := by
  induction fuel generalizing a now with
  | zero => intro p hp; simp [retryDelayTimes] at hp
  | succ fuel ih =>
    intro p hp
    simp only [retryDelayTimes] at hp
    have := hd a
    split at hp
    · rcases List.mem_cons.mp hp with rfl | hp
      · show now ≤ now + durs a; omega
      · exact ih _ _ p hp
    · rcases List.mem_cons.mp hp with rfl | hp
      · show now ≤ now + durs a; omega
      · simp at hp

/-- **(b)** every attempt starts at least `d` after the END of the previous one, provided the timer
never fires early (`waits i ≥ d`) — whatever the attempts' own durations. -/
theorem retryWithDelay_gapped (n : Int) (script : List Bool) (waits durs : Nat → Int) (d : Int)
    (hw : ∀ i, waits i ≥ d) :
    Spec.C18.gapped d (retryWithDelay n script waits durs).times = true := by
  rw [retryWithDelay_times]; exact retryDelay_gapped script waits durs d hw _ _ _

/-- the same, index by index -/
theorem retryWithDelay_gap (n : Int) (script : List Bool) (waits durs : Nat → Int) (d : Int)
    (hw : ∀ i, waits i ≥ d) (i : Nat) (a b : Int × Int)
    (ha : (retryWithDelay n script waits durs).times[i]? = some a)
    (hb : (retryWithDelay n script waits durs).times[i + 1]? = some b) : b.1 ≥ a.2 + d :=
  gapped_index d _ (retryWithDelay_gapped n script waits durs d hw) i a b ha hb

/-- **(b)** hence (attempts take time `≥ 0`) the START times of consecutive attempts — which are also
the durations handed to the callback — are at least `d` apart. -/
theorem retryWithDelay_spaced (n : Int) (script : List Bool) (waits durs : Nat → Int) (d : Int)
    (hw : ∀ i, waits i ≥ d) (hd : ∀ i, 0 ≤ durs i) :
    Spec.C18.spaced d ((retryWithDelay n script waits durs).times.map (·.1)) = true := by
  refine spaced_of_gapped d _ (retryWithDelay_gapped n script waits durs d hw) ?_
  rw [retryWithDelay_times]; exact retryDelayTimes_le script waits durs hd _ _ _

/-- with instantaneous attempts the start times are the existing `retryDelayStamps` with `fuel = n`;
so `retryDelay_spaced` speaks about exactly the invocations `RetryWithDelay n` makes … -/
theorem retryWithDelay_stamps (n : Int) (script : List Bool) (waits : Nat → Int) :
    (retryWithDelay n script waits (fun _ => 0)).times.map (·.1) =
      retryDelayStamps script waits n.toNat 0 0 := by
  rw [retryWithDelay_times, retryDelayTimes_instant]

/-- … and there are as many stamps as `Retry n` makes invocations (`n ≥ 0`). -/
theorem retryDelayStamps_length (n : Int) (hn : 0 ≤ n) (script : List Bool) (waits : Nat → Int) :
    (retryDelayStamps script waits n.toNat 0 0).length = (retry n script).2.2 := by
  rw [← retryWithDelay_stamps, List.length_map, retryWithDelay_times_length,
    ← retryWithDelay_eq_retry n hn script waits (fun _ => 0)]

/-- the reported duration: at least `d` for every failed attempt (attempts take time `≥ 0`) -/
theorem retryDelayLoop_elapsed (script : List Bool) (waits durs : Nat → Int) (d : Int)
    (hw : ∀ i, waits i ≥ d) (hd : ∀ i, 0 ≤ durs i) (fuel a c : Nat) (le : Bool) (now : Int) :
    (retryDelayLoop script waits durs fuel a le c now).elapsed ≥
      now + (((retryDelayLoop script waits durs fuel a le c now).attempts : Int) - a) * d := by
  induction fuel generalizing a c le now with
  | zero => simp [retryDelayLoop]
  | succ fuel ih =>
    simp only [retryDelayLoop]
    split
    · have := ih (a + 1) (c + 1) true (now + durs c + waits a)
      have h1 := hw a
      have h2 := hd c
      generalize (retryDelayLoop script waits durs fuel (a + 1) true (c + 1) (now + durs c + waits a)).attempts = k at this ⊢
      generalize (retryDelayLoop script waits durs fuel (a + 1) true (c + 1) (now + durs c + waits a)).elapsed = el at this ⊢
      have e : ((k : Int) - a) * d = ((k : Int) - ((a + 1 : Nat) : Int)) * d + d := by
        rw [Int.sub_mul, Int.sub_mul]; push_cast; rw [Int.add_mul]; omega
      rw [e]; omega
    · have := hd c
      simp; omega

theorem retryWithDelay_elapsed (n : Int) (script : List Bool) (waits durs : Nat → Int) (d : Int)
    (hw : ∀ i, waits i ≥ d) (hd : ∀ i, 0 ≤ durs i) :
    (retryWithDelay n script waits durs).elapsed ≥ (retryWithDelay n script waits durs).attempts * d := by
  have := retryDelayLoop_elapsed script waits durs d hw hd n.toNat 0 0 false 0
  simpa [retryWithDelay] using this

/-- concrete instance: 2 failures then a success, `d = 10`, waits 10 and 12, attempts take 1, 2, 3 -/
example : retryWithDelay 5 [true, true, false, true] (fun i => 10 + 2 * i) (fun i => 1 + i) =
    ⟨28, 2, false, 3, [(0, 1), (11, 13), (25, 28)]⟩ := by decide
example : retryWithDelay 2 [true, true, false] (fun _ => 10) (fun _ => 0) =
    ⟨20, 2, true, 2, [(0, 0), (10, 10)]⟩ := by decide
example : retryWithDelay (-3) [false] (fun _ => 10) (fun _ => 0) = ⟨0, 0, false, 0, []⟩ ∧
    retry (-3) [false] = (0, true, 0) := by decide
/-- the hypotheses of `retryWithDelay_spaced` / `_gapped` / `_elapsed` hold in the first instance -/
example : (∀ i : Nat, (10 : Int) + 2 * i ≥ 10) ∧ (∀ i : Nat, (0 : Int) ≤ 1 + i) :=
  ⟨fun i => by omega, fun i => by omega⟩
example : Spec.C18.gapped 10 (retryWithDelay 5 [true, true, false, true] (fun i => 10 + 2 * i) (fun i => 1 + i)).times = true ∧
    Spec.C18.spaced 10 ((retryWithDelay 5 [true, true, false, true] (fun i => 10 + 2 * i) (fun i => 1 + i)).times.map (·.1)) = true := by
  decide

/-! ## 2. Before across time

`Before` stores the result of its `n`-th (last) run at the instant `tn` of that call with the cache's
default lifetime `e` (`cellSet e tn none v = some (v, defaultExp e tn)`), and never stores again.
Later calls only `Get`: they return the stored result while the entry is live and the ZERO VALUE once
it has expired — in neither case is the callback run again (unlike `Once`, which re-runs it). -/

/-- is the entry stored at `tn` with default lifetime `e` live at `t`?  (`e ≤ 0`: never expires;
`tn + e ≤ 0`: the cache treats a non-positive deadline as "never expires"; otherwise until `tn + e`
inclusive) -/
def liveAt (e tn t : Int) : Prop := e ≤ 0 ∨ tn + e ≤ 0 ∨ t ≤ tn + e

instance (e tn t : Int) : Decidable (liveAt e tn t) := by unfold liveAt; exact inferInstance

/-- `Get` on the entry stored at `tn` -/
theorem cellGet_stored (e tn t v : Int) :
    cellGet t (some (v, defaultExp e tn)) = if liveAt e tn t then some v else none := by
  simp only [cellGet, defaultExp, liveAt]
  by_cases he : e > 0
  · by_cases h1 : tn + e > 0
    · by_cases h2 : t > tn + e
      · have : ¬ (e ≤ 0 ∨ tn + e ≤ 0 ∨ t ≤ tn + e) := by omega
        simp [he, h1, h2, this]
      · have : (e ≤ 0 ∨ tn + e ≤ 0 ∨ t ≤ tn + e) := by omega
        simp [he, h1, h2, this]
    · have : (e ≤ 0 ∨ tn + e ≤ 0 ∨ t ≤ tn + e) := by omega
      simp [he, h1, this]
  · have : (e ≤ 0 ∨ tn + e ≤ 0 ∨ t ≤ tn + e) := by omega
    by_cases h0 : e < 0 <;> simp [he, h0, this]

/-- once the counter is `≤ 0`: no run, no store; every call returns what `Get` finds at its instant -/
theorem beforeTimed_post (e : Int) (res : Nat → Int) (s : BSt) (ts : List Int) (h : s.n ≤ 0) :
    beforeTimed e res s ts = ts.map (fun t => (false, (cellGet t s.cell).getD 0)) ∧
    (beforeTimedSt e res s ts).cell = s.cell ∧ (beforeTimedSt e res s ts).runs = s.runs := by
  induction ts generalizing s with
  | nil => exact ⟨rfl, rfl, rfl⟩
  | cons t ts ih =>
    have hc := beforeCall_lt e t res s (by omega)
    have := ih { s with n := s.n - 1 } (by show s.n - 1 ≤ 0; omega)
    simp only [beforeTimed, beforeTimedSt, hc, List.map_cons]
    exact ⟨by rw [this.1], this.2.1, this.2.2⟩

/-- general form: counter `p + 1`, entry absent -/
theorem beforeTimed_pre (e : Int) (res : Nat → Int) (p : Nat) (s : BSt) (ts : List Int) (i : Nat)
    (hn : s.n = (p : Int) + 1) (hc : s.cell = none) (hi : i < ts.length) :
    (beforeTimed e res s ts)[i]? = some (
      if i < p + 1 then (true, res (s.runs + (i + 1)))
      else (false, (cellGet ((ts[i]?).getD 0)
              (some (res (s.runs + (p + 1)), defaultExp e ((ts[p]?).getD 0)))).getD 0)) := by
  induction ts generalizing s p i with
  | nil => simp at hi
  | cons t ts ih =>
    by_cases hp : s.n - 1 > 0
    · obtain ⟨q, rfl⟩ : ∃ q, p = q + 1 := ⟨p - 1, by omega⟩
      simp only [beforeTimed, beforeCall_gt _ _ _ _ hp]
      cases i with
      | zero => simp
      | succ i =>
        have := ih q { s with n := s.n - 1, runs := s.runs + 1 } i
          (by show s.n - 1 = (q : Int) + 1; rw [hn]; push_cast; omega) hc (by simpa using hi)
        simp only [List.getElem?_cons_succ, this]
        have e1 : s.runs + 1 + (i + 1) = s.runs + (i + 1 + 1) := by omega
        have e2 : s.runs + 1 + (q + 1) = s.runs + (q + 1 + 1) := by omega
        have e3 : (i + 1 < q + 1 + 1) = (i < q + 1) := by simp
        simp only [e1, e2, e3]
    · have h0 : s.n - 1 = 0 := by omega
      have hp0 : p = 0 := by omega
      subst hp0
      simp only [beforeTimed, beforeCall_eq _ _ _ _ h0, hc, cellGet_cellSet_none, Option.getD_some]
      cases i with
      | zero => simp
      | succ i =>
        have hi' : i < ts.length := by simpa using hi
        have := (beforeTimed_post e res
          { n := s.n - 1, cell := cellSet e t none (res (s.runs + 1)), runs := s.runs + 1 } ts
          (by show s.n - 1 ≤ 0; omega)).1
        simp only [List.getElem?_cons_succ, this, List.getElem?_map, List.getElem?_cons_zero,
          Option.getD_some]
        have hne : ¬ (i + 1 < 0 + 1) := by omega
        simp only [hne, if_false, List.getElem?_eq_getElem hi', Option.map_some, Option.getD_some]
        rfl

/-- **Before, the first `n` calls** (`n ≥ 1`, entry `"func"` absent at the start): each of them runs
the callback and returns the result of its own run — at whatever instants the calls happen. -/
theorem before_timed_runs (e n : Int) (res : Nat → Int) (ts : List Int) (i : Nat)
    (hi : i < ts.length) (hin : (i : Int) < n) :
    (beforeTimed e res { n := n } ts)[i]? = some (true, res (i + 1)) := by
  have := beforeTimed_pre e res (n.toNat - 1) { n := n } ts i (by simp; omega) rfl hi
  rw [this]
  have : i < n.toNat - 1 + 1 := by omega
  simp [this]

/-- **Before, after the `n`-th call.**  Let `tn` be the instant of the `n`-th call (the last run) and
`t` the instant of a later call `i + 1 > n`.  That call does not run the callback; it returns the
result of the last run if the entry stored at `tn` with the cache's default lifetime is still live at
`t`, and the zero value otherwise. -/
theorem before_timed_later (e n : Int) (res : Nat → Int) (ts : List Int) (i : Nat) (t tn : Int)
    (hn : 1 ≤ n) (hin : n ≤ (i : Int)) (ht : ts[i]? = some t) (htn : ts[n.toNat - 1]? = some tn) :
    (beforeTimed e res { n := n } ts)[i]? =
      some (false, if liveAt e tn t then res n.toNat else 0) := by
  have hi : i < ts.length := by
    rcases Nat.lt_or_ge i ts.length with h | h
    · exact h
    · rw [List.getElem?_eq_none h] at ht; cases ht
  have := beforeTimed_pre e res (n.toNat - 1) { n := n } ts i (by simp; omega) rfl hi
  have e1 : n.toNat - 1 + 1 = n.toNat := by omega
  have hne : ¬ (i < n.toNat) := by omega
  rw [e1, if_neg hne] at this
  rw [this]
  simp only [ht, htn, Option.getD_some, cellGet_stored, Nat.zero_add]
  split <;> rfl

/-- while the entry is live (`tn ≥ 0`; `e ≤ 0` = it never expires, else up to `tn + e` inclusive):
the result of the last run, no run -/
theorem before_timed_live (e n : Int) (res : Nat → Int) (ts : List Int) (i : Nat) (t tn : Int)
    (hn : 1 ≤ n) (hin : n ≤ (i : Int)) (ht : ts[i]? = some t) (htn : ts[n.toNat - 1]? = some tn)
    (hlive : e ≤ 0 ∨ t ≤ tn + e) :
    (beforeTimed e res { n := n } ts)[i]? = some (false, res n.toNat) := by
  rw [before_timed_later e n res ts i t tn hn hin ht htn]
  have : liveAt e tn t := by unfold liveAt; omega
  simp [this]

/-- after the entry has expired (`e > 0`, `tn ≥ 0`, `t > tn + e`): the zero value, no run -/
theorem before_timed_expired (e n : Int) (res : Nat → Int) (ts : List Int) (i : Nat) (t tn : Int)
    (hn : 1 ≤ n) (hin : n ≤ (i : Int)) (ht : ts[i]? = some t) (htn : ts[n.toNat - 1]? = some tn)
    (he : 0 < e) (htn0 : 0 ≤ tn) (hexp : tn + e < t) :
    (beforeTimed e res { n := n } ts)[i]? = some (false, 0) := by
  rw [before_timed_later e n res ts i t tn hn hin ht htn]
  have : ¬ liveAt e tn t := by unfold liveAt; omega
  simp [this]

/-- with non-decreasing instants, once a call has found the entry expired every later call does too:
the zero value from then on, and the callback is never run again -/
theorem before_timed_expired_forever (e n : Int) (res : Nat → Int) (ts : List Int) (i j : Nat)
    (t tn : Int) (hmono : ts.Pairwise (· ≤ ·))
    (hn : 1 ≤ n) (hin : n ≤ (i : Int)) (ht : ts[i]? = some t) (htn : ts[n.toNat - 1]? = some tn)
    (he : 0 < e) (htn0 : 0 ≤ tn) (hexp : tn + e < t) (hij : i ≤ j) (hj : j < ts.length) :
    (beforeTimed e res { n := n } ts)[j]? = some (false, 0) := by
  have hi : i < ts.length := by omega
  have hti : ts[i] = t := by
    rw [List.getElem?_eq_getElem hi] at ht; exact Option.some.inj ht
  have hle : t ≤ ts[j] := by
    rcases Nat.lt_or_ge i j with h | h
    · rw [← hti]; exact List.pairwise_iff_getElem.mp hmono i j hi hj h
    · have : i = j := by omega
      subst this; omega
  exact before_timed_expired e n res ts j ts[j] tn hn (by omega) (List.getElem?_eq_getElem hj) htn he
    htn0 (by omega)

/-- the state after the calls: exactly `min (#calls) n` runs were made; if at least `n` calls were
made the cell holds the result of the `n`-th run with the deadline computed at the `n`-th call's
instant — it is stored once and never replaced (`Before` calls `Set` only when the counter hits 0) -/
theorem before_timed_state (e n : Int) (res : Nat → Int) (ts : List Int) (tn : Int)
    (hn : 1 ≤ n) (htn : ts[n.toNat - 1]? = some tn) :
    (beforeTimedSt e res { n := n } ts).cell = some (res n.toNat, defaultExp e tn) ∧
    (beforeTimedSt e res { n := n } ts).runs = n.toNat := by
  have gen : ∀ (ts : List Int) (p : Nat) (s : BSt), s.n = (p : Int) + 1 → s.cell = none →
      ts[p]? = some tn →
      (beforeTimedSt e res s ts).cell = some (res (s.runs + (p + 1)), defaultExp e tn) ∧
      (beforeTimedSt e res s ts).runs = s.runs + (p + 1) := by
    intro ts
    induction ts with
    | nil => intro p s _ _ h; simp at h
    | cons t ts ih =>
      intro p s hs hc hp
      by_cases hgt : s.n - 1 > 0
      · obtain ⟨q, rfl⟩ : ∃ q, p = q + 1 := ⟨p - 1, by omega⟩
        simp only [beforeTimedSt, beforeCall_gt _ _ _ _ hgt]
        have := ih q { s with n := s.n - 1, runs := s.runs + 1 }
          (by show s.n - 1 = (q : Int) + 1; rw [hs]; push_cast; omega) hc (by simpa using hp)
        have e2 : s.runs + 1 + (q + 1) = s.runs + (q + 1 + 1) := by omega
        simpa only [e2] using this
      · have h0 : s.n - 1 = 0 := by omega
        have hp0 : p = 0 := by omega
        subst hp0
        have htt : t = tn := by simpa using hp
        subst htt
        simp only [beforeTimedSt, beforeCall_eq _ _ _ _ h0, hc]
        have := beforeTimed_post e res
          { n := s.n - 1, cell := cellSet e t none (res (s.runs + 1)), runs := s.runs + 1 } ts
          (by show s.n - 1 ≤ 0; omega)
        exact ⟨this.2.1, this.2.2⟩
  have := gen ts (n.toNat - 1) { n := n } (by simp; omega) rfl htn
  have e1 : n.toNat - 1 + 1 = n.toNat := by omega
  simpa [e1] using this

/-- `n ≤ 0`: the callback never runs, nothing is ever stored, every call returns the zero value -/
theorem before_timed_nonpos (e n : Int) (res : Nat → Int) (ts : List Int) (hn : n ≤ 0) :
    beforeTimed e res { n := n } ts = ts.map (fun _ => (false, 0)) := by
  rw [(beforeTimed_post e res { n := n } ts hn).1]
  rfl

/-- concrete instance: `n = 2`, lifetime 10; calls at 0, 3 (last run, entry lives until 13), 7, 13
(still live), 14 and 20 (expired: zero value, no run) -/
example : beforeTimed 10 (fun k => 100 + k) { n := 2 } [0, 3, 7, 13, 14, 20] =
    [(true, 101), (true, 102), (false, 102), (false, 102), (false, 0), (false, 0)] := by decide
example : beforeTimedSt 10 (fun k => 100 + k) { n := 2 } [0, 3, 7, 13, 14, 20] =
    { n := -4, cell := some (102, 13), runs := 2 } := by decide
/-- the hypotheses of `before_timed_live` (call 4 at 13) and `before_timed_expired(_forever)` (call 5
at 14) in that instance -/
example : let ts : List Int := [0, 3, 7, 13, 14, 20]
    ts.Pairwise (· ≤ ·) ∧ ts[(2 : Int).toNat - 1]? = some 3 ∧
    (ts[3]? = some 13 ∧ ((10 : Int) ≤ 0 ∨ (13 : Int) ≤ 3 + 10)) ∧
    (ts[4]? = some 14 ∧ (0 : Int) < 10 ∧ (0 : Int) ≤ 3 ∧ (3 : Int) + 10 < 14) := by decide
/-- a never-expiring default (`e = -1`): the last result for ever -/
example : beforeTimed (-1) (fun k => 100 + k) { n := 1 } [5, 1000000] = [(true, 101), (false, 101)] := by
  decide

/-! ### the same against the full cache model (`Model/Cache.lean`) -/

open Model.Cache in
/-- `Get` of the cell = `Cache.get` of the map's entry -/
theorem cellGet_cellOf (now key : Int) (m : Items) :
    cellGet now (cellOf key m) = (Model.Cache.get now m key).map (·.object) := by
  unfold cellOf Model.Cache.get cellGet
  cases lookup key m with
  | none => rfl
  | some it =>
    by_cases h1 : it.expiration > 0 <;> by_cases h2 : now > it.expiration <;> simp [h1, h2]

open Model.Cache in
/-- `Set(…, DefaultExpiration)` of the cell = `Cache.set` on the map, for an accepted value -/
theorem cellOf_set (cfg : Cfg) (now key v : Int) (m : Items) (hacc : rejected cfg v = false) :
    cellOf key (Model.Cache.set cfg now m key v Gen.defaultExpiration).1 =
      cellSet cfg.expTime now (cellOf key m) v := by
  have hexp : expiry cfg now Gen.defaultExpiration = defaultExp cfg.expTime now := by
    simp [expiry, defaultExp, Gen.noExpiration]
  cases hg : Model.Cache.get now m key with
  | none =>
    rw [Theorems.C08.set_ok hg hacc]
    have hs : cellSet cfg.expTime now (cellOf key m) v = some (v, defaultExp cfg.expTime now) := by
      rcases Theorems.C08.get_none_iff.mp hg with h | ⟨it, h, h1, h2⟩
      · simp [cellOf, h, cellSet]
      · have a : ¬ (it.expiration ≤ 0) := by omega
        have b : ¬ (now ≤ it.expiration) := by omega
        simp [cellOf, h, cellSet, a, b]
    rw [hs]
    simp [cellOf, Lemmas.C08.lookup_assign, hexp]
  | some it =>
    rw [Theorems.C08.set_blocked hg]
    obtain ⟨h, h1⟩ := Theorems.C08.get_some_iff.mp hg
    simp only [cellOf, h, Option.map_some, cellSet]
    have : (decide (it.expiration ≤ 0) || decide (now ≤ it.expiration)) = true := by
      simpa using h1
    rw [if_pos this]

/-- one call of `Before` on the cache model is one call of the cell model on the abstraction
(callback results that the cache accepts: any value for a non-string cache) -/
theorem beforeCallC_sim (cfg : Model.Cache.Cfg) (key now : Int) (res : Nat → Int) (s : BStC)
    (hacc : ∀ k, Model.Cache.rejected cfg (res k) = false) :
    beforeCall cfg.expTime now res (absB key s) =
      (absB key (beforeCallC cfg key now res s).1, (beforeCallC cfg key now res s).2.1,
       (beforeCallC cfg key now res s).2.2) := by
  by_cases h1 : s.n - 1 > 0
  · rw [beforeCall_gt _ _ _ _ (show (absB key s).n - 1 > 0 from h1)]
    simp only [beforeCallC, if_pos h1, absB]
  · by_cases h2 : s.n - 1 = 0
    · rw [beforeCall_eq _ _ _ _ (show (absB key s).n - 1 = 0 from h2)]
      simp only [beforeCallC, if_neg h1, if_pos h2, absB, getVal,
        cellOf_set cfg now key _ _ (hacc _), ← cellGet_cellOf]
    · rw [beforeCall_lt _ _ _ _ (show (absB key s).n - 1 < 0 by show s.n - 1 < 0; omega)]
      simp only [beforeCallC, if_neg h1, if_neg h2, absB, getVal, ← cellGet_cellOf]

theorem beforeTimedC_eq (cfg : Model.Cache.Cfg) (key : Int) (res : Nat → Int) (s : BStC) (ts : List Int)
    (hacc : ∀ k, Model.Cache.rejected cfg (res k) = false) :
    beforeTimedC cfg key res s ts = beforeTimed cfg.expTime res (absB key s) ts := by
  induction ts generalizing s with
  | nil => rfl
  | cons t ts ih =>
    simp only [beforeTimedC, beforeTimed, beforeCallC_sim cfg key t res s hacc, ih]

/-- **Before across time, on the cache model.**  Cache with default lifetime `cfg.expTime`, no entry
under the key at the start (whatever else the map holds), `n ≥ 1`, calls at the instants `ts`:
the first `n` calls run the callback and return its result; a later call at `t` never runs it and
returns the `n`-th result iff the entry stored at `tn` (the instant of the `n`-th call) is live at
`t`, else the zero value. -/
theorem before_timed_cache (cfg : Model.Cache.Cfg) (key n : Int) (res : Nat → Int) (m : Model.Cache.Items)
    (ts : List Int) (i : Nat) (t tn : Int)
    (hacc : ∀ k, Model.Cache.rejected cfg (res k) = false)
    (hfree : Model.Cache.lookup key m = none)
    (hn : 1 ≤ n) (ht : ts[i]? = some t) (htn : ts[n.toNat - 1]? = some tn) :
    (beforeTimedC cfg key res { n := n, items := m } ts)[i]? =
      some (if (i : Int) < n then (true, res (i + 1))
            else (false, if liveAt cfg.expTime tn t then res n.toNat else 0)) := by
  have hi : i < ts.length := by
    rcases Nat.lt_or_ge i ts.length with h | h
    · exact h
    · rw [List.getElem?_eq_none h] at ht; cases ht
  have habs : absB key { n := n, items := m } = { n := n } := by simp [absB, cellOf, hfree]
  rw [beforeTimedC_eq _ _ _ _ _ hacc, habs]
  by_cases h : (i : Int) < n
  · rw [before_timed_runs cfg.expTime n res ts i hi h]; simp [h]
  · rw [before_timed_later cfg.expTime n res ts i t tn hn (by omega) ht htn]; simp [h]

example : beforeTimedC ⟨10, 0, false⟩ 7 (fun k => 100 + k) { n := 2, items := [(1, ⟨5, -1⟩)] }
      [0, 3, 7, 13, 14, 20] =
    [(true, 101), (true, 102), (false, 102), (false, 102), (false, 0), (false, 0)] := by decide
example : (∀ k : Nat, Model.Cache.rejected ⟨10, 0, false⟩ ((fun k : Nat => (100 : Int) + k) k) = false) ∧
    Model.Cache.lookup 7 [(1, (⟨5, -1⟩ : Model.Cache.Item))] = none := ⟨fun _ => rfl, by decide⟩

end GoguVerif.Theorems.C18More
