import GoguVerif.Theorems.C19
import GoguVerif.Lemmas.C19Handles
/-!
# C19 — kept node handles on the POINTER-LEVEL models

A handle is an address.  `Find` in a represented store (`Repr h as xs`) returns the cell `as[i]` where `i` is the first
position of the value (`slist_find_handle`).  The theorems below say what the pointer-level `Delete(handle)`,
`InsertAfter(handle, v)` (and `InsertBefore` for `DList`) do when the handle is **the `i`-th cell of the chain**
(`as[i]? = some a` — whatever values the list holds, duplicates included): they realise exactly the sequence operation
at position `i` (`Spec.C19.AllowedH`), preserve `Repr`, and do not fault.  Each theorem also gives the address list
after the operation in the form "every other kept handle that the specification's bookkeeping `moveIdx` still follows
is again the cell at the position `moveIdx` says", which is what makes the statement composable over a history
(`slist_kept_handle`).

**Excluded situations** (hypothesis `as[i]? = some a` fails; the specification's `moveIdx` answers `none`):
* a handle to the embedded head cell (address 0) after a head-replacing copy (`Unshift`, `Shift`, `Delete` of the first
  element, `DList.InsertBefore` the first element): address 0 is still the FIRST cell, but of another element — the
  handle does not follow its element (`excluded_head_handle_*`);
* a handle to the second cell after `Shift`/`Delete(first)` (its contents were copied into the head; the cell is off the
  chain), and for `SList` a handle to the successor of a deleted middle node (`*prev.next = *head.next` copies it over
  the deleted cell): the cell is off the chain, the methods still accept it because they look the VALUE up
  (`excluded_stale_handle_*`: the answer is `ok` and nothing, or something else, happens).
-/
namespace GoguVerif.Theorems.C19H
open GoguVerif GoguVerif.Model GoguVerif.Spec.C19
open GoguVerif.Theorems.C19 (Clauses.mem_of_idxOf? Clauses.insertAfterH_fresh Clauses.insertBeforeH_fresh
  Clauses.deleteH_fresh Clauses.allowed_eq_next)

/-- a followed position `≥ 1` stays `≥ 1` (a followed handle never becomes a handle to the embedded head) -/
theorem moveIdx_pos {dbl : Bool} {e : Edit} {k j : Nat} (hk : 1 ≤ k) (hm : moveIdx dbl e k = some j) : 1 ≤ j := by
  cases e with
  | none => simp only [moveIdx, Option.some.injEq] at hm; omega
  | ins p => simp only [moveIdx, Option.some.injEq] at hm; split at hm <;> omega
  | del p =>
    simp only [moveIdx] at hm
    split at hm
    · cases hm
    · split at hm
      · simp only [Option.some.injEq] at hm; omega
      · split at hm
        · cases hm
        · split at hm
          · cases hm
          · rename_i h1 h2 h3 h4
            simp only [Option.some.injEq] at hm
            by_cases hp : p = 0
            · have : k ≠ 1 := fun q => h3 ⟨hp, q⟩
              omega
            · omega

/-! ## SList -/
namespace SList
open GoguVerif.Model.SList GoguVerif.Lemmas.C19 GoguVerif.Lemmas.C19.SList GoguVerif.Lemmas.C19H
  GoguVerif.Lemmas.C19H.SList

/-- **Where a handle comes from**: `Find(x)` on a represented store leaves the store as it is and returns the cell at
the first position of `x`. -/
theorem slist_find_handle {h h' : Heap} {as xs} (r : Repr h as xs) {x : Int} {a : Nat}
    (hf : find h x = .ok (h', some a)) : h' = h ∧ ∃ i, xs.idxOf? x = some i ∧ as[i]? = some a := by
  rw [find_repr r x, addrOf_eq_idx r.chain.length_eq] at hf
  simp only [ListRes.ok.injEq, Prod.mk.injEq] at hf
  obtain ⟨rfl, hb⟩ := hf
  refine ⟨rfl, ?_⟩
  cases e : xs.idxOf? x with
  | none => simp [e] at hb
  | some i => exact ⟨i, rfl, by simpa [e] using hb⟩

/-- **`Delete(handle)` where the handle is the `i`-th cell** removes exactly the `i`-th element (refuses, changing
nothing, on a one-element list), keeps the representation, does not fault; every other cell that `moveIdx` follows is
where `moveIdx` says. -/
theorem slist_deleteH_refines {h : Heap} {as xs} {i a : Nat} (r : Repr h as xs) (hi : as[i]? = some a) :
    ∃ h' ans as' xs', delete h (some a) = .ok (h', ans) ∧ Repr h' as' xs' ∧
      AllowedH xs (.deleteH i) ans xs' ∧
      ∀ k b j, as[k]? = some b → moveIdx false (editOfH xs (.deleteH i)) k = some j → as'[j]? = some b := by
  obtain ⟨h', he, hr⟩ := deleteAt_repr r hi
  have hleq := r.chain.length_eq
  have hil : i < as.length := lt_of_get hi
  refine ⟨h', _, _, _, he, hr, ?_, ?_⟩
  · by_cases hl : xs.length > 1 <;> simp [AllowedH, hl]
  · intro k b j hk hm
    simp only [editOfH] at hm
    by_cases hl : xs.length > 1
    · simp only [hl, if_true] at hm
      have := del_tracks_single hk hil hm
      simp only [delAddrs]; rw [if_neg (by omega)]; exact this
    · simp only [hl, if_false, moveIdx, Option.some.injEq] at hm
      subst hm
      simp only [delAddrs]; rw [if_pos (by omega)]; exact hk

/-- **`InsertAfter(handle, v)` where the handle is the `i`-th cell** places `v` right after the `i`-th element. -/
theorem slist_insertAfterH_refines {h : Heap} {as xs} {i a : Nat} (r : Repr h as xs) (hi : as[i]? = some a)
    (v : Int) :
    ∃ h' ans as' xs', insertAfter h (some a) v = .ok (h', ans) ∧ Repr h' as' xs' ∧
      AllowedH xs (.insertAfterH i v) ans xs' ∧
      ∀ k b j, as[k]? = some b → moveIdx false (editOfH xs (.insertAfterH i v)) k = some j → as'[j]? = some b := by
  obtain ⟨h', he, hr⟩ := insertAfterAt_repr r hi v
  have hil : i < as.length := lt_of_get hi
  refine ⟨h', _, _, _, he, hr, by simp [AllowedH], ?_⟩
  intro k b j hk hm
  simp only [editOfH, moveIdx, Option.some.injEq] at hm
  subst hm
  rw [insert_tracks (by omega)]; exact hk

/-- **F40**: a nil handle is refused with an error and nothing changes (any store). -/
theorem slist_nil_handle_refused (h : Heap) (v : Int) :
    delete h none = .ok (h, .err) ∧ insertAfter h none v = .ok (h, .err) := ⟨rfl, rfl⟩

/-- **Every plain operation moves the kept cells as `moveIdx` says**: `slist_step_refines` with the address list made
explicit enough to follow handles — a cell that was the `k`-th (`k ≥ 1`: not the embedded head) and that `moveIdx`
sends to `j` is the `j`-th cell afterwards. -/
theorem slist_step_tracks {h : Heap} {as xs} (r : Repr h as xs) (op : Op) (hs : supported op = true) :
    ∃ h' ans as' xs', step h op = .ok (h', ans) ∧ Repr h' as' xs' ∧ Allowed false xs op ans xs' ∧
      ∀ k b j, 1 ≤ k → as[k]? = some b → moveIdx false (editOf xs op) k = some j → as'[j]? = some b := by
  have hleq := r.chain.length_eq
  cases op with
  | unshift v =>
    obtain ⟨h', he, hr⟩ := unshift_repr' r v
    refine ⟨h', .ok, _, _, by simp [step, he], hr, by simp [Allowed], ?_⟩
    intro k b j hk1 hk hm
    simp only [editOf, moveIdx, Nat.zero_le, if_true, Option.some.injEq] at hm
    subst hm
    have := insert_tracks (l := as) (p := 1) (k := k) (n := h.length) (by have := lt_of_get hk; omega)
    rw [if_pos hk1] at this
    rw [this]; exact hk
  | append v =>
    obtain ⟨h', he, hr⟩ := append_repr' r v
    refine ⟨h', .ok, _, _, by simp [step, he], hr, by simp [Allowed], ?_⟩
    intro k b j _ hk hm
    simp only [editOf, moveIdx, Option.some.injEq] at hm
    subst hm
    rw [List.getElem?_append_left (lt_of_get hk)]; exact hk
  | shift =>
    obtain ⟨h', he, hr⟩ := shift_repr' r
    refine ⟨h', .ok, _, _, by simp [step, he], hr, ?_, ?_⟩
    · by_cases hl : xs.length > 1 <;> simp [Allowed, hl]
    · intro k b j _ hk hm
      simp only [editOf] at hm
      by_cases hl : xs.length > 1
      · simp only [hl, if_true] at hm ⊢
        exact del_tracks_head hk hm
      · simp only [hl, if_false, moveIdx, Option.some.injEq] at hm ⊢
        subst hm; exact hk
  | pop =>
    obtain ⟨h', he, hr⟩ := pop_repr' r
    refine ⟨h', .ok, _, _, by simp [step, he], hr, by simp [Allowed], ?_⟩
    intro k b j _ hk hm
    simp only [editOf] at hm
    by_cases hl : xs.length > 1
    · simp only [hl, if_true] at hm ⊢
      have := del_tracks_single (i := xs.length - 1) hk (by omega) hm
      rw [if_neg (by omega)] at this; exact this
    · simp only [hl, if_false, moveIdx, Option.some.injEq] at hm ⊢
      subst hm; exact hk
  | insertAfter x v =>
    have hf := find_repr r x
    cases e : xs.idxOf? x with
    | none =>
      have hx : x ∉ xs := List.idxOf?_eq_none_iff.mp e
      rw [addrOf_eq_idx hleq, e] at hf
      refine ⟨h, .notFound, as, xs, by simp [step, hf], r, by simp [Allowed, hx], ?_⟩
      intro k b j _ hk hm
      simp only [editOf, e, moveIdx, Option.some.injEq] at hm
      subst hm; exact hk
    | some p =>
      have hx : x ∈ xs := Clauses.mem_of_idxOf? e
      have hsome := addrOf_isSome (x := x) hleq
      rw [addrOf_eq_idx hleq, e] at hf hsome
      simp only [Option.bind_some] at hf hsome
      cases ea : as[p]? with
      | none => simp [ea, hx] at hsome
      | some a =>
        rw [ea] at hf
        obtain ⟨h', ans, as', xs', he, hr, hal, htr⟩ := slist_insertAfterH_refines r ea v
        refine ⟨h', ans, as', xs', by simp [step, hf, he], hr, (Clauses.insertAfterH_fresh e).mpr hal, ?_⟩
        intro k b j _ hk hm
        simp only [editOf, e] at hm
        exact htr k b j hk hm
  | insertBefore x v => simp [supported] at hs
  | delete x =>
    have hf := find_repr r x
    cases e : xs.idxOf? x with
    | none =>
      have hx : x ∉ xs := List.idxOf?_eq_none_iff.mp e
      rw [addrOf_eq_idx hleq, e] at hf
      refine ⟨h, .notFound, as, xs, by simp [step, hf], r, by simp [Allowed, hx], ?_⟩
      intro k b j _ hk hm
      simp only [editOf, e, moveIdx, Option.some.injEq] at hm
      subst hm; exact hk
    | some p =>
      have hx : x ∈ xs := Clauses.mem_of_idxOf? e
      have hsome := addrOf_isSome (x := x) hleq
      rw [addrOf_eq_idx hleq, e] at hf hsome
      simp only [Option.bind_some] at hf hsome
      cases ea : as[p]? with
      | none => simp [ea, hx] at hsome
      | some a =>
        rw [ea] at hf
        obtain ⟨h', ans, as', xs', he, hr, hal, htr⟩ := slist_deleteH_refines r ea
        refine ⟨h', ans, as', xs', by simp [step, hf, he], hr, (Clauses.deleteH_fresh e).mpr hal, ?_⟩
        intro k b j _ hk hm
        simp only [editOf, e] at hm
        exact htr k b j hk hm
  | replace o n =>
    obtain ⟨h', ans, xs', he, hr, hx⟩ := replace_repr r o n
    refine ⟨h', ans, as, xs', by simpa [step] using he, hr, by simpa [Allowed] using hx, ?_⟩
    intro k b j _ hk hm
    simp only [editOf, moveIdx, Option.some.injEq] at hm
    subst hm; exact hk
  | find x =>
    refine ⟨h, .bool (decide (x ∈ xs)), as, xs, ?_, r, by simp [Allowed], ?_⟩
    · simp [step, find_repr r x, addrOf_isSome (x := x) r.chain.length_eq]
    · intro k b j _ hk hm
      simp only [editOf, moveIdx, Option.some.injEq] at hm
      subst hm; exact hk
  | first => simp [supported] at hs
  | last => simp [supported] at hs
  | each =>
    refine ⟨h, .none, as, xs, by simp [step], r, by simp [Allowed], ?_⟩
    intro k b j _ hk hm
    simp only [editOf, moveIdx, Option.some.injEq] at hm
    subst hm; exact hk

/-! ### a handle kept over a whole history -/

/-- plain operations one after the other (answers dropped) -/
def runOps (h : Heap) : List Op → ListRes Heap
  | [] => .ok h
  | op :: ops =>
    match step h op with
    | .ok (h', _) => runOps h' ops
    | .panic => .panic
    | .hang => .hang
    | .stuck => .stuck

/-- the specification's bookkeeping over a history: the sequence evolves by `Spec.C19.next`, the position by `moveIdx` -/
def follow : List Int → List Op → Nat → Option Nat
  | _, [], i => some i
  | xs, op :: ops, i => (moveIdx false (editOf xs op) i).bind (follow (next false xs op).2 ops)

def seqAfter : List Int → List Op → List Int
  | xs, [] => xs
  | xs, op :: ops => seqAfter (next false xs op).2 ops

/-- **A kept handle, all histories.**  The handle `a` is the `i`-th cell (`i ≥ 1`; e.g. it came from `Find`,
`slist_find_handle`) of a represented store; any history `ops` of plain operations follows; the specification's
bookkeeping still follows the element, to position `j` (`follow … = some j`: the cell was never copied from nor
overwritten).  Then the pointer model runs the history without fault, the store represents the specification's
sequence, the handle is the `j`-th cell, and `Delete(handle)` / `InsertAfter(handle, v)` realise exactly the sequence
operations at position `j`, keeping the representation. -/
theorem slist_kept_handle {h : Heap} {as xs} (r : Repr h as xs) (ops : List Op)
    (hs : ∀ op ∈ ops, supported op = true) {i a j : Nat} (hi1 : 1 ≤ i) (hi : as[i]? = some a)
    (hfol : follow xs ops i = some j) :
    ∃ h' as', runOps h ops = .ok h' ∧ Repr h' as' (seqAfter xs ops) ∧ as'[j]? = some a ∧ 1 ≤ j ∧
      (∃ h'' ans as'' xs'', delete h' (some a) = .ok (h'', ans) ∧ Repr h'' as'' xs'' ∧
        AllowedH (seqAfter xs ops) (.deleteH j) ans xs'') ∧
      (∀ v, ∃ h'' ans as'' xs'', insertAfter h' (some a) v = .ok (h'', ans) ∧ Repr h'' as'' xs'' ∧
        AllowedH (seqAfter xs ops) (.insertAfterH j v) ans xs'') := by
  induction ops generalizing h as xs i with
  | nil =>
    simp only [follow, Option.some.injEq] at hfol
    subst hfol
    refine ⟨h, as, rfl, r, hi, hi1, ?_, ?_⟩
    · obtain ⟨h2, ans, as2, xs2, he, hr, hal, _⟩ := slist_deleteH_refines r hi
      exact ⟨h2, ans, as2, xs2, he, hr, hal⟩
    · intro v
      obtain ⟨h2, ans, as2, xs2, he, hr, hal, _⟩ := slist_insertAfterH_refines r hi v
      exact ⟨h2, ans, as2, xs2, he, hr, hal⟩
  | cons op ops ih =>
    simp only [follow] at hfol
    cases hm : moveIdx false (editOf xs op) i with
    | none => simp [hm] at hfol
    | some i' =>
      rw [hm] at hfol
      simp only [Option.bind_some] at hfol
      obtain ⟨h1, ans, as1, xs1, he, hr, hal, htr⟩ := slist_step_tracks r op (hs op (by simp))
      have hxl : xs.length > 1 := by
        have := lt_of_get hi
        have := r.chain.length_eq
        omega
      have hn := Clauses.allowed_eq_next hal (Or.inr hxl)
      have hx1 : xs1 = (next false xs op).2 := by rw [← hn]
      subst hx1
      obtain ⟨h', as', hrun, hrest⟩ := ih hr (fun o ho => hs o (by simp [ho])) (moveIdx_pos hi1 hm)
        (htr i a i' hi1 hi hm) hfol
      exact ⟨h', as', by simp [runOps, he, hrun], hrest⟩

-- non-vacuity: `[1,2,3,4]`, handle to `3` (cell 2, position 2); Unshift, Delete(2), Append, Pop leave it followed
example : follow [1, 2, 3, 4] [.unshift 0, .delete 1, .append 7, .pop, .shift] 2 = some 1 := by decide
example : ∀ op ∈ [Op.unshift 0, .delete 1, .append 7, .pop, .shift], supported op = true := by decide

-- non-vacuity: a represented store with duplicates, a handle to the SECOND `2` (cell 2, position 2)
example : Repr [⟨1, some 1⟩, ⟨2, some 2⟩, ⟨2, some 3⟩, ⟨3, none⟩] [0, 1, 2, 3] [1, 2, 2, 3] :=
  ⟨rfl, by decide, by simp [Chain]⟩
example : ([0, 1, 2, 3] : List Nat)[2]? = some 2 := rfl
-- … on which the pointer model deletes the second `2`'s position (cell 2 takes over cell 3) and inserts after it
example : (do let (h, a) ← delete [⟨1, some 1⟩, ⟨2, some 2⟩, ⟨2, some 3⟩, ⟨3, none⟩] (some 2)
              let (_, vs) ← each h
              pure (a, vs)) = ListRes.ok (.ok, [1, 2, 3]) := by decide
example : (do let (h, a) ← insertAfter [⟨1, some 1⟩, ⟨2, some 2⟩, ⟨2, some 3⟩, ⟨3, none⟩] (some 2) 9
              let (_, vs) ← each h
              pure (a, vs)) = ListRes.ok (.ok, [1, 2, 2, 9, 3]) := by decide

/-! ### the excluded situations really behave differently -/

/-- `[1,2,3]`, handles to `2` (cell 1) and `3` (cell 2).  `Delete(handle 2)` copies cell 2 over cell 1: cell 2 is off
the chain (`moveIdx false (.del 1) 2 = none`).  `InsertAfter(handle 3, 9)` is still ACCEPTED (it looks the value 3 up)
and answers `ok`, but the list does not change — position-wise `[1,3,9]` would be due. -/
theorem excluded_stale_handle_slist :
    (do let h ← append (init 1) 2
        let h ← append h 3
        let (h, _) ← delete h (some 1)
        let (h, ans) ← insertAfter h (some 2) 9
        let (_, vs) ← each h
        pure (ans, vs)) = ListRes.ok (.ok, [1, 3]) ∧ moveIdx false (.del 1) 2 = none := by decide

/-- `[1,2]`, handle to `1` (the embedded head, cell 0).  After `Unshift 0` cell 0 holds the new element `0` and the old
`1` lives in a fresh cell: `Delete(handle)` removes `0`, not `1` (the monitor never follows position 0). -/
theorem excluded_head_handle_slist :
    (do let h ← append (init 1) 2
        let (h, r) ← find h 1
        let h ← unshift h 0
        let (h, ans) ← delete h r
        let (_, vs) ← each h
        pure (r, ans, vs)) = ListRes.ok (some 0, .ok, [1, 2]) := by decide

end SList

/-! ## DList -/
namespace DList
open GoguVerif.Model.DList GoguVerif.Lemmas.C19 GoguVerif.Lemmas.C19.DList GoguVerif.Lemmas.C19H
  GoguVerif.Lemmas.C19H.DList

/-- `Find(x)` on a represented store returns the cell at the first position of `x`. -/
theorem dlist_find_handle {h : Heap} {as xs} (r : Repr h as xs) {x : Int} {a : Nat}
    (hf : find h x = .ok (some a)) : ∃ i, xs.idxOf? x = some i ∧ as[i]? = some a := by
  rw [find_repr r x, addrOf_eq_idx r.chain.length_eq] at hf
  simp only [ListRes.ok.injEq] at hf
  cases e : xs.idxOf? x with
  | none => simp [e] at hf
  | some i => exact ⟨i, rfl, by simpa [e] using hf⟩

theorem find_of_first {h : Heap} {as xs} {i a : Nat} {x : Int} (r : Repr h as xs) (hi : as[i]? = some a)
    (hfirst : xs.idxOf? x = some i) : find h x = .ok (some a) := by
  rw [find_repr r x, addrOf_eq_idx r.chain.length_eq, hfirst]
  simpa using hi

/-- **F40**: a nil handle is refused with an error and nothing changes. -/
theorem dlist_nil_handle_refused {h : Heap} {as xs} (r : Repr h as xs) (v : Int) :
    delete h none = .ok (h, .err) ∧ insertAfter h none v = .ok (h, .err) ∧
      insertBefore h none v = .ok (h, .err) := by
  obtain ⟨as', x, xs', rfl, rfl, h0, hc, hnot, hnd⟩ := r.cons
  exact ⟨rfl, rfl, by simp [insertBefore, load, h0]⟩

/- FULL STATEMENTS (not proved here): as `SList.slist_deleteH_refines` etc., for every position `i` with
   `as[i]? = some a`, without the hypothesis `hfirst`, and with the tracking clause
   `∀ k b j, 1 ≤ k → as[k]? = some b → moveIdx true (editOfH xs hop) k = some j → as'[j]? = some b`. -/

/-- `Delete(handle)` at the `i`-th cell, **partial**: proved when the `i`-th element is the FIRST occurrence of its value
(`hfirst`; always so when the values are pairwise distinct).  Missing: positions holding a repeated value (the
pointer surgery does not read values, so the statement holds there too — it needs position-indexed versions of
`deleteUnlink_chain`), and the explicit address list for following a second handle. -/
theorem dlist_deleteH_refines_partial {h : Heap} {as xs} {i a : Nat} {x : Int} (r : Repr h as xs)
    (hi : as[i]? = some a) (hfirst : xs.idxOf? x = some i) :
    ∃ h' ans as' xs', delete h (some a) = .ok (h', ans) ∧ Repr h' as' xs' ∧ AllowedH xs (.deleteH i) ans xs' := by
  have hf := find_of_first r hi hfirst
  obtain ⟨h', ans, as', xs', he, hr, hx⟩ := delete_repr r x
  refine ⟨h', ans, as', xs', by simpa [step, hf] using he, hr,
    (Clauses.deleteH_fresh (sv := true) hfirst).mp (by simpa [Allowed] using hx)⟩

/-- `InsertAfter(handle, v)` at the `i`-th cell, **partial** (same restriction as `dlist_deleteH_refines_partial`). -/
theorem dlist_insertAfterH_refines_partial {h : Heap} {as xs} {i a : Nat} {x : Int} (r : Repr h as xs)
    (hi : as[i]? = some a) (hfirst : xs.idxOf? x = some i) (v : Int) :
    ∃ h' ans as' xs', insertAfter h (some a) v = .ok (h', ans) ∧ Repr h' as' xs' ∧
      AllowedH xs (.insertAfterH i v) ans xs' := by
  have hf := find_of_first r hi hfirst
  obtain ⟨h', ans, as', xs', he, hr, hx⟩ := insertAfter_repr r x v
  refine ⟨h', ans, as', xs', by simpa [step, hf] using he, hr,
    (Clauses.insertAfterH_fresh (sv := true) hfirst).mp (by simpa [Allowed] using hx)⟩

/-- `InsertBefore(handle, v)` at the `i`-th cell, **partial** (same restriction). -/
theorem dlist_insertBeforeH_refines_partial {h : Heap} {as xs} {i a : Nat} {x : Int} (r : Repr h as xs)
    (hi : as[i]? = some a) (hfirst : xs.idxOf? x = some i) (v : Int) :
    ∃ h' ans as' xs', insertBefore h (some a) v = .ok (h', ans) ∧ Repr h' as' xs' ∧
      AllowedH xs (.insertBeforeH i v) ans xs' := by
  have hf := find_of_first r hi hfirst
  obtain ⟨h', ans, as', xs', he, hr, hx⟩ := insertBefore_repr r x v
  refine ⟨h', ans, as', xs', by simpa [step, hf] using he, hr,
    (Clauses.insertBeforeH_fresh (sv := true) hfirst).mp (by simpa [Allowed] using hx)⟩

/-- `[1,2,3]`, handle to `2` (cell 1).  `Shift` copies cell 1 into the embedded head: cell 1 is off the chain
(`moveIdx true (.del 0) 1 = none`).  `Delete(handle)` is still accepted (the value 2 is found) and answers `ok`, but
re-links the neighbours to what they already were: nothing is removed — position-wise `[3]` would be due. -/
theorem excluded_stale_handle_dlist :
    (do let h ← append (init 1) 2
        let h ← append h 3
        let (h, _) ← shift h
        let (h, ans) ← delete h (some 1)
        let (_, vs) ← each h
        pure (ans, vs)) = ListRes.ok (.ok, [2, 3]) ∧ moveIdx true (.del 0) 1 = none := by decide

-- non-vacuity
example : Repr [⟨1, some 1, none⟩, ⟨2, some 2, some 0⟩, ⟨3, none, some 1⟩] [0, 1, 2] [1, 2, 3] :=
  ⟨rfl, by decide, by simp [Chain]⟩
example : ([1, 2, 3] : List Int).idxOf? 2 = some 1 := by decide

end DList

end GoguVerif.Theorems.C19H
