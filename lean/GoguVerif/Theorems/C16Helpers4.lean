import GoguVerif.Lemmas.C16Helpers4
import GoguVerif.Theorems.C16Helpers3
/-!
# C16 — store-level refinement of concrete helpers, fourth batch

The same as `Theorems/C16Helpers.lean` / `C16Helpers2.lean`, for the helpers written over the slice store in
`Model/StoreHelpers4.lean`.  For each, for ALL stores, all well-formed argument headers (any offset, any
spare capacity, any other slice sharing the array, arguments sharing an array with each other) and all
callbacks:

1. **value refinement** — the elements of the returned header in the new store are the answer of the
   value-level model (`Model/C11.lean` … `Model/C14.lean`), errors and panics included;
2. **frame** — `Frame σ σ'`: every array that existed before the call is unchanged in every cell, spare
   capacity included;
3. **fresh result** — the result is a well-formed header into storage that did not exist before
   (`σ.length ≤ res.arr`); for map results: a map object that did not exist before, every map object that
   existed unchanged;
4. **discipline** — where the helper is `make` + single `append`s / indexed writes, the store function equals
   `run` of an explicit program of `Instr`s, so `Theorems.C16.run_frame` applies.  (`Flatten`/`Union` use the
   variadic `append(acc, v...)`, which is not an `Instr`: for them 1.–3. are proved directly, as for `Merge`.)

Covered (10 helpers): `Flatten`, `Union` (recursion through `[]any`, variadic `append`, `Unique` on the
flattening), `Range`, `RangeRight` (`Range` + `Reverse` in place on the slice made; errors / fuel as in
`Model/C13.lean`), `Keys`, `Values`, `MapCollection` (for EVERY visiting order of the map argument), `Pluck`,
`FindAll`, `SliceToMap` (slice arguments only read, result = a new map object).  `covered4_agree_with_table`
ties the list to the translator's regenerated table.  Not covered: `GroupBy` (a map of slices built by
`append`), `DuplicateWithIndex` (a local map of `make([]int, 2)` slices), the map-to-map helpers.

Assumed, as in `Theorems/C16Helpers.lean`: element type `Int`, callbacks are pure Lean functions, `WF` for
the argument headers, the growth policy of `Store.append`, and that `Model/StoreHelpers4.lean` mirrors the Go
statements (read off the source, not regenerated).
-/
set_option autoImplicit false
namespace GoguVerif.Theorems.C16Helpers4
open GoguVerif Model.Store Model.StoreHelpers Model.StoreHelpers3 Model.StoreHelpers4
open Lemmas.C16Helpers Lemmas.C16Helpers4 Theorems.C16 Theorems.C16Helpers
open Theorems.C16Helpers3

theorem frame_trans {σ σ1 σ2 : Store} (h1 : Frame σ σ1) (hl : σ.length ≤ σ1.length) (h2 : Frame σ1 σ2) :
    Frame σ σ2 := fun a ha => (h2 a (Nat.lt_of_lt_of_le ha hl)).trans (h1 a ha)

/-! ## Flatten -/

/-- **Flatten**, for every nesting of the `any` argument (a `T`, a `[]T` anywhere in the store, `[]any`s of
such, values of other types): the store-level model returns an error exactly when the value-level model
`Model.C12.flatten` does; otherwise the result shows the value-level answer, every array that existed is
unchanged, and the result is a well-formed header into storage that did not exist. -/
theorem flatten_refines (σ : Store) (n : SNested) (h : SNested.WFAll σ n) :
    (Model.C12.flatten (vals12 σ n) = none ∧ flattenStore σ n = .err) ∨
    ∃ σ' res, flattenStore σ n = .ok (σ', res) ∧
      Model.C12.flatten (vals12 σ n) = some (elems σ' res) ∧
      Frame σ σ' ∧ σ.length ≤ res.arr ∧ WF σ' res := by
  have hs := baseFlattenStore_sim12 n _ _ h (Inv.alloc σ 0 0)
  rw [(alloc_spec σ 0 0).2.1] at hs
  simp only [List.replicate_zero] at hs
  unfold Model.C12.flatten flattenStore
  cases ho : Model.C12.baseFlatten [] (vals12 σ n) with
  | none =>
    rw [ho] at hs
    simp only [FlatSim] at hs
    exact Or.inl ⟨rfl, by simp only [hs]⟩
  | some l =>
    rw [ho] at hs
    obtain ⟨σ', acc', e, hinv, he⟩ := hs
    exact Or.inr ⟨σ', acc', by simp only [e], by rw [he], hinv.frame, hinv.fresh, hinv.wf⟩

/-- `Flatten` never panics and never answers anything else: it is `.ok` or `.err` -/
theorem flatten_no_panic (σ : Store) (n : SNested) : flattenStore σ n ≠ .panic := by
  unfold flattenStore
  simp only
  split <;> simp

/-- `[]any{arg0, 7, []any{arg1, other0}}` over `σx`: `arg0 = [1,2,3,4]`, `arg1 = [2,9]`, `other0 = [4,-777]`
share / neighbour arrays; the result is a fresh array, `σx` is a prefix of the new store -/
example : flattenStore σx (.list [.slice arg0, .leaf 7, .list [.slice arg1, .slice other0]]) =
      .ok (σx ++ [[], [1, 2, 3, 4], [1, 2, 3, 4, 7, 2, 9, 4, -777]], { arr := 4, off := 0, len := 9, cap := 9 }) ∧
    flattenStore σx (.list [.slice arg0, .bad]) = .err := by decide

/-- the hypothesis of `flatten_refines` holds of that argument -/
example : SNested.WFAll σx (.list [.slice arg0, .leaf 7, .list [.slice arg1, .slice other0]]) := by
  simp only [SNested.WFAll, SNested.WFList, and_true, true_and]
  exact ⟨wf_arg0, wf_arg1, wf_other0⟩

/-! ## Union -/

/-- **Union**: an error exactly when the value-level model `Model.C11.union` answers `none`; otherwise the
result shows the value-level answer (`Unique` of the flattening); frame (both allocations of `baseFlatten`
and the one of `Unique` are fresh); the result is a well-formed header into storage that did not exist.
`Unique(flatten)` never panics. -/
theorem union_refines (σ : Store) (n : SNested) (h : SNested.WFAll σ n) :
    (Model.C11.union (vals11 σ n) = none ∧ unionStore σ n = .err) ∨
    ∃ σ' res, unionStore σ n = .ok (σ', res) ∧
      Model.C11.union (vals11 σ n) = some (elems σ' res) ∧
      Frame σ σ' ∧ σ.length ≤ res.arr ∧ WF σ' res := by
  have hs := baseFlattenStore_sim11 n _ _ h (Inv.alloc σ 0 0)
  rw [(alloc_spec σ 0 0).2.1] at hs
  simp only [List.replicate_zero] at hs
  unfold Model.C11.union unionStore
  cases ho : Model.C11.baseFlatten [] (vals11 σ n) with
  | none =>
    rw [ho] at hs
    simp only [FlatSim] at hs
    exact Or.inl ⟨rfl, by simp only [hs]⟩
  | some l =>
    rw [ho] at hs
    obtain ⟨σ1, acc1, e, hinv, he⟩ := hs
    obtain ⟨σ', res, u1, u2, u3, u4, u5⟩ := unique_refines σ1 acc1 hinv.wf
    refine Or.inr ⟨σ', res, by simp only [e, u1], by rw [u2, he], frame_trans hinv.frame hinv.len u3,
      Nat.le_trans hinv.len u4, u5⟩

/-- `[]any{arg0, []any{arg1, other0}}`: the union `[1,2,3,4,9,-777]` in a fresh array (arrays 2–4 are
`baseFlatten`'s, 5–8 `Unique`'s) -/
example : unionStore σx (.list [.slice arg0, .list [.slice arg1, .slice other0]]) =
      .ok (σx ++ [[], [1, 2, 3, 4], [1, 2, 3, 4, 2, 9, 4, -777, 0], [], [1], [1, 2, 3], [1, 2, 3, 4, 9, -777, 0]],
        { arr := 8, off := 0, len := 6, cap := 7 }) ∧
    unionStore σx (.list [.slice arg0, .bad]) = .err := by decide

/-! ## Range -/

/-- **Range**, for every variadic slice `args` (any length, anywhere in the store): the store-level model
answers an error / a panic / runs out of fuel exactly when the value-level model `Model.C13.Range` does; a
result shows the value-level answer, every array that existed is unchanged (the argument slice is only read),
and the result is a well-formed header into storage that did not exist. -/
theorem range_refines (σ : Store) (args : Slice) (h : WF σ args) :
    match Model.C13.Range (elems σ args) with
    | .ok l => ∃ σ' res, rangeStore σ args = .ok (σ', res) ∧ elems σ' res = l ∧
        Frame σ σ' ∧ σ.length ≤ res.arr ∧ WF σ' res
    | .err => rangeStore σ args = .err
    | .panic => rangeStore σ args = .panic
    | .hang => rangeStore σ args = .hang := by
  rw [rangeStore_eq σ args h]
  cases Model.C13.Range (elems σ args) with
  | ok l =>
    obtain ⟨g1, g2, g3, g4⟩ := builder_post σ 0 0 l
    exact ⟨_, _, rfl, by rw [g1]; rfl, g2, g3, g4⟩
  | err => rfl
  | panic => rfl
  | hang => rfl

/-- **Range obeys the discipline**: a run that returns a result is `make` + one `append` per element. -/
theorem range_disciplined (σ : Store) (regs : List Slice) (args : Slice) (h : WF σ args) (l : List Int)
    (hl : Model.C13.Range (elems σ args) = .ok l) :
    ∃ σ' res, rangeStore σ args = .ok (σ', res) ∧
      run σ.length { σ := σ, regs := regs } (Instr.alloc 0 0 :: l.map (Instr.append regs.length)) =
        { σ := σ', regs := regs ++ [res] } := by
  refine ⟨_, _, ?_, run_alloc_appends σ regs 0 0 l⟩
  rw [rangeStore_eq σ args h, hl]; rfl

/-- the value-level model never panics and never hangs (C13's `range_terminates`): neither does the
store-level model -/
theorem range_ok_or_err (σ : Store) (args : Slice) (h : WF σ args) :
    rangeStore σ args ≠ .panic ∧ rangeStore σ args ≠ .hang := by
  rw [rangeStore_eq σ args h]
  rcases Theorems.C13.range_terminates (elems σ args) with ⟨hh, hp⟩
  cases ho : Model.C13.Range (elems σ args) with
  | ok l => exact ⟨by simp [liftOut], by simp [liftOut]⟩
  | err => exact ⟨by simp [liftOut], by simp [liftOut]⟩
  | panic => exact absurd ho hp
  | hang => exact absurd ho hh

/-- `Range(arg1...)` with `arg1 = [2, 9]` (array 1 of `σx`, a sentinel behind): `2 … 8` in a fresh array;
`Range(1, 2, 3, 4)` is an error -/
example : rangeStore σx arg1 =
      .ok (σx ++ [[], [2], [2, 3, 4], [2, 3, 4, 5, 6, 7, 8]], { arr := 5, off := 0, len := 7, cap := 7 }) ∧
    rangeStore σx arg0 = .err := by decide

/-! ## RangeRight -/

/-- **RangeRight**: `Range`, then `Reverse` IN PLACE on the slice `Range` made — so still every array that
existed before the call is unchanged and the result is fresh; it shows the value-level answer. -/
theorem rangeRight_refines (σ : Store) (params : Slice) (h : WF σ params) :
    match Model.C13.RangeRight (elems σ params) with
    | .ok l => ∃ σ' res, rangeRightStore σ params = .ok (σ', res) ∧ elems σ' res = l ∧
        Frame σ σ' ∧ σ.length ≤ res.arr ∧ WF σ' res
    | .err => rangeRightStore σ params = .err
    | .panic => rangeRightStore σ params = .panic
    | .hang => rangeRightStore σ params = .hang := by
  unfold rangeRightStore Model.C13.RangeRight
  rw [rangeStore_eq σ params h]
  cases Model.C13.Range (elems σ params) with
  | ok l =>
    have hinv := (Inv.alloc σ 0 0).appendEach l
    obtain ⟨g1, _⟩ := builder_post σ 0 0 l
    simp only [List.replicate_zero, List.nil_append] at g1
    obtain ⟨σ', r1, r2, r3, r4⟩ := reverse_refines _ _ hinv.wf
    have hinv' := hinv.inplace r4
    simp only [liftOut, r1]
    exact ⟨_, _, rfl, by rw [r3, g1], hinv'.frame, hinv'.fresh, hinv'.wf⟩
  | err => rfl
  | panic => rfl
  | hang => rfl

/-- the hypothesis holds of `σx`, `arg1 = [2, 9]`, and the value-level answer there is `8 … 2`: by the theorem
the store-level call returns a fresh slice showing it (`Reverse`'s loop is a well-founded recursion, which
`decide` does not unfold) -/
example : WF σx arg1 ∧ Model.C13.RangeRight (elems σx arg1) = .ok [8, 7, 6, 5, 4, 3, 2] ∧
    ∃ σ' res, rangeRightStore σx arg1 = .ok (σ', res) ∧ elems σ' res = [8, 7, 6, 5, 4, 3, 2] ∧ Frame σx σ' := by
  have hv : Model.C13.RangeRight (elems σx arg1) = .ok [8, 7, 6, 5, 4, 3, 2] := by decide
  have := rangeRight_refines σx arg1 wf_arg1
  rw [hv] at this
  obtain ⟨σ', res, h1, h2, h3, _⟩ := this
  exact ⟨wf_arg1, hv, σ', res, h1, h2, h3⟩

/-! ## Keys, Values, MapCollection: `make([]T, len(m))` + one indexed write per entry of a MAP argument -/

/-- **Keys**, for every visiting order of `range m` (any function whose result is a permutation of the
entries): never panics (`idx` stays below `len(m)`); the result shows the value-level model's answer for that
order — the keys in the order visited, a permutation of the map's keys —; frame; fresh result; the map store is
only read (it is not even returned). -/
theorem keys_refines (order : List (Int × Int) → List (Int × Int)) (σ : Store) (μ : MStore) (m : Nat)
    (ho : (order (mget μ m)).Perm (mget μ m)) :
    ∃ σ' res, keysStoreIn order σ μ m = some (σ', res) ∧
      Model.C14.Keys (order (mget μ m)) = .ok (elems σ' res) ∧
      (elems σ' res).Perm ((mget μ m).map Prod.fst) ∧
      Frame σ σ' ∧ σ.length ≤ res.arr ∧ WF σ' res := by
  obtain ⟨σ', res, h1, h2, h3, _⟩ := mapFillStoreIn_spec (fun k _ => k) order σ μ m ho.length_eq []
  refine ⟨σ', res, h1, by rw [Lemmas.C14.keys_eq, h2], by rw [h2]; exact ho.map _, h3.frame, h3.fresh, h3.wf⟩

/-- **Values**: as `Keys`, for the values. -/
theorem values_refines (order : List (Int × Int) → List (Int × Int)) (σ : Store) (μ : MStore) (m : Nat)
    (ho : (order (mget μ m)).Perm (mget μ m)) :
    ∃ σ' res, valuesStoreIn order σ μ m = some (σ', res) ∧
      Model.C14.Values (order (mget μ m)) = .ok (elems σ' res) ∧
      (elems σ' res).Perm ((mget μ m).map Prod.snd) ∧
      Frame σ σ' ∧ σ.length ≤ res.arr ∧ WF σ' res := by
  obtain ⟨σ', res, h1, h2, h3, _⟩ := mapFillStoreIn_spec (fun _ v => v) order σ μ m ho.length_eq []
  refine ⟨σ', res, h1, by rw [Lemmas.C14.values_eq, h2], by rw [h2]; exact ho.map _, h3.frame, h3.fresh, h3.wf⟩

/-- **MapCollection** (there is no value-level model of it: the answer is stated directly): the result shows
`fn(v)` for every entry in the order visited — a permutation of `fn` applied to the map's values. -/
theorem mapCollection_refines (order : List (Int × Int) → List (Int × Int)) (σ : Store) (μ : MStore) (m : Nat)
    (fn : Int → Int) (ho : (order (mget μ m)).Perm (mget μ m)) :
    ∃ σ' res, mapCollectionStoreIn order σ μ m fn = some (σ', res) ∧
      elems σ' res = (order (mget μ m)).map (fun e => fn e.2) ∧
      (elems σ' res).Perm ((mget μ m).map (fun e => fn e.2)) ∧
      Frame σ σ' ∧ σ.length ≤ res.arr ∧ WF σ' res := by
  obtain ⟨σ', res, h1, h2, h3, _⟩ := mapFillStoreIn_spec (fun _ v => fn v) order σ μ m ho.length_eq []
  exact ⟨σ', res, h1, h2, by rw [h2]; exact ho.map _, h3.frame, h3.fresh, h3.wf⟩

/-- **Keys / Values / MapCollection obey the discipline**: each is `run` of `make([]T, len(m))` + one indexed
write per entry through the register of the slice made (`g(k, v)` = `k`, `v`, `fn(v)`). -/
theorem mapFill_disciplined (g : Int → Int → Int) (order : List (Int × Int) → List (Int × Int)) (σ : Store)
    (regs : List Slice) (μ : MStore) (m : Nat) (ho : (order (mget μ m)).Perm (mget μ m)) :
    ∃ σ' res, mapFillStoreIn g order σ μ m = some (σ', res) ∧
      run σ.length { σ := σ, regs := regs }
        (Instr.alloc (mget μ m).length (mget μ m).length ::
          writesFrom regs.length 0 ((order (mget μ m)).map (fun e => g e.1 e.2))) =
        { σ := σ', regs := regs ++ [res] } := by
  obtain ⟨σ', res, h1, _, _, h4⟩ := mapFillStoreIn_spec g order σ μ m ho.length_eq regs
  exact ⟨σ', res, h1, h4⟩

theorem keys_disciplined (order : List (Int × Int) → List (Int × Int)) (σ : Store) (regs : List Slice)
    (μ : MStore) (m : Nat) (ho : (order (mget μ m)).Perm (mget μ m)) :
    ∃ σ' res, keysStoreIn order σ μ m = some (σ', res) ∧
      run σ.length { σ := σ, regs := regs }
        (Instr.alloc (mget μ m).length (mget μ m).length ::
          writesFrom regs.length 0 ((order (mget μ m)).map (fun e => e.1))) =
        { σ := σ', regs := regs ++ [res] } :=
  mapFill_disciplined (fun k _ => k) order σ regs μ m ho

theorem values_disciplined (order : List (Int × Int) → List (Int × Int)) (σ : Store) (regs : List Slice)
    (μ : MStore) (m : Nat) (ho : (order (mget μ m)).Perm (mget μ m)) :
    ∃ σ' res, valuesStoreIn order σ μ m = some (σ', res) ∧
      run σ.length { σ := σ, regs := regs }
        (Instr.alloc (mget μ m).length (mget μ m).length ::
          writesFrom regs.length 0 ((order (mget μ m)).map (fun e => e.2))) =
        { σ := σ', regs := regs ++ [res] } :=
  mapFill_disciplined (fun _ v => v) order σ regs μ m ho

theorem mapCollection_disciplined (order : List (Int × Int) → List (Int × Int)) (σ : Store) (regs : List Slice)
    (μ : MStore) (m : Nat) (fn : Int → Int) (ho : (order (mget μ m)).Perm (mget μ m)) :
    ∃ σ' res, mapCollectionStoreIn order σ μ m fn = some (σ', res) ∧
      run σ.length { σ := σ, regs := regs }
        (Instr.alloc (mget μ m).length (mget μ m).length ::
          writesFrom regs.length 0 ((order (mget μ m)).map (fun e => fn e.2))) =
        { σ := σ', regs := regs ++ [res] } :=
  mapFill_disciplined (fun _ v => fn v) order σ regs μ m ho

/-- map 1 of `μx` is `{1:10, 2:20, 3:30, 4:40}`; in the representation's order and in the opposite one; the
slice store `σh` keeps its sentinels -/
example : keysStoreIn id σh μx 1 = some (σh ++ [[1, 2, 3, 4]], { arr := 2, off := 0, len := 4, cap := 4 }) ∧
    valuesStoreIn List.reverse σh μx 1 = some (σh ++ [[40, 30, 20, 10]], { arr := 2, off := 0, len := 4, cap := 4 }) ∧
    mapCollectionStoreIn id σh μx 1 (fun v => v + 1) =
      some (σh ++ [[11, 21, 31, 41]], { arr := 2, off := 0, len := 4, cap := 4 }) := by decide

/-- the hypothesis holds of that map and the reversing order -/
example : (List.reverse (mget μx 1)).Perm (mget μx 1) := List.reverse_perm _

/-! ## Pluck -/

theorem pluckStore_eq (σ : Store) (μ : MStore) (mapSlice : List Nat) (key : Int) :
    pluckStore σ μ mapSlice key =
      appendEach (alloc σ 0 0).1 (alloc σ 0 0).2 (Model.C14.Pluck (mapSlice.map (mget μ)) key) := by
  unfold pluckStore Model.C14.Pluck
  exact pluckLoopS_eq μ key mapSlice _ _

/-- **Pluck**, for every list of map objects: the result shows the value-level model's answer; frame; fresh
result; the map store is only read. -/
theorem pluck_refines (σ : Store) (μ : MStore) (mapSlice : List Nat) (key : Int) :
    elems (pluckStore σ μ mapSlice key).1 (pluckStore σ μ mapSlice key).2 =
        Model.C14.Pluck (mapSlice.map (mget μ)) key ∧
      Frame σ (pluckStore σ μ mapSlice key).1 ∧ σ.length ≤ (pluckStore σ μ mapSlice key).2.arr ∧
      WF (pluckStore σ μ mapSlice key).1 (pluckStore σ μ mapSlice key).2 := by
  rw [pluckStore_eq]
  obtain ⟨g1, g2, g3, g4⟩ := builder_post σ 0 0 (Model.C14.Pluck (mapSlice.map (mget μ)) key)
  exact ⟨by rw [g1]; rfl, g2, g3, g4⟩

/-- **Pluck obeys the discipline**: `[]V{}` + one `append` per map that has the key. -/
theorem pluck_disciplined (σ : Store) (regs : List Slice) (μ : MStore) (mapSlice : List Nat) (key : Int) :
    run σ.length { σ := σ, regs := regs }
        (Instr.alloc 0 0 :: (Model.C14.Pluck (mapSlice.map (mget μ)) key).map (Instr.append regs.length)) =
      { σ := (pluckStore σ μ mapSlice key).1, regs := regs ++ [(pluckStore σ μ mapSlice key).2] } := by
  rw [pluckStore_eq]
  exact run_alloc_appends σ regs 0 0 _

/-- key `2` in the maps 1, 0, 2, 1 of `μx`: present in map 1 (`20`) and map 2 (`99`) -/
example : pluckStore σh μx [1, 0, 2, 1] 2 =
    (σh ++ [[], [20], [20, 99, 20]], { arr := 4, off := 0, len := 3, cap := 3 }) := by decide

/-! ## FindAll, SliceToMap: the slice arguments are only read; the result is a map object made by the helper -/

/-- a map object appended to the map store is found under the new id, and every id that existed keeps its
object -/
theorem mstore_push (μ : MStore) (m : List (Int × Int)) :
    mget (μ ++ [m]) μ.length = m ∧ ∀ j, j < μ.length → (μ ++ [m])[j]? = μ[j]? :=
  ⟨by simp [mget], fun _ hj => List.getElem?_append_left hj⟩

/-- **FindAll**: never panics; the slice store is returned AS IT CAME (nothing is written, nothing is
allocated in it); the map store gets exactly one new object — the value-level model's answer — under an id
that did not exist, and every map object that existed is unchanged (`mstore_push`). -/
theorem findAll_refines (σ : Store) (μ : MStore) (s : Slice) (fn : Int → Bool) (h : WF σ s) :
    findAllStore σ μ s fn = some (σ, μ ++ [Model.C13.FindAll (elems σ s) fn], μ.length) := by
  unfold findAllStore Model.C13.FindAll
  rw [findAllLoopS_eq fn h s.len 0 [] (by omega) (fun e he => by cases he), List.drop_zero]

/-- **SliceToMap**: panics exactly when the value-level model does (different lengths); otherwise the slice
store is returned as it came and the map store gets one new object, the value-level model's answer. -/
theorem sliceToMap_refines (σ : Store) (μ : MStore) (s1 s2 : Slice) (h1 : WF σ s1) (h2 : WF σ s2) :
    match Model.C14.SliceToMap (elems σ s1) (elems σ s2) with
    | .ok m => sliceToMapStore σ μ s1 s2 = some (σ, μ ++ [m], μ.length)
    | .panic => sliceToMapStore σ μ s1 s2 = none := by
  unfold Model.C14.SliceToMap sliceToMapStore
  rw [elems_length h1, elems_length h2, sliceToMapLoopS_eq h1 h2]
  by_cases hl : s1.len ≠ s2.len
  · simp only [hl, ne_eq, not_false_eq_true, if_true]
  · simp only [hl, if_false]
    cases Model.C14.sliceToMapLoop (elems σ s1) (elems σ s2) s1.len 0 [] with
    | ok m => rfl
    | panic => rfl

/-- `FindAll(arg0, even)` on `σx`: positions 1 and 3; `SliceToMap(arg1, other0)`: `{2:4, 9:-777}`; different
lengths: panic.  The slice store comes back as it was, the new map is object 3 of the map store. -/
example : findAllStore σx μx arg0 (fun x => x % 2 == 0) = some (σx, μx ++ [[(1, 2), (3, 4)]], 3) ∧
    sliceToMapStore σx μx arg1 other0 = some (σx, μx ++ [[(2, 4), (9, -777)]], 3) ∧
    sliceToMapStore σx μx arg0 arg1 = none := ⟨by decide, by decide, by decide⟩

/-! ## agreement with the regenerated effect table -/

/-- the helpers covered here with what is PROVED about them: (name, parameters written through, parameters
the result may alias) -/
def covered4 : List (String × List Nat × List Nat) :=
  [("Flatten", [], []), ("Union", [], []), ("Range", [], []), ("RangeRight", [], []),
   ("Keys", [], []), ("Values", [], []), ("MapCollection", [], []), ("Pluck", [], []),
   ("FindAll", [], []), ("SliceToMap", [], [])]

/-- OBLIGATION re-checked against the current source on every run: for every helper covered here the
translator's regenerated classification (`Gen.effects`) is the one proved above (no parameter written
through, the result aliases no parameter). -/
theorem covered4_agree_with_table :
    covered4.all (fun c => Gen.effects.any (fun e => e.name == c.1 && e.writes == c.2.1 && e.aliases == c.2.2 &&
      !e.selfAssignOnly)) = true := by decide

end GoguVerif.Theorems.C16Helpers4
