import GoguVerif.Spec.C19
import GoguVerif.Model.SList
import GoguVerif.Model.DList
import GoguVerif.Model.DSeq
import GoguVerif.Lemmas.C19.SListOps
import GoguVerif.Lemmas.C19.DListMid
/-!
# C19 — property theorems (linked lists behave as sequences under every edit)

`Repr store as xs` (`Lemmas/C19/SList.lean`, `Lemmas/C19/DList.lean`): the store holds the
sequence `xs` in the pairwise distinct cells `as`, the first of which is the embedded head
(address 0); cell `as[i]` holds `xs[i]`, its `next` is `as[i+1]?` (and, for `DList`, its `prev` is
`as[i-1]?`).
-/
namespace GoguVerif.Theorems.C19
open GoguVerif GoguVerif.Model GoguVerif.Spec.C19

/-! ## SList -/
namespace SList
open GoguVerif.Model.SList GoguVerif.Lemmas.C19.SList

/-- representation invariant: the store represents *some* sequence -/
def Inv (h : Heap) : Prop := ∃ as xs, Repr h as xs

/-- abstraction function: the sequence `Each` reports -/
def abs (h : Heap) : List Int :=
  match each h with
  | .ok (_, vs) => vs
  | _ => []

theorem abs_eq {h : Heap} {as xs} (r : Repr h as xs) : abs h = xs := by
  simp [abs, each_repr r]

/-- `Init(v)` represents `[v]`. -/
theorem slist_init_repr (v : Int) : Repr (init v) [0] [v] :=
  ⟨rfl, by simp, by simp [Chain, init]⟩

/-- `Each` reports exactly the represented sequence, terminates, and leaves the store as it was
(the head it overwrites while iterating is restored). -/
theorem slist_each_observes {h : Heap} {as xs} (r : Repr h as xs) : each h = .ok (h, xs) :=
  each_repr r

/-- **Every `SList` operation preserves the representation and realises its sequence meaning**
(no panic, no non-termination within `store.length + 1` fuel, no dangling address). -/
theorem slist_step_refines {h : Heap} {as xs} (r : Repr h as xs) (op : Op) (hs : supported op = true) :
    ∃ h' ans as' xs', step h op = .ok (h', ans) ∧ Repr h' as' xs' ∧ Allowed false xs op ans xs' := by
  cases op with
  | unshift v =>
    obtain ⟨h', as', he, hr⟩ := unshift_repr r v
    exact ⟨h', .ok, as', _, by simp [step, he], hr, by simp [Allowed]⟩
  | append v =>
    obtain ⟨h', as', he, hr⟩ := append_repr r v
    exact ⟨h', .ok, as', _, by simp [step, he], hr, by simp [Allowed]⟩
  | shift =>
    obtain ⟨h', as', xs', he, hr, hx⟩ := shift_repr r
    refine ⟨h', .ok, as', xs', by simp [step, he], hr, ?_⟩
    simp only [Allowed, Bool.false_eq_true, if_false, true_and]
    split <;> simp_all
  | pop =>
    obtain ⟨h', as', he, hr⟩ := pop_repr r
    exact ⟨h', .ok, as', _, by simp [step, he], hr, by simp [Allowed]⟩
  | insertAfter x v =>
    obtain ⟨h', ans, as', xs', he, hr, hx⟩ := insertAfter_repr r x v
    exact ⟨h', ans, as', xs', he, hr, by simpa [Allowed] using hx⟩
  | insertBefore x v => simp [supported] at hs
  | delete x =>
    obtain ⟨h', ans, as', xs', he, hr, hx⟩ := delete_repr r x
    exact ⟨h', ans, as', xs', he, hr, by simpa [Allowed] using hx⟩
  | replace o n =>
    obtain ⟨h', ans, xs', he, hr, hx⟩ := replace_repr r o n
    exact ⟨h', ans, as, xs', by simpa [step] using he, hr, by simpa [Allowed] using hx⟩
  | find x =>
    refine ⟨h, .bool (decide (x ∈ xs)), as, xs, ?_, r, by simp [Allowed]⟩
    simp [step, find_repr r x, addrOf_isSome (x := x) r.chain.length_eq]
  | first => simp [supported] at hs
  | last => simp [supported] at hs
  | each => exact ⟨h, .none, as, xs, by simp [step], r, by simp [Allowed]⟩

/-- The same in invariant/abstraction form: `Inv` is preserved and the abstract sequences before and
after the step, together with the answer, are admitted by the specification. -/
theorem slist_step_inv {h : Heap} (hi : Inv h) (op : Op) (hs : supported op = true) :
    ∃ h' ans, step h op = .ok (h', ans) ∧ Inv h' ∧ Allowed false (abs h) op ans (abs h') := by
  obtain ⟨as, xs, r⟩ := hi
  obtain ⟨h', ans, as', xs', he, hr, ha⟩ := slist_step_refines r op hs
  exact ⟨h', ans, he, ⟨as', xs', hr⟩, by rw [abs_eq r, abs_eq hr]; exact ha⟩

/-- Whole histories from any represented store: the run ends normally and every observation
(answer, `Each` sequence after the step) is the one the sequence specification admits. -/
theorem slist_run_from {h : Heap} {as xs} (r : Repr h as xs) (ops : List Op)
    (hs : ∀ op ∈ ops, supported op = true) :
    ∃ obs, run h ops = .ok obs ∧ Holds false xs ops obs := by
  induction ops generalizing h as xs with
  | nil => exact ⟨[], rfl, by simp [Holds]⟩
  | cons op ops ih =>
    obtain ⟨h', ans, as', xs', he, hr, ha⟩ := slist_step_refines r op (hs op (by simp))
    obtain ⟨obs, hrun, hh⟩ := ih hr (fun o ho => hs o (by simp [ho]))
    refine ⟨(ans, xs') :: obs, ?_, ?_⟩
    · simp [run, stepObs, he, each_repr hr, hrun]
    · simp only [Holds]; exact ⟨ha, hh⟩

/-- **C19 for `SList`, all histories**: from `Init(v)`, every sequence of operations runs without
panic, hang or dangling pointer, and all answers and observed sequences are those of the abstract
non-empty sequence. -/
theorem slist_sequence (v : Int) (ops : List Op) (hs : ∀ op ∈ ops, supported op = true) :
    ∃ obs, run (init v) ops = .ok obs ∧ Holds false [v] ops obs :=
  slist_run_from (slist_init_repr v) ops hs

/-- no history panics -/
theorem slist_no_panic (v : Int) (ops : List Op) (hs : ∀ op ∈ ops, supported op = true) :
    run (init v) ops ≠ .panic ∧ run (init v) ops ≠ .hang ∧ run (init v) ops ≠ .stuck := by
  obtain ⟨obs, hr, _⟩ := slist_sequence v ops hs
  simp [hr]

-- non-vacuity: a concrete history exercising head and middle edits, evaluated on the model
example : run (init 1) [.append 2, .unshift 3, .insertAfter 1 4, .delete 3, .delete 4, .pop, .shift] =
    .ok [(.ok, [1, 2]), (.ok, [3, 1, 2]), (.ok, [3, 1, 4, 2]), (.ok, [1, 4, 2]), (.ok, [1, 2]),
         (.ok, [1]), (.ok, [1])] := by decide
example : Repr (init 7) [0] [7] := slist_init_repr 7
example : ∀ op ∈ [Op.append 2, .unshift 3, .delete 3], supported op = true := by decide

end SList

/-! ## DList (with the `relink` repair 823c4f5 and the read-only `Find`/`Last` of bbb5d89) -/
namespace DList
open GoguVerif.Model.DList GoguVerif.Lemmas.C19.DList

/-- representation invariant: the store represents *some* sequence, `prev` pointers included -/
def Inv (h : Heap) : Prop := ∃ as xs, Repr h as xs

/-- abstraction function: the sequence `Each` reports -/
def abs (h : Heap) : List Int :=
  match each h with
  | .ok (_, vs) => vs
  | _ => []

theorem abs_eq {h : Heap} {as xs} (r : Repr h as xs) : abs h = xs := by
  simp [abs, each_repr r]

/-- `InitDList(v)` represents `[v]`. -/
theorem dlist_init_repr (v : Int) : Repr (init v) [0] [v] :=
  ⟨rfl, by simp, by simp [Chain, init]⟩

/-- `Each` reports exactly the represented sequence, terminates, and restores the head it
overwrites while iterating. -/
theorem dlist_each_observes {h : Heap} {as xs} (r : Repr h as xs) : each h = .ok (h, xs) :=
  each_repr r

/-- `relink` turns a chain whose first three `prev` pointers are stale into a represented list
(this is exactly the repair 823c4f5). -/
theorem dlist_relink_repairs {h : Heap} {as xs} (hnd : as.Nodup) (hh : as.head? = some 0)
    (hc : LChain h 3 none as xs) : ∃ h', relink h = .ok h' ∧ Repr h' as xs :=
  relink_chain hnd hh hc

/-- **The operations that only follow `next`** (`Unshift`, `Append`, `Shift`, `Pop`, `First`,
`Last`, `Find`, `Each`, `Replace` — what `LQueue` (C05) and `LStack` (C06) use) preserve the full
representation (`prev` pointers included) and realise their sequence meaning. -/
theorem dlist_next_ops_refine {h : Heap} {as xs} (r : Repr h as xs) (op : Op)
    (hop : match op with
      | .insertAfter _ _ | .insertBefore _ _ | .delete _ => False
      | _ => True) :
    ∃ h' ans as' xs', step h op = .ok (h', ans) ∧ Repr h' as' xs' ∧ Allowed true xs op ans xs' := by
  cases op with
  | unshift v =>
    obtain ⟨h', as', he, hr⟩ := unshift_repr r v
    exact ⟨h', .ok, as', _, by simp [step, he], hr, by simp [Allowed]⟩
  | append v =>
    obtain ⟨h', as', he, hr⟩ := append_repr r v
    exact ⟨h', .ok, as', _, by simp [step, he], hr, by simp [Allowed]⟩
  | shift =>
    obtain ⟨h', n, as', xs', he, hr, hn, hx⟩ := shift_repr r
    refine ⟨h', .val n.val, as', xs', by simp [step, he], hr, ?_⟩
    simp only [Allowed, if_true, hn, true_and]
    split <;> simp_all
  | pop =>
    obtain ⟨h', n, as', he, hr, _⟩ := pop_repr r
    exact ⟨h', .ok, as', _, by simp [step, he], hr, by simp [Allowed]⟩
  | insertAfter x v => exact absurd hop id
  | insertBefore x v => exact absurd hop id
  | delete x => exact absurd hop id
  | replace o n =>
    obtain ⟨h', ans, xs', he, hr, hx⟩ := replace_repr r o n
    exact ⟨h', ans, as, xs', by simpa [step] using he, hr, by simpa [Allowed] using hx⟩
  | find x =>
    refine ⟨h, .bool (decide (x ∈ xs)), as, xs, ?_, r, by simp [Allowed]⟩
    simp [step, find_repr r x, addrOf_isSome (x := x) r.chain.length_eq]
  | first => exact ⟨h, .val (xs.head?.getD 0), as, xs, by simp [step, first_repr r], r, by simp [Allowed]⟩
  | last => exact ⟨h, .val (xs.getLast?.getD 0), as, xs, by simp [step, last_repr r], r, by simp [Allowed]⟩
  | each => exact ⟨h, .none, as, xs, by simp [step], r, by simp [Allowed]⟩

/-- **Every `DList` operation** — the `prev` layer (`InsertAfter`, `InsertBefore`, `Delete`,
`relink`) included — **preserves the representation and realises its sequence meaning** (no panic,
no non-termination within `store.length + 1` fuel, no dangling address). -/
theorem dlist_step_refines {h : Heap} {as xs} (r : Repr h as xs) (op : Op) :
    ∃ h' ans as' xs', step h op = .ok (h', ans) ∧ Repr h' as' xs' ∧ Allowed true xs op ans xs' := by
  cases op with
  | insertAfter x v =>
    obtain ⟨h', ans, as', xs', he, hr, hx⟩ := insertAfter_repr r x v
    exact ⟨h', ans, as', xs', he, hr, by simpa [Allowed] using hx⟩
  | insertBefore x v =>
    obtain ⟨h', ans, as', xs', he, hr, hx⟩ := insertBefore_repr r x v
    exact ⟨h', ans, as', xs', he, hr, by simpa [Allowed] using hx⟩
  | delete x =>
    obtain ⟨h', ans, as', xs', he, hr, hx⟩ := delete_repr r x
    exact ⟨h', ans, as', xs', he, hr, by simpa [Allowed] using hx⟩
  | unshift v => exact dlist_next_ops_refine r _ trivial
  | append v => exact dlist_next_ops_refine r _ trivial
  | shift => exact dlist_next_ops_refine r _ trivial
  | pop => exact dlist_next_ops_refine r _ trivial
  | replace o n => exact dlist_next_ops_refine r _ trivial
  | find x => exact dlist_next_ops_refine r _ trivial
  | first => exact dlist_next_ops_refine r _ trivial
  | last => exact dlist_next_ops_refine r _ trivial
  | each => exact dlist_next_ops_refine r _ trivial

/-- The same in invariant/abstraction form. -/
theorem dlist_step_inv {h : Heap} (hi : Inv h) (op : Op) :
    ∃ h' ans, step h op = .ok (h', ans) ∧ Inv h' ∧ Allowed true (abs h) op ans (abs h') := by
  obtain ⟨as, xs, r⟩ := hi
  obtain ⟨h', ans, as', xs', he, hr, ha⟩ := dlist_step_refines r op
  exact ⟨h', ans, he, ⟨as', xs', hr⟩, by rw [abs_eq r, abs_eq hr]; exact ha⟩

/-- Whole histories from any represented store. -/
theorem dlist_run_from {h : Heap} {as xs} (r : Repr h as xs) (ops : List Op) :
    ∃ obs, run h ops = .ok obs ∧ Holds true xs ops obs := by
  induction ops generalizing h as xs with
  | nil => exact ⟨[], rfl, by simp [Holds]⟩
  | cons op ops ih =>
    obtain ⟨h', ans, as', xs', he, hr, ha⟩ := dlist_step_refines r op
    obtain ⟨obs, hrun, hh⟩ := ih hr
    refine ⟨(ans, xs') :: obs, ?_, ?_⟩
    · simp [run, stepObs, he, each_repr hr, hrun]
    · simp only [Holds]; exact ⟨ha, hh⟩

/-- **C19 for `DList`, all histories**: from `InitDList(v)`, every sequence of operations runs
without panic, hang or dangling pointer, and all answers and observed sequences are those of the
abstract non-empty sequence. -/
theorem dlist_sequence (v : Int) (ops : List Op) :
    ∃ obs, run (init v) ops = .ok obs ∧ Holds true [v] ops obs :=
  dlist_run_from (dlist_init_repr v) ops

/-- no history panics, hangs or follows a dangling pointer -/
theorem dlist_no_panic (v : Int) (ops : List Op) :
    run (init v) ops ≠ .panic ∧ run (init v) ops ≠ .hang ∧ run (init v) ops ≠ .stuck := by
  obtain ⟨obs, hr, _⟩ := dlist_sequence v ops
  simp [hr]

/-- `Clear` leaves a represented one-element list (the first value stays). -/
theorem dlist_clear_repr {h : Heap} {as xs} (r : Repr h as xs) :
    ∃ h', clear h = .ok h' ∧ Repr h' [0] [xs.head?.getD 0] :=
  clear_repr r

/-! ### The sequence-level contract `Model/DSeq.lean` used by the `LQueue` (C05) and `LStack` (C06)
models is what the pointer-level `DList` does -/

/-- Every `DList` method that `LQueue`/`LStack` call realises, on a represented store, exactly the
sequence operation of `Model/DSeq.lean` — including the *value of the node copy* that `Shift` and
`Pop` hand out (`Pop` returns the new last element: the source of the `LStack` findings of C06). -/
theorem dlist_realises_dseq {h : Heap} {as xs} (r : Repr h as xs) :
    (∀ v, ∃ h' as', append h v = .ok h' ∧ Repr h' as' (DSeq.append xs v)) ∧
    (∃ h' n as', shift h = .ok (h', n) ∧ Repr h' as' (DSeq.shift xs).1 ∧ n.val = (DSeq.shift xs).2) ∧
    (∃ h' n as', pop h = .ok (h', n) ∧ Repr h' as' (DSeq.pop xs).1 ∧ n.val = (DSeq.pop xs).2) ∧
    first h = .ok (DSeq.first xs) ∧
    last h = .ok (DSeq.last xs) ∧
    (∀ v, ∃ o, find h v = .ok o ∧ o.isSome = DSeq.find xs v) ∧
    (∃ h', clear h = .ok h' ∧ Repr h' [0] (DSeq.clear xs)) := by
  refine ⟨fun v => append_repr r v, ?_, ?_, first_repr r, last_repr r, ?_, ?_⟩
  · obtain ⟨h', n, as', xs', he, hr, hn, hx⟩ := shift_repr r
    refine ⟨h', n, as', he, ?_, ?_⟩
    · obtain ⟨as1, x, xs1, rfl, rfl, h0, hc, hnot, hnd⟩ := r.cons
      cases xs1 with
      | nil => simp at hx; subst hx; exact hr
      | cons y ys => simp at hx; subst hx; exact hr
    · obtain ⟨as1, x, xs1, rfl, rfl, h0, hc, hnot, hnd⟩ := r.cons
      cases xs1 <;> simpa [DSeq.shift] using hn
  · obtain ⟨h', n, as', he, hr, hn⟩ := pop_repr r
    refine ⟨h', n, as', he, ?_, ?_⟩
    · unfold DSeq.pop
      by_cases hl : xs.length > 1
      · have : ¬ xs.length ≤ 1 := by omega
        simpa [hl, this] using hr
      · have : xs.length ≤ 1 := by omega
        simpa [hl, this] using hr
    · unfold DSeq.pop
      by_cases hl : xs.length > 1
      · have : ¬ xs.length ≤ 1 := by omega
        simp only [hl, if_true] at hn
        simp only [this, if_false]
        exact hn
      · have : xs.length ≤ 1 := by omega
        simp only [hl, if_false] at hn
        simp only [this, if_true]
        exact hn
  · intro v
    exact ⟨_, find_repr r v, by simp [DSeq.find, addrOf_isSome (x := v) r.chain.length_eq]⟩
  · obtain ⟨h', he, hr⟩ := clear_repr r
    refine ⟨h', he, ?_⟩
    obtain ⟨as1, x, xs1, rfl, rfl, h0, hc, hnot, hnd⟩ := r.cons
    simpa [DSeq.clear] using hr

/-! ### Finding F31 (fixed by 823c4f5): why `relink` is needed -/

/-- `Unshift` as it was before 823c4f5: the head is replaced by a copy and nobody re-points the
`prev` pointers of the following nodes. -/
def unshiftOld (h : Heap) (v : Int) : ListRes Heap := do
  let head ← load h 0
  pure ((h ++ [head]).set 0 ⟨v, some h.length, none⟩)

/-- Without `relink` the list is **not** a sequence: `[1,2,3]`, `Unshift 0`, `Delete(Find 2)` loses
the element `1` (witness of F31, evaluated on the model by the kernel; the same history on the
repaired model gives `[0,1,3]`, see `corpus/C19/f31-stale-prev.trace`). -/
theorem f31_unshift_without_relink_loses_element :
    (do let h ← append (init 1) 2
        let h ← append h 3
        let h ← unshiftOld h 0
        let (h, _) ← step h (.delete 2)
        let (_, vs) ← each h
        pure vs) = ListRes.ok [0, 3] := by decide

example :
    (do let h ← append (init 1) 2
        let h ← append h 3
        let h ← unshift h 0
        let (h, _) ← step h (.delete 2)
        let (_, vs) ← each h
        pure vs) = ListRes.ok [0, 1, 3] := by decide

-- non-vacuity: the history of finding F31 (stale prev after a head replacement), on the repaired model
example : run (init 1) [.append 2, .append 3, .unshift 0, .delete 2, .insertBefore 3 9, .shift,
      .insertBefore 1 5, .delete 5, .pop] =
    .ok [(.ok, [1, 2]), (.ok, [1, 2, 3]), (.ok, [0, 1, 2, 3]), (.ok, [0, 1, 3]), (.ok, [0, 1, 9, 3]),
         (.val 0, [1, 9, 3]), (.ok, [5, 1, 9, 3]), (.ok, [1, 9, 3]), (.ok, [1, 9])] := by decide
example : Repr (init 7) [0] [7] := dlist_init_repr 7
-- a store with stale prev pointers (what `Unshift` produces before `relink`) satisfies `LChain … 3`
example : LChain [⟨5, some 2, none⟩, ⟨2, none, some 0⟩, ⟨1, some 1, none⟩] 3 none [0, 2, 1] [5, 1, 2] := by
  simp [LChain]

end DList

/-! ## What the admitted answers mean (clauses of the statement, as facts about the specification) -/
namespace Clauses

/-- The functional successor is admitted … -/
theorem next_allowed (sv : Bool) (xs : List Int) (op : Op) :
    Allowed sv xs op (next sv xs op).1 (next sv xs op).2 := by
  cases op <;> simp only [Allowed, next] <;> (repeat' split) <;> simp_all

/-- … and wherever the specification leaves no choice (anything but `Shift` on a list of one element) it is the
ONLY admitted outcome: judging a quiet operation by `next` is judging it by `Allowed`. -/
theorem allowed_eq_next {sv : Bool} {xs xs' : List Int} {op : Op} {ans : Ans}
    (h : Allowed sv xs op ans xs') (hs : op ≠ .shift ∨ xs.length > 1) :
    (ans, xs') = next sv xs op := by
  cases op <;> simp only [Allowed, next] at * <;> (repeat' split at h) <;> (repeat' split) <;> simp_all

/-- the operations a `fill a n` line stands for -/
def fillOps (a : Int) : Nat → List Op
  | 0 => []
  | n + 1 => .unshift a :: fillOps (a + 1) n

/-- the sequence after a history: the last observed one -/
def finalSeq (xs : List Int) (obs : List (Ans × List Int)) : List Int := (obs.getLast?.map (·.2)).getD xs

/-- `fill a n` is `n` admitted `unshift` steps (all answering `ok`) that end in `fillFront a n xs` -/
theorem fillFront_steps (sv : Bool) (a : Int) (n : Nat) (xs : List Int) :
    ∃ obs, Holds sv xs (fillOps a n) obs ∧ finalSeq xs obs = fillFront a n xs ∧ ∀ o ∈ obs, o.1 = .ok := by
  induction n generalizing a xs with
  | zero => exact ⟨[], by simp [Holds, fillOps], by simp [finalSeq, fillFront], by simp⟩
  | succ n ih =>
    obtain ⟨obs, ho, hl, hk⟩ := ih (a + 1) (a :: xs)
    refine ⟨(.ok, a :: xs) :: obs, ?_, ?_, ?_⟩
    · simp only [fillOps, Holds, Allowed, and_self, true_and]; exact ho
    · cases obs with
      | nil => simpa [finalSeq, fillFront] using hl
      | cons o os =>
        have hne : (o :: os).getLast? = some ((o :: os).getLast (by simp)) := List.getLast?_eq_some_getLast (by simp)
        simp only [finalSeq, fillFront, List.getLast?_cons_cons, hne, Option.map_some, Option.getD_some] at hl ⊢
        exact hl
    · intro o h
      rcases List.mem_cons.mp h with rfl | h
      · rfl
      · exact hk o h

/-! ### kept handles (`Spec.C19.AllowedH`, `moveIdx`)

A handle used right after `Find` designates the first occurrence: there the clauses for kept handles say exactly what
the value-addressed clauses say. -/

theorem mem_of_idxOf? {xs : List Int} {x : Int} {p : Nat} (h : xs.idxOf? x = some p) : x ∈ xs := by
  by_cases hx : x ∈ xs
  · exact hx
  · have := List.idxOf?_eq_none_iff.mpr hx; rw [this] at h; cases h

theorem insertAfterFirst_eq {x v : Int} : ∀ {xs : List Int} {p : Nat}, xs.idxOf? x = some p →
    insertAfterFirst x v xs = xs.take (p + 1) ++ v :: xs.drop (p + 1)
  | [], _, h => by simp at h
  | y :: r, p, h => by
    by_cases hy : y = x
    · subst hy
      have : p = 0 := by simpa [List.idxOf?_cons] using h.symm
      subst this; simp [insertAfterFirst]
    · have hb : (y == x) = false := by simpa using hy
      rw [List.idxOf?_cons] at h
      simp only [hb] at h
      cases hq : r.idxOf? x with
      | none => simp [hq] at h
      | some q =>
        simp [hq] at h; subst h
        simp [insertAfterFirst, hy, insertAfterFirst_eq hq]

theorem insertBeforeFirst_eq {x v : Int} : ∀ {xs : List Int} {p : Nat}, xs.idxOf? x = some p →
    insertBeforeFirst x v xs = xs.take p ++ v :: xs.drop p
  | [], _, h => by simp at h
  | y :: r, p, h => by
    by_cases hy : y = x
    · subst hy
      have : p = 0 := by simpa [List.idxOf?_cons] using h.symm
      subst this; simp [insertBeforeFirst]
    · have hb : (y == x) = false := by simpa using hy
      rw [List.idxOf?_cons] at h
      simp only [hb] at h
      cases hq : r.idxOf? x with
      | none => simp [hq] at h
      | some q =>
        simp [hq] at h; subst h
        simp [insertBeforeFirst, hy, insertBeforeFirst_eq hq]

theorem insertAfterH_fresh {sv : Bool} {xs xs' : List Int} {x v : Int} {p : Nat} {ans : Ans}
    (h : xs.idxOf? x = some p) :
    Allowed sv xs (.insertAfter x v) ans xs' ↔ AllowedH xs (.insertAfterH p v) ans xs' := by
  simp only [Allowed, AllowedH, mem_of_idxOf? h, if_true, insertAfterFirst_eq h]

theorem insertBeforeH_fresh {sv : Bool} {xs xs' : List Int} {x v : Int} {p : Nat} {ans : Ans}
    (h : xs.idxOf? x = some p) :
    Allowed sv xs (.insertBefore x v) ans xs' ↔ AllowedH xs (.insertBeforeH p v) ans xs' := by
  simp only [Allowed, AllowedH, mem_of_idxOf? h, if_true, insertBeforeFirst_eq h]

theorem deleteH_fresh {sv : Bool} {xs xs' : List Int} {x : Int} {p : Nat} {ans : Ans}
    (h : xs.idxOf? x = some p) :
    Allowed sv xs (.delete x) ans xs' ↔ AllowedH xs (.deleteH p) ans xs' := by
  have hx : x ∈ xs := mem_of_idxOf? h
  simp only [Allowed, AllowedH, hx, if_true]
  have : xs.erase x = xs.eraseIdx p := by
    rw [List.erase_eq_eraseIdx]; simp [h]
  rw [this]


/-- the sequence after an edit -/
def applyEdit (v : Int) (xs : List Int) : Edit → List Int
  | .ins p => xs.take p ++ v :: xs.drop p
  | .del p => xs.eraseIdx p
  | .none => xs

/-- the bookkeeping of kept handles follows the ELEMENT: wherever `moveIdx` still designates a position, that position
holds the element the handle designated before the edit -/
theorem moveIdx_follows_element (dbl : Bool) (v : Int) (xs : List Int) (e : Edit) (i j : Nat)
    (_hi : i < xs.length) (hp : ∀ p, e = .ins p → p ≤ xs.length) (h : moveIdx dbl e i = some j) :
    (applyEdit v xs e)[j]? = xs[i]? := by
  cases e with
  | none => simp [moveIdx] at h; subst h; rfl
  | ins p =>
    have hpl := hp p rfl
    simp only [moveIdx, Option.some.injEq] at h
    subst h
    simp only [applyEdit]
    by_cases hpi : p ≤ i
    · simp only [hpi, if_true]
      rw [List.getElem?_append_right (by simp; omega)]
      simp only [List.length_take, Nat.min_eq_left hpl]
      have : i + 1 - p = (i - p) + 1 := by omega
      rw [this, List.getElem?_cons_succ, List.getElem?_drop]
      congr 1; omega
    · simp only [hpi, if_false]
      rw [List.getElem?_append_left (by simp; omega)]
      rw [List.getElem?_take_of_lt (by omega)]
  | del p =>
    simp only [moveIdx] at h
    simp only [applyEdit]
    split at h
    · cases h
    · split at h
      · simp only [Option.some.injEq] at h; subst h
        rw [List.getElem?_eraseIdx_of_lt (by omega)]
      · split at h
        · cases h
        · split at h
          · cases h
          · simp only [Option.some.injEq] at h; subst h
            rw [List.getElem?_eraseIdx_of_ge (by omega)]
            congr 1; omega

theorem insertAfterFirst_sublist (x v : Int) (xs : List Int) : xs.Sublist (insertAfterFirst x v xs) := by
  induction xs with
  | nil => exact List.Sublist.refl _
  | cons y r ih =>
    simp only [insertAfterFirst]
    split
    · exact List.Sublist.cons_cons _ (List.sublist_cons_self _ _)
    · exact List.Sublist.cons_cons _ ih

theorem insertBeforeFirst_sublist (x v : Int) (xs : List Int) : xs.Sublist (insertBeforeFirst x v xs) := by
  induction xs with
  | nil => exact List.Sublist.refl _
  | cons y r ih =>
    simp only [insertBeforeFirst]
    split
    · exact List.sublist_cons_self _ _
    · exact List.Sublist.cons_cons _ ih

theorem insertAfterFirst_length {x v : Int} {xs : List Int} (hx : x ∈ xs) :
    (insertAfterFirst x v xs).length = xs.length + 1 := by
  induction xs with
  | nil => simp at hx
  | cons y r ih =>
    simp only [insertAfterFirst]
    split
    · simp
    · rename_i hy
      have : x ∈ r := by
        simp at hx
        rcases hx with q | q
        · exact absurd q.symm hy
        · exact q
      simp [ih this]

theorem insertBeforeFirst_length {x v : Int} {xs : List Int} (hx : x ∈ xs) :
    (insertBeforeFirst x v xs).length = xs.length + 1 := by
  induction xs with
  | nil => simp at hx
  | cons y r ih =>
    simp only [insertBeforeFirst]
    split
    · simp
    · rename_i hy
      have : x ∈ r := by
        simp at hx
        rcases hx with q | q
        · exact absurd q.symm hy
        · exact q
      simp [ih this]

theorem replaceFirst_length (o n : Int) (xs : List Int) : (replaceFirst o n xs).length = xs.length := by
  induction xs with
  | nil => rfl
  | cons y r ih => simp only [replaceFirst]; split <;> simp [ih]

/-- **No admitted step makes the list empty, and no edit loses, duplicates or reorders the other
elements**: after an insertion the old sequence is a subsequence of the new one which is longer by
exactly the inserted value; after a removal the new sequence is a subsequence of the old one,
shorter by exactly one; `Replace` keeps the length; observers change nothing. -/
theorem allowed_preserves_others {sv : Bool} {xs xs' : List Int} {op : Op} {ans : Ans}
    (hne : xs ≠ []) (ha : Allowed sv xs op ans xs') :
    xs' ≠ [] ∧
    (match op with
     | .unshift _ | .append _ => xs.Sublist xs' ∧ xs'.length = xs.length + 1
     | .insertAfter x _ | .insertBefore x _ =>
        xs.Sublist xs' ∧ xs'.length = xs.length + (if x ∈ xs then 1 else 0)
     | .shift => (xs.length > 1 → xs' = xs.tail) ∧ (xs.length ≤ 1 → xs'.length = 1)
     | .pop => xs' = (if xs.length > 1 then xs.dropLast else xs)
     | .delete x => xs'.Sublist xs ∧
        xs'.length = xs.length - (if x ∈ xs ∧ xs.length > 1 then 1 else 0)
     | .replace _ _ => xs'.length = xs.length
     | .find _ | .first | .last | .each => xs' = xs) := by
  cases op with
  | unshift v =>
    obtain ⟨_, rfl⟩ := ha
    exact ⟨by simp, List.sublist_cons_self _ _, by simp⟩
  | append v =>
    obtain ⟨_, rfl⟩ := ha
    exact ⟨by simp, List.sublist_append_left _ _, by simp⟩
  | shift =>
    simp only [Allowed] at ha
    obtain ⟨_, h2⟩ := ha
    cases xs with
    | nil => exact absurd rfl hne
    | cons x r =>
      cases r with
      | nil =>
        simp at h2
        rcases h2 with rfl | rfl <;> simp
      | cons y r' =>
        simp at h2
        subst h2
        simp
  | pop =>
    obtain ⟨_, rfl⟩ := ha
    refine ⟨?_, rfl⟩
    split
    · rename_i hl
      intro q
      have := congrArg List.length q
      simp at this
      omega
    · exact hne
  | insertAfter x v =>
    simp only [Allowed] at ha
    split at ha
    · rename_i hx
      obtain ⟨_, rfl⟩ := ha
      refine ⟨?_, insertAfterFirst_sublist x v xs, by simp [hx, insertAfterFirst_length hx]⟩
      intro q
      have := insertAfterFirst_length (v := v) hx
      rw [q] at this
      simp at this
    · rename_i hx
      obtain ⟨_, rfl⟩ := ha
      exact ⟨hne, List.Sublist.refl _, by simp [hx]⟩
  | insertBefore x v =>
    simp only [Allowed] at ha
    split at ha
    · rename_i hx
      obtain ⟨_, rfl⟩ := ha
      refine ⟨?_, insertBeforeFirst_sublist x v xs, by simp [hx, insertBeforeFirst_length hx]⟩
      intro q
      have := insertBeforeFirst_length (v := v) hx
      rw [q] at this
      simp at this
    · rename_i hx
      obtain ⟨_, rfl⟩ := ha
      exact ⟨hne, List.Sublist.refl _, by simp [hx]⟩
  | delete x =>
    simp only [Allowed] at ha
    split at ha
    · rename_i hx
      split at ha
      · rename_i hl
        obtain ⟨_, rfl⟩ := ha
        have hlen := List.length_erase_of_mem hx
        refine ⟨?_, List.erase_sublist, by simp [hx, hl, hlen]⟩
        intro q
        rw [q] at hlen
        simp at hlen
        omega
      · rename_i hl
        obtain ⟨_, rfl⟩ := ha
        exact ⟨hne, List.Sublist.refl _, by simp [hl]⟩
    · rename_i hx
      obtain ⟨_, rfl⟩ := ha
      exact ⟨hne, List.Sublist.refl _, by simp [hx]⟩
  | replace o n =>
    simp only [Allowed] at ha
    split at ha
    · obtain ⟨_, rfl⟩ := ha
      refine ⟨?_, replaceFirst_length o n xs⟩
      intro q
      have := replaceFirst_length o n xs
      rw [q] at this
      cases xs <;> simp_all
    · obtain ⟨_, rfl⟩ := ha
      exact ⟨hne, rfl⟩
  | find x => obtain ⟨_, rfl⟩ := ha; exact ⟨hne, rfl⟩
  | first => obtain ⟨_, rfl⟩ := ha; exact ⟨hne, rfl⟩
  | last => obtain ⟨_, rfl⟩ := ha; exact ⟨hne, rfl⟩
  | each => obtain ⟨_, rfl⟩ := ha; exact ⟨hne, rfl⟩

example : Allowed true [1, 2, 3] (.delete 2) .ok [1, 3] := by decide
example : Allowed false [1] .shift .ok [1] ∧ Allowed true [1] .shift (.val 1) [0] := by decide

end Clauses

end GoguVerif.Theorems.C19
