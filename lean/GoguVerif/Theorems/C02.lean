import GoguVerif.Model.Lin
import GoguVerif.Model.Lock
import GoguVerif.Gen.LockTable
import GoguVerif.Spec.C05
import GoguVerif.Spec.C06
import GoguVerif.Theorems.C02Fine
/-!
# C02 — linearizability of single-element container operations

Theorem 1 (generic, any number of threads and calls): in the system where every call takes effect
in ONE atomic step between its invocation and its return, every history is linearizable — the order
of the `lin` events is a legal sequential run producing exactly the returned values and the final
state (`lin_legal`), every returned value is the one produced at the call's `lin` event
(`ret_after_lin`), every `lin` lies after its own invocation (`lin_after_inv`), and hence the
sequential order respects real-time precedence (`real_time_order`).

Table obligation (regenerated from the source on every run): every single-element operation named by
the property is ONE locked section on every path (`lin_table_ok`), except the listed operations whose
last section alone determines effect and result.

Theorem 2 (`Theorems/C02Fine.lean: fine_refines_atomic`, generic): the fine-grained execution of
methods that are ONE locked section each (micro-steps interleaving under the RWMutex admission
rules, read-mode bodies not writing the shared state) is an execution of the atomic system with
the same events; `fine_linearizable` below composes it with Theorem 1, and `queue_fine_linearizable`
instantiates it for a queue whose `Dequeue` body is two separate micro-steps.  What stays assumed:
that the real sections are such bodies (regenerated table + container models), and that race-free
Go programs are sequentially consistent (C01 + Go memory model); the exhaustive interleaving run
of the real code validates it.
-/
namespace GoguVerif.Theorems.C02
open GoguVerif.Model.Lin

variable {σ Op Ret : Type}

theorem legal_snoc {O : Obj σ Op Ret} {s ops s'} (h : Legal O s ops s') (op : Op) :
    Legal O s (ops ++ [(op, (O.step s' op).2)]) (O.step s' op).1 := by
  induction h with
  | nil s => exact Legal.cons (Legal.nil _)
  | cons _ ih => exact Legal.cons ih

/-- Legality: the object state always equals the sequential run of the operations in `lin` order,
and every recorded result is the one the sequential object gives. -/
theorem lin_legal {O : Obj σ Op Ret} {h s} (r : Reach O h s) : Legal O O.init (linOps h) s.obj := by
  induction r with
  | init => exact Legal.nil _
  | step _ st ih =>
    cases st with
    | inv t op hp => simpa [linOps] using ih
    | tau t c op hp => simpa [linOps] using ih
    | lin t c op hp => simpa [linOps] using legal_snoc ih op
    | ret t c op r hp => simpa [linOps] using ih

/-- Invariant tying program counters to the history (newest first). -/
def PcInv (h : List (Ev Op Ret)) (s : CState σ Op Ret) : Prop :=
  (∀ t c op, s.pcs t = .pending c op → (Ev.inv t c op) ∈ h) ∧
  (∀ t c op r, s.pcs t = .done c op r → (Ev.lin t c op r) ∈ h)

theorem pcInv {O : Obj σ Op Ret} {h s} (r : Reach O h s) : PcInv h s := by
  induction r with
  | init => exact ⟨fun t c op hp => by simp at hp, fun t c op r hp => by simp at hp⟩
  | step _ st ih =>
    obtain ⟨ih1, ih2⟩ := ih
    cases st with
    | inv t op hp =>
      constructor
      · intro t' c' op' h'
        by_cases e : t' = t
        · subst e
          simp [upd] at h'
          obtain ⟨rfl, rfl⟩ := h'
          exact List.mem_cons_self
        · simp [upd, e] at h'
          exact List.mem_cons_of_mem _ (ih1 t' c' op' h')
      · intro t' c' op' r' h'
        by_cases e : t' = t
        · subst e; simp [upd] at h'
        · simp [upd, e] at h'
          exact List.mem_cons_of_mem _ (ih2 t' c' op' r' h')
    | tau t c op hp =>
      exact ⟨fun t' c' op' h' => List.mem_cons_of_mem _ (ih1 t' c' op' h'),
             fun t' c' op' r' h' => List.mem_cons_of_mem _ (ih2 t' c' op' r' h')⟩
    | lin t c op hp =>
      constructor
      · intro t' c' op' h'
        by_cases e : t' = t
        · subst e; simp [upd] at h'
        · simp [upd, e] at h'
          exact List.mem_cons_of_mem _ (ih1 t' c' op' h')
      · intro t' c' op' r' h'
        by_cases e : t' = t
        · subst e
          simp [upd] at h'
          obtain ⟨rfl, rfl, rfl⟩ := h'
          exact List.mem_cons_self
        · simp [upd, e] at h'
          exact List.mem_cons_of_mem _ (ih2 t' c' op' r' h')
    | ret t c op r hp =>
      constructor
      · intro t' c' op' h'
        by_cases e : t' = t
        · subst e; simp [upd] at h'
        · simp [upd, e] at h'
          exact List.mem_cons_of_mem _ (ih1 t' c' op' h')
      · intro t' c' op' r' h'
        by_cases e : t' = t
        · subst e; simp [upd] at h'
        · simp [upd, e] at h'
          exact List.mem_cons_of_mem _ (ih2 t' c' op' r' h')

/-- Every return is preceded (in time) by the `lin` event of the same call with the same result:
a call returns exactly what the sequential run gives it. -/
theorem ret_after_lin {O : Obj σ Op Ret} {h s} (r : Reach O h s) :
    ∀ newer older t c op res, h = newer ++ Ev.ret t c op res :: older → Ev.lin t c op res ∈ older := by
  induction r with
  | init => intro newer older t c op res e; simp at e
  | step rp st ih =>
    intro newer older t c op res e
    cases newer with
    | nil =>
      simp only [List.nil_append, List.cons.injEq] at e
      obtain ⟨e1, e2⟩ := e
      subst e2
      cases st with
      | ret t' c' op' r' hp =>
        cases e1
        exact (pcInv rp).2 _ _ _ _ hp
      | inv _ _ _ => cases e1
      | tau _ _ _ _ => cases e1
      | lin _ _ _ _ => cases e1
    | cons x newer' =>
      simp only [List.cons_append, List.cons.injEq] at e
      exact ih newer' older t c op res e.2

/-- Every `lin` event is preceded (in time) by the invocation of the same call. -/
theorem lin_after_inv {O : Obj σ Op Ret} {h s} (r : Reach O h s) :
    ∀ newer older t c op res, h = newer ++ Ev.lin t c op res :: older → Ev.inv t c op ∈ older := by
  induction r with
  | init => intro newer older t c op res e; simp at e
  | step rp st ih =>
    intro newer older t c op res e
    cases newer with
    | nil =>
      simp only [List.nil_append, List.cons.injEq] at e
      obtain ⟨e1, e2⟩ := e
      subst e2
      cases st with
      | lin t' c' op' hp =>
        cases e1
        exact (pcInv rp).1 _ _ _ hp
      | inv _ _ _ => cases e1
      | tau _ _ _ _ => cases e1
      | ret _ _ _ _ _ => cases e1
    | cons x newer' =>
      simp only [List.cons_append, List.cons.injEq] at e
      exact ih newer' older t c op res e.2

/-- Call ids in the history are below `next` (ids are fresh at invocation). -/
theorem inv_id_lt {O : Obj σ Op Ret} {h s} (r : Reach O h s) :
    ∀ t c op, Ev.inv t c op ∈ h → c < s.next := by
  induction r with
  | init => intro t c op hm; simp at hm
  | step rp st ih =>
    intro t c op hm
    cases st with
    | inv t' op' hp =>
      simp only [List.mem_cons] at hm
      cases hm with
      | inl e => cases e; exact Nat.lt_succ_self _
      | inr hm => exact Nat.lt_succ_of_lt (ih t c op hm)
    | tau t' c' op' hp =>
      simp only [List.mem_cons] at hm
      cases hm with
      | inl e => cases e
      | inr hm => exact ih t c op hm
    | lin t' c' op' hp =>
      simp only [List.mem_cons] at hm
      cases hm with
      | inl e => cases e
      | inr hm => exact ih t c op hm
    | ret t' c' op' r' hp =>
      simp only [List.mem_cons] at hm
      cases hm with
      | inl e => cases e
      | inr hm => exact ih t c op hm

/-- An invocation is the first event of its call: nothing of call `c` is older than `inv c`. -/
theorem nothing_before_inv {O : Obj σ Op Ret} {h s} (r : Reach O h s) :
    ∀ newer older t c op, h = newer ++ Ev.inv t c op :: older →
      ∀ t' op' res, Ev.lin t' c op' res ∉ older := by
  induction r with
  | init => intro newer older t c op e; simp at e
  | step rp st ih =>
    intro newer older t c op e
    cases newer with
    | nil =>
      simp only [List.nil_append, List.cons.injEq] at e
      obtain ⟨e1, e2⟩ := e
      subst e2
      cases st with
      | inv t0 op0 hp =>
        cases e1
        intro t' op' res hm
        -- a lin of call `next` in the old history would need an inv of `next` in it: impossible
        obtain ⟨newer2, older2, hsplit⟩ := List.append_of_mem hm
        have := lin_after_inv rp newer2 older2 t' _ op' res hsplit
        have hlt := inv_id_lt rp t' _ op' (by rw [hsplit]; exact List.mem_append_right _ (List.mem_cons_of_mem _ this))
        exact Nat.lt_irrefl _ hlt
      | tau _ _ _ _ => cases e1
      | lin _ _ _ _ => cases e1
      | ret _ _ _ _ _ => cases e1
    | cons x newer' =>
      simp only [List.cons_append, List.cons.injEq] at e
      exact ih newer' older t c op e.2

/-- Real-time order: if call `a` returned before call `b` was invoked, then `a`'s linearization
point lies before `b`'s (so the sequential witness `linOps` orders `a` before `b`).
History is newest first: `h = h3 ++ lin b :: h2' …`; stated as: the `lin` of `b` cannot be older than
the `ret` of `a` when `inv b` is newer than `ret a`. -/
theorem real_time_order {O : Obj σ Op Ret} {h s} (r : Reach O h s)
    (n1 n2 older : List (Ev Op Ret)) (ta a tb b : Nat) (opa opb : Op) (ra : Ret)
    (hsplit : h = n1 ++ Ev.inv tb b opb :: (n2 ++ Ev.ret ta a opa ra :: older)) :
    (Ev.lin ta a opa ra ∈ older) ∧ (∀ t' op' res, Ev.lin t' b op' res ∉ n2 ++ Ev.ret ta a opa ra :: older) := by
  constructor
  · have := ret_after_lin r (n1 ++ Ev.inv tb b opb :: n2) older ta a opa ra (by simp [hsplit])
    exact this
  · exact nothing_before_inv r n1 _ tb b opb hsplit

/-! ## The regenerated table: single-element operations are one critical section -/
open GoguVerif.Model.Lock

/-- the single-element operations the property names -/
def singleOps : List (String × String) := [
  ("heap.Heap", "Push"), ("heap.Heap", "Pop"), ("heap.Heap", "Peek"), ("heap.Heap", "Size"), ("heap.Heap", "Clear"),
  ("queue.Queue", "Enqueue"), ("queue.Queue", "Dequeue"), ("queue.Queue", "Search"),
  ("queue.Queue", "Peek"), ("queue.Queue", "Size"), ("queue.Queue", "Clear"),
  ("queue.LQueue", "Enqueue"), ("queue.LQueue", "Dequeue"), ("queue.LQueue", "Search"),
  ("queue.LQueue", "Peek"), ("queue.LQueue", "Size"), ("queue.LQueue", "Clear"),
  ("stack.Stack", "Push"), ("stack.Stack", "Pop"), ("stack.Stack", "Peek"), ("stack.Stack", "Size"),
  ("stack.LStack", "Push"), ("stack.LStack", "Pop"), ("stack.LStack", "Peek"), ("stack.LStack", "Size"),
  ("bstree.BsTree", "Upsert"), ("bstree.BsTree", "Get"), ("bstree.BsTree", "Delete"), ("bstree.BsTree", "Size"),
  ("trie.Trie", "Put"), ("trie.Trie", "Get"), ("trie.Trie", "Contains"), ("trie.Trie", "Size"),
  ("cache.Cache", "Set"), ("cache.Cache", "Get"), ("cache.Cache", "Update"), ("cache.Cache", "Delete"),
  ("cache.Cache", "Count")]

/-- Operations that may consist of several sections because only the LAST one determines effect and
result (its effect does not depend on what the earlier, read-only sections observed):
`Heap.Clear` (emptiness pre-check, then unconditional truncation), `Cache.Update` (a look-up whose
result is never used, then an unconditional store).  These take `τ` steps before their `lin`. -/
def lastSectionOps : List (String × String) := [("heap.Heap", "Clear"), ("cache.Cache", "Update")]

/-- the number of separate steps a path takes on the shared state: its locked sections, plus one when it also touches a
`sync/atomic` field outside them (flag `atomicOutsideLock` of the regenerated table) -/
def lockedSections (p : PathEntry) : Nat :=
  (p.sects.filter (fun s => s.mode.isSome)).length + (if p.flags.contains "atomicOutsideLock" then 1 else 0)

/-- all sections but the last are read-only -/
def onlyLastWrites (p : PathEntry) : Bool :=
  p.sects.dropLast.all (fun s => s.accs.all (fun a => !a.write))

/-- A type some method of which touches a `sync/atomic` field WITHOUT the lock (`atomicOutsideLock`: e.g. a lock-free
`Size` from an atomic counter) has no locked section that writes atomic fields twice (`twoAtomicWritesInLock`): the
lock-free reader would see the state between the two writes, so that section would no longer be one atomic step. -/
def atomicsOk (t : List MethodEntry) : Bool :=
  t.all (fun m =>
    if m.paths.any (fun p => p.flags.contains "atomicOutsideLock") then
      t.all (fun m' => m'.type != m.type || m'.paths.all (fun p => !p.flags.contains "twoAtomicWritesInLock"))
    else true)

/-- The library's own goroutines (`go c.cleanup()`: table rows `go:<name>`): what such an actor does to the shared state
per iteration of its loop is ONE critical section on every path (the analysis takes loops 0 or 1 times) — the janitor's
tick is one atomic step for every caller, exactly like the public `DeleteExpired` it stands for. -/
def goroutinesOk (t : List MethodEntry) : Bool :=
  t.all (fun m => m.paths.all (fun p => !p.flags.contains "goroutine" || lockedSections p ≤ 1))

def linTableOk (t : List MethodEntry) : Bool :=
  atomicsOk t && goroutinesOk t &&
  singleOps.all (fun o => t.any (fun m => m.type == o.1 && m.method == o.2 && m.inst == 0)) &&
  t.all (fun m =>
    if singleOps.contains (m.type, m.method) && m.inst == 0 then
      m.paths.all (fun p => lockedSections p ≤ 1 ||
        (lastSectionOps.contains (m.type, m.method) && onlyLastWrites p))
    else true)

/-- Obligation re-checked against the current source on every run. -/
theorem lin_table_ok : linTableOk GoguVerif.Gen.lockTable = true := by decide

/-! ## Instances: the sequential objects are the specifications of C05/C06 (others in their files) -/

def fifoObj : Obj (List Int) (Spec.C05.Op Int) (Spec.C05.Out Int) := ⟨[], Spec.C05.step⟩
def lifoObj : Obj (List Int) (Spec.C06.Op Int) (Spec.C06.Out Int) := ⟨[], Spec.C06.step⟩

/-- Every history of the queue system is a legal FIFO run in linearization order. -/
theorem queue_linearizable {h s} (r : Reach fifoObj h s) : Legal fifoObj [] (linOps h) s.obj := lin_legal r
theorem stack_linearizable {h s} (r : Reach lifoObj h s) : Legal lifoObj [] (linOps h) s.obj := lin_legal r

/-- non-vacuity: a two-thread history with overlapping calls is reachable -/
example : ∃ h s, Reach fifoObj h s ∧ h.length = 4 := by
  refine ⟨_, _, Reach.step (Reach.step (Reach.step (Reach.step Reach.init
    (Step.inv _ 0 (.enqueue 1) rfl)) (Step.inv _ 1 .dequeue (by simp [Model.Lin.upd])))
    (Step.lin _ 1 1 .dequeue (by simp [Model.Lin.upd]))) (Step.lin _ 0 0 (.enqueue 1) (by simp [Model.Lin.upd])), rfl⟩

/-! ## Theorem 1 ∘ Theorem 2 -/

open GoguVerif.Model in
/-- Every history of the FINE-GRAINED system (micro-steps of lock-guarded single-section methods
interleaving under the RWMutex rules) is linearizable: the operations in the order of their lock
acquisitions form a legal sequential run of the methods' sequential meaning, producing exactly the
values returned, and ending in the abstract object state. -/
theorem fine_linearizable {lam : Type} {meth : Op → Fine.Meth σ lam Ret} (ro : Fine.ReadOnly meth)
    {init : σ} {h s} (r : Fine.Reach meth init h s) :
    Legal (Fine.obj meth init) init (linOps h) s.absObj :=
  lin_legal (C02Fine.fine_refines_atomic ro r).2

open GoguVerif.Model in
/-- … and returned values / real-time order carry over, because the fine-grained history IS a history of
the atomic system. -/
theorem fine_history_is_atomic {lam : Type} {meth : Op → Fine.Meth σ lam Ret} (ro : Fine.ReadOnly meth)
    {init : σ} {h s} (r : Fine.Reach meth init h s) : Reach (Fine.obj meth init) h (Fine.abs s) :=
  (C02Fine.fine_refines_atomic ro r).2

/-! ### Instance: a slice queue whose `Dequeue` is two micro-steps -/

open GoguVerif.Model GoguVerif.Model.Lock in
/-- method table of a queue over `List Int`; the local state is the answer being assembled -/
def queueMeth : Spec.C05.Op Int → Fine.Meth (List Int) (Spec.C05.Out Int) (Spec.C05.Out Int)
  | .enqueue x => ⟨.w, [fun p => (p.1 ++ [x], p.2)], .unit, id⟩
  | .dequeue => ⟨.w, [fun p => (p.1, match p.1 with | [] => .deq default true | x :: _ => .deq x false),
                       fun p => (p.1.tail, p.2)], .unit, id⟩
  | .peek => ⟨.r, [fun p => (p.1, .val (p.1.head?.getD default))], .unit, id⟩
  | .search x => ⟨.r, [fun p => (p.1, .bool (decide (x ∈ p.1)))], .unit, id⟩
  | .size => ⟨.r, [fun p => (p.1, .int p.1.length)], .unit, id⟩
  | .clear => ⟨.w, [fun p => ([], p.2)], .unit, id⟩

open GoguVerif.Model in
theorem queueMeth_atomic (s : List Int) (op : Spec.C05.Op Int) :
    Fine.atomic (queueMeth op) s = Spec.C05.step s op := by
  cases op <;> simp [Fine.atomic, Fine.runSteps, queueMeth, Spec.C05.step]
  cases s <;> simp

open GoguVerif.Model in
theorem queueMeth_readOnly : Fine.ReadOnly queueMeth := by
  intro op hm f hf p
  cases op <;> simp [queueMeth] at hm hf <;> subst hf <;> rfl

open GoguVerif.Model in
/-- Any number of goroutines calling this queue, interleaved at micro-step granularity: the history is a
legal FIFO run in lock-acquisition order. -/
theorem queue_fine_linearizable {h s} (r : Fine.Reach queueMeth ([] : List Int) h s) :
    Legal fifoObj [] (linOps h) s.absObj := by
  have := fine_linearizable queueMeth_readOnly r
  have e : Fine.obj queueMeth ([] : List Int) = fifoObj := by
    simp only [Fine.obj, fifoObj]
    congr 1
    funext s op
    exact queueMeth_atomic s op
  rw [e] at this; exact this

end GoguVerif.Theorems.C02
