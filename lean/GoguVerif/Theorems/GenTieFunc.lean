import GoguVerif.Gen.FuncWrap
import GoguVerif.Model.FuncsMore
/-!
# Regenerated tie for the call-count wrappers of `func.go` (C18)

`Gen/FuncWrap.lean` is produced by `translator/frag_func.go` from /repo's current `func.go` (and `Item.Val` of
`cache/cache.go`); the cache calls inside `Before` / `Once` are the REGENERATED `Gen/Cache.lean` methods.
This module proves that each regenerated wrapper computes exactly the step of the hand-written models
`Model/Funcs.lean` (`afterCall`, `beforeCall`, `onceCall`, `retry`) and `Model/FuncsMore.lean` (`retryWithDelay`):
callback invoked or not, result, new counter, new cache cell — for all counters, cache contents, instants,
expiration settings and callback behaviours.

The one-cell abstraction of the models is `gcell g key`: what the regenerated association list holds for the key
`"func"` (`lit_S` maps the string constant to `key`); the other keys are shown untouched.  The models' values are
`Int`, which `store` never rejects: `strOf v = none` for all `v` is the hypothesis `hs`.
-/
namespace GoguVerif.Theorems.GenTieFunc
open GoguVerif GoguVerif.Model.Funcs
open GoguVerif.Gen.Cache (mapHas mapGet mapSet)
open GoguVerif.Gen.FuncWrap

abbrev GItem := Gen.Cache.Item Int
abbrev GItems := List (Int × GItem)

/-- the cell of `Model.Funcs` that a key of the regenerated cache's map stands for -/
def gcell (g : GItems) (k : Int) : Cell :=
  if mapHas g k then some ((mapGet g k default).object, (mapGet g k default).expiration) else none

/-! ## the map primitives -/

theorem mapHas_mapSet (g : GItems) (k : Int) (it : GItem) : mapHas (mapSet g k it) k = true := by
  induction g with
  | nil => simp [mapSet, mapHas]
  | cons e r ih =>
    simp only [mapSet]
    split
    · simp [mapHas]
    · simp [mapHas, *]

theorem mapGet_mapSet (g : GItems) (k : Int) (it z : GItem) : mapGet (mapSet g k it) k z = it := by
  induction g with
  | nil => simp [mapSet, mapGet]
  | cons e r ih =>
    simp only [mapSet]
    split
    · simp [mapGet]
    · simp [mapGet, *]

theorem mapHas_mapSet_ne (g : GItems) (k k' : Int) (it : GItem) (h : k' ≠ k) :
    mapHas (mapSet g k it) k' = mapHas g k' := by
  induction g with
  | nil => simp [mapSet, mapHas, Ne.symm h]
  | cons e r ih =>
    simp only [mapSet]
    split
    · rename_i he
      simp [mapHas, he, Ne.symm h]
    · simp [mapHas, ih]

theorem mapGet_mapSet_ne (g : GItems) (k k' : Int) (it z : GItem) (h : k' ≠ k) :
    mapGet (mapSet g k it) k' z = mapGet g k' z := by
  induction g with
  | nil => simp [mapSet, mapGet, Ne.symm h]
  | cons e r ih =>
    simp only [mapSet]
    split
    · rename_i he
      simp [mapGet, he, Ne.symm h]
    · simp [mapGet, ih]

/-! ## the regenerated `Get`, `Set`, `Val` on the cell -/

/-- `c.Get(key)` of the regenerated cache is the model's `cellGet` on the cell of that key -/
theorem get_cell (now : Int) (g : GItems) (eT cI k : Int) :
    (Gen.Cache.Cache_Get now g eT cI k).1.map (fun it => (it.object : Int)) = cellGet now (gcell g k) := by
  unfold Gen.Cache.Cache_Get gcell cellGet
  cases h : mapHas g k
  · simp
  · simp only [if_true]
    by_cases h1 : (mapGet g k default).expiration > 0
    · by_cases h2 : now > (mapGet g k default).expiration <;> simp [h1, h2]
    · simp [h1]

/-- `memo, _ := c.Get(key); memo.Val()` -/
theorem val_get_cell (now : Int) (g : GItems) (eT cI k : Int) :
    Item_Val (Gen.Cache.Cache_Get now g eT cI k).1 = (cellGet now (gcell g k)).getD 0 := by
  rw [← get_cell now g eT cI k]
  cases (Gen.Cache.Cache_Get now g eT cI k).1 <;> rfl

/-- `memo == nil` -/
theorem isNone_get_cell (now : Int) (g : GItems) (eT cI k : Int) :
    (Gen.Cache.Cache_Get now g eT cI k).1.isNone = (cellGet now (gcell g k)).isNone := by
  rw [← get_cell now g eT cI k]
  cases (Gen.Cache.Cache_Get now g eT cI k).1 <;> rfl

theorem store_items (strOf : Int → Option (List UInt8)) (hs : ∀ v, strOf v = none) (now : Int) (g : GItems)
    (eT cI k v : Int) :
    (Gen.Cache.Cache_store strOf now g eT cI k v Gen.Cache.DefaultExpiration).2 =
      mapSet g k ⟨v, defaultExp eT now⟩ := by
  unfold Gen.Cache.Cache_store defaultExp
  simp only [hs, Gen.Cache.DefaultExpiration, Gen.Cache.NoExpiration]
  by_cases h1 : eT > 0
  · simp [h1]
  · by_cases h2 : eT < 0 <;> simp [h1, h2]

/-- `c.Set(key, v, DefaultExpiration)` of the regenerated cache is the model's `cellSet` on the cell of that key -/
theorem set_cell (strOf : Int → Option (List UInt8)) (hs : ∀ v, strOf v = none) (now : Int) (g : GItems)
    (eT cI k v : Int) :
    gcell (Gen.Cache.Cache_Set strOf now g eT cI k v Gen.Cache.DefaultExpiration).2 k =
      cellSet eT now (gcell g k) v := by
  unfold Gen.Cache.Cache_Set
  cases h : mapHas g k
  · simp only [Bool.false_eq_true, if_false, store_items strOf hs]
    simp [gcell, h, cellSet, mapHas_mapSet, mapGet_mapSet]
  · simp only [if_true]
    by_cases hl : ((decide ((mapGet g k default).expiration ≤ 0)) || (decide (now ≤ (mapGet g k default).expiration))) = true
    · simp only [hl, if_true]
      simp [gcell, h, cellSet, hl]
    · simp only [hl, Bool.false_eq_true, if_false, store_items strOf hs]
      simp [gcell, h, cellSet, hl, mapHas_mapSet, mapGet_mapSet]

/-- … and leaves every other key alone -/
theorem set_cell_other (strOf : Int → Option (List UInt8)) (hs : ∀ v, strOf v = none) (now : Int) (g : GItems)
    (eT cI k v k' : Int) (hk : k' ≠ k) :
    gcell (Gen.Cache.Cache_Set strOf now g eT cI k v Gen.Cache.DefaultExpiration).2 k' = gcell g k' := by
  unfold Gen.Cache.Cache_Set
  have hst : gcell (mapSet g k ⟨v, defaultExp eT now⟩) k' = gcell g k' := by
    simp [gcell, mapHas_mapSet_ne _ _ _ _ hk, mapGet_mapSet_ne _ _ _ _ _ hk]
  cases h : mapHas g k
  · simp only [Bool.false_eq_true, if_false, store_items strOf hs]; exact hst
  · simp only [if_true]
    by_cases hl : ((decide ((mapGet g k default).expiration ≤ 0)) || (decide (now ≤ (mapGet g k default).expiration))) = true
    · simp only [hl, if_true]
    · simp only [hl, Bool.false_eq_true, if_false, store_items strOf hs]; exact hst

/-! ## After -/

/-- **After**: for every world and callback, the regenerated `After` returns the model's new counter and runs the
callback (once, on the incoming world) exactly when the model says so. -/
theorem after_tie {W : Type} (n : Int) (fn : W → W) (w : W) :
    After n fn w = ((afterCall n).1, if (afterCall n).2 then fn w else w) := by
  unfold After afterCall
  by_cases h : n < 1 <;> simp [h]

/-! ## Before -/

/-- the callback of the models: the `k`-th run returns `res k`; the world is the number of runs so far -/
def resFn (res : Nat → Int) : Nat → Int × Nat := fun runs => (res (runs + 1), runs + 1)

/-- **Before**: one call of the regenerated `Before` on the regenerated cache = `Model.Funcs.beforeCall` on the cell of
`"func"`: returned value, new counter, new cell, new run count; the callback ran iff the run count moved; all other
keys of the cache are untouched. -/
theorem before_tie (strOf : Int → Option (List UInt8)) (hs : ∀ v, strOf v = none) (lit : List UInt8 → Int)
    (now n : Int) (g : GItems) (eT cI : Int) (res : Nat → Int) (runs : Nat) :
    let key := lit [102, 117, 110, 99]
    let out := Before strOf lit now n g eT cI (resFn res) runs
    let r := beforeCall eT now res ⟨n, gcell g key, runs⟩
    out.1 = r.2.2 ∧ out.2.1 = r.1.n ∧ gcell out.2.2.1 key = r.1.cell ∧ out.2.2.2 = r.1.runs ∧
      r.2.1 = decide (out.2.2.2 = runs + 1) ∧ ∀ k', k' ≠ key → gcell out.2.2.1 k' = gcell g k' := by
  dsimp only
  unfold Before beforeCall
  simp only [resFn]
  by_cases h1 : n - 1 > 0
  · have h1' : 1 < n := by omega
    simp [h1']
  · by_cases h2 : n - 1 = 0
    · have h0 : ¬ ((0 : Int) > 0) := by omega
      simp only [h2, h0, decide_false, if_false, Bool.false_eq_true, val_get_cell, set_cell strOf hs, decide_true,
        if_true]
      refine ⟨by simp [val_get_cell, set_cell strOf hs], by simp, by simp [set_cell strOf hs], by simp, by simp, ?_⟩
      intro k' hk; exact set_cell_other strOf hs _ _ _ _ _ _ _ hk
    · simp only [h1, h2, decide_false, if_false, Bool.false_eq_true, val_get_cell]
      refine ⟨by simp [val_get_cell], by simp, by simp, by simp, by simp, fun _ _ => by simp⟩

example : (∀ v : Int, (fun _ : Int => (none : Option (List UInt8))) v = none) := fun _ => rfl

/-! ## Once -/

/-- **Once**: one call of the regenerated `Once` = `Model.Funcs.onceCall` on the cell of `"func"`, for every world and
callback: `fresh` is what the callback would return on the incoming world; the world moves iff the model says the
callback ran. -/
theorem once_tie {W : Type} (strOf : Int → Option (List UInt8)) (hs : ∀ v, strOf v = none) (lit : List UInt8 → Int)
    (now : Int) (g : GItems) (eT cI : Int) (fn : W → Int × W) (w : W) :
    let key := lit [102, 117, 110, 99]
    let out := Once strOf lit now g eT cI fn w
    let r := onceCall eT now (gcell g key) (fn w).1
    out.1 = r.2.2 ∧ gcell out.2.1 key = r.1 ∧ out.2.2 = (if r.2.1 then (fn w).2 else w) ∧
      ∀ k', k' ≠ key → gcell out.2.1 k' = gcell g k' := by
  dsimp only
  unfold Once onceCall
  simp only [isNone_get_cell, val_get_cell]
  cases h : cellGet now (gcell g (lit [102, 117, 110, 99]))
  · simp only [Option.isNone_none, if_true]
    exact ⟨by first | rfl | trivial, set_cell strOf hs _ _ _ _ _ _, by first | rfl | trivial,
      fun k' hk => set_cell_other strOf hs _ _ _ _ _ _ _ hk⟩
  · simp [Option.getD]

/-! ## Retry -/

/-- the callback of the models: invocation `i` (0-based) fails iff `fails script i`; the world is the number of
invocations so far -/
def scriptFn (script : List Bool) : Int → Nat → Bool × Nat := fun _ calls => (fails script calls, calls + 1)

theorem retry_loop_tie (script : List Bool) (inp n : Int) (fuel : Nat) :
    ∀ (F a : Nat) (le : Bool), fuel < F → n = a + fuel →
      RType_Retry_loop1 F inp n (scriptFn script) a le (a : Int) =
        some (((retryLoop script fuel a le).1 : Int), (retryLoop script fuel a le).2.1, (retryLoop script fuel a le).2.2) := by
  induction fuel with
  | zero =>
    intro F a le hF hn
    obtain ⟨F, rfl⟩ : ∃ F', F = F' + 1 := ⟨F - 1, by omega⟩
    have : ¬ ((a : Int) < n) := by omega
    simp [RType_Retry_loop1, retryLoop, this]
  | succ fuel ih =>
    intro F a le hF hn
    obtain ⟨F, rfl⟩ : ∃ F', F = F' + 1 := ⟨F - 1, by omega⟩
    have hlt : (a : Int) < n := by omega
    simp only [RType_Retry_loop1, retryLoop, hlt, decide_true, if_true, scriptFn]
    rcases Bool.eq_false_or_eq_true (fails script a) with hf | hf
    · have := ih F (a + 1) true (by omega) (by omega)
      simp only [scriptFn, Int.natCast_add, Int.cast_ofNat_Int] at this
      simp only [hf]
      simpa using this
    · simp [hf]

/-- **Retry**: with enough fuel (`n < fuel`) the regenerated `RType.Retry` terminates and returns the model's
(attempts, error?) and has invoked the callback the model's number of times — for every `n` (negative too), input and
outcome script. -/
theorem retry_tie (script : List Bool) (inp n : Int) (F : Nat) (hF : n.toNat < F) :
    RType_Retry F inp n (scriptFn script) 0 =
      some (((retry n script).1 : Int), (retry n script).2.1, (retry n script).2.2) := by
  unfold RType_Retry retry
  by_cases h : n < 0
  · simp [h]
  · simp only [h, decide_false, if_false, Bool.false_eq_true]
    have := retry_loop_tie script inp n n.toNat F 0 false hF (by omega)
    simpa using this

example : (5 : Int).toNat < 6 := by decide

/-! ## RetryWithDelay -/

/-- the world of `Model.Funcs.retryWithDelay`: invocations made, waits done, the clock (time since `start`), and the
(argument handed to the callback, end) of every invocation -/
structure RW where
  calls : Nat
  nwaits : Nat
  now : Int
  times : List (Int × Int)

/-- invocation `i` fails iff `fails script i` and takes `durs i`; it records the duration it was handed -/
def rwFn (script : List Bool) (durs : Nat → Int) : Int → Int → RW → Bool × RW := fun t _ w =>
  (fails script w.calls, ⟨w.calls + 1, w.nwaits, w.now + durs w.calls, w.times ++ [(t, w.now + durs w.calls)]⟩)

/-- the `i`-th `<-time.After(delay)` really takes `waits i` -/
def rwAfter (waits : Nat → Int) : Int → RW → RW := fun _ w => ⟨w.calls, w.nwaits + 1, w.now + waits w.nwaits, w.times⟩

theorem retryDelay_loop_tie (script : List Bool) (waits durs : Nat → Int) (inp n d : Int) (fuel : Nat) :
    ∀ (F a : Nat) (le : Bool) (c : Nat) (now : Int) (acc : List (Int × Int)), fuel < F → n = a + fuel →
      RType_RetryWithDelay_loop1 RW.now (rwAfter waits) F inp n d (rwFn script durs) ⟨c, a, now, acc⟩ le (a : Int) 0 =
        (let r := retryDelayLoop script waits durs fuel a le c now
         some (r.elapsed, (r.attempts : Int), r.err, ⟨r.calls, r.attempts, r.elapsed, acc ++ r.times⟩)) := by
  induction fuel with
  | zero =>
    intro F a le c now acc hF hn
    obtain ⟨F, rfl⟩ : ∃ F', F = F' + 1 := ⟨F - 1, by omega⟩
    have : ¬ ((a : Int) < n) := by omega
    simp [RType_RetryWithDelay_loop1, retryDelayLoop, this]
  | succ fuel ih =>
    intro F a le c now acc hF hn
    obtain ⟨F, rfl⟩ : ∃ F', F = F' + 1 := ⟨F - 1, by omega⟩
    have hlt : (a : Int) < n := by omega
    simp only [RType_RetryWithDelay_loop1, retryDelayLoop, hlt, decide_true, if_true, rwFn, rwAfter]
    rcases Bool.eq_false_or_eq_true (fails script c) with hf | hf
    · have := ih F (a + 1) true (c + 1) (now + durs c + waits a) (acc ++ [(now - 0, now + durs c)]) (by omega) (by omega)
      simp only [rwFn, rwAfter, Int.natCast_add, Int.cast_ofNat_Int] at this
      simp only [hf]
      simpa using this
    · simp [hf]

/-- **RetryWithDelay**: started at clock 0 with enough fuel, the regenerated `RType.RetryWithDelay` returns the model's
(elapsed, attempts, error?), has made the model's number of invocations, each at the model's (start, end) — the start
being the duration handed to the callback — for every `n`, delay, script, waits and durations. -/
theorem retryWithDelay_tie (script : List Bool) (waits durs : Nat → Int) (inp n d : Int) (F : Nat) (hF : n.toNat < F) :
    RType_RetryWithDelay RW.now (rwAfter waits) F inp n d (rwFn script durs) ⟨0, 0, 0, []⟩ =
      (let r := retryWithDelay n script waits durs
       some (r.elapsed, (r.attempts : Int), r.err, ⟨r.calls, r.attempts, r.elapsed, r.times⟩)) := by
  unfold RType_RetryWithDelay retryWithDelay
  by_cases h : n < 0
  · obtain ⟨F, rfl⟩ : ∃ F', F = F' + 1 := ⟨F - 1, by omega⟩
    have h0 : n.toNat = 0 := by omega
    have : ¬ ((0 : Int) < n) := by omega
    simp [RType_RetryWithDelay_loop1, retryDelayLoop, h0, this]
  · have := retryDelay_loop_tie script waits durs inp n d n.toNat F 0 false 0 0 [] hF (by omega)
    simpa using this

end GoguVerif.Theorems.GenTieFunc
