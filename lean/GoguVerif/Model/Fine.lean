import GoguVerif.Model.Lin
import GoguVerif.Model.Lock
/-!
# Fine-grained execution of lock-guarded methods (C02, "Theorem 2")

Every method is ONE critical section under the instance's `sync.RWMutex`: a lock mode (`r`/`w`) and
a body made of *micro-steps* over the shared object state `σ` and the call's local state `λ`
(registers, loop counters, the value to return).  Threads interleave at micro-step granularity;
acquiring follows the RWMutex admission rule (`w`: nobody else inside; `r`: no writer inside).
The sequential meaning of a method (`atomic`) is its body run to completion in isolation.

`Theorems/C02.lean: fine_refines_atomic` proves that every execution of this fine-grained system is
an execution of the atomic system of `Model/Lin.lean` (same events, linearization point = the lock
acquisition), provided read-mode bodies do not write the shared state.  Ghost components (`absObj`,
the result stored at acquisition) only serve the proof.
-/
namespace GoguVerif.Model.Fine
open GoguVerif.Model.Lin (Obj Ev CState PC upd)
open GoguVerif.Model.Lock (Mode)

/-- a method: lock mode, body, initial local state, returned value -/
structure Meth (σ lam Ret : Type) where
  mode : Mode
  steps : List (σ × lam → σ × lam)
  init : lam
  result : lam → Ret

variable {σ lam Op Ret : Type}

/-- run the remaining micro-steps in isolation -/
def runSteps (steps : List (σ × lam → σ × lam)) (p : σ × lam) : σ × lam := steps.foldl (fun p f => f p) p

/-- sequential meaning: the body run to completion -/
def atomic (m : Meth σ lam Ret) (s : σ) : σ × Ret :=
  let p := runSteps m.steps (s, m.init)
  (p.1, m.result p.2)

/-- the sequential object implemented by a method table -/
def obj (meth : Op → Meth σ lam Ret) (init : σ) : Obj σ Op Ret := ⟨init, fun s op => atomic (meth op) s⟩

inductive TState (σ lam Op Ret : Type)
  | idle
  /-- invoked, waiting for the lock -/
  | invoked (c : Nat) (op : Op)
  /-- holding the lock; `r` is a ghost: the value the call will return -/
  | inside (c : Nat) (op : Op) (mode : Mode) (rest : List (σ × lam → σ × lam)) (loc : lam) (r : Ret)
  /-- lock released, about to return -/
  | finished (c : Nat) (op : Op) (r : Ret)

structure State (σ lam Op Ret : Type) where
  shared : σ
  /-- ghost: the abstract object state (the shared state with the writer's section completed) -/
  absObj : σ
  th : Nat → TState σ lam Op Ret
  next : Nat

def holds (t : TState σ lam Op Ret) : Option Mode :=
  match t with
  | .inside _ _ m _ _ _ => some m
  | _ => none

/-- `sync.RWMutex` admission -/
def canEnter (s : State σ lam Op Ret) (i : Nat) (m : Mode) : Prop :=
  match m with
  | .r => ∀ j, j ≠ i → holds (s.th j) ≠ some .w
  | .w => ∀ j, j ≠ i → holds (s.th j) = none

/-- steps; the emitted event (if any) is the one of the atomic system -/
inductive Step (meth : Op → Meth σ lam Ret) :
    State σ lam Op Ret → Option (Ev Op Ret) → State σ lam Op Ret → Prop
  | inv (s) (t : Nat) (op : Op) (h : s.th t = .idle) :
      Step meth s (some (.inv t s.next op)) { s with th := upd s.th t (.invoked s.next op), next := s.next + 1 }
  | acquire (s) (t c : Nat) (op : Op) (h : s.th t = .invoked c op) (ok : canEnter s t (meth op).mode) :
      Step meth s (some (.lin t c op (atomic (meth op) s.absObj).2))
        { s with absObj := (atomic (meth op) s.absObj).1
                 th := upd s.th t (.inside c op (meth op).mode (meth op).steps (meth op).init
                                     (atomic (meth op) s.absObj).2) }
  | micro (s) (t c : Nat) (op : Op) (m : Mode) (f) (rest) (loc : lam) (r : Ret)
      (h : s.th t = .inside c op m (f :: rest) loc r) :
      Step meth s none
        { s with shared := (f (s.shared, loc)).1, th := upd s.th t (.inside c op m rest (f (s.shared, loc)).2 r) }
  | release (s) (t c : Nat) (op : Op) (m : Mode) (loc : lam) (r : Ret)
      (h : s.th t = .inside c op m [] loc r) :
      Step meth s none { s with th := upd s.th t (.finished c op ((meth op).result loc)) }
  | ret (s) (t c : Nat) (op : Op) (r : Ret) (h : s.th t = .finished c op r) :
      Step meth s (some (.ret t c op r)) { s with th := upd s.th t .idle }

def initState (init : σ) : State σ lam Op Ret := ⟨init, init, fun _ => .idle, 0⟩

/-- reachability with the history of emitted events, newest first -/
inductive Reach (meth : Op → Meth σ lam Ret) (init : σ) : List (Ev Op Ret) → State σ lam Op Ret → Prop
  | init : Reach meth init [] (initState init)
  | step {h s e s'} : Reach meth init h s → Step meth s (some e) s' → Reach meth init (e :: h) s'
  | silent {h s s'} : Reach meth init h s → Step meth s none s' → Reach meth init h s'

/-- read-mode bodies do not write the shared state -/
def ReadOnly (meth : Op → Meth σ lam Ret) : Prop :=
  ∀ op, (meth op).mode = .r → ∀ f ∈ (meth op).steps, ∀ p, (f p).1 = p.1

/-- abstraction to the atomic system -/
def absPc : TState σ lam Op Ret → PC Op Ret
  | .idle => .idle
  | .invoked c op => .pending c op
  | .inside c op _ _ _ r => .done c op r
  | .finished c op r => .done c op r

def abs (s : State σ lam Op Ret) : CState σ Op Ret := ⟨s.absObj, fun t => absPc (s.th t), s.next⟩

end GoguVerif.Model.Fine
