import GoguVerif.Spec.C19
/-!
# Pointer-level model of `list/slist.go` (`SList`)

The Go heap of `SingleNode` cells is an address-indexed store `List Node`.  **Address 0 is the
head node embedded by value in the `SList` struct** (`l.SingleNode`); every other cell was allocated
by `newNode` or is a local struct copy whose address escapes (`firstNode` in `Unshift`).  A struct
assignment `*p = *q` is `store.set p (store[q])`; pointer comparison is address comparison.

Each method follows the Go code statement by statement.  Conventions:
* a nil dereference is the outcome `panic`; a walk that runs out of fuel is `hang` (the fuel is
  `store.length + 1`, so by the pigeonhole principle it only runs out on a cyclic chain, where the
  Go loop does not terminate either); `stuck` means the store has a dangling address or the type
  has no such method — there is no Go behaviour to mirror (never reached from `init`, see
  `Theorems/C19.lean`);
* a local value whose address is never stored in the heap (`newNode` in `Unshift`, `prev` in
  `Delete`) is a Lean value; a cell is allocated at the moment it is linked in (allocation of a
  fresh cell commutes with every statement that does not mention it, and addresses are not
  observable);
* node handles are addresses (`Option Nat`, `none` = nil) obtained from `find`.

Core Lean only (linked into the driver).
-/
namespace GoguVerif.Model

/-- Outcome of a modelled Go call. -/
inductive ListRes (α : Type) where
  | ok (a : α)
  | panic          -- nil pointer dereference
  | hang           -- a pointer walk did not terminate (fuel exhausted: the chain is cyclic)
  | stuck          -- dangling address / no such method: outside Go's behaviours
deriving Repr, DecidableEq

namespace ListRes

def bind {α β : Type} : ListRes α → (α → ListRes β) → ListRes β
  | .ok a, f => f a
  | .panic, _ => .panic
  | .hang, _ => .hang
  | .stuck, _ => .stuck

instance : Monad ListRes where
  pure := .ok
  bind := ListRes.bind

@[simp] theorem pure_eq {α : Type} (a : α) : (pure a : ListRes α) = .ok a := rfl
@[simp] theorem ok_bind {α β : Type} (a : α) (f : α → ListRes β) : (ListRes.ok a >>= f) = f a := rfl
@[simp] theorem panic_bind {α β : Type} (f : α → ListRes β) : (ListRes.panic >>= f) = .panic := rfl
@[simp] theorem hang_bind {α β : Type} (f : α → ListRes β) : (ListRes.hang >>= f) = .hang := rfl
@[simp] theorem stuck_bind {α β : Type} (f : α → ListRes β) : (ListRes.stuck >>= f) = .stuck := rfl

/-- `p.Value` / `p.next` on a possibly nil pointer -/
def deref : Option Nat → ListRes Nat
  | some a => .ok a
  | none => .panic

end ListRes

namespace SList
open GoguVerif.Spec.C19 (Op Ans)

structure Node where
  val : Int
  next : Option Nat
deriving DecidableEq, Repr

abbrev Heap := List Node

def load (h : Heap) (a : Nat) : ListRes Node :=
  match h[a]? with
  | some n => .ok n
  | none => .stuck

/-- `Init(value)`: `&SList{*newNode(value)}` -/
def init (v : Int) : Heap := [⟨v, none⟩]

/-- slist.go `Unshift` -/
def unshift (h : Heap) (v : Int) : ListRes Heap := do
  -- newNode := newNode(value)                      (local until copied into the head)
  let first ← load h 0                              -- firstNode := l.SingleNode   (copy, escapes)
  let a := h.length
  let h1 := h ++ [first]
  -- newNode.next = &firstNode;  l.SingleNode = *newNode
  pure (h1.set 0 ⟨v, some a⟩)

/-- `for head.next != nil { head = head.next }` -/
def lastAddr : Nat → Heap → Nat → ListRes Nat
  | 0, _, _ => .hang
  | fuel + 1, h, a =>
    match h[a]? with
    | none => .stuck
    | some n =>
      match n.next with
      | none => .ok a
      | some b => lastAddr fuel h b

/-- slist.go `Append` -/
def append (h : Heap) (v : Int) : ListRes Heap := do
  let hd ← load h 0                                 -- head := &l.SingleNode
  -- if l.next == nil { l.SingleNode = *head }       (self-assignment)
  let h0 := match hd.next with
    | none => h.set 0 hd
    | some _ => h
  let a ← lastAddr (h0.length + 1) h0 0             -- for head.next != nil { head = head.next }
  let n ← load h0 a
  let new := h0.length                              -- newNode := newNode(value)
  -- head.next = newNode;  newNode.next = nil
  pure ((h0 ++ [(⟨v, none⟩ : Node)]).set a { n with next := some new })

/-- `for n := &l.SingleNode; n != nil; n = n.next { if n.Value == val { return n } }` -/
def findLoop : Nat → Heap → Option Nat → Int → ListRes (Option Nat)
  | 0, _, _, _ => .hang
  | fuel + 1, h, n, v =>
    match n with
    | none => .ok none
    | some a =>
      match h[a]? with
      | none => .stuck
      | some nd => if nd.val = v then .ok (some a) else findLoop fuel h nd.next v

/-- slist.go `Find`: saves the head by value, walks, writes the saved head back on both exits. -/
def find (h : Heap) (v : Int) : ListRes (Heap × Option Nat) := do
  let head ← load h 0                               -- head := l.SingleNode
  let r ← findLoop (h.length + 1) h (some 0) v
  pure (h.set 0 head, r)                            -- l.SingleNode = head

/-- slist.go `InsertAfter(prev, value)` -/
def insertAfter (h : Heap) (prev : Option Nat) (v : Int) : ListRes (Heap × Ans) :=
  match prev with
  | none => pure (h, .err)                          -- prev == nil
  | some p => do
    let pn ← load h p
    let (h1, r) ← find h pn.val                     -- l.Find(prev.Value)
    match r with
    | none => pure (h1, .err)
    | some _ => do
      let pn ← load h1 p
      let new := h1.length                          -- newNode := newNode(value)
      let h2 := h1 ++ [⟨v, pn.next⟩]                -- newNode.next = prev.next
      pure (h2.set p { pn with next := some new }, .ok)   -- prev.next = newNode

/-- the `for { … }` loop of `Replace` -/
def replaceLoop : Nat → Heap → Nat → Int → Int → ListRes (Heap × Ans)
  | 0, _, _, _, _ => .hang
  | fuel + 1, h, a, o, n =>
    match h[a]? with
    | none => .stuck
    | some nd =>
      match nd.next with
      | none =>                                      -- this is the last node
        if nd.val = o then .ok (h.set a { nd with val := n }, .ok) else .ok (h, .err)
      | some b =>
        if nd.val = o then .ok (h.set a { nd with val := n }, .ok) else replaceLoop fuel h b o n

/-- slist.go `Replace` -/
def replace (h : Heap) (o n : Int) : ListRes (Heap × Ans) :=
  replaceLoop (h.length + 1) h 0 o n

/-- `for tmp.next.next != nil { tmp = tmp.next }` — returns `tmp` -/
def popLoop : Nat → Heap → Nat → ListRes Nat
  | 0, _, _ => .hang
  | fuel + 1, h, tmp =>
    match h[tmp]? with
    | none => .stuck
    | some tn =>
      match tn.next with
      | none => .panic                               -- tmp.next.next with tmp.next == nil
      | some b =>
        match h[b]? with
        | none => .stuck
        | some bn =>
          match bn.next with
          | none => .ok tmp
          | some _ => popLoop fuel h b

/-- slist.go `Pop` -/
def pop (h : Heap) : ListRes Heap := do
  let hd ← load h 0                                 -- head := &l.SingleNode
  match hd.next with
  | none => pure h                                  -- head = nil  (a local)
  | some _ => do
    let tmp ← popLoop (h.length + 1) h 0
    let tn ← load h tmp
    pure (h.set tmp { tn with next := none })       -- tmp.next = nil

/-- slist.go `Shift` -/
def shift (h : Heap) : ListRes Heap := do
  let hd ← load h 0
  match hd.next with
  | none => pure h
  | some b => do
    let bn ← load h b                               -- head = head.next
    pure (h.set 0 bn)                               -- l.SingleNode = *head

/-- `for head.next != nil && head != node { prev = *head; head = head.next }` — returns `(head, prev)` -/
def deleteLoop : Nat → Heap → Nat → Nat → Node → ListRes (Nat × Node)
  | 0, _, _, _, _ => .hang
  | fuel + 1, h, head, node, prev =>
    match h[head]? with
    | none => .stuck
    | some hn =>
      match hn.next with
      | none => .ok (head, prev)
      | some b => if head = node then .ok (head, prev) else deleteLoop fuel h b node hn

/-- slist.go `Delete(node)` -/
def delete (h : Heap) (node : Option Nat) : ListRes (Heap × Ans) :=
  match node with
  | none => pure (h, .err)                          -- if node == nil { return error }
  | some a => do
  let nd ← load h a                                 -- node.Value
  let (h1, r) ← find h nd.val
  match r with
  | none => pure (h1, .err)
  | some _ =>
    if 0 = a then do                                -- head == node
      let hd ← load h1 0
      match hd.next with
      | none => pure (h1, .err)                     -- only one element
      | some b => do
        let bn ← load h1 b
        pure (h1.set 0 bn, .ok)                     -- l.SingleNode = *head.next
    else do
      let (head, prev) ← deleteLoop (h1.length + 1) h1 0 a ⟨0, none⟩   -- prev := SingleNode[T]{}
      let hn ← load h1 head
      match hn.next with
      | none => do                                  -- the node is the last one
        let h2 ← pop h1
        pure (h2, .ok)
      | some s => do
        let t ← ListRes.deref prev.next
        let sn ← load h1 s
        let _ ← load h1 t
        pure (h1.set t sn, .ok)                     -- *prev.next = *head.next

/-- the loop `for node := &l.SingleNode; node != nil; node = node.next { fn(node.Value) }` (a walk with a local
pointer: the store is not written) -/
def eachLoop : Nat → Heap → Option Nat → ListRes (List Int)
  | 0, _, _ => .hang
  | fuel + 1, h, n =>
    match n with
    | none => .ok []
    | some a =>
      match h[a]? with
      | none => .stuck
      | some nd =>
        match eachLoop fuel h nd.next with
        | .ok vs => .ok (nd.val :: vs)
        | .panic => .panic
        | .hang => .hang
        | .stuck => .stuck

/-- slist.go `Each` with the logging callback: the values passed to `fn`, in order (the store is returned unchanged). -/
def each (h : Heap) : ListRes (Heap × List Int) := do
  let vs ← eachLoop (h.length + 1) h (some 0)
  pure (h, vs)

/-- The methods `SList` has (it has no `InsertBefore`, `First`, `Last`). -/
def supported : Op → Bool
  | .insertBefore _ _ | .first | .last => false
  | _ => true

/-- One harness operation (`slistRunner.Do`): handles are fetched with `Find` immediately before
use, and an edit is not attempted when `Find` fails. -/
def step (h : Heap) : Op → ListRes (Heap × Ans)
  | .unshift v => do let h' ← unshift h v; pure (h', .ok)
  | .append v => do let h' ← append h v; pure (h', .ok)
  | .shift => do let h' ← shift h; pure (h', .ok)
  | .pop => do let h' ← pop h; pure (h', .ok)
  | .insertAfter x v => do
    let (h1, r) ← find h x
    match r with
    | none => pure (h1, .notFound)
    | some a => insertAfter h1 (some a) v
  | .delete x => do
    let (h1, r) ← find h x
    match r with
    | none => pure (h1, .notFound)
    | some a => delete h1 (some a)
  | .replace o n => replace h o n
  | .find x => do let (h1, r) ← find h x; pure (h1, .bool r.isSome)
  | .each => pure (h, .none)
  | .insertBefore _ _ => .stuck
  | .first => .stuck
  | .last => .stuck

/-- operation followed by the observation the harness makes after every step (`Each`) -/
def stepObs (h : Heap) (op : Op) : ListRes (Heap × Ans × List Int) := do
  let (h1, ans) ← step h op
  let (h2, seq) ← each h1
  pure (h2, ans, seq)

/-- a whole history: the observations, or the first abnormal outcome -/
def run (h : Heap) : List Op → ListRes (List (Ans × List Int))
  | [] => .ok []
  | op :: ops =>
    match stepObs h op with
    | .ok (h', ans, seq) =>
      match run h' ops with
      | .ok obs => .ok ((ans, seq) :: obs)
      | .panic => .panic
      | .hang => .hang
      | .stuck => .stuck
    | .panic => .panic
    | .hang => .hang
    | .stuck => .stuck

end SList
end GoguVerif.Model
