import GoguVerif.Model.SList
/-!
# Pointer-level model of `list/dlist.go` (`DList`), as of the repairs 823c4f5 (`relink`) and
bbb5d89 (`Find`/`Last` do not write)

Same conventions as `Model/SList.lean`: the store is `List Node`, **address 0 is the head node
embedded by value in the `DList` struct**, struct copies whose address escapes allocate a new cell
(`head` in `Unshift` and in the head branch of `InsertBefore`), `*p = *q` is `store.set p store[q]`,
nil dereference = `panic`, fuel exhaustion = `hang` (cyclic chain), dangling address = `stuck`.
`Shift`/`Pop` return a pointer to a fresh local copy of a node; the model returns that copy's
contents.  Every method follows the Go code statement by statement; where a statement re-reads a
field through a pointer that an earlier statement of the same method may have written (aliasing),
the model re-reads it from the current store.

Core Lean only (linked into the driver).
-/
namespace GoguVerif.Model.DList
open GoguVerif.Model
open GoguVerif.Spec.C19 (Op Ans)

structure Node where
  val : Int
  next : Option Nat
  prev : Option Nat
deriving DecidableEq, Repr

abbrev Heap := List Node

def load (h : Heap) (a : Nat) : ListRes Node :=
  match h[a]? with
  | some n => .ok n
  | none => .stuck

/-- `InitDList(value)` -/
def init (v : Int) : Heap := [⟨v, none, none⟩]

/-- dlist.go `relink`: re-point the prev pointers around the (replaced) head. -/
def relink (h : Heap) : ListRes Heap := do
  let hd ← load h 0
  let h1 := h.set 0 { hd with prev := none }                -- l.prev = nil
  match hd.next with
  | none => pure h1                                         -- l.next == nil
  | some b => do
    let nb ← load h1 b
    let h2 := h1.set b { nb with prev := some 0 }           -- l.next.prev = &l.DoubleNode
    match nb.next with                                      -- l.next.next  (relink never writes a next field)
    | none => pure h2
    | some c => do
      let nc ← load h2 c
      pure (h2.set c { nc with prev := some b })            -- l.next.next.prev = l.next

/-- dlist.go `Unshift` -/
def unshift (h : Heap) (v : Int) : ListRes Heap := do
  -- newNode := newDNode(value)                             (local until copied into the head)
  let head ← load h 0                                       -- head := l.DoubleNode  (copy, escapes)
  let a := h.length
  let h1 := h ++ [head]
  -- newNode.next = &head;  l.DoubleNode = *newNode;  l.relink()
  relink (h1.set 0 ⟨v, some a, none⟩)

/-- `for head.next != nil { head = head.next }` (`Append`, `Last`) -/
def lastAddr : Nat → Heap → Nat → ListRes Nat
  | 0, _, _ => .hang
  | fuel + 1, h, a =>
    match h[a]? with
    | none => .stuck
    | some n =>
      match n.next with
      | none => .ok a
      | some b => lastAddr fuel h b

/-- dlist.go `Append` -/
def append (h : Heap) (v : Int) : ListRes Heap := do
  let hd ← load h 0                                         -- head := &l.DoubleNode
  -- if l.next == nil { l.DoubleNode = *head }               (self-assignment)
  let h0 := match hd.next with
    | none => h.set 0 hd
    | some _ => h
  let a ← lastAddr (h0.length + 1) h0 0
  let n ← load h0 a
  let new := h0.length                                      -- newNode := newDNode(value)
  -- newNode.next = head.next;  head.next = newNode;  newNode.prev = head
  pure ((h0 ++ [(⟨v, n.next, some a⟩ : Node)]).set a { n with next := some new })

/-- `for n := &l.DoubleNode; n != nil; n = n.next { if n.Value == val { return n, true } }` -/
def findLoop : Nat → Heap → Option Nat → Int → ListRes (Option Nat)
  | 0, _, _, _ => .hang
  | fuel + 1, h, n, v =>
    match n with
    | none => .ok none
    | some a =>
      match h[a]? with
      | none => .stuck
      | some nd => if nd.val = v then .ok (some a) else findLoop fuel h nd.next v

/-- dlist.go `Find` (read-only since bbb5d89) -/
def find (h : Heap) (v : Int) : ListRes (Option Nat) :=
  findLoop (h.length + 1) h (some 0) v

/-- the pointer surgery of `InsertBefore` (everything after the two guards); `head` is the copy
`head := l.DoubleNode` taken on entry -/
def insertBeforeLink (h : Heap) (head : Node) (a : Nat) (nd : Node) (v : Int) : ListRes (Heap × Ans) :=
  let new := h.length                                       -- newNode := newDNode(value)
  -- newNode.prev = node.prev;  node.prev = newNode;  newNode.next = node
  let h1 := (h ++ [(⟨v, some a, nd.prev⟩ : Node)]).set a { nd with prev := some new }
  match nd.prev with
  | some p => do                                            -- newNode.prev.next = newNode
    let pn ← load h1 p
    pure (h1.set p { pn with next := some new }, .ok)
  | none => do
    let ahead := h1.length
    let h2 := h1 ++ [head]
    let nn ← load h2 new
    let h3 := h2.set new { nn with next := some ahead }     -- newNode.next = &head
    let nn ← load h3 new
    let h4 ← relink (h3.set 0 nn)                           -- l.DoubleNode = *newNode;  l.relink()
    pure (h4, .ok)

/-- dlist.go `InsertBefore(node, value)` -/
def insertBefore (h : Heap) (node : Option Nat) (v : Int) : ListRes (Heap × Ans) := do
  let head ← load h 0                                       -- head := l.DoubleNode  (copy; its address is used only in the else-branch)
  match node with
  | none => pure (h, .err)
  | some a => do
    let nd ← load h a
    let r ← find h nd.val                                   -- l.Find(node.Value)
    match r with
    | none => pure (h, .err)
    | some _ => insertBeforeLink h head a nd v

/-- the pointer surgery of `InsertAfter` (everything after the two guards) -/
def insertAfterLink (h : Heap) (a : Nat) (nd : Node) (v : Int) : ListRes (Heap × Ans) :=
  let new := h.length                                       -- newNode := newDNode(value)
  -- newNode.next = node.next;  node.next = newNode;  newNode.prev = node
  let h1 := (h ++ [(⟨v, nd.next, some a⟩ : Node)]).set a { nd with next := some new }
  match nd.next with                                        -- newNode.next != nil
  | none => pure (h1, .ok)
  | some n => do
    let nn ← load h1 n
    pure (h1.set n { nn with prev := some new }, .ok)       -- newNode.next.prev = newNode

/-- dlist.go `InsertAfter(node, value)` -/
def insertAfter (h : Heap) (node : Option Nat) (v : Int) : ListRes (Heap × Ans) :=
  match node with
  | none => pure (h, .err)
  | some a => do
    let nd ← load h a
    let r ← find h nd.val
    match r with
    | none => pure (h, .err)
    | some _ => insertAfterLink h a nd v

/-- the `for { … }` loop of `Replace` -/
def replaceLoop : Nat → Heap → Nat → Int → Int → ListRes (Heap × Ans)
  | 0, _, _, _, _ => .hang
  | fuel + 1, h, a, o, n =>
    match h[a]? with
    | none => .stuck
    | some nd =>
      match nd.next with
      | none =>
        if nd.val = o then .ok (h.set a { nd with val := n }, .ok) else .ok (h, .err)
      | some b =>
        if nd.val = o then .ok (h.set a { nd with val := n }, .ok) else replaceLoop fuel h b o n

/-- dlist.go `Replace` -/
def replace (h : Heap) (o n : Int) : ListRes (Heap × Ans) :=
  replaceLoop (h.length + 1) h 0 o n

/-- the unlinking of a non-head node at the end of `Delete` -/
def deleteUnlink (h : Heap) (a : Nat) (nd : Node) : ListRes (Heap × Ans) := do
  -- if node.next != nil { node.next.prev = node.prev }
  let h1 ← match nd.next with
    | none => pure h
    | some n => do
      let nn ← load h n
      pure (h.set n { nn with prev := nd.prev })
  -- if node.prev != nil { node.prev.next = node.next }
  let nd1 ← load h1 a
  match nd1.prev with
  | none => pure (h1, .ok)
  | some p => do
    let pn ← load h1 p
    pure (h1.set p { pn with next := nd1.next }, .ok)

/-- dlist.go `Delete(node)` -/
def delete (h : Heap) (node : Option Nat) : ListRes (Heap × Ans) :=
  match node with
  | none => pure (h, .err)                                  -- if node == nil { return error }
  | some a => do
  let nd ← load h a                                         -- node.Value
  let r ← find h nd.val
  match r with
  | none => pure (h, .err)
  | some _ => do
    let hd ← load h 0                                       -- head := &l.DoubleNode
    if hd.next.isNone && hd.prev.isNone then pure (h, .err)
    else if 0 = a then do                                   -- head == node
      let b ← ListRes.deref hd.next
      let bn ← load h b
      let h' ← relink (h.set 0 bn)                          -- l.DoubleNode = *head.next;  l.relink()
      pure (h', .ok)
    else deleteUnlink h a nd

/-- dlist.go `Shift`: returns the contents of the copy `node` it hands out. -/
def shift (h : Heap) : ListRes (Heap × Node) := do
  let node ← load h 0                                       -- node := l.DoubleNode
  match node.next with
  | none =>
    -- head.next = nil; head.prev = nil; head.Value = zero; l.DoubleNode = *head
    pure (h.set 0 ⟨0, none, none⟩, node)
  | some b => do
    let bn ← load h b                                       -- head = head.next
    let h' ← relink (h.set 0 bn)                            -- l.DoubleNode = *head;  l.relink()
    pure (h', node)

/-- `for tmp.next.next != nil { tmp = tmp.next; node = *tmp }` — returns `(tmp, node)` -/
def popLoop : Nat → Heap → Nat → Node → ListRes (Nat × Node)
  | 0, _, _, _ => .hang
  | fuel + 1, h, tmp, node =>
    match h[tmp]? with
    | none => .stuck
    | some tn =>
      match tn.next with
      | none => .panic                                       -- tmp.next.next with tmp.next == nil
      | some b =>
        match h[b]? with
        | none => .stuck
        | some bn =>
          match bn.next with
          | none => .ok (tmp, node)
          | some _ => popLoop fuel h b bn

/-- dlist.go `Pop`: returns the contents of the copy `node` it hands out. -/
def pop (h : Heap) : ListRes (Heap × Node) := do
  let hd ← load h 0                                         -- head := &l.DoubleNode; node := DoubleNode[T]{}
  match hd.next with
  | none => pure (h, ⟨0, none, none⟩)                       -- head = nil  (a local)
  | some _ => do
    let (tmp, node) ← popLoop (h.length + 1) h 0 hd         -- tmp := head; node = *tmp; for …
    let tn ← load h tmp
    pure (h.set tmp { tn with next := none }, node)         -- tmp.next = nil

/-- dlist.go `First` -/
def first (h : Heap) : ListRes Int := do
  let head ← load h 0
  pure head.val

/-- dlist.go `Last` (read-only since bbb5d89) -/
def last (h : Heap) : ListRes Int := do
  let a ← lastAddr (h.length + 1) h 0
  let n ← load h a
  pure n.val

/-- the loop `for node := &l.DoubleNode; node != nil; node = node.next { fn(node.Value) }` (a walk with a local
pointer: the store is not written) -/
def eachLoop : Nat → Heap → Option Nat → ListRes (List Int)
  | 0, _, _ => .hang
  | fuel + 1, h, n =>
    match n with
    | none => .ok []
    | some a =>
      match h[a]? with
      | none => .stuck
      | some nd =>
        match eachLoop fuel h nd.next with
        | .ok vs => .ok (nd.val :: vs)
        | .panic => .panic
        | .hang => .hang
        | .stuck => .stuck

/-- dlist.go `Each` with the logging callback (the store is returned unchanged) -/
def each (h : Heap) : ListRes (Heap × List Int) := do
  let vs ← eachLoop (h.length + 1) h (some 0)
  pure (h, vs)

/-- dlist.go `Clear` -/
def clear (h : Heap) : ListRes Heap := do
  let hd ← load h 0
  pure (h.set 0 { hd with next := none, prev := none })

/-- dlist.go `Val(node)` -/
def val (h : Heap) (node : Option Nat) : ListRes Int := do
  let a ← ListRes.deref node
  let nd ← load h a
  pure nd.val

/-! ## the verif hook `VerifDump` (raw next/prev structure, addresses canonicalised) -/

/-- nodes reachable through `next`, in order, at most `limit`; `true` if the chain runs into itself -/
def dumpWalk : Nat → Heap → Option Nat → List Nat → ListRes (List Nat × Bool)
  | 0, _, _, acc => .ok (acc, false)
  | fuel + 1, h, n, acc =>
    match n with
    | none => .ok (acc, false)
    | some a =>
      if a ∈ acc then .ok (acc, true)
      else match h[a]? with
        | none => .stuck
        | some nd => dumpWalk fuel h nd.next (acc ++ [a])

def dumpCells (h : Heap) (nodes : List Nat) : List Nat → ListRes (List Int × List Int)
  | [] => .ok ([], [])
  | a :: r =>
    match h[a]? with
    | none => .stuck
    | some nd =>
      let p : Int := match nd.prev with
        | none => -1
        | some q => if q ∈ nodes then (nodes.idxOf q : Nat) else -2
      match dumpCells h nodes r with
      | .ok (vs, ps) => .ok (nd.val :: vs, p :: ps)
      | .panic => .panic
      | .hang => .hang
      | .stuck => .stuck

/-- `VerifDump(limit)`: values along the next-chain, for each node the chain position its prev
pointer refers to (`-1` nil, `-2` off the chain), and whether the chain is cyclic. -/
def dump (h : Heap) (limit : Nat) : ListRes (List Int × List Int × Bool) := do
  let (nodes, cyc) ← dumpWalk limit h (some 0) []
  let (vs, ps) ← dumpCells h nodes nodes
  pure (vs, ps, cyc)

/-- One harness operation (`dlistRunner.Do`). -/
def step (h : Heap) : Op → ListRes (Heap × Ans)
  | .unshift v => do let h' ← unshift h v; pure (h', .ok)
  | .append v => do let h' ← append h v; pure (h', .ok)
  | .shift => do let (h', n) ← shift h; pure (h', .val n.val)        -- l.Val(l.Shift())
  | .pop => do let (h', _) ← pop h; pure (h', .ok)
  | .insertAfter x v => do
    let r ← find h x
    match r with
    | none => pure (h, .notFound)
    | some a => insertAfter h (some a) v
  | .insertBefore x v => do
    let r ← find h x
    match r with
    | none => pure (h, .notFound)
    | some a => insertBefore h (some a) v
  | .delete x => do
    let r ← find h x
    match r with
    | none => pure (h, .notFound)
    | some a => delete h (some a)
  | .replace o n => replace h o n
  | .find x => do let r ← find h x; pure (h, .bool r.isSome)
  | .first => do let v ← first h; pure (h, .val v)
  | .last => do let v ← last h; pure (h, .val v)
  | .each => pure (h, .none)

/-- operation followed by the observation the harness makes after every step (`Each`) -/
def stepObs (h : Heap) (op : Op) : ListRes (Heap × Ans × List Int) := do
  let (h1, ans) ← step h op
  let (h2, seq) ← each h1
  pure (h2, ans, seq)

/-- a whole history: the observations, or the first abnormal outcome -/
def run (h : Heap) : List Op → ListRes (List (Ans × List Int))
  | [] => .ok []
  | op :: ops =>
    match stepObs h op with
    | .ok (h', ans, seq) =>
      match run h' ops with
      | .ok obs => .ok ((ans, seq) :: obs)
      | .panic => .panic
      | .hang => .hang
      | .stuck => .stuck
    | .panic => .panic
    | .hang => .hang
    | .stuck => .stuck

end GoguVerif.Model.DList
