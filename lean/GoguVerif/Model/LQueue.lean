import GoguVerif.Spec.C05
import GoguVerif.Model.DSeq
/-!
# Model of `queue/lqueue.go` (linked `LQueue`)

State: the counter `n` and the underlying `list.DList` (as the sequence it holds, see `Model/DSeq`).
Each function follows the Go method statement by statement.  `LQueue.Dequeue` has no error result:
the model answers `.val`.
-/
namespace GoguVerif.Model.LQueue
open GoguVerif.Spec.C05 (Op Out)

variable {α : Type} [Inhabited α] [DecidableEq α]

structure St (α : Type) where
  list : List α
  n : Int
deriving Repr, DecidableEq

/-- `NewLinked(t)` -/
def new (t : α) : St α := { list := DSeq.init t, n := 1 }

def step (s : St α) : Op α → St α × Out α
  | .enqueue x =>
    if s.n = 0 then ({ list := DSeq.init x, n := s.n + 1 }, .unit)      -- l.list = list.InitDList(item)
    else ({ list := DSeq.append s.list x, n := s.n + 1 }, .unit)        -- l.list.Append(item)
  | .dequeue =>
    if s.n = 0 then (s, .val default)                                    -- return (zero value)
    else
      let (l', v) := DSeq.shift s.list                                   -- node := l.list.Shift()
      ({ list := l', n := s.n - 1 }, .val v)                             -- l.n--; return Val(node)
  | .peek => if s.n = 0 then (s, .val default) else (s, .val (DSeq.first s.list))
  | .search x => if s.n = 0 then (s, .bool false) else (s, .bool (DSeq.find s.list x))
  | .size => (s, .int s.n)
  | .clear => ({ list := DSeq.clear s.list, n := 0 }, .unit)

def run (s : St α) : List (Op α) → St α × List (Out α)
  | [] => (s, [])
  | op :: ops =>
    let (s', o) := step s op
    let (s'', os) := run s' ops
    (s'', o :: os)

end GoguVerif.Model.LQueue
