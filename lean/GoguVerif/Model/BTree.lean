import GoguVerif.Gen.Consts
import GoguVerif.Spec.C10
/-!
# Model of `btree/btree.go` (the code as it is after commit f4a9ac1)

Nodes are indexed by their height (`BNode 0` = external node: its entries; `BNode (h+1)` = internal
node: (key, next) entries) — a type-level recursion on the height, so there are no nested inductives
and every function is a structural recursion on the height.  A node is the list of its `m` used
entries `children[0..m)`; the slots `children[m..maxChildren)` hold stale copies in the Go code and
are never read (every read is guarded by `i < n.m`, resp. `i+1 == n.m ||`), so they are not modelled.
In-place mutation of a node is a functional update (nodes are never shared).

Go panics that the code can reach from a malformed node are explicit (`Res.panic`):
* `n.children[n.m]` with `n.m = maxChildren` (index out of range in the shift loop / the store) when a
  new entry is added to a full node;
* an internal node with `m = 0`: Go's `insert` stores an entry with `next = nil` there and the
  *next* descent into it dereferences nil; the height-indexed model cannot hold a nil child, so it
  reports the panic at the insertion already.
`Lemmas/C10.lean` (`insert_spec`) and `Theorems/C10.lean` (`btree_never_panics`) prove that neither is
reachable from `New()`.

`maxChildren` is `GoguVerif.Gen.maxChildren`, regenerated from the source by the translator.
-/
namespace GoguVerif.Model.BTree
open GoguVerif.Gen (maxChildren)
open GoguVerif.Spec.C10 (Op Out)

/-- `entry` of an external node (`next` is nil there). -/
structure Entry where
  key : Int
  val : Int
  removed : Bool
deriving Repr, DecidableEq

/-- Node of height `h`.  Internal entries are `(key, next)`; their `value`/`isRemoved` are never read. -/
@[reducible] def BNode : Nat → Type
  | 0 => List Entry
  | h + 1 => List (Int × BNode h)

/-- Result of a Go call that may panic. -/
inductive Res (α : Type) where
  | ok (a : α)
  | panic
deriving Repr

/-! ## `search` (btree.go:76-98) -/

/-- external node: `for i := 0; i < n.m; i++ { if key == children[i].key { if isRemoved {break}; return value, true } }` -/
def searchLeaf (key : Int) : List Entry → Option Int
  | [] => none
  | e :: r =>
    if key = e.key then (if e.removed then none else some e.val)
    else searchLeaf key r

/-- internal node: `for i := 0; i < n.m; i++ { if i+1 == n.m || key < children[i+1].key { return children[i].next.search(…) } }`;
`f` is the search in a child. -/
def descend {β : Type} (f : β → Option Int) (key : Int) : List (Int × β) → Option Int
  | [] => none
  | (_, c) :: rest =>
    match rest with
    | [] => f c                                             -- i+1 == n.m
    | (k2, _) :: _ => if key < k2 then f c else descend f key rest

def search : (h : Nat) → BNode h → Int → Option Int
  | 0, (es : List Entry), key => searchLeaf key es
  | h + 1, (cs : List (Int × BNode h)), key => descend (fun c => search h c key) key cs

/-! ## `insert` / `split` (btree.go:125-182) -/

/-- `node.children[0].key` — an array read, never a panic; slot 0 of a node with `m = 0` holds the zero entry. -/
def firstKey : (h : Nat) → BNode h → Int
  | 0, (es : List Entry) => match es with
    | [] => 0
    | e :: _ => e.key
  | _ + 1, (cs : List (Int × BNode _)) => match cs with
    | [] => 0
    | (k, _) :: _ => k

/-- External node: the loop that finds `j`, then either the overwrite (`return nil`, flag `false`) or
the shift loop and `n.children[j] = entry` (flag `true`: the node grew).  The new entry is built with
`isRemoved` unset whatever the `isRemoved` argument is. -/
def insLeaf (key val : Int) (rm : Bool) : List Entry → List Entry × Bool
  | [] => ([⟨key, val, false⟩], true)
  | e :: r =>
    if key = e.key then ({ e with val := val, removed := rm } :: r, false)
    else if key < e.key then (⟨key, val, false⟩ :: e :: r, true)
    else match insLeaf key val rm r with
      | (r', g) => (e :: r', g)

/-- `n.m++; if n.m < maxChildren { return nil } else { return t.split(n) }` on the entries `es` *after*
the store.  `split`: `h.children[i] = n.children[maxChildren/2 + i]` for `i < maxChildren/2`, `n.m = maxChildren/2`.
If the node was already full the store `n.children[n.m]` is out of range. -/
def grow {α : Type} (es : List α) : Res (List α × Option (List α)) :=
  if maxChildren < es.length then .panic
  else if es.length < maxChildren then .ok (es, none)
  else .ok (es.take (maxChildren / 2), some ((es.drop (maxChildren / 2)).take (maxChildren / 2)))

/-- What the internal-node loop does with the result of the recursive call on `children[j].next`
(`c` with key `k1`, followed by `rest`). -/
def plug {β : Type} (fk : β → Int) (k1 : Int) (rest : List (Int × β)) :
    Res (β × Option β) → Res (List (Int × β) × Bool)
  | .panic => .panic
  | .ok (c', none) => .ok ((k1, c') :: rest, false)                   -- node == nil: return nil
  | .ok (c', some u) => .ok ((k1, c') :: (fk u, u) :: rest, true)     -- j++; entry = (u.children[0].key, u); shift; store

/-- Internal node: find `j` with `j+1 == n.m || key < children[j+1].key`, recurse, plug the result in.
`ins` is the insertion into a child, `fk` is `firstKey`. -/
def insKids {β : Type} (ins : β → Res (β × Option β)) (fk : β → Int) (key : Int) :
    List (Int × β) → Res (List (Int × β) × Bool)
  | [] => .panic
  | (k1, c) :: rest =>
    match rest with
    | [] => plug fk k1 rest (ins c)
    | (k2, _) :: _ =>
      if key < k2 then plug fk k1 rest (ins c)
      else match insKids ins fk key rest with
        | .panic => .panic
        | .ok (rest', g) => .ok ((k1, c) :: rest', g)

/-- `insert`: the node after the call and the new right sibling if it split. -/
def insert : (h : Nat) → BNode h → Int → Int → Bool → Res (BNode h × Option (BNode h))
  | 0, (es : List Entry), key, val, rm =>
    match insLeaf key val rm es with
    | (es', false) => .ok (es', none)
    | (es', true) => grow es'
  | h + 1, (cs : List (Int × BNode h)), key, val, rm =>
    match insKids (fun c => insert h c key val rm) (firstKey h) key cs with
    | .panic => .panic
    | .ok (cs', false) => .ok (cs', none)
    | .ok (cs', true) => grow cs'

/-! ## `traverse` (btree.go:199-215): the (key, value) sequence handed to the callback -/

def traverse : (h : Nat) → BNode h → List (Int × Int)
  | 0, (es : List Entry) => (es.filter (fun e => !e.removed)).map (fun e => (e.key, e.val))
  | h + 1, (cs : List (Int × BNode h)) => cs.flatMap (fun p => traverse h p.2)

/-! ## `BTree` -/

structure Tree where
  height : Nat
  root : BNode height
  n : Int

/-- `New()` -/
def Tree.new : Tree := ⟨0, ([] : List Entry), 0⟩

def Tree.get (t : Tree) (key : Int) : Option Int := search t.height t.root key

/-- `Put` -/
def Tree.put (t : Tree) (key val : Int) : Res Tree :=
  let n' := match t.get key with                 -- if _, ok := t.Get(key); !ok { t.n++ }
    | none => t.n + 1
    | some _ => t.n
  match insert t.height t.root key val false with
  | .panic => .panic
  | .ok (r, none) => .ok ⟨t.height, r, n'⟩
  | .ok (r, some u) =>                           -- split the root
    .ok ⟨t.height + 1, ([(firstKey t.height r, r), (firstKey t.height u, u)] : List (Int × BNode t.height)), n'⟩

/-- `Remove`: the result of `insert` is discarded (the root keeps its left half if it split). -/
def Tree.remove (t : Tree) (key : Int) : Res Tree :=
  match t.get key with
  | none => .ok t
  | some val =>
    match insert t.height t.root key val true with
    | .panic => .panic
    | .ok (r, _) => .ok ⟨t.height, r, t.n - 1⟩

def step (t : Tree) : Op → Res (Tree × Out)
  | .put k v => match t.put k v with
    | .panic => .panic
    | .ok t' => .ok (t', .unit)
  | .remove k => match t.remove k with
    | .panic => .panic
    | .ok t' => .ok (t', .unit)
  | .get k => .ok (t, .got (t.get k))
  | .size => .ok (t, .int t.n)
  | .isEmpty => .ok (t, .bool (decide (t.n = 0)))
  | .traverse => .ok (t, .items (traverse t.height t.root))
  | .height => .ok (t, .int t.height)

/-- A whole history; stops at the first panic. -/
def run (t : Tree) : List Op → Res (Tree × List Out)
  | [] => .ok (t, [])
  | op :: ops =>
    match step t op with
    | .panic => .panic
    | .ok (t', o) =>
      match run t' ops with
      | .panic => .panic
      | .ok (t'', os) => .ok (t'', o :: os)

end GoguVerif.Model.BTree
