import GoguVerif.Model.StoreHelpers3
import GoguVerif.Model.C14
/-!
# Store-level models of further helpers (C16, fourth batch)

`Model/StoreHelpers.lean`, `StoreHelpers2.lean`, `StoreHelpers3.lean` write 26 helpers over the slice store
(`Model/Store.lean`).  Here more helpers of /repo's root package are written in the same way, *one Go
statement after the other*, with the same conventions (element type `Int`; callbacks are Lean functions; a
`range` loop over a slice evaluates the header once and reads `slice[i]` FROM THE CURRENT STORE in every
iteration; loops are structural recursions on the number of iterations left):

* `Flatten` / `baseFlatten` (slice.go:248-273) — `acc = append(acc, v)`, `acc = append(acc, v...)` and the
  recursion through `[]any`;
* `Union` (slice.go:276-282) — `baseFlatten`, then `Unique(flatten)` (the store-level `uniqueStore`);
* `Range` (range.go:21-67), `RangeRight` (range.go:70-76: `Range`, then `Reverse(ran)` IN PLACE on the slice
  `Range` made);
* `Keys`, `Values`, `MapCollection` (map.go:17-40, 116-125) — `make([]K, len(m))` and one indexed write per
  entry of the MAP argument, in the order `range m` yields them;
* `Pluck` (map.go:192-205) — `[]V{}` + `append`, reading a `[]map[K]V`;
* `FindAll` (find.go:33-43), `SliceToMap` (map.go:281-293) — they only READ their slice arguments and return a
  map object they made themselves.

What is abstracted, in addition to the conventions of the earlier files:
* the three outcomes of a call are kept apart: `Res.ok` (a result), `Res.err` (the Go function RETURNED
  `nil, err`) and `Res.panic` (a run-time panic, the deliberate `panic(…)` of `SliceToMap` included);
* the `any` argument of `Flatten`/`Union` is an `SNested`: a `T`, a `[]T` (a HEADER into the store), a `[]any`
  of such values (a Lean list: its backing array has another element type and is not part of the `Int`
  store), or a value of another type (`bad`);
* `var result []T` (a nil slice) is `make([]T, 0, 0)`, as for `Partition` in `Model/StoreHelpers.lean`: the
  first `append` allocates;
* map arguments live in the map store `MStore` of `Model/StoreHelpers3.lean` (map objects by id; keys and
  values are `Int`); `range m` visits the entries in an order Go leaves open: `order` applied to the entries
  (a parameter, any function); `make(map[…]…)` appends a new map object to the map store; a `[]map[K]V` is a
  Lean list of map ids (its backing array has another element type);
* Go `int`/`T` loop variables that are computed (`i += step`) are unbounded `Int`s; the loops of `Range` get
  the fuel of `Model.C13.rangeFuel` — running out of fuel (`step` pointing away from `end`: the Go loop runs
  until the integer wraps around) is `none` of the loop and `Res.hang` of `rangeStore` (the outcome `hang`
  of `Model/C13.lean`); the theorems say the store-level model hangs exactly when the value-level one does.  `N[T](NumToString(i))` is the identity on
  integers (as in `Model/C13.lean`).

Core Lean only.
-/
namespace GoguVerif.Model.StoreHelpers4
open GoguVerif.Model.Store GoguVerif.Model.StoreHelpers GoguVerif.Model.StoreHelpers3

/-- outcome of a call: a result, a returned `error`, or a run-time panic -/
inductive Res (α : Type) where
  | ok (v : α)
  | err
  | panic
  /-- a loop of the model ran out of fuel (`Range` only) -/
  | hang
deriving Repr, DecidableEq

/-! ## Flatten / baseFlatten (slice.go:248-273) -/

/-- what `Flatten[T]`/`Union[T]` may be handed as `any`: a `T`, a `[]T` (a header into the store), a `[]any`
of such values, or a value of some other type -/
inductive SNested where
  | leaf : Int → SNested
  | slice : Slice → SNested
  | list : List SNested → SNested
  | bad : SNested

mutual
/-- every `[]T` inside the argument is a well-formed header -/
def SNested.WFAll (σ : Store) : SNested → Prop
  | .leaf _ => True
  | .slice s => WF σ s
  | .list vs => SNested.WFList σ vs
  | .bad => True
def SNested.WFList (σ : Store) : List SNested → Prop
  | [] => True
  | v :: vs => SNested.WFAll σ v ∧ SNested.WFList σ vs
end

mutual
/-- `baseFlatten(acc, slice)`; `none` is `return nil, errors.New("flattening error")` (no panic is possible)
```go
switch v := any(slice).(type) {
case T:     acc = append(acc, v)
case []T:   acc = append(acc, v...)
case []any: for _, sv := range v { acc, err = baseFlatten(acc, sv); if err != nil { return nil, … } }
default:    return nil, errors.New("flattening error")
}
return acc, nil
``` -/
def baseFlattenStore : Store → Slice → SNested → Option (Store × Slice)
  | σ, acc, .leaf v => some (append σ acc v)
  | σ, acc, .slice v => some (appendMany σ acc (elems σ v))
  | σ, acc, .list vs => flattenRangeStore σ acc vs
  | _, _, .bad => none
def flattenRangeStore : Store → Slice → List SNested → Option (Store × Slice)
  | σ, acc, [] => some (σ, acc)
  | σ, acc, sv :: rest =>
    match baseFlattenStore σ acc sv with
    | none => none
    | some r => flattenRangeStore r.1 r.2 rest
end

/-- `return baseFlatten([]T{}, slice)` -/
def flattenStore (σ : Store) (slice : SNested) : Res (Store × Slice) :=
  let r := alloc σ 0 0                                            -- []T{}
  match baseFlattenStore r.1 r.2 slice with
  | none => .err
  | some q => .ok q

/-! ## Union (slice.go:276-282) -/

/-- `flatten, err := baseFlatten([]T{}, slice); if err != nil { return nil, err }; return Unique(flatten), nil` -/
def unionStore (σ : Store) (slice : SNested) : Res (Store × Slice) :=
  let r := alloc σ 0 0
  match baseFlattenStore r.1 r.2 slice with
  | none => .err
  | some q =>
    match uniqueStore q.1 q.2 with                                 -- Unique(flatten)
    | none => .panic
    | some u => .ok u

/-! ## Range (range.go:21-67) -/

/-- the first `switch`: `start`, `step`, `end` read from the variadic slice `args` (`Range(xs...)` passes
`xs` itself), and the three checks of `case 3`
```go
switch len(args) {
case 1: step = 1; end = args[len(args)-1]
case 2: start = args[0]; step = 1; end = args[len(args)-1]
case 3: start = args[0]; step = args[1]; end = args[len(args)-1]
        if start > end && end > 0 { return nil, errors.New(…) }
        if step == 0 { return nil, errors.New(…) }
        if step < 0 && end > start { return nil, errors.New(…) }
}
``` -/
def rangeArgs (σ : Store) (args : Slice) : Res (Int × Int × Int) :=
  match args.len with
  | 0 => .ok (0, 0, 0)                                             -- var start, step, end T
  | 1 =>
    match read σ args 0 with
    | some e => .ok (0, 1, e)
    | none => .panic
  | 2 =>
    match read σ args 0, read σ args 1 with
    | some s, some e => .ok (s, 1, e)
    | _, _ => .panic
  | 3 =>
    match read σ args 0, read σ args 1, read σ args 2 with
    | some s, some st, some e =>
      if s > e ∧ e > 0 then .err
      else if st = 0 then .err
      else if st < 0 ∧ e > s then .err
      else .ok (s, st, e)
    | _, _, _ => .panic
  | _ => .err                                                      -- len(args) > 3 (tested first in the source)

/-- `for i := start; i < end; i += step { n, _ := N[T](NumToString(i)); result = append(result, T(n)) }` —
first argument: fuel -/
def rangeUpLoop : Nat → Int → Int → Int → Store → Slice → Option (Store × Slice)
  | 0, _, _, _, _, _ => none
  | f + 1, i, step, end_, σ, result =>
    if i < end_ then
      let r := append σ result i                                   -- result = append(result, T(n))
      rangeUpLoop f (i + step) step end_ r.1 r.2
    else some (σ, result)

/-- `for i := start; end < i; i -= Abs(step) { …; result = append(result, T(n)) }` -/
def rangeDownLoop : Nat → Int → Int → Int → Store → Slice → Option (Store × Slice)
  | 0, _, _, _, _, _ => none
  | f + 1, i, step, end_, σ, result =>
    if end_ < i then
      let r := append σ result i
      rangeDownLoop f (i - abs step) step end_ r.1 r.2
    else some (σ, result)

/-- the fuel of `Model.C13.rangeFuel` -/
def rangeFuel (start end_ : Int) : Nat := (end_ - start).natAbs + 1

def rangeStore (σ : Store) (args : Slice) : Res (Store × Slice) :=
  let r := alloc σ 0 0                                             -- var result []T
  if args.len > 3 then .err                                        -- return nil, errors.New(…)
  else
    match rangeArgs r.1 args with
    | .ok (start, step, end_) =>
      match (if end_ > 0 then rangeUpLoop (rangeFuel start end_) start step end_ r.1 r.2
             else rangeDownLoop (rangeFuel start end_) start step end_ r.1 r.2) with
      | some q => .ok q                                            -- return result, nil
      | none => .hang
    | .err => .err
    | .panic => .panic
    | .hang => .hang

/-! ## RangeRight (range.go:70-76) -/

/-- `ran, err := Range(params...); if err != nil { return nil, err }; return Reverse(ran), nil` — `Reverse`
works IN PLACE on the slice `Range` made and returns it -/
def rangeRightStore (σ : Store) (params : Slice) : Res (Store × Slice) :=
  match rangeStore σ params with
  | .ok (σ1, ran) =>
    match reverseStore σ1 ran with
    | some q => .ok q
    | none => .panic
  | .err => .err
  | .panic => .panic
  | .hang => .hang

/-! ## Keys, Values, MapCollection (map.go:17-40, 116-125): `make([]T, len(m))` + one indexed write per entry -/

/-- `idx := 0; for k, v := range m { result[idx] = g(k, v); idx++ }` over the entries in the order given
(`g(k, v)` is `k` for `Keys`, `v` for `Values`, `fn(v)` for `MapCollection`) -/
def mapFillLoop (g : Int → Int → Int) (result : Slice) : List (Int × Int) → Nat → Store → Option Store
  | [], _, σ => some σ
  | (k, v) :: rest, idx, σ =>
    match write σ result idx (g k v) with                          -- result[idx] = …
    | none => none
    | some σ' => mapFillLoop g result rest (idx + 1) σ'            -- idx++

/-- the common body; the map argument (object `m` of the map store `μ`) is only read -/
def mapFillStoreIn (g : Int → Int → Int) (order : List (Int × Int) → List (Int × Int)) (σ : Store) (μ : MStore)
    (m : Nat) : Option (Store × Slice) :=
  let r := alloc σ (mget μ m).length (mget μ m).length             -- make([]T, len(m))
  match mapFillLoop g r.2 (order (mget μ m)) 0 r.1 with
  | none => none
  | some σ' => some (σ', r.2)                                       -- return result

def keysStoreIn (order : List (Int × Int) → List (Int × Int)) (σ : Store) (μ : MStore) (m : Nat) :
    Option (Store × Slice) := mapFillStoreIn (fun k _ => k) order σ μ m
def valuesStoreIn (order : List (Int × Int) → List (Int × Int)) (σ : Store) (μ : MStore) (m : Nat) :
    Option (Store × Slice) := mapFillStoreIn (fun _ v => v) order σ μ m
def mapCollectionStoreIn (order : List (Int × Int) → List (Int × Int)) (σ : Store) (μ : MStore) (m : Nat)
    (fn : Int → Int) : Option (Store × Slice) := mapFillStoreIn (fun _ v => fn v) order σ μ m

/-! ## Pluck (map.go:192-205) -/

/-- `for _, m := range mapSlice { mapped := FindByKey(m, func(k K) bool { return k == key });
if _, ok := mapped[key]; ok { result = append(result, mapped[key]) } }` — `mapSlice` is the list of the map
ids; `mapped` is a map local to the iteration (`Model.C14.FindByKey`, a fresh map: not slice storage) -/
def pluckLoopS (μ : MStore) (key : Int) : List Nat → Store → Slice → Store × Slice
  | [], σ, result => (σ, result)
  | m :: ms, σ, result =>
    let mapped := Model.C14.FindByKey (fun k => decide (k = key)) (mget μ m)
    match Model.C14.get? mapped key with
    | some _ =>
      let r := append σ result (Model.C14.idx mapped key)          -- result = append(result, mapped[key])
      pluckLoopS μ key ms r.1 r.2
    | none => pluckLoopS μ key ms σ result

def pluckStore (σ : Store) (μ : MStore) (mapSlice : List Nat) (key : Int) : Store × Slice :=
  let r := alloc σ 0 0                                             -- var result = []V{}
  pluckLoopS μ key mapSlice r.1 r.2

/-! ## FindAll (find.go:33-43), SliceToMap (map.go:281-293): slices are only read, the result is a new map -/

/-- `for k, v := range s { if fn(v) { m[k] = v } }` — `m` is the map under construction (`m[k] = v` is
`Model.C14.put`) -/
def findAllLoopS (fn : Int → Bool) (σ : Store) (s : Slice) : Nat → Nat → List (Int × Int) → Option (List (Int × Int))
  | 0, _, m => some m
  | n + 1, k, m =>
    match read σ s k with
    | none => none
    | some v =>
      if fn v then findAllLoopS fn σ s n (k + 1) (Model.C14.put m (k : Int) v)
      else findAllLoopS fn σ s n (k + 1) m

/-- `m := make(map[int]T, len(s)); for …; return m`: the slice store is returned as it came, the map store
gets ONE new object, the result is its id -/
def findAllStore (σ : Store) (μ : MStore) (s : Slice) (fn : Int → Bool) : Option (Store × MStore × Nat) :=
  match findAllLoopS fn σ s s.len 0 [] with
  | none => none
  | some m => some (σ, μ ++ [m], μ.length)

/-- `for i := 0; i < len(s1); i++ { result[s1[i]] = s2[i] }` -/
def sliceToMapLoopS (σ : Store) (s1 s2 : Slice) : Nat → Nat → List (Int × Int) → Option (List (Int × Int))
  | 0, _, result => some result
  | n + 1, i, result =>
    match read σ s1 i, read σ s2 i with
    | some k, some v => sliceToMapLoopS σ s1 s2 n (i + 1) (Model.C14.put result k v)
    | _, _ => none

def sliceToMapStore (σ : Store) (μ : MStore) (s1 s2 : Slice) : Option (Store × MStore × Nat) :=
  -- var result = make(map[K]T)
  if s1.len ≠ s2.len then none                                     -- panic("the paremeter slices should have identical length")
  else
    match sliceToMapLoopS σ s1 s2 s1.len 0 [] with
    | none => none
    | some m => some (σ, μ ++ [m], μ.length)

end GoguVerif.Model.StoreHelpers4
