/-!
# Model of the map helpers of `map.go` and `filter.go` (property C14)

A Go map is an association list with unique keys; the ORDER of the list is the order in which
`for k, v := range m` happens to visit the entries in this call, so every statement about these
functions is a statement for every such list (Go leaves the order open and randomises it).

Every function is the loop it is in the Go source.  `m[k] = v` is `put`, `delete(m, k)` is `del`,
the one-result index expression `m[k]` is `idx` (Go defines it to be the zero value for a missing
key: that is the language's semantics, not a hidden panic), `_, ok := m[k]` is `get?`.  Index
expressions on SLICES can panic; they are `storeAt` / `s[i]?` with an explicit `panic` outcome.
Core Lean only.
-/
namespace GoguVerif.Model.C14

/-- Result of a Go call that may panic. -/
inductive Outcome (α : Type) where
  | ok : α → Outcome α
  | panic : Outcome α
deriving Repr, DecidableEq

/-- A Go map in the iteration order of this call. -/
abbrev GoMap (K V : Type) := List (K × V)

variable {K V R α : Type}

/-! ## Map primitives -/

/-- `v, ok := m[k]` -/
def get? [DecidableEq K] : GoMap K V → K → Option V
  | [], _ => none
  | (k', v) :: r, k => if k' = k then some v else get? r k

/-- `m[k]` as a one-result expression: the zero value when the key is missing (Go semantics). -/
def idx [DecidableEq K] [Inhabited V] (m : GoMap K V) (k : K) : V :=
  match get? m k with
  | some v => v
  | none => default

/-- `m[k] = v` -/
def put [DecidableEq K] : GoMap K V → K → V → GoMap K V
  | [], k, v => [(k, v)]
  | (k', v') :: r, k, v => if k' = k then (k, v) :: r else (k', v') :: put r k v

/-- `delete(m, k)` -/
def del [DecidableEq K] : GoMap K V → K → GoMap K V
  | [], _ => []
  | (k', v') :: r, k => if k' = k then r else (k', v') :: del r k

/-- `s[i] = x` on a slice: panics when `i` is out of range. -/
def storeAt : List α → Nat → α → Outcome (List α)
  | [], _, _ => .panic
  | _ :: r, 0, x => .ok (x :: r)
  | y :: r, i + 1, x =>
    match storeAt r i x with
    | .ok r' => .ok (y :: r')
    | .panic => .panic

/-- `gogu.Contains` (slice.go): `for _, v := range slice { if v == value { return true } }` -/
def Contains [DecidableEq α] : List α → α → Bool
  | [], _ => false
  | v :: r, x => if v = x then true else Contains r x

/-! ## Keys, Values -/

/-- `for k := range m { keys[idx] = k; idx++ }` -/
def keysLoop : GoMap K V → List K → Nat → Outcome (List K)
  | [], keys, _ => .ok keys
  | (k, _) :: r, keys, i =>
    match storeAt keys i k with
    | .panic => .panic
    | .ok keys' => keysLoop r keys' (i + 1)

/-- `keys := make([]K, len(m))`, then the loop. -/
def Keys [Inhabited K] (m : GoMap K V) : Outcome (List K) :=
  keysLoop m (List.replicate m.length default) 0

def valuesLoop : GoMap K V → List V → Nat → Outcome (List V)
  | [], values, _ => .ok values
  | (_, v) :: r, values, i =>
    match storeAt values i v with
    | .panic => .panic
    | .ok values' => valuesLoop r values' (i + 1)

def Values [Inhabited V] (m : GoMap K V) : Outcome (List V) :=
  valuesLoop m (List.replicate m.length default) 0

/-! ## MapValues, MapKeys -/

def mapValuesLoop [DecidableEq K] (fn : V → R) : GoMap K V → GoMap K R → GoMap K R
  | [], newMap => newMap
  | (k, v) :: r, newMap => mapValuesLoop fn r (put newMap k (fn v))

def MapValues [DecidableEq K] (m : GoMap K V) (fn : V → R) : GoMap K R := mapValuesLoop fn m []

def mapKeysLoop [DecidableEq R] (fn : K → V → R) : GoMap K V → GoMap R V → GoMap R V
  | [], newMap => newMap
  | (k, v) :: r, newMap => mapKeysLoop fn r (put newMap (fn k v) v)

def MapKeys [DecidableEq R] (m : GoMap K V) (fn : K → V → R) : GoMap R V := mapKeysLoop fn m []

/-! ## MapEvery, MapSome, MapContains -/

def MapEvery (fn : V → Bool) : GoMap K V → Bool
  | [] => true
  | (_, v) :: r => if !fn v then false else MapEvery fn r

def MapSome (fn : V → Bool) : GoMap K V → Bool
  | [] => false
  | (_, v) :: r => if fn v then true else MapSome fn r

def MapContains [DecidableEq V] (value : V) : GoMap K V → Bool
  | [] => false
  | (_, v) :: r => if v = value then true else MapContains value r

/-! ## MapUnique -/

/-- `if _, ok := ref[v]; !ok { ref[v] = true; result[k] = v }` -/
def mapUniqueLoop [DecidableEq K] [DecidableEq V] :
    GoMap K V → GoMap K V → GoMap V Bool → GoMap K V
  | [], result, _ => result
  | (k, v) :: r, result, ref =>
    match get? ref v with
    | some _ => mapUniqueLoop r result ref
    | none => mapUniqueLoop r (put result k v) (put ref v true)

def MapUnique [DecidableEq K] [DecidableEq V] (m : GoMap K V) : GoMap K V := mapUniqueLoop m [] []

/-! ## Find, FindKey, FindByKey -/

/-- insertion into an ascending list -/
def insertSorted (x : Int) : List Int → List Int
  | [] => [x]
  | y :: r => if x ≤ y then x :: y :: r else y :: insertSorted x r

/-- `sort.Slice(keys, func(i, j int) bool { return keys[i] < keys[j] })`: the keys in ascending order
(sort.Slice itself is modelled, not verified: DESIGN §6; an insertion sort, so that `decide` can
evaluate the model). -/
def sortKeys (keys : List Int) : List Int := keys.foldr insertSorted []

/-- `for _, k := range keys { if fn(m[k]) { result[k] = m[k]; break } }` -/
def findLoop [Inhabited V] (m : GoMap Int V) (fn : V → Bool) : List Int → GoMap Int V
  | [] => []
  | k :: ks => if fn (idx m k) then put [] k (idx m k) else findLoop m fn ks

/-- `Find` (keys are `Int`: the Go constraint is `constraints.Ordered`). -/
def Find [Inhabited V] (m : GoMap Int V) (fn : V → Bool) : Outcome (GoMap Int V) :=
  match keysLoop m (List.replicate m.length default) 0 with
  | .panic => .panic
  | .ok keys => .ok (findLoop m fn (sortKeys keys))

/-- `var result K; for k, v := range m { if fn(v) { result = k; break } }` -/
def FindKey [Inhabited K] (fn : V → Bool) : GoMap K V → K
  | [] => default
  | (k, v) :: r => if fn v then k else FindKey fn r

def FindByKey [DecidableEq K] (fn : K → Bool) : GoMap K V → GoMap K V
  | [] => []
  | (k, v) :: r => if fn k then put [] k v else FindByKey fn r

/-! ## Invert -/

/-- `for i := 0; i < len(keys); i++ { inverted[m[keys[i]]] = keys[i] }` -/
def invertLoop [DecidableEq K] [DecidableEq V] [Inhabited V] (m : GoMap K V) :
    List K → GoMap V K → GoMap V K
  | [], inverted => inverted
  | k :: ks, inverted => invertLoop m ks (put inverted (idx m k) k)

def Invert [DecidableEq K] [DecidableEq V] [Inhabited K] [Inhabited V] (m : GoMap K V) :
    Outcome (GoMap V K) :=
  match Keys m with
  | .panic => .panic
  | .ok keys => .ok (invertLoop m keys [])

/-! ## Pluck -/

/-- `mapped := FindByKey(m, k == key); if _, ok := mapped[key]; ok { result = append(result, mapped[key]) }` -/
def pluckLoop [DecidableEq K] [Inhabited V] (key : K) : List (GoMap K V) → List V → List V
  | [], result => result
  | m :: ms, result =>
    let mapped := FindByKey (fun k => decide (k = key)) m
    match get? mapped key with
    | some _ => pluckLoop key ms (result ++ [idx mapped key])
    | none => pluckLoop key ms result

def Pluck [DecidableEq K] [Inhabited V] (mapSlice : List (GoMap K V)) (key : K) : List V :=
  pluckLoop key mapSlice []

/-! ## Pick, PickBy, Omit, OmitBy -/

/-- `for k := range collection { if Contains(keys, k) { result[k] = collection[k] } }` -/
def pickLoop [DecidableEq K] [Inhabited V] (collection : GoMap K V) (keys : List K) :
    GoMap K V → GoMap K V → GoMap K V
  | [], result => result
  | (k, _) :: r, result =>
    if Contains keys k then pickLoop collection keys r (put result k (idx collection k))
    else pickLoop collection keys r result

/-- second component: an error was returned (`len(keys) == 0`) -/
def Pick [DecidableEq K] [Inhabited V] (collection : GoMap K V) (keys : List K) : GoMap K V × Bool :=
  if keys.length = 0 then ([], true) else (pickLoop collection keys collection [], false)

def pickByLoop [DecidableEq K] [Inhabited V] (collection : GoMap K V) (fn : K → V → Bool) :
    GoMap K V → GoMap K V → GoMap K V
  | [], result => result
  | (k, v) :: r, result =>
    if fn k v then pickByLoop collection fn r (put result k (idx collection k))
    else pickByLoop collection fn r result

def PickBy [DecidableEq K] [Inhabited V] (collection : GoMap K V) (fn : K → V → Bool) : GoMap K V :=
  pickByLoop collection fn collection []

/-- `for k := range collection { if Contains(keys, k) { delete(collection, k) } }`: first argument
= the entries the range still has to visit, second = the map as it is now.  (Only the entry being
visited is ever deleted, so the range visits exactly the original entries.) -/
def omitLoop [DecidableEq K] (keys : List K) : GoMap K V → GoMap K V → GoMap K V
  | [], collection => collection
  | (k, _) :: r, collection =>
    if Contains keys k then omitLoop keys r (del collection k) else omitLoop keys r collection

/-- returns (and has modified) its argument -/
def Omit [DecidableEq K] (collection : GoMap K V) (keys : List K) : GoMap K V :=
  omitLoop keys collection collection

def omitByLoop [DecidableEq K] (fn : K → V → Bool) : GoMap K V → GoMap K V → GoMap K V
  | [], collection => collection
  | (k, v) :: r, collection =>
    if fn k v then omitByLoop fn r (del collection k) else omitByLoop fn r collection

def OmitBy [DecidableEq K] (collection : GoMap K V) (fn : K → V → Bool) : GoMap K V :=
  omitByLoop fn collection collection

/-! ## PartitionMap -/

/-- Per map: the inner `range` runs its body at most once (both branches `break`): for the first
entry visited, `m[k] = v`, then the map goes to `result[0]` or `result[1]`; an empty map is skipped. -/
def partitionLoop [DecidableEq K] (fn : GoMap K V → Bool) :
    List (GoMap K V) → List (GoMap K V) × List (GoMap K V) → List (GoMap K V) × List (GoMap K V)
  | [], result => result
  | m :: ms, result =>
    match m with
    | [] => partitionLoop fn ms result
    | (k, v) :: _ =>
      let m' := put m k v
      if fn m' then partitionLoop fn ms (result.1 ++ [m'], result.2)
      else partitionLoop fn ms (result.1, result.2 ++ [m'])

def PartitionMap [DecidableEq K] (mapSlice : List (GoMap K V)) (fn : GoMap K V → Bool) :
    List (GoMap K V) × List (GoMap K V) :=
  partitionLoop fn mapSlice ([], [])

/-! ## SliceToMap -/

/-- `for i := 0; i < len(s1); i++ { result[s1[i]] = s2[i] }` — first argument: iterations left. -/
def sliceToMapLoop [DecidableEq K] (s1 : List K) (s2 : List V) :
    Nat → Nat → GoMap K V → Outcome (GoMap K V)
  | 0, _, result => .ok result
  | n + 1, i, result =>
    match s1[i]?, s2[i]? with
    | some k, some v => sliceToMapLoop s1 s2 n (i + 1) (put result k v)
    | _, _ => .panic

/-- panics (deliberately) when the lengths differ -/
def SliceToMap [DecidableEq K] (s1 : List K) (s2 : List V) : Outcome (GoMap K V) :=
  if s1.length ≠ s2.length then .panic else sliceToMapLoop s1 s2 s1.length 0 []

/-! ## filter.go: FilterMap, FilterMapCollection, Filter2DMapCollection -/

def filterMapLoop [DecidableEq K] (fn : V → Bool) : GoMap K V → GoMap K V → GoMap K V
  | [], filtered => filtered
  | (k, v) :: r, filtered =>
    if fn v then filterMapLoop fn r (put filtered k v) else filterMapLoop fn r filtered

def FilterMap [DecidableEq K] (m : GoMap K V) (fn : V → Bool) : GoMap K V := filterMapLoop fn m []

/-- inner loop `for _, v := range item { if fn(v) { filtered = append(filtered, item); break } }` -/
def filterInner (fn : V → Bool) (item : GoMap K V) :
    GoMap K V → List (GoMap K V) → List (GoMap K V)
  | [], filtered => filtered
  | (_, v) :: r, filtered => if fn v then filtered ++ [item] else filterInner fn item r filtered

def filterCollLoop (fn : V → Bool) : List (GoMap K V) → List (GoMap K V) → List (GoMap K V)
  | [], filtered => filtered
  | item :: r, filtered => filterCollLoop fn r (filterInner fn item item filtered)

def FilterMapCollection (collection : List (GoMap K V)) (fn : V → Bool) : List (GoMap K V) :=
  filterCollLoop fn collection []

/-- same body as `FilterMapCollection`, the values being maps themselves -/
def Filter2DMapCollection (collection : List (GoMap K (GoMap K V))) (fn : GoMap K V → Bool) :
    List (GoMap K (GoMap K V)) :=
  filterCollLoop fn collection []

end GoguVerif.Model.C14
