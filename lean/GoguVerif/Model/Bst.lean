import GoguVerif.Spec.C04
/-!
# Model of `bstree/bstree.go` (+ `gogu.Compare` from `generic.go`)

Tree nodes are never shared, so the pointer structure is an inductive value and the in-place updates
(`n.Left = …`, `n.Val = val`, `n.Key = min.Key`) are functional updates (DESIGN §5).  Each function
follows the Go method statement by statement.  Go's nil dereference (`n.Key` in `upsert`, `n.Left`
in `min` on a nil receiver) is the explicit outcome `none`; `get`, `delete` and `traverse` test
`n == nil` themselves and are total, as in the code.  State of a `BsTree` = `(root, size)`; `size` is
changed exactly where the code changes it — including the unconditional `b.size--` of `Delete`
(known finding `bstree.delete-absent-decrements-size`).

`Traverse` streams the items over a channel from a goroutine; that plumbing is modelled as the
in-order list (DESIGN §6).
-/
namespace GoguVerif.Model.Bst
open GoguVerif.Spec.C04 (Op Out)

inductive Tree (κ ν : Type) where
  | nil
  | node (l : Tree κ ν) (k : κ) (v : ν) (r : Tree κ ν)
deriving Repr

variable {κ ν : Type}

/-- `gogu.Compare(a, b, comp)`: `1` if `comp(a,b)`, else `-1` if `comp(b,a)`, else `0`. -/
def compare (comp : κ → κ → Bool) (a b : κ) : Int :=
  if comp a b then 1 else if comp b a then -1 else 0

/-- `(*Node).get`: `some item` = `(item, nil)`, `none` = `(zero, ErrorNotFound)`. -/
def get (comp : κ → κ → Bool) (key : κ) : Tree κ ν → Option (κ × ν)
  | .nil => none                                               -- n == nil
  | .node l k v r =>
    if compare comp key k = 1 then get comp key l              -- n.Left.get
    else if compare comp key k = -1 then get comp key r        -- n.Right.get
    else some (k, v)                                           -- n.Item, nil

/-- `(*Node).upsert`, threading `b.size`.  Outer `none` = nil dereference of the receiver. -/
def upsertNode (comp : κ → κ → Bool) (key : κ) (val : ν) : Tree κ ν → Int → Option (Tree κ ν × Int)
  | .nil, _ => none                                            -- n.Key on a nil receiver
  | .node l k v r, size =>
    if compare comp key k = 1 then
      match l with
      | .nil => some (.node (.node .nil key val .nil) k v r, size + 1)   -- n.Left = NewNode; b.size++
      | .node ll lk lv lr =>
        match upsertNode comp key val (.node ll lk lv lr) size with      -- n.Left.upsert
        | none => none
        | some (l', size') => some (.node l' k v r, size')
    else if compare comp key k = -1 then
      match r with
      | .nil => some (.node l k v (.node .nil key val .nil), size + 1)   -- n.Right = NewNode; b.size++
      | .node rl rk rv rr =>
        match upsertNode comp key val (.node rl rk rv rr) size with      -- n.Right.upsert
        | none => none
        | some (r', size') => some (.node l k v r', size')
    else some (.node l k val r, size)                                    -- n.Val = val

/-- `(*Node).min`: `for ; n.Left != nil; n = n.Left {}; return n` — the item of the returned node.
`none` = nil dereference of the receiver. -/
def min : Tree κ ν → Option (κ × ν)
  | .nil => none
  | .node .nil k v _ => some (k, v)
  | .node (.node ll lk lv lr) _ _ _ => min (.node ll lk lv lr)

/-- `(*Node).delete`: the new subtree and the error flag (`true` = `nil` error, `false` =
`ErrorNotFound`).  Outer `none` = panic (only through `min`). -/
def delete (comp : κ → κ → Bool) (key : κ) : Tree κ ν → Option (Tree κ ν × Bool)
  | .nil => some (.nil, false)                                 -- return nil, ErrorNotFound
  | .node l k v r =>
    if compare comp key k = 1 then
      match delete comp key l with                             -- n.Left, err = n.Left.delete
      | none => none
      | some (l', e) => some (.node l' k v r, e)
    else if compare comp key k = -1 then
      match delete comp key r with                             -- n.Right, err = n.Right.delete
      | none => none
      | some (r', e) => some (.node l k v r', e)
    else
      match l, r with
      | .nil, .nil => some (.nil, true)                        -- case 1
      | .node ll lk lv lr, .nil => some (.node ll lk lv lr, true)   -- case 2a: return n.Left
      | .nil, .node rl rk rv rr => some (.node rl rk rv rr, true)   -- case 2b: return n.Right
      | .node ll lk lv lr, .node rl rk rv rr =>                -- case 3
        match min (.node rl rk rv rr) with                     -- min := n.Right.min()
        | none => none
        | some (mk, mv) =>
          match delete comp mk (.node rl rk rv rr) with        -- n.Right, err = n.Right.delete(min.Key)
          | none => none
          | some (r', e) => some (.node (.node ll lk lv lr) mk mv r', e)   -- n.Key, n.Val = min.Key, min.Val

/-- `(*Node).traverse`: left subtree, the node's item, right subtree (what arrives on the channel). -/
def traverse : Tree κ ν → List (κ × ν)
  | .nil => []
  | .node l k v r => traverse l ++ (k, v) :: traverse r

/-- Which branch of `delete` the key's node ends in (evidence only). -/
def deleteCase (comp : κ → κ → Bool) (key : κ) : Tree κ ν → String
  | .nil => "absent"
  | .node l k _ r =>
    if compare comp key k = 1 then deleteCase comp key l
    else if compare comp key k = -1 then deleteCase comp key r
    else match l, r with
      | .nil, .nil => "leaf"
      | .node .., .nil => "left-only"
      | .nil, .node .. => "right-only"
      | .node .., .node .. => "two-children"

/-- Longest root-to-leaf path (evidence only). -/
def height : Tree κ ν → Nat
  | .nil => 0
  | .node l _ _ r => Nat.max (height l) (height r) + 1

/-- A `BsTree`: `root` and the `size` counter. -/
structure St (κ ν : Type) where
  root : Tree κ ν := .nil
  size : Int := 0

/-- One exported method call.  `none` = the call panics. -/
def step (comp : κ → κ → Bool) (s : St κ ν) : Op κ ν → Option (St κ ν × Out κ ν)
  | .upsert key val =>
    match s.root with
    | .nil => some ({ root := .node .nil key val .nil, size := s.size + 1 }, .unit)  -- b.root = NewNode; b.size++
    | .node l k v r =>
      match upsertNode comp key val (.node l k v r) s.size with                       -- b.root.upsert
      | none => none
      | some (t, size) => some ({ root := t, size := size }, .unit)
  | .get key =>
    match get comp key s.root with
    | none => some (s, .got none)
    | some (_, v) => some (s, .got (some v))
  | .delete key =>
    match delete comp key s.root with                          -- b.root, err = b.root.delete
    | none => none
    | some (t, found) => some ({ root := t, size := s.size - 1 }, .deleted found)     -- b.size--
  | .size => some (s, .int s.size)
  | .traverse => some (s, .items (traverse s.root))

/-- A whole history; `none` in the output list = that call panicked (the history stops there, as the
harness's case does). -/
def run (comp : κ → κ → Bool) (s : St κ ν) : List (Op κ ν) → St κ ν × List (Option (Out κ ν))
  | [] => (s, [])
  | op :: ops =>
    match step comp s op with
    | none => (s, [none])
    | some (s', o) =>
      let (s'', os) := run comp s' ops
      (s'', some o :: os)

end GoguVerif.Model.Bst
