import GoguVerif.Go.Utf8
/-!
# Model of `/repo/string.go`

Strings are byte lists, `int` is `Int`, a Go run-time panic (slice bounds, negative `Repeat` count) is
the explicit outcome `panic`.  Each function follows the Go source statement by statement.
`unicode.ToLower` / `unicode.ToUpper` are parameters `lo up : Rune → Rune` (the theorems hold for
every pair of functions; the driver instantiates them with the table the harness computed with
package `unicode`).  `strings.TrimSpace`, `strings.Split`, `strings.Repeat`, `strings.HasPrefix/
HasSuffix` and the two regular expressions are hand transcriptions on byte lists (trusted, tied to
the code by the correspondence run).
-/
namespace GoguVerif.Model.C15
open GoguVerif.Go.Utf8

inductive Outcome (α : Type) where
  | ok (a : α)
  | panic
deriving Repr, DecidableEq, BEq

def Outcome.bind {α β : Type} (o : Outcome α) (f : α → Outcome β) : Outcome β :=
  match o with
  | .ok a => f a
  | .panic => .panic

def Outcome.map {α β : Type} (f : α → β) (o : Outcome α) : Outcome β :=
  match o with
  | .ok a => .ok (f a)
  | .panic => .panic

/-! ## Go primitives -/

/-- `s[lo:hi]`: panics unless `0 ≤ lo ≤ hi ≤ len(s)`. -/
def goSlice (s : Str) (lo hi : Int) : Outcome Str :=
  if 0 ≤ lo ∧ lo ≤ hi ∧ hi ≤ (s.length : Int) then .ok ((s.take hi.toNat).drop lo.toNat) else .panic

/-- `strings.Repeat(tok, count)`: panics on a negative count. -/
def goRepeat (tok : Str) (count : Int) : Outcome Str :=
  if count < 0 then .panic else .ok (List.replicate count.toNat tok).flatten

/-- `Abs` of math.go -/
def abs (x : Int) : Int := if x < 0 then -x else x

/-- `InRange` of math.go: `num >= lo && num <= up` -/
def inRange (num lo up : Int) : Bool := decide (num ≥ lo) && decide (num ≤ up)

/-! ## Substr -/

/-- the part after `end` has been computed: clamp, range checks, slice -/
def substrEnd (s : Str) (offset end_ : Int) : Outcome Str :=
  let n : Int := s.length
  let end_ := if end_ > n then n else end_
  if !inRange offset 0 n || !inRange end_ 0 n then .ok []
  else goSlice s offset end_

/-- the part after the offset has been normalised -/
def substrLen (s : Str) (offset length : Int) : Outcome Str :=
  let n : Int := s.length
  if length < 0 then
    let newLength := n + length
    if abs newLength > n ∨ newLength < offset then .ok []
    else substrEnd s offset newLength
  else substrEnd s offset (offset + length)
  -- Go: `end = offset + length; if end < offset { end = len(str) }` — the guard fires exactly when the machine
  -- addition wraps around (offset ≥ 0 ≤ length here), and then the exact sum exceeds `len(str)` and is clamped to it
  -- by `substrEnd`: the unbounded sum of this model and the guarded machine sum select the same bytes.

def substr (s : Str) (offset length : Int) : Outcome Str :=
  let n : Int := s.length
  if offset < 0 then
    let offset := n + offset
    if abs offset > n then .ok [] else substrLen s offset length
  else substrLen s offset length

/-! ## SplitAtIndex -/

def splitAtIndex (s : Str) (index : Int) : Outcome (List Str) :=
  let n : Int := s.length
  if index < 0 then .ok [[], s]
  else if index > n - 1 then .ok [s, []]
  else
    match goSlice s 0 (index + 1), goSlice s (index + 1) n with
    | .ok a, .ok b => .ok [a, b]
    | _, _ => .panic

/-! ## PadLeft, PadRight, Pad -/

/-- `tokenStr` after the optional `strings.Repeat`, cut to `cut` bytes -/
def padToken (tok : Str) (doRepeat : Bool) (count cut : Int) : Outcome Str :=
  (if doRepeat then goRepeat tok count else .ok tok).bind fun t => goSlice t 0 cut

def padLeft (s : Str) (size : Int) (tok : Str) : Outcome Str :=
  let strLen : Int := s.length
  let tokenLen : Int := tok.length
  if size ≤ strLen then .ok s
  else
    match padToken tok (decide (tokenLen ≤ size - strLen)) (size - strLen) (size - strLen) with
    | .ok t => .ok (t ++ s)
    | .panic => .panic

def padRight (s : Str) (size : Int) (tok : Str) : Outcome Str :=
  let strLen : Int := s.length
  let tokenLen : Int := tok.length
  if size ≤ strLen then .ok s
  else
    match padToken tok (decide (tokenLen ≤ size - strLen)) (size - strLen) (size - strLen) with
    | .ok t => .ok (s ++ t)
    | .panic => .panic

/-- `split := float64(size-strLen)/2; left := floor(split); right := ceil(split)`; `int(split)` truncates
(= floor, the value is positive). -/
def pad (s : Str) (size : Int) (tok : Str) : Outcome Str :=
  let strLen : Int := s.length
  let tokenLen : Int := tok.length
  if size ≤ strLen then .ok s
  else
    let d := size - strLen
    let left := d / 2
    let right := (d + 1) / 2
    let rep := decide (tokenLen ≤ d / 2)
    match padToken tok rep left left, padToken tok rep right right with
    | .ok l, .ok r => .ok (l ++ s ++ r)
    | _, _ => .panic

/-! ## Wrap, Unwrap, WrapAllRune, ReverseStr -/

def wrap (s tok : Str) : Str := tok ++ s ++ tok

def unwrap (s tok : Str) : Outcome Str :=
  if tok.length > 0 ∧ s.length ≥ 2 * tok.length ∧ tok.isPrefixOf s = true ∧ tok.isSuffixOf s = true then
    goSlice s tok.length ((s.length : Int) - tok.length)
  else .ok s

def wrapAllRune (s tok : Str) : Str :=
  (rangeStr s).foldl (fun sb p => sb ++ tok ++ encodeRune p.2 ++ tok) []

/-- `for i, j := 0, len(res)-1; i < j; i, j = i+1, j-1 { res[i], res[j] = res[j], res[i] }`
(`fuel` bounds the number of iterations; `len(res)` is enough). -/
def revLoop : Nat → List Rune → Nat → Int → Outcome (List Rune)
  | 0, res, _, _ => .ok res
  | fuel + 1, res, i, j =>
    if (i : Int) < j then
      if j < 0 then .panic
      else
        match res[i]?, res[j.toNat]? with
        | some x, some y => revLoop fuel ((res.set i y).set j.toNat x) (i + 1) (j - 1)
        | _, _ => .panic
    else .ok res

def reverseStr (s : Str) : Outcome Str :=
  let res := runes s
  (revLoop res.length res 0 ((res.length : Int) - 1)).map encodeAll

/-! ## ToLower, ToUpper, Capitalize -/

def toLower (lo : Rune → Rune) (s : Str) : Str :=
  encodeAll ((rangeStr s).foldl (fun res p => res ++ [lo p.2]) [])

def toUpper (up : Rune → Rune) (s : Str) : Str :=
  encodeAll ((rangeStr s).foldl (fun res p => res ++ [up p.2]) [])

def capitalize (lo up : Rune → Rune) (s : Str) : Str :=
  encodeAll ((rangeStr s).foldl (fun res p => res ++ [if p.1 = 0 then up p.2 else lo p.2]) [])

/-! ## The case styles -/

/-- `unicode.IsSpace` -/
def isSpace (r : Nat) : Bool :=
  (9 ≤ r && r ≤ 13) || r == 32 || r == 0x85 || r == 0xA0 || r == 0x1680 || (0x2000 ≤ r && r ≤ 0x200A) ||
  r == 0x2028 || r == 0x2029 || r == 0x202F || r == 0x205F || r == 0x3000

/-- `strings.TrimLeftFunc(s, unicode.IsSpace)` -/
def trimLeft : Nat → Str → Str
  | 0, s => s
  | _ + 1, [] => []
  | fuel + 1, b0 :: rest =>
    let d := decodeRune b0 rest
    if isSpace d.1 then trimLeft fuel ((b0 :: rest).drop d.2) else b0 :: rest

/-- `strings.TrimRightFunc(s, unicode.IsSpace)` -/
def trimRight : Nat → Str → Str
  | 0, s => s
  | fuel + 1, s =>
    match s.getLast? with
    | none => []
    | some last =>
      let d := decodeLastRune s last
      if isSpace d.1 then trimRight fuel (s.take (s.length - d.2)) else s

/-- `strings.TrimSpace` -/
def trimSpace (s : Str) : Str :=
  let t := trimLeft s.length s
  trimRight t.length t

def isSep (b : UInt8) : Bool := b == 0x2D || b == 0x5F || b == 0x26    -- '-' '_' '&'

/-- `regexp.MustCompile("[-_&]+").ReplaceAllString(s, " ")`: every maximal run becomes one space -/
def replaceSeps : Bool → Str → Str
  | _, [] => []
  | inRun, b :: rest =>
    if isSep b then (if inRun then replaceSeps true rest else 0x20 :: replaceSeps true rest)
    else b :: replaceSeps false rest

/-- `strings.Split(s, " ")` (`cur` = the piece being collected) -/
def splitSpace : Str → Str → List Str
  | cur, [] => [cur]
  | cur, b :: rest => if b == 0x20 then cur :: splitSpace [] rest else splitSpace (cur ++ [b]) rest

/-- the word loop of `CamelCase` -/
def camelLoop (lo up : Rune → Rune) : List Str → Nat → Nat → Str → Str
  | [], _, _, sb => sb
  | s :: rest, i, idx, sb =>
    if (runes s).length = 0 then camelLoop lo up rest (i + 1) (idx + 1) sb
    else if i = 0 ∨ i = idx then camelLoop lo up rest (i + 1) idx (sb ++ toLower lo s)
    else camelLoop lo up rest (i + 1) idx (sb ++ capitalize lo up s)

def camelCase (lo up : Rune → Rune) (s : Str) : Str :=
  camelLoop lo up (splitSpace [] (replaceSeps false (trimSpace s))) 0 0 []

/-- width of a match of `[a-zö]` at the head -/
def lowerAt : Str → Option Nat
  | 0xC3 :: 0xB6 :: _ => some 2
  | b :: _ => if 0x61 ≤ b.toNat && b.toNat ≤ 0x7A then some 1 else none
  | [] => none

/-- total width of the maximal run of `[A-ZÖ]` at the head -/
def upperRun : Str → Nat
  | 0xC3 :: 0x96 :: rest => 2 + upperRun rest
  | b :: rest => if 0x41 ≤ b.toNat && b.toNat ≤ 0x5A then 1 + upperRun rest else 0
  | [] => 0

/-- `regexp.MustCompile("[a-zö][A-ZÖ]+").FindAllStringIndex(s, -1)` as (start, end) byte offsets;
`skip` = bytes of the last match still to be passed. -/
def findCamel : Nat → Nat → Str → List (Nat × Nat)
  | _, _, [] => []
  | i, skip + 1, _ :: rest => findCamel (i + 1) skip rest
  | i, 0, b :: rest =>
    match lowerAt (b :: rest) with
    | some w =>
      let u := upperRun ((b :: rest).drop w)
      if u > 0 then (i, i + w + u) :: findCamel (i + 1) (w + u - 1) rest
      else findCamel (i + 1) 0 rest
    | none => findCamel (i + 1) 0 rest

/-- the inner `for i := 0; i < len(strIdx); i++` loop over the match starts -/
def snakePieces (lo : Rune → Rune) (delim str : Str) : List Nat → Outcome Str
  | [] => .ok []
  | [m] =>
    (substr str ((m : Int) + 1) ((str.length : Int) - m + 1)).map (toLower lo)
  | m :: m' :: ms =>
    (substr str ((m : Int) + 1) ((m' : Int) - m)).bind fun p =>
      (snakePieces lo delim str (m' :: ms)).map fun r => toLower lo p ++ delim ++ r

/-- what one word appends to the builder; `more` = `len(chars) > 1 && i != len(chars)-1` -/
def snakeWord (lo : Rune → Rune) (delim str : Str) (more : Bool) : Outcome Str :=
  match (findCamel 0 0 str).map (·.1) with
  | [] => .ok (toLower lo str ++ (if more then delim else []))
  | m0 :: ms =>
    (substr str 0 ((m0 : Int) + 1)).bind fun p =>
      (snakePieces lo delim str (m0 :: ms)).map fun r =>
        toLower lo p ++ delim ++ r ++ (if more then delim else [])

/-- the word loop of `splitStringWithDelimiter` (`n` = `len(chars)`) -/
def snakeLoop (lo : Rune → Rune) (delim : Str) (n : Nat) : List Str → Nat → Str → Outcome Str
  | [], _, sb => .ok sb
  | s :: rest, i, sb =>
    if (runes s).length = 0 then snakeLoop lo delim n rest (i + 1) sb
    else
      (snakeWord lo delim s (decide (n > 1) && decide (i ≠ n - 1))).bind fun w =>
        snakeLoop lo delim n rest (i + 1) (sb ++ w)

def splitStringWithDelimiter (lo : Rune → Rune) (s delim : Str) : Outcome Str :=
  let chars := splitSpace [] (replaceSeps false (trimSpace s))
  snakeLoop lo delim chars.length chars 0 []

def snakeCase (lo : Rune → Rune) (s : Str) : Outcome Str := splitStringWithDelimiter lo s [0x5F]
def kebabCase (lo : Rune → Rune) (s : Str) : Outcome Str := splitStringWithDelimiter lo s [0x2D]

end GoguVerif.Model.C15
