import GoguVerif.Model.StoreHelpers
import GoguVerif.Model.C14
/-!
# Store-level models of the remaining in-place helpers (C16)

`Model/StoreHelpers.lean` has `Reverse` and `Reject`.  Here are the other four helpers the specification
allows to write in place, written over the store *one Go statement after the other*, every read FROM THE
CURRENT STORE:

* `heap.FromSlice(data, comp)` (/repo/heap/heap.go:173-202),
* `heap.Sort(data, comp)` (/repo/heap/heapsort.go:17-30) — it calls `FromSlice(data, comp)`, sorts IN
  PLACE through `swap(data, 0, i)` / `heap.moveDown(i, 0)` (`heap.data` IS `data`), and returns
  `heap.GetValues()`: a fresh COPY.  So it both writes its argument and returns non-aliasing storage;
* `Omit(collection, keys...)`, `OmitBy(collection, fn)` (/repo/map.go:237-256): they `delete` from their
  MAP argument and return it.

Conventions / what is abstracted (besides those of `Model/StoreHelpers.lean`):
* Go `int` loop variables that can become negative or are computed (`i`, `l`, `r`, `current`, `n`) are
  Lean `Int`s; an index expression with a negative index is a run-time panic (`readI`, `swapI`).  Lean's
  `Int` is unbounded: the overflow guard `l < 0` of `FromSlice` is kept in the text but can never fire.
  `len(data)/2` is Go's truncating division (`Int.tdiv`).
* `comp` is an ARBITRARY `Int → Int → Bool`; nothing is assumed about it.  Therefore the loops of
  `FromSlice` need fuel: its inner `for { … }` OVERWRITES the outer loop variable `i` (`i = current`), the
  outer `i--` acts on whatever the inner loop left, and with a comparator that is not irreflexive (`<=`)
  and two equal elements the Go loop really runs for ever (`fromSlice_nonstrict_never_ends`).  Running
  out of fuel is `none`, like a panic; every theorem is about the runs that end.  The recursion of
  `moveDown` gets the same fuel.
* the mutexes (`mu.Lock()` …) are C01's business; the returned `*Heap[T]` is represented by its `data`
  header (`comp` and `mu` are not slice storage).
* a Go map value is a reference to a map object: an id into a *map store* `MStore`; each map object is
  the list of its entries.  `for k, v := range m` visits the entries the map has when the loop starts in
  an order Go leaves open: `order` applied to the entries — any function, the theorems ask only that its
  result is a permutation.  An entry that is deleted before it is reached is not produced (the Go
  specification); here only the entry being visited is ever deleted, and the loop checks presence in
  the CURRENT map anyway (`present`).

Core Lean only.
-/
namespace GoguVerif.Model.StoreHelpers3
open GoguVerif.Model.Store GoguVerif.Model.StoreHelpers

/-! ## index expressions with Go `int` operands -/

/-- `data[i]` with `i int`: a negative index panics -/
def readI (σ : Store) (s : Slice) (i : Int) : Option Int :=
  if 0 ≤ i then read σ s i.toNat else none

/-- `swap(data, i, j)` (heap.go:271-273): `data[i], data[j] = data[j], data[i]` — both operands are read,
then both cells are written (`swapStore`) -/
def swapI (σ : Store) (s : Slice) (i j : Int) : Option Store :=
  if 0 ≤ i ∧ 0 ≤ j then swapStore σ s i.toNat j.toNat else none

/-- `comp(data[a], data[b])` -/
def compAt (comp : Int → Int → Bool) (σ : Store) (s : Slice) (a b : Int) : Option Bool :=
  match readI σ s a, readI σ s b with
  | some x, some y => some (comp x y)
  | _, _ => none

/-! ## heap.FromSlice (heap.go:173-202): IN PLACE -/

/-- the inner loop
```go
for {
    l, r := 2*i+1, 2*i+2
    if l >= len(data) || l < 0 { break }
    current := l
    if r < len(data) && comp(data[r], data[l]) { current = r }
    if !comp(data[current], data[i]) { break }
    swap(data, i, current)
    i = current
}
```
first argument = fuel; the answer is the store and the value `i` has at the `break` (it is the OUTER
loop's variable) -/
def siftLoop (comp : Int → Int → Bool) (data : Slice) : Nat → Int → Store → Option (Store × Int)
  | 0, _, _ => none                                                 -- out of fuel
  | f + 1, i, σ =>
    let l := 2 * i + 1
    let r := 2 * i + 2
    if l ≥ (data.len : Int) ∨ l < 0 then some (σ, i)                -- break
    else
      -- `r < len(data) && comp(data[r], data[l])`: the operands are read only when `r < len(data)`
      match (if r < (data.len : Int) then compAt comp σ data r l else some false) with
      | none => none
      | some c =>
        let current := if c then r else l
        match compAt comp σ data current i with
        | none => none
        | some true =>
          match swapI σ data i current with                         -- swap(data, i, current)
          | none => none
          | some σ' => siftLoop comp data f current σ'              -- i = current
        | some false => some (σ, i)                                 -- break

/-- the outer loop `for i := len(data)/2 - 1; i >= 0; i-- { inner }`: `i--` acts on what the inner loop left
in `i`.  First argument = fuel (outer iterations left), `f` = fuel of each inner loop. -/
def fromSliceLoop (comp : Int → Int → Bool) (data : Slice) (f : Nat) : Nat → Int → Store → Option Store
  | 0, i, σ => if 0 ≤ i then none else some σ
  | n + 1, i, σ =>
    if 0 ≤ i then
      match siftLoop comp data f i σ with
      | none => none
      | some (σ', i') => fromSliceLoop comp data f n (i' - 1) σ'     -- i--
    else some σ

/-- `return &Heap[T]{mu: mu, data: data, comp: comp}`: the heap's backing slice IS the argument -/
def fromSliceStore (fuel : Nat) (σ : Store) (data : Slice) (comp : Int → Int → Bool) : Option (Store × Slice) :=
  match fromSliceLoop comp data fuel fuel (Int.tdiv data.len 2 - 1) σ with
  | some σ' => some (σ', data)
  | none => none

/-! ## heap.Sort (heapsort.go:17-30): IN PLACE, and returns a COPY -/

/-- `h.moveDown(n, i)` (heap.go:229-248) on `h.data = data`:
```go
left := 2*i + 1; right := 2*i + 2; current := i
if left < n && h.comp(h.data[left], h.data[current]) { current = left }
if right < n && h.comp(h.data[right], h.data[current]) { current = right }
if current != i { swap(h.data, i, current); h.moveDown(n, current); return }
```
first argument = recursion budget -/
def moveDownStore (comp : Int → Int → Bool) (data : Slice) : Nat → Int → Int → Store → Option Store
  | 0, _, _, _ => none
  | f + 1, n, i, σ =>
    let left := 2 * i + 1
    let right := 2 * i + 2
    match (if left < n then compAt comp σ data left i else some false) with
    | none => none
    | some c1 =>
      let current1 := if c1 then left else i
      match (if right < n then compAt comp σ data right current1 else some false) with
      | none => none
      | some c2 =>
        let current := if c2 then right else current1
        if current ≠ i then
          match swapI σ data i current with
          | none => none
          | some σ' => moveDownStore comp data f n current σ'
        else some σ

/-- `for i := heap.Size() - 1; i > 0; i-- { swap(data, 0, i); heap.moveDown(i, 0) }` — `i` is not written
in the body: the first argument is `i` itself -/
def sortLoop (comp : Int → Int → Bool) (data : Slice) (f : Nat) : Nat → Store → Option Store
  | 0, σ => some σ
  | i + 1, σ =>
    match swapI σ data 0 ((i + 1 : Nat) : Int) with
    | none => none
    | some σ1 =>
      match moveDownStore comp data f ((i + 1 : Nat) : Int) 0 σ1 with
      | none => none
      | some σ2 => sortLoop comp data f i σ2

/-- `heap.GetValues()`: `values := make([]T, len(h.data)); copy(values, h.data); return values` -/
def getValuesStore (σ : Store) (data : Slice) : Option (Store × Slice) :=
  let r := alloc σ data.len data.len
  match copyStore r.1 r.2 data with
  | none => none
  | some σ' => some (σ', r.2)

/-- `heap := FromSlice(data, comp); for … {…}; return heap.GetValues()`; `heap.Size() - 1` is `-1` on the
empty slice: no iteration (`Int.toNat (-1) = 0`) -/
def sortStore (fuel : Nat) (σ : Store) (data : Slice) (comp : Int → Int → Bool) : Option (Store × Slice) :=
  match fromSliceStore fuel σ data comp with
  | none => none
  | some (σ1, hdata) =>
    match sortLoop comp hdata fuel ((hdata.len : Int) - 1).toNat σ1 with
    | none => none
    | some σ2 => getValuesStore σ2 hdata

/-! ## a minimal map store -/

/-- map objects, addressed by position; each is the list of its entries -/
abbrev MStore := List (List (Int × Int))

/-- the entries of map `id` (a `nil` map — no object — has none) -/
def mget (μ : MStore) (id : Nat) : List (Int × Int) := (μ[id]?).getD []

/-- `delete(m, k)` (a no-op on a `nil` map and for a missing key) -/
def mdelete (μ : MStore) (id : Nat) (k : Int) : MStore := μ.modify id (fun m => Model.C14.del m k)

/-- is key `k` in the map right now? -/
def present (μ : MStore) (id : Nat) (k : Int) : Bool := (Model.C14.get? (mget μ id) k).isSome

/-! ## Omit (map.go:237-245): deletes from its MAP argument -/

/-- `for k := range collection { if Contains(keys, k) { delete(collection, k) } }` — first list = the
entries the range still has to visit; an entry that is no longer in the map is not produced.
`Contains(keys, k)` reads the variadic slice `keys` from the slice store (`containsStore`). -/
def omitLoopM (σ : Store) (keys : Slice) (id : Nat) : List (Int × Int) → MStore → Option MStore
  | [], μ => some μ
  | (k, _) :: r, μ =>
    if present μ id k then
      match containsStore σ keys k with
      | none => none
      | some true => omitLoopM σ keys id r (mdelete μ id k)          -- delete(collection, k)
      | some false => omitLoopM σ keys id r μ
    else omitLoopM σ keys id r μ

/-- no statement of `Omit` writes slice storage: the slice store is returned as it came; `return collection`:
the result is the SAME map object -/
def omitStoreIn (order : List (Int × Int) → List (Int × Int)) (σ : Store) (μ : MStore) (collection : Nat)
    (keys : Slice) : Option (Store × MStore × Nat) :=
  match omitLoopM σ keys collection (order (mget μ collection)) μ with
  | some μ' => some (σ, μ', collection)
  | none => none

/-- the iteration order = the order of the representation -/
def omitStore (σ : Store) (μ : MStore) (collection : Nat) (keys : Slice) : Option (Store × MStore × Nat) :=
  omitStoreIn id σ μ collection keys

/-! ## OmitBy (map.go:248-256) -/

/-- `for k, v := range collection { if fn(k, v) { delete(collection, k) } }` -/
def omitByLoopM (fn : Int → Int → Bool) (id : Nat) : List (Int × Int) → MStore → MStore
  | [], μ => μ
  | (k, v) :: r, μ =>
    if present μ id k then
      if fn k v then omitByLoopM fn id r (mdelete μ id k) else omitByLoopM fn id r μ
    else omitByLoopM fn id r μ

def omitByStoreIn (order : List (Int × Int) → List (Int × Int)) (μ : MStore) (collection : Nat)
    (fn : Int → Int → Bool) : MStore × Nat :=
  (omitByLoopM fn collection (order (mget μ collection)) μ, collection)

def omitByStore (μ : MStore) (collection : Nat) (fn : Int → Int → Bool) : MStore × Nat :=
  omitByStoreIn id μ collection fn

end GoguVerif.Model.StoreHelpers3
