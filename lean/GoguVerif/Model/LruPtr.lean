import GoguVerif.Model.Lru
/-!
# Model of `cache/lrucache.go` — layer 2 (pointer level)

The circular doubly linked list with its sentinel, as an address-indexed store:

* a `*node` is an address (`Nat`) into `lruList.heap`; address `0` is `&l.root` (the root node is
  embedded by value in the `lruList`, so every list has its own root; `Flush` makes a new list);
* `addAfter` allocates the next free address (`heap.length`), nothing is ever freed;
* a node has `next`, `prev`, `key`, `value` (the field `list` is written once and never read — left out);
* `lruList.len` is a separate counter, exactly as in the Go code;
* `LRUCache.items` is an association list key ↦ address (only looked up by key, so its order is
  irrelevant; `c.items[k] = a` is `(k, a) :: items`, `delete` filters the key out).

Every function follows the Go function statement by statement, one field read / write per line.
Reading or writing through an address that holds no node is the explicit outcome `none` / `fault`
(in Go: a nil dereference panic).  `Theorems.C07` proves it unreachable and proves that this layer
answers exactly as layer 1 (`Model/Lru.lean`) for every history.  Core Lean only.
-/
namespace GoguVerif.Model.LruPtr
open GoguVerif.Spec.C07 (Op)
open GoguVerif.Model.Lru (Ret)

structure PNode where
  next : Nat
  prev : Nat
  key : Int
  value : Int
deriving Repr, DecidableEq

abbrev Heap := List PNode

/-! field reads `a.next`, `a.prev`, `a.key`, `a.value` (`none`: no node at `a`) -/
def nextOf (h : Heap) (a : Nat) : Option Nat := (h[a]?).map (·.next)
def prevOf (h : Heap) (a : Nat) : Option Nat := (h[a]?).map (·.prev)
def keyOf (h : Heap) (a : Nat) : Option Int := (h[a]?).map (·.key)
def valOf (h : Heap) (a : Nat) : Option Int := (h[a]?).map (·.value)

/-! field writes `a.next = b`, `a.prev = b`, `a.value = v` -/
def wrNext (h : Heap) (a b : Nat) : Option Heap :=
  match h[a]? with
  | none => none
  | some n => some (h.set a { n with next := b })
def wrPrev (h : Heap) (a b : Nat) : Option Heap :=
  match h[a]? with
  | none => none
  | some n => some (h.set a { n with prev := b })
def wrVal (h : Heap) (a : Nat) (v : Int) : Option Heap :=
  match h[a]? with
  | none => none
  | some n => some (h.set a { n with value := v })

/-! ## `lruList` -/

structure PList where
  heap : Heap
  len : Int
deriving Repr, DecidableEq

/-- `&l.root` -/
def root : Nat := 0

/-- `newLRUList()`: the root points to itself both ways, `len` 0 -/
def newLRUList : PList :=
  { heap := [{ next := root, prev := root, key := 0, value := 0 }], len := 0 }

/-- `moveAfter(current, nd)` -/
def moveAfter (l : PList) (current nd : Nat) : Option PList :=
  if current = nd then some l
  else do
    let h := l.heap
    let p ← prevOf h nd
    let q ← nextOf h nd
    let h ← wrNext h p q             -- nd.prev.next = nd.next
    let q ← nextOf h nd
    let p ← prevOf h nd
    let h ← wrPrev h q p             -- nd.next.prev = nd.prev
    let h ← wrPrev h nd current      -- nd.prev = current
    let f ← nextOf h current
    let h ← wrNext h nd f            -- nd.next = current.next
    let p ← prevOf h nd
    let h ← wrNext h p nd            -- nd.prev.next = nd
    let q ← nextOf h nd
    let h ← wrPrev h q nd            -- nd.next.prev = nd
    some { l with heap := h }

/-- `moveFront(nd)` -/
def moveFront (l : PList) (nd : Nat) : Option PList := moveAfter l root nd

/-- `length()` -/
def length (l : PList) : Int := l.len

/-- `addAfter(current, key, value)`: the new node's address is returned -/
def addAfter (l : PList) (current : Nat) (key value : Int) : Option (PList × Nat) := do
  let h := l.heap
  let cn ← nextOf h current
  let a := h.length                                                   -- &newNode
  let h := h ++ [{ prev := current, next := cn, key := key, value := value }]
  let cn ← nextOf h current
  let h ← wrPrev h cn a              -- current.next.prev = &newNode
  let h ← wrNext h current a         -- current.next = &newNode
  some ({ heap := h, len := l.len + 1 }, a)                           -- l.len++

/-- `addFront(key, value)` -/
def addFront (l : PList) (key value : Int) : Option (PList × Nat) := addAfter l root key value

/-- `last()` = `l.root.prev` -/
def last (l : PList) : Option Nat := prevOf l.heap root

/-- `first()` = `l.root.next` -/
def first (l : PList) : Option Nat := nextOf l.heap root

/-- `remove(node)` -/
def remove (l : PList) (node : Nat) : Option (PList × Bool) :=
  if node ≠ root then do
    let h := l.heap
    let next ← nextOf h node
    let prev ← prevOf h node
    let h ← wrPrev h next prev       -- next.prev = prev
    let h ← wrNext h prev next       -- prev.next = next
    some ({ heap := h, len := l.len - 1 }, true)                      -- l.len--
  else some (l, false)

/-- `removeLast()` -/
def removeLast (l : PList) : Option (PList × Bool) := do
  let x ← last l
  remove l x

/-! ## `LRUCache` -/

structure PSt where
  items : List (Int × Nat)
  evictList : PList
  size : Int
deriving Repr, DecidableEq

inductive PRes where
  | ok (st : PSt) (ret : Ret)
  /-- an address without a node was dereferenced (Go: nil-pointer panic) -/
  | fault
deriving Repr, DecidableEq

def mapGet (k : Int) (items : List (Int × Nat)) : Option Nat := items.lookup k
def mapSet (k : Int) (a : Nat) (items : List (Int × Nat)) : List (Int × Nat) := (k, a) :: items
def mapDelete (k : Int) (items : List (Int × Nat)) : List (Int × Nat) :=
  items.filter (fun e => !(e.1 == k))

/-- `NewLRU(size)` -/
def newLRU (size : Int) : Option PSt :=
  if size ≤ 0 then none
  else some { items := [], evictList := newLRUList, size := size }

/-- `Count()` -/
def count (c : PSt) : Int := c.evictList.len

/-- `RemoveOldest()` -/
def removeOldest (c : PSt) : PRes :=
  match last c.evictList with
  | none => .fault
  | some item =>
    if item ≠ root then
      match keyOf c.evictList.heap item, valOf c.evictList.heap item with
      | some k, some v =>
        let items' := mapDelete k c.items                   -- delete(c.items, item.key)
        match removeLast c.evictList with                   -- c.evictList.removeLast()
        | none => .fault
        | some (l', b) => .ok { c with items := items', evictList := l' } (.kvb k v b)
      | _, _ => .fault
    else .ok c (.kvb 0 0 false)

/-- `Add(key, value)` -/
def add (c : PSt) (key value : Int) : PRes :=
  match mapGet key c.items with
  | some item =>
    match moveFront c.evictList item with                   -- c.evictList.moveFront(item)
    | none => .fault
    | some l1 =>
      match wrVal l1.heap item value with                   -- item.value = value
      | none => .fault
      | some h2 => .ok { c with evictList := { l1 with heap := h2 } } (.kvb 0 0 false)
  | none =>
    match addFront c.evictList key value with               -- item := c.evictList.addFront(key, value)
    | none => .fault
    | some (l1, item) =>
      let c1 : PSt := { c with items := mapSet key item c.items, evictList := l1 }   -- c.items[key] = item
      if count c1 > c1.size then removeOldest c1
      else .ok c1 (.kvb 0 0 false)

/-- `GetOldest()` -/
def getOldest (c : PSt) : PRes :=
  match last c.evictList with
  | none => .fault
  | some item =>
    if item ≠ root then
      match moveFront c.evictList item with                 -- c.evictList.moveFront(item)
      | none => .fault
      | some l1 =>
        match keyOf l1.heap item, valOf l1.heap item with
        | some k, some v => .ok { c with evictList := l1 } (.kvb k v true)
        | _, _ => .fault
    else .ok c (.kvb 0 0 false)

/-- `Get(key)` -/
def get (c : PSt) (key : Int) : PRes :=
  match mapGet key c.items with
  | some item =>
    match moveFront c.evictList item with
    | none => .fault
    | some l1 =>
      match valOf l1.heap item with
      | some v => .ok { c with evictList := l1 } (.vb v true)
      | none => .fault
  | none => .ok c (.vb 0 false)

/-- `GetYoungest()` -/
def getYoungest (c : PSt) : PRes :=
  match first c.evictList with
  | none => .fault
  | some item =>
    if item ≠ root then
      match keyOf c.evictList.heap item, valOf c.evictList.heap item with
      | some k, some v => .ok c (.kvb k v true)
      | _, _ => .fault
    else .ok c (.kvb 0 0 false)

/-- `Remove(key)` -/
def removeKey (c : PSt) (key : Int) : PRes :=
  match mapGet key c.items with
  | some item =>
    match keyOf c.evictList.heap item with
    | none => .fault
    | some k =>
      let items' := mapDelete k c.items                     -- delete(c.items, item.key)
      match remove c.evictList item with                    -- c.evictList.remove(item)
      | none => .fault
      | some (l', _) =>
        match valOf l'.heap item with                       -- return item.value, true
        | some v => .ok { c with items := items', evictList := l' } (.vb v true)
        | none => .fault
  | none => .ok c (.vb 0 false)

/-- `RemoveYoungest()` (after the repair 4cc2540) -/
def removeYoungest (c : PSt) : PRes :=
  match first c.evictList with
  | none => .fault
  | some item =>
    if item ≠ root then
      match keyOf c.evictList.heap item, valOf c.evictList.heap item with
      | some k, some v =>
        let items' := mapDelete k c.items                   -- delete(c.items, item.key)
        match remove c.evictList item with                  -- c.evictList.remove(item)
        | none => .fault
        | some (l', b) => .ok { c with items := items', evictList := l' } (.kvb k v b)
      | _, _ => .fault
    else .ok c (.kvb 0 0 false)

/-- `RemoveYoungest()` as it was BEFORE the repair (F13): `c.evictList.removeLast()` instead of
`remove(item)`.  Only used for the negative example in `Theorems/C07.lean`. -/
def removeYoungestPreFix (c : PSt) : PRes :=
  match first c.evictList with
  | none => .fault
  | some item =>
    if item ≠ root then
      match keyOf c.evictList.heap item, valOf c.evictList.heap item with
      | some k, some v =>
        let items' := mapDelete k c.items
        match removeLast c.evictList with
        | none => .fault
        | some (l', b) => .ok { c with items := items', evictList := l' } (.kvb k v b)
      | _, _ => .fault
    else .ok c (.kvb 0 0 false)

/-- `Flush()` -/
def flush (c : PSt) : PRes :=
  .ok { c with items := [], evictList := newLRUList } .unit

def step (c : PSt) : Op → PRes
  | .add k v => add c k v
  | .get k => get c k
  | .getOldest => getOldest c
  | .getYoungest => getYoungest c
  | .remove k => removeKey c k
  | .removeOldest => removeOldest c
  | .removeYoungest => removeYoungest c
  | .flush => flush c
  | .count => .ok c (.int (count c))

/-- A whole history.  `none`: some step faulted. -/
def run (c : PSt) : List Op → Option (PSt × List Ret)
  | [] => some (c, [])
  | op :: ops =>
    match step c op with
    | .fault => none
    | .ok c' r =>
      match run c' ops with
      | none => none
      | some (c'', rs) => some (c'', r :: rs)

end GoguVerif.Model.LruPtr
