import GoguVerif.Spec.C11
/-!
# Model of the set-algebra helpers of `slice.go`

Each function is the loop it is in the Go source.  Conventions:
* a Go `map[T]bool` that is only ever tested for membership (`keys`) is the list of its keys;
* a Go map that is *iterated* (`keyCount`, `kvMap`) is an association list in insertion order; the
  collecting loops (`dupCollect`, `dupIdxCollect`) take the association list as an argument, and the
  theorems hold for every permutation of it (Go's iteration order is arbitrary);
* `params[0]` with no argument is the explicit outcome `panic`;
* `(nil, err)` of `baseFlatten` / `Union` is `none`.

Core Lean only.
-/
namespace GoguVerif.Model.C11
open GoguVerif.Spec.C11 (Nested)

variable {α : Type} [DecidableEq α]

/-- outcome of a call that may hit a Go run-time panic -/
inductive Res (β : Type) where
  | ok (v : β)
  | panic
deriving Repr, DecidableEq

/-- `Contains`: `for _, v := range slice { if v == value { return true } }; return false` -/
def contains (value : α) : List α → Bool
  | [] => false
  | v :: rest => if v = value then true else contains value rest

/-! ## Unique / UniqueBy -/

/-- `for _, v := range slice { if _, ok := keys[v]; !ok { keys[v] = true; result = append(result, v) } }` -/
def uniqueLoop (keys result : List α) : List α → List α
  | [] => result
  | v :: rest =>
    if v ∈ keys then uniqueLoop keys result rest
    else uniqueLoop (v :: keys) (result ++ [v]) rest

def unique (slice : List α) : List α := uniqueLoop [] [] slice

/-- as `uniqueLoop`, the map being indexed by `fn(v)` -/
def uniqueByLoop (fn : α → α) (keys result : List α) : List α → List α
  | [] => result
  | v :: rest =>
    if fn v ∈ keys then uniqueByLoop fn keys result rest
    else uniqueByLoop fn (fn v :: keys) (result ++ [v]) rest

def uniqueBy (slice : List α) (fn : α → α) : List α := uniqueByLoop fn [] [] slice

/-! ## Duplicate -/

/-- `_, ok := keyCount[v]` -/
def hasKey {β : Type} (k : α) : List (α × β) → Bool
  | [] => false
  | (k', _) :: rest => if k' = k then true else hasKey k rest

/-- `keyCount[v]++` on a present key -/
def incrKey (k : α) : List (α × Nat) → List (α × Nat)
  | [] => []
  | (k', c) :: rest => if k' = k then (k', c + 1) :: rest else (k', c) :: incrKey k rest

/-- first loop of `Duplicate` -/
def dupCountLoop (keyCount : List (α × Nat)) : List α → List (α × Nat)
  | [] => keyCount
  | v :: rest =>
    if hasKey v keyCount then dupCountLoop (incrKey v keyCount) rest
    else dupCountLoop (keyCount ++ [(v, 1)]) rest

/-- second loop: `for k, v := range keyCount { if v > 1 { result = append(result, k) } }`, in the
iteration order given -/
def dupCollect : List (α × Nat) → List α
  | [] => []
  | (k, v) :: rest => if v > 1 then k :: dupCollect rest else dupCollect rest

/-- `Duplicate` when the map is iterated in insertion order (one admissible order) -/
def duplicate (slice : List α) : List α := dupCollect (dupCountLoop [] slice)

/-! ## DuplicateWithIndex -/

/-- `kvMap[v][1] = count` on a present key -/
def setCount (k : α) (count : Nat) : List (α × Nat × Nat) → List (α × Nat × Nat)
  | [] => []
  | (k', i, c) :: rest => if k' = k then (k', i, count) :: rest else (k', i, c) :: setCount k count rest

/-- first loop of `DuplicateWithIndex`; note the single `count` variable shared by all values -/
def dupIdxLoop (count : Nat) (kvMap : List (α × Nat × Nat)) (idx : Nat) : List α → List (α × Nat × Nat)
  | [] => kvMap
  | v :: rest =>
    if hasKey v kvMap then
      dupIdxLoop (count + 1) (setCount v (count + 1) kvMap) (idx + 1) rest
    else
      dupIdxLoop 1 (kvMap ++ [(v, idx, 1)]) (idx + 1) rest

/-- second loop: `for k, v := range kvMap { if v[1] > 1 { result[k] = v[0] } }` -/
def dupIdxCollect : List (α × Nat × Nat) → List (α × Nat)
  | [] => []
  | (k, i, c) :: rest => if c > 1 then (k, i) :: dupIdxCollect rest else dupIdxCollect rest

def duplicateWithIndex (slice : List α) : List (α × Nat) := dupIdxCollect (dupIdxLoop 0 [] 0 slice)

/-! ## baseFlatten / Union -/

mutual
/-- `baseFlatten(acc, slice)`: `none` is `(nil, error)` -/
def baseFlatten (acc : List α) : Nested α → Option (List α)
  | .leaf v => some (acc ++ [v])            -- case T
  | .slice v => some (acc ++ v)             -- case []T
  | .list v => flattenLoop acc v            -- case []any
  | .bad => none                            -- default
/-- `for _, sv := range v { acc, err = baseFlatten(acc, sv); if err != nil { return nil, … } }` -/
def flattenLoop (acc : List α) : List (Nested α) → Option (List α)
  | [] => some acc
  | sv :: rest =>
    match baseFlatten acc sv with
    | none => none
    | some acc' => flattenLoop acc' rest
end

def union (slice : Nested α) : Option (List α) :=
  match baseFlatten [] slice with
  | none => none
  | some flatten => some (unique flatten)

/-! ## Intersection / IntersectionBy -/

/-- `for j = 1; j < len(params); j++ { if !Contains(params[j], item) { break } }`: the final `j`
(`ps` = `params[j:]`) -/
def interScan (item : α) : List (List α) → Nat → Nat
  | [], j => j
  | p :: ps, j => if !contains item p then j else interScan item ps (j + 1)

/-- outer loop over `params[0]` (`n` = `len(params)`, `others` = `params[1:]`) -/
def interLoop (n : Nat) (others : List (List α)) (result : List α) : List α → List α
  | [] => result
  | item :: rest =>
    if contains item result then interLoop n others result rest
    else if interScan item others 1 = n then interLoop n others (result ++ [item]) rest
    else interLoop n others result rest

def intersection (params : List (List α)) : Res (List α) :=
  match params with
  | [] => .panic                                   -- params[0]: index out of range
  | p0 :: others => .ok (interLoop params.length others [] p0)

/-- the closure `has` of `IntersectionBy` -/
def hasImage (fn : α → α) (item : α) : List α → Bool
  | [] => false
  | v :: rest => if fn v = fn item then true else hasImage fn item rest

def interByScan (fn : α → α) (item : α) : List (List α) → Nat → Nat
  | [], j => j
  | p :: ps, j => if !hasImage fn item p then j else interByScan fn item ps (j + 1)

def interByLoop (fn : α → α) (n : Nat) (others : List (List α)) (result : List α) : List α → List α
  | [] => result
  | item :: rest =>
    if contains item result then interByLoop fn n others result rest
    else if interByScan fn item others 1 = n then interByLoop fn n others (result ++ [item]) rest
    else interByLoop fn n others result rest

def intersectionBy (fn : α → α) (params : List (List α)) : Res (List α) :=
  match params with
  | [] => .panic
  | p0 :: others => .ok (interByLoop fn params.length others [] p0)

/-! ## Without / Difference / DifferenceBy -/

/-- `for _, val := range values { if v == val { continue loop } }`: true = `continue loop` taken -/
def skipEq (v : α) : List α → Bool
  | [] => false
  | val :: rest => if v = val then true else skipEq v rest

/-- the loop shared (textually) by `Without` and `Difference` -/
def diffLoop (s2 keys result : List α) : List α → List α
  | [] => result
  | v :: rest =>
    if skipEq v s2 then diffLoop s2 keys result rest
    else if v ∈ keys then diffLoop s2 keys result rest
    else diffLoop s2 (v :: keys) (result ++ [v]) rest

def without (slice values : List α) : List α := diffLoop values [] [] slice
def difference (s1 s2 : List α) : List α := diffLoop s2 [] [] s1

/-- `for _, val := range s2 { if fn(v) == fn(val) { continue loop } }` -/
def skipByEq (fn : α → α) (v : α) : List α → Bool
  | [] => false
  | val :: rest => if fn v = fn val then true else skipByEq fn v rest

def diffByLoop (fn : α → α) (s2 keys result : List α) : List α → List α
  | [] => result
  | v :: rest =>
    if skipByEq fn v s2 then diffByLoop fn s2 keys result rest
    else if v ∈ keys then diffByLoop fn s2 keys result rest
    else diffByLoop fn s2 (v :: keys) (result ++ [v]) rest

def differenceBy (s1 s2 : List α) (fn : α → α) : List α := diffByLoop fn s2 [] [] s1

end GoguVerif.Model.C11
