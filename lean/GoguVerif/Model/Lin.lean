/-!
# Concurrent objects with atomic linearization points (C02)

A sequential object `(init, step)`; the concurrent system in which every call is
`inv ; τ* ; lin ; ret`, where `lin` is ONE atomic application of `step` (the method's critical
section under the instance's write lock, or a read-only section under the read lock) and `τ` are
internal steps that neither change the object nor influence the call's result (earlier read-only
sections whose observations are discarded, e.g. the emptiness pre-check of `Heap.Clear`).
Any number of threads and calls.  Histories are kept newest event first.
-/
namespace GoguVerif.Model.Lin

structure Obj (σ Op Ret : Type) where
  init : σ
  step : σ → Op → σ × Ret

inductive PC (Op Ret : Type)
  | idle
  | pending (c : Nat) (op : Op)
  | done (c : Nat) (op : Op) (r : Ret)

/-- Events carry the thread `t` and a unique call id `c`. -/
inductive Ev (Op Ret : Type)
  | inv (t c : Nat) (op : Op)
  | tau (t c : Nat)
  | lin (t c : Nat) (op : Op) (r : Ret)
  | ret (t c : Nat) (op : Op) (r : Ret)

structure CState (σ Op Ret : Type) where
  obj : σ
  pcs : Nat → PC Op Ret
  next : Nat            -- next fresh call id

def upd {α : Type} (f : Nat → α) (i : Nat) (a : α) : Nat → α := fun j => if j = i then a else f j

variable {σ Op Ret : Type}

inductive Step (O : Obj σ Op Ret) : CState σ Op Ret → Ev Op Ret → CState σ Op Ret → Prop
  | inv (s : CState σ Op Ret) (t : Nat) (op : Op) (h : s.pcs t = .idle) :
      Step O s (.inv t s.next op) { s with pcs := upd s.pcs t (.pending s.next op), next := s.next + 1 }
  | tau (s : CState σ Op Ret) (t c : Nat) (op : Op) (h : s.pcs t = .pending c op) :
      Step O s (.tau t c) s
  | lin (s : CState σ Op Ret) (t c : Nat) (op : Op) (h : s.pcs t = .pending c op) :
      Step O s (.lin t c op (O.step s.obj op).2)
        { s with obj := (O.step s.obj op).1, pcs := upd s.pcs t (.done c op (O.step s.obj op).2) }
  | ret (s : CState σ Op Ret) (t c : Nat) (op : Op) (r : Ret) (h : s.pcs t = .done c op r) :
      Step O s (.ret t c op r) { s with pcs := upd s.pcs t .idle }

/-- Reachability with the history, NEWEST event first. -/
inductive Reach (O : Obj σ Op Ret) : List (Ev Op Ret) → CState σ Op Ret → Prop
  | init : Reach O [] ⟨O.init, fun _ => .idle, 0⟩
  | step {h s e s'} : Reach O h s → Step O s e s' → Reach O (e :: h) s'

/-- The sequential witness: operations in the order of their `lin` events (oldest first). -/
def linOps : List (Ev Op Ret) → List (Op × Ret)
  | [] => []
  | .lin _ _ op r :: es => linOps es ++ [(op, r)]
  | _ :: es => linOps es

/-- Legal sequential run of the object producing exactly the recorded results. -/
inductive Legal (O : Obj σ Op Ret) : σ → List (Op × Ret) → σ → Prop
  | nil (s) : Legal O s [] s
  | cons {s op rest s'} : Legal O (O.step s op).1 rest s' → Legal O s ((op, (O.step s op).2) :: rest) s'

end GoguVerif.Model.Lin
