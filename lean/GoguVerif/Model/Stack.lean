import GoguVerif.Spec.C06
/-!
# Model of `stack/stack.go` (slice-backed `Stack`)
-/
namespace GoguVerif.Model.Stack
open GoguVerif.Spec.C06 (Op Out)

variable {α : Type} [Inhabited α] [DecidableEq α]

def searchLoop (item : α) : List α → Bool
  | [] => false
  | x :: r => if x = item then true else searchLoop item r

def step (items : List α) : Op α → List α × Out α
  | .push x => (items ++ [x], .unit)
  | .pop =>
    if items.length = 0 then (items, .val default)
    else match items.getLast? with
      | none => (items, .val default)
      | some x => (items.take (items.length - 1), .val x)     -- items[size-1]; items[:size-1]
  | .peek =>
    if items.length = 0 then (items, .val default)
    else match items.getLast? with
      | none => (items, .val default)
      | some x => (items, .val x)
  | .search x => (items, .bool (searchLoop x items))
  | .size => (items, .int items.length)

def run (s : List α) : List (Op α) → List α × List (Out α)
  | [] => (s, [])
  | op :: ops =>
    let (s', o) := step s op
    let (s'', os) := run s' ops
    (s'', o :: os)

end GoguVerif.Model.Stack
