import GoguVerif.Spec.C05
/-!
# Model of `queue/queue.go` (slice-backed `Queue`)

State = the `items` slice.  Each function follows the Go method statement by statement.
-/
namespace GoguVerif.Model.Queue
open GoguVerif.Spec.C05 (Op Out)

variable {α : Type} [Inhabited α] [DecidableEq α]

/-- `Search`'s loop `for i := 0; i < q.size(); i++ { if q.items[i] == item { return true } }` -/
def searchLoop (item : α) : List α → Bool
  | [] => false
  | x :: r => if x = item then true else searchLoop item r

def step (items : List α) : Op α → List α × Out α
  | .enqueue x => (items ++ [x], .unit)                       -- append(q.items, item)
  | .dequeue =>
    if items.length = 0 then (items, .deq default true)      -- zero item + error
    else match items with
      | [] => (items, .deq default true)
      | x :: r => (r, .deq x false)                            -- items[0]; items = items[1:]
  | .peek =>
    if items.length = 0 then (items, .val default)
    else match items with
      | [] => (items, .val default)
      | x :: _ => (items, .val x)
  | .search x => (items, .bool (searchLoop x items))
  | .size => (items, .int items.length)
  | .clear => ([], .unit)                                      -- q.items = nil

def run (s : List α) : List (Op α) → List α × List (Out α)
  | [] => (s, [])
  | op :: ops =>
    let (s', o) := step s op
    let (s'', os) := run s' ops
    (s'', o :: os)

end GoguVerif.Model.Queue
