import GoguVerif.Spec.C08
import GoguVerif.Gen.Consts
/-!
# Model of `cache/cache.go` (expiring cache `Cache[K ~string, V any]`)

The Go map `c.items : map[K]*Item[V]` is an association list `key ↦ Item`.  Map primitives:
`lookup` (`v, ok := m[k]`), `erase` (`delete(m, k)`), `assign` (`m[k] = v`).  The order of the list
is the (arbitrary) iteration order of the Go map; nothing observable may depend on it
(`Lemmas/C08.lean`: every `range` loop below is characterised independently of the order).

Time is a parameter: every function that calls `time.Now()` in the Go code takes `now`
(`time.Now().UnixNano()`, any unit as long as durations use the same one; the harness counts
virtual milliseconds since the cache was created).  `time.Now().Add(d).UnixNano()` is `now + d`.
Within one call all `time.Now()` readings are the same instant (true under the virtual clock).

Keys are `Int` (the harness' `k<i>`), values are `Int`; for the string-valued instantiation
(`strVals`) the value `0` stands for the empty string `""` that `store` rejects.

The constants `NoExpiration`, `DefaultExpiration` are taken from the regenerated `Gen/Consts.lean`.
-/
namespace GoguVerif.Model.Cache
open GoguVerif.Spec.C08 (Op Out)

/-- `type Item[V any] struct { object V; expiration int64 }` -/
structure Item where
  object : Int
  expiration : Int
deriving Repr, DecidableEq, BEq

/-- `expTime`, `cleanupInt` of `cache`, and which instantiation of `V` is modelled. -/
structure Cfg where
  expTime : Int
  cleanupInt : Int
  strVals : Bool
deriving Repr

abbrev Items := List (Int × Item)

/-- `item, ok := c.items[key]` -/
def lookup (key : Int) : Items → Option Item
  | [] => none
  | (k, it) :: r => if k = key then some it else lookup key r

/-- `delete(c.items, key)` (the built-in) -/
def erase (key : Int) : Items → Items
  | [] => []
  | (k, it) :: r => if k = key then erase key r else (k, it) :: erase key r

/-- `c.items[key] = it` -/
def assign (key : Int) (it : Item) (m : Items) : Items := (key, it) :: erase key m

/-- the type switch of `store`: `case string: if len(val) == 0 { return error }` -/
def rejected (cfg : Cfg) (val : Int) : Bool := cfg.strVals && val == 0

/-- The expiration computed at the top of `store`:
```go
var exp int64
if d == DefaultExpiration { d = c.expTime }
if d > 0 { exp = time.Now().Add(d).UnixNano() } else if d < 0 { exp = int64(NoExpiration) }
``` -/
def expiry (cfg : Cfg) (now d : Int) : Int :=
  let d := if d = Gen.defaultExpiration then cfg.expTime else d
  if d > 0 then now + d
  else if d < 0 then Gen.noExpiration
  else 0

/-- `store(key, val, d)`: returns the new map and the error flag. -/
def store (cfg : Cfg) (now : Int) (m : Items) (key val d : Int) : Items × Bool :=
  let exp := expiry cfg now d
  if rejected cfg val then (m, true)
  else (assign key ⟨val, exp⟩ m, false)

/-- `add` = lock; `store`. -/
def add (cfg : Cfg) (now : Int) (m : Items) (key val d : Int) : Items × Bool :=
  store cfg now m key val d

/-- `Set`:
```go
if item, ok := c.items[key]; ok {
    if item.expiration <= 0 || time.Now().UnixNano() <= item.expiration { return error }
}
return c.store(key, val, d)
``` -/
def set (cfg : Cfg) (now : Int) (m : Items) (key val d : Int) : Items × Bool :=
  match lookup key m with
  | some item =>
    if item.expiration ≤ 0 ∨ now ≤ item.expiration then (m, true)
    else store cfg now m key val d
  | none => store cfg now m key val d

/-- `Get`: `some item` = `(item, nil)`, `none` = `(nil, error)`.
```go
if item, ok := c.items[key]; ok {
    if item.expiration > 0 { now := …; if now > item.expiration { return nil, error } }
    return item, nil
}
return nil, error
``` -/
def get (now : Int) (m : Items) (key : Int) : Option Item :=
  match lookup key m with
  | some item =>
    if item.expiration > 0 then
      if now > item.expiration then none else some item
    else some item
  | none => none

/-- `Update`: `item, err := c.Get(key); if item != nil && err != nil { return err }; return c.add(…)`.
`Get` never returns an item together with an error, so the early return is dead. -/
def update (cfg : Cfg) (now : Int) (m : Items) (key val d : Int) : Items × Bool :=
  match get now m key with
  | some _ => add cfg now m key val d     -- item != nil, err == nil
  | none => add cfg now m key val d       -- item == nil

/-- `cache.delete`: `if _, ok := c.items[key]; ok { delete(c.items, key); return nil }; return error` -/
def delete (m : Items) (key : Int) : Items × Bool :=
  match lookup key m with
  | some _ => (erase key m, false)
  | none => (m, true)

/-- The loop of `DeleteExpired` over the entries `es` still to be visited (`range c.items`; only the
entry being visited is ever deleted, so the visit sequence is the snapshot taken at loop entry),
current map `m`, accumulated `err != nil`. -/
def deleteExpiredLoop (now : Int) : List (Int × Item) → Items → Bool → Items × Bool
  | [], m, err => (m, err)
  | (k, item) :: es, m, err =>
    if item.expiration > 0 ∧ now > item.expiration then
      match delete m k with
      | (m', e) => deleteExpiredLoop now es m' (err || e)
    else deleteExpiredLoop now es m err

/-- `DeleteExpired`; it returns `errors.Unwrap(err)`, which is `nil` both for `err == nil` and for
the result of `errors.Join` (a join error has no `Unwrap() error` method). -/
def deleteExpired (now : Int) (m : Items) : Items × Bool :=
  match deleteExpiredLoop now m m false with
  | (m', _) => (m', false)

/-- `Flush`: `c.items = make(map…)` -/
def flush : Items := []

/-- `List`: `for k, v := range c.items { items[k] = v }` into a fresh map -/
def listLoop : List (Int × Item) → Items → Items
  | [], acc => acc
  | (k, v) :: es, acc => listLoop es (assign k v acc)

def list (m : Items) : Items := listLoop m []

/-- `Count`: `len(c.items)` -/
def count (m : Items) : Nat := m.length

/-- `MapToCache` over the entries of the argument map in the order `kvs`:
`for k, v := range m { e := c.Set(k, v, d); err = errors.Join(err, e) }; return err` -/
def mapToCacheLoop (cfg : Cfg) (now d : Int) : List (Int × Int) → Items → Bool → Items × Bool
  | [], m, err => (m, err)
  | (k, v) :: kvs, m, err =>
    match set cfg now m k v d with
    | (m', e) => mapToCacheLoop cfg now d kvs m' (err || e)

def mapToCache (cfg : Cfg) (now : Int) (m : Items) (kvs : List (Int × Int)) (d : Int) : Items × Bool :=
  mapToCacheLoop cfg now d kvs m false

/-- `IsExpired`:
`if item, ok := c.items[key]; ok && item.expiration > 0 { return now > item.expiration }; return false` -/
def isExpired (now : Int) (m : Items) (key : Int) : Bool :=
  match lookup key m with
  | some item => if item.expiration > 0 then decide (now > item.expiration) else false
  | none => false

/-! ## Canonical observable of `List()`: the (key, value) pairs sorted by key -/

def insertKV (e : Int × Int) : List (Int × Int) → List (Int × Int)
  | [] => [e]
  | x :: r => if e.1 ≤ x.1 then e :: x :: r else x :: insertKV e r

def sortKV : List (Int × Int) → List (Int × Int)
  | [] => []
  | e :: r => insertKV e (sortKV r)

def listObs (m : Items) : List (Int × Int) := sortKV ((list m).map fun p => (p.1, p.2.object))

/-! ## One API call at instant `now` (everything except the passing of time) -/

/-- `SetDefault(k, v)` is `Set(k, v, DefaultExpiration)`; the protocol maps it to `.set k v 0`. -/
def call (cfg : Cfg) (now : Int) (m : Items) : Op → Items × Out
  | .set k v d => match set cfg now m k v d with | (m', e) => (m', .err e)
  | .update k v d => match update cfg now m k v d with | (m', e) => (m', .err e)
  | .get k => match get now m k with
    | some item => (m, .got (some item.object))
    | none => (m, .got none)
  | .delete k => match delete m k with | (m', e) => (m', .err e)
  | .flush => (flush, .unit)
  | .deleteExpired => match deleteExpired now m with | (m', e) => (m', .err e)
  | .count => (m, .int (count m))
  | .list => (m, .items (listObs m))
  | .mapToCache kvs d => match mapToCache cfg now m kvs d with | (m', e) => (m', .err e)
  | .isExpired k => (m, .bool (isExpired now m k))
  | .sleep _ => (m, .unit)            -- time does not pass inside `call`; see `step`

/-! ## Events: API calls and janitor ticks, each at its own instant -/

/-- What happens to a cache: an API call at instant `now`, or the janitor's ticker firing at `now`
(`case <-tick.C: c.DeleteExpired()`). -/
inductive Ev where
  | call (now : Int) (op : Op)
  | tick (now : Int)
deriving Repr

def ev (cfg : Cfg) (m : Items) : Ev → Items × Option Out
  | .call now op => match call cfg now m op with | (m', o) => (m', some o)
  | .tick now => ((deleteExpired now m).1, none)

def runEv (cfg : Cfg) (m : Items) : List Ev → Items × List Out
  | [] => (m, [])
  | e :: es =>
    match ev cfg m e with
    | (m', o) =>
      match runEv cfg m' es with
      | (m'', os) => (m'', match o with | some o => o :: os | none => os)

/-! ## The clocked machine driven by the harness protocol

`now` = virtual time since `New`; `nextTick` = the instant at which the `time.Ticker` created by
`cleanup()` fires next (`New` starts the janitor only if `cleanupTime > 0`; a punctual ticker fires at
`cleanupInt, 2·cleanupInt, …`).  `sleep ms` lets the clock run to `now + ms`; the janitor runs
`DeleteExpired` at every tick instant `≤ now + ms` (the harness waits for it to finish). -/

structure St where
  now : Int := 0
  nextTick : Int
  items : Items := []
deriving Repr

def init (cfg : Cfg) : St := { nextTick := cfg.cleanupInt }

/-- Janitor ticks due up to instant `to` (at most `fuel` of them). -/
def runTicks (cleanupInt to : Int) : Nat → Int → Items → Int × Items
  | 0, nt, m => (nt, m)
  | fuel + 1, nt, m =>
    if nt ≤ to then runTicks cleanupInt to fuel (nt + cleanupInt) (deleteExpired nt m).1
    else (nt, m)

def step (cfg : Cfg) (s : St) : Op → St × Out
  | .sleep ms =>
    let to := s.now + ms
    if cfg.cleanupInt > 0 then
      match runTicks cfg.cleanupInt to (ms.toNat + 1) s.nextTick s.items with
      | (nt, m) => ({ now := to, nextTick := nt, items := m }, .unit)
    else ({ s with now := to }, .unit)
  | op => match call cfg s.now s.items op with
    | (m', o) => ({ s with items := m' }, o)

def run (cfg : Cfg) (s : St) : List Op → St × List Out
  | [] => (s, [])
  | op :: ops =>
    match step cfg s op with
    | (s', o) =>
      match run cfg s' ops with
      | (s'', os) => (s'', o :: os)

end GoguVerif.Model.Cache
