import GoguVerif.Spec.C03
/-!
# Model of `heap/heap.go` and `heap/heapsort.go`

State = the comparator and the `data` slice, as an `Array`.  Every function follows the Go method
statement by statement, index for index.  Conventions:

* Go's index panics are the explicit outcome `.panic` (`swap`, `pick`, `set?`, `dropLast?` return
  `none` when an index is out of range; no `get!`/`getD`/`setIfInBounds`).
* Loops whose termination depends on the data take *fuel* and answer `.hang` when it runs out.
  `.hang` is a genuine behaviour only in `moveUp` (a comparator with `comp x x = true` makes the Go
  loop spin at the root for ever); everywhere else it is excluded by theorems (`Lemmas/C03*.lean`:
  `moveDown_ne_hang`, `fromSlice_ok`, …), in particular for `FromSlice`, whose inner loop clobbers
  the outer loop variable.
* Indices are `Nat`.  Go computes `parent(i) = (i-1)/2` on `int` with truncating division; for
  every index `i ≥ 0` that is `(i-1)/2` on `Nat` (`i = 0` gives `0` in both: `-1/2 = 0` truncated).
  The loop bounds of `Convert`, `FromSlice` and `Sort` can be negative and are computed on `Int`
  with `Int.tdiv`, literally.
-/
namespace GoguVerif.Model.Heap
open GoguVerif.Spec.C03 (Op Out)

inductive Outcome (β : Type) where
  | ok (b : β)
  | panic
  | hang
deriving Repr

abbrev Comp (α : Type) := α → α → Bool

variable {α : Type}

/-- `swap(data, i, j)`: `data[i], data[j] = data[j], data[i]` (panics when out of range). -/
def swap (d : Array α) (i j : Nat) : Option (Array α) :=
  if h : i < d.size ∧ j < d.size then some (d.swap i j h.1 h.2) else none

/-- `data[i] = v` (panics when out of range). -/
def set? (d : Array α) (i : Nat) (v : α) : Option (Array α) :=
  if h : i < d.size then some (d.set i v h) else none

/-- `data = data[:len(data)-1]` (panics on the empty slice). -/
def dropLast? (d : Array α) : Option (Array α) :=
  if d.size = 0 then none else some d.pop

/-- `func (h *Heap[T]) parent(i int) int { return (i - 1) / 2 }` for `i ≥ 0`. -/
def parent (i : Nat) : Nat := (i - 1) / 2

/-- `if c < n && comp(d[c], d[cur]) { cur = c }` with Go's index panics. -/
def pick (comp : Comp α) (n : Nat) (d : Array α) (cur c : Nat) : Option Nat :=
  if c < n then
    match d[c]?, d[cur]? with
    | some x, some y => some (if comp x y then c else cur)
    | _, _ => none
  else some cur

/-- `moveDown(n, i)` (heap.go).  The Go function recurses on `current > i`, `current < n`; the fuel
is the recursion budget (`n - i + 1` is always enough: `moveDown_ne_hang`). -/
def moveDownF (comp : Comp α) (n : Nat) : Nat → Array α → Nat → Outcome (Array α)
  | 0, _, _ => .hang
  | fuel + 1, d, i =>
    match pick comp n d i (2 * i + 1) with                 -- left
    | none => .panic
    | some cur =>
      match pick comp n d cur (2 * i + 2) with             -- right
      | none => .panic
      | some cur' =>
        if cur' ≠ i then
          match swap d i cur' with
          | none => .panic
          | some d' => moveDownF comp n fuel d' cur'
        else .ok d

def moveDown (comp : Comp α) (n : Nat) (d : Array α) (i : Nat) : Outcome (Array α) :=
  moveDownF comp n (n - i + 1) d i

/-- `moveUp(i)`: `for { if !comp(data[i], data[parent(i)]) { break }; swap(data, i, parent(i)); i = parent(i) }`.
`i` strictly decreases until it is 0; at 0 the loop compares the root with itself, so it spins for
ever iff `comp root root`; fuel `i + 1` therefore separates "terminates" from "hangs" exactly. -/
def moveUpF (comp : Comp α) : Nat → Array α → Nat → Outcome (Array α)
  | 0, _, _ => .hang
  | fuel + 1, d, i =>
    match d[i]?, d[parent i]? with
    | some x, some p =>
      if !comp x p then .ok d
      else
        match swap d i (parent i) with
        | none => .panic
        | some d' => moveUpF comp fuel d' (parent i)
    | _, _ => .panic

def moveUp (comp : Comp α) (d : Array α) (i : Nat) : Outcome (Array α) :=
  moveUpF comp (i + 1) d i

/-- The heap object: `comp` and `data` (the mutex is C01's business). -/
structure Heap (α : Type) where
  comp : Comp α
  data : Array α

/-- `NewHeap(comp)` -/
def new (comp : Comp α) : Heap α := { comp := comp, data := #[] }

/-- one iteration of `Push`'s loop: `h.data = append(h.data, v); h.moveUp(h.size() - 1)` -/
def push (h : Heap α) (v : α) : Outcome (Heap α) :=
  let d := h.data.push v
  match moveUp h.comp d (d.size - 1) with
  | .ok d' => .ok { h with data := d' }
  | .panic => .panic
  | .hang => .hang

/-- `Push(val...)`: `for _, v := range val { … }` -/
def pushAll (h : Heap α) : List α → Outcome (Heap α)
  | [] => .ok h
  | v :: vs =>
    match push h v with
    | .ok h' => pushAll h' vs
    | .panic => .panic
    | .hang => .hang

/-- `peek()` -/
def peek [Inhabited α] (h : Heap α) : Outcome α :=
  if h.data.size = 0 then .ok default
  else match h.data[0]? with
    | some x => .ok x
    | none => .panic

/-- `Pop()` -/
def pop [Inhabited α] (h : Heap α) : Outcome (Heap α × α) :=
  if h.data.size = 0 then .ok (h, default)
  else
    match h.data[0]?, h.data[h.data.size - 1]? with        -- val = h.peek(); h.data[h.size()-1]
    | some val, some last =>
      match set? h.data 0 last with                        -- h.data[0] = …
      | none => .panic
      | some d1 =>
        match dropLast? d1 with                            -- h.data = h.data[:h.size()-1]
        | none => .panic
        | some d2 =>
          match moveDown h.comp d2.size d2 0 with          -- h.moveDown(h.size(), 0)
          | .ok d3 => .ok ({ h with data := d3 }, val)
          | .panic => .panic
          | .hang => .hang
    | _, _ => .panic

/-- `Clear()` -/
def clear (h : Heap α) : Heap α :=
  if h.data.size = 0 then h else { h with data := #[] }

/-- `getIndex`: `for i := 0; i < len(slice); i++ { if slice[i] == val { return i, true } }; return -1, false` -/
def getIndexL [DecidableEq α] (val : α) : List α → Nat → Option Nat
  | [], _ => none
  | x :: r, i => if x = val then some i else getIndexL val r (i + 1)

def getIndex [DecidableEq α] (d : Array α) (val : α) : Option Nat := getIndexL val d.toList 0

/-- `Delete(val)`; the answer is the `bool` (the error is non-nil exactly when it is `false`). -/
def delete [DecidableEq α] (h : Heap α) (val : α) : Outcome (Heap α × Bool) :=
  let len := h.data.size
  if len = 0 then .ok (h, false)
  else
    match getIndex h.data val with
    | none => .ok (h, false)
    | some idx =>
      match swap h.data idx (len - 1) with                 -- swap(h.data, idx, len-1)
      | none => .panic
      | some d1 =>
        match dropLast? d1 with                            -- h.data = h.data[:len-1]
        | none => .panic
        | some d2 =>
          match moveDown h.comp (len - 1) d2 0 with        -- h.moveDown(len-1, 0)
          | .ok d3 => .ok ({ h with data := d3 }, true)
          | .panic => .panic
          | .hang => .hang

/-- `Convert`'s loop `for i := …; i >= 0; i-- { h.moveDown(h.size(), i) }`; `k = i + 1`. -/
def convertLoop (comp : Comp α) : Nat → Array α → Outcome (Array α)
  | 0, d => .ok d
  | k + 1, d =>
    match moveDown comp d.size d k with
    | .ok d' => convertLoop comp k d'
    | .panic => .panic
    | .hang => .hang

/-- first value of `Convert`'s loop variable, `(h.size() - 2) / 2` on Go `int` -/
def convertStart (size : Nat) : Int := ((size : Int) - 2).tdiv 2

/-- `Convert(comp)` -/
def convert (h : Heap α) (comp : Comp α) : Outcome (Heap α) :=
  match convertLoop comp (convertStart h.data.size + 1).toNat h.data with
  | .ok d => .ok { comp := comp, data := d }
  | .panic => .panic
  | .hang => .hang

/-- The inner `for { … }` of `FromSlice`, started at `i`; answers the data and the value of `i` at
the `break`.  (`l < 0` can only happen by overflow and is not modelled.) -/
def fsInner (comp : Comp α) : Nat → Array α → Nat → Outcome (Array α × Nat)
  | 0, _, _ => .hang
  | fuel + 1, d, i =>
    if 2 * i + 1 ≥ d.size then .ok (d, i)                              -- l >= len(data): break
    else
      match pick comp d.size d (2 * i + 1) (2 * i + 2) with            -- current := l; if r < len && comp(d[r], d[l]) { current = r }
      | none => .panic
      | some cur =>
        match d[cur]?, d[i]? with
        | some x, some y =>
          if !comp x y then .ok (d, i)                                 -- break
          else
            match swap d i cur with
            | none => .panic
            | some d' => fsInner comp fuel d' cur                      -- i = current
        | _, _ => .panic

/-- The outer loop `for i := …; i >= 0; i-- { inner }` of `FromSlice`: the `i--` acts on whatever
the inner loop left in `i`.  The inner loop gets `len(data)` as fuel (always enough). -/
def fsOuter (comp : Comp α) : Nat → Array α → Int → Outcome (Array α)
  | 0, _, _ => .hang
  | fuel + 1, d, i =>
    if i < 0 then .ok d
    else
      match fsInner comp d.size d i.toNat with
      | .ok (d', i') => fsOuter comp fuel d' ((i' : Int) - 1)
      | .panic => .panic
      | .hang => .hang

/-- fuel that `fsOuter` is given; enough for every input (`fromSlice_ok`). -/
def fsFuel (n : Nat) : Nat := n * n + 1

/-- `FromSlice(data, comp)` -/
def fromSlice (data : Array α) (comp : Comp α) : Outcome (Heap α) :=
  match fsOuter comp (fsFuel data.size) data ((data.size : Int).tdiv 2 - 1) with
  | .ok d => .ok { comp := comp, data := d }
  | .panic => .panic
  | .hang => .hang

/-- `Merge`: a new heap with every element of `h.data`, then of `h2.data`, pushed (in slice order). -/
def merge (h h2 : Heap α) : Outcome (Heap α) :=
  match pushAll (new h.comp) h.data.toList with
  | .ok nh => pushAll nh h2.data.toList
  | .panic => .panic
  | .hang => .hang

/-- `Meld`: as `Merge`, and `h.data = nil`, `h2.data = nil`.  Answers (h, h2, new). -/
def meld (h h2 : Heap α) : Outcome (Heap α × Heap α × Heap α) :=
  match pushAll (new h.comp) h.data.toList with
  | .ok nh =>
    match pushAll nh h2.data.toList with
    | .ok nh' => .ok ({ h with data := #[] }, { h2 with data := #[] }, nh')
    | .panic => .panic
    | .hang => .hang
  | .panic => .panic
  | .hang => .hang

/-- `Sort`'s loop `for i := heap.Size() - 1; i > 0; i-- { swap(data, 0, i); heap.moveDown(i, 0) }`
(`data` and `heap.data` are the same slice). -/
def sortLoop (comp : Comp α) : Nat → Array α → Outcome (Array α)
  | 0, d => .ok d
  | i + 1, d =>
    match swap d 0 (i + 1) with
    | none => .panic
    | some d1 =>
      match moveDown comp (i + 1) d1 0 with
      | .ok d2 => sortLoop comp i d2
      | .panic => .panic
      | .hang => .hang

/-- `Sort(data, comp)` (heapsort.go); `heap.Size() - 1` is `-1` on the empty slice: no iteration. -/
def sort (data : Array α) (comp : Comp α) : Outcome (Array α) :=
  match fromSlice data comp with
  | .ok h => sortLoop comp (h.data.size - 1) h.data
  | .panic => .panic
  | .hang => .hang

/-! ## One operation of a history (the operations the harness performs) -/

def step [Inhabited α] [DecidableEq α] (h : Heap α) : Op α → Outcome (Heap α × Out α)
  | .push v =>
    match push h v with
    | .ok h' => .ok (h', .unit)
    | .panic => .panic
    | .hang => .hang
  | .pushn vs =>
    match pushAll h vs with
    | .ok h' => .ok (h', .unit)
    | .panic => .panic
    | .hang => .hang
  | .pop =>
    match pop h with
    | .ok (h', x) => .ok (h', .val x)
    | .panic => .panic
    | .hang => .hang
  | .peek =>
    match peek h with
    | .ok x => .ok (h, .val x)
    | .panic => .panic
    | .hang => .hang
  | .size => .ok (h, .int h.data.size)
  | .isEmpty => .ok (h, .bool (h.data.size == 0))
  | .clear => .ok (clear h, .unit)
  | .values => .ok (h, .vals h.data.toList)
  | .delete v =>
    match delete h v with
    | .ok (h', b) => .ok (h', .del b)
    | .panic => .panic
    | .hang => .hang
  | .convert c =>
    match convert h c with
    | .ok h' => .ok (h', .unit)
    | .panic => .panic
    | .hang => .hang
  | .merge arg =>
    match pushAll (new h.comp) arg with                    -- the harness builds h2 by pushing `arg`
    | .ok h2 =>
      match merge h h2 with
      | .ok nh => .ok (nh, .merged h.data.toList h2.data.toList nh.data.toList h.data.size h2.data.size)
      | .panic => .panic
      | .hang => .hang
    | .panic => .panic
    | .hang => .hang
  | .meld arg =>
    match pushAll (new h.comp) arg with
    | .ok h2 =>
      match meld h h2 with
      | .ok (h', h2', nh) => .ok (nh, .merged h'.data.toList h2'.data.toList nh.data.toList h'.data.size h2'.data.size)
      | .panic => .panic
      | .hang => .hang
    | .panic => .panic
    | .hang => .hang
  | .fromSlice data c =>
    match fromSlice data.toArray c with
    | .ok h' => .ok (h', .vals h'.data.toList)
    | .panic => .panic
    | .hang => .hang

/-- A whole history; stops at the first panic / hang. -/
def run [Inhabited α] [DecidableEq α] (h : Heap α) : List (Op α) → Outcome (Heap α × List (Out α))
  | [] => .ok (h, [])
  | op :: ops =>
    match step h op with
    | .ok (h', o) =>
      match run h' ops with
      | .ok (h'', os) => .ok (h'', o :: os)
      | .panic => .panic
      | .hang => .hang
    | .panic => .panic
    | .hang => .hang

end GoguVerif.Model.Heap
