/-!
# Sequence-level contract of `list.DList` (the operations `LQueue` and `LStack` use)

`list.DList` always holds at least one node (the head is embedded by value in the list struct).
This file states what each `DList` method used by `queue.LQueue` / `stack.LStack` does *to the
sequence of values* reachable along the `next` chain.  It is the middle layer between the
pointer-level model of `dlist.go` (`Model/DList.lean`, property C19: the `Repr` theorems there show
that the pointer model realises exactly these sequence operations) and the models of `lqueue.go` /
`lstack.go`, which call these methods.

`default` is Go's zero value of the element type.
-/
namespace GoguVerif.Model.DSeq

variable {α : Type} [Inhabited α] [DecidableEq α]

/-- `InitDList(v)`: one node. -/
def init (v : α) : List α := [v]

/-- `Append(v)`: walk to the last node, link a new node after it. -/
def append (xs : List α) (v : α) : List α := xs ++ [v]

/-- `Shift()`: returns a copy of the old head node (its value is all the callers use).  With a single
node the node is kept and its value is reset to the zero value; otherwise the head is replaced by a
copy of the second node. -/
def shift (xs : List α) : List α × α :=
  match xs with
  | [] => ([], default)                 -- unreachable: a `DList` is never empty
  | [x] => ([default], x)
  | x :: y :: r => (y :: r, x)

/-- `Pop()`: with a single node nothing is removed and the returned node is the zero node; otherwise
the last node is unlinked and the returned node is a copy of the *new last* node (`node = *tmp` is
taken before the link is cut) — this is what the known findings F12a/F12b of `LStack` come from. -/
def pop (xs : List α) : List α × α :=
  if xs.length ≤ 1 then (xs, default)
  else (xs.dropLast, xs.dropLast.getLast?.getD default)

/-- `First()` -/
def first (xs : List α) : α := xs.head?.getD default

/-- `Last()` -/
def last (xs : List α) : α := xs.getLast?.getD default

/-- `Find(v)`: second component (found) -/
def find (xs : List α) (v : α) : Bool := decide (v ∈ xs)

/-- `Clear()`: `head.next = nil` — the head node (and its value) stays. -/
def clear (xs : List α) : List α := xs.take 1

end GoguVerif.Model.DSeq
