import GoguVerif.Spec.C06
import GoguVerif.Model.DSeq
/-!
# Model of `stack/lstack.go` (linked `LStack`)

State: the counter `n` and the underlying `list.DList` (as the sequence it holds, see `Model/DSeq`).
-/
namespace GoguVerif.Model.LStack
open GoguVerif.Spec.C06 (Op Out)

variable {α : Type} [Inhabited α] [DecidableEq α]

structure St (α : Type) where
  list : List α
  n : Int
deriving Repr, DecidableEq

/-- `NewLinked(t)` -/
def new (t : α) : St α := { list := DSeq.init t, n := 1 }

def step (s : St α) : Op α → St α × Out α
  | .push x => ({ list := DSeq.append s.list x, n := s.n + 1 }, .unit)     -- s.n++; s.list.Append(item)
  | .pop =>
    let (l', v) := DSeq.pop s.list                                          -- node := s.list.Pop()
    ({ list := l', n := if s.n > 0 then s.n - 1 else s.n }, .val v)         -- if s.n > 0 { s.n-- }; Val(node)
  | .peek => (s, .val (DSeq.last s.list))
  | .search x => (s, .bool (DSeq.find s.list x))
  | .size => (s, .int s.n)

def run (s : St α) : List (Op α) → St α × List (Out α)
  | [] => (s, [])
  | op :: ops =>
    let (s', o) := step s op
    let (s'', os) := run s' ops
    (s'', o :: os)

end GoguVerif.Model.LStack
