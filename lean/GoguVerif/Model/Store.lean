/-!
# Slice store (C16)

A model of the part of Go's memory that slices live in: *backing arrays* (identified by their index in
the store) and *slice headers* `(arr, off, len, cap)` that view a window of one array.  `make`,
indexed write, re-slicing and `append` follow the Go specification: `append` writes in place when the
capacity suffices (this *does* write the backing array beyond the slice's length) and otherwise copies
into a freshly allocated array.

On top of it a tiny *builder discipline* is defined (`Instr`, `run`): a helper may read anything,
allocate, and write / append only through slices that point into storage allocated by the helper
itself.  `Theorems/C16.lean` proves the frame theorem for every disciplined program.
-/
namespace GoguVerif.Model.Store

/-- One helper as classified by the translator: the parameters it writes through, the parameters its
result may alias, and whether all its writes are the self-assignment idiom `m[k] = v` inside
`for k, v := range m`. -/
structure EffectEntry where
  name : String
  writes : List Nat
  aliases : List Nat
  selfAssignOnly : Bool
deriving DecidableEq, Repr

/-- the store: backing arrays, addressed by position -/
abbrev Store := List (List Int)

/-- a slice header -/
structure Slice where
  arr : Nat
  off : Nat
  len : Nat
  cap : Nat
deriving DecidableEq, Repr

/-- `make([]int, len, cap)`: a fresh zeroed array; returns the new store and the header -/
def alloc (σ : Store) (len cap : Nat) : Store × Slice :=
  (σ ++ [List.replicate (max len cap) 0], { arr := σ.length, off := 0, len := len, cap := max len cap })

/-- write cell `i` of array `a` -/
def setCell (σ : Store) (a i : Nat) (v : Int) : Store :=
  σ.modify a (fun arr => arr.set i v)

/-- `s[i] = v` (`none` = index out of range: a Go panic) -/
def write (σ : Store) (s : Slice) (i : Nat) (v : Int) : Option Store :=
  if i < s.len then some (setCell σ s.arr (s.off + i) v) else none

/-- `s[i]` -/
def read (σ : Store) (s : Slice) (i : Nat) : Option Int :=
  if i < s.len then (σ[s.arr]?).bind (fun arr => arr[s.off + i]?) else none

/-- `s[lo:hi]` (`hi ≤ cap`) -/
def reslice (s : Slice) (lo hi : Nat) : Option Slice :=
  if lo ≤ hi ∧ hi ≤ s.cap then some { arr := s.arr, off := s.off + lo, len := hi - lo, cap := s.cap - lo }
  else none

/-- the elements a slice shows -/
def elems (σ : Store) (s : Slice) : List Int :=
  ((σ[s.arr]?).getD []).drop s.off |>.take s.len

/-- `append(s, v)`: in place iff the capacity suffices, else copy into a fresh array of doubled capacity -/
def append (σ : Store) (s : Slice) (v : Int) : Store × Slice :=
  if s.len < s.cap then
    (setCell σ s.arr (s.off + s.len) v, { s with len := s.len + 1 })
  else
    let newCap := 2 * s.cap + 1
    let fresh := elems σ s ++ [v] ++ List.replicate (newCap - s.len - 1) 0
    (σ ++ [fresh], { arr := σ.length, off := 0, len := s.len + 1, cap := newCap })

/-! ## The builder discipline -/

/-- Instructions of a disciplined helper.  Slices are kept in a register file (`List Slice`); register
indices that are out of range make the instruction a no-op. -/
inductive Instr where
  /-- `r := make([]T, len, cap)` (new register) -/
  | alloc (len cap : Nat)
  /-- `r[i] = v` — only through a register that points into storage allocated by the helper -/
  | write (r i : Nat) (v : Int)
  /-- `r = append(r, v)` — same restriction -/
  | append (r : Nat) (v : Int)
  /-- `r' := r[lo:hi]` of ANY register (arguments included): a view, no write -/
  | reslice (r lo hi : Nat)
deriving Repr

structure Machine where
  σ : Store
  regs : List Slice
deriving Repr

/-- `base` = number of arrays that existed before the helper started: registers pointing at arrays
`< base` are (views of) arguments and may only be read and re-sliced. -/
def step (base : Nat) (m : Machine) : Instr → Machine
  | .alloc len cap =>
    let (σ', s) := alloc m.σ len cap
    { σ := σ', regs := m.regs ++ [s] }
  | .write r i v =>
    match m.regs[r]? with
    | some s =>
      if base ≤ s.arr then
        match write m.σ s i v with
        | some σ' => { m with σ := σ' }
        | none => m
      else m          -- not allowed by the discipline: the instruction is refused
    | none => m
  | .append r v =>
    match m.regs[r]? with
    | some s =>
      if base ≤ s.arr then
        let (σ', s') := append m.σ s v
        { σ := σ', regs := m.regs.set r s' }
      else m
    | none => m
  | .reslice r lo hi =>
    match m.regs[r]? with
    | some s =>
      match reslice s lo hi with
      | some s' => { m with regs := m.regs ++ [s'] }
      | none => m
    | none => m

def run (base : Nat) (m : Machine) : List Instr → Machine
  | [] => m
  | i :: is => run base (step base m i) is

/-- `append(arg, v)` by a helper that does NOT obey the discipline (what `Merge` used to do). -/
def undisciplinedAppend (m : Machine) (r : Nat) (v : Int) : Machine :=
  match m.regs[r]? with
  | some s => let (σ', s') := append m.σ s v; { σ := σ', regs := m.regs.set r s' }
  | none => m

/-- an in-place helper: a sequence of writes through ONE designated register (`Reverse`, `Reject`,
`heap.FromSlice`, `heap.Sort` write only `s[i] = …` for `i < len s`) -/
def runInPlace (m : Machine) (r : Nat) : List (Nat × Int) → Machine
  | [] => m
  | (i, v) :: ws =>
    match m.regs[r]? with
    | some s =>
      match write m.σ s i v with
      | some σ' => runInPlace { m with σ := σ' } r ws
      | none => runInPlace m r ws
    | none => m

end GoguVerif.Model.Store
