/-!
# Slice store (C16) — table entry type.  The store model itself follows below in this file.
-/
namespace GoguVerif.Model.Store

/-- One helper as classified by the translator: the parameters it writes through, the parameters its
result may alias, and whether all its writes are the self-assignment idiom `m[k] = v` inside
`for k, v := range m`. -/
structure EffectEntry where
  name : String
  writes : List Nat
  aliases : List Nat
  selfAssignOnly : Bool
deriving DecidableEq, Repr

end GoguVerif.Model.Store
