import GoguVerif.Model.Fine
/-!
# Fine-grained execution of lock-guarded methods made of SEVERAL critical sections (C02)

`Model/Fine.lean` has methods that are ONE critical section.  `Heap.Clear` (a read-locked
`Size() == 0` pre-check that returns early, else a separate write-locked truncation) and
`Cache.Update` (a read-locked `Get`, then a separate write-locked `add`) are not of that shape.

Here a method is a LIST of critical sections under the instance's `sync.RWMutex`:

* zero or more *pre-sections*, each taken under the READ lock: a body of micro-steps that computes
  into the call's local state `λ`, and a decision `early : λ → Option Ret` evaluated when the
  section is left — `some r`: the call returns `r` without taking any further section;
* then exactly one *final section* (lock mode `r`/`w`, micro-steps, as in `Fine.Meth`), after which the
  call returns `result loc`.  (A method that has "no final section" is one whose last pre-section
  always decides `some _`; a lock-free method is one with the final section `(r, [])`.)

Between two sections of one call the lock is NOT held: other threads may run whole operations there.
Threads interleave at micro-step granularity; acquiring follows the RWMutex admission rule.

Events are those of the atomic system of `Model/Lin.lean`: `inv`, `tau` (a pre-section is entered),
`lin`, `ret`.  The linearization point of a call is the acquisition of its final section, or — on
an early-return path — the release of the deciding pre-section (the read lock is still held at that
moment, so the state read is the current abstract state).

`Theorems/C02Two.lean: fine2_refines_atomic` proves that every execution is an execution of the
atomic system of a sequential object `step`, under the conditions `Cond` below.
-/
namespace GoguVerif.Model.Fine2
open GoguVerif.Model.Lin (Obj Ev CState PC upd)
open GoguVerif.Model.Lock (Mode)
open GoguVerif.Model.Fine (runSteps)

/-- a read-mode pre-section: body, and the early-return decision taken when it is left -/
structure RSect (σ lam Ret : Type) where
  steps : List (σ × lam → σ × lam)
  early : lam → Option Ret

/-- a method: pre-sections (read lock), final section (mode, body), initial local state, returned value -/
structure Meth (σ lam Ret : Type) where
  pre : List (RSect σ lam Ret)
  mode : Mode
  steps : List (σ × lam → σ × lam)
  init : lam
  result : lam → Ret

variable {σ lam Op Ret : Type}

/-- the final section run in isolation from shared state `s` and local state `loc` -/
def finalAtomic (m : Meth σ lam Ret) (s : σ) (loc : lam) : σ × Ret :=
  let p := runSteps m.steps (s, loc)
  (p.1, m.result p.2)

/-- the remaining pre-sections, then the final section, run to completion in isolation -/
def runPre (m : Meth σ lam Ret) : List (RSect σ lam Ret) → σ × lam → σ × Ret
  | [], p => finalAtomic m p.1 p.2
  | sec :: rest, p =>
    let q := runSteps sec.steps p
    match sec.early q.2 with
    | some r => (q.1, r)
    | none => runPre m rest q

/-- sequential meaning of a method: all its sections run back to back in isolation -/
def atomic (m : Meth σ lam Ret) (s : σ) : σ × Ret := runPre m m.pre (s, m.init)

/-- the sequential object implemented by a method table -/
def obj (meth : Op → Meth σ lam Ret) (init : σ) : Obj σ Op Ret := ⟨init, fun s op => atomic (meth op) s⟩

/-- a single-section method of `Model/Fine.lean` as a method without pre-sections -/
def ofFine (m : Fine.Meth σ lam Ret) : Meth σ lam Ret := ⟨[], m.mode, m.steps, m.init, m.result⟩

inductive TState (σ lam Op Ret : Type)
  | idle
  /-- invoked and not holding the lock: before the first section, or BETWEEN two sections; `pre` are
  the pre-sections still to be taken -/
  | waiting (c : Nat) (op : Op) (pre : List (RSect σ lam Ret)) (loc : lam)
  /-- inside pre-section `sec` (read lock held), `rest` of its body still to run -/
  | inPre (c : Nat) (op : Op) (rest : List (σ × lam → σ × lam)) (sec : RSect σ lam Ret)
      (pre : List (RSect σ lam Ret)) (loc : lam)
  /-- inside the final section; `r` is a ghost: the value the call will return -/
  | inFinal (c : Nat) (op : Op) (mode : Mode) (rest : List (σ × lam → σ × lam)) (loc : lam) (r : Ret)
  /-- lock released, about to return -/
  | finished (c : Nat) (op : Op) (r : Ret)

structure State (σ lam Op Ret : Type) where
  shared : σ
  /-- ghost: the abstract object state (the shared state with the writer's section completed) -/
  absObj : σ
  th : Nat → TState σ lam Op Ret
  next : Nat

def holds (t : TState σ lam Op Ret) : Option Mode :=
  match t with
  | .inPre _ _ _ _ _ _ => some .r
  | .inFinal _ _ m _ _ _ => some m
  | _ => none

/-- `sync.RWMutex` admission -/
def canEnter (s : State σ lam Op Ret) (i : Nat) (m : Mode) : Prop :=
  match m with
  | .r => ∀ j, j ≠ i → holds (s.th j) ≠ some .w
  | .w => ∀ j, j ≠ i → holds (s.th j) = none

/-- steps; the emitted event (if any) is the one of the atomic system -/
inductive Step (meth : Op → Meth σ lam Ret) :
    State σ lam Op Ret → Option (Ev Op Ret) → State σ lam Op Ret → Prop
  | inv (s) (t : Nat) (op : Op) (h : s.th t = .idle) :
      Step meth s (some (.inv t s.next op))
        { s with th := upd s.th t (.waiting s.next op (meth op).pre (meth op).init), next := s.next + 1 }
  /-- take the read lock for the next pre-section -/
  | acquirePre (s) (t c : Nat) (op : Op) (sec) (pre) (loc : lam)
      (h : s.th t = .waiting c op (sec :: pre) loc) (ok : canEnter s t .r) :
      Step meth s (some (.tau t c)) { s with th := upd s.th t (.inPre c op sec.steps sec pre loc) }
  | microPre (s) (t c : Nat) (op : Op) (f) (rest) (sec) (pre) (loc : lam)
      (h : s.th t = .inPre c op (f :: rest) sec pre loc) :
      Step meth s none
        { s with shared := (f (s.shared, loc)).1, th := upd s.th t (.inPre c op rest sec pre (f (s.shared, loc)).2) }
  /-- leave the pre-section and return early: the linearization point of this call -/
  | releaseEarly (s) (t c : Nat) (op : Op) (sec) (pre) (loc : lam) (r : Ret)
      (h : s.th t = .inPre c op [] sec pre loc) (e : sec.early loc = some r) :
      Step meth s (some (.lin t c op r)) { s with th := upd s.th t (.finished c op r) }
  /-- leave the pre-section and go on: the lock is free until the next acquisition -/
  | releaseCont (s) (t c : Nat) (op : Op) (sec) (pre) (loc : lam)
      (h : s.th t = .inPre c op [] sec pre loc) (e : sec.early loc = none) :
      Step meth s none { s with th := upd s.th t (.waiting c op pre loc) }
  /-- take the lock for the final section: the linearization point of this call -/
  | acquireFinal (s) (t c : Nat) (op : Op) (loc : lam)
      (h : s.th t = .waiting c op [] loc) (ok : canEnter s t (meth op).mode) :
      Step meth s (some (.lin t c op (finalAtomic (meth op) s.absObj loc).2))
        { s with absObj := (finalAtomic (meth op) s.absObj loc).1
                 th := upd s.th t (.inFinal c op (meth op).mode (meth op).steps loc
                                     (finalAtomic (meth op) s.absObj loc).2) }
  | microFinal (s) (t c : Nat) (op : Op) (m : Mode) (f) (rest) (loc : lam) (r : Ret)
      (h : s.th t = .inFinal c op m (f :: rest) loc r) :
      Step meth s none
        { s with shared := (f (s.shared, loc)).1, th := upd s.th t (.inFinal c op m rest (f (s.shared, loc)).2 r) }
  | releaseFinal (s) (t c : Nat) (op : Op) (m : Mode) (loc : lam) (r : Ret)
      (h : s.th t = .inFinal c op m [] loc r) :
      Step meth s none { s with th := upd s.th t (.finished c op ((meth op).result loc)) }
  | ret (s) (t c : Nat) (op : Op) (r : Ret) (h : s.th t = .finished c op r) :
      Step meth s (some (.ret t c op r)) { s with th := upd s.th t .idle }

def initState (init : σ) : State σ lam Op Ret := ⟨init, init, fun _ => .idle, 0⟩

/-- reachability with the history of emitted events, newest first -/
inductive Reach (meth : Op → Meth σ lam Ret) (init : σ) : List (Ev Op Ret) → State σ lam Op Ret → Prop
  | init : Reach meth init [] (initState init)
  | step {h s e s'} : Reach meth init h s → Step meth s (some e) s' → Reach meth init (e :: h) s'
  | silent {h s s'} : Reach meth init h s → Step meth s none s' → Reach meth init h s'

/-- a body that does not write the shared state -/
def RO (steps : List (σ × lam → σ × lam)) : Prop := ∀ f ∈ steps, ∀ p, (f p).1 = p.1

/-- **The condition** under which a table of multi-section methods implements the sequential object
`step` linearizably:
* `preRO` — pre-sections do not write the shared state (they hold only the read lock);
* `finalRO` — a read-mode final section does not write it either;
* `final` — the final section's effect and result do not depend on what the earlier sections left in
  the local state, and are the sequential meaning of the operation at the state it finds;
* `early` — a pre-section decides to return early with `r` only if, at the state it read, the
  sequential meaning of the operation is a no-op with result `r`.
In an instance all four are proved by case analysis on the operation (`C02Two`). -/
structure Cond (meth : Op → Meth σ lam Ret) (step : σ → Op → σ × Ret) : Prop where
  preRO : ∀ op, ∀ sec ∈ (meth op).pre, RO sec.steps
  finalRO : ∀ op, (meth op).mode = .r → RO (meth op).steps
  final : ∀ op s loc, finalAtomic (meth op) s loc = step s op
  early : ∀ op, ∀ sec ∈ (meth op).pre, ∀ s loc r,
    sec.early (runSteps sec.steps (s, loc)).2 = some r → step s op = (s, r)

/-- abstraction to the atomic system -/
def absPc : TState σ lam Op Ret → PC Op Ret
  | .idle => .idle
  | .waiting c op _ _ => .pending c op
  | .inPre c op _ _ _ _ => .pending c op
  | .inFinal c op _ _ _ r => .done c op r
  | .finished c op r => .done c op r

def abs (s : State σ lam Op Ret) : CState σ Op Ret := ⟨s.absObj, fun t => absPc (s.th t), s.next⟩

end GoguVerif.Model.Fine2
