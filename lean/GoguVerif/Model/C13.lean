import GoguVerif.Spec.C13
/-!
# Models of the C13 functions (`slice.go`, `find.go`, `math.go`, `generic.go`, `range.go`)

Each function is the loop it is in the Go source (as of the repairs 1751573 `Nth` and 525e1f4
extremum helpers), on `Int` for Go `int`.  A slice read `s[i]` is `s[i]?` with `none ↦ panic`; integer
division by zero is `panic`; a loop whose termination depends on its arguments (`Range`) runs on fuel
and answers `hang` when the fuel is exhausted.  Only the outcome type `Out` and the map
representation (`GoMap`) are shared with the specification.
-/
namespace GoguVerif.Model.C13
open GoguVerif.Spec.C13 (Out GoMap)

/-! ## slice.go: IndexOf, LastIndexOf, Contains, Some, Every, Sum, SumBy, Mean -/

/-- `for k, v := range s { if v == val { return k } }; return -1` -/
def indexOfLoop (val : Int) : List Int → Nat → Int
  | [], _ => -1
  | v :: r, k => if v = val then (k : Int) else indexOfLoop val r (k + 1)

def IndexOf (s : List Int) (val : Int) : Int := indexOfLoop val s 0

/-- `for i := len(s)-1; i >= 0; i-- { if s[i] == val { return i } }; return -1`
(the argument is `i+1`; `j` of the Go loop is dead) -/
def lastIndexOfLoop (val : Int) (s : List Int) : Nat → Out Int
  | 0 => .ok (-1)
  | i + 1 =>
    match s[i]? with
    | none => .panic
    | some v => if v = val then .ok (i : Int) else lastIndexOfLoop val s i

def LastIndexOf (s : List Int) (val : Int) : Out Int := lastIndexOfLoop val s s.length

/-- `for _, v := range slice { if v == value { return true } }; return false` -/
def Contains : List Int → Int → Bool
  | [], _ => false
  | v :: r, value => if v = value then true else Contains r value

/-- `for _, v := range slice { if fn(v) { return true } }; return false` -/
def Some (fn : Int → Bool) : List Int → Bool
  | [] => false
  | v :: r => if fn v then true else Some fn r

/-- `for _, v := range slice { if !fn(v) { return false } }; return true` -/
def Every (fn : Int → Bool) : List Int → Bool
  | [] => true
  | v :: r => if !fn v then false else Every fn r

/-- `for _, v := range slice { acc += v }` -/
def sumLoop : List Int → Int → Int
  | [], acc => acc
  | v :: r, acc => sumLoop r (acc + v)

def Sum (s : List Int) : Int := sumLoop s 0

/-- `for _, v := range slice { acc += fn(v) }` -/
def sumByLoop (fn : Int → Int) : List Int → Int → Int
  | [], acc => acc
  | v :: r, acc => sumByLoop fn r (acc + fn v)

def SumBy (s : List Int) (fn : Int → Int) : Int := sumByLoop fn s 0

/-- `result / T(len(slice))`: Go integer division truncates; dividing by zero panics. -/
def Mean (s : List Int) : Out Int :=
  let result := sumLoop s 0
  if s.length = 0 then .panic else .ok (result.tdiv (s.length : Int))

/-! ## find.go: FindIndex, FindLastIndex, FindAll -/

/-- `for k, v := range s { if fn(v) { return k } }; return -1` -/
def findIndexLoop (fn : Int → Bool) : List Int → Nat → Int
  | [], _ => -1
  | v :: r, k => if fn v then (k : Int) else findIndexLoop fn r (k + 1)

def FindIndex (s : List Int) (fn : Int → Bool) : Int := findIndexLoop fn s 0

/-- `for i := len(s)-1; i >= 0; i-- { if fn(s[i]) { return i } }; return -1` (argument = `i+1`) -/
def findLastIndexLoop (fn : Int → Bool) (s : List Int) : Nat → Out Int
  | 0 => .ok (-1)
  | i + 1 =>
    match s[i]? with
    | none => .panic
    | some v => if fn v then .ok (i : Int) else findLastIndexLoop fn s i

def FindLastIndex (s : List Int) (fn : Int → Bool) : Out Int := findLastIndexLoop fn s s.length

/-- `for k, v := range s { if fn(v) { m[k] = v } }`; the map is kept as the list of its entries by
increasing key (the keys written are strictly increasing, so `m[k] = v` appends). -/
def findAllLoop (fn : Int → Bool) : List Int → Nat → List (Int × Int) → List (Int × Int)
  | [], _, m => m
  | v :: r, k, m => if fn v then findAllLoop fn r (k + 1) (m ++ [((k : Int), v)]) else findAllLoop fn r (k + 1) m

def FindAll (s : List Int) (fn : Int → Bool) : List (Int × Int) := findAllLoop fn s 0 []

/-! ## find.go / math.go: extrema -/

/-- `var min T; if len(s) > 0 { min = s[0] }` -/
def seed : List Int → Int
  | [] => 0
  | x :: _ => x

/-- `for i := 0; i < len(s); i++ { if s[i] < min { min = s[i] } }` -/
def minLoop : List Int → Int → Int
  | [], m => m
  | x :: r, m => if x < m then minLoop r x else minLoop r m

def maxLoop : List Int → Int → Int
  | [], m => m
  | x :: r, m => if x > m then maxLoop r x else maxLoop r m

def FindMin (s : List Int) : Int := minLoop s (seed s)
def FindMax (s : List Int) : Int := maxLoop s (seed s)

/-- `for … { if fn(s[i]) < fn(min) { min = s[i] } }` -/
def minByLoop (fn : Int → Int) : List Int → Int → Int
  | [], m => m
  | x :: r, m => if fn x < fn m then minByLoop fn r x else minByLoop fn r m

def maxByLoop (fn : Int → Int) : List Int → Int → Int
  | [], m => m
  | x :: r, m => if fn x > fn m then maxByLoop fn r x else maxByLoop fn r m

def FindMinBy (s : List Int) (fn : Int → Int) : Int := minByLoop fn s (seed s)
def FindMaxBy (s : List Int) (fn : Int → Int) : Int := maxByLoop fn s (seed s)

/-- math.go `Min(values...)`: `if len(values) == 0 { return acc }; acc = values[0]; for _, v := range values {…}` -/
def Min (values : List Int) : Int :=
  match values with
  | [] => 0
  | v0 :: _ => minLoop values v0

def Max (values : List Int) : Int :=
  match values with
  | [] => 0
  | v0 :: _ => maxLoop values v0

/-- map.go `FindByKey(m, fn)`: `for k, v := range m { if fn(k) { result[k] = v; break } }` — the
iteration order is that of the association list (any order: the theorems do not depend on it). -/
def FindByKey (fn : Int → Bool) : GoMap → GoMap
  | [] => []
  | (k, v) :: r => if fn k then [(k, v)] else FindByKey fn r

/-- the Go map read `m[key]` with the comma-ok form -/
def mapGet (key : Int) : GoMap → Option Int
  | [] => none
  | (k, v) :: r => if k = key then some v else mapGet key r

/-- `for _, m := range mapSlice { mapped := FindByKey(m, k == key); if _, ok := mapped[key]; ok { if !found || mapped[key] < min { min = mapped[key] }; found = true } }` -/
def minByKeyLoop (key : Int) : List GoMap → Bool → Int → Bool × Int
  | [], found, mn => (found, mn)
  | m :: r, found, mn =>
    match mapGet key (FindByKey (fun k => k == key) m) with
    | some v => if !found || decide (v < mn) then minByKeyLoop key r true v else minByKeyLoop key r true mn
    | none => minByKeyLoop key r found mn

def maxByKeyLoop (key : Int) : List GoMap → Bool → Int → Bool × Int
  | [], found, mx => (found, mx)
  | m :: r, found, mx =>
    match mapGet key (FindByKey (fun k => k == key) m) with
    | some v => if !found || decide (v > mx) then maxByKeyLoop key r true v else maxByKeyLoop key r true mx
    | none => maxByKeyLoop key r found mx

/-- result: `(isErr, value)`: "empty collection" for the empty slice, "key not found" when no map holds the key -/
def FindMinByKey (mapSlice : List GoMap) (key : Int) : Bool × Int :=
  match mapSlice with
  | [] => (true, 0)                                   -- "empty collection"
  | _ :: _ =>
    match minByKeyLoop key mapSlice false 0 with
    | (false, _) => (true, 0)                         -- "key not found" (min is still the zero value)
    | (true, mn) => (false, mn)

def FindMaxByKey (mapSlice : List GoMap) (key : Int) : Bool × Int :=
  match mapSlice with
  | [] => (true, 0)
  | _ :: _ =>
    match maxByKeyLoop key mapSlice false 0 with
    | (false, _) => (true, 0)
    | (true, mx) => (false, mx)

/-! ## math.go: Abs, Clamp, InRange; generic.go: Compare, Equal, Less -/

def Abs (x : Int) : Int := if x < 0 then -x else x

/-- two's-complement wrap of an integer into int8 -/
def wrap8 (n : Int) : Int := (n + 128) % 256 - 128

/-- `Abs[int8]`: the negation wraps -/
def Abs8 (x : Int) : Int := if x < 0 then wrap8 (-x) else x

/-- no arithmetic: the same function serves `int` and `int8` -/
def Clamp (num min max : Int) : Int :=
  if num ≤ min then min else if num ≥ max then max else num

def InRange (num lo up : Int) : Bool :=
  if num ≥ lo ∧ num ≤ up then true else false

def Compare (a b : Int) (comp : Int → Int → Bool) : Int :=
  if comp a b then 1 else if comp b a then -1 else 0

def Equal (a b : Int) : Bool := decide (a = b)
def Less (a b : Int) : Bool := decide (a < b)

/-! ## find.go: Nth -/

/-- a slice read with Go's bounds check -/
def index (s : List Int) (i : Int) : Out Int :=
  if i < 0 then .panic
  else match s[i.toNat]? with
    | some v => .ok v
    | none => .panic

/-- `Bound[int]{Min, Max}.Enclose(nth)` -/
def enclose (mn mx nth : Int) : Bool :=
  if Abs nth ≥ mn ∧ Abs nth ≤ mx then true else false

def Nth (slice : List Int) (nth : Int) : Out Int :=
  let bMin : Int := 0
  let bMax : Int := slice.length
  if (nth ≥ 0 ∧ nth > bMax - 1) ∨ (nth < 0 ∧ bMax - Abs nth < 0) then .err
  else if enclose bMin bMax nth && decide (nth ≥ 0) then index slice nth
  else index slice ((slice.length : Int) - Abs nth)

/-! ## range.go: Range, RangeRight -/

/-- `for i := start; i < end; i += step { result = append(result, i) }`
(`N[T](NumToString(i))` is the identity on integers) -/
def rangeUp : Nat → Int → Int → Int → List Int → Out (List Int)
  | 0, _, _, _, _ => .hang
  | fuel + 1, i, step, end_, acc =>
    if i < end_ then rangeUp fuel (i + step) step end_ (acc ++ [i]) else .ok acc

/-- `for i := start; end < i; i -= Abs(step) { result = append(result, i) }` -/
def rangeDown : Nat → Int → Int → Int → List Int → Out (List Int)
  | 0, _, _, _, _ => .hang
  | fuel + 1, i, step, end_, acc =>
    if end_ < i then rangeDown fuel (i - Abs step) step end_ (acc ++ [i]) else .ok acc

/-- fuel that suffices whenever every iteration moves `i` by at least one toward `end` -/
def rangeFuel (start end_ : Int) : Nat := (end_ - start).natAbs + 1

def rangeLoops (start step end_ : Int) : Out (List Int) :=
  if end_ > 0 then rangeUp (rangeFuel start end_) start step end_ []
  else rangeDown (rangeFuel start end_) start step end_ []

def Range (args : List Int) : Out (List Int) :=
  if args.length > 3 then .err
  else match args with
    | [] => rangeLoops 0 0 0
    | [e] => rangeLoops 0 1 e
    | [s, e] => rangeLoops s 1 e
    | [s, st, e] =>
      if s > e ∧ e > 0 then .err
      else if st = 0 then .err
      else if st < 0 ∧ e > s then .err
      else rangeLoops s st e
    | _ => .err

/-- slice.go `Reverse` (in-place swap loop, C12's business) is taken as list reversal here -/
def RangeRight (params : List Int) : Out (List Int) :=
  match Range params with
  | .ok ran => .ok ran.reverse
  | o => o

end GoguVerif.Model.C13
