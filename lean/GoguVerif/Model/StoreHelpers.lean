import GoguVerif.Model.Store
/-!
# Store-level models of concrete helpers (C16)

`Model/Store.lean` gives Go's slice store (backing arrays, slice headers, `make`, `s[i] = v`,
`s[lo:hi]`, `append`).  Here the helpers of /repo's root package are written over that store, *one Go
statement after the other*: `make` is `alloc`, `res = append(res, v)` is `Store.append`,
`append(a, b...)` is `appendMany`, `s[i], s[j] = s[j], s[i]` is two reads followed by two `write`s,
`s[lo:hi]` is `reslice`.  `for _, v := range slice` evaluates the header once and then reads
`slice[i]` FROM THE CURRENT STORE in every iteration (so that a helper that clobbered its own argument
while iterating would be seen to do so); loops are structural recursions on the number of iterations
left.  A Go run-time panic is `none`.

Conventions / what is abstracted:
* element type `T` is `Int`; callbacks are Lean functions (`Int → Bool`, `Int → Int`) — they cannot
  touch the store;
* a Go `map[T]bool` that is local to the helper and only tested for membership (`keys`) is the list of
  its keys (as in `Model/C11.lean`) — it is not slice storage;
* a `[]T{}` literal is `make([]T, 0, 0)`;
* slices of slices (`params ...[]T`, the result of `Chunk`) are Lean lists of headers: their own
  (outer) backing array has a different element type and is not part of the `Int` store;
* the growth policy of `append` is the one of `Store.append` (`2·cap + 1`), for the variadic form
  `max (2·cap + 1) (len + k)`: any policy that allocates a fresh array gives the same theorems.

Core Lean only.
-/
namespace GoguVerif.Model.StoreHelpers
open GoguVerif.Model.Store

/-! ## the variadic `append` -/

/-- `for _, v := range vs { s = append(s, v) }` -/
def appendEach (σ : Store) (s : Slice) : List Int → Store × Slice
  | [] => (σ, s)
  | v :: vs =>
    let r := append σ s v
    appendEach r.1 r.2 vs

/-- `append(s, vs...)` (the values `vs` have been read before anything is written, as Go's `memmove`
semantics for overlapping operands demands): if `len(s) + len(vs) ≤ cap(s)` the values are written IN
PLACE behind `s` (every single `append` of `appendEach` is then the in-place case); otherwise ONE fresh
array receives `s`'s elements and `vs`, and the old array is not written at all. -/
def appendMany (σ : Store) (s : Slice) (vs : List Int) : Store × Slice :=
  if s.len + vs.length ≤ s.cap then appendEach σ s vs
  else
    let newCap := max (2 * s.cap + 1) (s.len + vs.length)
    (σ ++ [elems σ s ++ vs ++ List.replicate (newCap - (s.len + vs.length)) 0],
     { arr := σ.length, off := 0, len := s.len + vs.length, cap := newCap })

/-- `s[lo:hi]` with Go `int` operands: a negative operand is a run-time panic -/
def resliceI (s : Slice) (lo hi : Int) : Option Slice :=
  if 0 ≤ lo ∧ 0 ≤ hi then reslice s lo.toNat hi.toNat else none

/-- `math.go: Abs` -/
def abs (x : Int) : Int := if x < 0 then -x else x

/-! ## Filter (filter.go:4-14) -/

/-- `for _, v := range slice { if fn(v) { res = append(res, v) } }` — `n` iterations left, index `i` -/
def filterLoop (fn : Int → Bool) (slice : Slice) : Nat → Nat → Store → Slice → Option (Store × Slice)
  | 0, _, σ, res => some (σ, res)
  | n + 1, i, σ, res =>
    match read σ slice i with
    | none => none
    | some v =>
      if fn v then
        let r := append σ res v                                   -- res = append(res, v)
        filterLoop fn slice n (i + 1) r.1 r.2
      else filterLoop fn slice n (i + 1) σ res

def filterStore (σ : Store) (slice : Slice) (fn : Int → Bool) : Option (Store × Slice) :=
  let r := alloc σ 0 0                                            -- res := make([]T, 0)
  filterLoop fn slice slice.len 0 r.1 r.2

/-! ## DropWhile (slice.go:438-448) -/

/-- `for _, v := range slice { if !fn(v) { result = append(result, v) } }` -/
def dropWhileLoop (fn : Int → Bool) (slice : Slice) : Nat → Nat → Store → Slice → Option (Store × Slice)
  | 0, _, σ, result => some (σ, result)
  | n + 1, i, σ, result =>
    match read σ slice i with
    | none => none
    | some v =>
      if !fn v then
        let r := append σ result v
        dropWhileLoop fn slice n (i + 1) r.1 r.2
      else dropWhileLoop fn slice n (i + 1) σ result

def dropWhileStore (σ : Store) (slice : Slice) (fn : Int → Bool) : Option (Store × Slice) :=
  let r := alloc σ 0 slice.len                                    -- result := make([]T, 0, len(slice))
  dropWhileLoop fn slice slice.len 0 r.1 r.2

/-! ## Unique (slice.go:105-117) -/

/-- `for _, v := range slice { if _, ok := keys[v]; !ok { keys[v] = true; result = append(result, v) } }` -/
def uniqueLoop (slice : Slice) : Nat → Nat → List Int → Store → Slice → Option (Store × Slice)
  | 0, _, _, σ, result => some (σ, result)
  | n + 1, i, keys, σ, result =>
    match read σ slice i with
    | none => none
    | some v =>
      if v ∈ keys then uniqueLoop slice n (i + 1) keys σ result
      else
        let r := append σ result v
        uniqueLoop slice n (i + 1) (v :: keys) r.1 r.2

def uniqueStore (σ : Store) (slice : Slice) : Option (Store × Slice) :=
  let r := alloc σ 0 0                                            -- result := []T{}
  uniqueLoop slice slice.len 0 [] r.1 r.2

/-! ## Without (slice.go:342-359) -/

/-- `for _, val := range values { if v == val { continue loop } }`: `some true` = `continue loop` taken -/
def skipLoop (σ : Store) (values : Slice) (v : Int) : Nat → Nat → Option Bool
  | 0, _ => some false
  | n + 1, j =>
    match read σ values j with
    | none => none
    | some val => if v = val then some true else skipLoop σ values v n (j + 1)

/-- the outer loop of `Without` -/
def withoutLoop (slice values : Slice) : Nat → Nat → List Int → Store → Slice → Option (Store × Slice)
  | 0, _, _, σ, uni => some (σ, uni)
  | n + 1, i, keys, σ, uni =>
    match read σ slice i with
    | none => none
    | some v =>
      match skipLoop σ values v values.len 0 with
      | none => none
      | some true => withoutLoop slice values n (i + 1) keys σ uni           -- continue loop
      | some false =>
        if v ∈ keys then withoutLoop slice values n (i + 1) keys σ uni
        else
          let r := append σ uni v
          withoutLoop slice values n (i + 1) (v :: keys) r.1 r.2

def withoutStore (σ : Store) (slice values : Slice) : Option (Store × Slice) :=
  let r := alloc σ 0 slice.len                                    -- uni := make([]T1, 0, len(slice))
  withoutLoop slice values slice.len 0 [] r.1 r.2

/-! ## Map (slice.go:59-66) -/

/-- `for idx, v := range slice { result[idx] = fn(v) }` -/
def mapLoop (fn : Int → Int) (slice result : Slice) : Nat → Nat → Store → Option Store
  | 0, _, σ => some σ
  | n + 1, idx, σ =>
    match read σ slice idx with
    | none => none
    | some v =>
      match write σ result idx (fn v) with                         -- result[idx] = fn(v)
      | none => none
      | some σ' => mapLoop fn slice result n (idx + 1) σ'

def mapStore (σ : Store) (slice : Slice) (fn : Int → Int) : Option (Store × Slice) :=
  let r := alloc σ slice.len slice.len                            -- result := make([]T2, len(slice))
  match mapLoop fn slice r.2 slice.len 0 r.1 with
  | none => none
  | some σ' => some (σ', r.2)

/-! ## Merge (slice.go:236-245, after the repair 8e969c3) and its predecessor -/

/-- `for i := 0; i < len(params); i++ { merged = append(merged, params[i]...) }` -/
def mergeLoop : List Slice → Store → Slice → Store × Slice
  | [], σ, merged => (σ, merged)
  | p :: rest, σ, merged =>
    let r := appendMany σ merged (elems σ p)
    mergeLoop rest r.1 r.2

def mergeStore (σ : Store) (s : Slice) (params : List Slice) : Store × Slice :=
  let r0 := alloc σ 0 s.len                                       -- merged := make([]T, 0, len(s))
  let r1 := appendMany r0.1 r0.2 (elems r0.1 s)                   -- merged = append(merged, s...)
  mergeLoop params r1.1 r1.2

/-- `Merge` as it was before the repair:
`merged := make([]T, 0, len(s)); for … { merged = append(merged, params[i]...) }; merged = append(s, merged...)` -/
def mergeOldStore (σ : Store) (s : Slice) (params : List Slice) : Store × Slice :=
  let r0 := alloc σ 0 s.len
  let r1 := mergeLoop params r0.1 r0.2
  appendMany r1.1 s (elems r1.1 r1.2)                             -- merged = append(s, merged...)

/-! ## Drop (slice.go:425-434): returns a VIEW -/

def dropStore (σ : Store) (slice : Slice) (n : Int) : Option (Store × Slice) :=
  if n > -(slice.len : Int) ∧ n < slice.len then
    if n > 0 then
      match resliceI slice n slice.len with                        -- return slice[n:]
      | some v => some (σ, v)
      | none => none
    else
      match resliceI slice 0 (slice.len - abs n) with              -- return slice[:len(slice)-Abs(n)]
      | some v => some (σ, v)
      | none => none
  else some (alloc σ 0 0)                                          -- return []T{}

/-! ## Chunk (slice.go:405-421): returns VIEWS -/

/-- `for i := 0; i < len(slice); i++ { if i%size == 0 { … } }` — the outer `result` (a `[][]T` made by the
helper) is the list of the headers appended to it -/
def chunkLoop (slice : Slice) (size : Nat) : Nat → Nat → List Slice → Option (List Slice)
  | 0, _, result => some result
  | n + 1, i, result =>
    if i % size = 0 then
      if i + size < slice.len then
        match reslice slice i (i + size) with                      -- slice[i:i+size]
        | some c => chunkLoop slice size n (i + 1) (result ++ [c])
        | none => none
      else
        match reslice slice i slice.len with                       -- slice[i:]
        | some c => chunkLoop slice size n (i + 1) (result ++ [c])
        | none => none
    else chunkLoop slice size n (i + 1) result

/-- no statement of `Chunk` writes `[]T` storage: the store is returned as it came -/
def chunkStore (σ : Store) (slice : Slice) (size : Int) : Option (Store × List Slice) :=
  if size ≤ 0 then none                                            -- panic("Chunk size should be greater than zero.")
  else
    match chunkLoop slice size.toNat slice.len 0 [] with
    | some r => some (σ, r)
    | none => none

/-! ## Reverse (slice.go:96-102): IN PLACE -/

/-- `sl[i], sl[j] = sl[j], sl[i]`: both operands are read, then both cells are written -/
def swapStore (σ : Store) (sl : Slice) (i j : Nat) : Option Store :=
  match read σ sl i, read σ sl j with
  | some a, some b =>
    match write σ sl i b with
    | some σ1 => write σ1 sl j a
    | none => none
  | _, _ => none

/-- `for i, j := 0, len(sl)-1; i < j; i, j = i+1, j-1 { swap }`; the second counter is kept as `j + 1`
(as in `Model.C12.reverseLoop`) -/
def reverseLoop (sl : Slice) (i j1 : Nat) (σ : Store) : Option Store :=
  if i + 1 < j1 then
    match swapStore σ sl i (j1 - 1) with
    | none => none
    | some σ' => reverseLoop sl (i + 1) (j1 - 1) σ'
  else some σ
termination_by j1 - i

/-- returns its argument: `return sl` -/
def reverseStore (σ : Store) (sl : Slice) : Option (Store × Slice) :=
  match reverseLoop sl 0 sl.len σ with
  | some σ' => some (σ', sl)
  | none => none

/-! ## Reject (filter.go:18-29): IN PLACE, through `append(slice[:i], slice[i+1:]...)` -/

/-- `for i := 0; i < len(slice); i++ { if fn(slice[i]) { slice = append(slice[:i], slice[i+1:]...); i-- } }`
(`i--` followed by `i++` leaves `i` unchanged).  The first argument is fuel: every iteration disposes of
one element of the original slice, `len(slice)` iterations suffice (proved: the loop ends by its own
test `i < len(slice)`, never by running out of fuel). -/
def rejectLoop (fn : Int → Bool) : Nat → Nat → Store → Slice → Option (Store × Slice)
  | 0, _, σ, slice => some (σ, slice)
  | n + 1, i, σ, slice =>
    if i < slice.len then
      match read σ slice i with
      | none => none
      | some v =>
        if fn v then
          match reslice slice 0 i, reslice slice (i + 1) slice.len with
          | some hd, some tl =>
            let r := appendMany σ hd (elems σ tl)                   -- slice = append(slice[:i], slice[i+1:]...)
            rejectLoop fn n i r.1 r.2
          | _, _ => none
        else rejectLoop fn n (i + 1) σ slice
    else some (σ, slice)

def rejectStore (σ : Store) (slice : Slice) (fn : Int → Bool) : Option (Store × Slice) :=
  rejectLoop fn slice.len 0 σ slice

/-! ## Difference (slice.go:363-380): textually the loop of `Without`, on `unique := []T{}` -/

def differenceStore (σ : Store) (s1 s2 : Slice) : Option (Store × Slice) :=
  let r := alloc σ 0 0                                            -- unique := []T{}
  withoutLoop s1 s2 s1.len 0 [] r.1 r.2

/-! ## UniqueBy (slice.go:121-133) -/

/-- `for _, v := range slice { if _, ok := keys[fn(v)]; !ok { keys[fn(v)] = true; result = append(result, v) } }` -/
def uniqueByLoop (fn : Int → Int) (slice : Slice) : Nat → Nat → List Int → Store → Slice → Option (Store × Slice)
  | 0, _, _, σ, result => some (σ, result)
  | n + 1, i, keys, σ, result =>
    match read σ slice i with
    | none => none
    | some v =>
      if fn v ∈ keys then uniqueByLoop fn slice n (i + 1) keys σ result
      else
        let r := append σ result v
        uniqueByLoop fn slice n (i + 1) (fn v :: keys) r.1 r.2

def uniqueByStore (σ : Store) (slice : Slice) (fn : Int → Int) : Option (Store × Slice) :=
  let r := alloc σ 0 0                                            -- result := []T{}
  uniqueByLoop fn slice slice.len 0 [] r.1 r.2

/-! ## DropRightWhile (slice.go:452-462) -/

/-- `for i := len(slice) - 1; i >= 0; i-- { if !fn(slice[i]) { result = append(result, slice[i]) } }` — the
first argument is `i + 1`; `slice[i]` is read twice, as in the source -/
def dropRightWhileLoop (fn : Int → Bool) (slice : Slice) : Nat → Store → Slice → Option (Store × Slice)
  | 0, σ, result => some (σ, result)
  | i + 1, σ, result =>
    match read σ slice i with
    | none => none
    | some v =>
      if !fn v then
        match read σ slice i with
        | none => none
        | some w =>
          let r := append σ result w
          dropRightWhileLoop fn slice i r.1 r.2
      else dropRightWhileLoop fn slice i σ result

def dropRightWhileStore (σ : Store) (slice : Slice) (fn : Int → Bool) : Option (Store × Slice) :=
  let r := alloc σ 0 slice.len                                    -- result := make([]T, 0, len(slice))
  dropRightWhileLoop fn slice slice.len r.1 r.2

/-! ## ToSlice (slice.go:544-549) -/

/-- `slice := make([]T, 0, len(args)); slice = append(slice, args...)` (a caller may spread an existing
slice: `ToSlice(xs...)` passes `xs` itself as `args`) -/
def toSliceStore (σ : Store) (args : Slice) : Store × Slice :=
  let r := alloc σ 0 args.len
  appendMany r.1 r.2 (elems r.1 args)

/-! ## Partition (slice.go:157-169): two results built side by side -/

/-- `for _, v := range slice { if fn(v) { result[0] = append(result[0], v) } else { result[1] = append(result[1], v) } }` -/
def partitionLoop (fn : Int → Bool) (slice : Slice) : Nat → Nat → Store → Slice → Slice → Option (Store × Slice × Slice)
  | 0, _, σ, r0, r1 => some (σ, r0, r1)
  | n + 1, i, σ, r0, r1 =>
    match read σ slice i with
    | none => none
    | some v =>
      if fn v then
        let r := append σ r0 v
        partitionLoop fn slice n (i + 1) r.1 r.2 r1
      else
        let r := append σ r1 v
        partitionLoop fn slice n (i + 1) r.1 r0 r.2

/-- `var result = [2][]T{}`: two nil slices — modelled as two empty slices of capacity 0, each on a
zero-length array of its own (the first `append` to either allocates, as for `nil`) -/
def partitionStore (σ : Store) (slice : Slice) (fn : Int → Bool) : Option (Store × Slice × Slice) :=
  let a0 := alloc σ 0 0
  let a1 := alloc a0.1 0 0
  partitionLoop fn slice slice.len 0 a1.1 a0.2 a1.2

/-! ## Shuffle (shuffle.go:8-18): a copy, then swaps INSIDE the copy -/

/-- `s[i] = v₀; s[i+1] = v₁; …` -/
def writeAll (σ : Store) (s : Slice) : Nat → List Int → Option Store
  | _, [] => some σ
  | i, v :: vs =>
    match write σ s i v with
    | none => none
    | some σ' => writeAll σ' s (i + 1) vs

/-- `copy(dst, src)`: `min(len(dst), len(src))` elements, read before anything is written -/
def copyStore (σ : Store) (dst src : Slice) : Option Store :=
  writeAll σ dst 0 ((elems σ src).take dst.len)

/-- `for i := len(src) - 1; i >= 0; i-- { j := rand.Int() % (i + 1); swap(&dst[i], &dst[j]) }`; `rnd c` is
what the `c`-th call of `rand.Int()` returns; the first argument is `i + 1`.  `swap(a, b)` is
`tmp := *a; *a = *b; *b = tmp` — both cells are read before the first is written: `swapStore`. -/
def shuffleLoop (rnd : Nat → Nat) (dst : Slice) : Nat → Nat → Store → Option Store
  | 0, _, σ => some σ
  | i + 1, c, σ =>
    match swapStore σ dst i (rnd c % (i + 1)) with
    | none => none
    | some σ' => shuffleLoop rnd dst i (c + 1) σ'

def shuffleStore (σ : Store) (src : Slice) (rnd : Nat → Nat) : Option (Store × Slice) :=
  let r := alloc σ src.len src.len                                -- dst := make([]T, len(src))
  match copyStore r.1 r.2 src with                                 -- copy(dst, src)
  | none => none
  | some σ1 =>
    match shuffleLoop rnd r.2 src.len 0 σ1 with
    | none => none
    | some σ2 => some (σ2, r.2)

/-! ## Intersection (slice.go:286-307): the builder READS its own result (`Contains(result, item)`) -/

/-- `Contains(slice, value)`: `for _, v := range slice { if v == value { return true } }; return false` -/
def containsLoop (σ : Store) (slice : Slice) (value : Int) : Nat → Nat → Option Bool
  | 0, _ => some false
  | n + 1, i =>
    match read σ slice i with
    | none => none
    | some v => if v = value then some true else containsLoop σ slice value n (i + 1)

def containsStore (σ : Store) (slice : Slice) (value : Int) : Option Bool :=
  containsLoop σ slice value slice.len 0

/-- `for j = 1; j < len(params); j++ { if !Contains(params[j], item) { break } }`: the final `j`
(the list is `params[j:]`) -/
def interScan (σ : Store) (item : Int) : List Slice → Nat → Option Nat
  | [], j => some j
  | p :: ps, j =>
    match containsStore σ p item with
    | none => none
    | some c => if !c then some j else interScan σ item ps (j + 1)

/-- the outer loop over `params[0]` (`np` = `len(params)`, `others` = `params[1:]`) -/
def interLoop (np : Nat) (p0 : Slice) (others : List Slice) : Nat → Nat → Store → Slice → Option (Store × Slice)
  | 0, _, σ, result => some (σ, result)
  | n + 1, i, σ, result =>
    match read σ p0 i with                                         -- item := params[0][i]
    | none => none
    | some item =>
      match containsStore σ result item with                       -- if Contains(result, item) { continue }
      | none => none
      | some true => interLoop np p0 others n (i + 1) σ result
      | some false =>
        match interScan σ item others 1 with
        | none => none
        | some j =>
          if j = np then
            let r := append σ result item                          -- result = append(result, item)
            interLoop np p0 others n (i + 1) r.1 r.2
          else interLoop np p0 others n (i + 1) σ result

def intersectionStore (σ : Store) (params : List Slice) : Option (Store × Slice) :=
  match params with
  | [] => none                                                     -- params[0]: index out of range
  | p0 :: others =>
    let r := alloc σ 0 0                                           -- result := []T{}
    interLoop params.length p0 others p0.len 0 r.1 r.2

/-! ## hypotheses of the theorems -/

/-- a well-formed header — what every Go slice value satisfies: `len ≤ cap`, and the window
`[off, off+cap)` lies inside an array that exists.  (`alloc`, `reslice`, `append` preserve it.) -/
def WF (σ : Store) (s : Slice) : Prop :=
  s.len ≤ s.cap ∧ ∃ a, σ[s.arr]? = some a ∧ s.off + s.cap ≤ a.length

/-- every array that existed in `σ` is, cell for cell (spare capacity included), the same in `σ'` -/
def Frame (σ σ' : Store) : Prop := ∀ a, a < σ.length → σ'[a]? = σ[a]?

/-- cell `j` of array `a` -/
def cell (σ : Store) (a j : Nat) : Option Int := (σ[a]?).bind (·[j]?)

/-- what an in-place helper applied to `s` may do: the store keeps its shape (same arrays, same array
lengths), every other array is unchanged, and in `s`'s array only cells of the window `[off, off+len)` may
differ — the cells in front of it and the spare capacity behind it are unchanged -/
def InPlace (σ σ' : Store) (s : Slice) : Prop :=
  σ'.length = σ.length ∧ (∀ a, a ≠ s.arr → σ'[a]? = σ[a]?) ∧
  (∀ j, (j < s.off ∨ s.off + s.len ≤ j) → cell σ' s.arr j = cell σ s.arr j) ∧
  (σ'[s.arr]?).map List.length = (σ[s.arr]?).map List.length

end GoguVerif.Model.StoreHelpers
