import GoguVerif.Model.StoreHelpers
/-!
# Store-level models of further helpers (C16, second batch)

`Model/StoreHelpers.lean` writes 17 helpers of /repo's root package over the slice store
(`Model/Store.lean`).  Here five more are written in the same way, *one Go statement after the other*,
with the same conventions (element type `Int`; callbacks are Lean functions; a `range` loop evaluates the
header once and reads `slice[i]` FROM THE CURRENT STORE in every iteration; a Go run-time panic, the
deliberate `panic(…)` of `Zip`/`Unzip` included, is `none`; loops are structural recursions on the number
of iterations left):

* `DifferenceBy` (slice.go:384-401) — the loop of `Difference` with `fn(v) == fn(val)` as the test;
* `Duplicate` (slice.go:182-202) — two loops, the first only reads, the second appends;
* `IntersectionBy` (slice.go:310-339) — the loop of `Intersection` with the closure `has` in the place
  of `Contains(params[j], item)`;
* `Zip`, `Unzip` (slice.go:486-541) — `len(slices)` rows are made, then filled cell by cell.

What is abstracted, in addition to the conventions of `Model/StoreHelpers.lean`:
* a Go `map[T]int` that is local to the helper and ITERATED (`keyCount` of `Duplicate`) is an association
  list in insertion order (as in `Model/C11.lean`) — it is not slice storage.  Go's iteration order over a
  map is arbitrary: `duplicateStoreIn` takes the order as a parameter (a function that rearranges the
  association list before the second loop ranges over it), `duplicateStore` is the instance "insertion
  order".  The frame / discipline theorems hold for EVERY order, the value refinement is stated for every
  order too (`Model.C11.dupCollect` of the rearranged list);
* the outer `[][]T` of `Zip`/`Unzip` (`result`, made by the helper, and the variadic `slices`) is a Lean
  list of headers, as for `Chunk`/`Merge`: its own backing array has another element type and is not part
  of the `Int` store.  `make([][]T, n)` is a list of `n` nil headers (`nilSlice`: length 0, capacity 0 — an
  indexed write through it panics); `result[idx] = make([]T, len(sl))` is `List.set`; `result[i][x] = v`
  writes cell `x` of the row stored at position `i`, which the helper allocated itself.

Core Lean only.
-/
namespace GoguVerif.Model.StoreHelpers2
open GoguVerif.Model.Store GoguVerif.Model.StoreHelpers

/-! ## DifferenceBy (slice.go:384-401) -/

/-- `for _, val := range s2 { if fn(v) == fn(val) { continue loop } }`: `some true` = `continue loop` taken -/
def skipByLoop (fn : Int → Int) (σ : Store) (s2 : Slice) (v : Int) : Nat → Nat → Option Bool
  | 0, _ => some false
  | n + 1, j =>
    match read σ s2 j with
    | none => none
    | some val => if fn v = fn val then some true else skipByLoop fn σ s2 v n (j + 1)

/-- the outer loop `for _, v := range s1 { …; if _, ok := keys[v]; !ok { keys[v] = true; unique = append(unique, v) } }` -/
def differenceByLoop (fn : Int → Int) (s1 s2 : Slice) :
    Nat → Nat → List Int → Store → Slice → Option (Store × Slice)
  | 0, _, _, σ, unique => some (σ, unique)
  | n + 1, i, keys, σ, unique =>
    match read σ s1 i with
    | none => none
    | some v =>
      match skipByLoop fn σ s2 v s2.len 0 with
      | none => none
      | some true => differenceByLoop fn s1 s2 n (i + 1) keys σ unique        -- continue loop
      | some false =>
        if v ∈ keys then differenceByLoop fn s1 s2 n (i + 1) keys σ unique
        else
          let r := append σ unique v                                         -- unique = append(unique, v)
          differenceByLoop fn s1 s2 n (i + 1) (v :: keys) r.1 r.2

def differenceByStore (σ : Store) (s1 s2 : Slice) (fn : Int → Int) : Option (Store × Slice) :=
  let r := alloc σ 0 0                                                       -- unique := []T{}
  differenceByLoop fn s1 s2 s1.len 0 [] r.1 r.2

/-! ## Duplicate (slice.go:182-202) -/

/-- `_, ok := keyCount[v]` -/
def hasKey (k : Int) : List (Int × Nat) → Bool
  | [] => false
  | (k', _) :: rest => if k' = k then true else hasKey k rest

/-- `keyCount[v]++` on a present key -/
def incrKey (k : Int) : List (Int × Nat) → List (Int × Nat)
  | [] => []
  | (k', c) :: rest => if k' = k then (k', c + 1) :: rest else (k', c) :: incrKey k rest

/-- `for _, v := range slice { if _, ok := keyCount[v]; !ok { keyCount[v] = 1 } else { keyCount[v]++ } }` — no
statement of this loop writes slice storage: the store is only read -/
def dupCountLoop (σ : Store) (slice : Slice) : Nat → Nat → List (Int × Nat) → Option (List (Int × Nat))
  | 0, _, keyCount => some keyCount
  | n + 1, i, keyCount =>
    match read σ slice i with
    | none => none
    | some v =>
      if hasKey v keyCount then dupCountLoop σ slice n (i + 1) (incrKey v keyCount)   -- keyCount[v]++
      else dupCountLoop σ slice n (i + 1) (keyCount ++ [(v, 1)])                      -- keyCount[v] = 1

/-- `for k, v := range keyCount { if v > 1 { result = append(result, k) } }`, over the entries in the order
given -/
def dupCollectLoop : List (Int × Nat) → Store → Slice → Store × Slice
  | [], σ, result => (σ, result)
  | (k, v) :: rest, σ, result =>
    if v > 1 then
      let r := append σ result k
      dupCollectLoop rest r.1 r.2
    else dupCollectLoop rest σ result

/-- `Duplicate` with the iteration order of the second loop as a parameter: `order keyCount` is the sequence
in which `range keyCount` yields the entries -/
def duplicateStoreIn (order : List (Int × Nat) → List (Int × Nat)) (σ : Store) (slice : Slice) :
    Option (Store × Slice) :=
  let r := alloc σ 0 slice.len                                    -- result := make([]T, 0, len(slice))
  match dupCountLoop r.1 slice slice.len 0 [] with                 -- keyCount := make(map[T]int)
  | none => none
  | some keyCount => some (dupCollectLoop (order keyCount) r.1 r.2)

/-- `Duplicate` when the map is iterated in insertion order (one admissible order; it is the order of
`Model.C11.duplicate`) -/
def duplicateStore (σ : Store) (slice : Slice) : Option (Store × Slice) := duplicateStoreIn id σ slice

/-! ## IntersectionBy (slice.go:310-339) -/

/-- the closure `has`: `for _, v := range params[j] { if fn(v) == fn(item) { return true } }; return false` -/
def hasLoop (fn : Int → Int) (σ : Store) (p : Slice) (item : Int) : Nat → Nat → Option Bool
  | 0, _ => some false
  | n + 1, k =>
    match read σ p k with
    | none => none
    | some v => if fn v = fn item then some true else hasLoop fn σ p item n (k + 1)

def hasStore (fn : Int → Int) (σ : Store) (p : Slice) (item : Int) : Option Bool :=
  hasLoop fn σ p item p.len 0

/-- `for j = 1; j < len(params); j++ { has := …; if !has() { break } }`: the final `j` (the list is
`params[j:]`) -/
def interByScan (fn : Int → Int) (σ : Store) (item : Int) : List Slice → Nat → Option Nat
  | [], j => some j
  | p :: ps, j =>
    match hasStore fn σ p item with
    | none => none
    | some c => if !c then some j else interByScan fn σ item ps (j + 1)

/-- the outer loop over `params[0]` (`np` = `len(params)`, `others` = `params[1:]`); `Contains(result, item)`
reads the result under construction from the current store -/
def interByLoop (fn : Int → Int) (np : Nat) (p0 : Slice) (others : List Slice) :
    Nat → Nat → Store → Slice → Option (Store × Slice)
  | 0, _, σ, result => some (σ, result)
  | n + 1, i, σ, result =>
    match read σ p0 i with                                         -- item := params[0][i]
    | none => none
    | some item =>
      match containsStore σ result item with                       -- if Contains(result, item) { continue }
      | none => none
      | some true => interByLoop fn np p0 others n (i + 1) σ result
      | some false =>
        match interByScan fn σ item others 1 with
        | none => none
        | some j =>
          if j = np then
            let r := append σ result item                          -- result = append(result, item)
            interByLoop fn np p0 others n (i + 1) r.1 r.2
          else interByLoop fn np p0 others n (i + 1) σ result

def intersectionByStore (σ : Store) (fn : Int → Int) (params : List Slice) : Option (Store × Slice) :=
  match params with
  | [] => none                                                     -- params[0]: index out of range
  | p0 :: others =>
    let r := alloc σ 0 0                                           -- result := []T{}
    interByLoop fn params.length p0 others p0.len 0 r.1 r.2

/-! ## Zip / Unzip (slice.go:486-541): slices of slices -/

/-- a nil `[]T` (an element of a fresh `make([][]T, n)`): length 0, capacity 0 -/
def nilSlice : Slice := { arr := 0, off := 0, len := 0, cap := 0 }

/-- `var sliceLen int; if len(slices) > 0 { sliceLen = len(slices[0]) }` -/
def firstLen : List Slice → Nat
  | [] => 0
  | s0 :: _ => s0.len

/-- `m[a][b]` of a `[][]T` (`none`: an index is out of range) -/
def read2 (σ : Store) (m : List Slice) (a b : Nat) : Option Int :=
  match m[a]? with
  | none => none
  | some row => read σ row b

/-- `r[a][b] = v` -/
def write2 (σ : Store) (r : List Slice) (a b : Nat) (v : Int) : Option Store :=
  match r[a]? with
  | none => none
  | some row => write σ row b v

/-- `for idx, sl := range slices { if sliceLen != len(sl) { panic(…) }; result[idx] = make([]T, len(sl)) }` -/
def zipRowsLoop (sliceLen : Nat) : List Slice → Nat → Store → List Slice → Option (Store × List Slice)
  | [], _, σ, result => some (σ, result)
  | sl :: rest, idx, σ, result =>
    if sliceLen ≠ sl.len then none                                 -- panic("the slice parameters should have identical length")
    else if idx < result.length then
      let r := alloc σ sl.len sl.len                               -- make([]T, len(sl))
      zipRowsLoop sliceLen rest (idx + 1) r.1 (result.set idx r.2) -- result[idx] = …
    else none

/-- the inner loop `for i := 0; i < len(slices); i++ { result[i][x] = slices[x][i] }` (Zip, `tr = false`) or
`{ result[x][i] = slices[i][x] }` (Unzip, `tr = true`) — the right-hand side is read from the current store,
then the cell is written; first argument: iterations left -/
def zipCellLoop (tr : Bool) (slices result : List Slice) (x : Nat) : Nat → Nat → Store → Option Store
  | 0, _, σ => some σ
  | n + 1, i, σ =>
    match (if tr then read2 σ slices i x else read2 σ slices x i) with
    | none => none
    | some v =>
      match (if tr then write2 σ result x i v else write2 σ result i x v) with
      | none => none
      | some σ' => zipCellLoop tr slices result x n (i + 1) σ'

/-- the outer loop `for x := 0; x < sliceLen; x++ { … }` -/
def zipColLoop (tr : Bool) (slices result : List Slice) : Nat → Nat → Store → Option Store
  | 0, _, σ => some σ
  | n + 1, x, σ =>
    match zipCellLoop tr slices result x slices.length 0 σ with
    | none => none
    | some σ' => zipColLoop tr slices result n (x + 1) σ'

/-- the common body of `Zip` (`tr = false`) and `Unzip` (`tr = true`): the two functions differ in the one
assignment of the inner loop only -/
def zipWithStore (tr : Bool) (σ : Store) (slices : List Slice) : Option (Store × List Slice) :=
  -- var result = make([][]T, len(slices))
  if firstLen slices ≠ slices.length then none                     -- panic("the number of slice parameters …")
  else
    match zipRowsLoop (firstLen slices) slices 0 σ (List.replicate slices.length nilSlice) with
    | none => none
    | some (σ1, result) =>
      match zipColLoop tr slices result (firstLen slices) 0 σ1 with
      | none => none
      | some σ2 => some (σ2, result)                               -- return result

def zipStore (σ : Store) (slices : List Slice) : Option (Store × List Slice) := zipWithStore false σ slices
def unzipStore (σ : Store) (slices : List Slice) : Option (Store × List Slice) := zipWithStore true σ slices

end GoguVerif.Model.StoreHelpers2
