/-!
# Lock-discipline model (C01, C02)

A method is a set of *paths*; a path is a list of *sections*; a section is a stretch of code run under
one lock state of the instance's `sync.RWMutex` (`none | r | w`) together with the accesses to guarded
locations it may perform (any number of times — loops need no unrolling).  Threads interleave at
section entry/exit; `RWMutex` admission rules are the step guards.  Core Lean only.

The per-method tables (`MethodEntry`) are regenerated from the Go source on every run
(`Gen/LockTable.lean`).
-/
namespace GoguVerif.Model.Lock

inductive Mode | r | w
deriving DecidableEq, Repr

structure Access where
  loc : Nat
  write : Bool
deriving DecidableEq, Repr

/-- A stretch of a method run under one lock state; it may perform any number of the listed accesses. -/
structure Sect where
  mode : Option Mode
  accs : List Access
deriving DecidableEq, Repr

/-- every write sits in a `w` section, every access in an `r` or `w` section -/
def Sect.WellLocked (s : Sect) : Prop :=
  ∀ a ∈ s.accs, (a.write = true → s.mode = some .w) ∧ s.mode ≠ none

instance (s : Sect) : Decidable s.WellLocked := by unfold Sect.WellLocked; infer_instance

structure PathEntry where
  sects : List Sect
  /-- facts the section abstraction cannot express (nestedAcquire, unbalanced, holdsTwo, escapes:…,
  blocksWhileHolding, traverseProducer) -/
  flags : List String
deriving DecidableEq, Repr

structure MethodEntry where
  type : String
  method : String
  /-- which instance parameter this projection is for (0 = the receiver) -/
  inst : Nat
  paths : List PathEntry
deriving DecidableEq, Repr

structure Thread where
  cur : Option Sect
  rest : List Sect

def Thread.holds (t : Thread) : Option Mode := t.cur.bind (·.mode)

abbrev State := Nat → Thread

def upd (s : State) (i : Nat) (t : Thread) : State := fun j => if j = i then t else s j

/-- `sync.RWMutex` admission rule. -/
def canEnter (s : State) (i : Nat) (m : Option Mode) : Prop :=
  match m with
  | none => True
  | some .r => ∀ j, j ≠ i → (s j).holds ≠ some .w
  | some .w => ∀ j, j ≠ i → (s j).holds = none

inductive Step : State → State → Prop
  | enter (s : State) (i : Nat) (sec : Sect) (rest : List Sect)
      (h : s i = ⟨none, sec :: rest⟩) (ok : canEnter s i sec.mode) :
      Step s (upd s i ⟨some sec, rest⟩)
  | leave (s : State) (i : Nat) (sec : Sect) (rest : List Sect)
      (h : s i = ⟨some sec, rest⟩) :
      Step s (upd s i ⟨none, rest⟩)

inductive Reach (init : State) : State → Prop
  | refl : Reach init init
  | step {s s'} : Reach init s → Step s s' → Reach init s'

def Thread.WellLocked (t : Thread) : Prop :=
  (∀ c, t.cur = some c → c.WellLocked) ∧ ∀ c ∈ t.rest, c.WellLocked

def Init (s : State) : Prop := ∀ i, (s i).cur = none ∧ (s i).WellLocked

/-- Two different threads are simultaneously able to perform conflicting accesses. -/
def Race (s : State) : Prop :=
  ∃ i j, i ≠ j ∧ ∃ ci cj, (s i).cur = some ci ∧ (s j).cur = some cj ∧
    ∃ a ∈ ci.accs, ∃ b ∈ cj.accs, a.loc = b.loc ∧ (a.write = true ∨ b.write = true)

end GoguVerif.Model.Lock
