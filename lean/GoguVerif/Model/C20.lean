import GoguVerif.Spec.C20
/-!
# C20 — executable timed models of `Delay`, `NewDebounce`, `NewThrottle` (func.go)

Timed transition systems: the state carries the virtual clock `now`; `advance dt` lets time pass and
fires due timers *at their deadline*.  `time.AfterFunc(d, f)` with `d ≤ 0` fires at the current
instant, which is why every step ends with a settling pass (the harness calls `synctest.Wait()` after
every operation).  Ghost fields (`n`, `idx`, `tc`, `at`, `calls`, `wsrc`, `ctime`, `cepoch`, `prevT`) record
*which* event caused what; they do not influence the behaviour.

Only the event vocabulary is imported from the specification.  Core Lean only.
-/
namespace GoguVerif.Model.C20
open GoguVerif.Spec.C20

/-! ## NewDebounce

```go
func (d *debouncer) add(f func()) { lock; if d.timer != nil { d.timer.Stop() }; d.timer = time.AfterFunc(d.duration, f) }
func (d *debouncer) cancel()      { lock; if d.timer != nil { d.timer.Stop(); d.timer = nil } }
```
`d.timer` is the single pending timer (a fired timer cannot be stopped: `Stop` is then a no-op). -/

structure Pending where
  deadline : Int
  /-- ghost: position in the history and instant of the call that scheduled it -/
  idx : Nat
  tc : Int
deriving Repr, BEq, DecidableEq

structure Fire where
  f : Int
  idx : Nat
  tc : Int
  /-- ghost: position of the event during which the timer fired -/
  «at» : Nat
deriving Repr, BEq, DecidableEq

structure DState where
  now : Int := 0
  /-- ghost: number of events so far -/
  n : Nat := 0
  pending : Option Pending := none
  fired : List Fire := []
deriving Repr, BEq

/-- run the pending timer if its deadline has been reached (the callback observes the deadline as
the current time: the clock stops there) -/
def DState.settle (s : DState) : DState :=
  match s.pending with
  | some p =>
    if p.deadline ≤ s.now then
      { s with pending := none, fired := s.fired ++ [{ f := p.deadline, idx := p.idx, tc := p.tc, «at» := s.n }] }
    else s
  | none => s

def dstep (wait : Nat) (s : DState) (e : DEv) : DState :=
  let s1 : DState := match e with
    | .call => { s with pending := some { deadline := s.now + wait, idx := s.n, tc := s.now } }
    | .cancel => { s with pending := none }
    | .advance dt => { s with now := s.now + dt }
  let s2 := s1.settle
  { s2 with n := s2.n + 1 }

def drun (wait : Nat) (evs : List DEv) : DState := evs.foldl (dstep wait) {}

/-! ## Delay

`Delay(d, fn)` is `time.AfterFunc(d, fn)`: an independent timer per call; `Stop` reports whether it
stopped a pending timer.  A non-positive delay fires at the current instant. -/

structure LPending where
  id : Nat
  deadline : Int
  idx : Nat
  tc : Int
  d : Int
deriving Repr, BEq, DecidableEq

structure LFire where
  f : Int
  id : Nat
  idx : Nat
  tc : Int
  d : Int
deriving Repr, BEq, DecidableEq

structure LState where
  now : Int := 0
  n : Nat := 0
  nextId : Nat := 0
  timers : List LPending := []
  fired : List LFire := []
  /-- result of the last `stop`: `none` = unknown id -/
  lastStop : Option Bool := none
deriving Repr, BEq

def LState.settle (s : LState) : LState :=
  let due := s.timers.filter fun t => decide (t.deadline ≤ s.now)
  { s with timers := s.timers.filter (fun t => !decide (t.deadline ≤ s.now)),
           fired := s.fired ++ due.map fun t => { f := t.deadline, id := t.id, idx := t.idx, tc := t.tc, d := t.d } }

def lstep (s : LState) (e : LEv) : LState :=
  let s1 : LState := match e with
    | .delay d =>
      { s with timers := s.timers ++ [{ id := s.nextId, deadline := s.now + max d 0, idx := s.n, tc := s.now, d := d }],
               nextId := s.nextId + 1 }
    | .stop id =>
      if id < s.nextId then
        { s with lastStop := some (s.timers.any (·.id == id)), timers := s.timers.filter (·.id != id) }
      else { s with lastStop := none }
    | .advance dt => { s with now := s.now + dt }
  let s2 := s1.settle
  { s2 with n := s2.n + 1 }

def lrun (evs : List LEv) : LState := evs.foldl lstep {}

/-! ## NewThrottle

```go
func (t *throttler) Call() {
  lock
  if !t.waiting && !t.stop {
    delta := time.Since(t.last)
    if delta > t.duration { t.waiting = true; t.cond.Broadcast() }
    else if t.trailing && !t.scheduled {
      t.scheduled = true
      time.AfterFunc(t.duration-delta, t.trail)
    } } }
func (t *throttler) trail() {            // callback of the trailing timer
  lock; t.scheduled = false
  if t.stop || t.waiting { return }
  if delta := time.Since(t.last); delta < t.duration {   // the timer ran late and a new period has begun
    t.scheduled = true; time.AfterFunc(t.duration-delta, t.trail); return }
  t.waiting = true; t.cond.Broadcast() }
func (t *throttler) Next() bool {
  lock; for !t.waiting && !t.stop { t.cond.Wait() }
  if !t.stop { t.waiting = false; t.last = time.Now() }
  return !t.stop }
func (t *throttler) Cancel() { lock; t.stop = true; t.cond.Broadcast() }
```
`last = none` is the zero `time.Time` (`time.Since` of it exceeds every duration).  `scheduled` is
`some` exactly while the trailing timer is pending.  `blocked` are the callers inside `cond.Wait`.
After a broadcast with `waiting = true` every blocked caller re-checks the loop condition under the
lock in an arbitrary order: exactly one of them finds `waiting` still true — which one is decided by
the choice function `ch` (event number, blocked callers) ↦ position; the others wait again. -/

structure TCfg where
  dur : Nat
  trailing : Bool
deriving Repr, BEq

structure Sched where
  deadline : Int
  /-- ghost: the trigger that scheduled the timer: its instant and its epoch (see `TState.calls`) -/
  ctime : Int
  cepoch : Nat
deriving Repr, BEq, DecidableEq

structure Grant where
  t : Int
  id : Nat
  /-- ghost: the trigger (instant, epoch) that this permission answers, and the instant of the
  previous permission (`last` when it was handed out) -/
  ctime : Int
  cepoch : Nat
  prevT : Option Int
deriving Repr, BEq, DecidableEq

structure TState where
  now : Int := 0
  n : Nat := 0
  last : Option Int := none
  waiting : Bool := false
  stop : Bool := false
  scheduled : Option Sched := none
  blocked : List Nat := []
  /-- permissions handed out (oldest first) -/
  grants : List Grant := []
  /-- `Next` calls that returned false: (instant, id), oldest first -/
  falses : List (Int × Nat) := []
  /-- completed `Next` calls (id, instant, result) in completion order -/
  doneLog : List (Nat × Int × Bool) := []
  /-- ghost: the trigger (instant, epoch) that set `waiting` -/
  wsrc : Int × Nat := (0, 0)
  /-- ghost: all triggers so far, oldest first: (instant, epoch) where the epoch of a `Call` is the
  number of permissions handed out before it -/
  calls : List (Int × Nat) := []
deriving Repr, BEq

abbrev Choice := Nat → List Nat → Nat

/-- choose the `c`-th element of the non-empty list `b :: bs` (saturating), return it and the rest -/
def pickFrom : Nat → Nat → List Nat → Nat × List Nat
  | 0, b, bs => (b, bs)
  | _ + 1, b, [] => (b, [])
  | c + 1, b, b' :: bs =>
    let r := pickFrom c b' bs
    (r.1, b :: r.2)

/-- hand a permission to caller `id` (who returns from `Next` with true, stamping `last`) -/
def grantTo (s : TState) (id : Nat) : TState :=
  { s with waiting := false, last := some s.now,
           grants := s.grants ++ [{ t := s.now, id := id, ctime := s.wsrc.1, cepoch := s.wsrc.2, prevT := s.last }],
           doneLog := s.doneLog ++ [(id, s.now, true)] }

/-- `t.waiting = true; t.cond.Broadcast()` caused by the trigger `w` (ghost): one blocked caller (if
any) takes the permission, the others go back to waiting -/
def wake (ch : Choice) (s : TState) (w : Int × Nat) : TState :=
  let s1 := { s with waiting := true, wsrc := w }
  match s.blocked with
  | [] => s1
  | b :: bs =>
    let r := pickFrom (ch s.n s.blocked) b bs
    grantTo { s1 with blocked := r.2 } r.1

/-- the trailing timer's callback -/
def fire (ch : Choice) (s : TState) (sc : Sched) : TState :=
  let s1 := { s with scheduled := none }
  if s1.stop = true then s1 else wake ch s1 (sc.ctime, sc.cepoch)

/-- let time pass until `target`, stopping at the trailing timer's deadline to run it -/
def advanceTo (ch : Choice) (s : TState) (target : Int) : TState :=
  match s.scheduled with
  | some sc =>
    if sc.deadline ≤ target then
      let s1 := fire ch { s with now := max s.now sc.deadline } sc
      { s1 with now := target }
    else { s with now := target }
  | none => { s with now := target }

/-- ghost: log the trigger -/
def logCall (s : TState) : TState := { s with calls := s.calls ++ [(s.now, s.grants.length)] }

def tcall (cfg : TCfg) (ch : Choice) (s0 : TState) : TState :=
  let s := logCall s0
  if s.waiting = false ∧ s.stop = false then
    match s.last with
    | none => wake ch s (s.now, s.grants.length)
    | some l =>
      if s.now - l > cfg.dur then wake ch s (s.now, s.grants.length)
      else if cfg.trailing = true ∧ s.scheduled = none then
        { s with scheduled := some { deadline := s.now + (cfg.dur - (s.now - l)), ctime := s.now, cepoch := s.grants.length } }
      else s
  else s

def tnext (s : TState) (id : Nat) : TState :=
  if s.waiting = true ∨ s.stop = true then
    if s.stop = false then grantTo s id
    else { s with falses := s.falses ++ [(s.now, id)], doneLog := s.doneLog ++ [(id, s.now, false)] }
  else { s with blocked := s.blocked ++ [id] }

def tcancel (s : TState) : TState :=
  { s with stop := true, falses := s.falses ++ s.blocked.map (fun id => (s.now, id)), blocked := [],
           doneLog := s.doneLog ++ s.blocked.map (fun id => (id, s.now, false)) }

def tstep (cfg : TCfg) (ch : Choice) (s : TState) (e : TEv) : TState :=
  let s1 : TState := match e with
    | .call => tcall cfg ch s
    | .cancel => tcancel s
    | .next id => tnext s id
    | .advance _ => s
  let s2 := advanceTo ch s1 (s1.now + e.dt)
  { s2 with n := s2.n + 1 }

def trun (cfg : TCfg) (ch : Choice) (evs : List TEv) : TState := evs.foldl (tstep cfg ch) {}

/-! ### The trailing timer's callback as it is in the code (`trail`)

`fire` above is what `trail` does when it runs exactly at its deadline in a state reached with
punctual timers: there `waiting = false` and `now - last = duration`, so its two extra tests are
no-ops (`Theorems/C20Late.lean: trunCode_eq_trun`).  `fireCode` is `trail` statement by statement; the
driver runs `tstepCode`, and the late-timer system of `lateStep` runs it at ANY instant at or after the deadline. -/

/-- `trail()`: the callback of the trailing timer, run at `s.now` -/
def fireCode (cfg : TCfg) (ch : Choice) (s : TState) (sc : Sched) : TState :=
  let s1 := { s with scheduled := none }
  if s1.stop = true ∨ s1.waiting = true then s1
  else match s1.last with
    | none => wake ch s1 (sc.ctime, sc.cepoch)
    | some l =>
      if s1.now - l < cfg.dur then
        { s1 with scheduled := some { deadline := s1.now + (cfg.dur - (s1.now - l)), ctime := sc.ctime, cepoch := sc.cepoch } }
      else wake ch s1 (sc.ctime, sc.cepoch)

/-- let time pass until `target` with punctual timers; a timer re-armed by `trail` is run again when its new
deadline falls before `target` (fuel: `trail` re-arms at most once before it grants) -/
def advanceToCode (cfg : TCfg) (ch : Choice) : Nat → TState → Int → TState
  | 0, s, target => { s with now := target }
  | f + 1, s, target =>
    match s.scheduled with
    | some sc =>
      if sc.deadline ≤ target then
        advanceToCode cfg ch f (fireCode cfg ch { s with now := max s.now sc.deadline } sc) target
      else { s with now := target }
    | none => { s with now := target }

def tstepCode (cfg : TCfg) (ch : Choice) (s : TState) (e : TEv) : TState :=
  let s1 : TState := match e with
    | .call => tcall cfg ch s
    | .cancel => tcancel s
    | .next id => tnext s id
    | .advance _ => s
  let s2 := advanceToCode cfg ch 3 s1 (s1.now + e.dt)
  { s2 with n := s2.n + 1 }

def trunCode (cfg : TCfg) (ch : Choice) (evs : List TEv) : TState := evs.foldl (tstepCode cfg ch) {}

/-! ### Timers that run late

The Go runtime runs a timer's callback at or AFTER its deadline, as late as the scheduler pleases.  `LateEv` is the
vocabulary of that environment: the throttle's own transitions are the same functions as above (`tcall`, `tnext`,
`tcancel`, `fireCode`); only the instant at which the callback runs is chosen by the environment (`trail`: it runs
now, provided a timer is pending and its deadline has been reached; otherwise nothing happens). -/

inductive LateEv where
  | call
  | cancel
  | next (id : Nat)
  /-- time passes; no callback runs -/
  | tick (dt : Nat)
  /-- the runtime runs the pending timer's callback now (enabled only at or after its deadline) -/
  | trail
deriving Repr, DecidableEq, Inhabited

def lateStep (cfg : TCfg) (ch : Choice) (s : TState) (e : LateEv) : TState :=
  let s1 : TState := match e with
    | .call => tcall cfg ch s
    | .cancel => tcancel s
    | .next id => tnext s id
    | .tick dt => { s with now := s.now + dt }
    | .trail =>
      match s.scheduled with
      | some sc => if sc.deadline ≤ s.now then fireCode cfg ch s sc else s
      | none => s
  { s1 with n := s1.n + 1 }

def lateRun (cfg : TCfg) (ch : Choice) (evs : List LateEv) : TState := evs.foldl (lateStep cfg ch) {}

/-- the callback BEFORE the repair (F36): it granted unconditionally -/
def fireOld (ch : Choice) (s : TState) (sc : Sched) : TState := fire ch s sc

def lateStepOld (cfg : TCfg) (ch : Choice) (s : TState) (e : LateEv) : TState :=
  let s1 : TState := match e with
    | .call => tcall cfg ch s
    | .cancel => tcancel s
    | .next id => tnext s id
    | .tick dt => { s with now := s.now + dt }
    | .trail =>
      match s.scheduled with
      | some sc => if sc.deadline ≤ s.now then fireOld ch s sc else s
      | none => s
  { s1 with n := s1.n + 1 }

def lateRunOld (cfg : TCfg) (ch : Choice) (evs : List LateEv) : TState := evs.foldl (lateStepOld cfg ch) {}

/-! ## Debounce when the goroutine of an expired timer starts late

```go
func (d *debouncer) add(f func()) {
	lock; if d.timer != nil { d.timer.Stop() }
	var t *time.Timer
	t = time.AfterFunc(d.duration, func() {          // runs in a goroutine of its own, any time after the expiry
		lock; current := d.timer == t; unlock
		if current { f() }
	})
	d.timer = t
}
func (d *debouncer) cancel() { lock; if d.timer != nil { d.timer.Stop(); d.timer = nil } }
```
`time.AfterFunc` does not run its function when the timer expires: the runtime creates a goroutine for it (`expire`),
which starts whenever the scheduler pleases (`start`).  `Timer.Stop` removes a timer that has not expired yet; on an
expired one it does nothing.  With punctual timers and immediately starting goroutines this is the model `dstep` above
(the check `d.timer == t` always succeeds there).  Here the environment decides when timers expire (at or after their
deadline), when the goroutines make their check and when they call f.  Between the check (under the lock) and the call
of f the lock is released: a `cancel()` or a newer call can run to completion in that gap (known finding F46). -/

structure DLTimer where
  id : Nat
  deadline : Int
  /-- ghost: position and instant of the call that created it -/
  idx : Nat
  tc : Int
  /-- the timer has expired: its goroutine exists and can no longer be stopped -/
  expired : Bool := false
  /-- the goroutine has made its check under the lock and was told to go ahead (it has released the lock and is about
  to call f) -/
  goAhead : Bool := false
  /-- ghost: the instant of that check and the most recent `call` / `cancel` event at that moment -/
  gaT : Int := 0
  gaLast : Option (Nat × Bool) := none
deriving Repr, BEq, DecidableEq

structure DLRun where
  /-- instant at which the debounced function started -/
  f : Int
  id : Nat
  idx : Nat
  tc : Int
  /-- ghost: position of the `run` event -/
  «at» : Nat
  /-- ghost: the most recent `call` / `cancel` event (position, was it a call) when the function started -/
  lastAt : Option (Nat × Bool)
  /-- ghost: the instant of the go-ahead check and the most recent `call` / `cancel` event at that check -/
  gaT : Int
  gaLast : Option (Nat × Bool)
deriving Repr, BEq, DecidableEq

structure DLState where
  now : Int := 0
  n : Nat := 0
  nextId : Nat := 0
  /-- `d.timer`: the identity of the current timer -/
  cur : Option Nat := none
  timers : List DLTimer := []
  runs : List DLRun := []
  /-- ghost: position of the most recent `call` or `cancel` event, and whether it was a call -/
  lastEv : Option (Nat × Bool) := none
deriving Repr, BEq

inductive DLEv where
  | call
  | cancel
  | tick (dt : Nat)
  /-- the runtime expires timer `id` (enabled when it is pending and its deadline has been reached) -/
  | expire (id : Nat)
  /-- the goroutine created for the expired timer `id` takes the lock and checks `d.timer == t` -/
  | check (id : Nat)
  /-- having been told to go ahead (and having released the lock) the goroutine calls f -/
  | run (id : Nat)
deriving Repr, DecidableEq, Inhabited

/-- `d.timer.Stop()`: a timer that has not expired is removed; an expired one is left alone -/
def stopCur (s : DLState) : List DLTimer :=
  match s.cur with
  | none => s.timers
  | some c => s.timers.filter fun t => !(t.id == c && !t.expired)

/-- `checked = true`: the repaired code (the goroutine goes ahead only if its timer is still `d.timer`);
`checked = false`: the code before the repair (no check: it always goes ahead).  The check and the call of f are TWO
steps: the lock is released in between, as in the code. -/
def dlstep (checked : Bool) (wait : Nat) (s : DLState) (e : DLEv) : DLState :=
  let s1 : DLState := match e with
    | .call =>
      { s with timers := stopCur s ++ [{ id := s.nextId, deadline := s.now + wait, idx := s.n, tc := s.now }],
               cur := some s.nextId, nextId := s.nextId + 1, lastEv := some (s.n, true) }
    | .cancel => { s with timers := stopCur s, cur := none, lastEv := some (s.n, false) }
    | .tick dt => { s with now := s.now + dt }
    | .expire id =>
      { s with timers := s.timers.map fun t => if t.id == id && decide (t.deadline ≤ s.now) then { t with expired := true } else t }
    | .check id =>
      if !checked || s.cur == some id then
        { s with timers := s.timers.map fun t =>
            if t.id == id && t.expired && !t.goAhead then { t with goAhead := true, gaT := s.now, gaLast := s.lastEv } else t }
      else { s with timers := s.timers.filter fun t => !(t.id == id && t.expired && !t.goAhead) }
    | .run id =>
      match s.timers.find? (fun t => t.id == id && t.goAhead) with
      | none => s
      | some t =>
        { s with timers := s.timers.filter fun t' => !(t'.id == id),
                 runs := s.runs ++ [{ f := s.now, id := id, idx := t.idx, tc := t.tc, «at» := s.n, lastAt := s.lastEv,
                                      gaT := t.gaT, gaLast := t.gaLast }] }
  { s1 with n := s1.n + 1 }

def dlrun (checked : Bool) (wait : Nat) (evs : List DLEv) : DLState := evs.foldl (dlstep checked wait) {}

end GoguVerif.Model.C20
