import GoguVerif.Spec.C07
/-!
# Model of `cache/lrucache.go` — layer 1 (abstract list)

`LRUCache` has three fields and the model keeps all three, as SEPARATE components, exactly so that
the map and the list *can* disagree (they did in the unrepaired `RemoveYoungest`, F13):

* `size`  — `c.size`, a Go `int`;
* `items` — the key set of the map `c.items` (only membership is ever used by the code; the order of
  the Lean list is irrelevant, every theorem holds for every order);
* `list`  — `c.evictList`: the nodes reachable from `root.next`, front (most recent) first, each
  node being its `(key, value)` pair.  `evictList.len` is the length of this list.

What this layer abstracts (listed as *modelled*; the pointer-level layer `Model/LruPtr.lean` removes
it): a `*node` is designated by **the key it holds**.  The map lookup `c.items[key]` yields "the node
holding `key`", and the pointer surgery of `moveAfter` / `remove` is the list operation `unlink`
(find that node, take it out).  If the map designates a key for which the list has no node, the Go
code would operate on an unlinked node; layer 1 cannot say what happens then and reports the
explicit outcome `Res.stale` (never a default).  Theorem `Theorems.C07.step_refines` shows that
`stale` is unreachable from `NewLRU`.

Each method follows the Go method statement by statement: which component is read or written, in
which order.  Core Lean only.
-/
namespace GoguVerif.Model.Lru
open GoguVerif.Spec.C07 (Op Out)

/-- What a Go method hands back: the tuple of its (named, zero-initialised) results. -/
inductive Ret where
  | unit                                -- `Flush`
  | kvb (k v : Int) (b : Bool)          -- `(key K, value V, ok bool)`
  | vb (v : Int) (b : Bool)             -- `(value V, ok bool)`
  | int (n : Int)                       -- `Count`
deriving Repr, DecidableEq, Inhabited

/-- The answer the specification allows, as the Go result tuple (zero values when unavailable). -/
def Ret.ofOut : Out → Ret
  | .unit => .unit
  | .kv (some e) => .kvb e.1 e.2 true
  | .kv none => .kvb 0 0 false
  | .v (some v) => .vb v true
  | .v none => .vb 0 false
  | .int n => .int n

abbrev Node := Int × Int        -- key, value
abbrev DL := List Node          -- `lruList` from `root.next` to `root.prev`; `len` = `length`

structure St where
  size : Int
  items : List Int
  list : DL
deriving Repr, DecidableEq

inductive Res where
  | ok (st : St) (ret : Ret)
  /-- `items` designated a node that is not linked in `evictList` (outside layer 1) -/
  | stale
deriving Repr, DecidableEq

/-! ## `lruList` -/

/-- The shared first half of `moveAfter` and the body of `remove`:
`nd.prev.next = nd.next; nd.next.prev = nd.prev` for the node holding `k`.
Result: that node and the list without it; `none` if no linked node holds `k`. -/
def unlink (k : Int) : DL → Option (Node × DL)
  | [] => none
  | e :: r =>
    if e.1 = k then some (e, r)
    else match unlink k r with
      | none => none
      | some (x, r') => some (x, e :: r')

/-- `moveFront(nd)` = `moveAfter(&l.root, nd)`: unlink `nd`, relink it right after the root.
(`current == nd` cannot hold: `current` is the root and `nd` never is, see the callers.) -/
def moveFront (k : Int) (l : DL) : Option (Node × DL) :=
  match unlink k l with
  | none => none
  | some (nd, r) => some (nd, nd :: r)

/-- `length()` / the field `len` -/
def length (l : DL) : Int := l.length

/-- `addFront(key, value)` = `addAfter(&l.root, key, value)`; `len++` -/
def addFront (key value : Int) (l : DL) : DL := (key, value) :: l

/-- `last()` = `root.prev`; `none` stands for `&l.root` -/
def last (l : DL) : Option Node := l.getLast?

/-- `first()` = `root.next`; `none` stands for `&l.root` -/
def first (l : DL) : Option Node := l.head?

/-- `remove(node)`: `false` for the root, otherwise unlink, `len--`, `true`.
Outer `none`: the node is not linked. -/
def remove (nd : Option Node) (l : DL) : Option (DL × Bool) :=
  match nd with
  | none => some (l, false)                       -- node == &l.root
  | some e =>
    match unlink e.1 l with
    | none => none
    | some (_, r) => some (r, true)

/-- `removeLast()` = `l.remove(l.last())` -/
def removeLast (l : DL) : Option (DL × Bool) := remove (last l) l

/-! ## the map `items` (key set) -/

def mapHas (k : Int) (items : List Int) : Bool := items.contains k
def mapSet (k : Int) (items : List Int) : List Int := k :: items
def mapDelete (k : Int) (items : List Int) : List Int := items.filter (fun x => !(x == k))

/-! ## `LRUCache` -/

/-- `NewLRU(size)`; `none` = the error return. -/
def newLRU (size : Int) : Option St :=
  if size ≤ 0 then none
  else some { size := size, items := [], list := [] }

/-- `Count()` -/
def count (c : St) : Int := length c.list

/-- `RemoveOldest()` -/
def removeOldest (c : St) : Res :=
  match last c.list with
  | some item =>                                          -- item != &root
    let items' := mapDelete item.1 c.items                -- delete(c.items, item.key)
    match removeLast c.list with                          -- c.evictList.removeLast()
    | none => .stale
    | some (l', b) => .ok { c with items := items', list := l' } (.kvb item.1 item.2 b)
  | none => .ok c (.kvb 0 0 false)

/-- `Add(key, value)` -/
def add (c : St) (key value : Int) : Res :=
  if mapHas key c.items then                              -- item, ok := c.items[key]
    match unlink key c.list with                          -- c.evictList.moveFront(item): unlink item, …
    | none => .stale
    | some (item, r) =>                                   -- … relink it after the root; item.value = value
      .ok { c with list := (item.1, value) :: r } (.kvb 0 0 false)
  else
    let l1 := addFront key value c.list                   -- item := c.evictList.addFront(key, value)
    let c1 : St := { c with items := mapSet key c.items, list := l1 }   -- c.items[key] = item
    if count c1 > c1.size then removeOldest c1            -- if c.Count() > c.size { return c.RemoveOldest() }
    else .ok c1 (.kvb 0 0 false)

/-- `GetOldest()` -/
def getOldest (c : St) : Res :=
  match last c.list with
  | some item =>
    match moveFront item.1 c.list with                    -- c.evictList.moveFront(item)
    | none => .stale
    | some (_, l') => .ok { c with list := l' } (.kvb item.1 item.2 true)
  | none => .ok c (.kvb 0 0 false)

/-- `Get(key)` -/
def get (c : St) (key : Int) : Res :=
  if mapHas key c.items then
    match moveFront key c.list with
    | none => .stale
    | some (item, l') => .ok { c with list := l' } (.vb item.2 true)
  else .ok c (.vb 0 false)

/-- `GetYoungest()` -/
def getYoungest (c : St) : Res :=
  match first c.list with
  | some item => .ok c (.kvb item.1 item.2 true)
  | none => .ok c (.kvb 0 0 false)

/-- `Remove(key)` -/
def removeKey (c : St) (key : Int) : Res :=
  if mapHas key c.items then                              -- item, ok := c.items[key]
    match unlink key c.list with                          -- (the node `item`, read before it is unlinked)
    | none => .stale
    | some (item, _) =>
      let items' := mapDelete item.1 c.items              -- delete(c.items, item.key)
      match remove (some item) c.list with                -- c.evictList.remove(item)
      | none => .stale
      | some (l', _) => .ok { c with items := items', list := l' } (.vb item.2 true)
  else .ok c (.vb 0 false)

/-- `RemoveYoungest()` (after the repair 4cc2540: unlinks `item`, the first node) -/
def removeYoungest (c : St) : Res :=
  match first c.list with
  | some item =>
    let items' := mapDelete item.1 c.items                -- delete(c.items, item.key)
    match remove (some item) c.list with                  -- c.evictList.remove(item)
    | none => .stale
    | some (l', b) => .ok { c with items := items', list := l' } (.kvb item.1 item.2 b)
  | none => .ok c (.kvb 0 0 false)

/-- `RemoveYoungest()` as it was BEFORE the repair (F13): deletes the youngest key from the map but
calls `c.evictList.removeLast()`.  Only used for the negative example in `Theorems/C07.lean`. -/
def removeYoungestPreFix (c : St) : Res :=
  match first c.list with
  | some item =>
    let items' := mapDelete item.1 c.items
    match removeLast c.list with
    | none => .stale
    | some (l', b) => .ok { c with items := items', list := l' } (.kvb item.1 item.2 b)
  | none => .ok c (.kvb 0 0 false)

/-- `Flush()` -/
def flush (c : St) : Res :=
  .ok { c with items := [], list := [] } .unit            -- make(map…); newLRUList()

def step (c : St) : Op → Res
  | .add k v => add c k v
  | .get k => get c k
  | .getOldest => getOldest c
  | .getYoungest => getYoungest c
  | .remove k => removeKey c k
  | .removeOldest => removeOldest c
  | .removeYoungest => removeYoungest c
  | .flush => flush c
  | .count => .ok c (.int (count c))

/-- A whole history.  `none`: some step was `stale`. -/
def run (c : St) : List Op → Option (St × List Ret)
  | [] => some (c, [])
  | op :: ops =>
    match step c op with
    | .stale => none
    | .ok c' r =>
      match run c' ops with
      | none => none
      | some (c'', rs) => some (c'', r :: rs)

end GoguVerif.Model.Lru
