import GoguVerif.Model.StoreHelpers4
import GoguVerif.Model.StoreHelpers2
import GoguVerif.Model.C11
import GoguVerif.Model.C12
/-!
# Store-level models of the map-returning helpers (C16, fifth batch)

`Model/StoreHelpers.lean` … `StoreHelpers4.lean` write 36 helpers over the slice store (`Model/Store.lean`) and
the map store `MStore` (`Model/StoreHelpers3.lean`).  Here the remaining helpers that RETURN a map or a slice of
maps are written in the same way, *one Go statement after the other*:

* the map-to-map helpers of map.go / filter.go: `FilterMap`, `FilterMapCollection`, `Filter2DMapCollection`
  (filter.go:33-76), `MapValues`, `MapKeys`, `MapUnique`, `Find`, `FindByKey`, `Invert`, `Pick`, `PickBy`,
  `PartitionMap` (map.go:43-66, 101-113, 128-189, 208-234, 258-278);
* `GroupBy` / `mapByIndex` (slice.go:465-483) and `DuplicateWithIndex` (slice.go:206-233): they build a LOCAL
  map whose values are slice headers (`map[T2][]T1`, `map[T][]int`).

Conventions, in addition to those of the earlier files:
* a map the helper makes is a NEW OBJECT of the map store from the `make` on (`mnew`: the object is appended,
  its id is the old length), and every `result[k] = v` is a write INTO THE STORE (`mput`: a write through an id
  that has no object is Go's "assignment to entry in nil map" panic, `none`); every one-result index expression
  `m[k]` reads the CURRENT store (`mindex`).  So a helper that wrote into its argument, or returned it, would be
  seen to do so: that the argument objects are unchanged and the result object is new are theorems
  (`Theorems/C16Helpers5.lean`), not the shape of the model;
* `for k, v := range m` visits the entries the map has when the loop starts, in an order Go leaves open:
  `order` applied to the entries — a parameter, any function.  Helpers that range over SEVERAL maps
  (`FilterMapCollection`, `Filter2DMapCollection`, `PartitionMap`) take one order per position of the
  collection (`orders i`): the same map met twice may be visited in two orders.  None of the loop bodies here
  deletes or inserts into the map being ranged over, so the pairs yielded are the entries planned (for
  `PartitionMap`, which WRITES the map it ranges over, the loop ends after its first iteration);
* a local Go map of another type that is not returned and only tested for membership (`ref map[V]bool` of
  `MapUnique`) is a Lean association list (as `keys` of `Unique` in `Model/StoreHelpers.lean`);
* a `[]map[K]V` (argument or result) is a Lean list of map ids — its backing array has another element type
  and is not part of the `Int` slice store; the RESULT lists of `FilterMapCollection` / `PartitionMap` are made
  by the helper (`[]map[K]V{}` + `append`) and hold the SAME map ids as the argument: Go copies map references;
* the outer maps of `Filter2DMapCollection` (`map[K]map[K]V`: their values are map references) live in a store
  of their own, `M2Store` (entries `(key, id of the inner map)`);
* maps whose values are slice headers live in `HStore` (entries `(key, header)`); the headers point into the
  ordinary slice store, so `result[v] = append(result[v], x)` is `Store.append` on the header read from the map,
  followed by a write of the new header into the map;
* `sort.Slice(keys, less)` of `Find` sorts IN PLACE the slice the helper made: the sorted values
  (`Model.C14.sortKeys`, as in the value-level model; `sort.Slice` itself is not verified) are written back
  through the header.

Core Lean only.
-/
namespace GoguVerif.Model.StoreHelpers5
open GoguVerif.Model.Store GoguVerif.Model.StoreHelpers GoguVerif.Model.StoreHelpers3
open GoguVerif.Model.StoreHelpers4

/-- an iteration order of `range m` -/
abbrev Order := List (Int × Int) → List (Int × Int)

/-! ## map objects: `make`, `m[k] = v`, `m[k]` -/

/-- `make(map[K]V)` / `map[K]V{}`: a new, empty map object; returns the new store and its id -/
def mnew (μ : MStore) : MStore × Nat := (μ ++ [[]], μ.length)

/-- `m[k] = v` (`none`: no such object — assignment to an entry of a nil map panics) -/
def mput (μ : MStore) (id : Nat) (k v : Int) : Option MStore :=
  if id < μ.length then some (μ.modify id (fun m => Model.C14.put m k v)) else none

/-- the one-result index expression `m[k]` on the current store (zero value for a missing key) -/
def mindex (μ : MStore) (id : Nat) (k : Int) : Int := Model.C14.idx (mget μ id) k

/-! ## FilterMap (filter.go:33-43) -/

/-- `for k, v := range m { if fn(v) { filtered[k] = v } }` -/
def filterMapLoopM (fn : Int → Bool) (filtered : Nat) : List (Int × Int) → MStore → Option MStore
  | [], μ => some μ
  | (k, v) :: r, μ =>
    if fn v then
      match mput μ filtered k v with                                -- filtered[k] = v
      | none => none
      | some μ' => filterMapLoopM fn filtered r μ'
    else filterMapLoopM fn filtered r μ

def filterMapStoreIn (order : Order) (μ : MStore) (m : Nat) (fn : Int → Bool) : Option (MStore × Nat) :=
  let r := mnew μ                                                   -- filtered := map[K]V{}
  match filterMapLoopM fn r.2 (order (mget r.1 m)) r.1 with
  | none => none
  | some μ' => some (μ', r.2)                                       -- return filtered

/-! ## FilterMapCollection (filter.go:47-60) -/

/-- `for _, v := range item { if fn(v) { filtered = append(filtered, item); break } }` -/
def filterInnerM (fn : Int → Bool) (item : Nat) : List (Int × Int) → List Nat → List Nat
  | [], filtered => filtered
  | (_, v) :: r, filtered => if fn v then filtered ++ [item] else filterInnerM fn item r filtered

/-- `for _, item := range collection { … }` — second argument: the position in `collection` -/
def filterCollLoopM (orders : Nat → Order) (μ : MStore) (fn : Int → Bool) : List Nat → Nat → List Nat → List Nat
  | [], _, filtered => filtered
  | item :: r, i, filtered =>
    filterCollLoopM orders μ fn r (i + 1) (filterInnerM fn item (orders i (mget μ item)) filtered)

/-- no statement writes a map: the map store is returned as it came; the result is a list the helper made
(`filtered := []map[K]V{}`) of map references copied from the argument -/
def filterMapCollectionStoreIn (orders : Nat → Order) (μ : MStore) (collection : List Nat) (fn : Int → Bool) :
    MStore × List Nat :=
  (μ, filterCollLoopM orders μ fn collection 0 [])

/-! ## Filter2DMapCollection (filter.go:64-76) -/

/-- map objects whose values are map references: entries `(key, id of the inner map)` -/
abbrev M2Store := List (List (Int × Nat))

def m2get (μ2 : M2Store) (id : Nat) : List (Int × Nat) := (μ2[id]?).getD []

/-- `for _, v := range item { if fn(v) { filtered = append(filtered, item); break } }` — `v` is a map: the
callback sees the entries the inner map has NOW -/
def filter2DInnerM (μ : MStore) (fn : List (Int × Int) → Bool) (item : Nat) : List (Int × Nat) → List Nat → List Nat
  | [], filtered => filtered
  | (_, v) :: r, filtered => if fn (mget μ v) then filtered ++ [item] else filter2DInnerM μ fn item r filtered

def filter2DLoopM (orders : Nat → List (Int × Nat) → List (Int × Nat)) (μ2 : M2Store) (μ : MStore)
    (fn : List (Int × Int) → Bool) : List Nat → Nat → List Nat → List Nat
  | [], _, filtered => filtered
  | item :: r, i, filtered =>
    filter2DLoopM orders μ2 μ fn r (i + 1) (filter2DInnerM μ fn item (orders i (m2get μ2 item)) filtered)

/-- both map stores are returned as they came -/
def filter2DMapCollectionStoreIn (orders : Nat → List (Int × Nat) → List (Int × Nat)) (μ2 : M2Store) (μ : MStore)
    (collection : List Nat) (fn : List (Int × Int) → Bool) : M2Store × MStore × List Nat :=
  (μ2, μ, filter2DLoopM orders μ2 μ fn collection 0 [])

/-! ## MapValues, MapKeys (map.go:43-66) -/

/-- `for k, v := range m { newMap[k] = fn(v) }` -/
def mapValuesLoopM (fn : Int → Int) (newMap : Nat) : List (Int × Int) → MStore → Option MStore
  | [], μ => some μ
  | (k, v) :: r, μ =>
    match mput μ newMap k (fn v) with
    | none => none
    | some μ' => mapValuesLoopM fn newMap r μ'

def mapValuesStoreIn (order : Order) (μ : MStore) (m : Nat) (fn : Int → Int) : Option (MStore × Nat) :=
  let r := mnew μ                                                   -- newMap := map[K]R{}
  match mapValuesLoopM fn r.2 (order (mget r.1 m)) r.1 with
  | none => none
  | some μ' => some (μ', r.2)

/-- `for k, v := range m { newMap[fn(k, v)] = v }` -/
def mapKeysLoopM (fn : Int → Int → Int) (newMap : Nat) : List (Int × Int) → MStore → Option MStore
  | [], μ => some μ
  | (k, v) :: r, μ =>
    match mput μ newMap (fn k v) v with
    | none => none
    | some μ' => mapKeysLoopM fn newMap r μ'

def mapKeysStoreIn (order : Order) (μ : MStore) (m : Nat) (fn : Int → Int → Int) : Option (MStore × Nat) :=
  let r := mnew μ
  match mapKeysLoopM fn r.2 (order (mget r.1 m)) r.1 with
  | none => none
  | some μ' => some (μ', r.2)

/-! ## MapUnique (map.go:101-113) -/

/-- `for k, v := range m { if _, ok := ref[v]; !ok { ref[v] = true; result[k] = v } }` — `ref` is local, of
type `map[V]bool`, never returned: a Lean association list -/
def mapUniqueLoopM (result : Nat) : List (Int × Int) → List (Int × Bool) → MStore → Option MStore
  | [], _, μ => some μ
  | (k, v) :: r, ref, μ =>
    match Model.C14.get? ref v with
    | some _ => mapUniqueLoopM result r ref μ
    | none =>
      match mput μ result k v with                                  -- result[k] = v
      | none => none
      | some μ' => mapUniqueLoopM result r (Model.C14.put ref v true) μ'

def mapUniqueStoreIn (order : Order) (μ : MStore) (m : Nat) : Option (MStore × Nat) :=
  let r := mnew μ                                                   -- result := make(map[K]V, len(m))
  match mapUniqueLoopM r.2 (order (mget r.1 m)) [] r.1 with         -- ref := make(map[V]bool, len(m))
  | none => none
  | some μ' => some (μ', r.2)

/-! ## Find (map.go:128-153): a local `keys` SLICE, sorted in place -/

/-- `sort.Slice(keys, func(i, j int) bool { return keys[i] < keys[j] })`: in place through the header -/
def sortSliceStore (σ : Store) (keys : Slice) : Option Store :=
  writeAll σ keys 0 (Model.C14.sortKeys (elems σ keys))

/-- `for _, k := range keys { if fn(m[k]) { result[k] = m[k]; break } }` — `keys[i]` is read from the slice
store, `m[k]` (twice) from the current map store -/
def findLoopM (fn : Int → Bool) (σ : Store) (keys : Slice) (m result : Nat) : Nat → Nat → MStore → Option MStore
  | 0, _, μ => some μ
  | n + 1, i, μ =>
    match read σ keys i with
    | none => none
    | some k =>
      if fn (mindex μ m k) then mput μ result k (mindex μ m k)     -- result[k] = m[k]; break
      else findLoopM fn σ keys m result n (i + 1) μ

def findStoreIn (order : Order) (σ : Store) (μ : MStore) (m : Nat) (fn : Int → Bool) :
    Option (Store × MStore × Nat) :=
  let r := mnew μ                                                   -- result = make(map[K]V)
  let a := alloc σ (mget r.1 m).length (mget r.1 m).length          -- keys = make([]K, len(m))
  match mapFillLoop (fun k _ => k) a.2 (order (mget r.1 m)) 0 a.1 with   -- for k := range m { keys[i] = k; i++ }
  | none => none
  | some σ1 =>
    match sortSliceStore σ1 a.2 with
    | none => none
    | some σ2 =>
      match findLoopM fn σ2 a.2 m r.2 a.2.len 0 r.1 with
      | none => none
      | some μ' => some (σ2, μ', r.2)                               -- return result

/-! ## FindByKey (map.go:169-178) -/

/-- `for k, v := range m { if fn(k) { result[k] = v; break } }` -/
def findByKeyLoopM (fn : Int → Bool) (result : Nat) : List (Int × Int) → MStore → Option MStore
  | [], μ => some μ
  | (k, v) :: r, μ => if fn k then mput μ result k v else findByKeyLoopM fn result r μ

def findByKeyStoreIn (order : Order) (μ : MStore) (m : Nat) (fn : Int → Bool) : Option (MStore × Nat) :=
  let r := mnew μ                                                   -- var result = make(map[K]V)
  match findByKeyLoopM fn r.2 (order (mget r.1 m)) r.1 with
  | none => none
  | some μ' => some (μ', r.2)

/-! ## Invert (map.go:182-190) -/

/-- `for i := 0; i < len(keys); i++ { inverted[m[keys[i]]] = keys[i] }` — `keys[i]` is read twice -/
def invertLoopM (σ : Store) (keys : Slice) (m inverted : Nat) : Nat → Nat → MStore → Option MStore
  | 0, _, μ => some μ
  | n + 1, i, μ =>
    match read σ keys i, read σ keys i with
    | some k, some k' =>
      match mput μ inverted (mindex μ m k) k' with
      | none => none
      | some μ' => invertLoopM σ keys m inverted n (i + 1) μ'
    | _, _ => none

def invertStoreIn (order : Order) (σ : Store) (μ : MStore) (m : Nat) : Option (Store × MStore × Nat) :=
  let r := mnew μ                                                   -- inverted := map[V]K{}
  match keysStoreIn order σ r.1 m with                              -- keys := Keys(m)
  | none => none
  | some (σ1, keys) =>
    match invertLoopM σ1 keys m r.2 keys.len 0 r.1 with
    | none => none
    | some μ' => some (σ1, μ', r.2)

/-! ## Pick, PickBy (map.go:208-234) -/

/-- `for k := range collection { if Contains(keys, k) { result[k] = collection[k] } }` — `Contains` reads the
variadic slice `keys` from the slice store -/
def pickLoopM (σ : Store) (keys : Slice) (collection result : Nat) : List (Int × Int) → MStore → Option MStore
  | [], μ => some μ
  | (k, _) :: r, μ =>
    match containsStore σ keys k with
    | none => none
    | some true =>
      match mput μ result k (mindex μ collection k) with            -- result[k] = collection[k]
      | none => none
      | some μ' => pickLoopM σ keys collection result r μ'
    | some false => pickLoopM σ keys collection result r μ

/-- the last component: an error was returned (`len(keys) == 0`; the map made is returned with it).  No
statement writes slice storage: the slice store is returned as it came. -/
def pickStoreIn (order : Order) (σ : Store) (μ : MStore) (collection : Nat) (keys : Slice) :
    Option (Store × MStore × Nat × Bool) :=
  let r := mnew μ                                                   -- var result = make(map[K]V)
  if keys.len = 0 then some (σ, r.1, r.2, true)                     -- return result, errors.New(…)
  else
    match pickLoopM σ keys collection r.2 (order (mget r.1 collection)) r.1 with
    | none => none
    | some μ' => some (σ, μ', r.2, false)

/-- `for k, v := range collection { if fn(k, v) { result[k] = collection[k] } }` -/
def pickByLoopM (fn : Int → Int → Bool) (collection result : Nat) : List (Int × Int) → MStore → Option MStore
  | [], μ => some μ
  | (k, v) :: r, μ =>
    if fn k v then
      match mput μ result k (mindex μ collection k) with
      | none => none
      | some μ' => pickByLoopM fn collection result r μ'
    else pickByLoopM fn collection result r μ

def pickByStoreIn (order : Order) (μ : MStore) (collection : Nat) (fn : Int → Int → Bool) : Option (MStore × Nat) :=
  let r := mnew μ
  match pickByLoopM fn collection r.2 (order (mget r.1 collection)) r.1 with
  | none => none
  | some μ' => some (μ', r.2)

/-! ## PartitionMap (map.go:260-278): WRITES the maps of its argument (`m[k] = v`, the value just read) -/

/-- ```go
for _, m := range mapSlice {
    for k, v := range m {
        m[k] = v
        if fn(m) { result[0] = append(result[0], m); break } else { result[1] = append(result[1], m); break }
    }
}
```
the inner loop runs its body at most once (both branches `break`): for the first entry visited.  `fn(m)` sees
the entries `m` has in the CURRENT store, after the write.  Second argument: the position in `mapSlice`. -/
def partitionMapLoopM (orders : Nat → Order) (fn : List (Int × Int) → Bool) :
    List Nat → Nat → MStore → List Nat → List Nat → Option (MStore × List Nat × List Nat)
  | [], _, μ, r0, r1 => some (μ, r0, r1)
  | m :: ms, i, μ, r0, r1 =>
    match orders i (mget μ m) with
    | [] => partitionMapLoopM orders fn ms (i + 1) μ r0 r1
    | (k, v) :: _ =>
      match mput μ m k v with                                       -- m[k] = v
      | none => none
      | some μ' =>
        if fn (mget μ' m) then partitionMapLoopM orders fn ms (i + 1) μ' (r0 ++ [m]) r1
        else partitionMapLoopM orders fn ms (i + 1) μ' r0 (r1 ++ [m])

/-- `var result = [2][]map[K]V{}`: two nil slices of map references (lists of ids) -/
def partitionMapStoreIn (orders : Nat → Order) (μ : MStore) (mapSlice : List Nat) (fn : List (Int × Int) → Bool) :
    Option (MStore × List Nat × List Nat) :=
  partitionMapLoopM orders fn mapSlice 0 μ [] []

/-! ## maps whose values are slice headers (`map[T2][]T1` of `GroupBy`, `map[T][]int` of `DuplicateWithIndex`) -/

/-- map objects with slice-header values, addressed by position; each is the list of its entries `(key, header)`;
the headers point into the ordinary slice store -/
abbrev HStore := List (List (Int × Slice))

def hget (η : HStore) (id : Nat) : List (Int × Slice) := (η[id]?).getD []

/-- `make(map[K][]T)` -/
def hnew (η : HStore) : HStore × Nat := (η ++ [[]], η.length)

/-- `m[k] = header` (`none`: no such object) -/
def hput (η : HStore) (id : Nat) (k : Int) (h : Slice) : Option HStore :=
  if id < η.length then some (η.modify id (fun m => Model.C14.put m k h)) else none

/-- the one-result index expression `m[k]`: the header stored, the zero value — a nil slice — for a missing key -/
def hindex (η : HStore) (id : Nat) (k : Int) : Slice :=
  (Model.C14.get? (hget η id) k).getD Model.StoreHelpers2.nilSlice

/-! ## GroupBy = mapByIndex(slice, Map(slice, fn)) (slice.go:465-483) -/

/-- `if _, ok := result[v]; !ok { result[v] = make([]T2, 0, len(mapSlice)) }` -/
def mbiEnsure (σ : Store) (η : HStore) (result : Nat) (v : Int) (cap : Nat) : Option (Store × HStore) :=
  match Model.C14.get? (hget η result) v with
  | some _ => some (σ, η)
  | none =>
    let a := alloc σ 0 cap
    match hput η result v a.2 with
    | none => none
    | some η' => some (a.1, η')

/-- `result[v] = append(result[v], x)`: the header is read from the current map, `Store.append` through it, the
new header is written into the map -/
def mbiAppend (σ : Store) (η : HStore) (result : Nat) (v x : Int) : Option (Store × HStore) :=
  let r := append σ (hindex η result v) x
  match hput η result v r.2 with
  | none => none
  | some η' => some (r.1, η')

/-- ```go
for idx, v := range mapSlice {
    if _, ok := result[v]; !ok { result[v] = make([]T2, 0, len(mapSlice)) }
    result[v] = append(result[v], origSlice[idx])
}
```
`mapSlice[idx]`, `origSlice[idx]` are read from the CURRENT slice store, `result[v]` from the current map; the
operand `origSlice[idx]` (which may panic: `len(origSlice) < len(mapSlice)`) is evaluated before `append` writes
anything -/
def mapByIndexLoopS (orig mapSlice : Slice) (result : Nat) : Nat → Nat → Store → HStore → Option (Store × HStore)
  | 0, _, σ, η => some (σ, η)
  | n + 1, idx, σ, η =>
    match read σ mapSlice idx with
    | none => none
    | some v =>
      match mbiEnsure σ η result v mapSlice.len with
      | none => none
      | some (σ1, η1) =>
        match read σ1 orig idx with                                  -- origSlice[idx]
        | none => none
        | some x =>
          match mbiAppend σ1 η1 result v x with
          | none => none
          | some (σ2, η2) => mapByIndexLoopS orig mapSlice result n (idx + 1) σ2 η2

/-- `result := make(map[T1][]T2); for …; return result` -/
def mapByIndexStore (σ : Store) (η : HStore) (orig mapSlice : Slice) : Option (Store × HStore × Nat) :=
  let r := hnew η
  match mapByIndexLoopS orig mapSlice r.2 mapSlice.len 0 σ r.1 with
  | none => none
  | some (σ', η') => some (σ', η', r.2)

/-- `return mapByIndex(slice, Map(slice, fn))` — `Map` is `mapStore` of `Model/StoreHelpers.lean` -/
def groupByStore (σ : Store) (η : HStore) (slice : Slice) (fn : Int → Int) : Option (Store × HStore × Nat) :=
  match mapStore σ slice fn with
  | none => none
  | some (σ1, keys) => mapByIndexStore σ1 η slice keys

/-! ## DuplicateWithIndex (slice.go:206-233) -/

/-- `kvMap[k][i] = x`: the header is read from the current map, the cell is written through it -/
def hwrite (σ : Store) (η : HStore) (id : Nat) (k : Int) (i : Nat) (x : Int) : Option Store :=
  write σ (hindex η id k) i x

/-- ```go
for idx, v := range slice {
    if _, ok := kvMap[v]; !ok {
        kvMap[v] = make([]int, 2); count = 1; kvMap[v][0] = idx; kvMap[v][1] = count
    } else { count++; kvMap[v][1] = count }
}
```
third argument: the ONE `count` variable shared by all values -/
def dupIdxLoopS (slice : Slice) (kvMap : Nat) : Nat → Nat → Int → Store → HStore → Option (Store × HStore)
  | 0, _, _, σ, η => some (σ, η)
  | n + 1, idx, count, σ, η =>
    match read σ slice idx with
    | none => none
    | some v =>
      match Model.C14.get? (hget η kvMap) v with
      | none =>
        let a := alloc σ 2 2                                         -- kvMap[v] = make([]int, 2)
        match hput η kvMap v a.2 with
        | none => none
        | some η1 =>
          match hwrite a.1 η1 kvMap v 0 (idx : Int) with             -- count = 1; kvMap[v][0] = idx
          | none => none
          | some σ2 =>
            match hwrite σ2 η1 kvMap v 1 1 with                      -- kvMap[v][1] = count
            | none => none
            | some σ3 => dupIdxLoopS slice kvMap n (idx + 1) 1 σ3 η1
      | some _ =>
        match hwrite σ η kvMap v 1 (count + 1) with                  -- count++; kvMap[v][1] = count
        | none => none
        | some σ1 => dupIdxLoopS slice kvMap n (idx + 1) (count + 1) σ1 η

/-- `for k, v := range kvMap { if v[1] > 1 { result[k] = v[0] } }` over the entries in the order given; `v[1]`,
`v[0]` are read from the slice store through the header `v` -/
def dupIdxCollectM (σ : Store) (result : Nat) : List (Int × Slice) → MStore → Option MStore
  | [], μ => some μ
  | (k, v) :: r, μ =>
    match read σ v 1 with
    | none => none
    | some c =>
      if c > 1 then
        match read σ v 0 with
        | none => none
        | some i =>
          match mput μ result k i with
          | none => none
          | some μ' => dupIdxCollectM σ result r μ'
      else dupIdxCollectM σ result r μ

/-- `kvMap := make(map[T][]int); result := make(map[T]int)`, the two loops, `return result`.  `order`: the
visiting order of `range kvMap`.  All three stores are returned: the slice store holds the two-cell arrays of
`kvMap`, the header-map store the local `kvMap` itself, the map store the result. -/
def duplicateWithIndexStoreIn (order : List (Int × Slice) → List (Int × Slice)) (σ : Store) (μ : MStore)
    (η : HStore) (slice : Slice) : Option (Store × MStore × HStore × Nat) :=
  let kv := hnew η
  let r := mnew μ
  match dupIdxLoopS slice kv.2 slice.len 0 0 σ kv.1 with
  | none => none
  | some (σ1, η1) =>
    match dupIdxCollectM σ1 r.2 (order (hget η1 kv.2)) r.1 with
    | none => none
    | some μ' => some (σ1, μ', η1, r.2)

end GoguVerif.Model.StoreHelpers5
