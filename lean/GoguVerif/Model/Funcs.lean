/-!
# Models of `After`, `Before`, `Once`, `Retry`, `RetryWithDelay` (`func.go`)

Each function follows the Go code statement by statement.  The caller-owned counter is an unbounded
`Int` (no wrap-around: side condition of the property).  The cache passed to `Before`/`Once` is
modelled by the one cell they use, key `"func"`: `Cell = Option (value, expiration)` with
`cache.Cache.Get` / `Set(…, DefaultExpiration)` exactly as in `cache/cache.go` (`exp ≤ 0`: never
expires; live iff `now ≤ exp`; `Set` refuses while a live entry exists).  `fresh` is the value the
callback returns if it is run by this call.
-/
namespace GoguVerif.Model.Funcs

/-! ## the cache cell `"func"` -/

abbrev Cell := Option (Int × Int)          -- (object, expiration)

/-- `c.Get("func")`: `none` = error (absent or expired) -/
def cellGet (now : Int) (c : Cell) : Option Int :=
  match c with
  | none => none
  | some (v, exp) => if exp > 0 then (if now > exp then none else some v) else some v

/-- expiration computed by `store` for `d = DefaultExpiration`: `expTime > 0 ⇒ now + expTime`,
`expTime < 0 ⇒ NoExpiration (-1)`, `expTime = 0 ⇒ 0` -/
def defaultExp (expTime now : Int) : Int :=
  if expTime > 0 then now + expTime else if expTime < 0 then -1 else 0

/-- `c.Set("func", v, DefaultExpiration)` (int values are never rejected) -/
def cellSet (expTime now : Int) (c : Cell) (v : Int) : Cell :=
  match c with
  | some (_, exp) => if exp ≤ 0 || now ≤ exp then c else some (v, defaultExp expTime now)
  | none => some (v, defaultExp expTime now)

/-! ## After -/

/-- one call of `After(&n, fn)`: returns the new counter and whether `fn` ran -/
def afterCall (n : Int) : Int × Bool := (n - 1, decide (n < 1))

/-- the run flags of `m` consecutive calls -/
def afterTrace : Int → Nat → List Bool
  | _, 0 => []
  | n, m + 1 => (afterCall n).2 :: afterTrace (afterCall n).1 m

/-! ## Before -/

structure BSt where
  n : Int
  cell : Cell := none
  runs : Nat := 0
deriving Repr, DecidableEq

/-- one call of `Before(&n, c, fn)`; `res k` is the value returned by the `k`-th run of the
callback (1-based).  Returns the new state, whether the callback ran, and the returned value. -/
def beforeCall (expTime now : Int) (res : Nat → Int) (s : BSt) : BSt × Bool × Int :=
  let n' := s.n - 1                                       -- *n--
  if n' > 0 then
    ({ s with n := n', runs := s.runs + 1 }, true, res (s.runs + 1))         -- return fn()
  else if n' = 0 then
    let v := res (s.runs + 1)
    let cell' := cellSet expTime now s.cell v             -- c.Set("func", fn(), DefaultExpiration)
    ({ n := n', cell := cell', runs := s.runs + 1 }, true, (cellGet now cell').getD 0)   -- memo.Val()
  else
    ({ s with n := n' }, false, (cellGet now s.cell).getD 0)

/-- `m` consecutive calls at one instant (no expiry in between): (ran, returned) per call -/
def beforeTrace (expTime now : Int) (res : Nat → Int) : BSt → Nat → List (Bool × Int)
  | _, 0 => []
  | s, m + 1 =>
    let r := beforeCall expTime now res s
    (r.2.1, r.2.2) :: beforeTrace expTime now res r.1 m

/-! ## Once -/

/-- one call of `Once(c, fn)` at instant `now`: new cell, whether the callback ran, returned value -/
def onceCall (expTime now : Int) (c : Cell) (fresh : Int) : Cell × Bool × Int :=
  match cellGet now c with                                -- memo, _ := c.Get("func")
  | none =>
    (cellSet expTime now c fresh, true, fresh)            -- val := fn(); c.Set(...); return val
  | some v => (c, false, v)                               -- return memo.Val()   (ONE lookup per call: /repo dc4805d)

/-! ## Retry -/

/-- outcome of the `i`-th callback invocation (0-based): `true` = failure; past the script: failure -/
def fails (script : List Bool) (i : Nat) : Bool := script.getD i true

/-- the loop `for attempt < n { if err = fn(); err == nil { return attempt, nil }; attempt++ }`,
`fuel = n - attempt`.  Returns (attempts reported, error reported?, callback invocations made). -/
def retryLoop (script : List Bool) : Nat → Nat → Bool → Nat × Bool × Nat
  | 0, attempt, lastErr => (attempt, lastErr, attempt)
  | fuel + 1, attempt, _ =>
    if fails script attempt then retryLoop script fuel (attempt + 1) true
    else (attempt, false, attempt + 1)

/-- `RType.Retry(n, fn)`: `n < 0` is rejected with an error and no call -/
def retry (n : Int) (script : List Bool) : Nat × Bool × Nat :=
  if n < 0 then (0, true, 0) else retryLoop script n.toNat 0 false

/-- `RetryWithDelay`: the same loop with `<-time.After(delay)` after every failure; `waits i` is the
time the `i`-th wait really took (a timer never fires early: `waits i ≥ delay` is the hypothesis).
Returns the instants (relative to the start) at which the callback was invoked. -/
def retryDelayStamps (script : List Bool) (waits : Nat → Int) : Nat → Nat → Int → List Int
  | 0, _, _ => []
  | fuel + 1, attempt, now =>
    if fails script attempt then now :: retryDelayStamps script waits fuel (attempt + 1) (now + waits attempt)
    else [now]

/-- The same loop when an attempt itself takes time: attempt `i` starts at `now`, runs for `durs i`,
and a failed attempt is followed by the wait.  Returns (start, end) per invocation. -/
def retryDelayTimes (script : List Bool) (waits durs : Nat → Int) : Nat → Nat → Int → List (Int × Int)
  | 0, _, _ => []
  | fuel + 1, attempt, now =>
    let fin := now + durs attempt
    if fails script attempt then
      (now, fin) :: retryDelayTimes script waits durs fuel (attempt + 1) (fin + waits attempt)
    else [(now, fin)]

end GoguVerif.Model.Funcs
